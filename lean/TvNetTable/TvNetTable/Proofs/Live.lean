/-
  Liveness of every socket in the table (repaired model, `fixReap = true`): each socket is
  owned by an application handle, or lingering after its application closed it, or an
  unaccepted child of a live listener (still in `SynReceived`, or waiting in an accept queue).
  Part 1: definitions and how the table primitives affect them.
-/
import TvNetTable.Proofs.InvKernel

namespace TV

def isListenerP (t : Table) (x : Fd) : Prop := ∃ l ∈ t.socks, l.fd = x ∧ l.listen.isSome = true

def exactKey (e : Ep) : BindKey := ⟨e.ip.v6, true, e.ip, e.port⟩
def wildKey (e : Ep) : BindKey := ⟨e.ip.v6, true, Ip.unspec e.ip.v6, e.port⟩

/-- some listening socket is bound to `ep` exactly or to the wildcard on `ep`'s port -/
def ListenerFor (t : Table) (ep : Ep) : Prop :=
  ∃ e ∈ t.bindings, (e.1 = exactKey ep ∨ e.1 = wildKey ep) ∧ ∃ x ∈ e.2, isListenerP t x

/-- `fd` waits in some listener's accept queue -/
def InReady (t : Table) (fd : Fd) : Prop := ∃ l ∈ t.socks, ∃ rd, l.listen = some rd ∧ fd ∈ rd

/-- an unaccepted child of a live listener -/
def IsChild (t : Table) (s : Sock) : Prop :=
  s.listen = none ∧ ∃ tc, s.tcb = some tc ∧
    ((tc.state = .synRecv ∧ s.bound.isSome = true ∧ ListenerFor t (Kernel.boundEp s)) ∨ InReady t s.fd)

/-- owned by a handle, lingering, or an unaccepted child -/
def LiveSock (t : Table) (owned : List Fd) (s : Sock) : Prop :=
  s.fd ∈ owned ∨ s.fdClosed = true ∨ IsChild t s

/-- the connection index points at sockets bound to the connection's local endpoint -/
def CInv (t : Table) : Prop :=
  ∀ c ∈ t.conns, c.2 < t.nextId ∧ ∀ s ∈ t.socks, s.fd = c.2 → Kernel.boundEp s = c.1.1

/-- listeners are application-owned, have no TCB and are stream sockets -/
def LOwn (t : Table) (owned : List Fd) : Prop :=
  ∀ s ∈ t.socks, s.listen.isSome = true → s.fd ∈ owned ∧ s.tcb = none ∧ s.tcp = true ∧ s.fdClosed = false

/-- accept-queue entries are fds below the counter, and a socket with such an fd has a TCB
    (so, by `LOwn`, it is not itself a listener) -/
def RInv (t : Table) : Prop :=
  ∀ l ∈ t.socks, ∀ rd, l.listen = some rd → ∀ y ∈ rd,
    y < t.nextId ∧ ∀ s ∈ t.socks, s.fd = y → s.tcb.isSome = true

structure Live (k : Kernel) (owned : List Fd) : Prop where
  tinv : TInv k.tbl
  cinv : CInv k.tbl
  rinv : RInv k.tbl
  lown : LOwn k.tbl owned
  live : ∀ s ∈ k.tbl.socks, LiveSock k.tbl owned s
  fix : k.fixReap = true

theorem get_of_mem (t : Table) (h : TInv t) (s : Sock) (hs : s ∈ t.socks) : t.get s.fd = some s := by
  unfold Table.get
  cases hf : t.socks.find? (·.fd == s.fd) with
  | none =>
    rw [List.find?_eq_none] at hf
    exact absurd (by simp) (hf s hs)
  | some s' =>
    have h1 := List.mem_of_find?_eq_some hf
    have h2 : s'.fd = s.fd := by simpa using List.find?_some hf
    rw [h.uniq s' h1 s hs h2]

/-! ### monotonicity under changes of `socks` / `bindings` -/

/-- a table `t'` keeps everything the child predicates of `t` look at -/
structure Extends (t t' : Table) (owned' : List Fd) : Prop where
  lst : ∀ x, isListenerP t x → isListenerP t' x
  bnd : ∀ e ∈ t.bindings, ∀ x ∈ e.2, isListenerP t x → ∃ e' ∈ t'.bindings, e'.1 = e.1 ∧ x ∈ e'.2
  rdy : ∀ y, InReady t y → InReady t' y ∨ y ∈ owned'

theorem listenerFor_ext {t t' : Table} {o : List Fd} (h : Extends t t' o) (ep : Ep)
    (hl : ListenerFor t ep) : ListenerFor t' ep := by
  obtain ⟨e, he, hk, x, hx, hlx⟩ := hl
  obtain ⟨e', he', hk', hx'⟩ := h.bnd e he x hx hlx
  exact ⟨e', he', by rw [hk']; exact hk, x, hx', h.lst x hlx⟩

/-- a socket untouched by the change stays live -/
theorem liveSock_ext {t t' : Table} {o o' : List Fd} (h : Extends t t' o') (hsub : ∀ x ∈ o, x ∈ o')
    (s : Sock) (hl : LiveSock t o s) : LiveSock t' o' s := by
  rcases hl with h1 | h1 | ⟨hn, tc, htc, h1⟩
  · exact Or.inl (hsub _ h1)
  · exact Or.inr (Or.inl h1)
  · rcases h1 with ⟨hs, hb, hlf⟩ | hr
    · exact Or.inr (Or.inr ⟨hn, tc, htc, Or.inl ⟨hs, hb, listenerFor_ext h _ hlf⟩⟩)
    · rcases h.rdy _ hr with hr' | ho
      · exact Or.inr (Or.inr ⟨hn, tc, htc, Or.inr hr'⟩)
      · exact Or.inl ho

theorem extends_refl_of_eq {t t' : Table} (o : List Fd) (hb : t'.bindings = t.bindings)
    (hs : t'.socks = t.socks) : Extends t t' o := by
  refine ⟨?_, ?_, ?_⟩
  · intro x ⟨l, hl, h1, h2⟩; exact ⟨l, by rw [hs]; exact hl, h1, h2⟩
  · intro e he x hx _; exact ⟨e, by rw [hb]; exact he, rfl, hx⟩
  · intro y ⟨l, hl, rd, h1, h2⟩; exact Or.inl ⟨l, by rw [hs]; exact hl, rd, h1, h2⟩

open Table in
/-- `modify` by a function that keeps `fd`, keeps listeners listening and only lets go of
    accept-queue entries that are owned afterwards -/
theorem extends_modify (t : Table) (fd : Fd) (f : Sock → Sock) (o' : List Fd)
    (hfd : ∀ s, (f s).fd = s.fd)
    (hls : ∀ s ∈ t.socks, s.fd = fd → s.listen.isSome = true → (f s).listen.isSome = true)
    (hrd : ∀ s ∈ t.socks, s.fd = fd → ∀ rd, s.listen = some rd →
      ∃ rd', (f s).listen = some rd' ∧ ∀ y ∈ rd, y ∈ rd' ∨ y ∈ o') :
    Extends t (t.modify fd f) o' := by
  have hgfd := modFn_fd fd f hfd
  refine ⟨?_, ?_, ?_⟩
  · intro x ⟨l, hl, h1, h2⟩
    refine ⟨modFn fd f l, List.mem_map_of_mem hl, by rw [hgfd, h1], ?_⟩
    by_cases hlf : l.fd = fd
    · rw [modFn_eq fd f l hlf]; exact hls l hl hlf h2
    · rw [modFn_ne fd f l hlf]; exact h2
  · intro e he x hx _; exact ⟨e, he, rfl, hx⟩
  · intro y ⟨l, hl, rd, h1, h2⟩
    by_cases hlf : l.fd = fd
    · obtain ⟨rd', h3, h4⟩ := hrd l hl hlf rd h1
      rcases h4 y h2 with h5 | h5
      · exact Or.inl ⟨modFn fd f l, List.mem_map_of_mem hl, rd', by rw [modFn_eq fd f l hlf]; exact h3, h5⟩
      · exact Or.inr h5
    · exact Or.inl ⟨modFn fd f l, List.mem_map_of_mem hl, rd, by rw [modFn_ne fd f l hlf]; exact h1, h2⟩

theorem extends_insertWith (t : Table) (mk : Fd → Sock) (o : List Fd) : Extends t (t.insertWith mk).1 o := by
  refine ⟨?_, ?_, ?_⟩
  · intro x ⟨l, hl, h1, h2⟩; exact ⟨l, List.mem_cons_of_mem _ hl, h1, h2⟩
  · intro e he x hx _; exact ⟨e, he, rfl, hx⟩
  · intro y ⟨l, hl, rd, h1, h2⟩; exact Or.inl ⟨l, List.mem_cons_of_mem _ hl, rd, h1, h2⟩

theorem extends_insertBinding (t : Table) (k : BindKey) (fd : Fd) (o : List Fd) :
    Extends t (t.insertBinding k fd) o := by
  refine ⟨fun x h => h, ?_, fun y h => Or.inl h⟩
  intro e he x hx _
  obtain ⟨e', he', h1, h2⟩ := insertBindingL_mono t.bindings k fd e he
  exact ⟨e', he', h1, h2 x hx⟩

theorem extends_trans {t1 t2 t3 : Table} {o : List Fd} (h12 : Extends t1 t2 o) (h23 : Extends t2 t3 o) :
    Extends t1 t3 o := by
  refine ⟨fun x h => h23.lst x (h12.lst x h), ?_, ?_⟩
  · intro e he x hx hl
    obtain ⟨e', he', h1, h2⟩ := h12.bnd e he x hx hl
    obtain ⟨e'', he'', h1', h2'⟩ := h23.bnd e' he' x h2 (h12.lst x hl)
    exact ⟨e'', he'', by rw [h1', h1], h2'⟩
  · intro y hy
    rcases h12.rdy y hy with h | h
    · exact h23.rdy y h
    · exact Or.inr h

/-- removing a socket that is not a listener -/
theorem extends_remove (t : Table) (fd : Fd) (o : List Fd)
    (hnl : ∀ l ∈ t.socks, l.fd = fd → l.listen = none) : Extends t (t.remove fd) o := by
  have hne : ∀ x, isListenerP t x → x ≠ fd := by
    intro x ⟨l, hl, h1, h2⟩ hx
    rw [hnl l hl (by rw [h1, hx])] at h2
    simp at h2
  have hsocks : (t.remove fd).socks = t.socks.filter (·.fd != fd) := rfl
  refine ⟨?_, ?_, ?_⟩
  · intro x hx
    have hxne := hne x hx
    obtain ⟨l, hl, h1, h2⟩ := hx
    exact ⟨l, by rw [hsocks, List.mem_filter]; exact ⟨hl, by rw [h1]; simpa using hxne⟩, h1, h2⟩
  · intro e he x hx hlx
    have hxne := hne x hlx
    have hmem : x ∈ e.2.filter (· != fd) := List.mem_filter.mpr ⟨hx, by simpa using hxne⟩
    exact ⟨(e.1, e.2.filter (· != fd)), (mem_remove_bindings t fd _).mpr ⟨e, he, List.ne_nil_of_mem hmem, rfl⟩,
      rfl, hmem⟩
  · intro y ⟨l, hl, rd, h1, h2⟩
    have : l.fd ≠ fd := by
      intro hh
      rw [hnl l hl hh] at h1
      simp at h1
    exact Or.inl ⟨l, by rw [hsocks, List.mem_filter]; exact ⟨hl, by simpa using this⟩, rd, h1, h2⟩

/-! ### the connection index under the primitives -/

theorem boundEp_congr (s s' : Sock) (hb : s'.bound = s.bound) (hv : s'.v6 = s.v6) :
    Kernel.boundEp s' = Kernel.boundEp s := by
  unfold Kernel.boundEp
  rw [hb, hv]

open Table in
theorem cinv_modify (t : Table) (fd : Fd) (f : Sock → Sock) (hfd : ∀ s, (f s).fd = s.fd)
    (hb : ∀ s, (f s).bound = s.bound) (hv : ∀ s, (f s).v6 = s.v6) (h : CInv t) : CInv (t.modify fd f) := by
  intro c hc
  refine ⟨(h c hc).1, ?_⟩
  intro s' hs' hfd'
  rw [modify_socks, List.mem_map] at hs'
  obtain ⟨s, hs, rfl⟩ := hs'
  rw [modFn_fd fd f hfd] at hfd'
  have := (h c hc).2 s hs hfd'
  rw [← this]
  apply boundEp_congr
  · unfold modFn; split <;> simp [hb]
  · unfold modFn; split <;> simp [hv]

theorem cinv_remove (t : Table) (fd : Fd) (h : CInv t) : CInv (t.remove fd) := by
  intro c hc
  simp only [Table.remove, List.mem_filter] at hc
  refine ⟨(h c hc.1).1, ?_⟩
  intro s hs hfd'
  simp only [Table.remove, List.mem_filter] at hs
  exact (h c hc.1).2 s hs.1 hfd'

theorem cinv_insertWith (t : Table) (mk : Fd → Sock) (h : CInv t) : CInv (t.insertWith mk).1 := by
  intro c hc
  have hc' : c ∈ t.conns := hc
  refine ⟨Nat.lt_succ_of_lt (h c hc').1, ?_⟩
  intro s hs hfd'
  simp only [Table.insertWith, List.mem_cons] at hs
  rcases hs with rfl | hs
  · have := (h c hc').1
    have h2 : t.nextId = c.2 := hfd'
    rw [← h2] at this
    exact absurd this (Nat.lt_irrefl _)
  · exact (h c hc').2 s hs hfd'

theorem cinv_congr {t t' : Table} (hc : t'.conns = t.conns) (hs : t'.socks = t.socks)
    (hn : t'.nextId = t.nextId) (h : CInv t) : CInv t' := by
  intro c hc'
  rw [hc] at hc'
  rw [hs, hn]
  exact h c hc'

open Table in
/-- binding a socket that has no connection entry yet -/
theorem cinv_bindFd (t : Table) (fd : Fd) (key : BindKey) (f : Sock → Sock) (hfd : ∀ s, (f s).fd = s.fd)
    (hno : ∀ c ∈ t.conns, c.2 ≠ fd) (h : CInv t) : CInv ((t.insertBinding key fd).modify fd f) := by
  intro c hc
  have hc' : c ∈ t.conns := hc
  refine ⟨(h c hc').1, ?_⟩
  intro s' hs' hfd'
  have hs'' : s' ∈ t.socks.map (modFn fd f) := hs'
  rw [List.mem_map] at hs''
  obtain ⟨s, hs, rfl⟩ := hs''
  rw [modFn_fd fd f hfd] at hfd'
  have hne : s.fd ≠ fd := by rw [hfd']; exact hno c hc'
  rw [modFn_ne fd f s hne]
  exact (h c hc').2 s hs hfd'

theorem mem_insertConnL (cs : List ((Ep × Ep) × Fd)) (key : Ep × Ep) (fd : Fd) (c : (Ep × Ep) × Fd)
    (hc : c ∈ Table.insertConnL cs key fd) : c = (key, fd) ∨ c ∈ cs := by
  induction cs with
  | nil => simp [Table.insertConnL] at hc; exact Or.inl hc
  | cons x xs ih =>
    obtain ⟨k', f'⟩ := x
    simp only [Table.insertConnL] at hc
    split at hc
    · rename_i hk
      simp only [List.mem_cons] at hc
      rcases hc with rfl | hc
      · left
        have : k' = key := by simpa using hk
        rw [this]
      · exact Or.inr (List.mem_cons_of_mem _ hc)
    · simp only [List.mem_cons] at hc
      rcases hc with rfl | hc
      · exact Or.inr (List.mem_cons_self ..)
      · rcases ih hc with h | h
        · exact Or.inl h
        · exact Or.inr (List.mem_cons_of_mem _ h)

theorem cinv_insertConn (t : Table) (l r : Ep) (fd : Fd) (hlt : fd < t.nextId)
    (hb : ∀ s ∈ t.socks, s.fd = fd → Kernel.boundEp s = l) (h : CInv t) : CInv (t.insertConn l r fd) := by
  intro c hc
  rcases mem_insertConnL t.conns (l, r) fd c hc with rfl | hc'
  · exact ⟨hlt, hb⟩
  · exact h c hc'

/-! ### the accept queues under the primitives -/

open Table in
theorem rinv_modify (t : Table) (fd : Fd) (f : Sock → Sock) (hfd : ∀ s, (f s).fd = s.fd)
    (htcb : ∀ s, s.tcb.isSome = true → (f s).tcb.isSome = true)
    (hq : ∀ s ∈ t.socks, s.fd = fd → ∀ rd', (f s).listen = some rd' → ∀ y ∈ rd',
      y < t.nextId ∧ ∀ s2 ∈ t.socks, s2.fd = y → s2.tcb.isSome = true)
    (h : RInv t) : RInv (t.modify fd f) := by
  have key : ∀ y, (y < t.nextId ∧ ∀ s2 ∈ t.socks, s2.fd = y → s2.tcb.isSome = true) →
      (y < (t.modify fd f).nextId ∧ ∀ s2 ∈ (t.modify fd f).socks, s2.fd = y → s2.tcb.isSome = true) := by
    intro y ⟨h1, h2⟩
    refine ⟨h1, ?_⟩
    intro s2' hs2' hy
    rw [modify_socks, List.mem_map] at hs2'
    obtain ⟨s2, hs2, rfl⟩ := hs2'
    rw [modFn_fd fd f hfd] at hy
    have := h2 s2 hs2 hy
    unfold modFn
    split
    · exact htcb s2 this
    · exact this
  intro l' hl' rd hrd y hy
  rw [modify_socks, List.mem_map] at hl'
  obtain ⟨l, hl, rfl⟩ := hl'
  apply key
  by_cases hlf : l.fd = fd
  · rw [modFn_eq fd f l hlf] at hrd
    exact hq l hl hlf rd hrd y hy
  · rw [modFn_ne fd f l hlf] at hrd
    exact h l hl rd hrd y hy

/-- the common case: `listen` is left alone -/
theorem rinv_modify_keep (t : Table) (fd : Fd) (f : Sock → Sock) (hfd : ∀ s, (f s).fd = s.fd)
    (htcb : ∀ s, s.tcb.isSome = true → (f s).tcb.isSome = true) (hl : ∀ s, (f s).listen = s.listen)
    (h : RInv t) : RInv (t.modify fd f) :=
  rinv_modify t fd f hfd htcb (fun s hs _ rd' hrd y hy => h s hs rd' (by rw [← hl]; exact hrd) y hy) h

theorem rinv_remove (t : Table) (fd : Fd) (h : RInv t) : RInv (t.remove fd) := by
  intro l hl rd hrd y hy
  simp only [Table.remove, List.mem_filter] at hl
  obtain ⟨h1, h2⟩ := h l hl.1 rd hrd y hy
  refine ⟨h1, ?_⟩
  intro s hs hfd
  simp only [Table.remove, List.mem_filter] at hs
  exact h2 s hs.1 hfd

theorem rinv_insertWith (t : Table) (mk : Fd → Sock) (hml : ∀ n, (mk n).listen = none) (h : RInv t) :
    RInv (t.insertWith mk).1 := by
  intro l hl rd hrd y hy
  simp only [Table.insertWith, List.mem_cons] at hl
  rcases hl with rfl | hl
  · simp [hml] at hrd
  · obtain ⟨h1, h2⟩ := h l hl rd hrd y hy
    refine ⟨Nat.lt_succ_of_lt h1, ?_⟩
    intro s hs hfd
    simp only [Table.insertWith, List.mem_cons] at hs
    rcases hs with rfl | hs
    · have h3 : t.nextId = y := hfd
      rw [← h3] at h1
      exact absurd h1 (Nat.lt_irrefl _)
    · exact h2 s hs hfd

theorem rinv_congr {t t' : Table} (hs : t'.socks = t.socks) (hn : t'.nextId = t.nextId) (h : RInv t) :
    RInv t' := by
  intro l hl rd hrd y hy
  rw [hs] at hl
  rw [hs, hn]
  exact h l hl rd hrd y hy

/-! ### assembling a step -/

/-- One kernel step, given: the new table satisfies the index invariants, extends the old one,
    and every socket of the new table is an old socket that keeps its owner, or is shown live
    (and, if it listens, owned) directly. -/
theorem live_step {k k' : Kernel} {o o' : List Fd} (h : Live k o) (hfix : k'.fixReap = true)
    (ht : TInv k'.tbl) (hc : CInv k'.tbl) (hr : RInv k'.tbl) (hext : Extends k.tbl k'.tbl o')
    (hs : ∀ s' ∈ k'.tbl.socks, (s' ∈ k.tbl.socks ∧ (s'.fd ∈ o → s'.fd ∈ o')) ∨
      (LiveSock k'.tbl o' s' ∧ (s'.listen.isSome = true → s'.fd ∈ o' ∧ s'.tcb = none ∧ s'.tcp = true ∧ s'.fdClosed = false))) :
    Live k' o' := by
  refine ⟨ht, hc, hr, ?_, ?_, hfix⟩
  · intro s' hs' hl
    rcases hs s' hs' with ⟨hold, hsub⟩ | ⟨_, hnew⟩
    · obtain ⟨h1, h2, h3, h4⟩ := h.lown s' hold hl
      exact ⟨hsub h1, h2, h3, h4⟩
    · exact hnew hl
  · intro s' hs'
    rcases hs s' hs' with ⟨hold, hsub⟩ | ⟨hnew, _⟩
    · rcases h.live s' hold with h1 | h1 | ⟨hn, tc, htc, h1⟩
      · exact Or.inl (hsub h1)
      · exact Or.inr (Or.inl h1)
      · rcases h1 with ⟨hsr, hb, hlf⟩ | hr
        · exact Or.inr (Or.inr ⟨hn, tc, htc, Or.inl ⟨hsr, hb, listenerFor_ext hext _ hlf⟩⟩)
        · rcases hext.rdy _ hr with hr' | ho
          · exact Or.inr (Or.inr ⟨hn, tc, htc, Or.inr hr'⟩)
          · exact Or.inl ho
    · exact hnew

/-- a socket of the old table, re-examined in an extension of it -/
theorem liveSock_ext' {t t' : Table} {o o' : List Fd} (h : Extends t t' o') (s : Sock)
    (hsub : s.fd ∈ o → s.fd ∈ o') (hl : LiveSock t o s) : LiveSock t' o' s := by
  rcases hl with h1 | h1 | ⟨hn, tc, htc, h1⟩
  · exact Or.inl (hsub h1)
  · exact Or.inr (Or.inl h1)
  · rcases h1 with ⟨hs, hb, hlf⟩ | hr
    · exact Or.inr (Or.inr ⟨hn, tc, htc, Or.inl ⟨hs, hb, listenerFor_ext h _ hlf⟩⟩)
    · rcases h.rdy _ hr with hr' | ho
      · exact Or.inr (Or.inr ⟨hn, tc, htc, Or.inr hr'⟩)
      · exact Or.inl ho

end TV
