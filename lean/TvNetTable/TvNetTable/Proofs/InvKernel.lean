/-
  Every kernel operation preserves the table invariant `TInv`.
-/
import TvNetTable.Proofs.Inv

namespace TV
namespace Kernel

/-- the invariant of a kernel is the invariant of its table -/
abbrev KInv (k : Kernel) : Prop := TInv k.tbl

theorem foldl_kinv {α : Type} (step : Kernel → α → Kernel) (hstep : ∀ k a, KInv k → KInv (step k a))
    (l : List α) (k : Kernel) (h : KInv k) : KInv (l.foldl step k) := by
  induction l generalizing k with
  | nil => exact h
  | cons a l ih => exact ih _ (hstep k a h)

theorem kinv_emit (k : Kernel) (p : Pkt) (h : KInv k) : KInv (k.emit p) := h

theorem kinv_modTcb (k : Kernel) (fd : Fd) (f : Tcb → Tcb) (h : KInv k) : KInv (k.modTcb fd f) :=
  tinv_modify _ _ _ (fun _ => rfl) (fun _ => rfl) h

theorem kinv_remove (k : Kernel) (fd : Fd) (h : KInv k) : KInv { k with tbl := k.tbl.remove fd } :=
  tinv_remove _ _ h

theorem kinv_allocatePort (t : Table) (v6 tcp : Bool) (h : TInv t) : TInv (t.allocatePort v6 tcp).2 :=
  tinv_congr (t := t) (t' := (t.allocatePort v6 tcp).2) rfl rfl rfl h

theorem kinv_insertConn (t : Table) (l r : Ep) (fd : Fd) (h : TInv t) : TInv (t.insertConn l r fd) :=
  tinv_congr (t := t) (t' := t.insertConn l r fd) rfl rfl rfl h

theorem kinv_bind (k : Kernel) (ip : Ip) (port : Nat) (tcp : Bool) (k' : Kernel) (fd : Fd)
    (hk : k.bind ip port tcp = .ok (k', fd)) (h : KInv k) : KInv k' := by
  unfold bind at hk
  split at hk
  · simp at hk
  · cases hpt : (if (port == 0) = true then k.tbl.allocatePort ip.v6 tcp else (some port, k.tbl)) with
    | mk port? tbl =>
      rw [hpt] at hk
      have htbl : TInv tbl := by
        split at hpt
        · have := kinv_allocatePort k.tbl ip.v6 tcp h
          rw [hpt] at this; exact this
        · simp only [Prod.mk.injEq] at hpt
          rw [← hpt.2]; exact h
      cases port? with
      | none => simp at hk
      | some p =>
        dsimp only at hk
        split at hk
        · simp at hk
        · simp only [Except.ok.injEq, Prod.mk.injEq] at hk
          obtain ⟨rfl, _⟩ := hk
          exact tinv_bindNew tbl _ _ (fun _ => rfl) htbl

theorem kinv_listen (k : Kernel) (fd : Fd) (h : KInv k) : KInv (k.listen fd) :=
  tinv_modify _ _ _ (fun _ => rfl) (fun _ => rfl) h

theorem kinv_udpConnect (k : Kernel) (fd : Fd) (peer : Ep) (k' : Kernel)
    (hk : k.udpConnect fd peer = .ok k') (h : KInv k) : KInv k' := by
  unfold udpConnect at hk
  split at hk
  · simp at hk
  · split at hk
    · simp at hk
    · simp only [Except.ok.injEq] at hk
      subst hk
      exact tinv_modify _ _ _ (fun _ => rfl) (fun _ => rfl) h

theorem kinv_udpSendTo (k : Kernel) (fd : Fd) (dst : Ep) (tag : Nat) (k' : Kernel)
    (hk : k.udpSendTo fd dst tag = .ok k') (h : KInv k) : KInv k' := by
  unfold udpSendTo at hk
  split at hk
  · simp at hk
  · split at hk
    · simp at hk
    · split at hk
      · simp at hk
      · simp only [Except.ok.injEq] at hk
        subst hk
        exact h

theorem kinv_udpSend (k : Kernel) (fd : Fd) (tag : Nat) (k' : Kernel)
    (hk : k.udpSend fd tag = .ok k') (h : KInv k) : KInv k' := by
  unfold udpSend at hk
  split at hk
  · simp at hk
  · split at hk
    · simp at hk
    · exact kinv_udpSendTo k fd _ tag k' hk h

theorem kinv_recvFrom (k : Kernel) (fd : Fd) (k' : Kernel) (e : Ep) (tag : Nat)
    (hk : k.recvFrom fd = some (k', e, tag)) (h : KInv k) : KInv k' := by
  unfold recvFrom at hk
  split at hk
  · simp at hk
  · split at hk
    · simp at hk
    · simp only [Option.some.injEq, Prod.mk.injEq] at hk
      obtain ⟨rfl, _⟩ := hk
      exact tinv_modify _ _ _ (fun _ => rfl) (fun _ => rfl) h

theorem kinv_deliverUdp (k : Kernel) (s d : Ep) (t : Nat) (h : KInv k) : KInv (k.deliverUdp s d t) := by
  unfold deliverUdp
  repeat' split
  all_goals first | exact h | exact tinv_modify _ _ _ (fun _ => rfl) (fun _ => rfl) h

theorem get_mem (t : Table) (fd : Fd) (s : Sock) (h : t.get fd = some s) : s ∈ t.socks ∧ s.fd = fd := by
  unfold Table.get at h
  exact ⟨List.mem_of_find?_eq_some h, by simpa using List.find?_some h⟩

theorem kinv_acceptSyn (k : Kernel) (lfd : Fd) (l r : Ep) (h : KInv k) : KInv (k.acceptSyn lfd l r) := by
  unfold acceptSyn
  split
  · exact h
  · rename_i ls _
    simp only []
    split
    · exact h
    · apply kinv_emit
      apply kinv_insertConn
      have h1 := tinv_insertWith k.tbl (fun fd => { fd := fd, v6 := ls.v6, tcp := ls.tcp }) (fun _ => rfl) h
      exact tinv_bindFd _ k.tbl.nextId _ _ (fun _ => rfl) (fun _ => rfl)
        { fd := k.tbl.nextId, v6 := ls.v6, tcp := ls.tcp } (by simp [Table.insert, Table.insertWith]) rfl rfl h1

theorem kinv_pushToListener (k : Kernel) (c : Fd) (l : Ep) (h : KInv k) : KInv (k.pushToListener c l) := by
  unfold pushToListener
  split
  · exact h
  · exact tinv_modify _ _ _ (fun _ => rfl) (fun _ => rfl) h

theorem kinv_handleEstablished (k : Kernel) (fd : Fd) (l r : Ep) (sy a f : Bool) (h : KInv k) :
    KInv (k.handleEstablished fd l r sy a f) := by
  unfold handleEstablished
  repeat' (first | exact h | split | (dsimp only; split))
  all_goals first | exact h | exact kinv_modTcb _ _ _ h | exact kinv_emit _ _ (kinv_modTcb _ _ _ h)

theorem kinv_handleOnConn (k : Kernel) (fd : Fd) (l r : Ep) (sy a f rs hs : Bool) (h : KInv k) :
    KInv (k.handleOnConn fd l r sy a f rs hs) := by
  unfold handleOnConn
  repeat' (first | exact h | split | (dsimp only; split))
  all_goals first
    | exact h
    | exact kinv_remove _ _ h
    | exact kinv_modTcb _ _ _ h
    | exact kinv_emit _ _ (kinv_modTcb _ _ _ h)
    | exact kinv_pushToListener _ _ _ (kinv_modTcb _ _ _ h)
    | exact kinv_handleEstablished _ _ _ _ _ _ _ h

theorem kinv_deliverTcp (k : Kernel) (s d : Ep) (sy a f r hs : Bool) (h : KInv k) :
    KInv (k.deliverTcp s d sy a f r hs) := by
  unfold deliverTcp
  split
  · exact kinv_handleOnConn _ _ _ _ _ _ _ _ _ h
  · exact kinv_acceptSyn _ _ _ _ h
  · exact h
  · exact h

theorem kinv_deliver (k : Kernel) (p : Pkt) (h : KInv k) : KInv (k.deliver p) := by
  unfold deliver
  split
  · exact kinv_deliverUdp _ _ _ _ h
  · exact kinv_deliverTcp _ _ _ _ _ _ _ _ h
  · exact kinv_deliverTcp _ _ _ _ _ _ _ _ h

theorem kinv_segmentAll (k : Kernel) (h : KInv k) : KInv k.segmentAll := by
  unfold segmentAll
  apply foldl_kinv _ _ _ _ h
  intro k s0 hk
  repeat' split
  all_goals first | exact hk | exact kinv_emit _ _ (kinv_modTcb _ _ _ hk)

theorem kinv_checkRetx (k : Kernel) (h : KInv k) : KInv k.checkRetx := by
  unfold checkRetx
  apply foldl_kinv _ _ _ _ h
  intro k s0 hk
  repeat' (first | exact hk | split | (dsimp only; split))
  all_goals first
    | exact hk
    | exact kinv_remove _ _ hk
    | exact kinv_modTcb _ _ _ hk
    | exact kinv_emit _ _ (kinv_modTcb _ _ _ hk)

theorem foldl_remove_tinv (l : List Sock) (t : Table) (h : TInv t) :
    TInv (l.foldl (fun t s => t.remove s.fd) t) := by
  induction l generalizing t with
  | nil => exact h
  | cons a l ih => exact ih _ (tinv_remove _ _ h)

theorem kinv_reapClosed (k : Kernel) (h : KInv k) : KInv k.reapClosed := by
  unfold reapClosed
  exact foldl_remove_tinv _ _ h

theorem kinv_drainOutbound (k : Kernel) (drained out : List Pkt) (h : KInv k) :
    KInv (drainOutbound k drained out).1 := by
  induction drained generalizing k out with
  | nil => exact h
  | cons q qs ih =>
    unfold drainOutbound
    simp only [List.foldl_cons]
    split
    · exact ih (k.deliver q) out (kinv_deliver _ _ h)
    · exact ih k (out ++ [q]) h

theorem kinv_egressLoop (fuel : Nat) (k : Kernel) (out : List Pkt) (h : KInv k) :
    KInv (egressLoop fuel k out).1 := by
  induction fuel generalizing k out with
  | zero => exact h
  | succ n ih =>
    unfold egressLoop
    simp only []
    split
    · exact kinv_segmentAll _ h
    · apply ih
      apply kinv_drainOutbound
      exact kinv_segmentAll _ h

theorem kinv_egress (k : Kernel) (out : List Pkt) (h : KInv k) : KInv (k.egress out).1 := by
  unfold egress
  exact kinv_reapClosed _ (kinv_egressLoop _ _ _ (kinv_checkRetx _ h))

theorem kinv_autoBind (k : Kernel) (fd : Fd) (tcp : Bool) (dst : Ip) (k' : Kernel) (key : BindKey)
    (s0 : Sock) (hs0 : s0 ∈ k.tbl.socks) (hfd : s0.fd = fd) (hb : s0.bound = none)
    (hk : k.autoBind fd tcp dst = .ok (k', key)) (h : KInv k) : KInv k' := by
  unfold autoBind at hk
  dsimp only at hk
  split at hk
  · simp at hk
  · cases hpt : k.tbl.allocatePort dst.v6 tcp with
    | mk port? tbl =>
      rw [hpt] at hk
      have htbl : TInv tbl := by
        have := kinv_allocatePort k.tbl dst.v6 tcp h
        rw [hpt] at this; exact this
      have hsocks : tbl.socks = k.tbl.socks := by
        have h2 : (k.tbl.allocatePort dst.v6 tcp).2.socks = k.tbl.socks := rfl
        rw [hpt] at h2; exact h2
      cases port? with
      | none => simp at hk
      | some p =>
        simp only [Except.ok.injEq, Prod.mk.injEq] at hk
        obtain ⟨rfl, _⟩ := hk
        exact tinv_bindFd tbl fd _ _ (fun _ => rfl) (fun _ => rfl) s0 (by rw [hsocks]; exact hs0) hfd hb htbl

theorem kinv_tcpConnectStart (k : Kernel) (peer : Ep) (h : KInv k) :
    (∀ e k', k.tcpConnectStart peer = .error (e, k') → KInv k') ∧
    (∀ k' fd, k.tcpConnectStart peer = .ok (k', fd) → KInv k') := by
  have h1 : KInv { k with tbl := (k.tbl.insert peer.ip.v6 true).1 } :=
    tinv_insertWith k.tbl (fun fd => { fd := fd, v6 := peer.ip.v6, tcp := true }) (fun _ => rfl) h
  constructor
  · intro e k' hk
    unfold tcpConnectStart at hk
    simp only [] at hk
    split at hk
    · simp only [Except.error.injEq, Prod.mk.injEq] at hk
      obtain ⟨_, rfl⟩ := hk
      exact tinv_remove _ _ h1
    · simp at hk
  · intro k' fd hk
    unfold tcpConnectStart at hk
    simp only [] at hk
    split at hk
    · simp at hk
    · rename_i k2 key hab
      simp only [Except.ok.injEq, Prod.mk.injEq] at hk
      obtain ⟨rfl, _⟩ := hk
      have h2 : KInv k2 := kinv_autoBind _ _ _ _ _ _
        { fd := k.tbl.nextId, v6 := peer.ip.v6, tcp := true } (by simp [Table.insert, Table.insertWith]) rfl rfl hab h1
      apply kinv_emit
      apply kinv_insertConn
      exact tinv_modify _ _ _ (fun _ => rfl) (fun _ => rfl) h2

theorem kinv_close (k : Kernel) (fd : Fd) (h : KInv k) : KInv (k.close fd) := by
  unfold close
  split
  · exact h
  · split
    · split
      · apply kinv_remove
        apply foldl_kinv _ _ _ _ h
        intro k c hk
        repeat' split
        all_goals first | exact hk | exact kinv_remove _ _ hk | exact kinv_remove _ _ (kinv_emit _ _ hk)
      · exact kinv_remove _ _ h
    · split
      · have h1 : KInv { k with tbl := k.tbl.modify fd fun s => { s with fdClosed := true } } :=
          tinv_modify _ _ _ (fun _ => rfl) (fun _ => rfl) h
        simp only []
        split
        · exact h1
        · exact kinv_modTcb _ _ _ h1
      · exact kinv_remove _ _ h
    · exact kinv_remove _ _ h

theorem kinv_accept (k : Kernel) (fd : Fd) (k' : Kernel) (c : Fd) (p : Ep)
    (hk : k.accept fd = some (k', c, p)) (h : KInv k) : KInv k' := by
  unfold accept at hk
  repeat' split at hk
  all_goals first
    | (simp at hk; done)
    | (simp only [Option.some.injEq, Prod.mk.injEq] at hk
       obtain ⟨rfl, _⟩ := hk
       exact tinv_modify _ _ _ (fun _ => rfl) (fun _ => rfl) h)

end Kernel
end TV
