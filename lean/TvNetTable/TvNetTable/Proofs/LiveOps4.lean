/-
  Liveness under `egress` (retransmission sweep, FIN emission, local fold-back, reaping).
-/
import TvNetTable.Proofs.LiveOps3

namespace TV
namespace Kernel

theorem hns_same_state (k : Kernel) (fd : Fd) (g : Tcb → Tcb) (hg : ∀ tc, (g tc).state = tc.state) :
    ∀ s ∈ k.tbl.socks, s.fd = fd → ∀ tc, s.tcb = some tc → tc.state ≠ .synRecv ∨ (g tc).state = .synRecv := by
  intro s _ _ tc _
  by_cases h : tc.state = .synRecv
  · exact Or.inr (by rw [hg, h])
  · exact Or.inl h

theorem hnl_of_tcb (k : Kernel) (o : List Fd) (h : Live k o) (s : Sock) (hs : s ∈ k.tbl.socks) (tc : Tcb)
    (htc : s.tcb = some tc) : ∀ l ∈ k.tbl.socks, l.fd = s.fd → l.listen = none := by
  intro l hl hfd
  have := h.tinv.uniq l hl s hs hfd
  rw [this]
  exact not_listener_of_tcb k o h s hs tc htc

theorem live_segmentAll (k : Kernel) (o : List Fd) (h : Live k o) : Live k.segmentAll o := by
  unfold segmentAll
  apply foldl_live o _ _ _ _ h
  intro k s0 hk
  repeat' split
  all_goals first
    | exact hk
    | exact live_emit _ (live_modTcb k _ _ o (hns_same_state k _ _ (fun _ => rfl)) hk)

theorem live_checkRetx (k : Kernel) (o : List Fd) (h : Live k o) : Live k.checkRetx o := by
  unfold checkRetx
  apply foldl_live o _ _ _ _ h
  intro k s0 hk
  cases hg : k.tbl.get s0.fd with
  | none => exact hk
  | some s =>
    obtain ⟨hs, _⟩ := get_mem k.tbl s0.fd s hg
    dsimp only
    cases htc : s.tcb with
    | none => exact hk
    | some tc =>
      dsimp only
      split
      · exact hk
      · split
        · exact live_modTcb k _ _ o (hns_same_state k _ _ (fun _ => rfl)) hk
        · split
          · by_cases hst : tc.state = .synRecv
            · have hc : (k.fixReap && (tc.state == TcpState.synRecv)) = true := by simp [hk.fix, hst]
              simp only [hc, ite_true]
              exact live_remove k s.fd o o (hnl_of_tcb k o hk s hs tc htc) (fun _ _ _ hx => hx) hk
            · have hc : (k.fixReap && (tc.state == TcpState.synRecv)) = false := by simp [hst]
              simp only [hc, Bool.false_eq_true, ite_false]
              refine live_modTcb k s.fd _ o ?_ hk
              intro s' hs' hfd' tc' htc'
              have := hk.tinv.uniq s' hs' s hs hfd'
              subst this
              rw [htc] at htc'
              simp only [Option.some.injEq] at htc'
              subst htc'
              exact Or.inl hst
          · repeat' split
            all_goals first
              | exact live_emit _ (live_modTcb k s.fd _ o (hns_same_state k _ _ (fun _ => rfl)) hk)
              | exact live_modTcb k s.fd _ o (hns_same_state k _ _ (fun _ => rfl)) hk

/-- `reap_closed`: removing sockets whose application has closed them -/
theorem live_reapFold (k0 : Kernel) (o : List Fd) (h0 : TInv k0.tbl) (vs : List Sock)
    (hv : ∀ v ∈ vs, v ∈ k0.tbl.socks ∧ v.fdClosed = true) :
    ∀ (t : Table), (∀ s ∈ t.socks, s ∈ k0.tbl.socks) → Live { k0 with tbl := t } o →
      Live { k0 with tbl := vs.foldl (fun t s => t.remove s.fd) t } o := by
  induction vs with
  | nil => intro t _ h; exact h
  | cons v vs ih =>
    intro t hsub h
    simp only [List.foldl_cons]
    apply ih (fun w hw => hv w (List.mem_cons_of_mem _ hw))
    · intro s hs
      have : s ∈ t.socks.filter (·.fd != v.fd) := hs
      exact hsub s (List.mem_filter.mp this).1
    · refine live_remove { k0 with tbl := t } v.fd o o ?_ (fun _ _ _ hx => hx) h
      intro l hl hfd
      have hlv : l = v := h0.uniq l (hsub l hl) v (hv v (List.mem_cons_self ..)).1 hfd
      cases hlis : l.listen with
      | none => rfl
      | some rd =>
        have := (h.lown l hl (by rw [hlis]; rfl)).2.2.2
        rw [hlv, (hv v (List.mem_cons_self ..)).2] at this
        exact absurd this (by simp)

theorem live_reapClosed (k : Kernel) (o : List Fd) (h : Live k o) : Live k.reapClosed o := by
  unfold reapClosed
  refine live_reapFold k o h.tinv _ ?_ k.tbl (fun _ hs => hs) h
  intro v hv
  rw [List.mem_filter] at hv
  refine ⟨hv.1, ?_⟩
  have := hv.2
  simp only [Bool.and_eq_true] at this
  exact this.1

theorem live_drainOutbound (k : Kernel) (o : List Fd) (drained out : List Pkt) (h : Live k o) :
    Live (drainOutbound k drained out).1 o := by
  induction drained generalizing k out with
  | nil => exact h
  | cons q qs ih =>
    unfold drainOutbound
    simp only [List.foldl_cons]
    split
    · exact ih (k.deliver q) out (live_deliver _ _ _ h)
    · exact ih k (out ++ [q]) h

theorem live_egressLoop (fuel : Nat) (k : Kernel) (o : List Fd) (out : List Pkt) (h : Live k o) :
    Live (egressLoop fuel k out).1 o := by
  induction fuel generalizing k out with
  | zero => exact h
  | succ n ih =>
    unfold egressLoop
    simp only []
    split
    · exact live_segmentAll _ _ h
    · apply ih
      apply live_drainOutbound
      have hs := live_segmentAll k o h
      exact ⟨hs.tinv, hs.cinv, hs.rinv, hs.lown, hs.live, hs.fix⟩

theorem live_egress (k : Kernel) (o : List Fd) (out : List Pkt) (h : Live k o) : Live (k.egress out).1 o := by
  unfold egress
  exact live_reapClosed _ _ (live_egressLoop _ _ _ _ (live_checkRetx _ _ h))

end Kernel
end TV
