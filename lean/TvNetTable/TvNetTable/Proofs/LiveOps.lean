/-
  Liveness (Proofs/Live.lean) is preserved by every kernel operation of the repaired model.
-/
import TvNetTable.Proofs.Live

namespace TV
namespace Kernel

theorem live_emit {k : Kernel} {o : List Fd} (p : Pkt) (h : Live k o) : Live (k.emit p) o :=
  ⟨h.tinv, h.cinv, h.rinv, h.lown, h.live, h.fix⟩

theorem foldl_live {α : Type} (o : List Fd) (step : Kernel → α → Kernel)
    (hstep : ∀ k a, Live k o → Live (step k a) o) (l : List α) (k : Kernel) (h : Live k o) :
    Live (l.foldl step k) o := by
  induction l generalizing k with
  | nil => exact h
  | cons a l ih => exact ih _ (hstep k a h)

open Table in
/-- `modify` in general: the caller shows the modified socket live again. -/
theorem live_modify (k : Kernel) (fd : Fd) (f : Sock → Sock) (o o' : List Fd)
    (hfd : ∀ s, (f s).fd = s.fd) (hb : ∀ s, (f s).bound = s.bound) (hv : ∀ s, (f s).v6 = s.v6)
    (hls : ∀ s ∈ k.tbl.socks, s.fd = fd → s.listen.isSome = true → (f s).listen.isSome = true)
    (hrd : ∀ s ∈ k.tbl.socks, s.fd = fd → ∀ rd, s.listen = some rd →
      ∃ rd', (f s).listen = some rd' ∧ ∀ y ∈ rd, y ∈ rd' ∨ y ∈ o')
    (hsub : ∀ s ∈ k.tbl.socks, s.fd ≠ fd → s.fd ∈ o → s.fd ∈ o')
    (htcb : ∀ s, s.tcb.isSome = true → (f s).tcb.isSome = true)
    (hq : ∀ s ∈ k.tbl.socks, s.fd = fd → ∀ rd', (f s).listen = some rd' → ∀ y ∈ rd',
      y < k.tbl.nextId ∧ ∀ s2 ∈ k.tbl.socks, s2.fd = y → s2.tcb.isSome = true)
    (hself : Extends k.tbl (k.tbl.modify fd f) o' → ∀ s ∈ k.tbl.socks, s.fd = fd →
      LiveSock (k.tbl.modify fd f) o' (f s) ∧
        ((f s).listen.isSome = true → (f s).fd ∈ o' ∧ (f s).tcb = none ∧ (f s).tcp = true ∧ (f s).fdClosed = false))
    (h : Live k o) : Live { k with tbl := k.tbl.modify fd f } o' := by
  have hext := extends_modify k.tbl fd f o' hfd hls hrd
  refine live_step h h.fix (tinv_modify _ _ _ hfd hb h.tinv) (cinv_modify _ _ _ hfd hb hv h.cinv)
    (rinv_modify _ _ _ hfd htcb hq h.rinv) hext ?_
  intro s' hs'
  have hs'' : s' ∈ k.tbl.socks.map (modFn fd f) := hs'
  rw [List.mem_map] at hs''
  obtain ⟨s, hs, rfl⟩ := hs''
  by_cases hsf : s.fd = fd
  · rw [modFn_eq fd f s hsf]
    exact Or.inr (hself hext s hs hsf)
  · rw [modFn_ne fd f s hsf]
    exact Or.inl ⟨hs, hsub s hs hsf⟩

/-- the socket fields the liveness predicates look at -/
theorem liveSock_congr (t : Table) (o : List Fd) (s s' : Sock) (h1 : s'.fd = s.fd)
    (h2 : s'.fdClosed = s.fdClosed) (h3 : s'.listen = s.listen) (h4 : s'.tcb = s.tcb)
    (h5 : s'.bound = s.bound) (h6 : s'.v6 = s.v6) (hl : LiveSock t o s) : LiveSock t o s' := by
  unfold LiveSock IsChild at *
  rw [h1, h2, h3, h4, h5, boundEp_congr s s' h5 h6]
  exact hl

/-- `modify` by a function that leaves every field the invariants look at alone -/
theorem live_modify_inert (k : Kernel) (fd : Fd) (f : Sock → Sock) (o : List Fd)
    (hfd : ∀ s, (f s).fd = s.fd) (hb : ∀ s, (f s).bound = s.bound) (hv : ∀ s, (f s).v6 = s.v6)
    (hl : ∀ s, (f s).listen = s.listen) (ht : ∀ s, (f s).tcb = s.tcb)
    (hc : ∀ s, (f s).fdClosed = s.fdClosed) (hp : ∀ s, (f s).tcp = s.tcp)
    (h : Live k o) : Live { k with tbl := k.tbl.modify fd f } o := by
  refine live_modify k fd f o o hfd hb hv ?_ ?_ (fun _ _ _ hx => hx) (fun s hs => by rw [ht]; exact hs)
    (fun s hs _ rd' hrd y hy => h.rinv s hs rd' (by rw [← hl]; exact hrd) y hy) ?_ h
  · intro s _ _ hs; rw [hl]; exact hs
  · intro s _ _ rd hs; exact ⟨rd, by rw [hl]; exact hs, fun y hy => Or.inl hy⟩
  · intro hext s hs _
    refine ⟨?_, ?_⟩
    · exact liveSock_congr _ _ s (f s) (hfd s) (hc s) (hl s) (ht s) (hb s) (hv s)
        (liveSock_ext' hext s (fun hx => hx) (h.live s hs))
    · intro hlis
      rw [hl] at hlis
      obtain ⟨a, b, c, d⟩ := h.lown s hs hlis
      exact ⟨by rw [hfd]; exact a, by rw [ht]; exact b, by rw [hp]; exact c, by rw [hc]; exact d⟩

/-- `modTcb` that does not take a socket out of `SynReceived` -/
theorem live_modTcb (k : Kernel) (fd : Fd) (g : Tcb → Tcb) (o : List Fd)
    (hns : ∀ s ∈ k.tbl.socks, s.fd = fd → ∀ tc, s.tcb = some tc →
      tc.state ≠ .synRecv ∨ (g tc).state = .synRecv)
    (h : Live k o) : Live (k.modTcb fd g) o := by
  refine live_modify k fd (fun s => { s with tcb := s.tcb.map g }) o o (fun _ => rfl) (fun _ => rfl)
    (fun _ => rfl) (fun _ _ _ hs => hs) (fun _ _ _ rd hs => ⟨rd, hs, fun y hy => Or.inl hy⟩)
    (fun _ _ _ hx => hx) (fun s hs => by cases hh : s.tcb <;> simp_all)
    (fun s hs _ rd' hrd y hy => h.rinv s hs rd' hrd y hy) ?_ h
  intro hext s hs hsf
  refine ⟨?_, ?_⟩
  · rcases liveSock_ext' hext s (fun hx => hx) (h.live s hs) with h1 | h1 | ⟨hn, tc, htc, h1⟩
    · exact Or.inl h1
    · exact Or.inr (Or.inl h1)
    · refine Or.inr (Or.inr ⟨hn, g tc, by simp [htc], ?_⟩)
      rcases h1 with ⟨hsr, hb, hlf⟩ | hr
      · rcases hns s hs hsf tc htc with h2 | h2
        · exact absurd hsr h2
        · exact Or.inl ⟨h2, hb, hlf⟩
      · exact Or.inr hr
  · intro hlis
    obtain ⟨a, b, c, d⟩ := h.lown s hs hlis
    exact ⟨a, by simp [b], c, d⟩

/-- removing a socket that does not listen -/
theorem live_remove (k : Kernel) (fd : Fd) (o o' : List Fd)
    (hnl : ∀ l ∈ k.tbl.socks, l.fd = fd → l.listen = none)
    (hsub : ∀ s ∈ k.tbl.socks, s.fd ≠ fd → s.fd ∈ o → s.fd ∈ o')
    (h : Live k o) : Live { k with tbl := k.tbl.remove fd } o' := by
  refine live_step h h.fix (tinv_remove _ _ h.tinv) (cinv_remove _ _ h.cinv) (rinv_remove _ _ h.rinv)
    (extends_remove k.tbl fd o' hnl) ?_
  intro s' hs'
  have : s' ∈ k.tbl.socks.filter (·.fd != fd) := hs'
  rw [List.mem_filter] at this
  exact Or.inl ⟨this.1, hsub s' this.1 (by simpa using this.2)⟩

end Kernel
end TV

namespace TV
namespace Kernel

/-! ### `findListener` and `ListenerFor` -/

theorem get_unique (t : Table) (h : TInv t) (fd : Fd) (s : Sock) (hg : t.get fd = some s)
    (s' : Sock) (hs' : s' ∈ t.socks) (hfd : s'.fd = fd) : s' = s := by
  obtain ⟨hs, hsf⟩ := get_mem t fd s hg
  exact h.uniq s' hs' s hs (by rw [hfd, hsf])

theorem isListener_iff (t : Table) (h : TInv t) (x : Fd) : isListener t x = true ↔ isListenerP t x := by
  unfold isListener isListenerP
  constructor
  · intro hx
    split at hx
    · rename_i s hg
      obtain ⟨hs, hsf⟩ := get_mem t x s hg
      exact ⟨s, hs, hsf, hx⟩
    · simp at hx
  · rintro ⟨l, hl, h1, h2⟩
    have := get_of_mem t h l hl
    rw [h1] at this
    rw [this]; exact h2

theorem mem_findByBind (t : Table) (key : BindKey) (x : Fd) (hx : x ∈ t.findByBind key) :
    ∃ e ∈ t.bindings, e.1 = key ∧ x ∈ e.2 := by
  unfold Table.findByBind at hx
  split at hx
  · rename_i k' fds hf
    exact ⟨(k', fds), List.mem_of_find?_eq_some hf, by simpa using List.find?_some hf, hx⟩
  · simp at hx

theorem eq_of_key_eq (bs : List (BindKey × List Fd)) (hk : (bs.map (·.1)).Nodup)
    (e e' : BindKey × List Fd) (he : e ∈ bs) (he' : e' ∈ bs) (h : e'.1 = e.1) : e' = e := by
  induction bs with
  | nil => simp at he
  | cons b bs ih =>
    simp only [List.map_cons, List.nodup_cons] at hk
    rcases List.mem_cons.mp he with rfl | he1
    · rcases List.mem_cons.mp he' with rfl | he2
      · rfl
      · exact absurd (List.mem_map_of_mem (f := (·.1)) he2) (by rw [h]; exact hk.1)
    · rcases List.mem_cons.mp he' with rfl | he2
      · exact absurd (List.mem_map_of_mem (f := (·.1)) he1) (by rw [← h]; exact hk.1)
      · exact ih hk.2 he1 he2

theorem findByBind_of_mem (t : Table) (h : TInv t) (e : BindKey × List Fd) (he : e ∈ t.bindings) :
    t.findByBind e.1 = e.2 := by
  unfold Table.findByBind
  cases hf : t.bindings.find? (·.1 == e.1) with
  | none =>
    rw [List.find?_eq_none] at hf
    exact absurd (by simp) (hf e he)
  | some e' =>
    have h1 := List.mem_of_find?_eq_some hf
    have h2 : e'.1 = e.1 := by simpa using List.find?_some hf
    have : e' = e := eq_of_key_eq t.bindings h.keys e e' he h1 h2
    rw [this]

theorem listenerFor_of_findListener (t : Table) (h : TInv t) (l : Ep) (lfd : Fd)
    (hf : findListener t l = some lfd) : ListenerFor t l ∧ isListenerP t lfd := by
  unfold findListener at hf
  have key : ∀ k : BindKey, (k = exactKey l ∨ k = wildKey l) →
      (t.findByBind k).find? (isListener t) = some lfd → ListenerFor t l ∧ isListenerP t lfd := by
    intro k hk hfind
    have hmem := List.mem_of_find?_eq_some hfind
    have hlis : isListener t lfd = true := List.find?_some hfind
    obtain ⟨e, he, h1, h2⟩ := mem_findByBind t k lfd hmem
    have hp := (isListener_iff t h lfd).mp hlis
    exact ⟨⟨e, he, by rw [h1]; exact hk, lfd, h2, hp⟩, hp⟩
  split at hf
  · rename_i fd hfind
    simp only [Option.some.injEq] at hf
    subst hf
    exact key _ (Or.inl rfl) hfind
  · exact key _ (Or.inr rfl) hf

theorem findListener_isSome (t : Table) (h : TInv t) (l : Ep) (hl : ListenerFor t l) :
    ∃ lfd, findListener t l = some lfd := by
  obtain ⟨e, he, hk, x, hx, hlx⟩ := hl
  have hfb := findByBind_of_mem t h e he
  have hlis := (isListener_iff t h x).mpr hlx
  unfold findListener
  cases h1 : (t.findByBind (exactKey l)).find? (isListener t) with
  | some fd => exact ⟨fd, by simp [exactKey] at h1 ⊢; simp [h1]⟩
  | none =>
    rcases hk with hk | hk
    · rw [hk] at hfb
      rw [hfb, List.find?_eq_none] at h1
      exact absurd hlis (h1 x hx)
    · rw [hk] at hfb
      cases h2 : (t.findByBind (wildKey l)).find? (isListener t) with
      | some fd =>
        refine ⟨fd, ?_⟩
        simp only [exactKey, wildKey] at h1 h2
        simp [h1, h2]
      | none =>
        rw [hfb, List.find?_eq_none] at h2
        exact absurd hlis (h2 x hx)

end Kernel
end TV
