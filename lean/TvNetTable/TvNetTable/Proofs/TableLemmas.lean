/-
  Lemmas about the socket-table primitives used by Props/C17.
-/
import TvNetTable.Model.TableSpec
import TvNetTable.Proofs.Alloc

namespace TV

theorem bindConflict_eq (bs : List (BindKey × List Fd)) (key : BindKey) :
    Kernel.bindConflict bs key = (bs.map (·.1)).any (Spec.conflicts · key) := by
  induction bs with
  | nil => rfl
  | cons b bs ih =>
    obtain ⟨e, fds⟩ := b
    simp only [Kernel.bindConflict, List.any_cons, List.map_cons] at ih ⊢
    rw [ih]
    simp [Spec.conflicts, Spec.sameSpace, Bool.and_assoc]

theorem bindConflict_false_iff (bs : List (BindKey × List Fd)) (key : BindKey) :
    Kernel.bindConflict bs key = false ↔ ∀ e ∈ bs, Spec.conflicts e.1 key = false := by
  rw [bindConflict_eq]
  simp [List.any_eq_false]

theorem bindConflict_true_iff (bs : List (BindKey × List Fd)) (key : BindKey) :
    Kernel.bindConflict bs key = true ↔ ∃ e ∈ bs, Spec.conflicts e.1 key = true := by
  rw [bindConflict_eq]
  simp [List.any_eq_true]

namespace Table

theorem get_modify_ne (t : Table) (fd fd' : Fd) (f : Sock → Sock) (hf : ∀ s, (f s).fd = s.fd)
    (hne : fd' ≠ fd) : (t.modify fd f).get fd' = t.get fd' := by
  unfold get modify
  simp only
  induction t.socks with
  | nil => rfl
  | cons s ss ih =>
    simp only [List.map_cons, List.find?_cons]
    by_cases hs : s.fd = fd
    · have h1 : (s.fd == fd) = true := by simpa using hs
      have h2 : ((f s).fd == fd') = false := by
        rw [hf, hs]; simp; exact fun h => hne h.symm
      have h3 : (s.fd == fd') = false := by
        rw [hs]; simp; exact fun h => hne h.symm
      simp only [h1, ite_true, h2, h3]
      exact ih
    · have h1 : (s.fd == fd) = false := by simpa using hs
      simp only [h1, Bool.false_eq_true, ite_false]
      cases hq : (s.fd == fd') with
      | true => rfl
      | false => exact ih

/-- After `remove fd` no binding list mentions `fd`. -/
theorem remove_bindings_no_fd (t : Table) (fd : Fd) :
    ∀ e ∈ (t.remove fd).bindings, fd ∉ e.2 := by
  intro e he hmem
  simp only [remove, List.mem_filterMap] at he
  obtain ⟨⟨k, fds⟩, _, hsome⟩ := he
  simp only at hsome
  split at hsome
  · simp at hsome
  · simp only [Option.some.injEq] at hsome
    subst hsome
    simp only [List.mem_filter] at hmem
    simp at hmem

theorem remove_bindings_nonempty (t : Table) (fd : Fd) :
    ∀ e ∈ (t.remove fd).bindings, e.2 ≠ [] := by
  intro e he
  simp only [remove, List.mem_filterMap] at he
  obtain ⟨⟨k, fds⟩, _, hsome⟩ := he
  simp only at hsome
  split at hsome
  · simp at hsome
  · rename_i hne
    simp only [Option.some.injEq] at hsome
    subst hsome
    simpa using hne

/-- Other sockets keep their bindings across `remove fd`. -/
theorem remove_bindings_other (t : Table) (fd fd' : Fd) (hne : fd' ≠ fd) (k : BindKey) :
    (∃ fds, (k, fds) ∈ (t.remove fd).bindings ∧ fd' ∈ fds) ↔ (∃ fds, (k, fds) ∈ t.bindings ∧ fd' ∈ fds) := by
  constructor
  · rintro ⟨fds, he, hmem⟩
    simp only [remove, List.mem_filterMap] at he
    obtain ⟨⟨k0, fds0⟩, hin, hsome⟩ := he
    simp only at hsome
    split at hsome
    · simp at hsome
    · simp only [Option.some.injEq, Prod.mk.injEq] at hsome
      obtain ⟨rfl, rfl⟩ := hsome
      exact ⟨fds0, hin, (List.mem_filter.mp hmem).1⟩
  · rintro ⟨fds, hin, hmem⟩
    have hm : fd' ∈ fds.filter (· != fd) := List.mem_filter.mpr ⟨hmem, by simpa using hne⟩
    refine ⟨fds.filter (· != fd), ?_, hm⟩
    simp only [remove, List.mem_filterMap]
    refine ⟨(k, fds), hin, ?_⟩
    simp only
    split
    · rename_i hemp
      simp only [List.isEmpty_iff] at hemp
      rw [hemp] at hm
      simp at hm
    · rfl

theorem remove_conns_no_fd (t : Table) (fd : Fd) : ∀ c ∈ (t.remove fd).conns, c.2 ≠ fd := by
  intro c hc
  simp only [remove, List.mem_filter] at hc
  simpa using hc.2

theorem remove_get (t : Table) (fd : Fd) : (t.remove fd).get fd = none := by
  unfold get remove
  simp only
  rw [List.find?_eq_none]
  intro s hs
  simp only [List.mem_filter] at hs
  simpa using hs.2

end Table

/-- the keys still conflicting with `key` after removing `fd` all conflicted before and are held
    by some other socket -/
theorem conflict_after_remove (t : Table) (fd : Fd) (key : BindKey)
    (h : Kernel.bindConflict (t.remove fd).bindings key = true) :
    ∃ e ∈ t.bindings, Spec.conflicts e.1 key = true ∧ ∃ fd' ∈ e.2, fd' ≠ fd := by
  rw [bindConflict_true_iff] at h
  obtain ⟨e, he, hc⟩ := h
  have hne := Table.remove_bindings_nonempty t fd e he
  have hno := Table.remove_bindings_no_fd t fd e he
  obtain ⟨k, fds⟩ := e
  cases fds with
  | nil => exact absurd rfl hne
  | cons x xs =>
    have hx : x ≠ fd := by
      intro hx
      apply hno
      simp [hx]
    obtain ⟨fds0, hin, hmem⟩ := (Table.remove_bindings_other t fd x hx k).mp ⟨x :: xs, he, List.mem_cons_self ..⟩
    exact ⟨(k, fds0), hin, hc, x, hmem, hx⟩

end TV
