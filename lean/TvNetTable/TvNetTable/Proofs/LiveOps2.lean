/-
  Liveness under socket creation (bind, connect's auto-bind, accept_syn's child).
-/
import TvNetTable.Proofs.LiveOps

namespace TV
namespace Kernel

/-- only `bindings`, `socks`, `conns`, `nextId` and the `fixReap` flag matter -/
theorem live_congr {k k' : Kernel} {o : List Fd} (hb : k'.tbl.bindings = k.tbl.bindings)
    (hs : k'.tbl.socks = k.tbl.socks) (hc : k'.tbl.conns = k.tbl.conns) (hn : k'.tbl.nextId = k.tbl.nextId)
    (hf : k'.fixReap = k.fixReap) (h : Live k o) : Live k' o := by
  refine live_step h (by rw [hf]; exact h.fix) (tinv_congr hb hs hn h.tinv) (cinv_congr hc hs hn h.cinv)
    (rinv_congr hs hn h.rinv) (extends_refl_of_eq o hb hs) ?_
  intro s' hs'
  rw [hs] at hs'
  exact Or.inl ⟨hs', fun hx => hx⟩

theorem fresh_ne (t : Table) (h : TInv t) (s : Sock) (hs : s ∈ t.socks) : s.fd ≠ t.nextId :=
  Nat.ne_of_lt (h.fresh s hs)

/-- a fresh, application-owned socket that is bound at creation (`Kernel::bind`) -/
theorem live_newBound (k : Kernel) (o : List Fd) (key : BindKey) (mk : Fd → Sock)
    (hmk : ∀ n, (mk n).bound = some key) (hml : ∀ n, (mk n).listen = none) (h : Live k o) :
    Live { k with tbl := (k.tbl.insertWith mk).1.insertBinding key k.tbl.nextId } (k.tbl.nextId :: o) := by
  refine live_step h h.fix (tinv_bindNew k.tbl key mk hmk h.tinv) ?_ ?_ ?_ ?_
  · exact cinv_congr (t := (k.tbl.insertWith mk).1) rfl rfl rfl (cinv_insertWith k.tbl mk h.cinv)
  · exact rinv_congr (t := (k.tbl.insertWith mk).1) rfl rfl (rinv_insertWith k.tbl mk hml h.rinv)
  · exact extends_trans (extends_insertWith k.tbl mk _) (extends_insertBinding _ key _ _)
  · intro s' hs'
    have hs'' : s' ∈ ({ mk k.tbl.nextId with fd := k.tbl.nextId } : Sock) :: k.tbl.socks := hs'
    rcases List.mem_cons.mp hs'' with rfl | hold
    · refine Or.inr ⟨Or.inl (List.mem_cons_self ..), ?_⟩
      intro hl
      simp [hml] at hl
    · exact Or.inl ⟨hold, fun hx => List.mem_cons_of_mem _ hx⟩

/-- a fresh, application-owned, still unbound socket (`Kernel::open`) -/
theorem live_newUnbound (k : Kernel) (o : List Fd) (mk : Fd → Sock)
    (hmk : ∀ n, (mk n).bound = none) (hml : ∀ n, (mk n).listen = none) (h : Live k o) :
    Live { k with tbl := (k.tbl.insertWith mk).1 } (k.tbl.nextId :: o) := by
  refine live_step h h.fix (tinv_insertWith k.tbl mk hmk h.tinv) (cinv_insertWith k.tbl mk h.cinv)
    (rinv_insertWith k.tbl mk hml h.rinv) (extends_insertWith k.tbl mk _) ?_
  intro s' hs'
  have hs'' : s' ∈ ({ mk k.tbl.nextId with fd := k.tbl.nextId } : Sock) :: k.tbl.socks := hs'
  rcases List.mem_cons.mp hs'' with rfl | hold
  · refine Or.inr ⟨Or.inl (List.mem_cons_self ..), ?_⟩
    intro hl
    simp [hml] at hl
  · exact Or.inl ⟨hold, fun hx => List.mem_cons_of_mem _ hx⟩

open Table in
/-- binding an owned, unbound, connection-less socket (`auto_bind`) -/
theorem live_bindOwned (k : Kernel) (o : List Fd) (fd : Fd) (key : BindKey) (f : Sock → Sock)
    (hfd : ∀ s, (f s).fd = s.fd) (hb : ∀ s, (f s).bound = some key) (hl : ∀ s, (f s).listen = s.listen)
    (ht : ∀ s, (f s).tcb = s.tcb) (hp : ∀ s, (f s).tcp = s.tcp) (hcl : ∀ s, (f s).fdClosed = s.fdClosed)
    (hown : fd ∈ o) (s0 : Sock) (hs0 : s0 ∈ k.tbl.socks) (hs0fd : s0.fd = fd) (hs0b : s0.bound = none)
    (hno : ∀ c ∈ k.tbl.conns, c.2 ≠ fd) (h : Live k o) :
    Live { k with tbl := (k.tbl.insertBinding key fd).modify fd f } o := by
  refine live_step h h.fix (tinv_bindFd k.tbl fd key f hfd hb s0 hs0 hs0fd hs0b h.tinv)
    (cinv_bindFd k.tbl fd key f hfd hno h.cinv) ?_ ?_ ?_
  · exact rinv_modify_keep _ fd f hfd (fun s hs => by rw [ht]; exact hs) hl
      (rinv_congr (t := k.tbl) rfl rfl h.rinv)
  · refine extends_trans (extends_insertBinding k.tbl key fd o) ?_
    refine extends_modify _ fd f o hfd ?_ ?_
    · intro s _ _ hs; rw [hl]; exact hs
    · intro s _ _ rd hs; exact ⟨rd, by rw [hl]; exact hs, fun y hy => Or.inl hy⟩
  · intro s' hs'
    have hs'' : s' ∈ k.tbl.socks.map (modFn fd f) := hs'
    rw [List.mem_map] at hs''
    obtain ⟨s, hs, rfl⟩ := hs''
    by_cases hsf : s.fd = fd
    · rw [modFn_eq fd f s hsf]
      refine Or.inr ⟨Or.inl (by rw [hfd, hsf]; exact hown), ?_⟩
      intro hlis
      rw [hl] at hlis
      obtain ⟨a, b, c, d⟩ := h.lown s hs hlis
      exact ⟨by rw [hfd]; exact a, by rw [ht]; exact b, by rw [hp]; exact c, by rw [hcl]; exact d⟩
    · rw [modFn_ne fd f s hsf]
      exact Or.inl ⟨hs, fun hx => hx⟩

/-- indexing a connection of a socket bound to the connection's local endpoint -/
theorem live_insertConn (k : Kernel) (o : List Fd) (l r : Ep) (fd : Fd) (hlt : fd < k.tbl.nextId)
    (hb : ∀ s ∈ k.tbl.socks, s.fd = fd → boundEp s = l) (h : Live k o) :
    Live { k with tbl := k.tbl.insertConn l r fd } o := by
  refine live_step h h.fix (kinv_insertConn _ _ _ _ h.tinv) (cinv_insertConn _ _ _ _ hlt hb h.cinv)
    (rinv_congr (t := k.tbl) rfl rfl h.rinv) (extends_refl_of_eq o rfl rfl) ?_
  intro s' hs'
  exact Or.inl ⟨hs', fun hx => hx⟩

open Table in
/-- `accept_syn`: a new child of a listener found for `l`, in `SynReceived`, bound to `l` -/
theorem live_newChild (k : Kernel) (o : List Fd) (v6 tcp : Bool) (l r : Ep) (f : Sock → Sock)
    (hfd : ∀ s, (f s).fd = s.fd) (hl : ∀ s, (f s).listen = s.listen)
    (hb : ∀ s, (f s).bound = some ⟨v6, tcp, l.ip, l.port⟩)
    (ht : ∀ s, ∃ tc, (f s).tcb = some tc ∧ tc.state = .synRecv)
    (hlf : ListenerFor k.tbl l) (h : Live k o) :
    Live { k with tbl := (((k.tbl.insert v6 tcp).1.insertBinding ⟨v6, tcp, l.ip, l.port⟩ k.tbl.nextId).modify
      k.tbl.nextId f).insertConn l r k.tbl.nextId } o := by
  let n := k.tbl.nextId
  let s0 : Sock := { fd := n, v6 := v6, tcp := tcp }
  have hs0 : s0 ∈ (k.tbl.insert v6 tcp).1.socks := by simp [Table.insert, Table.insertWith, s0, n]
  have ht1 := tinv_insertWith k.tbl (fun fd => { fd := fd, v6 := v6, tcp := tcp }) (fun _ => rfl) h.tinv
  have ht3 := tinv_bindFd (k.tbl.insert v6 tcp).1 n ⟨v6, tcp, l.ip, l.port⟩ f hfd hb s0 hs0 rfl rfl ht1
  have hc1 := cinv_insertWith k.tbl (fun fd => { fd := fd, v6 := v6, tcp := tcp }) h.cinv
  have hc3 := cinv_bindFd (k.tbl.insert v6 tcp).1 n ⟨v6, tcp, l.ip, l.port⟩ f hfd
    (fun c hc => Nat.ne_of_lt (h.cinv c hc).1) hc1
  have hsocks3 : ∀ s' ∈ (((k.tbl.insert v6 tcp).1.insertBinding ⟨v6, tcp, l.ip, l.port⟩ n).modify n f).socks,
      (s' = f s0) ∨ (s' ∈ k.tbl.socks ∧ s'.fd ≠ n) := by
    intro s' hs'
    have hs'' : s' ∈ (s0 :: k.tbl.socks).map (modFn n f) := hs'
    rw [List.mem_map] at hs''
    obtain ⟨s, hs, rfl⟩ := hs''
    rcases List.mem_cons.mp hs with rfl | hold
    · exact Or.inl (modFn_eq n f s0 rfl)
    · have hne := fresh_ne k.tbl h.tinv s hold
      rw [modFn_ne n f s hne]
      exact Or.inr ⟨hold, hne⟩
  have hext : Extends k.tbl (((k.tbl.insert v6 tcp).1.insertBinding ⟨v6, tcp, l.ip, l.port⟩ n).modify n f) o := by
    have e1 : Extends k.tbl (k.tbl.insert v6 tcp).1 o :=
      extends_insertWith k.tbl (fun fd => { fd := fd, v6 := v6, tcp := tcp }) o
    have e2 := extends_insertBinding (k.tbl.insert v6 tcp).1 ⟨v6, tcp, l.ip, l.port⟩ n o
    have e3 := extends_modify ((k.tbl.insert v6 tcp).1.insertBinding ⟨v6, tcp, l.ip, l.port⟩ n) n f o hfd
      (fun s _ _ hs => by rw [hl]; exact hs)
      (fun s _ _ rd hs => ⟨rd, by rw [hl]; exact hs, fun y hy => Or.inl hy⟩)
    exact extends_trans (extends_trans e1 e2) e3
  have hr3 : RInv (((k.tbl.insert v6 tcp).1.insertBinding ⟨v6, tcp, l.ip, l.port⟩ n).modify n f) := by
    refine rinv_modify_keep _ n f hfd ?_ hl ?_
    · intro s _
      obtain ⟨tc, htc, _⟩ := ht s
      rw [htc]; rfl
    · exact rinv_congr (t := (k.tbl.insert v6 tcp).1) rfl rfl
        (rinv_insertWith k.tbl (fun fd => { fd := fd, v6 := v6, tcp := tcp }) (fun _ => rfl) h.rinv)
  refine live_step h h.fix (kinv_insertConn _ _ _ _ ht3) ?_ ?_ ?_ ?_
  · refine cinv_insertConn _ l r n (Nat.lt_succ_self _) ?_ hc3
    intro s' hs' hfd'
    rcases hsocks3 s' hs' with rfl | ⟨_, hne⟩
    · unfold boundEp; rw [hb]
    · exact absurd hfd' hne
  · exact rinv_congr (t := ((k.tbl.insert v6 tcp).1.insertBinding ⟨v6, tcp, l.ip, l.port⟩ n).modify n f) rfl rfl hr3
  · exact extends_trans hext (extends_refl_of_eq o rfl rfl)
  · intro s' hs'
    rcases hsocks3 s' hs' with rfl | ⟨hold, _⟩
    · obtain ⟨tc, htc, hst⟩ := ht s0
      refine Or.inr ⟨Or.inr (Or.inr ⟨by rw [hl], tc, htc, Or.inl ⟨hst, by rw [hb]; rfl, ?_⟩⟩), ?_⟩
      · have : boundEp (f s0) = l := by unfold boundEp; rw [hb]
        rw [this]
        exact listenerFor_ext (extends_trans hext (extends_refl_of_eq o rfl rfl)) l hlf
      · intro hlis
        rw [hl] at hlis
        simp [s0] at hlis
    · exact Or.inl ⟨hold, fun hx => hx⟩

end Kernel
end TV
