def hello := "world"
