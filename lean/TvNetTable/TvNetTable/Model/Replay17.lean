/-
  C17 replay: the harness's operation alphabet interpreted on the model
  (`step : World → Op → World × Obs × cov`), with the same canonical observation strings
  the Rust harness prints.
-/
import TvNetTable.Model.Table

namespace TV
namespace R17

inductive Op
  | ubind (h s : Nat) (ip : Ip) (port : Nat)
  | tlisten (h s : Nat) (ip : Ip) (port : Nat)
  | uconnect (h s : Nat) (ip : Ip) (port : Nat)
  | tconnect (h s : Nat) (ip : Ip) (port : Nat)
  | tconnectcancel (h : Nat) (ip : Ip) (port : Nat)
  | accept (h s ns : Nat)
  | close (h s : Nat)
  | usend (h s : Nat) (ip : Ip) (port tag : Nat)
  | usendc (h s tag : Nat)
  | cycle (h : Nat) (ip : Ip) (n : Nat)
  | injectudp (src : Ep) (dst : Ep) (tag : Nat)
  | injectsyn (src : Ep) (dst : Ep)
  | injectrst (src : Ep) (dst : Ep)
  | drain
  | netstat
  | pumpn (n : Nat)
deriving Repr, Inhabited

/-- slot kind: 'u' udp, 'l' listener, 's' stream -/
structure Slot where
  id : Nat
  host : Nat
  fd : Fd
  kind : Char
deriving Repr, Inhabited

structure World where
  fab : Fabric := {}
  slots : List Slot := []
deriving Inhabited

def ipTok (a : Ip) : String := (if a.v6 then "6:" else "4:") ++ toString a.n
def epTok (e : Ep) : String := ipTok e.ip ++ ":" ++ toString e.port

def flagsTok (syn ack fin rst : Bool) : String :=
  let s := (if syn then "S" else "") ++ (if ack then "A" else "") ++ (if fin then "F" else "") ++
    (if rst then "R" else "")
  if s.isEmpty then "0" else s

def pktTok (p : Pkt) : String :=
  match p.seg with
  | .udp tag => "u/" ++ epTok p.src ++ "/" ++ epTok p.dst ++ "/" ++ toString tag
  | .tcp syn ack fin rst => "t/" ++ epTok p.src ++ "/" ++ epTok p.dst ++ "/" ++ flagsTok syn ack fin rst ++ "/0"
  | .hsAck => "t/" ++ epTok p.src ++ "/" ++ epTok p.dst ++ "/A/0"

def joinTok (xs : List String) (sep : String) : String :=
  if xs.isEmpty then "-" else sep.intercalate xs

def errTok : Err → String
  | .addrInUse => "addrinuse"
  | .addrNotAvailable => "addrnotavailable"
  | .afNoSupport => "other:eafnosupport"
  | .notConnected => "notconnected"
  | .refused => "refused"
  | .notFound => "notfound"

def wireTok (w : List Pkt) : String := joinTok (w.map pktTok) ","

def World.setK (w : World) (h : Nat) (k : Kernel) : World :=
  { w with fab := w.fab.modHost h fun _ => k }

def World.slot (w : World) (s : Nat) : Option Slot := w.slots.find? (·.id == s)

/-- slots are kept in descending id order (the harness numbers them increasingly) -/
def insertSlot : List Slot → Slot → List Slot
  | [], s => [s]
  | x :: xs, s => if x.id < s.id then s :: x :: xs else if s.id == x.id then s :: xs else x :: insertSlot xs s

def World.addSlot (w : World) (s : Slot) : World := { w with slots := insertSlot w.slots s }
def World.delSlot (w : World) (s : Nat) : World := { w with slots := w.slots.filter (·.id != s) }

def World.pump (w : World) : World × List Pkt :=
  let (f, seen) := Fabric.pump 64 w.fab []
  ({ w with fab := f }, seen)

def stateTok : TcpState → String
  | .synSent => "SYN_SENT" | .synRecv => "SYN_RECV" | .estab => "ESTABLISHED"
  | .finWait1 => "FIN_WAIT1" | .finWait2 => "FIN_WAIT2" | .closeWait => "CLOSE_WAIT"
  | .lastAck => "LAST_ACK" | .closing => "CLOSING" | .closed => "CLOSED"

def netstatEntry (s : Sock) : Option String :=
  match s.bound with
  | none => none
  | some b =>
    let loc := epTok ⟨b.addr, b.port⟩
    if !s.tcp then
      some ("udp/" ++ loc ++ "/*")  -- netstat never shows a UDP peer
    else
      match s.tcb with
      | some tc =>
        if tc.state == .closed then none
        else some ("tcp/" ++ loc ++ "/" ++ epTok tc.peer ++ "/" ++ stateTok tc.state)
      | none =>
        match s.listen with
        | some ready => some ("tcp/" ++ loc ++ "/*/LISTEN/" ++ toString ready.length)
        | none => none

def inject (w : World) (p : Pkt) : World × String :=
  let f := w.fab.deliver p
  let (f, out) := f.egressAll
  ({ w with fab := f }, "reply=" ++ wireTok out)

/-- Finding F-C17-1 pattern: `bind(ip, port)` on host kernel `k` conflicts, and every
    conflicting binding is held only by aborted, never-accepted children (closed TCB, not
    closed by an application, not reachable from any application handle in `owned`). -/
def zombieOnlyConflict (k : Kernel) (owned : List Fd) (ip : Ip) (port : Nat) (tcp : Bool) : Bool :=
  let key : BindKey := ⟨ip.v6, tcp, ip, port⟩
  let confl := k.tbl.bindings.filter fun (e, _) =>
    e.v6 == key.v6 && e.tcp == key.tcp && e.port == key.port &&
      (e.addr == key.addr || e.addr.isUnspec || key.addr.isUnspec)
  !confl.isEmpty && confl.all fun (_, fds) => fds.all fun fd =>
    !owned.contains fd &&
      (match k.tbl.get fd with
       | some s => !s.fdClosed && s.listen.isNone &&
           (match s.tcb with | some tc => tc.state == .closed && (tc.reset || tc.timedOut) | none => false)
       | none => false)

def cycleLoop : Nat → Kernel → Ip → Nat → Nat → Kernel × Nat × Nat
  | 0, k, _, last, fails => (k, last, fails)
  | n + 1, k, ip, last, fails =>
    match k.bind ip 0 false with
    | .ok (k', fd) =>
      let p := match k'.tbl.get fd with | some s => (Kernel.boundEp s).port | none => 0
      cycleLoop n (k'.close fd) ip p fails
    | .error _ => cycleLoop n k ip last (fails + 1)

def drainSock : Nat → Kernel → Fd → List String → Kernel × List String
  | 0, k, _, acc => (k, acc)
  | n + 1, k, fd, acc =>
    match k.recvFrom fd with
    | none => (k, acc)
    | some (k', from_, tag) => drainSock n k' fd (acc ++ [toString tag ++ "@" ++ epTok from_])

/-- One harness operation on the model. Returns the new world, the canonical observation and
    coverage tags. -/
def step (w : World) : Op → World × String × List String
  | .ubind h s ip port =>
    if h ≥ w.fab.hosts.length then (w, "nohost", []) else
    let k := w.fab.kernel h
    match k.bind ip port false with
    | .ok (k', fd) =>
      let b := match k'.tbl.get fd with | some sk => Kernel.boundEp sk | none => ⟨ip, 0⟩
      let cov := (if port == 0 then ["ephemeral"] else []) ++ (if ip.isUnspec then ["wildcard"] else []) ++
        (if k'.tbl.cursor < k.tbl.cursor then ["wrap"] else []) ++ (if ip.v6 then ["v6"] else []) ++
        (if ip.isLoopback then ["loopbind"] else [])
      ((w.setK h k').addSlot ⟨s, h, fd, 'u'⟩, "ok " ++ ipTok b.ip ++ " " ++ toString b.port, cov)
    | .error e =>
      let cov := match e with
        | .addrInUse => if port == 0 then ["exhausted"] else
            (if ip.isUnspec || Kernel.bindConflict (k.tbl.bindings.filter (·.1.addr.isUnspec)) ⟨ip.v6, false, ip, port⟩
             then ["conflict", "wildconflict"] else ["conflict"])
        | .addrNotAvailable => ["notlocal"]
        | _ => []
      (w, "err " ++ errTok e, cov)
  | .tlisten h s ip port =>
    if h ≥ w.fab.hosts.length then (w, "nohost", []) else
    let k := w.fab.kernel h
    match k.bind ip port true with
    | .ok (k', fd) =>
      let k' := k'.listen fd
      let b := match k'.tbl.get fd with | some sk => Kernel.boundEp sk | none => ⟨ip, 0⟩
      let cov := (if port == 0 then ["ephemeral"] else []) ++ (if ip.isUnspec then ["wildcard"] else []) ++
        (if k'.tbl.cursor < k.tbl.cursor then ["wrap"] else []) ++ ["tcp"]
      ((w.setK h k').addSlot ⟨s, h, fd, 'l'⟩, "ok " ++ ipTok b.ip ++ " " ++ toString b.port, cov)
    | .error e =>
      let cov := match e with
        | .addrInUse => if port == 0 then ["exhausted"] else ["conflict", "tcp"]
        | .addrNotAvailable => ["notlocal"]
        | _ => []
      (w, "err " ++ errTok e, cov)
  | .uconnect h s ip port =>
    match w.slot s with
    | some sl =>
      if sl.host != h || sl.kind != 'u' then (w, "noslot", []) else
      match (w.fab.kernel h).udpConnect sl.fd ⟨ip, port⟩ with
      | .ok k' => (w.setK h k', "ok", ["uconnect"])
      | .error e => (w, "err " ++ errTok e, [])
    | none => (w, "noslot", [])
  | .tconnect h s ip port =>
    if h ≥ w.fab.hosts.length then (w, "nohost", []) else
    let k := w.fab.kernel h
    match k.tcpConnectStart ⟨ip, port⟩ with
    | .error (e, k') =>
      let (w, seen) := (w.setK h k').pump
      (w, "err " ++ errTok e ++ " wire=" ++ wireTok seen, ["connectfail"])
    | .ok (k', fd) =>
      let (w, w1) := (w.setK h k').pump
      let k := w.fab.kernel h
      match k.tcpConnectPoll fd with
      | .ok =>
        let (l, p) := match k.tbl.get fd with
          | some sk => (Kernel.boundEp sk, (sk.tcb.map (·.peer)).getD ⟨ip, port⟩)
          | none => (⟨ip, 0⟩, ⟨ip, port⟩)
        (w.addSlot ⟨s, h, fd, 's'⟩, "ok " ++ epTok l ++ " " ++ epTok p ++ " wire=" ++ wireTok w1,
          ["connected"] ++ (if w1.isEmpty then ["loopfold"] else []))
      | .refused =>
        let (w, w2) := (w.setK h (k.close fd)).pump
        (w, "err refused wire=" ++ wireTok (w1 ++ w2), ["refused"])
      | .timedOut =>
        let (w, w2) := (w.setK h (k.close fd)).pump
        (w, "err timedout wire=" ++ wireTok (w1 ++ w2), ["timedout"])
      | .pending =>
        let (w, w2) := (w.setK h (k.close fd)).pump
        (w, "pending wire=" ++ wireTok (w1 ++ w2), ["connectpending"])
  | .tconnectcancel h ip port =>
    if h ≥ w.fab.hosts.length then (w, "nohost", []) else
    let k := w.fab.kernel h
    match k.tcpConnectStart ⟨ip, port⟩ with
    | .error (e, k') =>
      let (w, seen) := (w.setK h k').pump
      (w, "err " ++ errTok e ++ " wire=" ++ wireTok seen, ["connectfail"])
    | .ok (k', fd) =>
      -- one round over the wire, then the connect future is dropped
      let w := w.setK h k'
      let (f, out) := w.fab.egressAll
      let f := out.foldl (fun f p => f.deliver p) f
      let w := { w with fab := f }
      let (w, w2) := (w.setK h ((w.fab.kernel h).close fd)).pump
      (w, "cancelled wire=" ++ wireTok (out ++ w2), ["connectcancel"])
  | .accept h s ns =>
    match w.slot s with
    | some sl =>
      if sl.host != h || sl.kind != 'l' then (w, "noslot", []) else
      match (w.fab.kernel h).accept sl.fd with
      | some (k', child, peer) =>
        let l := match k'.tbl.get child with | some cs => Kernel.boundEp cs | none => ⟨Ip.unspec false, 0⟩
        ((w.setK h k').addSlot ⟨ns, h, child, 's'⟩, "ok " ++ epTok peer ++ " " ++ epTok l, ["accepted"])
      | none => (w, "wouldblock", [])
    | none => (w, "noslot", [])
  | .close h s =>
    match w.slot s with
    | some sl =>
      if sl.host != h then (w, "noslot", []) else
      let k := w.fab.kernel h
      let k' := k.close sl.fd
      let lingering := (k'.tbl.get sl.fd).isSome
      let (w, seen) := ((w.setK h k').delSlot s).pump
      (w, "ok wire=" ++ wireTok seen,
        ["close"] ++ (if lingering then ["linger"] else []) ++ (if sl.kind == 'l' then ["closelistener"] else []))
    | none => (w, "noslot", [])
  | .usend h s ip port tag =>
    match w.slot s with
    | some sl =>
      if sl.host != h || sl.kind != 'u' then (w, "noslot", []) else
      match (w.fab.kernel h).udpSendTo sl.fd ⟨ip, port⟩ tag with
      | .ok k' =>
        let (w, seen) := (w.setK h k').pump
        (w, "ok wire=" ++ wireTok seen,
          (if seen.isEmpty then ["loopfold"] else
            if (w.fab.hostForIp ip).isNone then ["unknowndst"] else ["crosshost"]))
      | .error e => (w, "err " ++ errTok e, [])
    | none => (w, "noslot", [])
  | .usendc h s tag =>
    match w.slot s with
    | some sl =>
      if sl.host != h || sl.kind != 'u' then (w, "noslot", []) else
      match (w.fab.kernel h).udpSend sl.fd tag with
      | .ok k' =>
        let (w, seen) := (w.setK h k').pump
        (w, "ok wire=" ++ wireTok seen, ["usendc"])
      | .error e => (w, "err " ++ errTok e, [])
    | none => (w, "noslot", [])
  | .cycle h ip n =>
    if h ≥ w.fab.hosts.length then (w, "nohost", []) else
    let k := w.fab.kernel h
    let (k', last, fails) := cycleLoop n k ip 0 0
    (w.setK h k', "ok " ++ toString last ++ " fails=" ++ toString fails,
      if k'.tbl.cursor < k.tbl.cursor || n ≥ 16384 then ["wrap"] else [])
  | .injectudp src dst tag =>
    let (w', o) := inject w ⟨src, dst, .udp tag⟩
    (w', o, (if (w.fab.hostForIp dst.ip).isNone then ["unknowndst"] else ["spoof"]))
  | .injectsyn src dst =>
    let cov := match w.fab.hostForIp dst.ip with
      | none => ["unknowndst"]
      | some i =>
        match Kernel.tcpDemux (w.fab.kernel i).tbl dst src true false false with
        | .conn _ => ["tcpconn"]
        | .listener fd =>
          (match (w.fab.kernel i).tbl.get fd with
           | some s => if (Kernel.boundEp s).ip.isUnspec then ["tcplistener", "tcpwild"] else ["tcplistener"]
           | none => [])
        | .rst => ["tcprst"]
        | .ignore => []
    let (w', o) := inject w ⟨src, dst, .tcp true false false false⟩
    (w', o, cov)
  | .injectrst src dst =>
    let (w', o) := inject w ⟨src, dst, .tcp false false false true⟩
    (w', o, [])
  | .drain =>
    let (w', parts, cov) := w.slots.reverse.foldl (fun (acc : World × List String × List String) sl =>
      if sl.kind != 'u' then acc else
      let k := acc.1.fab.kernel sl.host
      let wild := match k.tbl.get sl.fd with
        | some s => (Kernel.boundEp s).ip.isUnspec | none => false
      let conn := match k.tbl.get sl.fd with
        | some s => s.peer.isSome | none => false
      let (k', got) := drainSock 100000 k sl.fd []
      if got.isEmpty then acc
      else (acc.1.setK sl.host k',
            acc.2.1 ++ ["h" ++ toString sl.host ++ ".s" ++ toString sl.id ++ "=" ++ ",".intercalate got],
            acc.2.2 ++ [if wild then "udpwild" else "udpexact"] ++ (if conn then ["udpconnected"] else [])))
      (w, [], [])
    (w', joinTok parts " ", cov)
  | .pumpn n =>
    -- n rounds of: egress on every host, hand every packet to the fabric (time passing on an idle wire)
    let (f, seen) := (List.range n).foldl (fun (acc : Fabric × List Pkt) _ =>
      let (f, out) := acc.1.egressAll
      (out.foldl (fun f p => f.deliver p) f, acc.2 ++ out)) (w.fab, [])
    ({ w with fab := f }, "ok wire=" ++ wireTok seen, ["pumpn"] ++ (if n ≥ 18 then ["synrecvtimeout"] else []))
  | .netstat =>
    let parts := (w.fab.hosts.zipIdx).filterMap fun (k, i) =>
      if k.addrs.isEmpty then none
      else some ("h" ++ toString i ++ ":[" ++ "|".intercalate (k.tbl.ordered.filterMap netstatEntry) ++ "]")
    (w, joinTok parts " ", [])

end R17
end TV
