/-
  Executable model of turmoil-net's per-host socket table, kernel syscalls (bind / connect /
  close / send), inbound demux (UDP and TCP), `Kernel::egress` with loopback folding, and the
  fabric's ip→host routing.  Transcribed from
    crates/turmoil-net/src/kernel/{socket.rs,mod.rs,udp.rs,tcp.rs}, fabric.rs.

  TCP is modelled at flag level (SYN / SYN-ACK / ACK / FIN / RST, no payload, no sequence
  numbers): enough for the table, the binding index and the demux decisions, valid in the
  regime the harness drives (the wire is quiescent between operations, so every segment is
  the one the receiver expects).  Byte streams, windows and retransmission are area nettcp.
-/
namespace TV

structure Ip where
  v6 : Bool
  n : Nat
deriving DecidableEq, Repr, Inhabited

namespace Ip
/-- `0.0.0.0` / `::`. -/
def isUnspec (a : Ip) : Bool := a.n == 0
/-- `127.0.0.0/8` (tokens 1, 2) / `::1` (token 1). -/
def isLoopback (a : Ip) : Bool := a.n == 1 || a.n == 2
def unspec (v6 : Bool) : Ip := ⟨v6, 0⟩
def localhost (v6 : Bool) : Ip := ⟨v6, 1⟩
end Ip

structure Ep where
  ip : Ip
  port : Nat
deriving DecidableEq, Repr, Inhabited

/-- `BindKey { domain, ty, local_addr, local_port }`. -/
structure BindKey where
  v6 : Bool
  tcp : Bool
  addr : Ip
  port : Nat
deriving DecidableEq, Repr, Inhabited

abbrev Fd := Nat

inductive TcpState
  | synSent | synRecv | estab | finWait1 | finWait2 | closeWait | lastAck | closing | closed
deriving DecidableEq, Repr, Inhabited

structure Tcb where
  state : TcpState
  peer : Ep
  wrClosed : Bool := false
  finSent : Bool := false
  peerFin : Bool := false
  reset : Bool := false
  /-- our FIN has been acknowledged (`snd_una` moved past it) -/
  finAcked : Bool := false
  timedOut : Bool := false
  /-- `egress_since_ack` -/
  esa : Nat := 0
  /-- `retx_attempts` -/
  retx : Nat := 0
deriving Repr, Inhabited

structure Sock where
  fd : Fd
  v6 : Bool
  tcp : Bool
  bound : Option BindKey := none
  peer : Option Ep := none
  listen : Option (List Fd) := none
  tcb : Option Tcb := none
  fdClosed : Bool := false
  recvq : List (Ep × Nat) := []
deriving Repr, Inhabited

/-- TCP flags (syn, ack, fin, rst) or a tagged datagram. -/
inductive Seg
  | udp (tag : Nat)
  | tcp (syn ack fin rst : Bool)
  /-- the third segment of a handshake: a bare ACK whose acknowledgement number is the
      server's ISS + 1. The model carries no sequence numbers; this constructor is the one place
      where an ACK's number matters (`SynReceived` only accepts the ACK of its own SYN-ACK, any
      other ACK — a challenge ACK, the ACK of a FIN — is ignored there). Printed like any ACK. -/
  | hsAck
deriving DecidableEq, Repr, Inhabited

structure Pkt where
  src : Ep
  dst : Ep
  seg : Seg
deriving DecidableEq, Repr, Inhabited

def ephLo : Nat := 49152
def ephHi : Nat := 65535
def defaultBacklog : Nat := 1024
def retxThreshold : Nat := 3
def retxMax : Nat := 5

/-- `socks` and `bindings` are kept newest-first (cons on insert); `ordered` is the IndexMap's
    insertion order.  The order of `bindings` is never observed (only `any`/`find` by key). -/
structure Table where
  nextId : Nat := 1
  socks : List Sock := []
  bindings : List (BindKey × List Fd) := []
  conns : List ((Ep × Ep) × Fd) := []
  cursor : Nat := ephLo
  /-- `PortAllocator.range` (`DEFAULT_EPHEMERAL_PORTS`; shrunk by the harness through the
      `verif_table_set_ephemeral_range` hook in the `tiny` family) -/
  lo : Nat := ephLo
  hi : Nat := ephHi
deriving Repr, Inhabited

namespace Table

def get (t : Table) (fd : Fd) : Option Sock := t.socks.find? (·.fd == fd)

def modify (t : Table) (fd : Fd) (f : Sock → Sock) : Table :=
  { t with socks := t.socks.map fun s => if s.fd == fd then f s else s }

/-- Sockets in insertion order (what `SocketTable::iter` yields). -/
def ordered (t : Table) : List Sock := t.socks.reverse

/-- `SocketTable::insert`: fresh fd, newest socket. `mk` fills in the fields. -/
def insertWith (t : Table) (mk : Fd → Sock) : Table × Fd :=
  ({ t with nextId := t.nextId + 1, socks := { mk t.nextId with fd := t.nextId } :: t.socks }, t.nextId)

def insert (t : Table) (v6 tcp : Bool) : Table × Fd :=
  t.insertWith fun fd => { fd := fd, v6 := v6, tcp := tcp }

/-- `SocketTable::remove`: drop the fd from every binding list (dropping emptied keys), from the
    connection index, and from the socket map (`shift_remove`, order preserved). -/
def remove (t : Table) (fd : Fd) : Table :=
  { t with
    bindings := t.bindings.filterMap fun (k, fds) =>
      let fds' := fds.filter (· != fd)
      if fds'.isEmpty then none else some (k, fds')
    conns := t.conns.filter (·.2 != fd)
    socks := t.socks.filter (·.fd != fd) }

def findByBind (t : Table) (k : BindKey) : List Fd :=
  match t.bindings.find? (·.1 == k) with
  | some (_, fds) => fds
  | none => []

/-- `bindings.entry(key).or_default().push(fd)` -/
def insertBindingL (bs : List (BindKey × List Fd)) (k : BindKey) (fd : Fd) : List (BindKey × List Fd) :=
  if bs.any (·.1 == k) then bs.map fun (k', fds) => if k' == k then (k', fds ++ [fd]) else (k', fds)
  else (k, [fd]) :: bs

def insertBinding (t : Table) (k : BindKey) (fd : Fd) : Table :=
  { t with bindings := insertBindingL t.bindings k fd }

def insertConnL : List ((Ep × Ep) × Fd) → (Ep × Ep) → Fd → List ((Ep × Ep) × Fd)
  | [], k, fd => [(k, fd)]
  | (k', f) :: rest, k, fd =>
    if k' == k then (k', fd) :: rest else (k', f) :: insertConnL rest k fd

def insertConn (t : Table) (l r : Ep) (fd : Fd) : Table :=
  { t with conns := insertConnL t.conns (l, r) fd }

def findConn (t : Table) (l r : Ep) : Option Fd :=
  (t.conns.find? (·.1 == (l, r))).map (·.2)

/-- `allocate_port`'s predicate: some binding of this (domain, type) uses port `p` at any address. -/
def portInUse (t : Table) (v6 tcp : Bool) (p : Nat) : Bool :=
  t.bindings.any fun (k, _) => k.v6 == v6 && k.tcp == tcp && k.port == p

end Table

/-- `PortAllocator::allocate`, literally: visit `cur`, advance with wrap, return it if free,
    give up when the advanced cursor is back at `start`.  `fuel` only makes the loop total. -/
def allocLoop (lo hi start : Nat) (inUse : Nat → Bool) : Nat → Nat → Option Nat × Nat
  | 0, cur => (none, cur)
  | fuel + 1, cur =>
    let next := if cur == hi then lo else cur + 1
    if !inUse cur then (some cur, next)
    else if next == start then (none, next)
    else allocLoop lo hi start inUse fuel next

def allocate (lo hi cursor : Nat) (inUse : Nat → Bool) : Option Nat × Nat :=
  allocLoop lo hi cursor inUse (hi - lo + 1) cursor

def Table.allocatePort (t : Table) (v6 tcp : Bool) : Option Nat × Table :=
  let (r, c) := allocate t.lo t.hi t.cursor (t.portInUse v6 tcp)
  (r, { t with cursor := c })

structure Kernel where
  tbl : Table := {}
  addrs : List Ip := []
  outbound : List Pkt := []
  /-- Model variant for finding F-C17-1. `false` = the code as it is: a never-accepted child
      that is aborted while still in `SynReceived` (peer RST, or SYN-ACK retransmissions
      exhausted) stays in the table for ever, and so does its binding.  `true` = proposed
      repair: such a child is removed at the moment it is aborted. -/
  fixReap : Bool := false
  /-- Repair 080947f: a segment carrying SYN or FIN that reaches an open connection and is not
      accepted is answered with an ACK (before: dropped silently). -/
  fixAck : Bool := false
  /-- Repair 2fda244: `egress_since_ack` / `retx_attempts` are reset when the handshake
      completes (before: the first FIN inherited the counters and was retransmitted spuriously). -/
  fixRetxReset : Bool := false
  /-- Repair 91a643a: an abort (peer RST, retransmit exhaustion) in `LastAck` / `Closing` closes
      quietly: state `Closed` without the `reset` / `timed_out` mark. -/
  fixQuiet : Bool := false
  /-- Repair 0ad6f5a (`tcp_fin_timeout`): `check_retx` also counts egress passes for a socket the
      application has closed and that sits in `FinWait2`; after `retxThreshold * (retxMax + 1)`
      silent passes it is aborted (timed out) and `reap_closed` collects it. -/
  fixFw2Timeout : Bool := false
  /-- Repair f88dd80: a closing listener only sweeps `SynReceived` children of its own address
      family (`0.0.0.0:p` and `[::]:p` may both listen; before, closing one reset the other's
      half-open children too). -/
  fixCloseFamily : Bool := false
deriving Repr, Inhabited

inductive Err
  | addrInUse | addrNotAvailable | afNoSupport | notConnected | refused | notFound
deriving DecidableEq, Repr, Inhabited

namespace Kernel

/-- `Kernel::is_local`. -/
def isLocal (k : Kernel) (a : Ip) : Bool := a.isLoopback || k.addrs.contains a

/-- The conflict walk of `Kernel::bind` over `bindings_on_port`. -/
def bindConflict (bs : List (BindKey × List Fd)) (key : BindKey) : Bool :=
  bs.any fun (e, _) =>
    e.v6 == key.v6 && e.tcp == key.tcp && e.port == key.port &&
      (e.addr == key.addr || e.addr.isUnspec || key.addr.isUnspec)

/-- `Kernel::bind` (socket + bind). -/
def bind (k : Kernel) (ip : Ip) (port : Nat) (tcp : Bool) : Except Err (Kernel × Fd) :=
  if !ip.isUnspec && !k.isLocal ip then .error .addrNotAvailable
  else
    let (port?, tbl) :=
      if port == 0 then k.tbl.allocatePort ip.v6 tcp else (some port, k.tbl)
    match port? with
    | none => .error .addrInUse
    | some p =>
      let key : BindKey := ⟨ip.v6, tcp, ip, p⟩
      if bindConflict tbl.bindings key then .error .addrInUse
      else
        let (tbl, fd) := tbl.insertWith fun fd => { fd := fd, v6 := ip.v6, tcp := tcp, bound := some key }
        let tbl := tbl.insertBinding key fd
        .ok ({ k with tbl := tbl }, fd)

def listen (k : Kernel) (fd : Fd) : Kernel :=
  { k with tbl := k.tbl.modify fd fun s => { s with listen := some [] } }

def firstOfFamily (k : Kernel) (v6 : Bool) : Option Ip := k.addrs.find? (·.v6 == v6)

/-- `tcp::auto_bind` / `udp::auto_bind`. -/
def autoBind (k : Kernel) (fd : Fd) (tcp : Bool) (dst : Ip) : Except Err (Kernel × BindKey) :=
  let local? : Option Ip :=
    if dst.isLoopback then some (Ip.localhost dst.v6) else k.firstOfFamily dst.v6
  match local? with
  | none => .error .addrNotAvailable
  | some lip =>
    let (port?, tbl) := k.tbl.allocatePort dst.v6 tcp
    match port? with
    | none => .error .addrInUse
    | some p =>
      let key : BindKey := ⟨dst.v6, tcp, lip, p⟩
      let tbl := tbl.insertBinding key fd
      let tbl := tbl.modify fd fun s => { s with bound := some key }
      .ok ({ k with tbl := tbl }, key)

def emit (k : Kernel) (p : Pkt) : Kernel := { k with outbound := k.outbound ++ [p] }

def boundEp (s : Sock) : Ep :=
  match s.bound with
  | some b => ⟨b.addr, b.port⟩
  | none => ⟨Ip.unspec s.v6, 0⟩

/-- UDP `connect`: eager, sets the default peer / inbound filter. -/
def udpConnect (k : Kernel) (fd : Fd) (peer : Ep) : Except Err Kernel :=
  match k.tbl.get fd with
  | none => .error .notFound
  | some s =>
    if s.v6 != peer.ip.v6 then .error .afNoSupport
    else .ok { k with tbl := k.tbl.modify fd fun s => { s with peer := some peer } }

/-- `udp::send_to` for a bound socket (the shim only creates bound UDP sockets). -/
def udpSendTo (k : Kernel) (fd : Fd) (dst : Ep) (tag : Nat) : Except Err Kernel :=
  match k.tbl.get fd with
  | none => .error .notFound
  | some s =>
    if s.v6 != dst.ip.v6 then .error .afNoSupport
    else
      match s.bound with
      | none => .error .notFound
      | some b =>
        let srcIp :=
          if b.addr.isUnspec then
            if dst.ip.isLoopback then Ip.localhost dst.ip.v6
            else (k.firstOfFamily dst.ip.v6).getD b.addr
          else b.addr
        .ok (k.emit ⟨⟨srcIp, b.port⟩, dst, .udp tag⟩)

def udpSend (k : Kernel) (fd : Fd) (tag : Nat) : Except Err Kernel :=
  match k.tbl.get fd with
  | none => .error .notFound
  | some s =>
    match s.peer with
    | none => .error .notConnected
    | some p => k.udpSendTo fd p tag

/-- Which socket a datagram to `dst` is queued on: exact binding first, wildcard second. -/
def udpTarget (t : Table) (dst : Ep) : Option Fd :=
  match (t.findByBind ⟨dst.ip.v6, false, dst.ip, dst.port⟩).head? with
  | some fd => some fd
  | none => (t.findByBind ⟨dst.ip.v6, false, Ip.unspec dst.ip.v6, dst.port⟩).head?

/-- `udp::deliver`. -/
def deliverUdp (k : Kernel) (src dst : Ep) (tag : Nat) : Kernel :=
  match udpTarget k.tbl dst with
  | none => k
  | some fd =>
    match k.tbl.get fd with
    | none => k
    | some s =>
      if (match s.peer with | some p => p != src | none => false) then k
      else { k with tbl := k.tbl.modify fd fun s => { s with recvq := s.recvq ++ [(src, tag)] } }

def isListener (t : Table) (fd : Fd) : Bool :=
  match t.get fd with
  | some s => s.listen.isSome
  | none => false

/-- `tcp::find_listener`: exact key then wildcard key, first fd that is listening. -/
def findListener (t : Table) (l : Ep) : Option Fd :=
  match (t.findByBind ⟨l.ip.v6, true, l.ip, l.port⟩).find? (isListener t) with
  | some fd => some fd
  | none => (t.findByBind ⟨l.ip.v6, true, Ip.unspec l.ip.v6, l.port⟩).find? (isListener t)

/-- The demux decision of `tcp::deliver`. -/
inductive TcpDemux
  | conn (fd : Fd) | listener (fd : Fd) | rst | ignore
deriving DecidableEq, Repr

def tcpDemux (t : Table) (l r : Ep) (syn ack rst : Bool) : TcpDemux :=
  match t.findConn l r with
  | some fd => .conn fd
  | none =>
    if syn && !ack then
      match findListener t l with
      | some fd => .listener fd
      | none => .rst
    else if !rst then .rst else .ignore

def emitRst (k : Kernel) (l r : Ep) (ackFlag : Bool) : Kernel :=
  k.emit ⟨l, r, .tcp false (!ackFlag) false true⟩

def modTcb (k : Kernel) (fd : Fd) (f : Tcb → Tcb) : Kernel :=
  { k with tbl := k.tbl.modify fd fun s => { s with tcb := s.tcb.map f } }

def countChildren (t : Table) (listener : Fd) (l : Ep) : Nat :=
  (t.conns.filter fun ((l', _), fd) =>
    l' == l && fd != listener &&
      (match t.get fd with
       | some s => (match s.tcb with | some tc => tc.state == .synRecv | none => false)
       | none => false)).length

def acceptSyn (k : Kernel) (lfd : Fd) (l r : Ep) : Kernel :=
  match k.tbl.get lfd with
  | none => k
  | some ls =>
    let ready := (ls.listen.getD []).length
    if countChildren k.tbl lfd l + ready ≥ defaultBacklog then k
    else
      let (tbl, child) := k.tbl.insert ls.v6 ls.tcp
      let key : BindKey := ⟨ls.v6, ls.tcp, l.ip, l.port⟩
      let tbl := tbl.insertBinding key child
      let tbl := tbl.modify child fun s =>
        { s with bound := some key, peer := some r, tcb := some { state := .synRecv, peer := r } }
      let tbl := tbl.insertConn l r child
      ({ k with tbl := tbl }).emit ⟨l, r, .tcp true true false false⟩

def pushToListener (k : Kernel) (child : Fd) (l : Ep) : Kernel :=
  match findListener k.tbl l with
  | none => k
  | some lfd =>
    { k with tbl := k.tbl.modify lfd fun s => { s with listen := s.listen.map (· ++ [child]) } }

def handleEstablished (k : Kernel) (fd : Fd) (l r : Ep) (syn ack fin : Bool) : Kernel :=
  match k.tbl.get fd with
  | none => k
  | some s =>
    match s.tcb with
    | none => k
    | some tc =>
      -- ACK of our FIN (in the harness regime every ACK seen after the FIN left acknowledges it)
      let progress := ack && tc.finSent && !tc.finAcked
      let st1 :=
        if progress then
          match tc.state with
          | .finWait1 => TcpState.finWait2
          | .closing => .closed
          | .lastAck => .closed
          | o => o
        else tc.state
      let takeFin := fin && !tc.peerFin
      let st2 :=
        if takeFin then
          match st1 with
          | .estab => TcpState.closeWait
          | .finWait1 => .closing
          | .finWait2 => .closed
          | o => o
        else st1
      let k := k.modTcb fd fun tc =>
        { tc with state := st2, peerFin := tc.peerFin || takeFin,
                  finAcked := tc.finAcked || progress,
                  esa := if progress then 0 else tc.esa, retx := if progress then 0 else tc.retx }
      if takeFin || (k.fixAck && (fin || syn)) then k.emit ⟨l, r, .tcp false true false false⟩ else k

def handleOnConn (k : Kernel) (fd : Fd) (l r : Ep) (syn ack fin rst : Bool) (hs : Bool := false) : Kernel :=
  if rst then
    if k.fixReap && (match k.tbl.get fd with
        | some s => (match s.tcb with | some tc => tc.state == .synRecv | none => false)
        | none => false) then { k with tbl := k.tbl.remove fd }
    else k.modTcb fd fun tc =>
      { tc with state := .closed,
                reset := if k.fixQuiet && (tc.state == .lastAck || tc.state == .closing) then tc.reset else true }
  else
    match k.tbl.get fd with
    | none => k
    | some s =>
      match s.tcb with
      | none => k
      | some tc =>
        match tc.state with
        | .synSent =>
          if syn && ack then
            (k.modTcb fd fun tc => { tc with state := .estab, esa := if k.fixRetxReset then 0 else tc.esa,
                                               retx := if k.fixRetxReset then 0 else tc.retx }).emit
              ⟨l, r, .hsAck⟩
          else k
        | .synRecv =>
          if ack && !syn && hs then
            (k.modTcb fd fun tc => { tc with state := .estab, esa := if k.fixRetxReset then 0 else tc.esa,
                                               retx := if k.fixRetxReset then 0 else tc.retx }).pushToListener fd l
          else k
        | .closed => k
        | _ => k.handleEstablished fd l r syn ack fin

/-- `tcp::deliver`. -/
def deliverTcp (k : Kernel) (src dst : Ep) (syn ack fin rst : Bool) (hs : Bool := false) : Kernel :=
  match tcpDemux k.tbl dst src syn ack rst with
  | .conn fd => k.handleOnConn fd dst src syn ack fin rst hs
  | .listener lfd => k.acceptSyn lfd dst src
  | .rst => k.emitRst dst src ack
  | .ignore => k

/-- `Kernel::deliver`. -/
def deliver (k : Kernel) (p : Pkt) : Kernel :=
  match p.seg with
  | .udp tag => k.deliverUdp p.src p.dst tag
  | .tcp syn ack fin rst => k.deliverTcp p.src p.dst syn ack fin rst
  | .hsAck => k.deliverTcp p.src p.dst false true false false true

def transmittable (s : TcpState) : Bool :=
  s == .estab || s == .closeWait || s == .finWait1 || s == .closing || s == .lastAck

/-- `tcp::segment_all`, FIN part only (no payload in this model). -/
def segmentAll (k : Kernel) : Kernel :=
  k.tbl.ordered.foldl (fun k s0 =>
    match k.tbl.get s0.fd with
    | none => k
    | some s =>
      match s.tcb with
      | some tc =>
        if transmittable tc.state && tc.wrClosed && !tc.finSent then
          (k.modTcb s.fd fun tc => { tc with finSent := true }).emit
            ⟨boundEp s, tc.peer, .tcp false true true false⟩
        else k
      | none => k) k

/-- `tcp::check_retx`: count egress passes for every socket with something unacknowledged
    (handshake segment or FIN); at the threshold re-emit, after `retxMax` attempts abort. -/
def checkRetx (k : Kernel) : Kernel :=
  k.tbl.ordered.foldl (fun k s0 =>
    match k.tbl.get s0.fd with
    | none => k
    | some s =>
      match s.tcb with
      | none => k
      | some tc =>
        let handshake := tc.state == .synSent || tc.state == .synRecv
        let data := transmittable tc.state && tc.finSent && !tc.finAcked
        let fw2orphan := k.fixFw2Timeout && s.fdClosed && tc.state == .finWait2
        if !(handshake || data || fw2orphan) then k
        else if tc.esa + 1 < retxThreshold then k.modTcb s.fd fun tc => { tc with esa := tc.esa + 1 }
        else if tc.retx ≥ retxMax then
          if k.fixReap && tc.state == .synRecv then { k with tbl := k.tbl.remove s.fd }
          else k.modTcb s.fd fun tc =>
            { tc with esa := tc.esa + 1, state := .closed,
                      timedOut := if k.fixQuiet && (tc.state == .lastAck || tc.state == .closing) then tc.timedOut else true }
        else
          let k := k.modTcb s.fd fun tc =>
            { tc with esa := 0, retx := tc.retx + 1,
                      finSent := if handshake || tc.finAcked then tc.finSent else false }
          if tc.state == .synSent then k.emit ⟨boundEp s, tc.peer, .tcp true false false false⟩
          else if tc.state == .synRecv then k.emit ⟨boundEp s, tc.peer, .tcp true true false false⟩
          else k) k

/-- `tcp::reap_closed`. -/
def reapClosed (k : Kernel) : Kernel :=
  let victims := k.tbl.socks.filter fun s =>
    s.fdClosed && (match s.tcb with | some tc => tc.state == .closed || tc.reset | none => true)
  { k with tbl := victims.foldl (fun t s => t.remove s.fd) k.tbl }

/-- One drain of `outbound` inside `Kernel::egress`: local destinations fold back through
    `deliver`, everything else is appended to `out`. -/
def drainOutbound (k : Kernel) (drained : List Pkt) (out : List Pkt) : Kernel × List Pkt :=
  drained.foldl (fun (ko : Kernel × List Pkt) p =>
    if ko.1.isLocal p.dst.ip then (ko.1.deliver p, ko.2) else (ko.1, ko.2 ++ [p])) (k, out)

def egressLoop : Nat → Kernel → List Pkt → Kernel × List Pkt
  | 0, k, out => (k, out)
  | fuel + 1, k, out =>
    let k := k.segmentAll
    if k.outbound.isEmpty then (k, out)
    else
      let drained := k.outbound
      let (k, out) := drainOutbound { k with outbound := [] } drained out
      egressLoop fuel k out

/-- `Kernel::egress`. -/
def egress (k : Kernel) (out : List Pkt) : Kernel × List Pkt :=
  let (k, out) := egressLoop 64 k.checkRetx out
  (k.reapClosed, out)

/-- First poll of `tcp::poll_connect` preceded by `open`. `Except` error = connect failed
    immediately (the shim's `FdGuard` then closes the fd, which reaps it). -/
def tcpConnectStart (k : Kernel) (peer : Ep) : Except (Err × Kernel) (Kernel × Fd) :=
  let (tbl, fd) := k.tbl.insert peer.ip.v6 true
  let k := { k with tbl := tbl }
  match k.autoBind fd true peer.ip with
  | .error e => .error (e, { k with tbl := k.tbl.remove fd })
  | .ok (k, key) =>
    let src : Ep := ⟨key.addr, key.port⟩
    let k := { k with tbl := k.tbl.modify fd fun s =>
      { s with tcb := some { state := .synSent, peer := peer }, peer := some peer } }
    let k := { k with tbl := k.tbl.insertConn src peer fd }
    .ok (k.emit ⟨src, peer, .tcp true false false false⟩, fd)

inductive ConnPoll | ok | pending | refused | timedOut
deriving DecidableEq, Repr

def tcpConnectPoll (k : Kernel) (fd : Fd) : ConnPoll :=
  match k.tbl.get fd with
  | none => .refused
  | some s =>
    match s.tcb with
    | none => .pending
    | some tc =>
      match tc.state with
      | .estab => .ok
      | .synSent | .synRecv => .pending
      | _ => if tc.timedOut then .timedOut else .refused

/-- `Kernel::close` → `tcp::on_close`. -/
def close (k : Kernel) (fd : Fd) : Kernel :=
  match k.tbl.get fd with
  | none => k
  | some st =>
    match st.tcb, st.listen with
    | none, some ready =>
      if st.tcp then
        -- CloseListener: RST every unaccepted child, then reap the listener
        let l := boundEp st
        let wildcard := l.ip.isUnspec
        let extra := k.tbl.ordered.filter fun c =>
          c.fd != fd && !ready.contains c.fd &&
            (match c.tcb, c.bound with
             | some tc, some b =>
               tc.state == .synRecv && b.port == l.port && (!k.fixCloseFamily || b.addr.v6 == l.ip.v6) &&
                 (wildcard || b.addr == l.ip)
             | _, _ => false)
        let children := ready ++ extra.map (·.fd)
        let k := children.foldl (fun k c =>
          match k.tbl.get c with
          | none => k
          | some cs =>
            match cs.tcb with
            | none => { k with tbl := k.tbl.remove c }
            | some tc =>
              let k := k.emit ⟨boundEp cs, tc.peer, .tcp false true false true⟩
              { k with tbl := k.tbl.remove c }) k
        { k with tbl := k.tbl.remove fd }
      else { k with tbl := k.tbl.remove fd }
    | some tc, _ =>
      if st.tcp && !tc.reset && !tc.timedOut && tc.state != .closed && tc.state != .synSent && tc.state != .synRecv then
        -- Linger (no unread bytes in this model): queue FIN, keep the entry
        let k := { k with tbl := k.tbl.modify fd fun s => { s with fdClosed := true } }
        if tc.wrClosed then k
        else k.modTcb fd fun tc =>
          { tc with wrClosed := true,
                    state := match tc.state with
                      | .estab => .finWait1
                      | .closeWait => .lastAck
                      | o => o }
      else { k with tbl := k.tbl.remove fd }
    | none, none => { k with tbl := k.tbl.remove fd }

/-- `Kernel::poll_accept`. -/
def accept (k : Kernel) (fd : Fd) : Option (Kernel × Fd × Ep) :=
  match k.tbl.get fd with
  | none => none
  | some s =>
    match s.listen with
    | some (child :: rest) =>
      match k.tbl.get child with
      | some cs =>
        match cs.tcb with
        | some tc =>
          some ({ k with tbl := k.tbl.modify fd fun s => { s with listen := some rest } }, child, tc.peer)
        | none => none
      | none => none
    | _ => none

def recvFrom (k : Kernel) (fd : Fd) : Option (Kernel × Ep × Nat) :=
  match k.tbl.get fd with
  | none => none
  | some s =>
    match s.recvq with
    | [] => none
    | (from_, tag) :: rest =>
      some ({ k with tbl := k.tbl.modify fd fun s => { s with recvq := rest } }, from_, tag)

end Kernel

/-- `Fabric`: hosts in insertion order and the ip→host map. -/
structure Fabric where
  hosts : List Kernel := []
  ipToHost : List (Ip × Nat) := []
deriving Repr, Inhabited

namespace Fabric

def addHost (f : Fabric) (addrs : List Ip) (fixReap : Bool := false) (fixAck : Bool := false)
    (fixRetxReset : Bool := false) (fixQuiet : Bool := false) (fixFw2Timeout : Bool := false) (fixCloseFamily : Bool := false) : Fabric :=
  let id := f.hosts.length
  { hosts := f.hosts ++ [{ addrs := addrs.eraseDups, fixReap := fixReap, fixAck := fixAck, fixRetxReset := fixRetxReset, fixQuiet := fixQuiet, fixFw2Timeout := fixFw2Timeout, fixCloseFamily := fixCloseFamily }],
    ipToHost := f.ipToHost ++ addrs.map fun a => (a, id) }

/-- `PortAllocator::new(lo..=hi)` on every host (verification hook, before any socket exists). -/
def setEph (f : Fabric) (lo hi : Nat) : Fabric :=
  { f with hosts := f.hosts.map fun k => { k with tbl := { k.tbl with lo := lo, hi := hi, cursor := lo } } }

def hostForIp (f : Fabric) (ip : Ip) : Option Nat :=
  (f.ipToHost.find? (·.1 == ip)).map (·.2)

def modHost (f : Fabric) (i : Nat) (g : Kernel → Kernel) : Fabric :=
  { f with hosts := f.hosts.mapIdx fun j k => if j == i then g k else k }

def kernel (f : Fabric) (i : Nat) : Kernel := f.hosts.getD i {}

/-- `Fabric::deliver`: route to the owner of the destination ip, drop silently otherwise. -/
def deliver (f : Fabric) (p : Pkt) : Fabric :=
  match f.hostForIp p.dst.ip with
  | some i => f.modHost i (·.deliver p)
  | none => f

/-- `Fabric::egress_all`: every host in insertion order. -/
def egressAll (f : Fabric) : Fabric × List Pkt :=
  let (hs, out) := f.hosts.foldl (fun (acc : List Kernel × List Pkt) k =>
    let (k', out') := k.egress acc.2
    (acc.1 ++ [k'], out')) ([], [])
  ({ f with hosts := hs }, out)

/-- The harness's wire: egress, deliver everything, repeat until quiet. Returns the packets
    that crossed the wire, in order. -/
def pump : Nat → Fabric → List Pkt → Fabric × List Pkt
  | 0, f, seen => (f, seen)
  | fuel + 1, f, seen =>
    let (f, out) := f.egressAll
    if out.isEmpty then (f, seen)
    else pump fuel (out.foldl (fun f p => f.deliver p) f) (seen ++ out)

end Fabric

end TV
