/-
  Rule chains (`Net::{install_rule, uninstall_rule, evaluate}`, `RuleGuard`) and the fixture
  scheduler (`fixture/scheduler.rs`).  `P` is the packet type; a rule is an arbitrary function
  `P → Verdict`.  Times are in microseconds.
-/
namespace TV

inductive Verdict
  | pass
  | drop
  | deliver (us : Nat)
deriving DecidableEq, Repr, Inhabited

structure Rule (P : Type) where
  id : Nat
  f : P → Verdict

/-- `Net.rules : IndexMap<RuleId, Box<dyn Rule>>` + `next_rule_id`. -/
structure Chain (P : Type) where
  rules : List (Rule P) := []
  nextId : Nat := 1

namespace Chain
variable {P : Type}

/-- `install_rule`: fresh id, appended. -/
def install (c : Chain P) (f : P → Verdict) : Chain P × Nat :=
  ({ rules := c.rules ++ [⟨c.nextId, f⟩], nextId := c.nextId + 1 }, c.nextId)

/-- `uninstall_rule` (`shift_remove`): drop that id, keep the order of the rest. -/
def uninstall (c : Chain P) (id : Nat) : Chain P :=
  { c with rules := c.rules.filter (·.id != id) }

/-- `Net::evaluate` with the list of rules consulted (id and what each returned). -/
def evalLog : List (Rule P) → P → List (Nat × Verdict) × Verdict
  | [], _ => ([], .pass)
  | r :: rs, p =>
    match r.f p with
    | .pass =>
      let (l, v) := evalLog rs p
      ((r.id, .pass) :: l, v)
    | v => ([(r.id, v)], v)

def evaluate (c : Chain P) (p : P) : Verdict := (evalLog c.rules p).2

end Chain

/-- `Scheduled { deliver_at, seq, pkt }`. -/
structure Scheduled (P : Type) where
  deliverAt : Nat
  seq : Nat
  pkt : P

/-- `(deliver_at, seq)` lexicographic `<`. -/
def Scheduled.lt {P : Type} (a b : Scheduled P) : Prop :=
  a.deliverAt < b.deliverAt ∨ (a.deliverAt = b.deliverAt ∧ a.seq < b.seq)

instance {P : Type} (a b : Scheduled P) : Decidable (a.lt b) := by
  unfold Scheduled.lt; exact inferInstance

structure Sched (P : Type) where
  now : Nat := 0
  pending : List (Scheduled P) := []
  nextSeq : Nat := 0

/-- Insertion point of `binary_search_by((deliver_at, seq))` on a sorted list with distinct
    keys: before the first entry whose key is greater. -/
def insertSorted {P : Type} (e : Scheduled P) : List (Scheduled P) → List (Scheduled P)
  | [] => [e]
  | x :: xs => if e.lt x then e :: x :: xs else x :: insertSorted e xs

/-- What happened to one egressed packet in a tick. -/
inductive Fate
  | dropped
  | deliveredNow
  | scheduled (deliverAt : Nat) (seq : Nat)
deriving DecidableEq, Repr

namespace Sched
variable {P : Type}

def schedule (s : Sched P) (p : P) (delay : Nat) : Sched P :=
  { s with pending := insertSorted ⟨s.now + delay, s.nextSeq, p⟩ s.pending, nextSeq := s.nextSeq + 1 }

/-- The ready prefix: everything before the first entry with `deliver_at > now`. -/
def ready (s : Sched P) : List (Scheduled P) := s.pending.takeWhile (·.deliverAt ≤ s.now)
def rest (s : Sched P) : List (Scheduled P) := s.pending.dropWhile (·.deliverAt ≤ s.now)

/-- Route one egressed packet by verdict. -/
def route (s : Sched P) (p : P) : Verdict → Sched P × Fate
  | .drop => (s, .dropped)
  | .pass => (s, .deliveredNow)
  | .deliver d =>
    if d = 0 then (s, .deliveredNow)
    else (s.schedule p d, .scheduled (s.now + d) s.nextSeq)

def routeAll (verdict : P → Verdict) : Sched P → List P → Sched P × List (P × Fate)
  | s, [] => (s, [])
  | s, p :: ps =>
    let (s1, f) := s.route p (verdict p)
    let (s2, fs) := routeAll verdict s1 ps
    (s2, (p, f) :: fs)

/-- `Scheduler::tick`: advance the clock, hand over the due packets (in queue order), then
    route this tick's egress.  Returns the due packets and the fate of each egressed one. -/
def tick (s : Sched P) (dt : Nat) (egressed : List P) (verdict : P → Verdict) :
    Sched P × List (Scheduled P) × List (P × Fate) :=
  let s1 : Sched P := { s with now := s.now + dt }
  let due := s1.ready
  let s2 : Sched P := { s1 with pending := s1.rest }
  let (s3, fates) := routeAll verdict s2 egressed
  (s3, due, fates)

end Sched
end TV
