/-
  C17 specification level: what a real socket table is supposed to answer, as functions of the
  set of *live sockets* only (no indexes, no cursor).  The theorems of Props/C17 relate the
  model's mechanisms to these; the driver evaluates them on the implementation's own
  observations (oracle O) through a ghost set of live sockets built from the OBS lines.
-/
import TvNetTable.Model.Replay17

namespace TV
namespace Spec

def sameSpace (a b : BindKey) : Bool := a.v6 == b.v6 && a.tcp == b.tcp && a.port == b.port

/-- Two bindings conflict: same protocol space and port, and same address or either wildcard. -/
def conflicts (a b : BindKey) : Bool :=
  sameSpace a b && (a.addr == b.addr || a.addr.isUnspec || b.addr.isUnspec)

inductive BindVerdict | ok | addrInUse | addrNotAvailable
deriving DecidableEq, Repr

/-- Expected result of `bind(key)` with an explicit port, given the live bindings. -/
def bindVerdict (isLocal : Bool) (live : List BindKey) (key : BindKey) : BindVerdict :=
  if !key.addr.isUnspec && !isLocal then .addrNotAvailable
  else if live.any (conflicts · key) then .addrInUse
  else .ok

/-- Port `p` is unused at every local address in this protocol space. -/
def portFree (live : List BindKey) (v6 tcp : Bool) (p : Nat) : Bool :=
  !live.any fun k => k.v6 == v6 && k.tcp == tcp && k.port == p

/-- Which UDP socket (if any) may see a datagram `src → dst`: the socket bound exactly to
    `dst`, else the one bound to the wildcard on that port; a connected socket only from its peer. -/
def udpRecipient {α : Type} (socks : List (α × BindKey × Option Ep)) (src dst : Ep) : Option α :=
  let exact := socks.find? fun x => x.2.1 == (⟨dst.ip.v6, false, dst.ip, dst.port⟩ : BindKey)
  let cand := match exact with
    | some x => some x
    | none => socks.find? fun x => x.2.1 == (⟨dst.ip.v6, false, Ip.unspec dst.ip.v6, dst.port⟩ : BindKey)
  match cand with
  | none => none
  | some (a, _, peer) =>
    match peer with
    | some p => if p == src then some a else none
    | none => some a

/-- Source address selection for a socket bound to `bound` sending to `dst`. -/
def srcSelect (addrs : List Ip) (bound dst : Ip) : Ip :=
  if bound.isUnspec then
    if dst.isLoopback then Ip.localhost dst.v6
    else ((addrs.find? (·.v6 == dst.v6)).getD bound)
  else bound

def indexOfHost (hosts : List (List Ip)) (a : Ip) : Option Nat :=
  (hosts.zipIdx.find? fun (as, _) => as.contains a).map (·.2)

/-- Where a packet emitted on host `from_` towards `dst` ends up: on the host itself when the
    destination is loopback or one of its own addresses, else on the owner of `dst`, else nowhere. -/
def routeHost (hosts : List (List Ip)) (from_ : Nat) (dst : Ip) : Option Nat :=
  if dst.isLoopback || (hosts.getD from_ []).contains dst then some from_
  else indexOfHost hosts dst

/-- Where a packet put on the wire by the harness ends up (loopback is never routable). -/
def routeWire (hosts : List (List Ip)) (dst : Ip) : Option Nat :=
  if dst.isLoopback then none else indexOfHost hosts dst

inductive SynReply | silent | synack | rst
deriving DecidableEq, Repr

/-- Reaction to a bare SYN `src → dst`: an existing connection on that 4-tuple absorbs it, else
    a listener on the exact address or the wildcard answers SYN-ACK, else RST. -/
def synReply (streams : List (Ep × Ep)) (listeners : List BindKey) (src dst : Ep) : SynReply :=
  if streams.contains (dst, src) then .silent
  else if listeners.any fun k => k.v6 == dst.ip.v6 && k.tcp && k.port == dst.port &&
      (k.addr == dst.ip || k.addr.isUnspec) then .synack
  else .rst

end Spec

/-! ### Ghost state and oracle evaluated on implementation observations -/
namespace O17

structure GSock where
  slot : Nat
  host : Nat
  key : BindKey
  peer : Option Ep := none
  kind : Char            -- 'u' | 'l' | 's'
  maybe : Bool := false  -- closed TCP stream whose entry may linger
deriving Repr, Inhabited

structure Probe where
  tag : Nat
  expect : Option Nat      -- slot that must see it
  src : Ep
deriving Repr, Inhabited

structure G where
  addrs : List (List Ip) := []
  live : List GSock := []
  probes : List Probe := []
  fails : List String := []
  lo : Nat := ephLo
  hi : Nat := ephHi
  /-- targets of connects that were abandoned mid-handshake (on loopback the handshake may
      already be complete: the server side then has an acceptable child nobody reported) -/
  cancelled : List Ep := []
deriving Inhabited

def G.fail (g : G) (msg : String) : G := { g with fails := g.fails ++ [msg] }

def parseIp (s : String) : Option Ip :=
  match s.splitOn ":" with
  | [a, b] =>
    match a, b.toNat? with
    | "4", some n => some ⟨false, n⟩
    | "6", some n => some ⟨true, n⟩
    | _, _ => none
  | _ => none

def parseEp (s : String) : Option Ep :=
  match s.splitOn ":" with
  | [a, b, c] =>
    match parseIp (a ++ ":" ++ b), c.toNat? with
    | some ip, some p => some ⟨ip, p⟩
    | _, _ => none
  | _ => none

/-- some live socket of host `h` (only definitely-live ones if `definite`) satisfies `p` -/
def anyKey (g : G) (h : Nat) (definite : Bool) (p : BindKey → Bool) : Bool :=
  g.live.any fun s => s.host == h && (!definite || !s.maybe) && p s.key

def isLocalG (g : G) (h : Nat) (a : Ip) : Bool := a.isLoopback || (g.addrs.getD h []).contains a

def distinctInRange (lo hi : Nat) (ports : List Nat) : Nat :=
  let arr := ports.foldl (fun (a : Array Bool) p =>
    if lo ≤ p && p ≤ hi then a.set! (p - lo) true else a) (Array.replicate (hi - lo + 1) false)
  arr.foldl (fun n b => if b then n + 1 else n) 0

def checkBind (g : G) (h s : Nat) (ip : Ip) (port : Nat) (tcp : Bool) (obs : String) : G :=
  let toks := obs.splitOn " "
  let isLocal := isLocalG g h ip
  let kind : Char := if tcp then 'l' else 'u'
  match toks with
  | ["ok", ipS, portS] =>
    match parseIp ipS, portS.toNat? with
    | some lip, some lp =>
      let key : BindKey := ⟨ip.v6, tcp, lip, lp⟩
      let conflictDefinite := anyKey g h true (Spec.conflicts · key)
      let portTaken := anyKey g h true fun k => k.v6 == ip.v6 && k.tcp == tcp && k.port == lp
      let g := { g with live := { slot := s, host := h, key := key, kind := kind } :: g.live }
      let g := if lip != ip then g.fail s!"bind s{s}: local address differs from the requested one" else g
      if !ip.isUnspec && !isLocal then g.fail s!"bind s{s}: ok on a non-local address"
      else if port != 0 then
        let g := if lp != port then g.fail s!"bind s{s}: bound to a different port" else g
        if conflictDefinite then g.fail s!"bind s{s}: ok although a live socket conflicts"
        else g
      else
        if lp < g.lo || lp > g.hi then g.fail s!"bind s{s}: ephemeral port {lp} out of range"
        else if portTaken then
          g.fail s!"bind s{s}: ephemeral port {lp} already in use at a local address"
        else g
    | _, _ => g.fail "bind: unparsable ok"
  | ["err", e] =>
    if !ip.isUnspec && !isLocal then
      if e == "addrnotavailable" then g else g.fail s!"bind s{s}: non-local address must give addrnotavailable, got {e}"
    else if e != "addrinuse" then g.fail s!"bind s{s}: unexpected error {e}"
    else if port != 0 then
      if anyKey g h false (Spec.conflicts · ⟨ip.v6, tcp, ip, port⟩) then g
      else g.fail s!"bind s{s}: addrinuse although no live socket conflicts"
    else
      -- exhaustion is only legitimate when every port of the range is taken in this space
      let used := (g.live.filter fun x => x.host == h && x.key.v6 == ip.v6 && x.key.tcp == tcp).map (·.key.port)
      if distinctInRange g.lo g.hi used ≥ g.hi - g.lo + 1 then g
      else g.fail s!"bind s{s}: port 0 refused although a port of the range is free"
  | _ => g.fail s!"bind s{s}: unexpected observation {obs}"

def udpSocks (g : G) (h : Nat) : List (Nat × BindKey × Option Ep) :=
  (g.live.filter fun s => s.host == h && s.kind == 'u').map fun s => (s.slot, s.key, s.peer)

def expectUdp (g : G) (tag : Nat) (dstHost : Option Nat) (src dst : Ep) : G :=
  let exp := match dstHost with
    | none => none
    | some dh => Spec.udpRecipient (udpSocks g dh) src dst
  { g with probes := g.probes ++ [{ tag := tag, expect := exp, src := src }] }

def parseDrain (obs : String) : List (Nat × Nat × String) :=
  if obs == "-" then [] else
  (obs.splitOn " ").foldl (fun acc part =>
    match part.splitOn "=" with
    | [lhs, rhs] =>
      let slot := match lhs.splitOn ".s" with
        | [_, s] => s.toNat?.getD 0
        | _ => 0
      acc ++ (rhs.splitOn ",").filterMap fun item =>
        match item.splitOn "@" with
        | [t, from_] => some (slot, t.toNat?.getD 0, from_)
        | _ => none
    | _ => acc) []

/-- packet tokens of a `wire=` / `reply=` list without the SYN-ACK (re)transmissions of half-open
    children, which a listener's kernel emits on its own schedule -/
def withoutSynAcks (list : String) : List String :=
  if list == "-" then [] else (list.splitOn ",").filter fun t => !((t.splitOn "/SA/").length > 1)

def checkDrain (g : G) (obs : String) : G :=
  let got := parseDrain obs
  let g := g.probes.foldl (fun g p =>
    let seenAt := (got.filter fun x => x.2.1 == p.tag)
    match p.expect with
    | none =>
      if seenAt.isEmpty then g else g.fail s!"datagram {p.tag} delivered but no live socket matches it"
    | some sl =>
      match seenAt with
      | [(s, _, from_)] =>
        let g := if s != sl then g.fail s!"datagram {p.tag} delivered to s{s}, expected s{sl}" else g
        if from_ != R17.epTok p.src then g.fail s!"datagram {p.tag} shows source {from_}" else g
      | [] => g.fail s!"datagram {p.tag} not delivered to s{sl}"
      | _ => g.fail s!"datagram {p.tag} delivered more than once") g
  let g := got.foldl (fun g x =>
    if g.probes.any (·.tag == x.2.1) then g else g.fail s!"datagram {x.2.1} appeared from nowhere") g
  { g with probes := [] }

def streamsOn (g : G) (h : Nat) (definite : Bool) : List (Ep × Ep) :=
  (g.live.filter fun s => s.host == h && s.kind == 's' && (!definite || !s.maybe)).filterMap fun s =>
    s.peer.map fun p => ((⟨s.key.addr, s.key.port⟩ : Ep), p)

def listenersOn (g : G) (h : Nat) : List BindKey :=
  (g.live.filter fun s => s.host == h && s.kind == 'l').map (·.key)

/-- Oracle step: consumes one operation and the implementation's observation. -/
def step (g : G) (op : R17.Op) (obs : String) : G :=
  match op with
  | .ubind h s ip port => checkBind g h s ip port false obs
  | .tlisten h s ip port => checkBind g h s ip port true obs
  | .uconnect _ s ip port =>
    if obs == "ok" then
      { g with live := g.live.map fun x => if x.slot == s then { x with peer := some ⟨ip, port⟩ } else x }
    else g
  | .close _ s =>
    match g.live.find? (·.slot == s) with
    | some x =>
      -- a closing listener resets only its own unaccepted children: an RST leaving from its port
      -- must come from an address of its family (`0.0.0.0:p` and `[::]:p` may both listen)
      let g := if x.kind == 'l' then
          let toks := (obs.splitOn "wire=").getD 1 "-"
          let bad := (if toks == "-" then [] else toks.splitOn ",").filter fun t =>
            match t.splitOn "/" with
            | ["t", from_, _, flags, _] =>
              (flags.contains 'R') &&
                (match parseEp from_ with
                 | some e => e.port == x.key.port && e.ip.v6 != x.key.v6
                 | none => false)
            | _ => false
          if bad.isEmpty then g
          else g.fail s!"close s{s}: the listener reset a half-open connection of the other address family: {bad}"
        else g
      if x.kind == 's' then
        { g with live := g.live.map fun y => if y.slot == s then { y with maybe := true } else y }
      else
        -- a closing listener takes its half-open children (known from raw SYN probes) with it
        { g with live := g.live.filter fun y =>
            y.slot != s && !(x.kind == 'l' && y.slot ≥ 2000000 && y.host == x.host && y.key.port == x.key.port &&
              y.key.v6 == x.key.v6 && (x.key.addr.isUnspec || y.key.addr == x.key.addr)) }
    | none => g
  | .usend h s ip port tag =>
    match g.live.find? (·.slot == s) with
    | none => g
    | some x =>
      if x.key.v6 != ip.v6 then
        if obs == "err other:eafnosupport" then g else g.fail s!"usend s{s}: family mismatch must fail"
      else if !obs.startsWith "ok" then g.fail s!"usend s{s}: unexpected {obs}"
      else
        let src : Ep := ⟨Spec.srcSelect (g.addrs.getD h []) x.key.addr ip, x.key.port⟩
        let dh := Spec.routeHost g.addrs h ip
        -- nothing may appear on the wire for a destination local to the sender
        let g := if (ip.isLoopback || (g.addrs.getD h []).contains ip) &&
            !(withoutSynAcks ((obs.splitOn "wire=").getD 1 "-")).isEmpty then
            g.fail s!"usend s{s}: packet for a local destination left the host" else g
        expectUdp g tag dh src ⟨ip, port⟩
  | .usendc h s tag =>
    match g.live.find? (·.slot == s) with
    | none => g
    | some x =>
      match x.peer with
      | none => if obs == "err notconnected" then g else g.fail s!"usendc s{s}: unconnected send must fail"
      | some p =>
        if !obs.startsWith "ok" then g.fail s!"usendc s{s}: unexpected {obs}"
        else
          let src : Ep := ⟨Spec.srcSelect (g.addrs.getD h []) x.key.addr p.ip, x.key.port⟩
          expectUdp g tag (Spec.routeHost g.addrs h p.ip) src p
  | .injectudp src dst tag =>
    let g := if !(withoutSynAcks ((obs.drop 6).copy)).isEmpty then g.fail "injectudp: datagram produced a reply" else g
    expectUdp g tag (Spec.routeWire g.addrs dst.ip) src dst
  | .tconnectcancel _ ip port => { g with cancelled := ⟨ip, port⟩ :: g.cancelled }
  | .drain => checkDrain g obs
  | .tconnect h s ip port =>
    let toks := obs.splitOn " "
    let dh := Spec.routeHost g.addrs h ip
    let hasL := match dh with
      | some d => (listenersOn g d).any fun k => k.v6 == ip.v6 && k.port == port && (k.addr == ip || k.addr.isUnspec)
      | none => false
    match toks with
    | "ok" :: lS :: pS :: _ =>
      match parseEp lS, parseEp pS with
      | some l, some p =>
        let key : BindKey := ⟨l.ip.v6, true, l.ip, l.port⟩
        let portTaken := anyKey g h true fun k => k.v6 == ip.v6 && k.tcp && k.port == l.port
        let g := if !hasL then g.fail s!"tconnect s{s}: connected although nothing listens there" else g
        let g := if p != ⟨ip, port⟩ then g.fail s!"tconnect s{s}: wrong peer address" else g
        let g := if l.ip != Spec.srcSelect (g.addrs.getD h []) (Ip.unspec ip.v6) ip then
            g.fail s!"tconnect s{s}: unexpected source address {R17.ipTok l.ip}" else g
        let g := if l.port < g.lo || l.port > g.hi || portTaken then
            g.fail s!"tconnect s{s}: ephemeral port {l.port} not fresh" else g
        -- the server side now holds an (unaccepted) child on the same 4-tuple
        let child : List GSock := match dh with
          | some d => [{ slot := 1000000 + s, host := d, key := ⟨p.ip.v6, true, p.ip, p.port⟩, peer := some l, kind := 's', maybe := true }]
          | none => []
        { g with live := child ++ ({ slot := s, host := h, key := key, peer := some p, kind := 's' } :: g.live) }
      | _, _ => g.fail "tconnect: unparsable ok"
    | "err" :: "refused" :: _ =>
      -- an unknown destination (owned by no host; the unspecified address is one) is routed nowhere:
      -- the SYN is lost, nobody can have answered it
      if dh.isNone then g.fail s!"tconnect s{s}: refused although {R17.ipTok ip} is routed to no host (the SYN cannot have been answered)"
      else if hasL then g.fail s!"tconnect s{s}: refused although a live listener matches" else g
    | _ => g
  | .accept h s ns =>
    let toks := obs.splitOn " "
    match toks with
    | ["ok", pS, lS] =>
      match parseEp pS, parseEp lS, g.live.find? (·.slot == s) with
      | some p, some l, some lsn =>
        let g := if !(lsn.key.port == l.port && (lsn.key.addr == l.ip || lsn.key.addr.isUnspec)) then
            g.fail s!"accept s{s}: connection for {lS} handed to a listener bound elsewhere" else g
        let g := if !((g.live.any fun x => x.kind == 's' && x.peer == some l &&
              (⟨x.key.addr, x.key.port⟩ : Ep) == p)) && !g.cancelled.contains l then
            g.fail s!"accept s{s}: no client ever connected from {pS} to {lS}" else g
        { g with live := { slot := ns, host := h, key := ⟨l.ip.v6, true, l.ip, l.port⟩, peer := some p, kind := 's' } :: g.live }
      | _, _, _ => g
    | _ => g
  | .injectsyn src dst =>
    match Spec.routeWire g.addrs dst.ip with
    | none =>
      -- nobody may answer; SYN-ACK retransmissions of unrelated half-open children may ride along
      if (withoutSynAcks ((obs.drop 6).copy)).isEmpty then g
      else g.fail "injectsyn: unroutable destination answered"
    | some d =>
      -- a reply addressed to one of the host's own addresses folds back and is invisible
      if isLocalG g d src.ip then g
      else if (streamsOn g d false).contains (dst, src) && !(streamsOn g d true).contains (dst, src) then g
      else
        let exp := Spec.synReply (streamsOn g d true) (listenersOn g d) src dst
        -- what came back for *this* SYN: the replies addressed to its source; anything else in the
        -- same egress must be a SYN-ACK retransmission of some other half-open child
        let all := if obs == "reply=-" then [] else ((obs.drop 6).copy.splitOn ",")
        let toSrc := "/" ++ R17.epTok src ++ "/"
        let mine := all.filter fun t => (t.splitOn toSrc).length > 1
        let others := all.filter fun t => !((t.splitOn toSrc).length > 1)
        let g := if others.any fun t => !((t.splitOn "/SA/").length > 1) then
            g.fail s!"injectsyn {R17.epTok src}>{R17.epTok dst}: unrelated packets {obs}" else g
        let pre := "t/" ++ R17.epTok dst ++ "/" ++ R17.epTok src
        let want : List String := match exp with
          | .silent => []
          | .synack => [pre ++ "/SA/0"]
          | .rst => [pre ++ "/AR/0"]
        -- a SYN on an existing 4-tuple must reach that connection and no listener: silence and
        -- an ACK from that connection's endpoint are both fine, a SYN-ACK or RST is not
        let g := if mine == want || (exp == .silent && mine == [pre ++ "/A/0"]) then g
          else g.fail s!"injectsyn {R17.epTok src}>{R17.epTok dst}: got {obs}, expected {want}"
        -- a SYN-ACK means a half-open child now holds this 4-tuple (until it is reset, its listener
        -- closes, or its retransmissions run out: see `pumpn`)
        if mine == [pre ++ "/SA/0"] then
          { g with live := { slot := 2000000 + src.port, host := d, key := ⟨dst.ip.v6, true, dst.ip, dst.port⟩,
                             peer := some src, kind := 's', maybe := true } :: g.live }
        else g
  | .injectrst src dst =>
    { g with live := g.live.filter fun x =>
        !(x.slot ≥ 2000000 && x.peer == some src && (⟨x.key.addr, x.key.port⟩ : Ep) == dst) }
  | .pumpn n =>
    -- 18 silent egress passes exhaust a half-open child's SYN-ACK retransmissions
    -- (`retxThreshold * (retxMax + 1)`): after that it must be gone, with its binding
    if n ≥ retxThreshold * (retxMax + 1) then { g with live := g.live.filter fun x => !(x.slot ≥ 2000000) }
    else g
  | _ => g

end O17
end TV
