/-
  C19 replay: rule installation/removal, traffic and ticks on the Rules/Scheduler model, with
  the canonical observation lines of the Rust harness; plus the oracle evaluated on the
  implementation's own observations.
-/
import TvNetTable.Model.Rules
import TvNetTable.Model.TableSpec

namespace TV
namespace R19

/-- A packet as rules see it (parsed from its canonical descriptor). -/
structure PktD where
  desc : String
  tcp : Bool
  tag : Nat
  src : Ep
  dst : Ep
deriving Repr, Inhabited

def parseDesc (d : String) : Option PktD :=
  match d.splitOn "/" with
  | ["u", s, t, tag] =>
    match O17.parseEp s, O17.parseEp t, tag.toNat? with
    | some s, some t, some n => some ⟨d, false, n, s, t⟩
    | _, _, _ => none
  | ["t", s, t, _, _] =>
    match O17.parseEp s, O17.parseEp t with
    | some s, some t => some ⟨d, true, 0, s, t⟩
    | _, _ => none
  | _ => none

def verdictTok : Verdict → String
  | .pass => "P"
  | .drop => "X"
  | .deliver us => "D" ++ toString us

def parseVerdict (s : String) : Option Verdict :=
  if s == "P" then some .pass
  else if s == "X" then some .drop
  else if s.startsWith "D" then (s.drop 1).toNat?.map .deliver
  else none

/-- The harness's rule: UDP by `table[tag % len]`, TCP by a fixed verdict. -/
def tableRule (table : List Verdict) (tcp : Verdict) (p : PktD) : Verdict :=
  if p.tcp then tcp
  else if table.isEmpty then .pass
  else table.getD (p.tag % table.length) .pass

inductive Op
  | install (label : Nat) (mode : String) (table : List Verdict) (tcp : Verdict)
  | gdrop (label : Nat)
  | forget (label : Nat)
  | usend (h s : Nat) (ip : Ip) (port tag : Nat)
  | tcpop
  | enter
  | step
  | drain
  | tick (k : Nat)
deriving Inhabited

structure Recv where
  host : Nat
  slot : Nat
  ep : Ep
deriving Repr, Inhabited

structure World where
  fixture : String := "wire"
  hosts : List (List Ip) := []
  recv : List Recv := []
  tickUs : Nat := 1000
  entered : Bool := false
  chain : Chain PktD := {}
  /-- label → rule id, for rules whose guard is still held -/
  guards : List (Nat × Nat) := []
  /-- label of each installed rule id (for printing) -/
  labels : List (Nat × Nat) := []
  sched : Sched PktD := {}
  /-- sends to a destination local to the sender: folded back at the next egress -/
  localQ : List (Nat × PktD) := []
  /-- (slot, tags) delivered since the last drain / tick report, in slot order -/
  inbox : List (Nat × Nat × List Nat) := []

def World.labelOf (w : World) (id : Nat) : Nat :=
  match w.labels.find? (·.1 == id) with
  | some (_, l) => l
  | none => 0

def logTok (w : World) (log : List (Nat × Verdict)) : String :=
  R17.joinTok (log.map fun (id, v) => "r" ++ toString (w.labelOf id) ++ "=" ++ verdictTok v) ","

def insertInbox : List (Nat × Nat × List Nat) → Nat → Nat → Nat → List (Nat × Nat × List Nat)
  | [], h, s, tag => [(h, s, [tag])]
  | (h', s', ts) :: rest, h, s, tag =>
    if s' == s then (h', s', ts ++ [tag]) :: rest
    else if s < s' then (h, s, [tag]) :: (h', s', ts) :: rest
    else (h', s', ts) :: insertInbox rest h s tag

/-- Hand a datagram to the receiver bound exactly to its destination on host `h`. -/
def World.deliverTo (w : World) (h : Nat) (p : PktD) : World :=
  if p.tcp then w else
  match w.recv.find? fun r => r.host == h && r.ep == p.dst with
  | some r => { w with inbox := insertInbox w.inbox r.host r.slot p.tag }
  | none => w

def World.deliverWire (w : World) (p : PktD) : World :=
  match Spec.routeWire w.hosts p.dst.ip with
  | some h => w.deliverTo h p
  | none => w

def World.foldLocal (w : World) : World :=
  let w' := w.localQ.foldl (fun w (hp : Nat × PktD) => w.deliverTo hp.1 hp.2) w
  { w' with localQ := [] }

def inboxLines (w : World) (pre : String) : List String :=
  w.inbox.map fun (h, s, tags) =>
    pre ++ "h" ++ toString h ++ ".s" ++ toString s ++ "=" ++ ",".intercalate (tags.map toString)

/-- One operation; `egress` is the ORA egress list that followed the OP line (if any).
    Returns the observation lines the implementation is expected to show, `none` = not modelled
    (TCP application calls). -/
def step (w : World) (op : Op) (egress : List PktD) : World × Option (List String) × List String :=
  match op with
  | .install label mode table tcp =>
    let okMode := if mode == "perm" then !w.entered else w.entered
    if !okMode then (w, some [if mode == "perm" then "err entered" else "err notentered"], []) else
    let (c, id) := w.chain.install (tableRule table tcp)
    let w := { w with chain := c, labels := w.labels ++ [(id, label)],
                      guards := if mode == "perm" then w.guards else w.guards ++ [(label, id)] }
    (w, some ["ok"], ["install", "mode_" ++ mode] ++ (if c.rules.length ≥ 3 then ["chain3"] else []))
  | .gdrop label =>
    match w.guards.find? (·.1 == label) with
    | some (_, id) =>
      let last := match w.chain.rules.getLast? with | some r => r.id == id | none => true
      ({ w with chain := w.chain.uninstall id, guards := w.guards.filter (·.1 != label) }, some ["ok"],
        ["gdrop"] ++ (if !last then ["gdrop_middle"] else []))
    | none => (w, some ["noguard"], [])
  | .forget label =>
    match w.guards.find? (·.1 == label) with
    | some _ => ({ w with guards := w.guards.filter (·.1 != label) }, some ["ok"], ["forget"])
    | none => (w, some ["noguard"], [])
  | .enter =>
    if w.entered then (w, some ["err entered"], []) else ({ w with entered := true }, some ["ok"], [])
  | .usend h s ip port tag =>
    if !w.entered then (w, some ["noslot"], []) else
    match w.recv.find? fun r => r.slot == s && r.host == h with
    | none => (w, some ["noslot"], [])
    | some r =>
      if r.ep.ip.v6 != ip.v6 then (w, some ["err other:eafnosupport"], [])
      else
        let isLocal := ip.isLoopback || (w.hosts.getD h []).contains ip
        if isLocal then
          let p : PktD := ⟨"", false, tag, r.ep, ⟨ip, port⟩⟩
          ({ w with localQ := w.localQ ++ [(h, p)] }, some ["ok"], ["loopback"])
        else (w, some ["ok"], [])
  | .tcpop => (w, none, ["tcp"])
  | .step =>
    if !w.entered then (w, some ["err notentered"], []) else
    let w := w.foldLocal
    let (w, lines, cov) := egress.foldl (fun (acc : World × List String × List String) p =>
      let w := acc.1
      let (log, v) := Chain.evalLog w.chain.rules p
      let w := if v != .drop then w.deliverWire p else w
      (w, acc.2.1 ++ ["eval " ++ p.desc ++ " " ++ logTok w log ++ " " ++ verdictTok v],
        acc.2.2 ++ (match v with | .drop => ["drop"] | .pass => ["allpass"] | .deliver _ => ["deliver"]) ++
          (if log.length ≥ 3 then ["depth3"] else []) ++ (if p.tcp then ["tcp"] else [])))
      (w, [], [])
    (w, some lines, cov)
  | .drain =>
    let lines := [R17.joinTok (inboxLines w "") " "]
    ({ w with inbox := [] }, some lines, [])
  | .tick _ =>
    -- 1. clock and due packets
    let (s1, due, _) := w.sched.tick w.tickUs [] (fun _ => .pass)
    let w := { w with sched := s1 }
    let w := due.foldl (fun w e => w.deliverWire e.pkt) w
    let dueTies := (due.zip (due.drop 1)).any fun (a, b) => a.deliverAt == b.deliverAt
    -- 2. egress_all folds local traffic
    let w := w.foldLocal
    -- 3. route this tick's egress
    let (w, lines, cov) := egress.foldl (fun (acc : World × List String × List String) p =>
      let w := acc.1
      let (log, v) := Chain.evalLog w.chain.rules p
      let (s', fate) := w.sched.route p v
      let w := { w with sched := s' }
      let w := if fate == .deliveredNow then w.deliverWire p else w
      (w, acc.2.1 ++ ["eval " ++ p.desc ++ " " ++ logTok w log],
        acc.2.2 ++ (match v with
          | .drop => ["drop"]
          | .pass => ["allpass"]
          | .deliver d => if d == 0 then ["zerodelay"] else if d % w.tickUs != 0 then ["subtick"] else
              if d > w.tickUs then ["multitick"] else ["onetick"]) ++
          (if log.length ≥ 3 then ["depth3"] else []) ++ (if p.tcp then ["tcp"] else [])))
      (w, [], [])
    let crossing := (w.sched.pending.zip (w.sched.pending.drop 1)).any fun (a, b) => b.seq < a.seq
    let lines := lines ++ inboxLines w "arrive "
    ({ w with inbox := [] }, some lines,
      cov ++ (if dueTies then ["tie"] else []) ++ (if crossing then ["crossing"] else []) ++
        (if !due.isEmpty then ["due"] else []))

end R19

/-! ### Oracle on implementation observations -/
namespace O19

structure GRule where
  label : Nat
  table : List Verdict
  tcp : Verdict
deriving Inhabited

/-- what became of a tagged datagram when it left its host -/
structure Emit where
  tag : Nat
  tick : Nat          -- tick at which it was egressed (0 for wire mode)
  fate : Verdict
  idx : Nat           -- emission index
  dst : Ep
deriving Inhabited

structure G where
  fixture : String := "wire"
  hosts : List (List Ip) := []
  recv : List R19.Recv := []
  tickUs : Nat := 1000
  chain : List GRule := []
  guards : List Nat := []
  emits : List Emit := []
  arrived : List Nat := []
  curTick : Nat := 0
  pendingEgress : List String := []
  fails : List String := []
  nEmit : Nat := 0
deriving Inhabited

def G.fail (g : G) (m : String) : G := { g with fails := g.fails ++ [m] }

/-- Specification of rule evaluation: consult in installation order, stop at the first
    non-Pass. (Same definition the theorem `first_match` is about.) -/
def expectedLog (chain : List GRule) (p : R19.PktD) : List (Nat × Verdict) × Verdict :=
  Chain.evalLog (chain.map fun r => (⟨r.label, R19.tableRule r.table r.tcp⟩ : Rule R19.PktD)) p

def ownerOf (g : G) (ip : Ip) : Option Nat := Spec.indexOfHost g.hosts ip

def onOp (g : G) (op : R19.Op) (obs : String) : G :=
  match op with
  | .install label mode table tcp =>
    if obs == "ok" then
      { g with chain := g.chain ++ [⟨label, table, tcp⟩],
               guards := if mode == "perm" then g.guards else g.guards ++ [label] }
    else g
  | .gdrop label =>
    if obs == "ok" && g.guards.contains label then
      { g with chain := g.chain.filter (·.label != label), guards := g.guards.filter (· != label) }
    else g
  | .forget label => if obs == "ok" then { g with guards := g.guards.filter (· != label) } else g
  | _ => g

def logStr (log : List (Nat × Verdict)) : String :=
  R17.joinTok (log.map fun (l, v) => "r" ++ toString l ++ "=" ++ R19.verdictTok v) ","

/-- An `OBS eval <desc> <log> [final]` line. -/
def onEval (g : G) (toks : List String) : G :=
  match toks with
  | desc :: log :: rest =>
    match R19.parseDesc desc with
    | none => g.fail s!"unparsable packet {desc}"
    | some p =>
      -- egress bookkeeping: exactly the packets that left a host are evaluated, in order
      let g := match g.pendingEgress with
        | d :: ds =>
          let g := { g with pendingEgress := ds }
          if d == desc then g else g.fail s!"packet {desc} evaluated out of egress order"
        | [] => g.fail s!"packet {desc} shown to rules but never left a host"
      -- loopback / own-address traffic must never be shown to rules
      let g := if p.dst.ip.isLoopback then g.fail s!"loopback packet {desc} shown to rules" else
        match ownerOf g p.src.ip with
        | some h => if (g.hosts.getD h []).contains p.dst.ip then g.fail s!"host-local packet {desc} shown to rules" else g
        | none => g
      let (elog, ev) := expectedLog g.chain p
      let g := if logStr elog != log then
          g.fail s!"packet {desc}: rules consulted {log}, first-match over the installed chain gives {logStr elog}" else g
      let g := match rest with
        | f :: _ => if f != R19.verdictTok ev && f != "unexpected" && f != "foreign" then
              g.fail s!"packet {desc}: evaluate returned {f}, expected {R19.verdictTok ev}" else
              if f == "unexpected" || f == "foreign" then g.fail s!"packet {desc}: rule log out of step ({f})" else g
        | [] => g
      let g := if rest.contains "foreign" then g.fail s!"packet {desc}: a rule saw a different packet" else g
      if p.tcp then g else
      { g with emits := g.emits ++ [⟨p.tag, g.curTick, ev, g.nEmit, p.dst⟩], nEmit := g.nEmit + 1 }
  | _ => g.fail "short eval line"

/-- `OBS arrive h0.s1=17,18` at tick `g.curTick` (fixture families). -/
def onArrive (g : G) (part : String) : G :=
  match part.splitOn "=" with
  | [lhs, rhs] =>
    let slot := match lhs.splitOn ".s" with | [_, s] => s.toNat?.getD 0 | _ => 0
    let tags := (rhs.splitOn ",").filterMap (·.toNat?)
    let now := g.curTick * g.tickUs
    let g := tags.foldl (fun g tag =>
      let g := if g.arrived.contains tag then g.fail s!"datagram {tag} delivered twice" else { g with arrived := tag :: g.arrived }
      match g.emits.find? (·.tag == tag) with
      | none => g   -- loopback / host-local datagram: never seen by rules, nothing to check here
      | some e =>
        let g := match g.recv.find? (·.slot == slot) with
          | some r => if r.ep != e.dst then g.fail s!"datagram {tag} arrived at the wrong socket s{slot}" else g
          | none => g.fail s!"datagram {tag} arrived at unknown socket s{slot}"
        match e.fate with
        | .drop => g.fail s!"datagram {tag} was dropped by a rule but arrived"
        | .pass => if g.curTick != e.tick then g.fail s!"datagram {tag} (all Pass) arrived at tick {g.curTick}, left at tick {e.tick}" else g
        | .deliver d =>
          let emit := e.tick * g.tickUs
          if now < emit + d then g.fail s!"datagram {tag} arrived {emit + d - now}us before its deadline"
          else if now ≥ emit + d + g.tickUs then g.fail s!"datagram {tag} arrived more than a tick after its deadline (left {emit}, delay {d}, arrived {now})"
          else g) g
    -- order among delayed datagrams at one socket: by (deadline, emission order)
    let keys := tags.filterMap fun tag =>
      match g.emits.find? (·.tag == tag) with
      | some e => match e.fate with
        | .deliver d => if d == 0 then none else some (e.tick * g.tickUs + d, e.idx, tag)
        | _ => none
      | none => none
    (keys.zip (keys.drop 1)).foldl (fun g (ab : (Nat × Nat × Nat) × (Nat × Nat × Nat)) =>
      let a := ab.1; let b := ab.2
      if a.1 < b.1 || (a.1 == b.1 && a.2.1 < b.2.1) then g
      else g.fail s!"datagrams {a.2.2} and {b.2.2} arrived out of (deadline, emission) order") g
  | _ => g

/-- wire mode: `OBS h0.s1=17,18 ...` after a drain. -/
def onDrain (g : G) (obs : String) : G :=
  if obs == "-" then g else
  (obs.splitOn " ").foldl (fun g part =>
    match part.splitOn "=" with
    | [lhs, rhs] =>
      let slot := match lhs.splitOn ".s" with | [_, s] => s.toNat?.getD 0 | _ => 0
      (rhs.splitOn ",").foldl (fun g t =>
        match t.toNat? with
        | none => g
        | some tag =>
          let g := if g.arrived.contains tag then g.fail s!"datagram {tag} delivered twice" else { g with arrived := tag :: g.arrived }
          match g.emits.find? (·.tag == tag) with
          | none => g
          | some e =>
            let g := if e.fate == .drop then g.fail s!"datagram {tag} was dropped by a rule but arrived" else g
            match g.recv.find? (·.slot == slot) with
            | some r => if r.ep != e.dst then g.fail s!"datagram {tag} arrived at the wrong socket s{slot}" else g
            | none => g) g
    | _ => g) g

/-- End of a fixture case: everything that was due before the end and has a receiver arrived. -/
def finish (g : G) (steps : Nat) : G :=
  let g := if !g.pendingEgress.isEmpty then g.fail "egressed packets never evaluated" else g
  if g.fixture == "wire" then g else
  g.emits.foldl (fun g e =>
    let hasRecv := match Spec.routeWire g.hosts e.dst.ip with
      | some h => g.recv.any fun r => r.host == h && r.ep == e.dst
      | none => false
    let due := match e.fate with
      | .drop => none
      | .pass => some (e.tick * g.tickUs)
      | .deliver d => some (e.tick * g.tickUs + d)
    match due with
    | none => g
    | some t =>
      if hasRecv && t + g.tickUs ≤ (steps - 1) * g.tickUs && !g.arrived.contains e.tag then
        g.fail s!"datagram {e.tag} due at {t}us never arrived"
      else g) g

end O19
end TV
