import TvNetTable.Props.C19
#print axioms TV.C19.first_match
#print axioms TV.C19.chain_wf
#print axioms TV.C19.guard
#print axioms TV.C19.loopback_never_seen
#print axioms TV.C19.sorted
#print axioms TV.C19.deadline
#print axioms TV.C19.tie_order
#print axioms TV.C19.drop_never_delivered
#print axioms TV.C19.drop_never_delivered_direct
