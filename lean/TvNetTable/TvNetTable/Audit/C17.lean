import TvNetTable.Props.C17
#print axioms TV.C17.bind_iff
#print axioms TV.C17.bind_effect
#print axioms TV.C17.port0_fresh
#print axioms TV.C17.close_frees
#print axioms TV.C17.close_udp
#print axioms TV.C17.udp_demux
#print axioms TV.C17.tcp_demux
#print axioms TV.C17.fabric
#print axioms TV.C17.noLoopback_addHost
#print axioms TV.C17.C17_witness_F1
#print axioms TV.C17.C17_fixed_instance
#print axioms TV.C17.C17_partial
#print axioms TV.C17.index_invariant
#print axioms TV.C17.index_invariant_kernel
#print axioms TV.C17.conflict_iff_socket
