/-
  tvnettabledriver <PROP> <trace-file>
  Replays every case of a harness trace on the Lean model (K) and evaluates the property's
  specification on the implementation's observations (O).  See /verif/CONVENTIONS.md §3.
-/
import TvNetTable.Model.Table
import TvNetTable.Model.Replay17
import TvNetTable.Model.TableSpec
import TvNetTable.Model.Replay19

open TV

def tokNat (s : String) (pre : String) : Option Nat :=
  if s.startsWith pre then (s.drop pre.length).toNat? else none

def parseOp17 (t : List String) : Option R17.Op :=
  let ip := O17.parseIp
  match t with
  | [_, h, "ubind", s, a, p] => do some (.ubind (← tokNat h "h") (← tokNat s "s") (← ip a) (← p.toNat?))
  | [_, h, "tlisten", s, a, p] => do some (.tlisten (← tokNat h "h") (← tokNat s "s") (← ip a) (← p.toNat?))
  | [_, h, "uconnect", s, a, p] => do some (.uconnect (← tokNat h "h") (← tokNat s "s") (← ip a) (← p.toNat?))
  | [_, h, "tconnect", s, a, p] => do some (.tconnect (← tokNat h "h") (← tokNat s "s") (← ip a) (← p.toNat?))
  | [_, h, "tconnectcancel", a, p] => do some (.tconnectcancel (← tokNat h "h") (← ip a) (← p.toNat?))
  | [_, h, "accept", s, ns] => do some (.accept (← tokNat h "h") (← tokNat s "s") (← tokNat ns "s"))
  | [_, h, "close", s] => do some (.close (← tokNat h "h") (← tokNat s "s"))
  | [_, h, "usend", s, a, p, tag] => do
    some (.usend (← tokNat h "h") (← tokNat s "s") (← ip a) (← p.toNat?) (← tag.toNat?))
  | [_, h, "usendc", s, tag] => do some (.usendc (← tokNat h "h") (← tokNat s "s") (← tag.toNat?))
  | [_, h, "cycle", a, n] => do some (.cycle (← tokNat h "h") (← ip a) (← n.toNat?))
  | [_, _, "injectudp", sa, sp, da, dp, tag] => do
    some (.injectudp ⟨← ip sa, ← sp.toNat?⟩ ⟨← ip da, ← dp.toNat?⟩ (← tag.toNat?))
  | [_, _, "injectsyn", sa, sp, da, dp] => do some (.injectsyn ⟨← ip sa, ← sp.toNat?⟩ ⟨← ip da, ← dp.toNat?⟩)
  | [_, _, "injectrst", sa, sp, da, dp] => do some (.injectrst ⟨← ip sa, ← sp.toNat?⟩ ⟨← ip da, ← dp.toNat?⟩)
  | [_, _, "drain"] => some .drain
  | [_, _, "netstat"] => some .netstat
  | [_, _, "pumpn", n] => do some (.pumpn (← n.toNat?))
  | _ => none

/-- `CFG hosts=3 h0=4:10,4:11 h1=- ...` → address lists. -/
def parseHosts (line : String) : List (List Ip) :=
  (line.splitOn " ").filterMap fun t =>
    match t.splitOn "=" with
    | [k, v] =>
      if k.startsWith "h" && k != "hosts" && (k.drop 1).toNat?.isSome then
        some (if v == "-" then [] else (v.splitOn ",").filterMap O17.parseIp)
      else none
    | _ => none

structure CaseResult where
  kOk : Bool := true
  kLine : Nat := 0
  kDetail : String := ""
  oFails : List String := []
  cov : List String := []
  pattern : String := "none"

def addCov (cov : List String) (tags : List String) : List String :=
  tags.foldl (fun c t => if c.contains t then c else c ++ [t]) cov

/-- One C17 case on one model variant: `lines` are (lineNo, text) of the case body. -/
def runCase17V (lines : Array (Nat × String)) (fixReap fixAck fixRetx fixQuiet fixFw2 fixFam : Bool) : CaseResult := Id.run do
  let mut res : CaseResult := {}
  let mut w : R17.World := {}
  let mut g : O17.G := {}
  let mut pendingOp : Option R17.Op := none
  let mut modelObs : String := ""
  let mut kLive := true
  let mut zombie := false      -- the pending bind conflicts only with aborted orphans (model view)
  let mut explained := 0
  for (ln, l) in lines do
    if l.startsWith "CFG" then
      let hs := parseHosts l
      let fab := hs.foldl (fun f a => f.addHost a fixReap fixAck fixRetx fixQuiet fixFw2 fixFam) {}
      -- `eph=<lo>-<hi>`: ephemeral range shrunk through the verification hook
      let eph := (l.splitOn " ").findSome? fun t =>
        match t.splitOn "=" with
        | ["eph", v] => (match v.splitOn "-" with
            | [a, b] => (match a.toNat?, b.toNat? with | some a, some b => some (a, b) | _, _ => none)
            | _ => none)
        | _ => none
      match eph with
      | some (lo, hi) =>
        w := { fab := fab.setEph lo hi }
        g := { addrs := hs, lo := lo, hi := hi }
      | none =>
        w := { fab := fab }
        g := { addrs := hs }
    else if l.startsWith "OP " then
      match parseOp17 (l.splitOn " ") with
      | some op =>
        pendingOp := some op
        if kLive then
          zombie := match op with
            | .ubind h _ ip port => port != 0 && R17.zombieOnlyConflict (w.fab.kernel h)
                ((w.slots.filter (·.host == h)).map (·.fd)) ip port false
            | .tlisten h _ ip port => port != 0 && R17.zombieOnlyConflict (w.fab.kernel h)
                ((w.slots.filter (·.host == h)).map (·.fd)) ip port true
            | _ => false
          let (w', o, cov) := R17.step w op
          w := w'
          modelObs := o
          res := { res with cov := addCov res.cov cov }
        else zombie := false
      | none =>
        pendingOp := none
        if res.kOk then res := { res with kOk := false, kLine := ln, kDetail := "unparsable op" }
        kLive := false
    else if l.startsWith "OBS " then
      let obs := (l.drop 4).copy
      if obs.startsWith "panic" then
        res := { res with oFails := res.oFails ++ ["implementation panicked: " ++ obs] }
        if res.kOk then res := { res with kOk := false, kLine := ln, kDetail := "panic" }
        kLive := false
      else if obs.startsWith "xcheck" then
        -- two equivalent API entry points (or a call and its getter) disagreed inside the harness
        res := { res with oFails := res.oFails ++ ["equivalent API calls disagree: " ++ obs] }
        if res.kOk then res := { res with kOk := false, kLine := ln, kDetail := obs }
        kLive := false
      else
        match pendingOp with
        | some op =>
          if kLive && obs != modelObs then
            res := { res with kOk := false, kLine := ln, kDetail := "want=" ++ modelObs ++ " got=" ++ obs }
            kLive := false
          let before := g.fails.length
          g := O17.step g op obs
          if g.fails.length > before && kLive && zombie && obs == "err addrinuse" then
            explained := explained + (g.fails.length - before)
            res := { res with cov := addCov res.cov ["zombiechild"] }
          pendingOp := none
        | none => pure ()
  res := { res with oFails := res.oFails ++ g.fails }
  if !res.oFails.isEmpty && explained == res.oFails.length && res.kOk then
    res := { res with pattern := "F-C17-1" }
  return res

/-- Correspondence accepts the committed tree (all repairs, tried first), the code as it was
    (faithful) or any other combination of the repairs
    (F-C17-1 orphan reaping, ACK of unacceptable SYN/FIN, retransmit counters reset at the end of
    the handshake, quiet abort in LastAck/Closing); first match wins, the verdict of the faithful run is reported if none fits. -/
def runCase17 (lines : Array (Nat × String)) (only : Option String := none) : CaseResult × String := Id.run do
  -- debugging aid: TV_NETTABLE_VARIANT=abcde (six 0/1 flags reap,ack,retx,quiet,fw2,closefamily) forces one variant
  if let some v := only then
    let b := fun (i : Nat) => (v.toList.getD i '0') == '1'
    return (runCase17V lines (b 0) (b 1) (b 2) (b 3) (b 4) (b 5), "forced:" ++ v)
  -- the committed tree first (all repairs), then the code as found, then the intermediate trees
  let rc := runCase17V lines true true true true true true
  if rc.kOk then return (rc, "fixed")
  -- the variants differ only in TCP behaviour: nothing to retry without TCP traffic
  let hasTcp := lines.any fun (_, l) =>
    l.startsWith "OP " && ((l.splitOn " ").getD 2 "" |> fun o => o == "tconnect" || o == "tconnectcancel" ||
      o == "injectsyn" || o == "injectrst")
  if !hasTcp then return (rc, "-")
  let variants : List (Bool × Bool × Bool × Bool × Bool × Bool × String) :=
    [(false, false, false, false, false, false, "faithful"),
     (true, true, true, true, true, false, "fixed:pre-closefamily"),
     (true, true, true, true, false, false, "fixed:pre-fw2timeout"), (true, true, true, false, false, false, "fixed:reap+ack+retx"),
     (true, false, false, false, false, false, "fixed:reap"), (false, true, false, false, false, false, "fixed:ack"),
     (false, false, true, false, false, false, "fixed:retx"), (false, false, false, true, false, false, "fixed:quiet"),
     (false, false, false, false, true, false, "fixed:fw2timeout"), (false, false, false, false, false, true, "fixed:closefamily"),
     (true, true, false, false, false, false, "fixed:reap+ack"), (true, false, true, false, false, false, "fixed:reap+retx"),
     (false, true, true, false, false, false, "fixed:ack+retx")]
  for (a, b, c, d, e, f, name) in variants do
    let r := runCase17V lines a b c d e f
    if r.kOk then return (r, name)
  return (rc, "-")

def parseOp19 (t : List String) : Option R19.Op :=
  match t with
  | _ :: _ :: "install" :: r :: kvs => do
    let label ← tokNat r "r"
    let mut mode := "guard"
    let mut table : List Verdict := []
    let mut tcp := Verdict.pass
    for kv in kvs do
      match kv.splitOn "=" with
      | ["mode", v] => mode := v
      | ["table", v] => table := (v.splitOn ",").filterMap R19.parseVerdict
      | ["tcp", v] => tcp := (R19.parseVerdict v).getD .pass
      | _ => pure ()
    some (.install label mode table tcp)
  | [_, _, "gdrop", r] => do some (.gdrop (← tokNat r "r"))
  | [_, _, "forget", r] => do some (.forget (← tokNat r "r"))
  | [_, h, "usend", s, a, p, tag] => do
    some (.usend (← tokNat h "h") (← tokNat s "s") (← O17.parseIp a) (← p.toNat?) (← tag.toNat?))
  | _ :: _ :: "tconnect" :: _ => some .tcpop
  | _ :: _ :: "tpoll" :: _ => some .tcpop
  | _ :: _ :: "taccept" :: _ => some .tcpop
  | _ :: _ :: "twrite" :: _ => some .tcpop
  | _ :: _ :: "tread" :: _ => some .tcpop
  | _ :: _ :: "tclose" :: _ => some .tcpop
  | [_, _, "enter"] => some .enter
  | [_, _, "step"] => some .step
  | [_, _, "drain"] => some .drain
  | [_, _, "tick", k] => do some (.tick (← k.toNat?))
  | _ => none

def parseRecv (v : String) : List R19.Recv :=
  if v == "-" then [] else
  (v.splitOn ",").filterMap fun item =>
    match item.splitOn "@" with
    | [lhs, ep] =>
      match lhs.splitOn ".s", O17.parseEp ep with
      | [h, s], some e => do some ⟨← tokNat h "h", ← s.toNat?, e⟩
      | _, _ => none
    | _ => none

def cfgVal (line key : String) : Option String :=
  (line.splitOn " ").findSome? fun t =>
    match t.splitOn "=" with
    | [k, v] => if k == key then some v else none
    | _ => none

/-- One C19 case. -/
def runCase19 (lines : Array (Nat × String)) : CaseResult := Id.run do
  let mut res : CaseResult := {}
  let mut w : R19.World := {}
  let mut g : O19.G := {}
  let mut steps := 0
  let mut kLive := true
  -- split into groups: an OP line and the ORA/OBS lines that follow it
  let mut i := 0
  while i < lines.size do
    let (ln, l) := lines[i]!
    if l.startsWith "CFG" then
      let hs := parseHosts l
      let recv := parseRecv ((cfgVal l "recv").getD "-")
      let fx := (cfgVal l "fixture").getD "wire"
      let tk := ((cfgVal l "tick_us").bind (·.toNat?)).getD 1000
      steps := ((cfgVal l "steps").bind (·.toNat?)).getD 0
      w := { fixture := fx, hosts := hs, recv := recv, tickUs := tk, entered := fx != "wire" }
      g := { fixture := fx, hosts := hs, recv := recv, tickUs := tk }
      i := i + 1
    else if l.startsWith "OP " then
      let mut egress : List String := []
      let mut obs : Array (Nat × String) := #[]
      let mut j := i + 1
      while j < lines.size && !(lines[j]!.2.startsWith "OP ") do
        let (ln2, l2) := lines[j]!
        if l2.startsWith "ORA egress " then
          let v := (l2.drop 11).copy
          egress := if v == "-" then [] else v.splitOn " "
        else if l2.startsWith "OBS " then
          obs := obs.push (ln2, (l2.drop 4).copy)
        j := j + 1
      for (lnx, o) in obs do
        if o.startsWith "xcheck" then
          g := g.fail ("equivalent API calls disagree: " ++ o)
          if res.kOk then res := { res with kOk := false, kLine := lnx, kDetail := o }
      obs := obs.filter fun (_, o) => !o.startsWith "xcheck"
      match parseOp19 (l.splitOn " ") with
      | none =>
        if res.kOk then res := { res with kOk := false, kLine := ln, kDetail := "unparsable op" }
        kLive := false
      | some op =>
        -- K
        if kLive then
          let pk := egress.filterMap R19.parseDesc
          let (w', exp, cov) := R19.step w op pk
          w := w'
          res := { res with cov := addCov res.cov cov }
          match exp with
          | none => pure ()
          | some expLines =>
            let got := obs.toList.map (·.2)
            if got != expLines then
              -- first differing line
              let idx := (List.range (max got.length expLines.length)).find? fun k => got[k]? != expLines[k]?
              let k := idx.getD 0
              let lnBad := match obs[k]? with | some (n, _) => n | none => ln
              res := { res with kOk := false, kLine := lnBad,
                                kDetail := "want=" ++ (expLines[k]?.getD "<nothing>") ++ " got=" ++ (got[k]?.getD "<nothing>") }
              kLive := false
        -- O
        match op with
        | .step | .tick _ =>
          g := { g with pendingEgress := egress,
                        curTick := match op with | .tick k => k | _ => 0 }
          for (_, o) in obs do
            if o.startsWith "eval " then g := O19.onEval g ((o.drop 5).copy.splitOn " ")
            else if o.startsWith "arrive " then g := O19.onArrive g (o.drop 7).copy
            else if o.startsWith "err" then pure ()
            else g := g.fail ("unexpected observation " ++ o)
          if !g.pendingEgress.isEmpty then
            g := g.fail s!"packets left a host but were not shown to rules: {g.pendingEgress}"
            g := { g with pendingEgress := [] }
        | .drain =>
          for (_, o) in obs do g := O19.onDrain g o
        | _ =>
          for (_, o) in obs do
            if o.startsWith "panic" then g := g.fail ("implementation panicked: " ++ o)
            else if o.startsWith "stray" then g := g.fail ("observation off the tick grid: " ++ o)
            else g := O19.onOp g op o
      i := j
    else
      if l.startsWith "OBS panic" then
        g := g.fail ("implementation panicked: " ++ l)
        if res.kOk then res := { res with kOk := false, kLine := ln, kDetail := "panic" }
      else if l.startsWith "OBS stray" then
        g := g.fail ("observation off the tick grid: " ++ l)
      else if l.startsWith "OBS xcheck" then
        g := g.fail ("equivalent API calls disagree: " ++ l)
        if res.kOk then res := { res with kOk := false, kLine := ln, kDetail := l }
      i := i + 1
  g := O19.finish g steps
  res := { res with oFails := res.oFails ++ g.fails }
  return res

def caseLine (n : String) (r : CaseResult) (variant : String := "faithful") : String :=
  let detail := (if r.kOk then "" else "K:" ++ r.kDetail ++ " ") ++
    (match r.oFails with | [] => "" | f :: _ => "O:" ++ f ++ (if r.oFails.length > 1 then s!" (+{r.oFails.length - 1} more)" else ""))
  s!"CASE {n} K={if r.kOk then "ok" else "mismatch"} O={if r.oFails.isEmpty then "ok" else "fail"} variant={variant} pattern={r.pattern} line={r.kLine} cov={if r.cov.isEmpty then "-" else ",".intercalate r.cov} detail={detail}"

partial def main (args : List String) : IO UInt32 := do
  match args with
  | [prop, file] =>
    let lines ← IO.FS.lines file
    let forced ← IO.getEnv "TV_NETTABLE_VARIANT"
    let mut i := 0
    let mut cases := 0
    let mut km := 0
    let mut ofl := 0
    let out ← IO.getStdout
    while i < lines.size do
      let l := lines[i]!
      if l.startsWith "CASE " then
        let toks := l.splitOn " "
        let n := toks.getD 1 "?"
        let mut body : Array (Nat × String) := #[]
        let mut j := i + 1
        while j < lines.size && lines[j]! != "END" do
          body := body.push (j + 1, lines[j]!)
          j := j + 1
        let (r, variant) := if prop == "C17" then runCase17 body forced else (runCase19 body, "faithful")
        cases := cases + 1
        if !r.kOk then km := km + 1
        if !r.oFails.isEmpty then ofl := ofl + 1
        out.putStrLn (caseLine n r variant)
        i := j + 1
      else
        i := i + 1
    out.putStrLn s!"SUMMARY cases={cases} kmismatch={km} ofail={ofl}"
    return 0
  | _ =>
    IO.eprintln "usage: tvnettabledriver <PROP> <trace-file>"
    return 2
