import TvUring.Model.Barrier
import TvUring.Model.BarrierSpec
import TvUring.Proofs.Barrier
import TvUring.Proofs.BarrierSuspend
import TvUring.Props.C20
import TvUring.Audit.C20
