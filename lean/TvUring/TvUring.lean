import TvUring.Model.Barrier
import TvUring.Model.BarrierSpec
