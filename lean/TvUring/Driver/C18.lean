/-
C18 driver.
K: `TV.Ring.Host.step` replayed on the OP/ORA lines vs the OBS lines. The shuffle oracle is read off the
   implementation's CQE: the entry must be a member of the oldest matured batch (a shuffle that drops,
   duplicates or invents an entry is a mismatch; a different order is not).
O: the C18 specification evaluated on the implementation's observations only (no model state):
   exactly-once / cancel accounting, not-early (with the latency the implementation itself sampled),
   same-as-synchronous-API (twin fs through the shim), full-SQ, crash.
-/
import TvUring.Model.Ring
import Driver.Trace

namespace TV.DriverC18
open TV.Trace TV.Ring

def sentinel : Nat := 170

def hexVal (c : Char) : Nat :=
  if c.isDigit then c.toNat - '0'.toNat
  else if 'a' ≤ c && c ≤ 'f' then c.toNat - 'a'.toNat + 10
  else 0

def unhex (s : String) : List Nat :=
  if s == "-" then []
  else
    let rec go : List Char → List Nat
      | a :: b :: rest => (hexVal a * 16 + hexVal b) :: go rest
      | _ => []
    go s.toList

def hexDigit (n : Nat) : Char :=
  if n < 10 then Char.ofNat ('0'.toNat + n) else Char.ofNat ('a'.toNat + n - 10)

def hex (l : List Nat) : String :=
  if l.isEmpty then "-"
  else String.ofList (l.flatMap fun b => [hexDigit (b / 16), hexDigit (b % 16)])

def padBuf (data : List Nat) (len : Nat) : List Nat :=
  data ++ List.replicate (len - data.length) sentinel

inductive Kind
  | read (fd off len : Nat)
  | write (fd off : Nat) (data : List Nat)
  | fsync (fd : Nat)
  | cancel (t : Nat)
deriving Repr, Inhabited, BEq

def Kind.toOp : Kind → OpKind
  | .read a b c => .read a b c
  | .write a b d => .write a b d
  | .fsync a => .fsync a
  | .cancel t => .cancel t

inductive POp
  | newRing (n : Nat)
  | push (ring ud : Nat) (k : Kind) (link : Bool)
  | submit (ring : Nat) (badts : Bool)
  | cqnew (ring : Nat) | cqsync (ring : Nat) | next (ring : Nat) | readable (ring : Nat) | dropRing (ring : Nat)
  | await (ring : Nat) | awaited (ring : Nat) | sqinfo (ring : Nat)
  | advance (ns : Nat) | crash | final
  | fwrite (fd off : Nat) (d : List Nat) | fread (fd off len : Nat) | fsync (fd : Nat) | fclose (fd : Nat) | fopen (fd : Nat)
deriving Repr, Inhabited

def actorIdx (a : String) : Nat := ((a.drop 1).toNat?).getD 0

def parseOp (t : List String) : Option POp :=
  match t with
  | [_, "newring", n] => do pure (.newRing (← n.toNat?))
  | [_, "newringb", n, m] => do
    let k ← n.toNat?
    pure (if m == "plain" then .newRing k else .newRing 0)
  | a :: "push" :: ud :: rest => do
    let ud ← ud.toNat?
    let link := match rest.getLast? with
      | some t => if t.startsWith "fl=" then hasUnsupported ((t.drop 3).toNat?.getD 0) else false
      | none => false
    let k ← match rest with
      | "read" :: fd :: off :: len :: _ => do pure (Kind.read (← fd.toNat?) (← off.toNat?) (← len.toNat?))
      | "write" :: fd :: off :: d :: _ => do pure (Kind.write (← fd.toNat?) (← off.toNat?) (unhex d))
      | "fsync" :: fd :: _ => do pure (Kind.fsync (← fd.toNat?))
      | "cancel" :: tg :: _ => do pure (Kind.cancel (← tg.toNat?))
      | _ => none
    pure (.push (actorIdx a) ud k link)
  | [a, "submit"] => some (.submit (actorIdx a) false)
  | [a, "submitwait", _] => some (.submit (actorIdx a) false)
  | [a, "submitbadts"] => some (.submit (actorIdx a) true)
  | [a, "cqnew"] => some (.cqnew (actorIdx a))
  | [a, "cqsync"] => some (.cqsync (actorIdx a))
  | [a, "next"] => some (.next (actorIdx a))
  | [a, "readable"] => some (.readable (actorIdx a))
  | [a, "await"] => some (.await (actorIdx a))
  | [a, "awaited"] => some (.awaited (actorIdx a))
  | [a, "sqinfo"] => some (.sqinfo (actorIdx a))
  | [a, "dropring"] => some (.dropRing (actorIdx a))
  | [_, "advance", ns] => do pure (.advance (← ns.toNat?))
  | [_, "crash"] => some .crash
  | [_, "final"] => some .final
  | [a, "fwrite", off, d] => do pure (.fwrite (actorIdx a) (← off.toNat?) (unhex d))
  | [a, "fread", off, len] => do pure (.fread (actorIdx a) (← off.toNat?) (← len.toNat?))
  | [a, "fsync"] => some (.fsync (actorIdx a))
  | [a, "close"] => some (.fclose (actorIdx a))
  | [a, "open"] => some (.fopen (actorIdx a))
  | _ => none

def field (toks : List String) (k : String) : String :=
  match toks.find? (·.startsWith (k ++ "=")) with
  | some t => (t.drop (k.length + 1)).toString
  | none => ""

def intOf (s : String) : Int :=
  if s.startsWith "-" then - ((s.drop 1).toNat?.getD 0 : Nat) else ((s.toNat?.getD 0 : Nat) : Int)

/-- ORA lat ud:ns … → list of (ud, ns) -/
def parseLats (ora : List (List String)) : List (Nat × Nat) :=
  ora.flatMap fun l =>
    match l with
    | "lat" :: rest => rest.filterMap fun t =>
        match t.splitOn ":" with
        | [a, b] => do pure (← a.toNat?, ← b.toNat?)
        | _ => none
    | _ => []

/-- One latency per SQ entry, in SQ order: entries that sample none (rejected flags, cancel) get 0. -/
def latsFor (sq : List (Nat × Sqe)) (lats : List Nat) : List Nat :=
  match sq with
  | [] => []
  | (_, e) :: rest =>
    let samples := !e.bad && (match e.op with | .cancel _ => false | _ => true)
    if samples then (lats.headD 0) :: latsFor rest lats.tail else 0 :: latsFor rest lats

/-- Submitted entry as the oracle sees it (from OP/ORA/OBS lines only). -/
structure OEntry where
  ring : Nat
  ud : Nat
  kind : Kind
  link : Bool
  submitted : Bool := false
  at_ : Nat := 0
  lat : Nat := 0
  done : Bool := false
  res : Int := 0
  gen : Nat := 0          -- generation of the file handle captured at push time
  seq : Nat := 0          -- push order
  subIdx : Nat := 0       -- index of the submit op
  doneIdx : Nat := 0      -- index of the op that drained it
  doneAt : Nat := 0       -- ring time at which it was drained
deriving Repr, Inhabited

structure ORing where
  depth : Nat
  sqCount : Nat := 0
  dead : Bool := false      -- crashed
  dropped : Bool := false
  droppedAt : Nat := 0
deriving Repr, Inhabited

structure OState where
  now : Nat := 0
  rings : Array ORing := #[]
  entries : Array OEntry := #[]
  fileOpen : Array Bool := #[]
  fileGen : Array Nat := #[]
  opIdx : Nat := 0
  waiters : List (Nat × Nat) := []     -- (ring, ring time of the `await`)

def fmtCqe (ud : Nat) (res : Int) (buf : List Nat) : String := s!"cqe {ud} {res} buf={hex buf}"

def showROut : ROut → String
  | .pushed => "pushed"
  | .full => "full"
  | .submitted n => s!"submitted {n}"
  | .unit => "unit"
  | .synced n => s!"synced {n}"
  | .none_ => "none"
  | .cqe ud res buf => fmtCqe ud res buf
  | .ready b => if b then "ready" else "pending"
  | .sq len full cap => s!"sq len={len} full={if full then 1 else 0} cap={cap}"

def firstBatch : List (List Sched) → List Sched
  | [] => []
  | [] :: bs => firstBatch bs
  | b :: _ => b

def findIdxs (l : List Sched) (p : Sched → Bool) : List Nat :=
  (l.zipIdx.filter (fun x => p x.1)).map (·.2)

def runCase (c : Case) : Verdict := Id.run do
  let mut v : Verdict := {}
  let nfiles := c.cfgNat "nfiles" 1
  let latmin := c.cfgNat "latmin" 0
  let latmax := c.cfgNat "latmax" 0
  let cache := c.cfgNat "cache" 0 == 1
  let inits := ((c.cfgGet "init" "").splitOn ",").map unhex
  let files : Files :=
    { inodes := (List.range nfiles).map fun k =>
        let b := inits.getD k []
        { content := b, durable := b },
      fds := (List.range nfiles).map fun k => (k, true) }
  let mut h : Host := Host.init files
  -- logical file k ↦ model fd currently (or last) bound to it; whether the harness holds a handle
  let mut curFd : Array Nat := (List.range nfiles).toArray
  let mut kOpen : Array Bool := (List.replicate nfiles true).toArray
  let fdOf := fun (cur : Array Nat) (k : Nat) => if k < nfiles then cur.getD k 0 else 999999
  let mut dropped : List Nat := []
  let simMode := c.cfgGet "mode" "standalone" == "sim"
  -- sim mode: a crash kills the software, so every handle (ring, completion queue, AsyncFd) is lost
  let mut lost : List Nat := []
  if simMode then v := { v with cov := addCov v.cov "simhost" }
  let mut o : OState := { fileOpen := (List.replicate nfiles true).toArray, fileGen := (List.replicate nfiles 0).toArray }
  -- K-side table: pushed entries per ring, for buffer formatting
  let mut kEntries : Array (Nat × Nat × Kind × Bool) := #[]   -- ring, ud, kind, done
  let mut crashedOnce := false
  for st in c.steps do
    let some op := parseOp st.op
      | v := { v with kOk := false, line := st.line, detail := "unparsable OP" }; break
    let (obsLine, obsToks) := match st.obs with
      | (l, t) :: _ => (l, t)
      | [] => (st.line, [])
    let obsHead := obsToks.headD ""
    let obsMain := String.intercalate " " (obsToks.filter fun t => !(t.startsWith "twin=" || t.startsWith "twinbuf="))
    let lats := parseLats st.ora
    let mut kWant : String := ""
    let mut oErr : Option String := none
    -- =================================== K ===================================
    match op with
    | .newRing n =>
      let (h', out) := h.step (.newRing n)
      h := h'
      kWant := match out with
        | .ringId id => s!"ring {id} sq={nextPow2 n} cq={2 * nextPow2 n}"
        | _ => "invalid"
    | .push ring ud k link =>
      if dropped.contains ring || ring ≥ h.nextRing then kWant := "invalid"
      else
        let kop : OpKind := match k with
          | .read fd off len => .read (fdOf curFd fd) off len
          | .write fd off d => .write (fdOf curFd fd) off d
          | .fsync fd => .fsync (fdOf curFd fd)
          | .cancel t => .cancel t
        let (h', out) := h.step (.ring ring (.push ⟨ud, kop, link⟩))
        h := h'
        kWant := match out with | .ring r => showROut r | _ => "?"
        if kWant == "pushed" then kEntries := kEntries.push (ring, ud, k, false)
        if kWant == "full" then v := { v with cov := addCov v.cov "full" }
    | .submit ring badts =>
      if dropped.contains ring || ring ≥ h.nextRing then kWant := "invalid"
      else if badts then kWant := "err invalidinput"
      else
        let sq := match lookupRing ring h.rings with | some r => r.sq | none => []
        if sq.any (fun e => match e.2.op with | .cancel t => (match lookupRing ring h.rings with
              | some r => (r.inflight.any (·.ud == t)) | none => false) | _ => false) then
          v := { v with cov := addCov v.cov "cancel-inflight" }
        if sq.any (fun e => match e.2.op with | .cancel t => (match lookupRing ring h.rings with
              | some r => (!(r.inflight.any (·.ud == t)) && r.ready.flatten.any (·.ud == t)) | none => false) | _ => false) then
          v := { v with cov := addCov v.cov "cancel-ready" }
        let (h', out) := h.step (.ring ring (.submit (latsFor sq (lats.map (·.2)))))
        h := h'
        kWant := match out with | .ring r => showROut r | .noRing => "err notfound" | _ => "?"
        if out == .noRing then v := { v with cov := addCov v.cov "stale" }
        if lats.any (fun l => cache && l.2 == 100) then v := { v with cov := addCov v.cov "cachehit" }
    | .cqnew ring =>
      if dropped.contains ring || ring ≥ h.nextRing then kWant := "invalid"
      else
        let (h', _) := h.step (.ring ring .cqnew)
        h := h'; kWant := "unit"
    | .cqsync ring =>
      if ring ≥ h.nextRing || lost.contains ring then kWant := "invalid"
      else
        let (h', out) := h.step (.ring ring .cqsync)
        h := h'
        kWant := match out with | .ring r => showROut r | _ => "?"
    | .next ring =>
      if ring ≥ h.nextRing || lost.contains ring then kWant := "invalid"
      else
        -- shuffle oracle from the observation
        let obsUd := (obsToks.getD 1 "").toNat?.getD 0
        let obsRes := intOf (obsToks.getD 2 "")
        let obsBuf := field obsToks "buf"
        let mut pick := 0
        let mut permOk := true
        match lookupRing ring h.rings with
        | some r =>
          let batch := firstBatch (promote r h.now).ready
          if obsHead == "cqe" then
            let cands := findIdxs batch (·.ud == obsUd)
            if cands.isEmpty then permOk := false
            else
              -- prefer a candidate that also explains result and buffer (duplicate user_data)
              let kindOf := (kEntries.toList.find? fun e => e.1 == ring && e.2.1 == obsUd && !e.2.2.2).map (·.2.2.1)
              let good := cands.filter fun i =>
                match batch[i]? with
                | some x =>
                  let rr := exec h.files x.apply
                  let len := match kindOf with | some (.read _ _ l) => l | _ => 0
                  rr.2.1 == obsRes && hex (padBuf rr.2.2 len) == obsBuf
                | none => false
              pick := (good.head?).getD (cands.headD 0)
            if pick != 0 then v := { v with cov := addCov v.cov "shuffle" }
            if batch.length ≥ 2 then v := { v with cov := addCov v.cov "batch2" }
        | none => v := { v with cov := addCov v.cov "stale" }
        let (h', out) := h.step (.ring ring (.next pick))
        h := h'
        match out with
        | .ring (.cqe ud res buf) =>
          -- locate the K-side entry for buffer formatting
          let idx := kEntries.toList.findIdx? fun e => e.1 == ring && e.2.1 == ud && !e.2.2.2
          let len := match idx with
            | some i => match kEntries[i]! with | (_, _, .read _ _ l, _) => l | _ => 0
            | none => 0
          if let some i := idx then
            let e := kEntries[i]!
            kEntries := kEntries.set! i (e.1, e.2.1, e.2.2.1, true)
          kWant := fmtCqe ud res (padBuf buf len)
          if res == EBADF then v := { v with cov := addCov v.cov "ebadf" }
          if res == EINVAL then v := { v with cov := addCov v.cov "einval" }
          if res == ECANCELED then v := { v with cov := addCov v.cov "ecanceled" }
          if res == ENOENT then v := { v with cov := addCov v.cov "cancel-enoent" }
          if !permOk then kWant := kWant ++ " (not a member of the matured batch)"
        | .ring r => kWant := showROut r
        | _ => kWant := "?"
        if obsHead == "cqe" && !permOk && v.kOk then
          v := { v with kOk := false, line := obsLine, detail := s!"K shuffle: CQE {obsUd} is not in the oldest matured batch" }
    | .sqinfo ring =>
      if dropped.contains ring || ring ≥ h.nextRing then kWant := "invalid"
      else
        let (h', out) := h.step (.ring ring .sqinfo)
        h := h'
        kWant := match out with | .ring r => showROut r | _ => "?"
    | .await ring =>
      if !simMode || ring ≥ h.nextRing || lost.contains ring then kWant := "invalid"
      else if (lookupRing ring h.rings).isNone then kWant := "err notfound"
      else kWant := "unit"
    | .awaited ring =>
      if ring ≥ h.nextRing || lost.contains ring then kWant := "invalid"
      else kWant := obsMain      -- K-abstract: wake-up timing is judged by the oracle below
    | .readable ring =>
      if ring ≥ h.nextRing || lost.contains ring then kWant := "invalid"
      else
        let (h', out) := h.step (.ring ring .readable)
        h := h'
        kWant := match out with | .ring r => showROut r | .noRing => "err notfound" | _ => "?"
        v := { v with cov := addCov v.cov "asyncfd" }
    | .dropRing ring =>
      if ring ≥ h.nextRing || lost.contains ring then kWant := "invalid"
      else
        let (h', _) := h.step (.dropRing ring)
        h := h'; dropped := ring :: dropped; kWant := "unit"
    | .advance ns => h := (h.step (.advance ns)).1; kWant := "unit"
    | .crash =>
      if h.rings.any (fun kr => !kr.2.inflight.isEmpty || !kr.2.ready.isEmpty || !kr.2.sq.isEmpty) then
        v := { v with cov := addCov v.cov "crash-inflight" }
      h := (h.step .crash).1; kWant := "unit"; crashedOnce := true
      kOpen := kOpen.map (fun _ => false)
      if simMode then
        lost := List.range h.nextRing
        dropped := List.range h.nextRing
      v := { v with cov := addCov v.cov "crash" }
    | .fwrite fd off d =>
      let (h', out) := h.step (.fwrite (fdOf curFd fd) off d)
      h := h'
      kWant := match out with | .io r _ => s!"io {r} buf=-" | _ => "?"
    | .fread fd off len =>
      let (h', out) := h.step (.fread (fdOf curFd fd) off len)
      h := h'
      kWant := match out with | .io r b => s!"io {r} buf={hex (padBuf b len)}" | _ => "?"
    | .fsync fd =>
      let (h', out) := h.step (.fsync (fdOf curFd fd))
      h := h'
      kWant := match out with | .io r _ => s!"io {r} buf=-" | _ => "?"
    | .fclose fd =>
      if fd ≥ nfiles then kWant := "invalid"
      else
        if kOpen.getD fd false then
          h := (h.step (.fclose (fdOf curFd fd))).1
          kOpen := kOpen.set! fd false
        kWant := "unit"
    | .fopen fd =>
      if fd ≥ nfiles then kWant := "invalid"
      else
        if !(kOpen.getD fd false) then
          let (h', out) := h.step (.fopen fd)
          h := h'
          if let .fd n := out then curFd := curFd.set! fd n
          kOpen := kOpen.set! fd true
        kWant := "unit"
    | .final =>
      let fl := String.intercalate "," (h.files.inodes.map fun f => hex f.content)
      kWant := s!"final files={fl}"
    -- compare
    let obsCmp := match op with
      | .final => String.intercalate " " (obsToks.filter fun t => !(t.startsWith "twinfiles=" || t.startsWith "untouched="))
      | _ => obsMain
    if v.kOk && kWant != obsCmp then
      let d := s!"K want=[{kWant}] got=[{obsCmp}]"
      v := { v with kOk := false, line := obsLine, detail := d }
    if h.rings.length ≥ 2 then v := { v with cov := addCov v.cov "tworings" }
    -- =================================== O ===================================
    match op with
    | .newRing n =>
      -- (sqpoll / iopoll builders are parsed as `newRing 0`: they must be refused)
      if n != 0 then
        o := { o with rings := o.rings.push { depth := nextPow2 n } }
        if obsHead != "ring" then oErr := some s!"creating a ring with {n} entries failed"
      else if obsHead != "invalid" then oErr := some "ring creation with zero entries / unsupported setup flags succeeded"
    | .push ring ud k link =>
      if let some r := o.rings[ring]? then
        if !r.dropped && !lost.contains ring then
          let expectFull := r.dead || r.sqCount ≥ r.depth
          if expectFull && obsHead != "full" then oErr := some s!"push on a full/dead SQ (queued {r.sqCount}, depth {r.depth}) returned {obsHead}"
          if !expectFull && obsHead != "pushed" then oErr := some s!"push with free space (queued {r.sqCount}, depth {r.depth}) returned {obsHead}"
          if obsHead == "pushed" then
            o := { o with rings := o.rings.set! ring { r with sqCount := r.sqCount + 1 },
                          entries := o.entries.push { ring := ring, ud := ud, kind := k, link := link,
                                                      seq := o.entries.size,
                                                      gen := match k with
                                                        | .read fd _ _ | .write fd _ _ | .fsync fd => o.fileGen.getD fd 0
                                                        | _ => 0 } }
    | .submit ring badts =>
      if let some r := o.rings[ring]? then
        if !r.dropped && !badts && !lost.contains ring then
          if r.dead then
            if obsMain != "err notfound" then oErr := some s!"submit on a crashed host's ring returned [{obsMain}]"
          else
            if obsMain != s!"submitted {r.sqCount}" then
              oErr := some s!"submit must accept all {r.sqCount} queued entries, returned [{obsMain}]"
            -- latencies: in range, one per sampled entry, in order
            let mut ls := lats
            let mut es := o.entries
            for i in [0:es.size] do
              let e := es[i]!
              if e.ring == ring && !e.submitted then
                let samples := !e.link && (match e.kind with | .cancel _ => false | _ => true)
                let mut lat := 0
                if samples then
                  match ls with
                  | (ud, l) :: rest =>
                    ls := rest; lat := l
                    if ud != e.ud then oErr := some s!"latency log out of order: expected user_data {e.ud}, logged {ud}"
                    if !((latmin ≤ l && l ≤ latmax) || (cache && l == 100) ) then
                      oErr := some s!"sampled latency {l}ns outside [{latmin},{latmax}]"
                  | [] => oErr := some s!"no latency sampled for user_data {e.ud}"
                es := es.set! i { e with submitted := true, at_ := o.now, lat := lat, subIdx := o.opIdx }
            o := { o with entries := es, rings := o.rings.set! ring { r with sqCount := 0 } }
    | .next ring =>
      if obsHead == "cqe" then
        let ud := (obsToks.getD 1 "").toNat?.getD 0
        let res := intOf (obsToks.getD 2 "")
        let buf := field obsToks "buf"
        let twin := intOf (field obsToks "twin")
        let twinbuf := field obsToks "twinbuf"
        match o.rings[ring]? with
        | none => oErr := some "CQE from an unknown ring"
        | some r =>
          if r.dead then oErr := some s!"completion {ud} delivered after the host crashed"
          if r.dropped then oErr := some s!"completion {ud} delivered after the ring was dropped"
          -- exactly once: must match a submitted, not yet completed entry
          let cands := (List.range o.entries.size).filter fun i =>
            let e := o.entries[i]!
            e.ring == ring && e.ud == ud && e.submitted && !e.done
          -- entries sharing a user_data are identical operations (generator discipline): attribute the
          -- completion to one whose deadline has passed, if any
          let dueCands := cands.filter fun j => let x := o.entries[j]!; x.at_ + x.lat ≤ o.now
          match dueCands ++ cands with
          | [] => oErr := some s!"completion for user_data {ud} without an outstanding submission (duplicate or phantom)"
          | i :: _ =>
            let e := o.entries[i]!
            o := { o with entries := o.entries.set! i { e with done := true, res := res, doneIdx := o.opIdx, doneAt := o.now } }
            -- not early (the earliest candidate deadline must have passed)
            let early := cands.all fun j => let x := o.entries[j]!; o.now < x.at_ + x.lat
            if early && res != ECANCELED then
              oErr := some s!"completion {ud} visible at {o.now}ns, before submit {e.at_} + latency {e.lat}"
            if o.now > e.at_ + e.lat then v := { v with cov := addCov v.cov "late" }
            -- same as the synchronous API
            match e.kind with
            | .cancel t =>
              -- an SQE with a rejected flag completes with -EINVAL and has no other effect, whatever the opcode
              if e.link then
                if res != EINVAL && res != ECANCELED then
                  oErr := some s!"cancel {ud} of {t} carries a rejected flag but completed with {res}, not -EINVAL"
              else if res != 0 && res != ENOENT && res != ECANCELED then oErr := some s!"cancel completed with {res}"
            | k =>
              if e.link then
                if res != EINVAL && res != ECANCELED then oErr := some s!"entry with rejected flags completed with {res}, not -EINVAL"
              else if res == ECANCELED then
                match k with
                | .read _ _ len => if buf != hex (List.replicate len sentinel) then oErr := some s!"buffer of cancelled read {ud} was written"
                | _ => pure ()
              else
                let closed := match k with
                  | .read fd _ _ | .write fd _ _ | .fsync fd => !(o.fileOpen.getD fd false) || o.fileGen.getD fd 0 != e.gen
                  | _ => false
                if closed then
                  if res != EBADF then oErr := some s!"operation on a closed file completed with {res}, not -EBADF"
                else if res != twin || buf != twinbuf then
                  oErr := some s!"ring result ({res}, {buf}) differs from the synchronous API's ({twin}, {twinbuf})"
    | .sqinfo ring =>
      if let some r := o.rings[ring]? then
        if obsHead == "sq" && !r.dropped then
          let exp := if r.dead then "sq len=0 full=1 cap=0" else s!"sq len={r.sqCount} full={if r.sqCount ≥ r.depth then 1 else 0} cap={r.depth}"
          if obsMain != exp then oErr := some s!"submission queue reports [{obsMain}], expected [{exp}]"
    | .cqsync ring =>
      if let some r := o.rings[ring]? then
        if obsHead == "synced" then
          let n := (obsToks.getD 1 "").toNat?.getD 0
          let out_ := o.entries.toList.filter fun e => e.ring == ring && e.submitted && !e.done
          -- completions that may be visible now: deadline passed, or produced at submit time
          -- (rejected flags, cancels, targets of a submitted cancel)
          let targeted := fun (e : OEntry) => o.entries.toList.any fun c =>
            c.ring == ring && c.submitted && !c.link && (match c.kind with | .cancel t => t == e.ud | _ => false)
          let due := out_.filter fun e => e.at_ + e.lat ≤ o.now
          let maybe := out_.filter fun e => e.at_ + e.lat ≤ o.now || targeted e
          if r.dead || r.dropped then
            if n != 0 then oErr := some s!"sync on a dead ring exposes {n} completions"
          else
            if n > maybe.length then
              oErr := some s!"sync exposes {n} completions but only {maybe.length} submissions can have completed by {o.now}ns"
            let anyCancel := o.entries.toList.any fun c => c.ring == ring && (match c.kind with | .cancel _ => true | _ => false)
            if !anyCancel && n != due.length then
              oErr := some s!"sync exposes {n} completions, {due.length} submissions are past their latency"
    | .advance ns => o := { o with now := o.now + ns }
    | .crash =>
      o := { o with rings := o.rings.map (fun r => { r with dead := true, sqCount := 0 }),
                    fileOpen := o.fileOpen.map (fun _ => false) }
    | .dropRing ring =>
      if let some r := o.rings[ring]? then
        if !r.dropped && !lost.contains ring then
          o := { o with rings := o.rings.set! ring { r with dropped := true, droppedAt := o.now } }
    | .await ring =>
      if obsMain == "unit" then o := { o with waiters := (ring, o.now) :: o.waiters.filter (·.1 != ring) }
    | .awaited ring =>
      match o.waiters.find? (·.1 == ring) with
      | none => pure ()
      | some (_, t0) =>
        let tick := 1000000
        let es := o.entries.toList.filter fun e => e.ring == ring && e.submitted
        if obsMain == "woken" then
          -- not early: some completion must have been due while the waiter existed
          let ok := es.any fun e => e.at_ + e.lat ≤ o.now && (!e.done || e.doneAt ≥ t0)
          if !ok then oErr := some s!"AsyncFd::readable woke at or before {o.now}ns although no completion was due since the wait began at {t0}ns"
        if obsMain == "waiting" then
          let due := es.any fun e => !e.done && e.at_ + e.lat + tick ≤ o.now && t0 + tick ≤ o.now
          if due then oErr := some s!"AsyncFd::readable still pending at {o.now}ns although a completion has been due for more than a tick"
        if obsMain == "wokenerr" then
          if let some r := o.rings[ring]? then
            if !r.dropped then oErr := some "AsyncFd::readable failed on a live ring"
        if obsMain == "waiting" then
          if let some r := o.rings[ring]? then
            if r.dropped && r.droppedAt + tick ≤ o.now && t0 + tick ≤ o.now then
              oErr := some s!"AsyncFd::readable still pending at {o.now}ns although its ring was dropped at {r.droppedAt}ns"
    | .readable ring =>
      if let some r := o.rings[ring]? then
        if lost.contains ring then pure ()
        else if (r.dead || r.dropped) && obsMain != "err notfound" then oErr := some s!"readable on a dead ring returned [{obsMain}]"
        -- readiness must not be reported before any outstanding deadline, and must be once one has passed
        else if !(r.dead || r.dropped) then
          let out_ := o.entries.toList.filter fun e => e.ring == ring && e.submitted && !e.done
          let targeted := fun (e : OEntry) => o.entries.toList.any fun c =>
            c.ring == ring && c.submitted && !c.link && (match c.kind with | .cancel t => t == e.ud | _ => false)
          let due := out_.filter fun e => e.at_ + e.lat ≤ o.now
          let maybe := out_.filter fun e => e.at_ + e.lat ≤ o.now || targeted e
          if obsMain == "ready" && maybe.isEmpty then
            oErr := some s!"AsyncFd::readable ready at {o.now}ns although no completion can be due"
          if obsMain == "pending" && !due.isEmpty then
            oErr := some s!"AsyncFd::readable pending at {o.now}ns although {due.length} completions are due"
    | .fclose fd => if fd < nfiles then o := { o with fileOpen := o.fileOpen.set! fd false }
    | .fopen fd =>
      if fd < nfiles && !(o.fileOpen.getD fd false) then
        o := { o with fileOpen := o.fileOpen.set! fd true, fileGen := o.fileGen.set! fd (o.fileGen.getD fd 0 + 1) }
    | .fwrite _ _ _ | .fread _ _ _ | .fsync _ =>
      let res := intOf (obsToks.getD 1 "")
      if res != intOf (field obsToks "twin") || field obsToks "buf" != field obsToks "twinbuf" then
        oErr := some "synchronous shim disagrees with itself on the twin fs"
    | .final =>
      if field obsToks "files" != field obsToks "twinfiles" then
        oErr := some s!"file contents {field obsToks "files"} differ from the synchronous twin's {field obsToks "twinfiles"}"
      if ((field obsToks "untouched").splitOn ",").any (fun t => t.endsWith ":0") then
        oErr := some "a read buffer of a submission that never completed with data was written"
      -- every entry submitted to a ring that lived to the end has completed exactly once
      for e in o.entries do
        if let some r := o.rings[e.ring]? then
          if !r.dead && !r.dropped && e.submitted && !e.done then
            oErr := some s!"submission user_data {e.ud} on ring {e.ring} never completed although the ring was drained"
      -- cancel accounting per ring that lived to the end:
      --  pending(e, c) := e was submitted before c was processed and drained after c was submitted
      for c in o.entries do
        if let some r := o.rings[c.ring]? then
          if !r.dead && !r.dropped && c.done then
            if let .cancel t := c.kind then
              let pend := o.entries.toList.filter fun e =>
                e.ring == c.ring && e.ud == t && e.seq != c.seq && e.submitted &&
                (e.subIdx < c.subIdx || (e.subIdx == c.subIdx && e.seq < c.seq)) && e.doneIdx > c.subIdx
              if c.res == 0 && !c.link then
                if pend.isEmpty then oErr := some s!"cancel {c.ud} of {t} reported success but nothing with that user_data was pending"
                else if !(pend.any fun e => e.res == ECANCELED) then
                  oErr := some s!"cancel {c.ud} of {t} succeeded but the target completed with {(pend.map (·.res))} instead of -ECANCELED"
              if c.res == ENOENT && !pend.isEmpty then
                oErr := some s!"cancel {c.ud} of {t} reported -ENOENT although user_data {t} was pending"
      for e in o.entries do
        if let some r := o.rings[e.ring]? then
          if !r.dead && !r.dropped && e.done && e.res == ECANCELED then
            let by_ := o.entries.toList.any fun c =>
              c.ring == e.ring && c.submitted && c.seq != e.seq && !c.link &&
              (match c.kind with | .cancel t => t == e.ud | _ => false) &&
              (c.res == 0 || c.res == ECANCELED)
            if !by_ then oErr := some s!"user_data {e.ud} completed with -ECANCELED but no successful cancel without rejected flags targeted it"
    | _ => pure ()
    o := { o with opIdx := o.opIdx + 1 }
    if let some e := oErr then
      if v.oOk then
        let d := (if v.detail.isEmpty then "" else v.detail ++ " ; ") ++ "O " ++ e
        let ln := if v.line == 0 then obsLine else v.line
        v := { v with oOk := false, detail := d, line := ln }
  if crashedOnce then pure ()
  return v

end TV.DriverC18
