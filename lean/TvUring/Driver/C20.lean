/-
C20 driver: K = model (`TV.Barrier.step`) vs implementation observations;
O = specification (`TV.Barrier.specReports`, `expectedOutcome`, `firstLive`) evaluated on the
implementation's own observations.
-/
import TvUring.Model.Barrier
import TvUring.Model.BarrierSpec
import Driver.Trace

namespace TV.DriverC20
open TV.Trace TV.Barrier

def parsePred (s : String) : Option (Nat → Bool) :=
  if s == "any" then some (fun _ => true)
  else
    let k := (s.take 2).toString
    match (s.drop 2).toNat? with
    | none => none
    | some n =>
      if k == "eq" then some (fun v => v == n)
      else if k == "ne" then some (fun v => v != n)
      else if k == "ge" then some (fun v => n ≤ v)
      else if k == "lt" then some (fun v => v < n)
      else none

def parseCond (s : String) : Option (Event → Bool) :=
  match s.splitOn ":" with
  | [ty, p] =>
    match ty.toNat?, parsePred p with
    | some ty, some f => some (fun e => e.ty == ty && f e.val)
    | _, _ => none
  | _ => none

def parseReaction : String → Option Reaction
  | "noop" => some .noop
  | "suspend" => some .suspend
  | "panic" => some .panic
  | _ => none

/-- tokens after `OP`: actor name args… -/
def parseOp : List String → Option Op
  | [_, "build", r, c] => do
    let r ← parseReaction r
    let c ← parseCond c
    pure (.build r c)
  | [_, "trigger", ty, v] => do pure (.trigger ⟨← ty.toNat?, ← v.toNat?⟩)
  | [_, "triggernoop", ty, v] => do pure (.triggerNoop ⟨← ty.toNat?, ← v.toNat?⟩)
  | [_, "wait", b] => do pure (.wait (← b.toNat?))
  | [_, "drophandle", t] => do pure (.dropHandle (← t.toNat?))
  | [_, "dropbarrier", b] => do pure (.dropBarrier (← b.toNat?))
  | [_, "abandon", t] => do pure (.abandon (← t.toNat?))
  | _ => none

def showRes : Res → String
  | .built b => s!"built {b}"
  | .done => "done"
  | .suspended => "suspended"
  | .panicInjected => "panic injected"
  | .panicMisuse => "panic misuse"
  | .pending => "pending"
  | .got t ev => s!"got {t} {ev.ty} {ev.val}"
  | .ok => "ok"
  | .invalid => "invalid"

/-- `OBS <res…> resumed=<list>` → (res text, resumed sorted) -/
def parseObs (toks : List String) : String × List Nat :=
  let resumedTok := toks.find? (·.startsWith "resumed=")
  let res := toks.filter (fun t => !t.startsWith "resumed=")
  (String.intercalate " " res, sortNat (natList ((resumedTok.getD "resumed=-").drop 8).toString))

/-- Everything the oracle needs to remember from the implementation's observations. -/
structure OState where
  opsRev : List Op := []
  gots : List (Nat × Nat) := []          -- (barrier, tid) in observation order
  handles : List Nat := []               -- tids whose handle the test currently holds (observed `got`, not dropped)
  abandoned : List Nat := []             -- calls whose parked future was dropped

def gotCount (o : OState) (b : Nat) : Nat := (o.gots.filter (·.1 == b)).length

/-- was trigger `tid` suspended according to the specification? -/
def specSuspended (trs : List TrigRec) (tid : Nat) : Bool :=
  match trs.find? (·.tid == tid) with
  | some t => expectedOutcome t == .suspended
  | none => false

def runCase (c : Case) : Verdict := Id.run do
  let mut v : Verdict := { variant := "fixed" }
  let mut s : State := init
  let mut o : OState := {}
  let mut nBuilt := 0
  let backend := c.cfgGet "backend" "direct"
  let dropfiles := c.cfgGet "dropfiles" "0" == "1"
  if backend == "sim" then v := { v with cov := addCov v.cov "sim" }
  for st in c.steps do
    let some op := parseOp st.op
      | v := { v with kOk := false, line := st.line, detail := "unparsable OP" }; break
    let (obsLine, obsToks) := match st.obs with
      | (l, t) :: _ => (l, t)
      | [] => (st.line, [])
    let (obsRes, obsResumed) := parseObs obsToks
    -- ---------- K ----------
    let (s', out) := step s op
    -- the environment of a hook-fired trigger. F-C20-1 is repaired (/repo 0647206: drop paths tolerate a poisoned
    -- mutex): the committed variant is `fixedHook`; an implementation that matches the old behaviour (`abort`) has
    -- fallen back behind the repair: K mismatch, `variant=regressed:F-C20-1`, and the oracle fails with the pattern.
    let viaHook := dropfiles && backend == "sim" && (match op with | .triggerNoop ev => ev.ty == 2 | _ => false)
    let showHook := fun (h : HookRes) => match h with | .abort => "abort" | .res r => showRes r
    let wantOld := showHook (hookOutcome faithfulHook viaHook out.res)
    let want := showHook (hookOutcome fixedHook viaHook out.res)
    if want != wantOld then
      v := { v with cov := addCov v.cov "hookpanic" }
      if obsRes == wantOld then v := { v with variant := "regressed:F-C20-1" }
    let wantResumed := sortNat out.resumed
    if v.kOk && (want != obsRes || wantResumed != obsResumed) then
      let d := s!"K want=[{want} resumed={showNatList wantResumed}] got=[{obsRes} resumed={showNatList obsResumed}]"
      v := { v with kOk := false, line := obsLine, detail := d }
    -- ---------- coverage (from the model) ----------
    match op, out.res with
    | .trigger ev, r | .triggerNoop ev, r =>
      if (s.regs.filter (fun e => e.cond ev)).length ≥ 2 then v := { v with cov := addCov v.cov "overlap" }
      if r == .suspended then v := { v with cov := addCov v.cov "suspend" }
      if r == .panicInjected then v := { v with cov := addCov v.cov "panic" }
      if r == .panicMisuse then v := { v with cov := addCov v.cov "misuse" }
      if r == .done && (firstMatch s.regs ev).isNone && s.nextB > s.regs.length then
        v := { v with cov := addCov v.cov "unmatched-after-drop" }
      if ev.ty == 2 && backend == "sim" then
        match op with
        | .triggerNoop _ => v := { v with cov := addCov v.cov "fshook" }
        | _ => pure ()
      if (s'.regs.any (fun e => e.queue.length ≥ 2)) then v := { v with cov := addCov v.cov "queue2" }
      if (s'.regs.any (fun e => e.queue.length > 64)) then v := { v with cov := addCov v.cov "backlog64" }
      if (s'.regs.any (fun e => e.queue.length > 200)) then v := { v with cov := addCov v.cov "backlog200" }
    | .dropHandle _, _ => if !out.resumed.isEmpty then v := { v with cov := addCov v.cov "resume-handle" }
    | .dropBarrier _, _ => if !out.resumed.isEmpty then v := { v with cov := addCov v.cov "resume-barrierdrop" }
    | .wait _, .got _ _ => v := { v with cov := addCov v.cov "report" }
    | _, _ => pure ()
    s := s'
    -- ---------- O ----------
    let ops := (op :: o.opsRev).reverse
    let trs := triggersOf spec0 ops
    let sp := specFinal spec0 o.opsRev.reverse     -- spec state *before* this op
    let mut oracleErr : Option String := none
    let mut oPattern : String := "none"
    match op with
    | .build _ _ =>
      if obsRes != s!"built {nBuilt}" then oracleErr := some s!"build: expected built {nBuilt}, saw {obsRes}"
      nBuilt := nBuilt + 1
      if !obsResumed.isEmpty then oracleErr := some "build resumed a trigger"
    | .trigger _ | .triggerNoop _ =>
      match trs.getLast? with
      | some t =>
        let exp := showRes (expectedOutcome t)
        if obsRes != exp then
          oracleErr := some s!"trigger {t.tid}: specification says [{exp}], implementation [{obsRes}]"
          -- the one explained way to fail: the process died where the triggering code should have panicked
          if obsRes == "abort" && patHookPanicAborts viaHook (expectedOutcome t) then oPattern := "F-C20-1"
      | none => oracleErr := some "internal: no trigger record"
      if !obsResumed.isEmpty then oracleErr := some s!"a trigger call resumed other triggers {showNatList obsResumed}"
    | .wait b =>
      let spec := specReports b spec0 ops
      let k := gotCount o b
      let liveB := sp.live.any (·.id == b)
      if !liveB then
        if obsRes != "invalid" then oracleErr := some s!"wait on a dead barrier returned {obsRes}"
      else
        match spec[k]? with
        | some (tid, ev) =>
          let exp := s!"got {tid} {ev.ty} {ev.val}"
          if obsRes != exp then
            oracleErr := some s!"wait {b}: report #{k} must be [{exp}], implementation [{obsRes}]"
          else
            o := { o with gots := o.gots ++ [(b, tid)], handles := o.handles ++ [tid] }
        | none =>
          if obsRes != "pending" then
            oracleErr := some s!"wait {b}: nothing left to report (all {k} reports delivered) but implementation [{obsRes}]"
      if !obsResumed.isEmpty then oracleErr := some s!"wait resumed triggers {showNatList obsResumed}"
    | .dropHandle t =>
      let exp := if o.handles.contains t && specSuspended trs t && !o.abandoned.contains t then [t] else []
      o := { o with handles := o.handles.filter (· != t) }
      if obsResumed != exp then
        oracleErr := some s!"drop of handle {t}: must resume {showNatList exp}, implementation resumed {showNatList obsResumed}"
    | .abandon t =>
      if obsRes != "ok" then oracleErr := some s!"abandon: implementation [{obsRes}]"
      if !obsResumed.isEmpty then oracleErr := some s!"abandoning call {t} resumed {showNatList obsResumed}"
      o := { o with abandoned := t :: o.abandoned }
      v := { v with cov := addCov v.cov "abandon" }
    | .dropBarrier b =>
      let liveB := sp.live.any (·.id == b)
      let spec := specReports b spec0 ops
      let undelivered := (spec.drop (gotCount o b)).map (·.1)
      let exp := if liveB then sortNat (undelivered.filter (fun t => specSuspended trs t && !o.abandoned.contains t)) else []
      if obsResumed != exp then
        oracleErr := some s!"drop of barrier {b}: must resume {showNatList exp}, implementation resumed {showNatList obsResumed}"
    if let some e := oracleErr then
      if v.oOk then
        let d := (if v.detail.isEmpty then "" else v.detail ++ " ; ") ++ "O " ++ e
        let ln := if v.line == 0 then obsLine else v.line
        v := { v with oOk := false, detail := d, line := ln, pattern := oPattern }
    o := { o with opsRev := op :: o.opsRev }
  return v

end TV.DriverC20
