/-
tvuringdriver <PROP> <trace-file>
One `CASE` line per case and a `SUMMARY` line (CONVENTIONS section 3).
-/
import Driver.Trace
import Driver.C20
import Driver.C18

open TV.Trace

def runProp (prop : String) (c : Case) : Option Verdict :=
  if prop == "C20" then some (TV.DriverC20.runCase c)
  else if prop == "C18" then some (TV.DriverC18.runCase c)
  else none

def main (args : List String) : IO UInt32 := do
  match args with
  | [prop, path] =>
    if prop != "C20" && prop != "C18" then
      IO.eprintln s!"unknown property {prop}"
      return 2
    let h ← IO.FS.Handle.mk path .read
    let out ← IO.getStdout
    let cases ← IO.mkRef 0
    let km ← IO.mkRef 0
    let ofl ← IO.mkRef 0
    forEachCase h fun c => do
      match runProp prop c with
      | some v =>
        out.putStrLn (v.render c.n)
        cases.modify (· + 1)
        if !v.kOk then km.modify (· + 1)
        if !v.oOk then ofl.modify (· + 1)
      | none => pure ()
    out.putStrLn s!"SUMMARY cases={← cases.get} kmismatch={← km.get} ofail={← ofl.get}"
    out.flush
    return 0
  | _ =>
    IO.eprintln "usage: tvuringdriver <C18|C20> <trace-file>"
    return 2
