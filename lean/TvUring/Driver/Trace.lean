/-
Trace reader shared by the C18 and C20 drivers (grammar: /verif/CONVENTIONS.md section 2).
-/
namespace TV.Trace

structure Rec where
  line : Nat
  tag : String          -- OP | ORA | OBS
  toks : List String    -- tokens after the tag
deriving Repr, Inhabited

structure Case where
  n : Nat
  family : String
  cfg : List (String × String)
  recs : Array Rec
deriving Repr, Inhabited

def splitWs (s : String) : List String :=
  (s.splitOn " ").filter (· ≠ "")

def kv (tok : String) : Option (String × String) :=
  match tok.splitOn "=" with
  | k :: v :: rest => some (k, String.intercalate "=" (v :: rest))
  | _ => none

def Case.cfgGet (c : Case) (k : String) (dflt : String) : String :=
  match c.cfg.find? (·.1 == k) with
  | some (_, v) => v
  | none => dflt

def Case.cfgNat (c : Case) (k : String) (dflt : Nat) : Nat :=
  ((c.cfgGet k "").toNat?).getD dflt

/-- Fold the lines of a trace into cases, calling `f` on each completed case. -/
partial def forEachCase (h : IO.FS.Handle) (f : Case → IO Unit) : IO Unit := do
  let rec loop (lineNo : Nat) (cur : Option Case) : IO Unit := do
    let l ← h.getLine
    if l.isEmpty then
      match cur with
      | some c => f c
      | none => pure ()
      return
    let l := l.trimAsciiEnd.toString
    let toks := splitWs l
    match toks with
    | [] => loop (lineNo + 1) cur
    | "CASE" :: rest =>
      if let some c := cur then f c
      let n := (rest.head?.bind String.toNat?).getD 0
      let fam := (rest.filterMap kv).find? (·.1 == "family") |>.map (·.2) |>.getD "-"
      loop (lineNo + 1) (some { n := n, family := fam, cfg := [], recs := #[] })
    | "CFG" :: rest =>
      loop (lineNo + 1) (cur.map fun c => { c with cfg := c.cfg ++ rest.filterMap kv })
    | "END" :: _ =>
      if let some c := cur then f c
      loop (lineNo + 1) none
    | tag :: rest =>
      if tag == "OP" || tag == "OBS" || tag == "ORA" then
        loop (lineNo + 1) (cur.map fun c => { c with recs := c.recs.push { line := lineNo, tag := tag, toks := rest } })
      else
        loop (lineNo + 1) cur
  loop 1 none

/-- Group the records of a case into steps: one OP, its ORA lines, its OBS lines. -/
structure Step where
  line : Nat
  op : List String
  ora : List (List String)
  obs : List (Nat × List String)
deriving Repr, Inhabited

def Case.steps (c : Case) : Array Step := Id.run do
  let mut out : Array Step := #[]
  for r in c.recs do
    if r.tag == "OP" then
      out := out.push { line := r.line, op := r.toks, ora := [], obs := [] }
    else if out.size > 0 then
      let last := out[out.size - 1]!
      if r.tag == "ORA" then
        out := out.set! (out.size - 1) { last with ora := last.ora ++ [r.toks] }
      else
        out := out.set! (out.size - 1) { last with obs := last.obs ++ [(r.line, r.toks)] }
  return out

def natList (s : String) : List Nat :=
  if s == "-" || s == "" then [] else (s.splitOn ",").filterMap String.toNat?

def showNatList (l : List Nat) : String :=
  if l.isEmpty then "-" else String.intercalate "," (l.map toString)

def insertSorted (x : Nat) : List Nat → List Nat
  | [] => [x]
  | y :: ys => if x ≤ y then x :: y :: ys else y :: insertSorted x ys

def sortNat (l : List Nat) : List Nat := l.foldr insertSorted []

structure Verdict where
  kOk : Bool := true
  oOk : Bool := true
  variant : String := "faithful"
  pattern : String := "none"
  line : Nat := 0
  cov : List String := []
  detail : String := ""

def Verdict.render (v : Verdict) (n : Nat) : String :=
  let cov := if v.cov.isEmpty then "-" else String.intercalate "," v.cov
  s!"CASE {n} K={if v.kOk then "ok" else "mismatch"} O={if v.oOk then "ok" else "fail"} variant={v.variant} pattern={v.pattern} line={v.line} cov={cov} detail={v.detail}"

def addCov (cov : List String) (t : String) : List String :=
  if cov.contains t then cov else cov ++ [t]

end TV.Trace
