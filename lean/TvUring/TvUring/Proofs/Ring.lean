/-
Helper lemmas and the ring invariant for C18.
-/
import TvUring.Model.Ring

namespace TV.Ring

/-! ### removal functions are permutations -/

theorem removeFirst_perm {p : Sched → Bool} :
    ∀ {l : List Sched} {x : Sched} {rest : List Sched}, removeFirst p l = some (x, rest) → l.Perm (x :: rest)
  | [], _, _, h => by simp [removeFirst] at h
  | a :: as, x, rest, h => by
    simp only [removeFirst] at h
    split at h
    · injection h with h; injection h with h1 h2; subst h1; subst h2; exact List.Perm.refl _
    · split at h
      · rename_i y ys heq
        injection h with h; injection h with h1 h2; subst h1; subst h2
        exact ((removeFirst_perm heq).cons a).trans (List.Perm.swap _ _ _)
      · cases h

theorem removeFirst_prop {p : Sched → Bool} :
    ∀ {l : List Sched} {x : Sched} {rest : List Sched}, removeFirst p l = some (x, rest) → p x = true
  | [], _, _, h => by simp [removeFirst] at h
  | a :: as, x, rest, h => by
    simp only [removeFirst] at h
    split at h
    · rename_i hp; injection h with h; injection h with h1 h2; subst h1; exact hp
    · split at h
      · rename_i y ys heq
        injection h with h; injection h with h1 h2; subst h1
        exact removeFirst_prop heq
      · cases h

theorem removeFirst_none {p : Sched → Bool} :
    ∀ {l : List Sched}, removeFirst p l = none → ∀ x ∈ l, p x = false
  | [], _, x, hx => by cases hx
  | a :: as, h, x, hx => by
    simp only [removeFirst] at h
    split at h
    · cases h
    · rename_i hp
      split at h
      · cases h
      · rename_i heq
        rcases List.mem_cons.mp hx with rfl | hx'
        · simpa using hp
        · exact removeFirst_none heq x hx'

theorem removeFirstB_perm {p : Sched → Bool} :
    ∀ {bs : List (List Sched)} {x : Sched} {bs' : List (List Sched)},
      removeFirstB p bs = some (x, bs') → bs.flatten.Perm (x :: bs'.flatten)
  | [], _, _, h => by simp [removeFirstB] at h
  | b :: bs, x, bs', h => by
    simp only [removeFirstB] at h
    split at h
    · rename_i y b' heq
      injection h with h; injection h with h1 h2; subst h1; subst h2
      simp only [List.flatten_cons]
      exact (List.Perm.append_right _ (removeFirst_perm heq))
    · split at h
      · rename_i y bs'' heq
        injection h with h; injection h with h1 h2; subst h1; subst h2
        simp only [List.flatten_cons]
        exact (List.Perm.append_left b (removeFirstB_perm heq)).trans List.perm_middle
      · cases h

theorem removeFirstB_prop {p : Sched → Bool} :
    ∀ {bs : List (List Sched)} {x : Sched} {bs' : List (List Sched)},
      removeFirstB p bs = some (x, bs') → p x = true
  | [], _, _, h => by simp [removeFirstB] at h
  | b :: bs, x, bs', h => by
    simp only [removeFirstB] at h
    split at h
    · rename_i y b' heq
      injection h with h; injection h with h1 h2; subst h1
      exact removeFirst_prop heq
    · split at h
      · rename_i y bs'' heq
        injection h with h; injection h with h1 h2; subst h1
        exact removeFirstB_prop heq
      · cases h

theorem takeNth_perm :
    ∀ {n : Nat} {l : List Sched} {y : Sched} {ys : List Sched}, takeNth n l = some (y, ys) → l.Perm (y :: ys)
  | _, [], _, _, h => by simp [takeNth] at h
  | 0, x :: xs, y, ys, h => by
    simp only [takeNth] at h
    injection h with h; injection h with h1 h2; subst h1; subst h2; exact List.Perm.refl _
  | n + 1, x :: xs, y, ys, h => by
    simp only [takeNth] at h
    split at h
    · rename_i z zs heq
      injection h with h; injection h with h1 h2; subst h1; subst h2
      exact ((takeNth_perm heq).cons x).trans (List.Perm.swap _ _ _)
    · cases h

theorem takeNth_some : ∀ {n : Nat} {l : List Sched}, n < l.length → ∃ y ys, takeNth n l = some (y, ys)
  | _, [], h => by simp at h
  | 0, x :: xs, _ => ⟨x, xs, rfl⟩
  | n + 1, x :: xs, h => by
    have h' : n < xs.length := by simpa using h
    obtain ⟨y, ys, hy⟩ := takeNth_some h'
    exact ⟨y, x :: ys, by simp [takeNth, hy]⟩

theorem popPick_perm :
    ∀ {bs : List (List Sched)} {pick : Nat} {x : Sched} {bs' : List (List Sched)},
      popPick bs pick = some (x, bs') → bs.flatten.Perm (x :: bs'.flatten)
  | [], _, _, _, h => by simp [popPick] at h
  | [] :: bs, pick, x, bs', h => by
    simp only [popPick] at h
    simpa using popPick_perm h
  | (a :: as) :: bs, pick, x, bs', h => by
    simp only [popPick] at h
    split at h
    · rename_i y rest heq
      injection h with h; injection h with h1 h2; subst h1; subst h2
      have hp := takeNth_perm heq
      simp only [List.flatten_cons]
      split
      · rename_i hemp
        have : rest = [] := by simpa using hemp
        subst this
        exact List.Perm.append_right _ hp
      · simp only [List.flatten_cons]
        exact List.Perm.append_right _ hp
    · cases h

theorem popPick_some_of_ne :
    ∀ {bs : List (List Sched)} (pick : Nat), bs.flatten ≠ [] → ∃ x bs', popPick bs pick = some (x, bs')
  | [], _, h => by simp at h
  | [] :: bs, pick, h => by
    simp only [popPick]
    exact popPick_some_of_ne pick (by simpa using h)
  | (a :: as) :: bs, pick, _ => by
    simp only [popPick]
    have hlt : pick % (as.length + 1) < (a :: as).length := by
      simp only [List.length_cons]; exact Nat.mod_lt _ (Nat.succ_pos _)
    obtain ⟨y, ys, hy⟩ := takeNth_some hlt
    rw [hy]
    exact ⟨_, _, rfl⟩

/-! ### tokens -/

def sidL (l : List Sched) : List Nat := l.map (·.sid)

def pool (r : RingSt) : List Sched := r.inflight ++ r.ready.flatten

/-- submission ids outside the SQ -/
def sidsNoSq (r : RingSt) : List Nat := sidL r.inflight ++ sidL r.ready.flatten ++ r.drained.map (·.sid)

def toks (r : RingSt) : List Nat := r.sq.map (·.1) ++ sidsNoSq r

theorem sidL_perm {l1 l2 : List Sched} (h : l1.Perm l2) : (sidL l1).Perm (sidL l2) := h.map _

/-- frame of `cancelStep` / `submitOne`: fields they never touch -/
structure SameFrame (r r' : RingSt) : Prop where
  depth : r'.depth = r.depth
  sq : r'.sq = r.sq
  visible : r'.visible = r.visible
  nextSid : r'.nextSid = r.nextSid
  acc : r'.acc = r.acc
  drained : r'.drained = r.drained

theorem SameFrame.refl (r : RingSt) : SameFrame r r := ⟨rfl, rfl, rfl, rfl, rfl, rfl⟩

theorem SameFrame.trans {a b c : RingSt} (h1 : SameFrame a b) (h2 : SameFrame b c) : SameFrame a c :=
  ⟨h2.depth.trans h1.depth, h2.sq.trans h1.sq, h2.visible.trans h1.visible, h2.nextSid.trans h1.nextSid,
   h2.acc.trans h1.acc, h2.drained.trans h1.drained⟩

theorem cancelStep_frame (r : RingSt) (now csid cud t : Nat) : SameFrame r (cancelStep r now csid cud t) := by
  unfold cancelStep
  split
  · exact ⟨rfl, rfl, rfl, rfl, rfl, rfl⟩
  · split <;> exact ⟨rfl, rfl, rfl, rfl, rfl, rfl⟩

theorem submitOne_frame (r : RingSt) (now sid : Nat) (e : Sqe) (lat : Nat) :
    SameFrame r (submitOne r now sid e lat) := by
  unfold submitOne
  split
  · exact ⟨rfl, rfl, rfl, rfl, rfl, rfl⟩
  · split
    · exact ⟨rfl, rfl, rfl, rfl, rfl, rfl⟩
    · exact ⟨rfl, rfl, rfl, rfl, rfl, rfl⟩
    · exact ⟨rfl, rfl, rfl, rfl, rfl, rfl⟩
    · exact cancelStep_frame _ _ _ _ _

/-- Where can an element of the pool come from after `cancelStep`? -/
theorem cancelStep_pool (r : RingSt) (now csid cud t : Nat) :
    (sidL (pool (cancelStep r now csid cud t))).Perm (csid :: sidL (pool r)) ∧
    ∀ y ∈ pool (cancelStep r now csid cud t),
      y ∈ pool r ∨
      (y.sid = csid ∧ y.ud = cud ∧ y.at_ = now ∧ y.lat = 0 ∧ y.when_ = now ∧ y.canc = false ∧ ∃ e, y.apply = .imm e) ∨
      (∃ x ∈ pool r, x.ud = t ∧ y = ⟨now, t, .imm ECANCELED, x.sid, now, 0, true⟩) := by
  unfold cancelStep
  split
  · rename_i x rest heq
    have hp := removeFirst_perm heq
    have hx := removeFirst_prop heq
    constructor
    · simp only [pool, sidL, List.map_append, List.map_cons, List.map_nil]
      have := (sidL_perm hp)
      simp only [sidL, List.map_cons] at this
      rw [List.perm_iff_count]; intro a
      have hc := this.count_eq a
      simp only [List.count_cons, List.count_append, List.count_nil] at hc ⊢
      omega
    · intro y hy
      simp only [pool, List.mem_append, List.mem_cons, List.mem_nil_iff, or_false] at hy
      rcases hy with (hy | hy | hy) | hy
      · exact Or.inl (List.mem_append_left _ (hp.mem_iff.mpr (List.mem_cons_of_mem _ hy)))
      · refine Or.inr (Or.inr ⟨x, List.mem_append_left _ (hp.mem_iff.mpr List.mem_cons_self), by simpa using hx, hy⟩)
      · subst hy; exact Or.inr (Or.inl ⟨rfl, rfl, rfl, rfl, rfl, rfl, _, rfl⟩)
      · exact Or.inl (List.mem_append_right _ hy)
  · split
    · rename_i x ready' heq
      have hp := removeFirstB_perm heq
      have hx := removeFirstB_prop heq
      constructor
      · simp only [pool, sidL, List.map_append, List.map_cons, List.map_nil]
        have := (sidL_perm hp)
        simp only [sidL, List.map_cons] at this
        rw [List.perm_iff_count]; intro a
        have hc := this.count_eq a
        simp only [List.count_cons, List.count_append, List.count_nil] at hc ⊢
        omega
      · intro y hy
        simp only [pool, List.mem_append, List.mem_cons, List.mem_nil_iff, or_false] at hy
        rcases hy with (hy | hy | hy) | hy
        · exact Or.inl (List.mem_append_left _ hy)
        · refine Or.inr (Or.inr ⟨x, List.mem_append_right _ (hp.mem_iff.mpr List.mem_cons_self), by simpa using hx, hy⟩)
        · subst hy; exact Or.inr (Or.inl ⟨rfl, rfl, rfl, rfl, rfl, rfl, _, rfl⟩)
        · exact Or.inl (List.mem_append_right _ (hp.mem_iff.mpr (List.mem_cons_of_mem _ hy)))
    · constructor
      · simp only [pool, sidL, List.map_append, List.map_cons, List.map_nil]
        rw [List.perm_iff_count]; intro a
        simp only [List.count_cons, List.count_append, List.count_nil]
        omega
      · intro y hy
        simp only [pool, List.mem_append, List.mem_cons, List.mem_nil_iff, or_false] at hy
        rcases hy with (hy | hy) | hy
        · exact Or.inl (List.mem_append_left _ hy)
        · subst hy; exact Or.inr (Or.inl ⟨rfl, rfl, rfl, rfl, rfl, rfl, _, rfl⟩)
        · exact Or.inl (List.mem_append_right _ hy)

/-- the `Apply` a well-flagged, non-cancel SQE is turned into -/
def applyOf : OpKind → Apply
  | .read fd off len => .read fd off len
  | .write fd off d => .write fd off d
  | .fsync fd => .fsync fd
  | .cancel _ => .imm 0

theorem submitOne_pool (r : RingSt) (now sid : Nat) (e : Sqe) (lat : Nat) :
    (sidL (pool (submitOne r now sid e lat))).Perm (sid :: sidL (pool r)) ∧
    ∀ y ∈ pool (submitOne r now sid e lat),
      y ∈ pool r ∨
      (y.sid = sid ∧ y.ud = e.ud ∧ y.at_ = now ∧ y.when_ = y.at_ + y.lat ∧ y.canc = false ∧
        ((∃ err, y.apply = .imm err) ∨ (e.bad = false ∧ y.lat = lat ∧ y.apply = applyOf e.op))) ∨
      (∃ x ∈ pool r, y = ⟨now, x.ud, .imm ECANCELED, x.sid, now, 0, true⟩) := by
  have simple : ∀ (z : Sched), z.sid = sid → z.ud = e.ud → z.at_ = now → z.when_ = z.at_ + z.lat → z.canc = false →
      ((∃ err, z.apply = .imm err) ∨ (e.bad = false ∧ z.lat = lat ∧ z.apply = applyOf e.op)) →
      (sidL (pool { r with inflight := r.inflight ++ [z] })).Perm (sid :: sidL (pool r)) ∧
      ∀ y ∈ pool { r with inflight := r.inflight ++ [z] },
        y ∈ pool r ∨
        (y.sid = sid ∧ y.ud = e.ud ∧ y.at_ = now ∧ y.when_ = y.at_ + y.lat ∧ y.canc = false ∧
          ((∃ err, y.apply = .imm err) ∨ (e.bad = false ∧ y.lat = lat ∧ y.apply = applyOf e.op))) ∨
        (∃ x ∈ pool r, y = ⟨now, x.ud, .imm ECANCELED, x.sid, now, 0, true⟩) := by
    intro z h1 h2 h3 h4 h5 h6
    constructor
    · simp only [pool, sidL, List.map_append, List.map_cons, List.map_nil, h1]
      rw [List.perm_iff_count]; intro a
      simp only [List.count_cons, List.count_append, List.count_nil]
      omega
    · intro y hy
      simp only [pool, List.mem_append, List.mem_cons, List.mem_nil_iff, or_false] at hy
      rcases hy with (hy | hy) | hy
      · exact Or.inl (List.mem_append_left _ hy)
      · subst hy; exact Or.inr (Or.inl ⟨h1, h2, h3, h4, h5, h6⟩)
      · exact Or.inl (List.mem_append_right _ hy)
  unfold submitOne
  split
  · exact simple _ rfl rfl rfl (by simp) rfl (Or.inl ⟨_, rfl⟩)
  · rename_i hbad
    have hbad' : e.bad = false := by simpa using hbad
    split
    · rename_i fd off len hop
      exact simple _ rfl rfl rfl rfl rfl (Or.inr ⟨hbad', rfl, by simp [hop, applyOf]⟩)
    · rename_i fd off d hop
      exact simple _ rfl rfl rfl rfl rfl (Or.inr ⟨hbad', rfl, by simp [hop, applyOf]⟩)
    · rename_i fd hop
      exact simple _ rfl rfl rfl rfl rfl (Or.inr ⟨hbad', rfl, by simp [hop, applyOf]⟩)
    · rename_i t hop
      have h := cancelStep_pool r now sid e.ud t
      refine ⟨h.1, ?_⟩
      intro y hy
      rcases h.2 y hy with h1 | ⟨h1, h2, h3, h4, h5, h6, err, h7⟩ | ⟨x, hx, hxu, hy'⟩
      · exact Or.inl h1
      · exact Or.inr (Or.inl ⟨h1, h2, h3, by rw [h5, h3, h4]; rfl, h6, Or.inl ⟨err, h7⟩⟩)
      · exact Or.inr (Or.inr ⟨x, hx, by rw [hxu]; exact hy'⟩)

/-! ### ready only shrinks under submit -/

theorem cancelStep_ready_sub (r : RingSt) (now csid cud t : Nat) :
    ∀ y ∈ (cancelStep r now csid cud t).ready.flatten, y ∈ r.ready.flatten := by
  unfold cancelStep
  split
  · intro y hy; exact hy
  · split
    · rename_i x ready' heq
      intro y hy
      exact (removeFirstB_perm heq).mem_iff.mpr (List.mem_cons_of_mem _ hy)
    · intro y hy; exact hy

theorem submitOne_ready_sub (r : RingSt) (now sid : Nat) (e : Sqe) (lat : Nat) :
    ∀ y ∈ (submitOne r now sid e lat).ready.flatten, y ∈ r.ready.flatten := by
  unfold submitOne
  split
  · intro y hy; exact hy
  · split
    · intro y hy; exact hy
    · intro y hy; exact hy
    · intro y hy; exact hy
    · exact cancelStep_ready_sub _ _ _ _ _

/-! ### per-entry ghost consistency -/

def Good (acc : List (Nat × Nat)) (x : Sched) : Prop :=
  x.when_ = x.at_ + x.lat ∧ (x.canc = true → x.apply = .imm ECANCELED) ∧ (x.sid, x.ud) ∈ acc

theorem submitOne_good (r : RingSt) (now sid : Nat) (e : Sqe) (lat : Nat)
    (hacc : (sid, e.ud) ∈ r.acc) (h : ∀ x ∈ pool r, Good r.acc x) :
    ∀ y ∈ pool (submitOne r now sid e lat), Good r.acc y := by
  intro y hy
  rcases (submitOne_pool r now sid e lat).2 y hy with h1 | ⟨h1, h2, _, h4, h5, _⟩ | ⟨x, hx, rfl⟩
  · exact h y h1
  · exact ⟨h4, by simp [h5], by rw [h1, h2]; exact hacc⟩
  · exact ⟨rfl, fun _ => rfl, (h x hx).2.2⟩

theorem submitLoop_spec (now : Nat) :
    ∀ (es : List (Nat × Sqe)) (lats : List Nat) (r : RingSt),
      (∀ e ∈ es, (e.1, e.2.ud) ∈ r.acc) → (∀ x ∈ pool r, Good r.acc x) →
      SameFrame r (submitLoop now es lats r) ∧
      (sidL (pool (submitLoop now es lats r))).Perm (es.map (·.1) ++ sidL (pool r)) ∧
      (∀ y ∈ pool (submitLoop now es lats r), Good r.acc y) ∧
      (∀ y ∈ (submitLoop now es lats r).ready.flatten, y ∈ r.ready.flatten)
  | [], _, r, _, hg => ⟨SameFrame.refl r, by simp [submitLoop], by simpa [submitLoop] using hg, by simp [submitLoop]⟩
  | (sid, e) :: es, lats, r, hes, hg => by
    have hfr := submitOne_frame r now sid e (lats.headD 0)
    have hp := (submitOne_pool r now sid e (lats.headD 0)).1
    have hgood := submitOne_good r now sid e (lats.headD 0) (hes (sid, e) List.mem_cons_self) hg
    have ih := submitLoop_spec now es lats.tail (submitOne r now sid e (lats.headD 0))
      (by intro e' he'; rw [hfr.acc]; exact hes e' (List.mem_cons_of_mem _ he'))
      (by rw [hfr.acc]; exact hgood)
    simp only [submitLoop]
    refine ⟨hfr.trans ih.1, ?_, ?_, ?_⟩
    · rw [List.perm_iff_count]; intro a
      have h1 := ih.2.1.count_eq a
      have h2 := hp.count_eq a
      simp only [List.map_cons, List.count_cons, List.count_append] at h1 h2 ⊢
      omega
    · have := ih.2.2.1; rw [hfr.acc] at this; exact this
    · intro y hy
      exact submitOne_ready_sub r now sid e (lats.headD 0) y (ih.2.2.2 y hy)

theorem submitLoop_frame (now : Nat) :
    ∀ (es : List (Nat × Sqe)) (lats : List Nat) (r : RingSt), SameFrame r (submitLoop now es lats r)
  | [], _, r => SameFrame.refl r
  | (sid, e) :: es, lats, r =>
    (submitOne_frame r now sid e (lats.headD 0)).trans (submitLoop_frame now es lats.tail _)

/-! ### the invariant -/

structure DoneOk (acc : List (Nat × Nat)) (d : Done) : Prop where
  notEarly : d.at_ + d.lat ≤ d.t
  canc : d.canc = true → d.apply = .imm ECANCELED ∧ d.res = ECANCELED
  ud : (d.sid, d.ud) ∈ acc

structure Inv (now : Nat) (r : RingSt) : Prop where
  tok : (toks r).Perm (List.range r.nextSid)
  sqBound : r.sq.length ≤ r.depth
  readyMat : ∀ x ∈ r.ready.flatten, x.when_ ≤ now
  good : ∀ x ∈ pool r, Good r.acc x
  udSq : ∀ e ∈ r.sq, (e.1, e.2.ud) ∈ r.acc
  doneOk : ∀ d ∈ r.drained, DoneOk r.acc d

theorem Inv_new (now depth : Nat) : Inv now (RingSt.new depth) :=
  ⟨by simp [toks, sidsNoSq, sidL, RingSt.new], by simp [RingSt.new], by simp [RingSt.new],
   by simp [pool, RingSt.new], by simp [RingSt.new], by simp [RingSt.new]⟩

theorem Inv.mono {now now' : Nat} {r : RingSt} (h : Inv now r) (hle : now ≤ now') : Inv now' r :=
  { h with readyMat := fun x hx => Nat.le_trans (h.readyMat x hx) hle }

theorem toks_eq (r : RingSt) : toks r = r.sq.map (·.1) ++ (sidL (pool r) ++ r.drained.map (·.sid)) := by
  simp [toks, sidsNoSq, pool, sidL, List.append_assoc]

theorem promote_spec (r : RingSt) (now : Nat) :
    SameFrame r (promote r now) ∧ (pool (promote r now)).Perm (pool r) ∧
    (∀ x ∈ (promote r now).ready.flatten, x ∈ r.ready.flatten ∨ (x ∈ r.inflight ∧ x.when_ ≤ now)) := by
  unfold promote
  split
  · exact ⟨SameFrame.refl r, List.Perm.refl _, fun x hx => Or.inl hx⟩
  · rename_i m ms heq
    refine ⟨⟨rfl, rfl, rfl, rfl, rfl, rfl⟩, ?_, ?_⟩
    · simp only [pool, List.flatten_append, List.flatten_cons, List.flatten_nil, List.append_nil]
      rw [← heq]
      have := List.filter_append_perm (fun x : Sched => decide (x.when_ ≤ now)) r.inflight
      rw [List.perm_iff_count]; intro a
      have hc := this.count_eq a
      simp only [List.count_append] at hc ⊢
      omega
    · intro x hx
      simp only [List.flatten_append, List.flatten_cons, List.flatten_nil, List.append_nil, List.mem_append] at hx
      rcases hx with hx | hx
      · exact Or.inl hx
      · rw [← heq] at hx
        have := List.mem_filter.mp hx
        exact Or.inr ⟨this.1, by simpa using this.2⟩

theorem exec_imm (fs : Files) (e : Int) : exec fs (.imm e) = (fs, e, []) := rfl

theorem Inv_ringStep {now : Nat} {fs : Files} {r : RingSt} (h : Inv now r) (op : ROp) :
    Inv now (ringStep now fs r op).1 := by
  cases op with
  | push e =>
    simp only [ringStep]
    split
    · exact h
    · rename_i hfull
      refine ⟨?_, ?_, h.readyMat, ?_, ?_, ?_⟩
      · have := h.tok
        rw [toks_eq] at this ⊢
        simp only [List.map_append, List.map_cons, List.map_nil, List.range_succ, pool]
        rw [List.perm_iff_count]; intro a
        have hc := this.count_eq a
        simp only [List.count_append, List.count_cons, List.count_nil, pool] at hc ⊢
        omega
      · simp only [List.length_append, List.length_cons, List.length_nil]; omega
      · intro x hx
        have := h.good x hx
        exact ⟨this.1, this.2.1, List.mem_append_left _ this.2.2⟩
      · intro e' he'
        simp only [List.mem_append, List.mem_singleton] at he'
        rcases he' with he' | rfl
        · exact List.mem_append_left _ (h.udSq e' he')
        · exact List.mem_append_right _ (List.mem_singleton.mpr rfl)
      · intro d hd
        have := h.doneOk d hd
        exact ⟨this.notEarly, this.canc, List.mem_append_left _ this.ud⟩
  | submit lats =>
    simp only [ringStep]
    have hs := submitLoop_spec now r.sq lats { r with sq := [] } h.udSq h.good
    obtain ⟨hfr, hperm, hgood, hsub⟩ := hs
    refine ⟨?_, ?_, ?_, ?_, ?_, ?_⟩
    · have := h.tok
      rw [toks_eq] at this ⊢
      rw [hfr.sq, hfr.drained, hfr.nextSid]
      rw [List.perm_iff_count]; intro a
      have hc := this.count_eq a
      have hp := hperm.count_eq a
      simp only [List.count_append, List.map_nil, List.count_nil, pool] at hc hp ⊢
      omega
    · rw [hfr.sq]; simp
    · intro x hx; exact h.readyMat x (hsub x hx)
    · rw [hfr.acc]; exact hgood
    · rw [hfr.sq]; simp
    · rw [hfr.drained, hfr.acc]; exact h.doneOk
  | cqnew => exact ⟨h.tok, h.sqBound, h.readyMat, h.good, h.udSq, h.doneOk⟩
  | cqsync => exact ⟨h.tok, h.sqBound, h.readyMat, h.good, h.udSq, h.doneOk⟩
  | readable => exact h
  | sqinfo => exact h
  | next pick =>
    simp only [ringStep]
    split
    · exact h
    · exact h
    · rename_i k hv
      obtain ⟨hfr, hperm, hready⟩ := promote_spec r now
      have hInv1 : Inv now (promote r now) := by
        refine ⟨?_, ?_, ?_, ?_, ?_, ?_⟩
        · have := h.tok
          rw [toks_eq] at this ⊢
          rw [hfr.sq, hfr.drained, hfr.nextSid]
          rw [List.perm_iff_count]; intro a
          have hc := this.count_eq a
          have hp := (sidL_perm hperm).count_eq a
          simp only [List.count_append] at hc ⊢
          omega
        · rw [hfr.sq, hfr.depth]; exact h.sqBound
        · intro x hx
          rcases hready x hx with h1 | ⟨_, h2⟩
          · exact h.readyMat x h1
          · exact h2
        · intro x hx; rw [hfr.acc]; exact h.good x (hperm.mem_iff.mp hx)
        · rw [hfr.sq, hfr.acc]; exact h.udSq
        · rw [hfr.drained, hfr.acc]; exact h.doneOk
      split
      · exact hInv1
      · rename_i x ready' hpop
        have hpp := popPick_perm hpop
        have hxmem : x ∈ (promote r now).ready.flatten := hpp.mem_iff.mpr List.mem_cons_self
        have hxpool : x ∈ pool (promote r now) := List.mem_append_right _ hxmem
        have hxgood := hInv1.good x hxpool
        refine ⟨?_, hInv1.sqBound, ?_, ?_, hInv1.udSq, ?_⟩
        · have := hInv1.tok
          rw [toks_eq] at this ⊢
          simp only [pool, List.map_append, List.map_cons, List.map_nil]
          rw [List.perm_iff_count]; intro a
          have hc := this.count_eq a
          have hp := (sidL_perm hpp).count_eq a
          simp only [List.count_append, List.count_cons, List.count_nil, pool, sidL, List.map_append, List.map_cons] at hc hp ⊢
          omega
        · intro y hy
          exact hInv1.readyMat y (hpp.mem_iff.mpr (List.mem_cons_of_mem _ hy))
        · intro y hy
          simp only [pool, List.mem_append] at hy
          rcases hy with hy | hy
          · exact hInv1.good y (List.mem_append_left _ hy)
          · exact hInv1.good y (List.mem_append_right _ (hpp.mem_iff.mpr (List.mem_cons_of_mem _ hy)))
        · intro d hd
          simp only [List.mem_append, List.mem_singleton] at hd
          rcases hd with hd | rfl
          · exact hInv1.doneOk d hd
          · refine ⟨?_, ?_, hxgood.2.2⟩
            · show x.at_ + x.lat ≤ now
              rw [← hxgood.1]; exact hInv1.readyMat x hxmem
            · intro hc
              have := hxgood.2.1 hc
              refine ⟨this, ?_⟩
              show (exec fs x.apply).2.1 = ECANCELED
              rw [this]; rfl

/-! ### predicates on the pool carried through `submit` -/

/-- A predicate on scheduled entries survives a whole `submit` if it holds for every freshly scheduled entry
    (whose id is one of the SQ's) and is inherited by the `-ECANCELED` replacement of an entry that had it. -/
theorem submitLoop_pool_pred (now : Nat) (P : Sched → Prop) :
    ∀ (es : List (Nat × Sqe)) (lats : List Nat) (r : RingSt),
      (∀ x ∈ pool r, P x) →
      (∀ y : Sched, y.sid ∈ es.map (·.1) → y.canc = false → P y) →
      (∀ x : Sched, P x → P ⟨now, x.ud, .imm ECANCELED, x.sid, now, 0, true⟩) →
      ∀ y ∈ pool (submitLoop now es lats r), P y
  | [], _, r, h0, _, _ => by simpa [submitLoop] using h0
  | (sid, e) :: es, lats, r, h0, hnew, hrep => by
    simp only [submitLoop]
    apply submitLoop_pool_pred now P es lats.tail (submitOne r now sid e (lats.headD 0))
    · intro y hy
      rcases (submitOne_pool r now sid e (lats.headD 0)).2 y hy with h1 | ⟨h1, _, _, _, h5, _⟩ | ⟨x, hx, rfl⟩
      · exact h0 y h1
      · exact hnew y (by rw [h1]; simp) h5
      · exact hrep x (h0 x hx)
    · intro y hy hc
      exact hnew y (by simp only [List.map_cons, List.mem_cons]; exact Or.inr hy) hc
    · exact hrep

/-! ### the successful `next`, named -/

def doneOf (x : Sched) (res : Int) (now : Nat) : Done := ⟨x.sid, x.ud, res, now, x.at_, x.lat, x.canc, x.apply⟩

def afterPop (r1 : RingSt) (ready' : List (List Sched)) (k : Nat) (d : Done) : RingSt :=
  { r1 with ready := ready', visible := some k, drained := r1.drained ++ [d] }

theorem ringStep_next_some {now : Nat} {fs : Files} {r : RingSt} {pick k : Nat} {x : Sched}
    {ready' : List (List Sched)} (hv : r.visible = some (k + 1))
    (hpop : popPick (promote r now).ready pick = some (x, ready')) :
    ringStep now fs r (.next pick) =
      (afterPop (promote r now) ready' k (doneOf x (exec fs x.apply).2.1 now), (exec fs x.apply).1,
        .cqe x.ud (exec fs x.apply).2.1 (exec fs x.apply).2.2) := by
  simp [ringStep, hv, hpop, afterPop, doneOf]

end TV.Ring
