/-
Helper lemmas for C20: registry list operations, the projection to the specification's live list,
reachability invariants.
-/
import TvUring.Model.Barrier
import TvUring.Model.BarrierSpec

namespace TV.Barrier

/-! ### registry operations -/

def proj (e : Entry) : Live := ⟨e.id, e.cond, e.reaction⟩

def ids (regs : List Entry) : List Nat := regs.map (·.id)

theorem isLive_iff {b : Nat} {regs : List Entry} : isLive b regs = true ↔ b ∈ ids regs := by
  simp only [isLive, ids, List.any_eq_true, List.mem_map, beq_iff_eq]

theorem isLive_false_iff {b : Nat} {regs : List Entry} : isLive b regs = false ↔ b ∉ ids regs := by
  rw [← isLive_iff]; simp

theorem ids_enqueue (b : Nat) (r : Report) (regs : List Entry) : ids (enqueue b r regs) = ids regs := by
  induction regs with
  | nil => rfl
  | cons e es ih =>
    simp only [ids, enqueue, List.map_cons] at ih ⊢
    rw [ih]; split <;> rfl

theorem ids_popFront (b : Nat) (regs : List Entry) : ids (popFront b regs) = ids regs := by
  induction regs with
  | nil => rfl
  | cons e es ih =>
    simp only [ids, popFront, List.map_cons] at ih ⊢
    rw [ih]; split <;> rfl

theorem proj_enqueue (b : Nat) (r : Report) (regs : List Entry) :
    (enqueue b r regs).map proj = regs.map proj := by
  induction regs with
  | nil => rfl
  | cons e es ih =>
    simp only [enqueue, List.map_cons] at ih ⊢
    rw [ih]; split <;> rfl

theorem proj_popFront (b : Nat) (regs : List Entry) : (popFront b regs).map proj = regs.map proj := by
  induction regs with
  | nil => rfl
  | cons e es ih =>
    simp only [popFront, List.map_cons] at ih ⊢
    rw [ih]; split <;> rfl

theorem proj_removeId (b : Nat) (regs : List Entry) :
    (removeId b regs).map proj = (regs.map proj).filter (fun l => l.id != b) := by
  induction regs with
  | nil => rfl
  | cons e es ih =>
    simp only [removeId, List.filter_cons, List.map_cons] at ih ⊢
    have : (proj e).id = e.id := rfl
    rw [this]
    split <;> simp [ih]

theorem ids_removeId (b : Nat) (regs : List Entry) : ids (removeId b regs) = (ids regs).filter (· != b) := by
  induction regs with
  | nil => rfl
  | cons e es ih =>
    simp only [ids, removeId, List.filter_cons, List.map_cons] at ih ⊢
    split <;> simp [ih]

theorem isLive_enqueue (b b' : Nat) (r : Report) (regs : List Entry) :
    isLive b (enqueue b' r regs) = isLive b regs := by
  rw [Bool.eq_iff_iff, isLive_iff, isLive_iff, ids_enqueue]

theorem isLive_popFront (b b' : Nat) (regs : List Entry) :
    isLive b (popFront b' regs) = isLive b regs := by
  rw [Bool.eq_iff_iff, isLive_iff, isLive_iff, ids_popFront]

theorem isLive_removeId_self (b : Nat) (regs : List Entry) : isLive b (removeId b regs) = false := by
  rw [isLive_false_iff, ids_removeId]; simp

theorem isLive_removeId_ne {b b' : Nat} (h : b ≠ b') (regs : List Entry) :
    isLive b (removeId b' regs) = isLive b regs := by
  rw [Bool.eq_iff_iff, isLive_iff, isLive_iff, ids_removeId]; simp [h]

theorem queueOf_not_live {b : Nat} {regs : List Entry} (h : isLive b regs = false) : queueOf b regs = [] := by
  induction regs with
  | nil => rfl
  | cons e es ih =>
    simp only [isLive, List.any_cons, Bool.or_eq_false_iff, beq_eq_false_iff_ne] at h
    simp only [queueOf]
    rw [if_neg (by exact h.1)]
    exact ih (by simpa [isLive] using h.2)

theorem live_of_queueOf_ne_nil {b : Nat} {regs : List Entry} (h : queueOf b regs ≠ []) : isLive b regs = true := by
  cases hl : isLive b regs with
  | true => rfl
  | false => exact absurd (queueOf_not_live hl) h

theorem queueOf_enqueue_ne {b b' : Nat} (h : b ≠ b') (r : Report) (regs : List Entry) :
    queueOf b (enqueue b' r regs) = queueOf b regs := by
  induction regs with
  | nil => rfl
  | cons e es ih =>
    simp only [enqueue, List.map_cons, queueOf] at ih ⊢
    by_cases h1 : e.id = b'
    · have : e.id ≠ b := by rw [h1]; exact fun x => h x.symm
      simp [h1, ih, Ne.symm h]
    · simp only [if_neg h1]
      by_cases h2 : e.id = b
      · simp [h2]
      · simp [h2, ih]

theorem queueOf_enqueue_self {b : Nat} (r : Report) {regs : List Entry} (h : isLive b regs = true) :
    queueOf b (enqueue b r regs) = queueOf b regs ++ [r] := by
  induction regs with
  | nil => simp [isLive] at h
  | cons e es ih =>
    simp only [enqueue, List.map_cons, queueOf] at ih ⊢
    by_cases h1 : e.id = b
    · simp [h1]
    · simp only [if_neg h1]
      apply ih
      simpa [isLive, h1] using h

theorem queueOf_popFront_ne {b b' : Nat} (h : b ≠ b') (regs : List Entry) :
    queueOf b (popFront b' regs) = queueOf b regs := by
  induction regs with
  | nil => rfl
  | cons e es ih =>
    simp only [popFront, List.map_cons, queueOf] at ih ⊢
    by_cases h1 : e.id = b'
    · have : e.id ≠ b := by rw [h1]; exact fun x => h x.symm
      simp [h1, ih, Ne.symm h]
    · simp only [if_neg h1]
      by_cases h2 : e.id = b
      · simp [h2]
      · simp [h2, ih]

theorem queueOf_popFront_self (b : Nat) (regs : List Entry) :
    queueOf b (popFront b regs) = (queueOf b regs).tail := by
  induction regs with
  | nil => rfl
  | cons e es ih =>
    simp only [popFront, List.map_cons, queueOf] at ih ⊢
    by_cases h1 : e.id = b
    · simp [h1]
    · simp [h1, ih]

theorem queueOf_removeId_ne {b b' : Nat} (h : b ≠ b') (regs : List Entry) :
    queueOf b (removeId b' regs) = queueOf b regs := by
  induction regs with
  | nil => rfl
  | cons e es ih =>
    simp only [removeId, List.filter_cons] at ih ⊢
    by_cases h1 : e.id = b'
    · simp [h1, queueOf, ih, Ne.symm h]
    · simp only [bne_iff_ne, ne_eq, h1, not_false_eq_true, if_true, queueOf]
      by_cases h2 : e.id = b
      · simp [h2]
      · simp [h2, ih]

theorem queueOf_append_fresh (b n : Nat) (c : Event → Bool) (r : Reaction) (regs : List Entry) :
    queueOf b (regs ++ [⟨n, c, r, []⟩]) = queueOf b regs := by
  induction regs with
  | nil => simp [queueOf]
  | cons e es ih =>
    simp only [List.cons_append, queueOf]
    split
    · rfl
    · exact ih

theorem isLive_append (b : Nat) (regs : List Entry) (e : Entry) :
    isLive b (regs ++ [e]) = (isLive b regs || e.id == b) := by
  simp [isLive, List.any_append]

/-! ### first match -/

theorem firstMatch_mem {regs : List Entry} {ev : Event} {e : Entry} (h : firstMatch regs ev = some e) :
    e ∈ regs := List.mem_of_find?_eq_some h

theorem firstMatch_cond {regs : List Entry} {ev : Event} {e : Entry} (h : firstMatch regs ev = some e) :
    e.cond ev = true := by
  have := List.find?_some h
  simpa using this

theorem firstMatch_live {regs : List Entry} {ev : Event} {e : Entry} (h : firstMatch regs ev = some e) :
    isLive e.id regs = true := by
  rw [isLive_iff]; exact List.mem_map.mpr ⟨e, firstMatch_mem h, rfl⟩

theorem firstMatch_proj (regs : List Entry) (ev : Event) :
    (regs.map proj).find? (fun l => l.cond ev) = (firstMatch regs ev).map proj := by
  induction regs with
  | nil => rfl
  | cons e es ih =>
    simp only [List.map_cons, List.find?_cons, firstMatch] at ih ⊢
    have : (proj e).cond ev = e.cond ev := rfl
    rw [this]
    cases e.cond ev with
    | true => rfl
    | false => exact ih

/-! ### step equations -/

theorem stepTrigger_none {s : State} {ev : Event} (h : firstMatch s.regs ev = none) :
    stepTrigger s ev = ({ s with nextT := s.nextT + 1 }, ⟨.done, []⟩) := by
  simp [stepTrigger, h]

theorem stepTrigger_noop {s : State} {ev : Event} {e : Entry} (h : firstMatch s.regs ev = some e)
    (hr : e.reaction = .noop) :
    stepTrigger s ev =
      ({ s with nextT := s.nextT + 1, regs := enqueue e.id ⟨s.nextT, ev, false⟩ s.regs }, ⟨.done, []⟩) := by
  simp [stepTrigger, h, hr]

theorem stepTrigger_suspend {s : State} {ev : Event} {e : Entry} (h : firstMatch s.regs ev = some e)
    (hr : e.reaction = .suspend) :
    stepTrigger s ev =
      ({ s with nextT := s.nextT + 1, regs := enqueue e.id ⟨s.nextT, ev, true⟩ s.regs,
                suspended := s.suspended ++ [s.nextT] }, ⟨.suspended, []⟩) := by
  simp [stepTrigger, h, hr]

theorem stepTrigger_panic {s : State} {ev : Event} {e : Entry} (h : firstMatch s.regs ev = some e)
    (hr : e.reaction = .panic) :
    stepTrigger s ev = ({ s with nextT := s.nextT + 1 }, ⟨.panicInjected, []⟩) := by
  simp [stepTrigger, h, hr]

theorem stepTriggerNoop_none {s : State} {ev : Event} (h : firstMatch s.regs ev = none) :
    stepTriggerNoop s ev = ({ s with nextT := s.nextT + 1 }, ⟨.done, []⟩) := by
  simp [stepTriggerNoop, h]

theorem stepTriggerNoop_noop {s : State} {ev : Event} {e : Entry} (h : firstMatch s.regs ev = some e)
    (hr : e.reaction = .noop) :
    stepTriggerNoop s ev =
      ({ s with nextT := s.nextT + 1, regs := enqueue e.id ⟨s.nextT, ev, false⟩ s.regs }, ⟨.done, []⟩) := by
  simp [stepTriggerNoop, h, hr]

theorem stepTriggerNoop_suspend {s : State} {ev : Event} {e : Entry} (h : firstMatch s.regs ev = some e)
    (hr : e.reaction = .suspend) :
    stepTriggerNoop s ev = ({ s with nextT := s.nextT + 1 }, ⟨.panicMisuse, []⟩) := by
  simp [stepTriggerNoop, h, hr]

theorem stepTriggerNoop_panic {s : State} {ev : Event} {e : Entry} (h : firstMatch s.regs ev = some e)
    (hr : e.reaction = .panic) :
    stepTriggerNoop s ev = ({ s with nextT := s.nextT + 1 }, ⟨.panicInjected, []⟩) := by
  simp [stepTriggerNoop, h, hr]

theorem step_wait_nil {s : State} {b : Nat} (h : queueOf b s.regs = []) :
    step s (.wait b) = (s, ⟨if isLive b s.regs then .pending else .invalid, []⟩) := by
  simp [step, h]

theorem step_wait_cons {s : State} {b : Nat} {r : Report} {q : List Report} (h : queueOf b s.regs = r :: q) :
    step s (.wait b) =
      ({ s with regs := popFront b s.regs, handles := s.handles ++ [r] }, ⟨.got r.tid r.ev, []⟩) := by
  simp [step, h]

theorem step_dropBarrier_live {s : State} {b : Nat} (h : isLive b s.regs = true) :
    step s (.dropBarrier b) =
      ({ s with regs := removeId b s.regs,
                lost := fun x => if x = b then queueOf b s.regs else s.lost x,
                suspended := without s.suspended (heldTids (queueOf b s.regs)) },
        ⟨.ok, stillParked s.suspended (heldTids (queueOf b s.regs))⟩) := by
  simp [step, h]

theorem step_dropBarrier_dead {s : State} {b : Nat} (h : isLive b s.regs = false) :
    step s (.dropBarrier b) = (s, ⟨.invalid, []⟩) := by
  simp [step, h]

/-! ### refinement relation between the model and the specification's live list -/

structure R (s : State) (sp : SpecSt) : Prop where
  live : s.regs.map proj = sp.live
  nb : s.nextB = sp.nextB
  nt : s.nextT = sp.nextT

theorem R_init : R init spec0 := ⟨rfl, rfl, rfl⟩

theorem R_step {s : State} {sp : SpecSt} (h : R s sp) (op : Op) : R (step s op).1 (specStep sp op) := by
  obtain ⟨hl, hb, ht⟩ := h
  cases op with
  | build r c =>
    refine ⟨?_, ?_, ?_⟩
    · simp [step, specStep, hl, proj, hb]
    · simp [step, specStep, hb]
    · simp [step, specStep, ht]
  | trigger ev =>
    simp only [step, stepTrigger, specStep]
    split
    · exact ⟨hl, hb, by simp [ht]⟩
    · split
      · exact ⟨by simp [proj_enqueue, hl], hb, by simp [ht]⟩
      · exact ⟨by simp [proj_enqueue, hl], hb, by simp [ht]⟩
      · exact ⟨hl, hb, by simp [ht]⟩
  | triggerNoop ev =>
    simp only [step, stepTriggerNoop, specStep]
    split
    · exact ⟨hl, hb, by simp [ht]⟩
    · split
      · exact ⟨by simp [proj_enqueue, hl], hb, by simp [ht]⟩
      · exact ⟨hl, hb, by simp [ht]⟩
      · exact ⟨hl, hb, by simp [ht]⟩
  | wait b =>
    simp only [step, specStep]
    split
    · exact ⟨hl, hb, ht⟩
    · exact ⟨by simp [proj_popFront, hl], hb, ht⟩
  | dropHandle t => exact ⟨hl, hb, ht⟩
  | abandon t => exact ⟨hl, hb, ht⟩
  | dropBarrier b =>
    simp only [step, specStep]
    split
    · exact ⟨by simp [proj_removeId, hl], hb, ht⟩
    · refine ⟨?_, hb, ht⟩
      rename_i hnl
      have hnl' : isLive b s.regs = false := by simpa using hnl
      rw [isLive_false_iff] at hnl'
      show s.regs.map proj = sp.live.filter (fun l => l.id != b)
      rw [← hl]
      symm
      rw [List.filter_eq_self]
      intro l hlm
      obtain ⟨e, he, rfl⟩ := List.mem_map.mp hlm
      have : e.id ≠ b := fun h => hnl' (h ▸ List.mem_map.mpr ⟨e, he, rfl⟩)
      simpa [proj] using this

/-! ### well-formedness: ids are fresh and increasing -/

structure WF (s : State) : Prop where
  idsLt : ∀ e ∈ s.regs, e.id < s.nextB
  sorted : (ids s.regs).Pairwise (· < ·)
  lostFresh : ∀ b, s.nextB ≤ b → s.lost b = []
  lostLive : ∀ b, isLive b s.regs = true → s.lost b = []

theorem WF_init : WF init :=
  ⟨by simp [init], by simp [init, ids], by simp [init], by simp [init]⟩

theorem mem_enqueue {b : Nat} {r : Report} {regs : List Entry} {e : Entry} (h : e ∈ enqueue b r regs) :
    e.id ∈ ids regs := by
  have : e.id ∈ ids (enqueue b r regs) := List.mem_map.mpr ⟨e, h, rfl⟩
  rwa [ids_enqueue] at this

theorem mem_popFront {b : Nat} {regs : List Entry} {e : Entry} (h : e ∈ popFront b regs) :
    e.id ∈ ids regs := by
  have : e.id ∈ ids (popFront b regs) := List.mem_map.mpr ⟨e, h, rfl⟩
  rwa [ids_popFront] at this

theorem idsLt_of_ids {s : State} (h : ∀ e ∈ s.regs, e.id < s.nextB) : ∀ i ∈ ids s.regs, i < s.nextB := by
  intro i hi
  obtain ⟨e, he, rfl⟩ := List.mem_map.mp hi
  exact h e he

theorem WF_step {s : State} (h : WF s) (op : Op) : WF (step s op).1 := by
  obtain ⟨h1, h2, h3, h4⟩ := h
  have h1' := idsLt_of_ids h1
  cases op with
  | build r c =>
    refine ⟨?_, ?_, ?_, ?_⟩
    · intro e he
      simp only [step, List.mem_append, List.mem_singleton] at he ⊢
      rcases he with he | rfl
      · exact Nat.lt_succ_of_lt (h1 e he)
      · exact Nat.lt_succ_self _
    · simp only [step, ids, List.map_append, List.map_cons, List.map_nil]
      rw [List.pairwise_append]
      refine ⟨h2, by simp, ?_⟩
      intro a ha b hb
      simp only [List.mem_singleton] at hb
      subst hb
      exact h1' a ha
    · intro b hb
      simp only [step] at hb ⊢
      exact h3 b (by omega)
    · intro b hb
      simp only [step, isLive_append, Bool.or_eq_true, beq_iff_eq] at hb ⊢
      rcases hb with hb | hb
      · exact h4 b hb
      · exact h3 b (by omega)
  | trigger ev =>
    simp only [step, stepTrigger]
    split
    · exact ⟨h1, h2, h3, h4⟩
    · split
      · refine ⟨fun e he => h1' _ (mem_enqueue he), by simpa [ids_enqueue] using h2, h3, ?_⟩
        intro b hb; simp only [isLive_enqueue] at hb; exact h4 b hb
      · refine ⟨fun e he => h1' _ (mem_enqueue he), by simpa [ids_enqueue] using h2, h3, ?_⟩
        intro b hb; simp only [isLive_enqueue] at hb; exact h4 b hb
      · exact ⟨h1, h2, h3, h4⟩
  | triggerNoop ev =>
    simp only [step, stepTriggerNoop]
    split
    · exact ⟨h1, h2, h3, h4⟩
    · split
      · refine ⟨fun e he => h1' _ (mem_enqueue he), by simpa [ids_enqueue] using h2, h3, ?_⟩
        intro b hb; simp only [isLive_enqueue] at hb; exact h4 b hb
      · exact ⟨h1, h2, h3, h4⟩
      · exact ⟨h1, h2, h3, h4⟩
  | wait b =>
    simp only [step]
    split
    · exact ⟨h1, h2, h3, h4⟩
    · refine ⟨fun e he => h1' _ (mem_popFront he), by simpa [ids_popFront] using h2, h3, ?_⟩
      intro b' hb; simp only [isLive_popFront] at hb; exact h4 b' hb
  | dropHandle t => exact ⟨h1, h2, h3, h4⟩
  | abandon t => exact ⟨h1, h2, h3, h4⟩
  | dropBarrier b =>
    simp only [step]
    split
    · rename_i hl
      refine ⟨?_, ?_, ?_, ?_⟩
      · intro e he
        exact h1 e (List.mem_filter.mp he).1
      · simp only [ids_removeId]
        exact List.Pairwise.sublist List.filter_sublist h2
      · intro b' hb'
        have hlt : b < s.nextB := h1' b (isLive_iff.mp hl)
        have hb'' : s.nextB ≤ b' := hb'
        have : b' ≠ b := by omega
        simp only [this, if_false]
        exact h3 b' hb'
      · intro b' hb'
        by_cases hbb : b' = b
        · subst hbb; simp [isLive_removeId_self] at hb'
        · simp only [hbb, if_false]
          rw [isLive_removeId_ne hbb] at hb'
          exact h4 b' hb'
    · exact ⟨h1, h2, h3, h4⟩

/-- States reachable from `init`. -/
inductive Reachable : State → Prop
  | init : Reachable init
  | step {s : State} (op : Op) : Reachable s → Reachable (step s op).1

theorem reachable_final (ops : List Op) {s : State} (h : Reachable s) : Reachable (final s ops) := by
  induction ops generalizing s with
  | nil => exact h
  | cons op ops ih => exact ih (Reachable.step op h)

theorem Reachable.wf {s : State} (h : Reachable s) : WF s := by
  induction h with
  | init => exact WF_init
  | step op _ ih => exact WF_step ih op

end TV.Barrier
