/-
The suspension invariant for C20: a trigger call is parked iff exactly one live object (a queued report
or a `Triggered` handle) holds its release sender. Needs uniqueness of trigger ids over all reports,
which in turn needs uniqueness of barrier ids in the registry.
-/
import TvUring.Proofs.Barrier

namespace TV.Barrier

def allQ (regs : List Entry) : List Report := regs.flatMap (·.queue)

theorem allQ_cons (e : Entry) (es : List Entry) : allQ (e :: es) = e.queue ++ allQ es := by
  simp [allQ]

theorem allQ_nil : allQ [] = [] := rfl

theorem enqueue_cons (b : Nat) (r : Report) (e : Entry) (es : List Entry) :
    enqueue b r (e :: es)
      = (if e.id = b then { e with queue := e.queue ++ [r] } else e) :: enqueue b r es := rfl

theorem popFront_cons (b : Nat) (e : Entry) (es : List Entry) :
    popFront b (e :: es) = (if e.id = b then { e with queue := e.queue.tail } else e) :: popFront b es := rfl

theorem enqueue_not_mem {b : Nat} {r : Report} : ∀ {regs : List Entry}, b ∉ ids regs → enqueue b r regs = regs
  | [], _ => rfl
  | e :: es, h => by
    simp only [ids, List.map_cons, List.mem_cons, not_or] at h
    have ih := enqueue_not_mem (b := b) (r := r) (regs := es) h.2
    rw [enqueue_cons, ih, if_neg (fun x => h.1 x.symm)]

theorem popFront_not_mem {b : Nat} : ∀ {regs : List Entry}, b ∉ ids regs → popFront b regs = regs
  | [], _ => rfl
  | e :: es, h => by
    simp only [ids, List.map_cons, List.mem_cons, not_or] at h
    have ih := popFront_not_mem (b := b) (regs := es) h.2
    rw [popFront_cons, ih, if_neg (fun x => h.1 x.symm)]

theorem removeId_not_mem {b : Nat} : ∀ {regs : List Entry}, b ∉ ids regs → removeId b regs = regs
  | [], _ => rfl
  | e :: es, h => by
    simp only [ids, List.map_cons, List.mem_cons, not_or] at h
    have ih := removeId_not_mem (b := b) (regs := es) h.2
    have hne : e.id ≠ b := fun x => h.1 x.symm
    simp only [removeId, List.filter_cons] at ih ⊢
    simp [hne, ih]

theorem allQ_enqueue {b : Nat} {r : Report} :
    ∀ (regs : List Entry), (ids regs).Nodup → b ∈ ids regs → (allQ (enqueue b r regs)).Perm (r :: allQ regs)
  | [], _, h => by simp [ids] at h
  | e :: es, hn, hm => by
    simp only [ids, List.map_cons, List.nodup_cons] at hn
    by_cases he : e.id = b
    · have hnot : b ∉ ids es := he ▸ hn.1
      rw [enqueue_cons, if_pos he, enqueue_not_mem hnot, allQ_cons, allQ_cons]
      simp only [List.append_assoc, List.singleton_append]
      exact List.perm_middle
    · have hm' : b ∈ ids es := by
        simp only [ids, List.map_cons, List.mem_cons] at hm
        rcases hm with h | h
        · exact absurd h.symm he
        · exact h
      have ih := allQ_enqueue (b := b) (r := r) es hn.2 hm'
      rw [enqueue_cons, if_neg he, allQ_cons, allQ_cons]
      exact (List.Perm.append_left e.queue ih).trans List.perm_middle

theorem allQ_popFront {b : Nat} {r : Report} {q : List Report} :
    ∀ (regs : List Entry), (ids regs).Nodup → queueOf b regs = r :: q →
      (r :: allQ (popFront b regs)).Perm (allQ regs)
  | [], _, h => by simp [queueOf] at h
  | e :: es, hn, hq => by
    simp only [ids, List.map_cons, List.nodup_cons] at hn
    by_cases he : e.id = b
    · have hnot : b ∉ ids es := he ▸ hn.1
      simp only [queueOf, if_pos he] at hq
      rw [popFront_cons, if_pos he, popFront_not_mem hnot, allQ_cons, allQ_cons]
      simp [hq]
    · simp only [queueOf, if_neg he] at hq
      have ih := allQ_popFront (b := b) (r := r) (q := q) es hn.2 hq
      rw [popFront_cons, if_neg he, allQ_cons, allQ_cons]
      exact (List.perm_middle.symm).trans (List.Perm.append_left e.queue ih)

theorem allQ_removeId {b : Nat} :
    ∀ (regs : List Entry), (ids regs).Nodup → (queueOf b regs ++ allQ (removeId b regs)).Perm (allQ regs)
  | [], _ => by simp [queueOf, removeId, allQ]
  | e :: es, hn => by
    simp only [ids, List.map_cons, List.nodup_cons] at hn
    by_cases he : e.id = b
    · have hnot : b ∉ ids es := he ▸ hn.1
      have h1 : removeId b (e :: es) = es := by
        have := removeId_not_mem hnot
        simp only [removeId, List.filter_cons] at this ⊢
        simp [he, this]
      rw [h1, allQ_cons]
      simp [queueOf, he]
    · have ih := allQ_removeId (b := b) es hn.2
      have h1 : removeId b (e :: es) = e :: removeId b es := by
        simp [removeId, he]
      rw [h1, allQ_cons, allQ_cons]
      simp only [queueOf, if_neg he]
      -- queueOf b es ++ (e.queue ++ allQ (removeId b es)) ~ e.queue ++ allQ es
      have : (queueOf b es ++ (e.queue ++ allQ (removeId b es))).Perm
          (e.queue ++ (queueOf b es ++ allQ (removeId b es))) := by
        rw [← List.append_assoc, ← List.append_assoc]
        exact List.Perm.append_right _ List.perm_append_comm
      exact this.trans (List.Perm.append_left e.queue ih)

theorem allQ_append_fresh (n : Nat) (c : Event → Bool) (r : Reaction) (regs : List Entry) :
    allQ (regs ++ [⟨n, c, r, []⟩]) = allQ regs := by
  simp [allQ, List.flatMap_append]

/-! ### held trigger ids -/

theorem mem_heldTids {t : Nat} {l : List Report} : t ∈ heldTids l ↔ ∃ r ∈ l, r.holds = true ∧ r.tid = t := by
  simp only [heldTids, List.mem_map, List.mem_filter]
  constructor
  · rintro ⟨r, ⟨h1, h2⟩, h3⟩; exact ⟨r, h1, h2, h3⟩
  · rintro ⟨r, h1, h2, h3⟩; exact ⟨r, ⟨h1, h2⟩, h3⟩

theorem heldTids_append (l1 l2 : List Report) : heldTids (l1 ++ l2) = heldTids l1 ++ heldTids l2 := by
  simp [heldTids]

theorem heldTids_perm {l1 l2 : List Report} (h : l1.Perm l2) : (heldTids l1).Perm (heldTids l2) :=
  (h.filter _).map _

theorem mem_without {x : Nat} {xs rel : List Nat} : x ∈ without xs rel ↔ x ∈ xs ∧ x ∉ rel := by
  simp [without, List.mem_filter]

def tidsOf (l : List Report) : List Nat := l.map (·.tid)

theorem cross_ne {l1 l2 : List Report} (h : (tidsOf (l1 ++ l2)).Nodup) {r1 r2 : Report}
    (h1 : r1 ∈ l1) (h2 : r2 ∈ l2) : r1.tid ≠ r2.tid := by
  simp only [tidsOf, List.map_append] at h
  exact (List.nodup_append.mp h).2.2 _ (List.mem_map.mpr ⟨r1, h1, rfl⟩) _ (List.mem_map.mpr ⟨r2, h2, rfl⟩)

theorem heldTids_filter_tid {t : Nat} :
    ∀ (l : List Report), (tidsOf l).Nodup →
      heldTids (l.filter (fun r => r.tid == t)) = if t ∈ heldTids l then [t] else []
  | [], _ => by simp [heldTids]
  | r :: rs, hn => by
    simp only [tidsOf, List.map_cons, List.nodup_cons] at hn
    have ih := heldTids_filter_tid (t := t) rs hn.2
    by_cases hr : r.tid = t
    · -- no other report in rs has tid t
      have hnone : rs.filter (fun r => r.tid == t) = [] := by
        rw [List.filter_eq_nil_iff]
        intro x hx hxt
        have hxt' : x.tid = t := by simpa using hxt
        exact hn.1 (List.mem_map.mpr ⟨x, hx, hxt'.trans hr.symm⟩)
      have hnot : t ∉ heldTids rs := by
        intro hmem
        obtain ⟨x, hx, _, hxt⟩ := mem_heldTids.mp hmem
        exact hn.1 (List.mem_map.mpr ⟨x, hx, by rw [hxt, hr]⟩)
      simp only [List.filter_cons, hr, beq_self_eq_true, if_true, hnone]
      cases hh : r.holds with
      | true =>
        have : t ∈ heldTids (r :: rs) := mem_heldTids.mpr ⟨r, List.mem_cons_self, hh, hr⟩
        rw [if_pos this]
        simp [heldTids, hh, hr]
      | false =>
        have : t ∉ heldTids (r :: rs) := by
          intro hmem
          obtain ⟨x, hx, hxh, hxt⟩ := mem_heldTids.mp hmem
          rcases List.mem_cons.mp hx with rfl | hx'
          · rw [hh] at hxh; cases hxh
          · exact hnot (mem_heldTids.mpr ⟨x, hx', hxh, hxt⟩)
        rw [if_neg this]
        simp [heldTids, hh]
    · have hbeq : (r.tid == t) = false := by simpa using hr
      simp only [List.filter_cons, hbeq, Bool.false_eq_true, if_false, ih]
      have : t ∈ heldTids (r :: rs) ↔ t ∈ heldTids rs := by
        simp only [mem_heldTids, List.mem_cons]
        constructor
        · rintro ⟨x, hx | hx, hxh, hxt⟩
          · subst hx; exact absurd hxt hr
          · exact ⟨x, hx, hxh, hxt⟩
        · rintro ⟨x, hx, hxh, hxt⟩; exact ⟨x, Or.inr hx, hxh, hxt⟩
      by_cases hm : t ∈ heldTids rs
      · rw [if_pos hm, if_pos (this.mpr hm)]
      · rw [if_neg hm, if_neg (fun h => hm (this.mp h))]

/-! ### the invariant -/

def allReports (s : State) : List Report := allQ s.regs ++ s.handles

structure SuspInv (s : State) : Prop where
  nodup : (tidsOf (allReports s)).Nodup
  lt : ∀ r ∈ allReports s, r.tid < s.nextT
  /-- parked = somebody holds the sender, and the call has not been abandoned -/
  mem_iff' : ∀ t, t ∈ s.suspended ↔ t ∈ heldTids (allReports s) ∧ t ∉ s.abandoned
  abLt : ∀ t ∈ s.abandoned, t < s.nextT

theorem SuspInv.mem_iff {s : State} (h : SuspInv s) (t : Nat) :
    t ∈ s.suspended ↔ (t ∈ heldTids (allQ s.regs) ∨ t ∈ heldTids s.handles) ∧ t ∉ s.abandoned := by
  rw [h.mem_iff' t, allReports, heldTids_append, List.mem_append]

theorem SuspInv_init : SuspInv init :=
  ⟨by simp [init, allReports, allQ, tidsOf], by simp [init, allReports, allQ], by simp [init, allReports, allQ, heldTids],
   by simp [init]⟩

theorem lift_iff {A B C D : Prop} (hcore : (A ∧ C) ↔ D) : ((A ∧ B) ∧ C) ↔ (D ∧ B) :=
  ⟨fun ⟨⟨a, b⟩, c⟩ => ⟨hcore.mp ⟨a, c⟩, b⟩, fun ⟨d, b⟩ => ⟨⟨(hcore.mpr d).1, b⟩, (hcore.mpr d).2⟩⟩

/-- transfer along a permutation of the report multiset, same `nextT`, same `suspended`. -/
theorem SuspInv.of_perm {s s' : State} (h : SuspInv s) (hp : (allReports s').Perm (allReports s))
    (ht : s'.nextT = s.nextT) (hs : s'.suspended = s.suspended) (hab : s'.abandoned = s.abandoned) : SuspInv s' := by
  refine ⟨?_, ?_, ?_, ?_⟩
  · exact ((hp.map _).nodup_iff).mpr h.nodup
  · intro r hr; rw [ht]; exact h.lt r (hp.mem_iff.mp hr)
  · intro t; rw [hs, h.mem_iff' t, hab, (heldTids_perm hp).mem_iff]
  · intro t htm; rw [hab] at htm; rw [ht]; exact h.abLt t htm

/-- adding a fresh report (tid = nextT). -/
theorem SuspInv.add {s s' : State} (h : SuspInv s) (r : Report) (hr : r.tid = s.nextT)
    (hp : (allReports s').Perm (r :: allReports s)) (ht : s'.nextT = s.nextT + 1)
    (hs : s'.suspended = if r.holds then s.suspended ++ [r.tid] else s.suspended)
    (hab : s'.abandoned = s.abandoned) : SuspInv s' := by
  refine ⟨?_, ?_, ?_, fun t htm => by rw [hab] at htm; rw [ht]; exact Nat.lt_succ_of_lt (h.abLt t htm)⟩
  · apply ((hp.map _).nodup_iff).mpr
    simp only [List.map_cons, List.nodup_cons]
    refine ⟨?_, h.nodup⟩
    intro hmem
    obtain ⟨x, hx, hxt⟩ := List.mem_map.mp hmem
    have := h.lt x hx
    omega
  · intro x hx
    rw [ht]
    rcases List.mem_cons.mp (hp.mem_iff.mp hx) with rfl | hx'
    · omega
    · exact Nat.lt_succ_of_lt (h.lt x hx')
  · intro t
    rw [(heldTids_perm hp).mem_iff, hs, hab]
    have hfresh : r.tid ∉ s.abandoned := fun hm => by have := h.abLt _ hm; omega
    cases hh : r.holds with
    | true =>
      simp only [if_true, List.mem_append, List.mem_singleton, h.mem_iff' t]
      simp only [heldTids, List.filter_cons, hh, if_true, List.map_cons, List.mem_cons]
      constructor
      · rintro (h1 | h1)
        · exact ⟨Or.inr h1.1, h1.2⟩
        · exact ⟨Or.inl h1, h1 ▸ hfresh⟩
      · rintro ⟨h1 | h1, h2⟩
        · exact Or.inr h1
        · exact Or.inl ⟨h1, h2⟩
    | false =>
      simp only [Bool.false_eq_true, if_false, h.mem_iff' t]
      simp [heldTids, hh]

theorem SuspInv.bump {s s' : State} (h : SuspInv s) (hr : allReports s' = allReports s)
    (ht : s.nextT ≤ s'.nextT) (hs : s'.suspended = s.suspended) (hab : s'.abandoned = s.abandoned) : SuspInv s' :=
  ⟨by rw [hr]; exact h.nodup, fun r hrm => Nat.lt_of_lt_of_le (h.lt r (hr ▸ hrm)) ht,
   fun t => by rw [hs, hr, hab]; exact h.mem_iff' t,
   fun t htm => Nat.lt_of_lt_of_le (h.abLt t (hab ▸ htm)) ht⟩

theorem SuspInv_step {s : State} (hw : WF s) (h : SuspInv s) (op : Op) : SuspInv (step s op).1 := by
  have hnd : (ids s.regs).Nodup := by
    have := hw.sorted
    exact this.imp (fun hab => Nat.ne_of_lt hab)
  cases op with
  | build r c =>
    exact h.bump (by simp [step, allReports, allQ_append_fresh]) (Nat.le_refl _) rfl rfl
  | trigger ev =>
    show SuspInv (stepTrigger s ev).1
    cases hfm : firstMatch s.regs ev with
    | none => rw [stepTrigger_none hfm]; exact h.bump rfl (Nat.le_succ _) rfl rfl
    | some e =>
      have hmem : e.id ∈ ids s.regs := isLive_iff.mp (firstMatch_live hfm)
      cases hr : e.reaction with
      | noop =>
        rw [stepTrigger_noop hfm hr]
        refine h.add ⟨s.nextT, ev, false⟩ rfl ?_ rfl (by simp) rfl
        simp only [allReports]
        exact (List.Perm.append_right _ (allQ_enqueue s.regs hnd hmem))
      | suspend =>
        rw [stepTrigger_suspend hfm hr]
        refine h.add ⟨s.nextT, ev, true⟩ rfl ?_ rfl (by simp) rfl
        simp only [allReports]
        exact (List.Perm.append_right _ (allQ_enqueue s.regs hnd hmem))
      | panic => rw [stepTrigger_panic hfm hr]; exact h.bump rfl (Nat.le_succ _) rfl rfl
  | triggerNoop ev =>
    show SuspInv (stepTriggerNoop s ev).1
    cases hfm : firstMatch s.regs ev with
    | none => rw [stepTriggerNoop_none hfm]; exact h.bump rfl (Nat.le_succ _) rfl rfl
    | some e =>
      have hmem : e.id ∈ ids s.regs := isLive_iff.mp (firstMatch_live hfm)
      cases hr : e.reaction with
      | noop =>
        rw [stepTriggerNoop_noop hfm hr]
        refine h.add ⟨s.nextT, ev, false⟩ rfl ?_ rfl (by simp) rfl
        simp only [allReports]
        exact (List.Perm.append_right _ (allQ_enqueue s.regs hnd hmem))
      | suspend => rw [stepTriggerNoop_suspend hfm hr]; exact h.bump rfl (Nat.le_succ _) rfl rfl
      | panic => rw [stepTriggerNoop_panic hfm hr]; exact h.bump rfl (Nat.le_succ _) rfl rfl
  | wait b =>
    cases hq : queueOf b s.regs with
    | nil => rw [step_wait_nil hq]; exact h
    | cons r q =>
      rw [step_wait_cons hq]
      refine h.of_perm ?_ rfl rfl rfl
      simp only [allReports]
      have hp := allQ_popFront s.regs hnd hq
      -- allQ (popFront) ++ (handles ++ [r]) ~ (r :: allQ popFront) ++ handles ~ allQ regs ++ handles
      have h1 : (allQ (popFront b s.regs) ++ (s.handles ++ [r])).Perm ((r :: allQ (popFront b s.regs)) ++ s.handles) := by
        rw [← List.append_assoc]
        exact (List.perm_append_comm).trans (by simp)
      exact h1.trans (List.Perm.append_right _ hp)
  | dropHandle t =>
    simp only [step]
    have hsub : (allReports { s with handles := s.handles.filter (fun r => r.tid != t),
                                      suspended := without s.suspended (heldTids (s.handles.filter (fun r => r.tid == t))) }).Sublist
        (allReports s) := by
      simp only [allReports]
      exact List.Sublist.append (List.Sublist.refl _) List.filter_sublist
    refine ⟨List.Nodup.sublist (hsub.map _) h.nodup, fun r hr => h.lt r (hsub.subset hr), ?_, h.abLt⟩
    intro x
    show x ∈ without s.suspended (heldTids (s.handles.filter (fun r => r.tid == t))) ↔
      x ∈ heldTids (allQ s.regs ++ s.handles.filter (fun r => r.tid != t)) ∧ x ∉ s.abandoned
    rw [mem_without, h.mem_iff' x]
    apply lift_iff
    simp only [allReports, heldTids_append, List.mem_append]
    constructor
    · rintro ⟨hx, hnrel⟩
      rcases hx with hx | hx
      · exact Or.inl hx
      · right
        obtain ⟨r, hr, hrh, hrt⟩ := mem_heldTids.mp hx
        refine mem_heldTids.mpr ⟨r, List.mem_filter.mpr ⟨hr, ?_⟩, hrh, hrt⟩
        simp only [bne_iff_ne, ne_eq]
        intro hrt'
        exact hnrel (mem_heldTids.mpr ⟨r, List.mem_filter.mpr ⟨hr, by simpa using hrt'⟩, hrh, hrt⟩)
    · intro hx
      constructor
      · rcases hx with hx | hx
        · exact Or.inl hx
        · obtain ⟨r, hr, hrh, hrt⟩ := mem_heldTids.mp hx
          exact Or.inr (mem_heldTids.mpr ⟨r, (List.mem_filter.mp hr).1, hrh, hrt⟩)
      · intro hrel
        obtain ⟨r', hr', _, hrt'⟩ := mem_heldTids.mp hrel
        have hr'mem := (List.mem_filter.mp hr').1
        have hr'tid : r'.tid = t := by simpa using (List.mem_filter.mp hr').2
        rcases hx with hx | hx
        · obtain ⟨r, hr, _, hrt⟩ := mem_heldTids.mp hx
          exact cross_ne h.nodup hr hr'mem (by rw [hrt, hrt'])
        · obtain ⟨r, hr, _, hrt⟩ := mem_heldTids.mp hx
          have : r.tid ≠ t := by simpa using (List.mem_filter.mp hr).2
          exact this (by rw [hrt, ← hrt', hr'tid])
  | abandon t =>
    refine ⟨h.nodup, h.lt, ?_, ?_⟩
    · intro x
      show x ∈ s.suspended.filter (fun y => y != t) ↔
        x ∈ heldTids (allReports s) ∧ x ∉ (if s.suspended.contains t then s.abandoned ++ [t] else s.abandoned)
      rw [List.mem_filter, h.mem_iff' x]
      by_cases hc : s.suspended.contains t = true
      · simp only [hc, if_true, List.mem_append, List.mem_singleton, not_or, bne_iff_ne, ne_eq]
        constructor
        · rintro ⟨⟨a, b⟩, c⟩; exact ⟨a, b, c⟩
        · rintro ⟨a, b, c⟩; exact ⟨⟨a, b⟩, c⟩
      · have hnt : t ∉ s.suspended := by simpa using hc
        simp only [hc, Bool.false_eq_true, if_false, bne_iff_ne, ne_eq]
        constructor
        · rintro ⟨⟨a, b⟩, _⟩; exact ⟨a, b⟩
        · rintro ⟨a, b⟩
          refine ⟨⟨a, b⟩, ?_⟩
          intro hxt
          exact hnt (hxt ▸ (h.mem_iff' x).mpr ⟨a, b⟩)
    · intro x hx
      show x < s.nextT
      have hx : x ∈ (if s.suspended.contains t then s.abandoned ++ [t] else s.abandoned) := hx
      by_cases hc : s.suspended.contains t = true
      · rw [if_pos hc] at hx
        simp only [List.mem_append, List.mem_singleton] at hx
        rcases hx with hx | rfl
        · exact h.abLt x hx
        · have hts : x ∈ s.suspended := by simpa using hc
          obtain ⟨r, hr, _, hrt⟩ := mem_heldTids.mp ((h.mem_iff' x).mp hts).1
          rw [← hrt]; exact h.lt r hr
      · rw [if_neg hc] at hx
        exact h.abLt x hx
  | dropBarrier b =>
    cases hl : isLive b s.regs with
    | false => rw [step_dropBarrier_dead hl]; exact h
    | true =>
      rw [step_dropBarrier_live hl]
      have hp := allQ_removeId (b := b) s.regs hnd
      have hperm : (queueOf b s.regs ++ (allQ (removeId b s.regs) ++ s.handles)).Perm (allReports s) := by
        rw [← List.append_assoc]; exact List.Perm.append_right _ hp
      have hnd' : (tidsOf (queueOf b s.regs ++ (allQ (removeId b s.regs) ++ s.handles))).Nodup :=
        ((hperm.map _).nodup_iff).mpr h.nodup
      refine ⟨?_, ?_, ?_, h.abLt⟩
      · simp only [allReports]
        exact List.Nodup.sublist ((List.sublist_append_right _ _).map _) hnd'
      · intro r hr
        exact h.lt r (hperm.mem_iff.mp (List.mem_append_right _ hr))
      · intro x
        have hsplit : x ∈ heldTids (allReports s) ↔
            x ∈ heldTids (queueOf b s.regs) ∨ x ∈ heldTids (allQ (removeId b s.regs) ++ s.handles) := by
          rw [← (heldTids_perm hperm).mem_iff, heldTids_append, List.mem_append]
        show x ∈ without s.suspended (heldTids (queueOf b s.regs)) ↔
            x ∈ heldTids (allQ (removeId b s.regs) ++ s.handles) ∧ x ∉ s.abandoned
        rw [mem_without, h.mem_iff' x]
        apply lift_iff
        rw [hsplit]
        constructor
        · rintro ⟨hx | hx, hnrel⟩
          · exact absurd hx hnrel
          · exact hx
        · intro hx
          refine ⟨Or.inr hx, ?_⟩
          intro hrel
          obtain ⟨r', hr', _, hrt'⟩ := mem_heldTids.mp hrel
          obtain ⟨r, hr, _, hrt⟩ := mem_heldTids.mp hx
          exact cross_ne hnd' hr' hr (by rw [hrt, hrt'])

theorem stepTrigger_resumed (s : State) (ev : Event) : (stepTrigger s ev).2.resumed = [] := by
  cases hfm : firstMatch s.regs ev with
  | none => rw [stepTrigger_none hfm]
  | some e =>
    cases hr : e.reaction with
    | noop => rw [stepTrigger_noop hfm hr]
    | suspend => rw [stepTrigger_suspend hfm hr]
    | panic => rw [stepTrigger_panic hfm hr]

theorem stepTrigger_keeps (s : State) (ev : Event) : ∀ t ∈ s.suspended, t ∈ (stepTrigger s ev).1.suspended := by
  intro t ht
  cases hfm : firstMatch s.regs ev with
  | none => rw [stepTrigger_none hfm]; exact ht
  | some e =>
    cases hr : e.reaction with
    | noop => rw [stepTrigger_noop hfm hr]; exact ht
    | suspend => rw [stepTrigger_suspend hfm hr]; exact List.mem_append_left _ ht
    | panic => rw [stepTrigger_panic hfm hr]; exact ht

theorem stepTriggerNoop_resumed (s : State) (ev : Event) : (stepTriggerNoop s ev).2.resumed = [] := by
  cases hfm : firstMatch s.regs ev with
  | none => rw [stepTriggerNoop_none hfm]
  | some e =>
    cases hr : e.reaction with
    | noop => rw [stepTriggerNoop_noop hfm hr]
    | suspend => rw [stepTriggerNoop_suspend hfm hr]
    | panic => rw [stepTriggerNoop_panic hfm hr]

theorem stepTriggerNoop_keeps (s : State) (ev : Event) : (stepTriggerNoop s ev).1.suspended = s.suspended := by
  cases hfm : firstMatch s.regs ev with
  | none => rw [stepTriggerNoop_none hfm]
  | some e =>
    cases hr : e.reaction with
    | noop => rw [stepTriggerNoop_noop hfm hr]
    | suspend => rw [stepTriggerNoop_suspend hfm hr]
    | panic => rw [stepTriggerNoop_panic hfm hr]

theorem susp_inv {s : State} (hs : Reachable s) : SuspInv s := by
  induction hs with
  | init => exact SuspInv_init
  | step op hs ih => exact SuspInv_step hs.wf ih op

theorem queueOf_subset_allQ (b : Nat) : ∀ (regs : List Entry), ∀ r ∈ queueOf b regs, r ∈ allQ regs
  | [], r, h => by simp [queueOf] at h
  | e :: es, r, h => by
    rw [allQ_cons, List.mem_append]
    simp only [queueOf] at h
    split at h
    · exact Or.inl h
    · exact Or.inr (queueOf_subset_allQ b es r h)

theorem mem_stillParked {x : Nat} {susp rel : List Nat} : x ∈ stillParked susp rel ↔ x ∈ rel ∧ x ∈ susp := by
  simp [stillParked, List.mem_filter]

theorem susp_step {s : State} (hs : Reachable s) (op : Op) :
    (∀ t ∈ (step s op).2.resumed, t ∈ s.suspended ∧ t ∉ (step s op).1.suspended) ∧
    (∀ t ∈ s.suspended, t ∉ (step s op).2.resumed → op ≠ .abandon t → t ∈ (step s op).1.suspended) ∧
    ((step s op).2.resumed ≠ [] → (∃ t, op = .dropHandle t) ∨ (∃ b, op = .dropBarrier b)) ∧
    (∀ t, op = .dropHandle t →
        ((step s op).2.resumed = [t] ↔ t ∈ heldTids s.handles ∧ t ∈ s.suspended) ∧
        ((step s op).2.resumed = [] ↔ ¬ (t ∈ heldTids s.handles ∧ t ∈ s.suspended))) ∧
    (∀ b, op = .dropBarrier b → isLive b s.regs = true →
        (step s op).2.resumed = stillParked s.suspended (heldTids (queueOf b s.regs))) := by
  have hI := susp_inv hs
  have hndH : (tidsOf s.handles).Nodup := by
    have := hI.nodup
    simp only [tidsOf, allReports, List.map_append] at this
    exact (List.nodup_append.mp this).2.1
  cases op with
  | build r c => simp [step]
  | trigger ev =>
    have h1 := stepTrigger_resumed s ev
    refine ⟨?_, ?_, ?_, ?_, ?_⟩
    · intro t ht; simp [step, h1] at ht
    · intro t ht _ _; exact stepTrigger_keeps s ev t ht
    · intro hne; exact absurd h1 hne
    · intro t ht; cases ht
    · intro b hb; cases hb
  | triggerNoop ev =>
    have h1 := stepTriggerNoop_resumed s ev
    refine ⟨?_, ?_, ?_, ?_, ?_⟩
    · intro t ht; simp [step, h1] at ht
    · intro t ht _ _; show t ∈ (stepTriggerNoop s ev).1.suspended; rw [stepTriggerNoop_keeps]; exact ht
    · intro hne; exact absurd h1 hne
    · intro t ht; cases ht
    · intro b hb; cases hb
  | wait b =>
    simp only [step]
    cases queueOf b s.regs <;> simp
  | abandon t =>
    refine ⟨by intro x hx; simp [step] at hx, ?_, by intro h; simp [step] at h, ?_, ?_⟩
    rotate_left
    · intro t' h; cases h
    · intro b h; cases h
    intro x hx _ hne
    show x ∈ s.suspended.filter (fun y => y != t)
    refine List.mem_filter.mpr ⟨hx, ?_⟩
    simp only [bne_iff_ne, ne_eq]
    intro hxt; exact hne (hxt ▸ rfl)
  | dropHandle t =>
    have hrel := heldTids_filter_tid (t := t) s.handles hndH
    refine ⟨?_, ?_, ?_, ?_, ?_⟩
    · intro x hx
      simp only [step] at hx ⊢
      have hx' := mem_stillParked.mp hx
      exact ⟨hx'.2, fun hc => (mem_without.mp hc).2 hx'.1⟩
    · intro x hx hnx _
      simp only [step] at hnx ⊢
      refine mem_without.mpr ⟨hx, ?_⟩
      intro hrelx
      exact hnx (mem_stillParked.mpr ⟨hrelx, hx⟩)
    · intro _; exact Or.inl ⟨t, rfl⟩
    · intro t' ht'
      injection ht' with ht'; subst ht'
      simp only [step, hrel]
      by_cases hm : t ∈ heldTids s.handles
      · by_cases hsu : t ∈ s.suspended
        · simp [hm, hsu, stillParked]
        · simp [hm, hsu, stillParked]
      · simp [hm, stillParked]
    · intro b hb; cases hb
  | dropBarrier b =>
    refine ⟨?_, ?_, ?_, ?_, ?_⟩
    · intro x hx
      cases hl : isLive b s.regs with
      | false => rw [step_dropBarrier_dead hl] at hx; cases hx
      | true =>
        rw [step_dropBarrier_live hl] at hx ⊢
        have hx' := mem_stillParked.mp hx
        exact ⟨hx'.2, fun hc => (mem_without.mp hc).2 hx'.1⟩
    · intro x hx hnx _
      cases hl : isLive b s.regs with
      | false => rw [step_dropBarrier_dead hl]; exact hx
      | true =>
        rw [step_dropBarrier_live hl] at hnx ⊢
        refine mem_without.mpr ⟨hx, ?_⟩
        intro hrelx
        exact hnx (mem_stillParked.mpr ⟨hrelx, hx⟩)
    · intro _; exact Or.inr ⟨b, rfl⟩
    · intro t ht; cases ht
    · intro b' hb' hl
      injection hb' with hb'; subst hb'
      rw [step_dropBarrier_live hl]

end TV.Barrier
