import TvUring.Props.C20

#print axioms TV.C20.once_in_order
#print axioms TV.C20.waited_prefix
#print axioms TV.C20.waited_all_when_drained
#print axioms TV.C20.wait_pending_iff
#print axioms TV.C20.outcome_matches_spec
#print axioms TV.C20.suspend
#print axioms TV.C20.suspend_step
#print axioms TV.C20.suspend_onset
#print axioms TV.C20.noop_never_blocks
#print axioms TV.C20.panic
#print axioms TV.C20.unmatched_immediate
#print axioms TV.C20.unmatched_after_drop
#print axioms TV.C20.earliest_created
#print axioms TV.C20.build_id_fresh
#print axioms TV.C20.noop_backlog
#print axioms TV.C20.reports_exactly_once
#print axioms TV.C20.waited_exactly_once
#print axioms TV.C20.drop_handle_releases_exactly_one
#print axioms TV.C20.holder_unique
#print axioms TV.C20.stays_parked
#print axioms TV.C20.C20_witness_F_C20_1
#print axioms TV.C20.C20_partial
#print axioms TV.C20.C20_fixed
#print axioms TV.C20.abandon_spec
