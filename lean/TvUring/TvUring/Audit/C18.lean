import TvUring.Props.C18

#print axioms TV.C18.exactly_once
#print axioms TV.C18.exactly_once_drained
#print axioms TV.C18.completion_facts
#print axioms TV.C18.acc_ids
#print axioms TV.C18.push_accepts
#print axioms TV.C18.cancel_replaces_target
#print axioms TV.C18.cancel_replaces_matured
#print axioms TV.C18.next_yields
#print axioms TV.C18.not_early
#print axioms TV.C18.not_early_step
#print axioms TV.C18.submit_schedules
#print axioms TV.C18.same_as_sync
#print axioms TV.C18.files_only_by_next
#print axioms TV.C18.full_sq
#print axioms TV.C18.crash
#print axioms TV.C18.gone_ring_inert
#print axioms TV.C18.goneOut_no_cqe
#print axioms TV.C18.host_rings_ok
#print axioms TV.C18.drain_all
#print axioms TV.C18.sync_sees_all
