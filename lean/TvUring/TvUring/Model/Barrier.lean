/-
Model of `crates/turmoil/src/barriers.rs` (feature `unstable-barriers`).

The registry (`BarrierRepo.barriers : Vec<BarrierState>`) is an ordered list; a barrier's
unbounded channel is the `queue` of its entry (the receiving half lives in the test-side
`Barrier<T>`, the sending half in the registry; both die together on `Barrier::drop`).
A report carries the trigger's value and, for `Reaction::Suspend`, the `oneshot::Sender`
whose drop/send releases the triggering code (`holds = true`).

Rust types of trigger values are modelled by `Event.ty` (the `downcast_ref` in
`Barrier::build` makes a condition false on every other type).
-/
namespace TV.Barrier

structure Event where
  ty : Nat
  val : Nat
deriving DecidableEq, Repr, Inhabited

inductive Reaction
  | noop | suspend | panic
deriving DecidableEq, Repr, Inhabited

/-- One message in a barrier's channel / one `Triggered` handle. `tid` identifies the trigger call. -/
structure Report where
  tid : Nat
  ev : Event
  holds : Bool
deriving DecidableEq, Repr, Inhabited

structure Entry where
  id : Nat
  cond : Event → Bool
  reaction : Reaction
  queue : List Report

structure State where
  /-- `BARRIERS`, in registration order. -/
  regs : List Entry
  /-- ids are never reused (`Uuid::new_v4` in the code, a counter here). -/
  nextB : Nat
  /-- number of trigger calls so far; the next call gets this id. -/
  nextT : Nat
  /-- live `Triggered<T>` handles, i.e. reports taken out by `wait` and not dropped yet. -/
  handles : List Report
  /-- trigger calls currently parked on `rx.await`. -/
  suspended : List Nat
  /-- ghost: content of a barrier's channel at the moment the barrier was dropped. -/
  lost : Nat → List Report
  /-- ghost: parked trigger calls whose future was dropped (task cancelled, host crashed): nobody is left to resume -/
  abandoned : List Nat

def init : State :=
  { regs := [], nextB := 0, nextT := 0, handles := [], suspended := [], lost := fun _ => [], abandoned := [] }

inductive Op
  | build (r : Reaction) (c : Event → Bool)
  | trigger (ev : Event)
  | triggerNoop (ev : Event)
  | wait (b : Nat)
  | dropHandle (t : Nat)
  | dropBarrier (b : Nat)
  /-- the parked `trigger` future of call `t` is dropped (its task was cancelled / its host crashed) -/
  | abandon (t : Nat)

inductive Res
  | built (b : Nat)
  | done | suspended | panicInjected | panicMisuse
  | pending | got (t : Nat) (ev : Event)
  | ok | invalid
deriving DecidableEq, Repr, Inhabited

structure Out where
  res : Res
  /-- trigger calls that return because of this operation. -/
  resumed : List Nat
deriving DecidableEq, Repr, Inhabited

/-- `BarrierRepo::barrier`: first entry, in registration order, whose condition holds. -/
def firstMatch (regs : List Entry) (ev : Event) : Option Entry :=
  regs.find? (fun e => e.cond ev)

def enqueue (b : Nat) (r : Report) (regs : List Entry) : List Entry :=
  regs.map fun e => if e.id = b then { e with queue := e.queue ++ [r] } else e

def popFront (b : Nat) (regs : List Entry) : List Entry :=
  regs.map fun e => if e.id = b then { e with queue := e.queue.tail } else e

def queueOf (b : Nat) : List Entry → List Report
  | [] => []
  | e :: es => if e.id = b then e.queue else queueOf b es

def isLive (b : Nat) (regs : List Entry) : Bool := regs.any (fun e => e.id == b)

def removeId (b : Nat) (regs : List Entry) : List Entry := regs.filter (fun e => e.id != b)

/-- trigger ids whose release sender is inside the given reports. -/
def heldTids (q : List Report) : List Nat := (q.filter (·.holds)).map (·.tid)

def without (xs rel : List Nat) : List Nat := xs.filter (fun x => !rel.contains x)

/-- of the calls whose sender just died, those that are still there to be resumed -/
def stillParked (susp rel : List Nat) : List Nat := rel.filter (fun t => susp.contains t)

/-- What `trigger(t).await` does up to its first suspension point. -/
def stepTrigger (s : State) (ev : Event) : State × Out :=
  let t := s.nextT
  let s1 := { s with nextT := t + 1 }
  match firstMatch s.regs ev with
  | none => (s1, ⟨.done, []⟩)
  | some e =>
    match e.reaction with
    | .noop => ({ s1 with regs := enqueue e.id ⟨t, ev, false⟩ s.regs }, ⟨.done, []⟩)
    | .suspend =>
      ({ s1 with regs := enqueue e.id ⟨t, ev, true⟩ s.regs, suspended := s.suspended ++ [t] },
        ⟨.suspended, []⟩)
    | .panic => (s1, ⟨.panicInjected, []⟩)

/-- `trigger_noop(t)`. -/
def stepTriggerNoop (s : State) (ev : Event) : State × Out :=
  let t := s.nextT
  let s1 := { s with nextT := t + 1 }
  match firstMatch s.regs ev with
  | none => (s1, ⟨.done, []⟩)
  | some e =>
    match e.reaction with
    | .noop => ({ s1 with regs := enqueue e.id ⟨t, ev, false⟩ s.regs }, ⟨.done, []⟩)
    | .suspend => (s1, ⟨.panicMisuse, []⟩)
    | .panic => (s1, ⟨.panicInjected, []⟩)

def step (s : State) : Op → State × Out
  | .build r c =>
    ({ s with regs := s.regs ++ [⟨s.nextB, c, r, []⟩], nextB := s.nextB + 1 }, ⟨.built s.nextB, []⟩)
  | .trigger ev => stepTrigger s ev
  | .triggerNoop ev => stepTriggerNoop s ev
  | .wait b =>
    match queueOf b s.regs with
    | [] => (s, ⟨if isLive b s.regs then .pending else .invalid, []⟩)
    | r :: _ =>
      ({ s with regs := popFront b s.regs, handles := s.handles ++ [r] }, ⟨.got r.tid r.ev, []⟩)
  | .dropHandle t =>
    let rel := heldTids (s.handles.filter (fun r => r.tid == t))
    ({ s with handles := s.handles.filter (fun r => r.tid != t), suspended := without s.suspended rel },
      ⟨.ok, stillParked s.suspended rel⟩)
  | .dropBarrier b =>
    if isLive b s.regs then
      let q := queueOf b s.regs
      let rel := heldTids q
      ({ s with regs := removeId b s.regs,
                lost := fun x => if x = b then q else s.lost x,
                suspended := without s.suspended rel },
        ⟨.ok, stillParked s.suspended rel⟩)
    else (s, ⟨.invalid, []⟩)
  | .abandon t =>
    ({ s with suspended := s.suspended.filter (fun x => x != t),
              abandoned := if s.suspended.contains t then s.abandoned ++ [t] else s.abandoned },
      ⟨.ok, []⟩)

/-- Outputs of a run. -/
def run : State → List Op → List Out
  | _, [] => []
  | s, op :: ops => (step s op).2 :: run (step s op).1 ops

/-- State after a run. -/
def final : State → List Op → State
  | s, [] => s
  | s, op :: ops => final (step s op).1 ops

end TV.Barrier
