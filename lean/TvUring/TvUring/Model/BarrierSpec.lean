/-
Specification vocabulary for C20. Nothing here looks at queues, channels or handles: the only state is
*which barriers are live* (id, condition, reaction, in creation order). The property theorems relate the
model of `barriers.rs` (`TV.Barrier.step`) to these definitions, and the driver evaluates the same
definitions on the implementation's observations.
-/
import TvUring.Model.Barrier

namespace TV.Barrier

structure Live where
  id : Nat
  cond : Event → Bool
  reaction : Reaction

structure SpecSt where
  live : List Live
  nextB : Nat
  nextT : Nat

def spec0 : SpecSt := { live := [], nextB := 0, nextT := 0 }

def specStep (sp : SpecSt) : Op → SpecSt
  | .build r c => { sp with live := sp.live ++ [⟨sp.nextB, c, r⟩], nextB := sp.nextB + 1 }
  | .trigger _ => { sp with nextT := sp.nextT + 1 }
  | .triggerNoop _ => { sp with nextT := sp.nextT + 1 }
  | .dropBarrier b => { sp with live := sp.live.filter (fun l => l.id != b) }
  | .wait _ => sp
  | .dropHandle _ => sp
  | .abandon _ => sp

/-- One trigger call together with the barriers that were live at that instant. -/
structure TrigRec where
  tid : Nat
  ev : Event
  sync : Bool
  live : List Live

/-- The trigger calls of a history, in order. -/
def triggersOf : SpecSt → List Op → List TrigRec
  | _, [] => []
  | sp, .trigger ev :: ops => ⟨sp.nextT, ev, false, sp.live⟩ :: triggersOf (specStep sp (.trigger ev)) ops
  | sp, .triggerNoop ev :: ops => ⟨sp.nextT, ev, true, sp.live⟩ :: triggersOf (specStep sp (.triggerNoop ev)) ops
  | sp, op :: ops => triggersOf (specStep sp op) ops

/-- The earliest-created live barrier whose condition holds. -/
def firstLive (t : TrigRec) : Option Live := t.live.find? (fun l => l.cond t.ev)

/-- Does a matched trigger get reported to the test? (`Panic` never; `Suspend` only from the async `trigger`.) -/
def delivers : Reaction → Bool → Bool
  | .noop, _ => true
  | .suspend, sync => !sync
  | .panic, _ => false

def reportedTo (b : Nat) (t : TrigRec) : Bool :=
  match firstLive t with
  | some l => l.id == b && delivers l.reaction t.sync
  | none => false

/-- What barrier `b` must see, as a list: the triggers whose first live matching barrier is `b`. -/
def specReports (b : Nat) (sp : SpecSt) (ops : List Op) : List (Nat × Event) :=
  ((triggersOf sp ops).filter (reportedTo b)).map (fun t => (t.tid, t.ev))

/-- What the triggering code must experience. -/
def expectedOutcome (t : TrigRec) : Res :=
  match firstLive t with
  | none => .done
  | some l =>
    match l.reaction, t.sync with
    | .noop, _ => .done
    | .suspend, false => .suspended
    | .suspend, true => .panicMisuse
    | .panic, _ => .panicInjected

def specFinal : SpecSt → List Op → SpecSt
  | sp, [] => sp
  | sp, op :: ops => specFinal (specStep sp op) ops

/-- What one operation's output contributes to "values returned by `wait b`". -/
def waitedStep (b : Nat) (op : Op) (o : Out) : List (Nat × Event) :=
  match op, o.res with
  | .wait b', .got t ev => if b' = b then [(t, ev)] else []
  | _, _ => []

/-- `(tid, ev)` pairs returned by `wait b` in a run, in order. -/
def waitedOn (b : Nat) : List Op → List Out → List (Nat × Event)
  | op :: ops, o :: outs => waitedStep b op o ++ waitedOn b ops outs
  | _, _ => []

/-- What one operation contributes to `specReports b`. -/
def specDelta (b : Nat) (sp : SpecSt) : Op → List (Nat × Event)
  | .trigger ev => if reportedTo b ⟨sp.nextT, ev, false, sp.live⟩ then [(sp.nextT, ev)] else []
  | .triggerNoop ev => if reportedTo b ⟨sp.nextT, ev, true, sp.live⟩ then [(sp.nextT, ev)] else []
  | _ => []

/-- Outcomes of the trigger calls of a run, in order. -/
def triggerOuts : List Op → List Out → List Res
  | .trigger _ :: ops, o :: outs => o.res :: triggerOuts ops outs
  | .triggerNoop _ :: ops, o :: outs => o.res :: triggerOuts ops outs
  | _ :: ops, _ :: outs => triggerOuts ops outs
  | _, _ => []

/-! ### the environment of a synchronous trigger fired by the fs corruption hook (finding F-C20-1)

`turmoil-fs` fires the hook from inside `FsContext::current`, i.e. while the host's `Fs` mutex is held. A reaction
that panics (`Panic`, or `Suspend` met by `trigger_noop`) therefore poisons that mutex; if the unwinding host code
then drops a shim `File`, `Drop for File` → `FsContext::current_if_set` → `lock().expect(..)` panics *during
unwinding* and the process aborts instead of the triggering code panicking.
Repaired by /repo 0647206 (drop paths tolerate a poisoned mutex): the committed variant is `fixedHook`;
`faithfulHook` describes the code before the repair and is what the driver reports as `regressed:F-C20-1`. -/

structure HookCfg where
  /-- repair: the drop path of the shim tolerates a poisoned `Fs` mutex -/
  fixDropPoison : Bool
deriving DecidableEq, Repr

def faithfulHook : HookCfg := ⟨false⟩
def fixedHook : HookCfg := ⟨true⟩

inductive HookRes
  | res (r : Res)
  /-- the whole process dies (`panic in a destructor during cleanup`) -/
  | abort
deriving DecidableEq, Repr

/-- decidable pattern of F-C20-1: the trigger came through the fs hook in code that holds open shim files, and the
    barrier model says it panics -/
def patHookPanicAborts (viaHookWithFiles : Bool) (r : Res) : Bool :=
  viaHookWithFiles && (r == .panicInjected || r == .panicMisuse)

def hookOutcome (cfg : HookCfg) (viaHookWithFiles : Bool) (r : Res) : HookRes :=
  if !cfg.fixDropPoison && patHookPanicAborts viaHookWithFiles r then .abort else .res r

end TV.Barrier
