/-
Model of `crates/turmoil-io-uring` (submit.rs, sim.rs, cqueue.rs, squeue.rs, host.rs, lib.rs, async_fd.rs)
with a minimal file model (byte lists per fd) standing for `turmoil-fs`.

* `RingSt`   one `sim::RingState` plus the `visible` counter of the `CompletionQueue` handle in use;
* `ringStep` push / submit / cqnew / sync / next / readable on one ring at ring time `now`;
* `M`        one ring + files + clock, with an `env` operation that lets anything else (other rings, the
             synchronous shim) rewrite the files — the machine the C18 theorems are about;
* `Host`     `IoUringHostState` (ring registry keyed by ring fd) + files + clock, with `crash` —
             what the driver replays, and the machine of `C18.crash`.

Oracles (explicit inputs): `lats` — the latency sampled for each entry at `submit`; `pick` — which entry of
the oldest matured batch the shuffle put first.  The shuffle of a matured batch is chosen lazily: `ready` is
a FIFO of batches and `next pick` removes the `pick`-th entry of the first batch.  Every eager permutation
corresponds to one pick sequence and vice versa.

Ghost fields (`sid`, `at_`, `lat`, `acc`, `drained`, `cancelled`) do not influence behaviour.
-/
namespace TV.Ring

/-! ## files: the synchronous API -/

/-- file content: live view and durable image (what a crash leaves) -/
structure Inode where
  content : List Nat
  durable : List Nat
deriving DecidableEq, Repr, Inhabited

/-- `Fs` as far as the ring is concerned: inodes, and the fd table `open_handles`
    (fd ↦ inode, open?). fds are never reused. -/
structure Files where
  inodes : List Inode
  fds : List (Nat × Bool)
deriving DecidableEq, Repr, Inhabited

def EBADF : Int := -9
def ECANCELED : Int := -125
def ENOENT : Int := -2
def EINVAL : Int := -22

def readBytes (c : List Nat) (off len : Nat) : List Nat := (c.drop off).take len

def writeBytes (c : List Nat) (off : Nat) (d : List Nat) : List Nat :=
  if d.isEmpty then c
  else c.take off ++ List.replicate (off - c.length) 0 ++ d ++ c.drop (off + d.length)

/-- the inode behind an open fd -/
def Files.resolve (fs : Files) (fd : Nat) : Option (Nat × Inode) :=
  match fs.fds[fd]? with
  | some (p, true) =>
    match fs.inodes[p]? with
    | some i => some (p, i)
    | none => none
  | _ => none

/-- `File::read_at` -/
def syncRead (fs : Files) (fd off len : Nat) : Int × List Nat :=
  match fs.resolve fd with
  | some (_, i) => ((readBytes i.content off len).length, readBytes i.content off len)
  | none => (EBADF, [])

/-- `File::write_at` -/
def syncWrite (fs : Files) (fd off : Nat) (d : List Nat) : Files × Int :=
  match fs.resolve fd with
  | some (p, i) => ({ fs with inodes := fs.inodes.set p { i with content := writeBytes i.content off d } }, d.length)
  | none => (fs, EBADF)

/-- `File::sync_all` -/
def syncFsync (fs : Files) (fd : Nat) : Files × Int :=
  match fs.resolve fd with
  | some (p, i) => ({ fs with inodes := fs.inodes.set p { i with durable := i.content } }, 0)
  | none => (fs, EBADF)

/-! ## ring -/

inductive OpKind
  | read (fd off len : Nat)
  | write (fd off : Nat) (data : List Nat)
  | fsync (fd : Nat)
  | cancel (target : Nat)
deriving DecidableEq, Repr, Inhabited

/-- `squeue::Flags::has_unsupported` on the `IOSQE_*` bit set (bit 0 FIXED_FILE, 1 IO_DRAIN, 2 IO_LINK,
    3 IO_HARDLINK, 4 ASYNC, 5 BUFFER_SELECT): everything but ASYNC is rejected. -/
def hasUnsupported (bits : Nat) : Bool :=
  bits % 2 == 1 || bits / 2 % 2 == 1 || bits / 4 % 2 == 1 || bits / 8 % 2 == 1 || bits / 32 % 2 == 1

structure Sqe where
  ud : Nat
  op : OpKind
  /-- `hasUnsupported` of the entry's flags -/
  bad : Bool
deriving DecidableEq, Repr, Inhabited

/-- `sim::PendingApply` -/
inductive Apply
  | read (fd off len : Nat)
  | write (fd off : Nat) (data : List Nat)
  | fsync (fd : Nat)
  | imm (res : Int)
deriving DecidableEq, Repr, Inhabited

/-- `sim::ScheduledCqe` (+ ghost: submission id, time and latency of the submit that scheduled it). -/
structure Sched where
  when_ : Nat
  ud : Nat
  apply : Apply
  sid : Nat
  at_ : Nat
  lat : Nat
  /-- ghost: this entry is the `-ECANCELED` replacement of a cancelled target -/
  canc : Bool
deriving DecidableEq, Repr, Inhabited

/-- A drained completion (ghost record). -/
structure Done where
  sid : Nat
  ud : Nat
  res : Int
  t : Nat
  at_ : Nat
  lat : Nat
  canc : Bool
  /-- what was executed at that moment -/
  apply : Apply
deriving DecidableEq, Repr, Inhabited

structure RingSt where
  depth : Nat
  sq : List (Nat × Sqe)
  inflight : List Sched
  ready : List (List Sched)
  visible : Option Nat
  nextSid : Nat
  acc : List (Nat × Nat)
  drained : List Done
deriving DecidableEq, Repr, Inhabited

def RingSt.new (depth : Nat) : RingSt :=
  { depth := depth, sq := [], inflight := [], ready := [], visible := none,
    nextSid := 0, acc := [], drained := [] }

/-- What the completion-time execution does: exactly the synchronous API. -/
def exec (fs : Files) : Apply → Files × Int × List Nat
  | .read fd off len => (fs, (syncRead fs fd off len).1, (syncRead fs fd off len).2)
  | .write fd off d => ((syncWrite fs fd off d).1, (syncWrite fs fd off d).2, [])
  | .fsync fd => ((syncFsync fs fd).1, (syncFsync fs fd).2, [])
  | .imm r => (fs, r, [])

/-- remove the first element satisfying `p` -/
def removeFirst (p : Sched → Bool) : List Sched → Option (Sched × List Sched)
  | [] => none
  | x :: xs =>
    if p x then some (x, xs)
    else match removeFirst p xs with
      | some (y, ys) => some (y, x :: ys)
      | none => none

def removeFirstB (p : Sched → Bool) : List (List Sched) → Option (Sched × List (List Sched))
  | [] => none
  | b :: bs =>
    match removeFirst p b with
    | some (y, b') => some (y, b' :: bs)
    | none =>
      match removeFirstB p bs with
      | some (y, bs') => some (y, b :: bs')
      | none => none

/-- `RingState::cancel` -/
def cancelStep (r : RingSt) (now csid cud target : Nat) : RingSt :=
  match removeFirst (fun x => x.ud == target) r.inflight with
  | some (x, rest) =>
    { r with inflight := rest ++ [⟨now, target, .imm ECANCELED, x.sid, now, 0, true⟩,
                                  ⟨now, cud, .imm 0, csid, now, 0, false⟩] }
  | none =>
    match removeFirstB (fun x => x.ud == target) r.ready with
    | some (x, ready') =>
      { r with ready := ready',
               inflight := r.inflight ++ [⟨now, target, .imm ECANCELED, x.sid, now, 0, true⟩,
                                          ⟨now, cud, .imm 0, csid, now, 0, false⟩] }
    | none => { r with inflight := r.inflight ++ [⟨now, cud, .imm ENOENT, csid, now, 0, false⟩] }

/-- one iteration of the loop in `submit::schedule_pending` -/
def submitOne (r : RingSt) (now : Nat) (sid : Nat) (e : Sqe) (lat : Nat) : RingSt :=
  if e.bad then { r with inflight := r.inflight ++ [⟨now, e.ud, .imm EINVAL, sid, now, 0, false⟩] }
  else
    match e.op with
    | .read fd off len => { r with inflight := r.inflight ++ [⟨now + lat, e.ud, .read fd off len, sid, now, lat, false⟩] }
    | .write fd off d => { r with inflight := r.inflight ++ [⟨now + lat, e.ud, .write fd off d, sid, now, lat, false⟩] }
    | .fsync fd => { r with inflight := r.inflight ++ [⟨now + lat, e.ud, .fsync fd, sid, now, lat, false⟩] }
    | .cancel t => cancelStep r now sid e.ud t

def submitLoop (now : Nat) : List (Nat × Sqe) → List Nat → RingSt → RingSt
  | [], _, r => r
  | (sid, e) :: es, lats, r => submitLoop now es lats.tail (submitOne r now sid e (lats.headD 0))

def readyCount (r : RingSt) (now : Nat) : Nat :=
  r.ready.flatten.length + (r.inflight.filter (fun x => x.when_ ≤ now)).length

/-- `RingState::promote_ready` (the shuffle is deferred to `popPick`) -/
def promote (r : RingSt) (now : Nat) : RingSt :=
  match r.inflight.filter (fun x => x.when_ ≤ now) with
  | [] => r
  | m :: ms => { r with inflight := r.inflight.filter (fun x => !(x.when_ ≤ now)), ready := r.ready ++ [m :: ms] }

def takeNth : Nat → List Sched → Option (Sched × List Sched)
  | _, [] => none
  | 0, x :: xs => some (x, xs)
  | n + 1, x :: xs =>
    match takeNth n xs with
    | some (y, ys) => some (y, x :: ys)
    | none => none

/-- front of the shuffled `ready` queue: the `pick`-th entry of the oldest non-empty batch -/
def popPick : List (List Sched) → Nat → Option (Sched × List (List Sched))
  | [], _ => none
  | [] :: bs, pick => popPick bs pick
  | (x :: xs) :: bs, pick =>
    match takeNth (pick % (xs.length + 1)) (x :: xs) with
    | some (y, rest) => some (y, if rest.isEmpty then bs else rest :: bs)
    | none => none

inductive ROp
  | push (e : Sqe)
  | submit (lats : List Nat)
  | cqnew
  | cqsync
  | next (pick : Nat)
  | readable
  /-- `SubmissionQueue::{len, is_full, capacity}` -/
  | sqinfo
deriving Repr, Inhabited

inductive ROut
  | pushed | full
  | submitted (n : Nat)
  | unit
  | synced (n : Nat)
  | none_
  | cqe (ud : Nat) (res : Int) (buf : List Nat)
  | ready (b : Bool)
  | sq (len : Nat) (full : Bool) (cap : Nat)
deriving DecidableEq, Repr, Inhabited

def ringStep (now : Nat) (fs : Files) (r : RingSt) : ROp → RingSt × Files × ROut
  | .push e =>
    if r.depth ≤ r.sq.length then (r, fs, .full)
    else ({ r with sq := r.sq ++ [(r.nextSid, e)], nextSid := r.nextSid + 1, acc := r.acc ++ [(r.nextSid, e.ud)] },
          fs, .pushed)
  | .submit lats => (submitLoop now r.sq lats { r with sq := [] }, fs, .submitted r.sq.length)
  | .cqnew => ({ r with visible := none }, fs, .unit)
  | .cqsync => ({ r with visible := some (readyCount r now) }, fs, .synced (readyCount r now))
  | .next pick =>
    match r.visible with
    | none => (r, fs, .none_)
    | some 0 => (r, fs, .none_)
    | some (k + 1) =>
      let r1 := promote r now
      match popPick r1.ready pick with
      | none => (r1, fs, .none_)
      | some (x, ready') =>
        let res := exec fs x.apply
        ({ r1 with ready := ready', visible := some k,
                   drained := r1.drained ++ [⟨x.sid, x.ud, res.2.1, now, x.at_, x.lat, x.canc, x.apply⟩] },
          res.1, .cqe x.ud res.2.1 res.2.2)
  | .readable => (r, fs, .ready (decide (0 < readyCount r now)))
  | .sqinfo => (r, fs, .sq r.sq.length (decide (r.depth ≤ r.sq.length)) r.depth)

/-! ## one ring in an arbitrary environment -/

structure M where
  now : Nat
  files : Files
  ring : RingSt
deriving Repr, Inhabited

inductive MOp
  | ring (op : ROp)
  | advance (dt : Nat)
  /-- anything else on the host: other rings, shim calls — may rewrite the files arbitrarily -/
  | env (fs : Files)

def M.step (m : M) : MOp → M × ROut
  | .ring op =>
    let r := ringStep m.now m.files m.ring op
    ({ m with ring := r.1, files := r.2.1 }, r.2.2)
  | .advance dt => ({ m with now := m.now + dt }, .unit)
  | .env fs => ({ m with files := fs }, .unit)

def M.run : M → List MOp → List ROut
  | _, [] => []
  | m, op :: ops => (m.step op).2 :: M.run (m.step op).1 ops

def M.final : M → List MOp → M
  | m, [] => m
  | m, op :: ops => M.final (m.step op).1 ops

def M.init (depth : Nat) (fs : Files) : M := { now := 0, files := fs, ring := RingSt.new depth }

/-! ## host: ring registry, crash -/

structure Host where
  now : Nat
  files : Files
  rings : List (Nat × RingSt)
  nextRing : Nat
deriving Repr, Inhabited

def Host.init (fs : Files) : Host := { now := 0, files := fs, rings := [], nextRing := 0 }

inductive HOp
  | newRing (entries : Nat)
  | dropRing (id : Nat)
  | ring (id : Nat) (op : ROp)
  | advance (dt : Nat)
  | crash
  | fwrite (fd off : Nat) (d : List Nat)
  | fread (fd off len : Nat)
  | fsync (fd : Nat)
  | fclose (fd : Nat)
  /-- open inode `p` again: a fresh fd -/
  | fopen (p : Nat)
deriving Repr, Inhabited

inductive HOut
  | ringId (id : Nat)
  | invalid
  | ring (o : ROut)
  | noRing
  | unit
  | io (res : Int) (buf : List Nat)
  | fd (n : Nat)
deriving DecidableEq, Repr, Inhabited

def lookupRing (id : Nat) : List (Nat × RingSt) → Option RingSt
  | [] => none
  | (k, r) :: rest => if k = id then some r else lookupRing id rest

def setRing (id : Nat) (r : RingSt) : List (Nat × RingSt) → List (Nat × RingSt)
  | [] => []
  | (k, r0) :: rest => if k = id then (k, r) :: rest else (k, r0) :: setRing id r rest

def nextPow2From (p n : Nat) : Nat → Nat
  | 0 => p
  | fuel + 1 => if n ≤ p then p else nextPow2From (2 * p) n fuel

/-- `u32::next_power_of_two` -/
def nextPow2 (n : Nat) : Nat := nextPow2From 1 n n

/-- what a ring operation reports when the ring is not registered (crashed host / dropped ring) -/
def goneOut : ROp → HOut
  | .push _ => .ring .full            -- `PushError`
  | .submit _ => .noRing              -- `Err(NotFound)`
  | .cqnew => .ring .unit
  | .cqsync => .ring (.synced 0)
  | .next _ => .ring .none_
  | .readable => .noRing
  | .sqinfo => .ring (.sq 0 true 0)

/-- `Fs::crash` for already-durable directory entries, no torn writes: pending data is lost;
    the host's software died with all its file handles. -/
def crashFiles (fs : Files) : Files :=
  { inodes := fs.inodes.map (fun i => { content := i.durable, durable := i.durable }),
    fds := fs.fds.map (fun pf => (pf.1, false)) }

def Host.step (h : Host) : HOp → Host × HOut
  | .newRing entries =>
    if entries = 0 then (h, .invalid)
    else ({ h with rings := h.rings ++ [(h.nextRing, RingSt.new (nextPow2 entries))], nextRing := h.nextRing + 1 },
          .ringId h.nextRing)
  | .dropRing id => ({ h with rings := h.rings.filter (fun kr => kr.1 != id) }, .unit)
  | .ring id op =>
    match lookupRing id h.rings with
    | none => (h, goneOut op)
    | some r =>
      let x := ringStep h.now h.files r op
      ({ h with rings := setRing id x.1 h.rings, files := x.2.1 }, .ring x.2.2)
  | .advance dt => ({ h with now := h.now + dt }, .unit)
  | .crash => ({ h with rings := [], files := crashFiles h.files }, .unit)
  | .fwrite fd off d => ({ h with files := (syncWrite h.files fd off d).1 }, .io (syncWrite h.files fd off d).2 [])
  | .fread fd off len => (h, .io (syncRead h.files fd off len).1 (syncRead h.files fd off len).2)
  | .fsync fd => ({ h with files := (syncFsync h.files fd).1 }, .io (syncFsync h.files fd).2 [])
  | .fclose fd =>
    match h.files.fds[fd]? with
    | some (p, _) => ({ h with files := { h.files with fds := h.files.fds.set fd (p, false) } }, .unit)
    | none => (h, .invalid)
  | .fopen p =>
    if p < h.files.inodes.length then
      ({ h with files := { h.files with fds := h.files.fds ++ [(p, true)] } }, .fd h.files.fds.length)
    else (h, .invalid)

def Host.run : Host → List HOp → List HOut
  | _, [] => []
  | h, op :: ops => (h.step op).2 :: Host.run (h.step op).1 ops

def Host.final : Host → List HOp → Host
  | h, [] => h
  | h, op :: ops => Host.final (h.step op).1 ops

end TV.Ring
