/-
C20 — barriers observe every matching trigger once, in order, and suspend only when asked.
Statements, property theorems, non-vacuity examples. All theorems quantify over every state / every
operation list; nothing is bounded.
-/
import TvUring.Proofs.Barrier
import TvUring.Proofs.BarrierSuspend

namespace TV.C20
open TV.Barrier

/-! ## once, in order -/

def rp (r : Report) : Nat × Event := (r.tid, r.ev)

/-- Reports sent to `b` that the test has not taken out with `wait`: still queued if `b` is live,
    frozen at the moment of the drop otherwise. -/
def leftover (b : Nat) (s : State) : List Report :=
  if isLive b s.regs then queueOf b s.regs else s.lost b

theorem specReports_cons (b : Nat) (sp : SpecSt) (op : Op) (ops : List Op) :
    specReports b sp (op :: ops) = specDelta b sp op ++ specReports b (specStep sp op) ops := by
  cases op <;> simp [specReports, triggersOf, specDelta, List.filter_cons] <;> split <;> simp

theorem firstLive_eq {s : State} {sp : SpecSt} (hR : R s sp) (ev : Event) (sync : Bool) :
    firstLive ⟨sp.nextT, ev, sync, sp.live⟩ = (firstMatch s.regs ev).map proj := by
  simp only [firstLive, ← hR.live]
  exact firstMatch_proj s.regs ev

theorem step_once (b : Nat) {s : State} {sp : SpecSt} (hR : R s sp) (hW : WF s) (op : Op) :
    waitedStep b op (step s op).2 ++ (leftover b (step s op).1).map rp
      = (leftover b s).map rp ++ specDelta b sp op := by
  cases op with
  | build r c =>
    simp only [step, waitedStep, specDelta, List.nil_append, List.append_nil, leftover,
      isLive_append, queueOf_append_fresh]
    by_cases hb : s.nextB = b
    · subst hb
      have hnl : isLive s.nextB s.regs = false := by
        rw [isLive_false_iff]
        intro hmem
        exact Nat.lt_irrefl _ (idsLt_of_ids hW.idsLt _ hmem)
      simp [hnl, queueOf_not_live hnl, hW.lostFresh s.nextB (Nat.le_refl _)]
    · simp [hb]
  | trigger ev =>
    have hfl := firstLive_eq hR ev false
    simp only [step, stepTrigger, waitedStep, specDelta, List.nil_append, reportedTo, hfl]
    cases hfm : firstMatch s.regs ev with
    | none => simp [leftover]
    | some e =>
      have hlive := firstMatch_live hfm
      cases hr : e.reaction with
      | noop =>
        simp only [leftover, isLive_enqueue, Option.map_some, proj, hr, delivers, Bool.and_true]
        by_cases hb : e.id = b
        · subst hb
          simp [hlive, queueOf_enqueue_self _ hlive, rp, hR.nt]
        · have hb' : b ≠ e.id := fun h => hb h.symm
          simp [queueOf_enqueue_ne hb', hb]
      | suspend =>
        simp only [leftover, isLive_enqueue, Option.map_some, proj, hr, delivers]
        by_cases hb : e.id = b
        · subst hb
          simp [hlive, queueOf_enqueue_self _ hlive, rp, hR.nt]
        · have hb' : b ≠ e.id := fun h => hb h.symm
          simp [queueOf_enqueue_ne hb', hb]
      | panic => simp [leftover, proj, hr, delivers]
  | triggerNoop ev =>
    have hfl := firstLive_eq hR ev true
    simp only [step, stepTriggerNoop, waitedStep, specDelta, List.nil_append, reportedTo, hfl]
    cases hfm : firstMatch s.regs ev with
    | none => simp [leftover]
    | some e =>
      have hlive := firstMatch_live hfm
      cases hr : e.reaction with
      | noop =>
        simp only [leftover, isLive_enqueue, Option.map_some, proj, hr, delivers, Bool.and_true]
        by_cases hb : e.id = b
        · subst hb
          simp [hlive, queueOf_enqueue_self _ hlive, rp, hR.nt]
        · have hb' : b ≠ e.id := fun h => hb h.symm
          simp [queueOf_enqueue_ne hb', hb]
      | suspend => simp [leftover, proj, hr, delivers]
      | panic => simp [leftover, proj, hr, delivers]
  | wait b' =>
    simp only [step, specDelta, List.append_nil]
    cases hq : queueOf b' s.regs with
    | nil => cases hl : isLive b' s.regs <;> simp [waitedStep, leftover]
    | cons r q =>
      simp only [waitedStep, leftover, isLive_popFront]
      by_cases hb : b' = b
      · subst hb
        have hl : isLive b' s.regs = true := live_of_queueOf_ne_nil (by simp [hq])
        simp [hl, queueOf_popFront_self, hq, rp]
      · have hb' : b ≠ b' := fun h => hb h.symm
        simp [hb, queueOf_popFront_ne hb']
  | dropHandle t =>
    simp only [step, waitedStep, specDelta, leftover, List.nil_append, List.append_nil]
    rfl
  | abandon t =>
    simp only [step, waitedStep, specDelta, leftover, List.nil_append, List.append_nil]
    rfl
  | dropBarrier b' =>
    simp only [step, specDelta, List.append_nil]
    cases hl : isLive b' s.regs with
    | false => simp [waitedStep, leftover]
    | true =>
      simp only [waitedStep, leftover, if_true, List.nil_append]
      by_cases hb : b = b'
      · subst hb
        simp [isLive_removeId_self, hl]
      · simp [isLive_removeId_ne hb, queueOf_removeId_ne hb, hb]

theorem once_in_order_gen (b : Nat) (ops : List Op) :
    ∀ (s : State) (sp : SpecSt), R s sp → WF s →
      waitedOn b ops (run s ops) ++ (leftover b (final s ops)).map rp
        = (leftover b s).map rp ++ specReports b sp ops := by
  induction ops with
  | nil => intro s sp _ _; simp [waitedOn, final, specReports, triggersOf]
  | cons op ops ih =>
    intro s sp hR hW
    have h1 := step_once b hR hW op
    have h2 := ih (step s op).1 (specStep sp op) (R_step hR op) (WF_step hW op)
    simp only [waitedOn, run, final, specReports_cons, List.append_assoc]
    rw [h2, ← List.append_assoc, h1, List.append_assoc]

/-- **C20 once_in_order.** For every history and every barrier `b`: the values returned by `wait b`, followed
    by the reports `b` never took out, are exactly the triggers whose first live matching barrier was `b`
    (and whose reaction reports), in trigger order, each once. -/
theorem once_in_order (ops : List Op) (b : Nat) :
    waitedOn b ops (run init ops) ++ (leftover b (final init ops)).map rp = specReports b spec0 ops := by
  have h := once_in_order_gen b ops init spec0 R_init WF_init
  simpa [leftover, init, isLive, queueOf] using h

/-- Consequence: what `wait b` returned is always a prefix of the specified report list… -/
theorem waited_prefix (ops : List Op) (b : Nat) :
    waitedOn b ops (run init ops) <+: specReports b spec0 ops :=
  ⟨_, once_in_order ops b⟩

/-- …and all of it once nothing is left in (or was lost with) the channel. -/
theorem waited_all_when_drained (ops : List Op) (b : Nat) (h : leftover b (final init ops) = []) :
    waitedOn b ops (run init ops) = specReports b spec0 ops := by
  have := once_in_order ops b
  simpa [h] using this

/-- `wait` on a live barrier is pending exactly when every specified report has been handed out. -/
theorem wait_pending_iff (s : State) (b : Nat) (hl : isLive b s.regs = true) :
    (step s (.wait b)).2.res = .pending ↔ leftover b s = [] := by
  simp only [step, leftover, hl, if_true]
  cases queueOf b s.regs <;> simp

example : waitedOn 0 [.build .noop (fun _ => true), .trigger ⟨0, 7⟩, .trigger ⟨0, 8⟩, .wait 0]
    (run init [.build .noop (fun _ => true), .trigger ⟨0, 7⟩, .trigger ⟨0, 8⟩, .wait 0]) = [(0, ⟨0, 7⟩)] := by
  decide

/-! ## exactly once across *all* barriers -/

theorem triggersOf_tids (ops : List Op) : ∀ (sp : SpecSt),
    ((triggersOf sp ops).map (·.tid)).Pairwise (· < ·) ∧ ∀ t ∈ triggersOf sp ops, sp.nextT ≤ t.tid := by
  induction ops with
  | nil => intro sp; simp [triggersOf]
  | cons op ops ih =>
    intro sp
    cases op with
    | trigger ev =>
      have h := ih (specStep sp (.trigger ev))
      simp only [triggersOf, List.map_cons, List.pairwise_cons, List.mem_cons]
      refine ⟨⟨?_, h.1⟩, ?_⟩
      · intro a ha
        obtain ⟨t, ht, rfl⟩ := List.mem_map.mp ha
        have := h.2 t ht
        simp only [specStep] at this; omega
      · rintro t (rfl | ht)
        · exact Nat.le_refl _
        · have := h.2 t ht
          simp only [specStep] at this; omega
    | triggerNoop ev =>
      have h := ih (specStep sp (.triggerNoop ev))
      simp only [triggersOf, List.map_cons, List.pairwise_cons, List.mem_cons]
      refine ⟨⟨?_, h.1⟩, ?_⟩
      · intro a ha
        obtain ⟨t, ht, rfl⟩ := List.mem_map.mp ha
        have := h.2 t ht
        simp only [specStep] at this; omega
      · rintro t (rfl | ht)
        · exact Nat.le_refl _
        · have := h.2 t ht
          simp only [specStep] at this; omega
    | build r c => simpa [triggersOf, specStep] using ih (specStep sp (.build r c))
    | wait b => simpa [triggersOf, specStep] using ih sp
    | dropHandle t => simpa [triggersOf, specStep] using ih sp
    | abandon t => simpa [triggersOf, specStep] using ih sp
    | dropBarrier b => simpa [triggersOf, specStep] using ih (specStep sp (.dropBarrier b))

theorem eq_of_tid_eq {l : List TrigRec} (h : (l.map (·.tid)).Pairwise (· < ·)) :
    ∀ {a b : TrigRec}, a ∈ l → b ∈ l → a.tid = b.tid → a = b := by
  induction l with
  | nil => intro a b ha; cases ha
  | cons x xs ih =>
    simp only [List.map_cons, List.pairwise_cons] at h
    intro a b ha hb hab
    rcases List.mem_cons.mp ha with rfl | ha' <;> rcases List.mem_cons.mp hb with rfl | hb'
    · rfl
    · have := h.1 _ (List.mem_map.mpr ⟨b, hb', rfl⟩); omega
    · have := h.1 _ (List.mem_map.mpr ⟨a, ha', rfl⟩); omega
    · exact ih h.2 ha' hb' hab

/-- **Exactly once, over all barriers.** Whatever the number of barriers, however their conditions overlap
    and whatever the create / drop history: (1) the trigger ids in a barrier's report list are strictly
    increasing — trigger order, no trigger twice; (2) no trigger appears in the report lists of two different
    barriers. With `once_in_order` this is what `wait` hands out. -/
theorem reports_exactly_once (ops : List Op) :
    (∀ b, ((specReports b spec0 ops).map (·.1)).Pairwise (· < ·)) ∧
    (∀ b b' x y, x ∈ specReports b spec0 ops → y ∈ specReports b' spec0 ops → x.1 = y.1 → b = b' ∧ x = y) := by
  have hT := (triggersOf_tids ops spec0).1
  constructor
  · intro b
    have hsub : ((specReports b spec0 ops).map (·.1)).Sublist ((triggersOf spec0 ops).map (·.tid)) := by
      simp only [specReports, List.map_map]
      exact (List.filter_sublist).map _
    exact List.Pairwise.sublist hsub hT
  · intro b b' x y hx hy hxy
    simp only [specReports, List.mem_map, List.mem_filter] at hx hy
    obtain ⟨t, ⟨ht, hrt⟩, rfl⟩ := hx
    obtain ⟨t', ⟨ht', hrt'⟩, rfl⟩ := hy
    have : t = t' := eq_of_tid_eq hT ht ht' hxy
    subst this
    refine ⟨?_, rfl⟩
    simp only [reportedTo] at hrt hrt'
    cases hfl : firstLive t with
    | none => simp [hfl] at hrt
    | some l =>
      simp only [hfl, Bool.and_eq_true, beq_iff_eq] at hrt hrt'
      exact hrt.1.symm.trans hrt'.1

/-- What `wait b` has returned so far carries strictly increasing trigger ids (no repeat, trigger order), and a
    trigger returned by `wait b` is never returned by `wait b'` for another barrier. -/
theorem waited_exactly_once (ops : List Op) :
    (∀ b, ((waitedOn b ops (run init ops)).map (·.1)).Pairwise (· < ·)) ∧
    (∀ b b' x y, x ∈ waitedOn b ops (run init ops) → y ∈ waitedOn b' ops (run init ops) → x.1 = y.1 → b = b') := by
  have h := reports_exactly_once ops
  constructor
  · intro b
    obtain ⟨t, ht⟩ := waited_prefix ops b
    have := h.1 b
    rw [← ht, List.map_append] at this
    exact (List.pairwise_append.mp this).1
  · intro b b' x y hx hy hxy
    obtain ⟨t, ht⟩ := waited_prefix ops b
    obtain ⟨t', ht'⟩ := waited_prefix ops b'
    exact (h.2 b b' x y (ht ▸ List.mem_append_left _ hx) (ht' ▸ List.mem_append_left _ hy) hxy).1

example : specReports 1 spec0
    [.build .suspend (fun e => e.val == 1), .build .noop (fun _ => true), .trigger ⟨0, 1⟩, .trigger ⟨0, 0⟩,
     .dropBarrier 0, .trigger ⟨0, 1⟩] = [(1, ⟨0, 0⟩), (2, ⟨0, 1⟩)] := by decide

/-! ## outcomes: the triggering code experiences what the specification says -/

theorem outcome_step {s : State} {sp : SpecSt} (hR : R s sp) (ev : Event) :
    (step s (.trigger ev)).2.res = expectedOutcome ⟨sp.nextT, ev, false, sp.live⟩ ∧
    (step s (.triggerNoop ev)).2.res = expectedOutcome ⟨sp.nextT, ev, true, sp.live⟩ := by
  simp only [expectedOutcome, firstLive_eq hR, step, stepTrigger, stepTriggerNoop]
  cases firstMatch s.regs ev with
  | none => simp
  | some e => cases hr : e.reaction <;> simp [proj, hr]

theorem outcome_gen (ops : List Op) :
    ∀ (s : State) (sp : SpecSt), R s sp →
      triggerOuts ops (run s ops) = (triggersOf sp ops).map expectedOutcome := by
  induction ops with
  | nil => intro s sp _; simp [triggerOuts, triggersOf]
  | cons op ops ih =>
    intro s sp hR
    have h2 := ih (step s op).1 (specStep sp op) (R_step hR op)
    cases op with
    | trigger ev => simp only [triggerOuts, run, triggersOf, List.map_cons, h2, (outcome_step hR ev).1]
    | triggerNoop ev => simp only [triggerOuts, run, triggersOf, List.map_cons, h2, (outcome_step hR ev).2]
    | build r c => simpa [triggerOuts, run, triggersOf] using h2
    | wait b => simpa [triggerOuts, run, triggersOf] using h2
    | dropHandle t => simpa [triggerOuts, run, triggersOf] using h2
    | abandon t => simpa [triggerOuts, run, triggersOf] using h2
    | dropBarrier b => simpa [triggerOuts, run, triggersOf] using h2

/-- Every trigger call of every history returns / parks / panics exactly as `expectedOutcome` of the
    earliest-created live matching barrier dictates. -/
theorem outcome_matches_spec (ops : List Op) :
    triggerOuts ops (run init ops) = (triggersOf spec0 ops).map expectedOutcome :=
  outcome_gen ops init spec0 R_init

/-! ## noop never blocks -/

/-- **C20 noop_never_blocks.** A trigger whose first matching barrier is `Noop` returns at once (async and
    sync form), parks nothing, and leaves exactly one report (without a release sender) at that barrier;
    and `trigger_noop` never parks whatever it matches. -/
theorem noop_never_blocks (s : State) (ev : Event) :
    (∀ e, firstMatch s.regs ev = some e → e.reaction = .noop →
      (step s (.trigger ev)).2 = ⟨.done, []⟩ ∧ (step s (.triggerNoop ev)).2 = ⟨.done, []⟩ ∧
      (step s (.trigger ev)).1.suspended = s.suspended ∧
      queueOf e.id (step s (.trigger ev)).1.regs = queueOf e.id s.regs ++ [⟨s.nextT, ev, false⟩] ∧
      queueOf e.id (step s (.triggerNoop ev)).1.regs = queueOf e.id s.regs ++ [⟨s.nextT, ev, false⟩]) ∧
    (step s (.triggerNoop ev)).2.res ≠ .suspended ∧
    (step s (.triggerNoop ev)).1.suspended = s.suspended := by
  refine ⟨?_, ?_, ?_⟩
  · intro e hm hr
    have hlive := firstMatch_live hm
    simp [step, stepTrigger, stepTriggerNoop, hm, hr, queueOf_enqueue_self _ hlive]
  · show (stepTriggerNoop s ev).2.res ≠ .suspended
    cases hfm : firstMatch s.regs ev with
    | none => rw [stepTriggerNoop_none hfm]; simp
    | some e =>
      cases hr : e.reaction with
      | noop => rw [stepTriggerNoop_noop hfm hr]; simp
      | suspend => rw [stepTriggerNoop_suspend hfm hr]; simp
      | panic => rw [stepTriggerNoop_panic hfm hr]; simp
  · exact stepTriggerNoop_keeps s ev

/-- **Arbitrary backlog.** However many matching triggers (`n` is any number) hit a `Noop` barrier while the test
    is not waiting, every one returns at once, nothing is ever parked, and the barrier's channel holds all `n`
    reports in trigger order — the channel has no capacity the source could notice. (`once_in_order` then
    hands them to `wait` one by one.) -/
theorem noop_backlog (n : Nat) :
    ∀ (s : State) (ev : Event) (l : Live), (firstMatch s.regs ev).map proj = some l → l.reaction = .noop →
      run s (List.replicate n (.trigger ev)) = List.replicate n ⟨.done, []⟩ ∧
      run s (List.replicate n (.triggerNoop ev)) = List.replicate n ⟨.done, []⟩ ∧
      queueOf l.id (final s (List.replicate n (.trigger ev))).regs
        = queueOf l.id s.regs ++ (List.range n).map (fun i => ⟨s.nextT + i, ev, false⟩) ∧
      queueOf l.id (final s (List.replicate n (.triggerNoop ev))).regs
        = queueOf l.id s.regs ++ (List.range n).map (fun i => ⟨s.nextT + i, ev, false⟩) ∧
      (final s (List.replicate n (.trigger ev))).suspended = s.suspended ∧
      (final s (List.replicate n (.triggerNoop ev))).suspended = s.suspended := by
  induction n with
  | zero => intro s ev l _ _; simp [run, final]
  | succ n ih =>
    intro s ev l hm hr
    cases hfm : firstMatch s.regs ev with
    | none => rw [hfm] at hm; cases hm
    | some e =>
      rw [hfm] at hm
      have hl : proj e = l := by simpa using hm
      have hre : e.reaction = .noop := by rw [← hl] at hr; exact hr
      have hid : e.id = l.id := by rw [← hl]; rfl
      have hlive := firstMatch_live hfm
      -- the state after one trigger (both forms coincide on a Noop match)
      have hs1 : (step s (.trigger ev)).1 = (step s (.triggerNoop ev)).1 := by
        show (stepTrigger s ev).1 = (stepTriggerNoop s ev).1
        rw [stepTrigger_noop hfm hre, stepTriggerNoop_noop hfm hre]
      have hst : step s (.trigger ev) =
          ({ s with nextT := s.nextT + 1, regs := enqueue e.id ⟨s.nextT, ev, false⟩ s.regs }, ⟨.done, []⟩) :=
        stepTrigger_noop hfm hre
      have hstN : step s (.triggerNoop ev) =
          ({ s with nextT := s.nextT + 1, regs := enqueue e.id ⟨s.nextT, ev, false⟩ s.regs }, ⟨.done, []⟩) :=
        stepTriggerNoop_noop hfm hre
      have hm' : (firstMatch (step s (.trigger ev)).1.regs ev).map proj = some l := by
        rw [hst]
        show (firstMatch (enqueue e.id ⟨s.nextT, ev, false⟩ s.regs) ev).map proj = some l
        rw [← firstMatch_proj, proj_enqueue, firstMatch_proj, hfm]; simpa using hl
      have h := ih (step s (.trigger ev)).1 ev l hm' hr
      have hq1 : queueOf l.id (step s (.trigger ev)).1.regs = queueOf l.id s.regs ++ [⟨s.nextT, ev, false⟩] := by
        rw [hst, ← hid]; exact queueOf_enqueue_self _ hlive
      have hnt : (step s (.trigger ev)).1.nextT = s.nextT + 1 := by rw [hst]
      have hsu : (step s (.trigger ev)).1.suspended = s.suspended := by rw [hst]
      have hrange : (List.range (n + 1)).map (fun i => (⟨s.nextT + i, ev, false⟩ : Report)) =
          ⟨s.nextT, ev, false⟩ :: (List.range n).map (fun i => ⟨s.nextT + 1 + i, ev, false⟩) := by
        rw [List.range_succ_eq_map]
        simp [List.map_map, Function.comp_def, Nat.add_assoc, Nat.add_comm 1]
      obtain ⟨h1, h2, h3, h4, h5, h6⟩ := h
      refine ⟨?_, ?_, ?_, ?_, ?_, ?_⟩
      · simp only [List.replicate_succ, run]; rw [h1, hst]
      · simp only [List.replicate_succ, run]; rw [← hs1, h2, hstN]
      · simp only [List.replicate_succ, final]; rw [h3, hq1, hnt, hrange]; simp
      · simp only [List.replicate_succ, final]; rw [← hs1, h4, hq1, hnt, hrange]; simp
      · simp only [List.replicate_succ, final]; rw [h5, hsu]
      · simp only [List.replicate_succ, final]; rw [← hs1, h6, hsu]

example : (queueOf 0 (final init (.build .noop (fun _ => true) :: List.replicate 12 (.trigger ⟨0, 0⟩))).regs).length = 12 := by
  decide

example : ∃ e, firstMatch (final init [.build .noop (fun _ => true)]).regs ⟨0, 1⟩ = some e ∧ e.reaction = .noop :=
  ⟨_, rfl, rfl⟩

/-! ## panic -/

/-- **C20 panic.** If the first matching barrier is `Panic`, both trigger forms panic and nothing is reported
    or parked; `trigger_noop` on a `Suspend` barrier panics (misuse) and nothing is reported. -/
theorem panic (s : State) (ev : Event) (e : Entry) (hm : firstMatch s.regs ev = some e) :
    (e.reaction = .panic →
      (step s (.trigger ev)).2 = ⟨.panicInjected, []⟩ ∧ (step s (.triggerNoop ev)).2 = ⟨.panicInjected, []⟩ ∧
      (step s (.trigger ev)).1.regs = s.regs ∧ (step s (.triggerNoop ev)).1.regs = s.regs ∧
      (step s (.trigger ev)).1.suspended = s.suspended ∧ (step s (.trigger ev)).1.handles = s.handles) ∧
    (e.reaction = .suspend →
      (step s (.triggerNoop ev)).2 = ⟨.panicMisuse, []⟩ ∧ (step s (.triggerNoop ev)).1.regs = s.regs) := by
  constructor <;> intro hr <;> simp [step, stepTrigger, stepTriggerNoop, hm, hr]

example : firstMatch (final init [.build .panic (fun _ => true)]).regs ⟨0, 1⟩ ≠ none := by decide

/-! ## finding F-C20-1: a panicking reaction reached through the fs corruption hook aborts the process -/

/-- The `Panic` clause on what the test can observe, including the environment the fs hook runs in:
    "a Panic barrier panics the triggering code" (and `trigger_noop` on a `Suspend` barrier panics it, as documented) —
    a panic, not the death of the process. -/
def PanicClause (cfg : HookCfg) : Prop :=
  ∀ (s : State) (ev : Event) (e : Entry) (viaHookWithFiles : Bool), firstMatch s.regs ev = some e →
    (e.reaction = .panic → hookOutcome cfg viaHookWithFiles (step s (.triggerNoop ev)).2.res = .res .panicInjected) ∧
    (e.reaction = .suspend → hookOutcome cfg viaHookWithFiles (step s (.triggerNoop ev)).2.res = .res .panicMisuse)

/-- The unchanged code violates it: one `Panic` barrier on the corruption event, one corrupted read by code that
    holds a file. -/
theorem C20_witness_F_C20_1 : ¬ PanicClause faithfulHook := by
  intro h
  have := (h (final init [.build .panic (fun _ => true)]) ⟨2, 0⟩ _ true rfl).1 rfl
  revert this; decide

/-- Largest fragment that holds on the unchanged code: wherever the pattern does not apply (the trigger did not come
    through the fs hook under open files, or the reaction does not panic) the outcome is exactly the barrier model's. -/
theorem C20_partial (via : Bool) (r : Res) (hp : patHookPanicAborts via r = false) :
    hookOutcome faithfulHook via r = .res r := by
  simp [hookOutcome, hp]

/-- With the drop path tolerating the poisoned mutex the clause holds at full strength. -/
theorem C20_fixed : PanicClause fixedHook := by
  intro s ev e via hm
  have hp := panic s ev e hm
  constructor
  · intro hr; simp [hookOutcome, fixedHook, (hp.1 hr).2.1]
  · intro hr; simp [hookOutcome, fixedHook, (hp.2 hr).1]

example : patHookPanicAborts true .panicInjected = true ∧ patHookPanicAborts false .panicInjected = false ∧
    patHookPanicAborts true .done = false := by decide

/-! ## unmatched triggers -/

/-- **C20 unmatched_immediate.** A trigger that matches no live barrier returns at once and changes nothing
    but the call counter — in particular it is reported nowhere. -/
theorem unmatched_immediate (s : State) (ev : Event) (hm : firstMatch s.regs ev = none) :
    (step s (.trigger ev)).2 = ⟨.done, []⟩ ∧ (step s (.triggerNoop ev)).2 = ⟨.done, []⟩ ∧
    (step s (.trigger ev)).1 = { s with nextT := s.nextT + 1 } ∧
    (step s (.triggerNoop ev)).1 = { s with nextT := s.nextT + 1 } := by
  simp [step, stepTrigger, stepTriggerNoop, hm]

theorem firstMatch_removeId_none (b : Nat) (regs : List Entry) (ev : Event)
    (h : ∀ e ∈ regs, e.cond ev = true → e.id = b) : firstMatch (removeId b regs) ev = none := by
  simp only [firstMatch, List.find?_eq_none, removeId, List.mem_filter]
  intro e ⟨he, hne⟩ hc
  have := h e he (by simpa using hc)
  simp [this] at hne

/-- … including after the barrier was dropped: if `b` is the only live barrier that could match `ev`, then
    after `drop(b)` a trigger with `ev` is unmatched (whatever `b`'s reaction was, whatever was queued). -/
theorem unmatched_after_drop (s : State) (b : Nat) (ev : Event)
    (h : ∀ e ∈ s.regs, e.cond ev = true → e.id = b) (hl : isLive b s.regs = true) :
    firstMatch (step s (.dropBarrier b)).1.regs ev = none ∧
    (step (step s (.dropBarrier b)).1 (.trigger ev)).2 = ⟨.done, []⟩ ∧
    (step (step s (.dropBarrier b)).1 (.triggerNoop ev)).2 = ⟨.done, []⟩ := by
  have h0 : firstMatch (step s (.dropBarrier b)).1.regs ev = none := by
    simp only [step, hl, if_true]
    exact firstMatch_removeId_none b s.regs ev h
  exact ⟨h0, (unmatched_immediate _ ev h0).1, (unmatched_immediate _ ev h0).2.1⟩

example : firstMatch (final init [.build .suspend (fun e => e.val == 1), .dropBarrier 0]).regs ⟨0, 1⟩ = none := by
  decide

/-! ## earliest created wins -/

theorem find_first_sorted (p : Entry → Bool) :
    ∀ (regs : List Entry) (e : Entry), regs.find? p = some e → (ids regs).Pairwise (· < ·) →
      ∀ e' ∈ regs, p e' = true → e.id ≤ e'.id := by
  intro regs
  induction regs with
  | nil => intro e h; simp at h
  | cons x xs ih =>
    intro e h hs e' he' hp
    simp only [ids, List.map_cons, List.pairwise_cons] at hs
    simp only [List.find?_cons] at h
    cases hx : p x with
    | true =>
      rw [hx] at h
      injection h with h; subst h
      rcases List.mem_cons.mp he' with rfl | hmem
      · exact Nat.le_refl _
      · exact Nat.le_of_lt (hs.1 _ (List.mem_map.mpr ⟨e', hmem, rfl⟩))
    | false =>
      rw [hx] at h
      rcases List.mem_cons.mp he' with rfl | hmem
      · rw [hx] at hp; cases hp
      · exact ih e h hs.2 e' hmem hp

/-- **C20 earliest_created.** In every reachable state, when several live barriers match a trigger the one
    with the smallest id — ids are handed out in creation order — is the one consulted, and the report (if any)
    is appended to that barrier's channel only. -/
theorem earliest_created {s : State} (hs : Reachable s) (ev : Event) (e : Entry)
    (hm : firstMatch s.regs ev = some e) :
    (∀ e' ∈ s.regs, e'.cond ev = true → e.id ≤ e'.id) ∧
    (∀ b, b ≠ e.id → queueOf b (step s (.trigger ev)).1.regs = queueOf b s.regs ∧
                     queueOf b (step s (.triggerNoop ev)).1.regs = queueOf b s.regs) := by
  refine ⟨find_first_sorted _ s.regs e hm hs.wf.sorted, ?_⟩
  intro b hb
  simp only [step, stepTrigger, stepTriggerNoop, hm]
  cases e.reaction <;> simp [queueOf_enqueue_ne hb]

/-- ids really are creation order: a later `build` gets a larger id than every live barrier. -/
theorem build_id_fresh {s : State} (hs : Reachable s) (r : Reaction) (c : Event → Bool) :
    (step s (.build r c)).2.res = .built s.nextB ∧ ∀ e ∈ s.regs, e.id < s.nextB :=
  ⟨rfl, hs.wf.idsLt⟩

example : (final init [.build .noop (fun _ => true), .build .suspend (fun _ => true), .trigger ⟨0, 0⟩]).suspended = [] := by
  decide

/-! ## suspend -/

/-- **C20 suspend (state form).** In every reachable state a trigger call is parked iff a live object still holds
    its release sender — a report in the channel of a live barrier, or a `Triggered` handle the test has not
    dropped — and the call itself has not been abandoned (its future dropped: task cancelled, host crashed). -/
theorem suspend {s : State} (hs : Reachable s) (t : Nat) :
    t ∈ s.suspended ↔ (t ∈ heldTids (allQ s.regs) ∨ t ∈ heldTids s.handles) ∧ t ∉ s.abandoned :=
  (susp_inv hs).mem_iff t

/-- **C20 suspend (step form).** Only dropping a handle or a barrier resumes anything; dropping handle `t`
    resumes `t` iff `t` is parked and the handle is the one holding its sender; dropping barrier `b` resumes
    exactly the parked triggers whose reports are still in `b`'s channel; every resumed trigger was parked,
    is no longer parked, and every other parked trigger stays parked (unless that very call is abandoned). -/
theorem suspend_step {s : State} (hs : Reachable s) (op : Op) :
    (∀ t ∈ (step s op).2.resumed, t ∈ s.suspended ∧ t ∉ (step s op).1.suspended) ∧
    (∀ t ∈ s.suspended, t ∉ (step s op).2.resumed → op ≠ .abandon t → t ∈ (step s op).1.suspended) ∧
    ((step s op).2.resumed ≠ [] → (∃ t, op = .dropHandle t) ∨ (∃ b, op = .dropBarrier b)) ∧
    (∀ t, op = .dropHandle t →
        ((step s op).2.resumed = [t] ↔ t ∈ heldTids s.handles ∧ t ∈ s.suspended) ∧
        ((step s op).2.resumed = [] ↔ ¬ (t ∈ heldTids s.handles ∧ t ∈ s.suspended))) ∧
    (∀ b, op = .dropBarrier b → isLive b s.regs = true →
        (step s op).2.resumed = stillParked s.suspended (heldTids (queueOf b s.regs))) :=
  susp_step hs op

/-- **Dropping a Suspend handle releases exactly that one trigger.** In every reachable state, if the test holds
    the handle of a parked trigger `t` (a report with a release sender that `wait` handed out), dropping it resumes
    `t` and nothing else: `t` was parked and is not any more, every other parked trigger stays parked. Dropping a
    handle that holds no sender (Noop report, unknown id) or whose call was abandoned resumes nothing and changes the
    parked set not at all. -/
theorem drop_handle_releases_exactly_one {s : State} (hs : Reachable s) (t : Nat) :
    (t ∈ heldTids s.handles → t ∈ s.suspended →
      (step s (.dropHandle t)).2.resumed = [t] ∧ t ∉ (step s (.dropHandle t)).1.suspended ∧
      ∀ t' ∈ s.suspended, t' ≠ t → t' ∈ (step s (.dropHandle t)).1.suspended) ∧
    (¬ (t ∈ heldTids s.handles ∧ t ∈ s.suspended) →
      (step s (.dropHandle t)).2.resumed = [] ∧
      ∀ t', t' ∈ s.suspended ↔ t' ∈ (step s (.dropHandle t)).1.suspended) := by
  obtain ⟨h1, h2, _, h4, _⟩ := susp_step hs (.dropHandle t)
  have h4' := h4 t rfl
  constructor
  · intro hm hsu
    have hr := h4'.1.mpr ⟨hm, hsu⟩
    have ht := h1 t (by rw [hr]; exact List.mem_singleton.mpr rfl)
    refine ⟨hr, ht.2, ?_⟩
    intro t' ht' hne
    exact h2 t' ht' (by rw [hr]; simpa using hne) (by intro h; cases h)
  · intro hm
    have hr := h4'.2.mpr hm
    refine ⟨hr, ?_⟩
    intro t'
    constructor
    · intro ht'; exact h2 t' ht' (by rw [hr]; simp) (by intro h; cases h)
    · intro ht'
      -- nothing is ever added to the parked set by a drop
      have : (step s (.dropHandle t)).1.suspended = without s.suspended (heldTids (s.handles.filter (fun r => r.tid == t))) := rfl
      rw [this] at ht'
      exact (mem_without.mp ht').1

/-- **Stays parked until dropped.** From any reachable state, a parked trigger `t` is still parked after any
    continuation that contains neither `dropHandle t` nor a barrier drop nor the abandonment of `t` itself — builds,
    further triggers of every kind, waits (which only move its sender from a channel into a handle), drops of *other*
    handles and the abandonment of *other* calls do not release it. -/
theorem stays_parked (ops : List Op) : ∀ {s : State}, Reachable s → ∀ t ∈ s.suspended,
    (∀ op ∈ ops, op ≠ .dropHandle t ∧ op ≠ .abandon t ∧ ∀ b, op ≠ .dropBarrier b) → t ∈ (final s ops).suspended := by
  induction ops with
  | nil => intro s _ t ht _; exact ht
  | cons op ops ih =>
    intro s hs t ht hops
    have hop := hops op List.mem_cons_self
    obtain ⟨_, h2, h3, h4, _⟩ := susp_step hs op
    have hnot : t ∉ (step s op).2.resumed := by
      intro hmem
      have hne : (step s op).2.resumed ≠ [] := by intro h0; rw [h0] at hmem; cases hmem
      rcases h3 hne with ⟨t', rfl⟩ | ⟨b, rfl⟩
      · have htt : t' ≠ t := fun h => hop.1 (h ▸ rfl)
        by_cases hh : t' ∈ heldTids s.handles ∧ t' ∈ s.suspended
        · rw [(h4 t' rfl).1.mpr hh] at hmem
          exact htt (List.mem_singleton.mp hmem).symm
        · rw [(h4 t' rfl).2.mpr hh] at hmem; cases hmem
      · exact hop.2.2 b rfl
    exact ih (Reachable.step op hs) t (h2 t ht hnot hop.2.1) (fun o ho => hops o (List.mem_cons_of_mem _ ho))

example : 0 ∈ (final init [.build .suspend (fun _ => true), .trigger ⟨0, 0⟩, .trigger ⟨0, 5⟩, .wait 0, .wait 0,
    .dropHandle 1, .build .noop (fun _ => true), .triggerNoop ⟨0, 1⟩, .abandon 1]).suspended := by decide

/-- **An abandoned call.** Dropping the parked future of call `t` (its task is cancelled, its host crashes) takes `t` out of
    the parked set and nothing else; its report stays where it is — `wait` still hands it out, exactly once
    (`once_in_order` does not mention `abandon`) — and dropping its handle or barrier later resumes nobody for it. -/
theorem abandon_spec {s : State} (hs : Reachable s) (t : Nat) (ht : t < s.nextT) :
    (step s (.abandon t)).2 = ⟨.ok, []⟩ ∧
    (step s (.abandon t)).1.regs = s.regs ∧ (step s (.abandon t)).1.handles = s.handles ∧
    (∀ t', t' ∈ (step s (.abandon t)).1.suspended ↔ t' ∈ s.suspended ∧ t' ≠ t) ∧
    (∀ ops, t ∉ (final (step s (.abandon t)).1 ops).suspended ∧
            ∀ o ∈ run (step s (.abandon t)).1 ops, t ∉ o.resumed) := by
  refine ⟨rfl, rfl, rfl, ?_, ?_⟩
  · intro t'
    show t' ∈ s.suspended.filter (fun y => y != t) ↔ _
    simp [List.mem_filter]
  · -- `t < nextT` and `t ∉ suspended` is preserved by every step (only a fresh call enters the parked set)
    have key : ∀ (ops : List Op) (s' : State), Reachable s' → t < s'.nextT → t ∉ s'.suspended →
        t ∉ (final s' ops).suspended ∧ ∀ o ∈ run s' ops, t ∉ o.resumed := by
      intro ops
      induction ops with
      | nil => intro s' _ _ h; exact ⟨h, by intro o ho; cases ho⟩
      | cons op ops ih =>
        intro s' hs' hlt hns
        obtain ⟨h1, _, _, _, _⟩ := susp_step hs' op
        have hnres : t ∉ (step s' op).2.resumed := fun hm => hns (h1 t hm).1
        have hns' : t ∉ (step s' op).1.suspended := by
          cases op with
          | build r c => exact hns
          | trigger ev =>
            show t ∉ (stepTrigger s' ev).1.suspended
            cases hfm : firstMatch s'.regs ev with
            | none => rw [stepTrigger_none hfm]; exact hns
            | some e =>
              cases hr : e.reaction with
              | noop => rw [stepTrigger_noop hfm hr]; exact hns
              | suspend =>
                rw [stepTrigger_suspend hfm hr]
                simp only [List.mem_append, List.mem_singleton, not_or]
                exact ⟨hns, Nat.ne_of_lt hlt⟩
              | panic => rw [stepTrigger_panic hfm hr]; exact hns
          | triggerNoop ev => show t ∉ (stepTriggerNoop s' ev).1.suspended; rw [stepTriggerNoop_keeps]; exact hns
          | wait b => simp only [step]; cases queueOf b s'.regs <;> exact hns
          | dropHandle t' => exact fun hm => hns (mem_without.mp hm).1
          | dropBarrier b =>
            cases hl : isLive b s'.regs with
            | false => rw [step_dropBarrier_dead hl]; exact hns
            | true => rw [step_dropBarrier_live hl]; exact fun hm => hns (mem_without.mp hm).1
          | abandon t' => exact fun hm => hns (List.mem_filter.mp hm).1
        have hlt' : t < (step s' op).1.nextT := by
          cases op with
          | build r c => exact hlt
          | trigger ev =>
            show t < (stepTrigger s' ev).1.nextT
            cases hfm : firstMatch s'.regs ev with
            | none => rw [stepTrigger_none hfm]; exact Nat.lt_succ_of_lt hlt
            | some e =>
              cases hr : e.reaction with
              | noop => rw [stepTrigger_noop hfm hr]; exact Nat.lt_succ_of_lt hlt
              | suspend => rw [stepTrigger_suspend hfm hr]; exact Nat.lt_succ_of_lt hlt
              | panic => rw [stepTrigger_panic hfm hr]; exact Nat.lt_succ_of_lt hlt
          | triggerNoop ev =>
            show t < (stepTriggerNoop s' ev).1.nextT
            cases hfm : firstMatch s'.regs ev with
            | none => rw [stepTriggerNoop_none hfm]; exact Nat.lt_succ_of_lt hlt
            | some e =>
              cases hr : e.reaction with
              | noop => rw [stepTriggerNoop_noop hfm hr]; exact Nat.lt_succ_of_lt hlt
              | suspend => rw [stepTriggerNoop_suspend hfm hr]; exact Nat.lt_succ_of_lt hlt
              | panic => rw [stepTriggerNoop_panic hfm hr]; exact Nat.lt_succ_of_lt hlt
          | wait b => simp only [step]; cases queueOf b s'.regs <;> exact hlt
          | dropHandle t' => exact hlt
          | dropBarrier b =>
            cases hl : isLive b s'.regs with
            | false => rw [step_dropBarrier_dead hl]; exact hlt
            | true => rw [step_dropBarrier_live hl]; exact hlt
          | abandon t' => exact hlt
        have := ih (step s' op).1 (Reachable.step op hs') hlt' hns'
        refine ⟨this.1, ?_⟩
        intro o ho
        simp only [run, List.mem_cons] at ho
        rcases ho with rfl | ho
        · exact hnres
        · exact this.2 o ho
    intro ops
    exact key ops _ (Reachable.step _ hs) ht (fun hm => by
      have := (List.mem_filter.mp hm).2
      simp at this)

/-- A parked trigger has exactly one holder: its sender is either in one live barrier's channel or in one
    handle, never in both and never twice. -/
theorem holder_unique {s : State} (hs : Reachable s) (t : Nat) (ht : t ∈ s.suspended) :
    (heldTids (allReports s)).count t = 1 ∧ ¬ (t ∈ heldTids (allQ s.regs) ∧ t ∈ heldTids s.handles) := by
  have hI := susp_inv hs
  have hnd : (heldTids (allReports s)).Nodup := by
    have hsub : (heldTids (allReports s)).Sublist (tidsOf (allReports s)) := (List.filter_sublist).map _
    exact List.Nodup.sublist hsub hI.nodup
  have hmem : t ∈ heldTids (allReports s) := ((hI.mem_iff' t).mp ht).1
  refine ⟨?_, ?_⟩
  · have h1 : (heldTids (allReports s)).count t ≤ 1 := List.nodup_iff_count.mp hnd t
    have h2 : 0 < (heldTids (allReports s)).count t := List.count_pos_iff.mpr hmem
    omega
  · rintro ⟨hq, hh⟩
    obtain ⟨r, hr, _, hrt⟩ := mem_heldTids.mp hq
    obtain ⟨r', hr', _, hrt'⟩ := mem_heldTids.mp hh
    exact cross_ne hI.nodup hr hr' (by rw [hrt, hrt'])

example : (step (final init [.build .suspend (fun _ => true), .trigger ⟨0, 0⟩, .trigger ⟨0, 1⟩, .wait 0, .wait 0])
    (.dropHandle 1)).2.resumed = [1] := by decide

/-- A `Suspend`-matched async trigger parks, with its sender in the matched barrier's channel. -/
theorem suspend_onset (s : State) (ev : Event) (e : Entry) (hm : firstMatch s.regs ev = some e)
    (hr : e.reaction = .suspend) :
    (step s (.trigger ev)).2 = ⟨.suspended, []⟩ ∧
    (step s (.trigger ev)).1.suspended = s.suspended ++ [s.nextT] ∧
    queueOf e.id (step s (.trigger ev)).1.regs = queueOf e.id s.regs ++ [⟨s.nextT, ev, true⟩] := by
  have hlive := firstMatch_live hm
  simp [step, stepTrigger, hm, hr, queueOf_enqueue_self _ hlive]

example : (final init [.build .suspend (fun _ => true), .trigger ⟨0, 0⟩]).suspended = [0] := by decide
example : (final init [.build .suspend (fun _ => true), .trigger ⟨0, 0⟩, .wait 0, .dropHandle 0]).suspended = [] := by
  decide
example : (final init [.build .suspend (fun _ => true), .trigger ⟨0, 0⟩, .dropBarrier 0]).suspended = [] := by
  decide

end TV.C20
