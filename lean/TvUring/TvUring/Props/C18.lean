/-
C18 — every io_uring submission completes exactly once with the right result.
Statements, property theorems, non-vacuity examples. Theorems hold for every operation list, every latency
oracle, every shuffle oracle (`pick`), every queue depth and every file content; the machine `M` is one ring
in an environment that may rewrite the files arbitrarily between ring operations (other rings, shim calls).
-/
import TvUring.Proofs.Ring

namespace TV.C18
open TV.Ring

/-! ## reachability -/

theorem inv_final (ops : List MOp) : ∀ (m : M), Inv m.now m.ring → Inv (M.final m ops).now (M.final m ops).ring := by
  induction ops with
  | nil => intro m h; exact h
  | cons op ops ih =>
    intro m h
    apply ih
    cases op with
    | ring rop => exact Inv_ringStep h rop
    | advance dt => exact h.mono (Nat.le_add_right _ _)
    | env fs => exact h

theorem inv_reach (depth : Nat) (fs : Files) (ops : List MOp) :
    Inv (M.final (M.init depth fs) ops).now (M.final (M.init depth fs) ops).ring :=
  inv_final ops _ (Inv_new 0 depth)

/-! ## exactly once -/

/-- **C18 exactly_once (conservation).** After any history, every accepted submission id is in exactly one
    place: still in the SQ, in flight, matured-undrained, or drained. (`toks` lists the four pools;
    `List.range nextSid` are the ids handed out by accepted pushes.) Cancels do not break this: the target's
    `-ECANCELED` replacement inherits the target's id, the cancel's own id moves from the SQ to in-flight. -/
theorem exactly_once (depth : Nat) (fs : Files) (ops : List MOp) :
    (toks (M.final (M.init depth fs) ops).ring).Perm (List.range (M.final (M.init depth fs) ops).ring.nextSid) :=
  (inv_reach depth fs ops).tok

/-- … so once the ring is drained, the drained stream has exactly one completion per accepted submission. -/
theorem exactly_once_drained (depth : Nat) (fs : Files) (ops : List MOp)
    (hsq : (M.final (M.init depth fs) ops).ring.sq = [])
    (hin : (M.final (M.init depth fs) ops).ring.inflight = [])
    (hre : (M.final (M.init depth fs) ops).ring.ready.flatten = []) :
    let r := (M.final (M.init depth fs) ops).ring
    (r.drained.map (·.sid)).Perm (List.range r.nextSid) ∧
    (r.drained.map (·.sid)).Nodup ∧
    ∀ sid, sid < r.nextSid → (r.drained.map (·.sid)).count sid = 1 := by
  intro r
  have h := exactly_once depth fs ops
  have hp : (r.drained.map (·.sid)).Perm (List.range r.nextSid) := by
    have : toks r = r.drained.map (·.sid) := by
      simp [toks, sidsNoSq, sidL, r, hsq, hin, hre]
    rw [← this]; exact h
  refine ⟨hp, hp.nodup_iff.mpr List.nodup_range, ?_⟩
  intro sid hsid
  rw [hp.count_eq]
  have h1 : (List.range r.nextSid).count sid ≤ 1 := List.nodup_iff_count.mp List.nodup_range sid
  have h2 : 0 < (List.range r.nextSid).count sid := List.count_pos_iff.mpr (List.mem_range.mpr hsid)
  omega

/-- Each completion carries the user_data of the submission it belongs to (`acc` records `(id, user_data)`
    of every accepted push), is not early, and — if it is the completion of a cancelled target — is
    `-ECANCELED` and executed nothing. -/
theorem completion_facts (depth : Nat) (fs : Files) (ops : List MOp) :
    ∀ d ∈ (M.final (M.init depth fs) ops).ring.drained,
      (d.sid, d.ud) ∈ (M.final (M.init depth fs) ops).ring.acc ∧
      d.at_ + d.lat ≤ d.t ∧
      (d.canc = true → d.res = ECANCELED ∧ d.apply = .imm ECANCELED ∧ ∀ fs', (exec fs' d.apply).1 = fs') := by
  intro d hd
  have h := (inv_reach depth fs ops).doneOk d hd
  refine ⟨h.ud, h.notEarly, ?_⟩
  intro hc
  have := h.canc hc
  exact ⟨this.2, this.1, fun fs' => by rw [this.1]; rfl⟩

/-- `acc` is exactly the accepted pushes: ids `0 … nextSid-1` in order. -/
theorem acc_ids_ringStep (now : Nat) (fs : Files) (r : RingSt) (op : ROp)
    (h : r.acc.map (·.1) = List.range r.nextSid) :
    (ringStep now fs r op).1.acc.map (·.1) = List.range (ringStep now fs r op).1.nextSid := by
  cases op with
  | push e =>
    simp only [ringStep]
    split
    · exact h
    · simp [h, List.range_succ]
  | submit lats =>
    simp only [ringStep]
    have hfr := submitLoop_frame now r.sq lats { r with sq := [] }
    rw [hfr.acc, hfr.nextSid]; exact h
  | cqnew => exact h
  | cqsync => exact h
  | readable => exact h
  | sqinfo => exact h
  | next pick =>
    simp only [ringStep]
    split
    · exact h
    · exact h
    · have hfr := (promote_spec r now).1
      split
      · rw [hfr.acc, hfr.nextSid]; exact h
      · simp only; rw [hfr.acc, hfr.nextSid]; exact h

theorem acc_ids (depth : Nat) (fs : Files) (ops : List MOp) :
    (M.final (M.init depth fs) ops).ring.acc.map (·.1) = List.range (M.final (M.init depth fs) ops).ring.nextSid := by
  have gen : ∀ (ops : List MOp) (m : M), m.ring.acc.map (·.1) = List.range m.ring.nextSid →
      (M.final m ops).ring.acc.map (·.1) = List.range (M.final m ops).ring.nextSid := by
    intro ops
    induction ops with
    | nil => intro m h; exact h
    | cons op ops ih =>
      intro m h
      apply ih
      cases op with
      | ring rop => exact acc_ids_ringStep _ _ _ rop h
      | advance dt => exact h
      | env fs => exact h
  exact gen ops _ (by simp [M.init, RingSt.new])

/-- A push is accepted iff it is reported `pushed`; an accepted push gets the next id and records its user_data. -/
theorem push_accepts (now : Nat) (fs : Files) (r : RingSt) (e : Sqe) :
    ((ringStep now fs r (.push e)).2.2 = .pushed ↔ r.sq.length < r.depth) ∧
    (r.sq.length < r.depth →
      (ringStep now fs r (.push e)).1.sq = r.sq ++ [(r.nextSid, e)] ∧
      (ringStep now fs r (.push e)).1.acc = r.acc ++ [(r.nextSid, e.ud)] ∧
      (ringStep now fs r (.push e)).1.nextSid = r.nextSid + 1) := by
  simp only [ringStep]
  by_cases h : r.depth ≤ r.sq.length
  · simp [h, Nat.not_lt.mpr h]
  · simp [h, Nat.lt_of_not_le h]

/-- A cancel that finds its target in flight replaces it — same submission id, same user_data — by an
    immediate `-ECANCELED` completion; the target's own operation is gone from the ring. -/
theorem cancel_replaces_target (r : RingSt) (now csid cud t : Nat) (x : Sched) (rest : List Sched)
    (h : removeFirst (fun y => y.ud == t) r.inflight = some (x, rest)) :
    (cancelStep r now csid cud t).inflight =
      rest ++ [⟨now, t, .imm ECANCELED, x.sid, now, 0, true⟩, ⟨now, cud, .imm 0, csid, now, 0, false⟩] ∧
    x.ud = t ∧ r.inflight.Perm (x :: rest) := by
  refine ⟨by simp [cancelStep, h], by simpa using removeFirst_prop h, removeFirst_perm h⟩

/-- … likewise when the target has matured but was not drained yet (it sits in `ready`). -/
theorem cancel_replaces_matured (r : RingSt) (now csid cud t : Nat) (x : Sched) (ready' : List (List Sched))
    (h0 : removeFirst (fun y => y.ud == t) r.inflight = none)
    (h : removeFirstB (fun y => y.ud == t) r.ready = some (x, ready')) :
    (cancelStep r now csid cud t).ready = ready' ∧
    (cancelStep r now csid cud t).inflight =
      r.inflight ++ [⟨now, t, .imm ECANCELED, x.sid, now, 0, true⟩, ⟨now, cud, .imm 0, csid, now, 0, false⟩] ∧
    x.ud = t ∧ r.ready.flatten.Perm (x :: ready'.flatten) := by
  refine ⟨by simp [cancelStep, h0, h], by simp [cancelStep, h0, h], by simpa using removeFirstB_prop h,
    removeFirstB_perm h⟩

/-- Liveness of draining: with something visible and something matured, `next` yields a completion. -/
theorem next_yields (now : Nat) (fs : Files) (r : RingSt) (pick k : Nat)
    (hv : r.visible = some (k + 1)) (hc : 0 < readyCount r now) :
    ∃ ud res buf, (ringStep now fs r (.next pick)).2.2 = .cqe ud res buf := by
  simp only [ringStep, hv]
  have hne : (promote r now).ready.flatten ≠ [] := by
    unfold promote
    split
    · rename_i hnil
      simp only [readyCount, hnil, List.length_nil, Nat.add_zero] at hc
      intro h; rw [h] at hc; simp at hc
    · simp
  obtain ⟨x, bs', hp⟩ := popPick_some_of_ne pick hne
  rw [hp]
  exact ⟨_, _, _, rfl⟩

example :
    let m := M.final (M.init 2 ⟨[⟨[1, 2, 3], [1, 2, 3]⟩], [(0, true)]⟩)
      [.ring (.push ⟨7, .read 0 0 2, false⟩), .ring (.push ⟨8, .write 0 1 [9], false⟩), .ring (.submit [5, 3]),
       .advance 10, .ring .cqsync, .ring (.next 1), .ring (.next 0)]
    m.ring.drained.map (·.ud) = [8, 7] ∧ m.ring.inflight = [] ∧ m.ring.ready.flatten = [] ∧ m.ring.sq = [] := by
  decide

/-! ## a cancelled operation never executes — over all later steps -/

/-- `s` is the submission id of a cancelled target: wherever it still is, it is the `-ECANCELED` replacement. -/
structure Marked (s : Nat) (r : RingSt) : Prop where
  notSq : s ∉ r.sq.map (·.1)
  lt : s < r.nextSid
  pool : ∀ x ∈ pool r, x.sid = s → x.canc = true
  done : ∀ d ∈ r.drained, d.sid = s → d.canc = true

theorem Marked_ringStep {s now : Nat} {fs : Files} {r : RingSt} (hm : Marked s r) (op : ROp) :
    Marked s (ringStep now fs r op).1 := by
  cases op with
  | push e =>
    simp only [ringStep]
    split
    · exact hm
    · refine ⟨?_, Nat.lt_succ_of_lt hm.lt, hm.pool, hm.done⟩
      simp only [List.map_append, List.map_cons, List.map_nil, List.mem_append, List.mem_singleton, not_or]
      exact ⟨hm.notSq, Nat.ne_of_lt hm.lt⟩
  | submit lats =>
    simp only [ringStep]
    have hfr := submitLoop_frame now r.sq lats { r with sq := [] }
    refine ⟨?_, ?_, ?_, ?_⟩
    · rw [hfr.sq]; simp
    · rw [hfr.nextSid]; exact hm.lt
    · apply submitLoop_pool_pred now (fun y => y.sid = s → y.canc = true) r.sq lats { r with sq := [] }
      · exact hm.pool
      · intro y hy _ hys; exact absurd (hys ▸ hy) hm.notSq
      · intro x _ _; rfl
    · rw [hfr.drained]; exact hm.done
  | cqnew => exact ⟨hm.notSq, hm.lt, hm.pool, hm.done⟩
  | cqsync => exact ⟨hm.notSq, hm.lt, hm.pool, hm.done⟩
  | readable => exact hm
  | sqinfo => exact hm
  | next pick =>
    simp only [ringStep]
    split
    · exact hm
    · exact hm
    · obtain ⟨hfr, hperm, _⟩ := promote_spec r now
      have hp1 : ∀ x ∈ pool (promote r now), x.sid = s → x.canc = true :=
        fun x hx => hm.pool x (hperm.mem_iff.mp hx)
      split
      · exact ⟨by rw [hfr.sq]; exact hm.notSq, by rw [hfr.nextSid]; exact hm.lt, hp1, by rw [hfr.drained]; exact hm.done⟩
      · rename_i x ready' hpop
        have hpp := popPick_perm hpop
        have hxmem : x ∈ pool (promote r now) := List.mem_append_right _ (hpp.mem_iff.mpr List.mem_cons_self)
        refine ⟨by rw [hfr.sq]; exact hm.notSq, by rw [hfr.nextSid]; exact hm.lt, ?_, ?_⟩
        · intro y hy
          simp only [pool, List.mem_append] at hy
          rcases hy with hy | hy
          · exact hp1 y (List.mem_append_left _ hy)
          · exact hp1 y (List.mem_append_right _ (hpp.mem_iff.mpr (List.mem_cons_of_mem _ hy)))
        · intro d hd
          simp only [List.mem_append, List.mem_singleton] at hd
          rcases hd with hd | rfl
          · rw [hfr.drained] at hd; exact hm.done d hd
          · exact hp1 x hxmem

theorem Marked_final {s : Nat} (ops : List MOp) : ∀ (m : M), Marked s m.ring → Marked s (M.final m ops).ring := by
  induction ops with
  | nil => intro m h; exact h
  | cons op ops ih =>
    intro m h
    apply ih
    cases op with
    | ring rop => exact Marked_ringStep h rop
    | advance dt => exact h
    | env fs => exact h

theorem eq_of_sid_eq : ∀ {l : List Sched}, (sidL l).Nodup → ∀ {a b : Sched}, a ∈ l → b ∈ l → a.sid = b.sid → a = b
  | [], _, a, _, ha, _, _ => by cases ha
  | x :: xs, h, a, b, ha, hb, hab => by
    simp only [sidL, List.map_cons, List.nodup_cons] at h
    rcases List.mem_cons.mp ha with rfl | ha' <;> rcases List.mem_cons.mp hb with rfl | hb'
    · rfl
    · exact absurd (List.mem_map.mpr ⟨b, hb', hab.symm⟩) h.1
    · exact absurd (List.mem_map.mpr ⟨a, ha', hab⟩) h.1
    · exact eq_of_sid_eq (l := xs) h.2 ha' hb' hab

/-- the `-ECANCELED` replacement of a cancelled target marks its submission id -/
theorem Marked_of_canc {now : Nat} {r : RingSt} (hI : Inv now r) {x : Sched} (hx : x ∈ pool r) (hc : x.canc = true) :
    Marked x.sid r := by
  have hnd : (toks r).Nodup := hI.tok.nodup_iff.mpr List.nodup_range
  rw [toks_eq] at hnd
  have hxs : x.sid ∈ sidL (pool r) := List.mem_map.mpr ⟨x, hx, rfl⟩
  obtain ⟨_, h2, h3⟩ := List.nodup_append.mp hnd
  obtain ⟨h4, _, h6⟩ := List.nodup_append.mp h2
  refine ⟨?_, ?_, ?_, ?_⟩
  · intro hsq
    exact h3 _ hsq _ (List.mem_append_left _ hxs) rfl
  · have : x.sid ∈ toks r := by rw [toks_eq]; exact List.mem_append_right _ (List.mem_append_left _ hxs)
    exact List.mem_range.mp (hI.tok.mem_iff.mp this)
  · intro y hy hys
    have := eq_of_sid_eq h4 hy hx hys
    rw [this]; exact hc
  · intro d hd hds
    exact absurd rfl (h6 _ hxs _ (List.mem_map.mpr ⟨d, hd, hds⟩))

/-- **C18: a cancelled operation is never executed, whatever happens later.** Take any reachable ring state in
    which a cancelled target's replacement `x` is still pending (`canc`; see `cancel_replaces_target` /
    `cancel_replaces_matured` for how it gets there). Then for *every* continuation — more pushes, submits,
    further cancels, time, drains in any shuffle, arbitrary file changes by the environment — every completion
    ever recorded for that submission id executed the immediate `-ECANCELED` and nothing else: no `read` (its buffer
    is never written), no `write`, no `fsync` (no file effect); and there is at most one such completion. -/
theorem cancelled_never_executes (m : M) (hI : Inv m.now m.ring) (x : Sched) (hx : x ∈ pool m.ring)
    (hc : x.canc = true) (ops : List MOp) :
    (∀ d ∈ (M.final m ops).ring.drained, d.sid = x.sid →
        d.apply = .imm ECANCELED ∧ d.res = ECANCELED ∧ (∀ fs, (exec fs d.apply).1 = fs) ∧
        (∀ fd off len, d.apply ≠ .read fd off len)) ∧
    ((M.final m ops).ring.drained.map (·.sid)).count x.sid ≤ 1 := by
  have hM := Marked_final ops m (Marked_of_canc hI hx hc)
  have hIf := inv_final ops m hI
  constructor
  · intro d hd hds
    have hcd := hM.done d hd hds
    have := (hIf.doneOk d hd).canc hcd
    refine ⟨this.1, this.2, fun fs => by rw [this.1]; rfl, fun fd off len => by rw [this.1]; intro h; cases h⟩
  · have hnd : (toks (M.final m ops).ring).Nodup := hIf.tok.nodup_iff.mpr List.nodup_range
    rw [toks_eq] at hnd
    have := (List.nodup_append.mp (List.nodup_append.mp hnd).2.1).2.1
    exact List.nodup_iff_count.mp this _

example :
    let m := M.final (M.init 4 ⟨[⟨[1, 2, 3], [1, 2, 3]⟩], [(0, true)]⟩)
      [.ring (.push ⟨7, .read 0 0 2, false⟩), .ring (.submit [5]), .ring (.push ⟨9, .cancel 7, false⟩), .ring (.submit [])]
    ∃ x ∈ pool m.ring, x.canc = true ∧ x.ud = 7 := by
  refine ⟨⟨0, 7, .imm ECANCELED, 0, 0, 0, true⟩, ?_, rfl, rfl⟩
  decide

/-! ## what `sync` and `readable` expose is not early either -/

/-- **Visibility is not early.** In every reachable state, the number `sync` exposes is exactly the number of
    pending completions whose submit time plus oracle latency has passed; `AsyncFd` readiness is exactly
    "there is one". -/
theorem sync_count_exact {now : Nat} {r : RingSt} (h : Inv now r) (fs : Files) :
    readyCount r now = ((pool r).filter (fun x => decide (x.at_ + x.lat ≤ now))).length ∧
    (ringStep now fs r .cqsync).2.2 = .synced ((pool r).filter (fun x => decide (x.at_ + x.lat ≤ now))).length ∧
    ((ringStep now fs r .readable).2.2 = .ready true ↔ ∃ x ∈ pool r, x.at_ + x.lat ≤ now) := by
  have hcongr : (pool r).filter (fun x => decide (x.at_ + x.lat ≤ now)) = (pool r).filter (fun x => decide (x.when_ ≤ now)) := by
    apply List.filter_congr
    intro x hx
    rw [(h.good x hx).1]
  have hready : r.ready.flatten.filter (fun x => decide (x.when_ ≤ now)) = r.ready.flatten :=
    List.filter_eq_self.mpr (fun x hx => by simpa using h.readyMat x hx)
  have hc : readyCount r now = ((pool r).filter (fun x => decide (x.at_ + x.lat ≤ now))).length := by
    rw [hcongr]
    simp only [readyCount, pool, List.filter_append, List.length_append, hready]
    omega
  refine ⟨hc, by simp [ringStep, hc], ?_⟩
  simp only [ringStep, hc]
  constructor
  · intro hr
    have hpos : 0 < ((pool r).filter (fun x => decide (x.at_ + x.lat ≤ now))).length := by
      injection hr with hr; simpa using hr
    obtain ⟨x, hx⟩ := List.exists_mem_of_length_pos hpos
    have := List.mem_filter.mp hx
    exact ⟨x, this.1, by simpa using this.2⟩
  · rintro ⟨x, hx, hle⟩
    have : x ∈ (pool r).filter (fun x => decide (x.at_ + x.lat ≤ now)) := List.mem_filter.mpr ⟨hx, by simpa using hle⟩
    have hpos : 0 < ((pool r).filter (fun x => decide (x.at_ + x.lat ≤ now))).length := List.length_pos_of_mem this
    simp [hpos]

/-- … and `visible` never promises more than that: a `next` after `sync` cannot come up empty-handed because of a count
    that was too high (the count only grows as time passes and cancels post immediate completions). -/
theorem visible_le_due (depth : Nat) (fs : Files) (ops : List MOp) :
    let m := M.final (M.init depth fs) ops
    readyCount m.ring m.now ≤ (pool m.ring).length := by
  intro m
  rw [(sync_count_exact (inv_reach depth fs ops) fs).1]
  exact List.length_filter_le _ _

/-! ## the shuffle: lazy picks are exactly the permutations -/

/-- the order in which a sequence of picks drains a ready queue -/
def drainOrder : List (List Sched) → List Nat → List Sched
  | _, [] => []
  | bs, p :: ps =>
    match popPick bs p with
    | none => []
    | some (x, bs') => x :: drainOrder bs' ps

/-- Whatever the picks, draining a ready queue completely yields each of its entries exactly once (a permutation). -/
theorem drainOrder_perm : ∀ (picks : List Nat) (bs : List (List Sched)), picks.length = bs.flatten.length →
    (drainOrder bs picks).Perm bs.flatten
  | [], bs, h => by
    have : bs.flatten = [] := List.eq_nil_of_length_eq_zero h.symm
    simp [drainOrder, this]
  | p :: ps, bs, h => by
    have hne : bs.flatten ≠ [] := by intro h0; rw [h0] at h; simp at h
    obtain ⟨x, bs', hp⟩ := popPick_some_of_ne p hne
    have hpp := popPick_perm hp
    simp only [drainOrder, hp]
    have hl : ps.length = bs'.flatten.length := by
      have := hpp.length_eq
      simp only [List.length_cons] at this h; omega
    exact ((drainOrder_perm ps bs' hl).cons x).trans hpp.symm

theorem takeNth_of_mem : ∀ {l : List Sched} {y : Sched}, y ∈ l →
    ∃ i rest, i < l.length ∧ takeNth i l = some (y, rest)
  | [], _, h => by cases h
  | x :: xs, y, h => by
    by_cases hxy : x = y
    · subst hxy; exact ⟨0, xs, by simp, rfl⟩
    · have hm : y ∈ xs := by
        rcases List.mem_cons.mp h with h1 | h1
        · exact absurd h1.symm hxy
        · exact h1
      obtain ⟨i, rest, hi, ht⟩ := takeNth_of_mem hm
      exact ⟨i + 1, x :: rest, by simp; omega, by simp [takeNth, ht]⟩

/-- Conversely every permutation of a matured batch is produced by some pick sequence: the lazily-shuffled model has
    exactly the behaviours of an eager `shuffle` at promotion time — no order is missing, none is invented. -/
theorem every_shuffle_is_some_picks : ∀ (σ b : List Sched), σ.Perm b → ∃ picks, picks.length = b.length ∧ drainOrder [b] picks = σ
  | [], b, h => by
    have : b = [] := h.symm.eq_nil
    subst this; exact ⟨[], rfl, rfl⟩
  | y :: σ', b, h => by
    have hy : y ∈ b := h.mem_iff.mp List.mem_cons_self
    obtain ⟨i, rest, hi, ht⟩ := takeNth_of_mem hy
    have hperm : σ'.Perm rest := ((h.trans (takeNth_perm ht))).cons_inv
    obtain ⟨picks, hl, hd⟩ := every_shuffle_is_some_picks σ' rest hperm
    have hlen : b.length = rest.length + 1 := by simpa using (takeNth_perm ht).length_eq
    refine ⟨i :: picks, by simp [hl, hlen], ?_⟩
    match b, hi, ht, hlen with
    | x :: xs, hi, ht, hlen =>
      have hmod : i % (xs.length + 1) = i := Nat.mod_eq_of_lt (by simpa using hi)
      simp only [drainOrder, popPick, hmod, ht]
      cases rest with
      | nil =>
        have : σ' = [] := hperm.eq_nil
        subst this
        cases picks with
        | nil => simp [drainOrder]
        | cons p ps => simp at hl
      | cons r rs =>
        simp only [List.isEmpty_cons, Bool.false_eq_true, if_false]
        rw [hd]

example : drainOrder [[⟨0, 1, .imm 0, 0, 0, 0, false⟩, ⟨0, 2, .imm 0, 1, 0, 0, false⟩]] [1, 0]
    = [⟨0, 2, .imm 0, 1, 0, 0, false⟩, ⟨0, 1, .imm 0, 0, 0, 0, false⟩] := by decide

/-! ## not early -/

/-- **C18 not_early.** A completion drained at ring time `t` was submitted at `at_` with sampled latency `lat`
    and `at_ + lat ≤ t` — for every history, latency oracle and shuffle oracle. (Immediate errors and
    cancellation results carry `lat = 0`: they are visible from the submit that produced them.) -/
theorem not_early (depth : Nat) (fs : Files) (ops : List MOp) :
    ∀ d ∈ (M.final (M.init depth fs) ops).ring.drained, d.at_ + d.lat ≤ d.t :=
  fun d hd => ((inv_reach depth fs ops).doneOk d hd).notEarly

/-- Step form: the entry a `next` hands out at ring time `now` has `when_ ≤ now`, and `when_` is the submit
    time plus the oracle latency the `submit` was given for that entry. -/
theorem not_early_step {now : Nat} {fs : Files} {r : RingSt} (h : Inv now r) (pick : Nat)
    {r' : RingSt} {fs' : Files} {ud : Nat} {res : Int} {buf : List Nat}
    (hs : ringStep now fs r (.next pick) = (r', fs', .cqe ud res buf)) :
    ∃ x ∈ pool r, x.ud = ud ∧ x.when_ ≤ now ∧ x.when_ = x.at_ + x.lat := by
  simp only [ringStep] at hs
  split at hs
  · cases hs
  · cases hs
  · obtain ⟨_, hperm, hready⟩ := promote_spec r now
    split at hs
    · cases hs
    · rename_i x ready' hpop
      have hxmem : x ∈ (promote r now).ready.flatten := (popPick_perm hpop).mem_iff.mpr List.mem_cons_self
      have hxpool : x ∈ pool r := hperm.mem_iff.mp (List.mem_append_right _ hxmem)
      have hud : x.ud = ud := by
        injection hs with _ hs; injection hs with _ hs; injection hs
      refine ⟨x, hxpool, hud, ?_, (h.good x hxpool).1⟩
      rcases hready x hxmem with h1 | ⟨_, h2⟩
      · exact h.readyMat x h1
      · exact h2

/-- The latency is the oracle's: a well-flagged read/write/fsync SQE submitted at `now` with oracle latency `lat`
    is scheduled with `at_ = now`, that `lat`, and the same arguments. -/
theorem submit_schedules (r : RingSt) (now sid : Nat) (e : Sqe) (lat : Nat) :
    ∀ y ∈ pool (submitOne r now sid e lat), y ∉ pool r → y.canc = false →
      y.sid = sid ∧ y.ud = e.ud ∧ y.at_ = now ∧ y.when_ = y.at_ + y.lat ∧
      ((∃ err, y.apply = .imm err) ∨ (e.bad = false ∧ y.lat = lat ∧ y.apply = applyOf e.op)) := by
  intro y hy hnew hc
  rcases (submitOne_pool r now sid e lat).2 y hy with h1 | ⟨h1, h2, h3, h4, _, h6⟩ | ⟨x, _, rfl⟩
  · exact absurd h1 hnew
  · exact ⟨h1, h2, h3, h4, h6⟩
  · cases hc

example : ∃ d ∈ (M.final (M.init 1 ⟨[⟨[], []⟩], [(0, true)]⟩)
    [.ring (.push ⟨1, .fsync 0, false⟩), .ring (.submit [4]), .advance 4, .ring .cqsync, .ring (.next 0)]).ring.drained,
    d.lat = 4 ∧ d.t = 4 := by
  refine ⟨_, List.mem_singleton.mpr rfl, ?_⟩
  decide

/-! ## same as the synchronous API -/

/-- **C18 same_as_sync.** The completion a `next` yields has exactly the result, the data and the file effect
    that the synchronous `read_at` / `write_at` / `sync_all` has on the files *as they are at that moment*;
    immediate results touch nothing. -/
theorem same_as_sync {now : Nat} {fs : Files} {r : RingSt} (pick : Nat)
    {r' : RingSt} {fs' : Files} {ud : Nat} {res : Int} {buf : List Nat}
    (hs : ringStep now fs r (.next pick) = (r', fs', .cqe ud res buf)) :
    ∃ x ∈ pool r, x.ud = ud ∧
      match x.apply with
      | .read fd off len => fs' = fs ∧ (res, buf) = syncRead fs fd off len
      | .write fd off d => (fs', res) = syncWrite fs fd off d ∧ buf = []
      | .fsync fd => (fs', res) = syncFsync fs fd ∧ buf = []
      | .imm e => fs' = fs ∧ res = e ∧ buf = [] := by
  simp only [ringStep] at hs
  split at hs
  · cases hs
  · cases hs
  · obtain ⟨_, hperm, _⟩ := promote_spec r now
    split at hs
    · cases hs
    · rename_i x ready' hpop
      have hxmem : x ∈ (promote r now).ready.flatten := (popPick_perm hpop).mem_iff.mpr List.mem_cons_self
      have hxpool : x ∈ pool r := hperm.mem_iff.mp (List.mem_append_right _ hxmem)
      injection hs with _ hs; injection hs with hfs hs; injection hs with hud hres hbuf
      refine ⟨x, hxpool, hud, ?_⟩
      subst hfs; subst hres; subst hbuf
      cases x.apply <;> simp [exec]

/-- Nothing but `next` touches the files. -/
theorem files_only_by_next (now : Nat) (fs : Files) (r : RingSt) (op : ROp) (h : ∀ pick, op ≠ .next pick) :
    (ringStep now fs r op).2.1 = fs := by
  cases op with
  | next pick => exact absurd rfl (h pick)
  | push e => simp only [ringStep]; split <;> rfl
  | submit lats => rfl
  | cqnew => rfl
  | cqsync => rfl
  | readable => rfl
  | sqinfo => rfl

example : (syncWrite ⟨[⟨[1, 2, 3], []⟩], [(0, true)]⟩ 0 1 [9]).1.inodes = [⟨[1, 9, 3], []⟩] := by decide

/-! ## full submission queue -/

theorem depth_const (now : Nat) (fs : Files) (r : RingSt) (op : ROp) : (ringStep now fs r op).1.depth = r.depth := by
  cases op with
  | push e => simp only [ringStep]; split <;> rfl
  | submit lats => exact (submitLoop_frame now r.sq lats { r with sq := [] }).depth
  | cqnew => rfl
  | cqsync => rfl
  | readable => rfl
  | sqinfo => rfl
  | next pick =>
    simp only [ringStep]
    split
    · rfl
    · rfl
    · have hfr := (promote_spec r now).1
      split
      · exact hfr.depth
      · exact hfr.depth

/-- **C18 full_sq.** A push on a full SQ fails and changes nothing at all; the SQ never exceeds the ring's
    depth in any history; a push with room is accepted and appended. -/
theorem full_sq (depth : Nat) (fs : Files) (ops : List MOp) :
    (M.final (M.init depth fs) ops).ring.sq.length ≤ (M.final (M.init depth fs) ops).ring.depth ∧
    (∀ now fs' (r : RingSt) e, r.depth ≤ r.sq.length → ringStep now fs' r (.push e) = (r, fs', .full)) ∧
    (∀ now fs' (r : RingSt) e, r.sq.length < r.depth →
        (ringStep now fs' r (.push e)).2.2 = .pushed ∧ (ringStep now fs' r (.push e)).1.sq = r.sq ++ [(r.nextSid, e)]) := by
  refine ⟨(inv_reach depth fs ops).sqBound, ?_, ?_⟩
  · intro now fs' r e h; simp [ringStep, h]
  · intro now fs' r e h
    exact ⟨(push_accepts now fs' r e).1.mpr h, ((push_accepts now fs' r e).2 h).1⟩

example : (M.run (M.init 1 ⟨[], []⟩) [.ring (.push ⟨1, .fsync 0, false⟩), .ring (.push ⟨2, .fsync 0, false⟩)]) =
    [.pushed, .full] := by decide

/-! ## crash -/

theorem lookup_none_of_keys {id : Nat} : ∀ {rings : List (Nat × RingSt)}, (∀ kr ∈ rings, id < kr.1) →
    lookupRing id rings = none
  | [], _ => rfl
  | (k, r) :: rest, h => by
    have hk : id < k := h (k, r) List.mem_cons_self
    simp only [lookupRing]
    rw [if_neg (by omega)]
    exact lookup_none_of_keys (fun kr hkr => h kr (List.mem_cons_of_mem _ hkr))

theorem setRing_keys (id : Nat) (r : RingSt) : ∀ (rings : List (Nat × RingSt)) (kr : Nat × RingSt),
    kr ∈ setRing id r rings → ∃ kr' ∈ rings, kr'.1 = kr.1
  | [], kr, h => by simp [setRing] at h
  | (k, r0) :: rest, kr, h => by
    simp only [setRing] at h
    split at h
    · rcases List.mem_cons.mp h with rfl | h'
      · exact ⟨(k, r0), List.mem_cons_self, rfl⟩
      · exact ⟨kr, List.mem_cons_of_mem _ h', rfl⟩
    · rcases List.mem_cons.mp h with rfl | h'
      · exact ⟨(k, r0), List.mem_cons_self, rfl⟩
      · obtain ⟨kr', hm, he⟩ := setRing_keys id r rest kr h'
        exact ⟨kr', List.mem_cons_of_mem _ hm, he⟩

/-- all registered rings have ids ≥ `n`, and so will all future ones -/
def FreshFrom (n : Nat) (h : Host) : Prop := (∀ kr ∈ h.rings, n ≤ kr.1) ∧ n ≤ h.nextRing

theorem FreshFrom_step {n : Nat} {h : Host} (hf : FreshFrom n h) (op : HOp) : FreshFrom n (h.step op).1 := by
  obtain ⟨h1, h2⟩ := hf
  cases op with
  | newRing entries =>
    simp only [Host.step]
    split
    · exact ⟨h1, h2⟩
    · refine ⟨?_, Nat.le_succ_of_le h2⟩
      intro kr hkr
      rcases List.mem_append.mp hkr with hkr | hkr
      · exact h1 kr hkr
      · simp only [List.mem_singleton] at hkr; subst hkr; exact h2
  | dropRing id => exact ⟨fun kr hkr => h1 kr (List.mem_filter.mp hkr).1, h2⟩
  | ring id rop =>
    simp only [Host.step]
    split
    · exact ⟨h1, h2⟩
    · refine ⟨?_, h2⟩
      intro kr hkr
      obtain ⟨kr', hm, he⟩ := setRing_keys _ _ _ kr hkr
      rw [← he]; exact h1 kr' hm
  | advance dt => exact ⟨h1, h2⟩
  | crash => exact ⟨by simp [Host.step], h2⟩
  | fwrite fd off d => exact ⟨h1, h2⟩
  | fread fd off len => exact ⟨h1, h2⟩
  | fsync fd => exact ⟨h1, h2⟩
  | fclose fd => simp only [Host.step]; split <;> exact ⟨h1, h2⟩
  | fopen p => simp only [Host.step]; split <;> exact ⟨h1, h2⟩

theorem FreshFrom_final {n : Nat} (ops : List HOp) : ∀ {h : Host}, FreshFrom n h → FreshFrom n (Host.final h ops) := by
  induction ops with
  | nil => intro h hf; exact hf
  | cons op ops ih => intro h hf; exact ih (FreshFrom_step hf op)

/-- An operation on a ring that is not registered reports "gone" (`PushError`, `NotFound`, zero visible,
    `None`) and changes nothing — in particular no file. -/
theorem gone_ring_inert (h : Host) (id : Nat) (hl : lookupRing id h.rings = none) (op : ROp) :
    h.step (.ring id op) = (h, goneOut op) := by
  simp [Host.step, hl]

/-- **C18 crash.** After `crash`, whatever the host does next (new rings, new submissions, drains, file
    operations, further crashes), every ring that existed before the crash stays unknown: no operation on it —
    in particular no `next` — ever yields a completion or changes a file. Everything that was queued, in flight
    or matured-undrained on those rings is gone for good. -/
theorem crash (h : Host) (ops : List HOp) (id : Nat) (hid : id < h.nextRing) (op : ROp) :
    let h' := Host.final (h.step .crash).1 ops
    lookupRing id h'.rings = none ∧ h'.step (.ring id op) = (h', goneOut op) ∧
    (h.step .crash).1.rings = [] := by
  intro h'
  have hf0 : FreshFrom h.nextRing (h.step .crash).1 := ⟨by simp [Host.step], by simp [Host.step]⟩
  have hf := FreshFrom_final ops hf0
  have hl : lookupRing id h'.rings = none :=
    lookup_none_of_keys (fun kr hkr => Nat.lt_of_lt_of_le hid (hf.1 kr hkr))
  exact ⟨hl, gone_ring_inert h' id hl op, rfl⟩

/-! ## the ring theorems hold for every ring of every host history -/

theorem lookup_mem {id : Nat} {r : RingSt} : ∀ {rings : List (Nat × RingSt)}, lookupRing id rings = some r → (id, r) ∈ rings
  | [], h => by simp [lookupRing] at h
  | (k, r0) :: rest, h => by
    simp only [lookupRing] at h
    split at h
    · rename_i hk; injection h with h; subst h; subst hk; exact List.mem_cons_self
    · exact List.mem_cons_of_mem _ (lookup_mem h)

theorem setRing_mem (id : Nat) (r : RingSt) : ∀ (rings : List (Nat × RingSt)) (kr : Nat × RingSt),
    kr ∈ setRing id r rings → kr ∈ rings ∨ kr = (id, r)
  | [], kr, h => by simp [setRing] at h
  | (k, r0) :: rest, kr, h => by
    simp only [setRing] at h
    split at h
    · rename_i hk
      rcases List.mem_cons.mp h with rfl | h'
      · exact Or.inr (by rw [hk])
      · exact Or.inl (List.mem_cons_of_mem _ h')
    · rcases List.mem_cons.mp h with rfl | h'
      · exact Or.inl List.mem_cons_self
      · rcases setRing_mem id r rest kr h' with h1 | h1
        · exact Or.inl (List.mem_cons_of_mem _ h1)
        · exact Or.inr h1

/-- every registered ring satisfies the ring invariant at the host's clock -/
def HostInv (h : Host) : Prop := ∀ kr ∈ h.rings, Inv h.now kr.2

theorem HostInv_step {h : Host} (hi : HostInv h) (op : HOp) : HostInv (h.step op).1 := by
  cases op with
  | newRing entries =>
    simp only [Host.step]
    split
    · exact hi
    · intro kr hkr
      rcases List.mem_append.mp hkr with hkr | hkr
      · exact hi kr hkr
      · simp only [List.mem_singleton] at hkr; subst hkr; exact Inv_new _ _
  | dropRing id => intro kr hkr; exact hi kr (List.mem_filter.mp hkr).1
  | ring id rop =>
    simp only [Host.step]
    split
    · exact hi
    · rename_i r hl
      intro kr hkr
      rcases setRing_mem _ _ _ kr hkr with h1 | h1
      · exact hi kr h1
      · subst h1; exact Inv_ringStep (hi (id, r) (lookup_mem hl)) rop
  | advance dt => intro kr hkr; exact (hi kr hkr).mono (Nat.le_add_right _ _)
  | crash => intro kr hkr; simp [Host.step] at hkr
  | fwrite fd off d => exact hi
  | fread fd off len => exact hi
  | fsync fd => exact hi
  | fclose fd => simp only [Host.step]; split <;> exact hi
  | fopen p => simp only [Host.step]; split <;> exact hi

theorem HostInv_final (ops : List HOp) : ∀ {h : Host}, HostInv h → HostInv (Host.final h ops) := by
  induction ops with
  | nil => intro h hi; exact hi
  | cons op ops ih => intro h hi; exact ih (HostInv_step hi op)

/-- **C18 on the host machine** (what the driver replays): after any host history — several rings, shim file
    operations, ring drops, crashes and re-use interleaved — every registered ring satisfies token conservation
    (`exactly_once`), the SQ bound (`full_sq`), and every completion it ever drained was not early, carries its
    submission's user_data, and is effect-free `-ECANCELED` if it replaces a cancelled target. -/
theorem host_rings_ok (fs : Files) (ops : List HOp) :
    ∀ kr ∈ (Host.final (Host.init fs) ops).rings,
      (toks kr.2).Perm (List.range kr.2.nextSid) ∧ kr.2.sq.length ≤ kr.2.depth ∧
      ∀ d ∈ kr.2.drained, d.at_ + d.lat ≤ d.t ∧ (d.sid, d.ud) ∈ kr.2.acc ∧
        (d.canc = true → d.res = ECANCELED ∧ d.apply = .imm ECANCELED) := by
  intro kr hkr
  have hi : Inv _ kr.2 := HostInv_final ops (h := Host.init fs) (by intro kr hkr; simp [Host.init] at hkr) kr hkr
  refine ⟨hi.tok, hi.sqBound, ?_⟩
  intro d hd
  have := hi.doneOk d hd
  exact ⟨this.notEarly, this.ud, fun hc => ⟨(this.canc hc).2, (this.canc hc).1⟩⟩

/-- Host form of `exactly_once_drained`: on a host with any number of rings, a drained ring has delivered exactly one
    completion per accepted submission. -/
theorem host_exactly_once_drained (fs : Files) (ops : List HOp) :
    ∀ kr ∈ (Host.final (Host.init fs) ops).rings, kr.2.sq = [] → kr.2.inflight = [] → kr.2.ready.flatten = [] →
      (kr.2.drained.map (·.sid)).Perm (List.range kr.2.nextSid) ∧ (kr.2.drained.map (·.sid)).Nodup := by
  intro kr hkr hsq hin hre
  have h := (host_rings_ok fs ops kr hkr).1
  have : toks kr.2 = kr.2.drained.map (·.sid) := by simp [toks, sidsNoSq, sidL, hsq, hin, hre]
  rw [this] at h
  exact ⟨h, h.nodup_iff.mpr List.nodup_range⟩

/-- Liveness of a full drain: once every in-flight entry has matured and `sync` has been called, `n` calls of
    `next` (any shuffle) empty the ring, where `n` is what `sync` reported. -/
theorem drain_all (now : Nat) :
    ∀ (n : Nat) (fs : Files) (r : RingSt) (picks : List Nat), picks.length = n →
      r.visible = some n → (pool r).length = n → (∀ x ∈ r.inflight, x.when_ ≤ now) →
      let m := M.final ⟨now, fs, r⟩ (picks.map (fun p => MOp.ring (.next p)))
      m.ring.inflight = [] ∧ m.ring.ready.flatten = [] ∧ m.ring.sq = r.sq ∧
      m.ring.drained.length = r.drained.length + n := by
  intro n
  induction n with
  | zero =>
    intro fs r picks hp hv hlen hmat
    have : picks = [] := List.eq_nil_of_length_eq_zero hp
    subst this
    have hpool : pool r = [] := List.eq_nil_of_length_eq_zero hlen
    simp only [pool, List.append_eq_nil_iff] at hpool
    simp [M.final, hpool.1, hpool.2]
  | succ n ih =>
    intro fs r picks hp hv hlen hmat
    match picks, hp with
    | pick :: picks, hp =>
      have hp' : picks.length = n := by simpa using hp
      obtain ⟨hfr, hperm, hready⟩ := promote_spec r now
      -- after promotion nothing is in flight
      have hinfl : (promote r now).inflight = [] := by
        unfold promote
        split
        · rename_i hnil
          apply List.eq_nil_iff_forall_not_mem.mpr
          intro x hx
          have : x ∈ List.filter (fun x => decide (x.when_ ≤ now)) r.inflight :=
            List.mem_filter.mpr ⟨hx, by simpa using hmat x hx⟩
          rw [hnil] at this; cases this
        · apply List.eq_nil_iff_forall_not_mem.mpr
          intro x hx
          have := List.mem_filter.mp hx
          have h1 := hmat x this.1
          simp [h1] at this
      have hpl : (pool (promote r now)).length = n + 1 := by rw [hperm.length_eq]; exact hlen
      have hne : (promote r now).ready.flatten ≠ [] := by
        intro h0
        simp [pool, hinfl, h0] at hpl
      obtain ⟨x, ready', hpop⟩ := popPick_some_of_ne pick hne
      have hpp := popPick_perm hpop
      have hstep : (M.step ⟨now, fs, r⟩ (.ring (.next pick))).1 =
          ⟨now, (exec fs x.apply).1, afterPop (promote r now) ready' n (doneOf x (exec fs x.apply).2.1 now)⟩ := by
        simp [M.step, ringStep_next_some hv hpop]
      have hlen' : (pool (afterPop (promote r now) ready' n (doneOf x (exec fs x.apply).2.1 now))).length = n := by
        have h1 := hpp.length_eq
        simp only [pool, afterPop, hinfl, List.nil_append, List.length_cons] at hpl h1 ⊢
        omega
      have := ih (exec fs x.apply).1 _ picks hp' rfl hlen' (by intro y hy; simp [afterPop, hinfl] at hy)
      simp only [List.map_cons, M.final]
      rw [hstep]
      obtain ⟨h1, h2, h3, h4⟩ := this
      refine ⟨h1, h2, ?_, ?_⟩
      · rw [h3]; exact hfr.sq
      · rw [h4]; simp only [afterPop, List.length_append, List.length_cons, List.length_nil, hfr.drained]; omega

/-- … and `sync` reports exactly the pool size once everything in flight has matured. -/
theorem sync_sees_all (now : Nat) (fs : Files) (r : RingSt) (hmat : ∀ x ∈ r.inflight, x.when_ ≤ now) :
    (ringStep now fs r .cqsync).2.2 = .synced (pool r).length ∧
    (ringStep now fs r .cqsync).1.visible = some (pool r).length ∧
    pool (ringStep now fs r .cqsync).1 = pool r := by
  have hf : r.inflight.filter (fun x => decide (x.when_ ≤ now)) = r.inflight :=
    List.filter_eq_self.mpr (fun x hx => by simpa using hmat x hx)
  have hc : readyCount r now = (pool r).length := by
    simp only [readyCount, hf, pool, List.length_append]; omega
  simp [ringStep, hc, pool]

example :
    let m := M.final (M.init 4 ⟨[⟨[1, 2, 3], [1, 2, 3]⟩], [(0, true)]⟩)
      [.ring (.push ⟨7, .read 0 0 2, false⟩), .ring (.push ⟨8, .write 0 1 [9], false⟩), .ring (.push ⟨9, .cancel 7, false⟩),
       .ring (.submit [5, 3]), .advance 10, .ring .cqsync]
    m.ring.visible = some 3 ∧ (pool m.ring).length = 3 ∧ ∀ x ∈ m.ring.inflight, x.when_ ≤ m.now := by
  decide

/-! ## any number of rings: every ring of a host is an `M` machine -/

theorem lookup_setRing_same {id : Nat} {r r' : RingSt} : ∀ {rings : List (Nat × RingSt)},
    lookupRing id rings = some r → lookupRing id (setRing id r' rings) = some r'
  | [], h => by simp [lookupRing] at h
  | (k, r0) :: rest, h => by
    simp only [lookupRing] at h
    by_cases hk : k = id
    · simp [setRing, hk, lookupRing]
    · simp only [hk, if_false] at h
      simp [setRing, hk, lookupRing, lookup_setRing_same h]

theorem lookup_setRing_ne {id id' : Nat} (hne : id ≠ id') (r' : RingSt) : ∀ (rings : List (Nat × RingSt)),
    lookupRing id (setRing id' r' rings) = lookupRing id rings
  | [] => rfl
  | (k, r0) :: rest => by
    by_cases hk : k = id'
    · have : k ≠ id := fun h => hne (h ▸ hk ▸ rfl)
      simp [setRing, hk, lookupRing, Ne.symm hne]
    · by_cases hk2 : k = id
      · subst hk2; simp [setRing, lookupRing, hne]
      · simp [setRing, hk, lookupRing, hk2, lookup_setRing_ne hne r' rest]

theorem lookup_append {id : Nat} {r : RingSt} : ∀ {rings : List (Nat × RingSt)} (l : List (Nat × RingSt)),
    lookupRing id rings = some r → lookupRing id (rings ++ l) = some r
  | [], _, h => by simp [lookupRing] at h
  | (k, r0) :: rest, l, h => by
    simp only [lookupRing, List.cons_append] at h ⊢
    by_cases hk : k = id
    · simpa [hk] using h
    · simp only [hk, if_false] at h ⊢
      exact lookup_append l h

theorem lookup_filter_ne {id id' : Nat} (hne : id ≠ id') : ∀ (rings : List (Nat × RingSt)),
    lookupRing id (rings.filter (fun kr => kr.1 != id')) = lookupRing id rings
  | [] => rfl
  | (k, r0) :: rest => by
    by_cases hk : k = id'
    · simp [hk, lookupRing, lookup_filter_ne hne rest, Ne.symm hne]
    · by_cases hk2 : k = id
      · subst hk2; simp [lookupRing, hne]
      · simp [hk, lookupRing, hk2, lookup_filter_ne hne rest]

/-- **Ring isolation (one step).** Whatever a host does — an operation on this ring, on another ring, creating or
    dropping another ring, time, any shim file operation — a registered ring `id` sees exactly one step of the
    one-ring machine `M`: its own operation, a clock advance, or an environment step that rewrites the files.
    Its queues are never touched by anything else. (Only `dropRing id` and `crash` remove it.) -/
theorem host_step_projects (h : Host) (id : Nat) (r : RingSt) (hl : lookupRing id h.rings = some r) (op : HOp)
    (hd : op ≠ .dropRing id) (hc : op ≠ .crash) :
    ∃ mop : MOp,
      lookupRing id (h.step op).1.rings = some (M.step ⟨h.now, h.files, r⟩ mop).1.ring ∧
      (M.step ⟨h.now, h.files, r⟩ mop).1.now = (h.step op).1.now ∧
      (M.step ⟨h.now, h.files, r⟩ mop).1.files = (h.step op).1.files ∧
      (∀ id' rop, op = .ring id' rop → id' ≠ id → ∃ fs, mop = .env fs) := by
  cases op with
  | newRing entries =>
    refine ⟨.env h.files, ?_, ?_, ?_, by intro _ _ h; cases h⟩
    · simp only [Host.step]; split
      · exact hl
      · exact lookup_append _ hl
    · simp only [Host.step]; split <;> rfl
    · simp only [Host.step]; split <;> rfl
  | dropRing id' =>
    have hne : id ≠ id' := fun h => hd (h ▸ rfl)
    exact ⟨.env h.files, by simp [Host.step, M.step, lookup_filter_ne hne, hl], rfl, rfl, by intro _ _ h; cases h⟩
  | ring id' rop =>
    by_cases hid : id' = id
    · subst hid
      refine ⟨.ring rop, ?_, ?_, ?_, by intro _ _ h hne; injection h with h1; exact absurd h1.symm hne⟩
      · simp [Host.step, hl, M.step, lookup_setRing_same hl]
      · simp [Host.step, hl, M.step]
      · simp [Host.step, hl, M.step]
    · have hne : id ≠ id' := fun h => hid h.symm
      cases hl' : lookupRing id' h.rings with
      | none =>
        exact ⟨.env h.files, by simp [Host.step, hl', M.step, hl], by simp [Host.step, hl', M.step],
          by simp [Host.step, hl', M.step], fun _ _ _ _ => ⟨_, rfl⟩⟩
      | some r2 =>
        exact ⟨.env (ringStep h.now h.files r2 rop).2.1,
          by simp [Host.step, hl', M.step, lookup_setRing_ne hne, hl], by simp [Host.step, hl', M.step],
          by simp [Host.step, hl', M.step], fun _ _ _ _ => ⟨_, rfl⟩⟩
  | advance dt => exact ⟨.advance dt, by simp [Host.step, M.step, hl], rfl, rfl, by intro _ _ h; cases h⟩
  | crash => exact absurd rfl hc
  | fwrite fd off d =>
    exact ⟨.env (syncWrite h.files fd off d).1, by simp [Host.step, M.step, hl], rfl, rfl, by intro _ _ h; cases h⟩
  | fread fd off len => exact ⟨.env h.files, by simp [Host.step, M.step, hl], rfl, rfl, by intro _ _ h; cases h⟩
  | fsync fd =>
    exact ⟨.env (syncFsync h.files fd).1, by simp [Host.step, M.step, hl], rfl, rfl, by intro _ _ h; cases h⟩
  | fclose fd =>
    simp only [Host.step]
    split
    · exact ⟨.env _, by simp [M.step, hl], rfl, rfl, by intro _ _ h; cases h⟩
    · exact ⟨.env h.files, by simp [M.step, hl], rfl, rfl, by intro _ _ h; cases h⟩
  | fopen p =>
    simp only [Host.step]
    split
    · exact ⟨.env _, by simp [M.step, hl], rfl, rfl, by intro _ _ h; cases h⟩
    · exact ⟨.env h.files, by simp [M.step, hl], rfl, rfl, by intro _ _ h; cases h⟩

/-- **Any number of rings, any interleaving.** Along any host history that neither drops ring `id` nor crashes,
    ring `id` runs a history of the one-ring machine `M` (same clock, same files at the end): every theorem proved
    for all `M` histories — exactly-once, not-early, same-as-sync, full-SQ, cancelled-never-executes, drain
    liveness — holds for every ring of every host, however many other rings there are and whatever they do. -/
theorem host_projects_to_M (ops : List HOp) :
    ∀ (h : Host) (id : Nat) (r : RingSt), lookupRing id h.rings = some r →
      (∀ op ∈ ops, op ≠ .dropRing id ∧ op ≠ .crash) →
      ∃ (mops : List MOp) (r' : RingSt),
        lookupRing id (Host.final h ops).rings = some r' ∧
        M.final ⟨h.now, h.files, r⟩ mops = ⟨(Host.final h ops).now, (Host.final h ops).files, r'⟩ := by
  induction ops with
  | nil => intro h id r hl _; exact ⟨[], r, hl, rfl⟩
  | cons op ops ih =>
    intro h id r hl hops
    have hop := hops op List.mem_cons_self
    obtain ⟨mop, h1, h2, h3, _⟩ := host_step_projects h id r hl op hop.1 hop.2
    obtain ⟨mops, r', h4, h5⟩ := ih (h.step op).1 id _ h1 (fun o ho => hops o (List.mem_cons_of_mem _ ho))
    refine ⟨mop :: mops, r', h4, ?_⟩
    simp only [M.final, Host.final]
    have : (M.step ⟨h.now, h.files, r⟩ mop).1 =
        ⟨(h.step op).1.now, (h.step op).1.files, (M.step ⟨h.now, h.files, r⟩ mop).1.ring⟩ := by
      rw [← h2, ← h3]
    rw [this]; exact h5

/-- Transfer in action: on a host with any number of rings, a cancelled target pending on ring `id` never executes,
    whatever this ring, the other rings and the shim do afterwards (short of dropping the ring or crashing — after
    which nothing of it completes at all, see `crash`). -/
theorem host_cancelled_never_executes (h : Host) (id : Nat) (r : RingSt) (hl : lookupRing id h.rings = some r)
    (hI : Inv h.now r) (x : Sched) (hx : x ∈ pool r) (hc : x.canc = true) (ops : List HOp)
    (hops : ∀ op ∈ ops, op ≠ .dropRing id ∧ op ≠ .crash) :
    ∃ r', lookupRing id (Host.final h ops).rings = some r' ∧
      ∀ d ∈ r'.drained, d.sid = x.sid → d.apply = .imm ECANCELED ∧ d.res = ECANCELED ∧
        ∀ fd off len, d.apply ≠ .read fd off len := by
  obtain ⟨mops, r', h1, h2⟩ := host_projects_to_M ops h id r hl hops
  refine ⟨r', h1, ?_⟩
  have h3 := (cancelled_never_executes ⟨h.now, h.files, r⟩ hI x hx hc mops).1
  rw [h2] at h3
  intro d hd hds
  have := h3 d hd hds
  exact ⟨this.1, this.2.1, this.2.2.2⟩

example : ∃ r, lookupRing 1 (Host.final (Host.init ⟨[⟨[1], [1]⟩], [(0, true)]⟩)
    [.newRing 2, .newRing 2, .ring 0 (.push ⟨5, .fsync 0, false⟩), .ring 1 (.push ⟨6, .fsync 0, false⟩),
     .ring 0 (.submit [0])]).rings = some r ∧ r.sq.length = 1 := ⟨_, rfl, rfl⟩

/-! ## the synchronous API, spelled out (what `same_as_sync` equates the ring with) -/

/-- `read_at`: short at end of file — the count is `min len (size − off)`, `0` at or past EOF, and the bytes are that
    slice of the content; nothing changes. -/
theorem sync_read_spec (fs : Files) (fd off len p : Nat) (i : Inode) (hr : fs.resolve fd = some (p, i)) :
    syncRead fs fd off len = (((min len (i.content.length - off) : Nat) : Int), (i.content.drop off).take len) ∧
    (i.content.length ≤ off → (syncRead fs fd off len).1 = 0 ∧ (syncRead fs fd off len).2 = []) := by
  have hlen : (readBytes i.content off len).length = min len (i.content.length - off) := by
    simp [readBytes, List.length_take, List.length_drop]
  refine ⟨by simp [syncRead, hr, readBytes], ?_⟩
  intro hle
  have h0 : i.content.drop off = [] := List.drop_eq_nil_of_le hle
  simp [syncRead, hr, readBytes, h0]

/-- `write_at`: the result has length `max size (off + n)`; the bytes before `off` are kept, a gap past EOF is filled
    with zeros, the `n` bytes at `off` are the data (overwriting in place inside the file). -/
theorem sync_write_spec (c d : List Nat) (off : Nat) (hd : d ≠ []) :
    (writeBytes c off d).length = max c.length (off + d.length) ∧
    c.take off <+: writeBytes c off d ∧
    ((writeBytes c off d).drop off).take d.length = d ∧
    (c.length ≤ off → ((writeBytes c off d).drop c.length).take (off - c.length) = List.replicate (off - c.length) 0) := by
  have hne : d.isEmpty = false := by cases d <;> simp_all
  have hw : writeBytes c off d =
      (c.take off ++ List.replicate (off - c.length) 0) ++ (d ++ c.drop (off + d.length)) := by
    simp [writeBytes, hne, List.append_assoc]
  have hl : (c.take off ++ List.replicate (off - c.length) 0).length = off := by
    simp only [List.length_append, List.length_take, List.length_replicate]; omega
  refine ⟨?_, ?_, ?_, ?_⟩
  · rw [hw]
    simp only [List.length_append, List.length_take, List.length_replicate, List.length_drop]; omega
  · exact ⟨List.replicate (off - c.length) 0 ++ (d ++ c.drop (off + d.length)), by rw [hw]; simp [List.append_assoc]⟩
  · rw [hw, List.drop_left' hl, List.take_left' rfl]
  · intro hle
    have ht : c.take off = c := List.take_of_length_le hle
    rw [hw, ht, List.append_assoc, List.drop_left' rfl, List.take_left' (by simp)]

/-- Closed, stale (closed-and-reopened) or unknown fds: `-EBADF`, nothing changes — for every operation kind. -/
theorem sync_badfd (fs : Files) (fd : Nat) (hr : fs.resolve fd = none) (off len : Nat) (d : List Nat) :
    syncRead fs fd off len = (EBADF, []) ∧ syncWrite fs fd off d = (fs, EBADF) ∧ syncFsync fs fd = (fs, EBADF) := by
  simp [syncRead, syncWrite, syncFsync, hr]

example : syncRead ⟨[⟨[1, 2, 3], []⟩], [(0, true)]⟩ 0 2 8 = (1, [3]) := by decide
example : (writeBytes [1, 2] 4 [9]) = [1, 2, 0, 0, 9] := by decide

/-! ## a dropped ring: its pending operations never complete and never take effect -/

/-- ring ids in the registry are below the allocation counter -/
def HostWF (h : Host) : Prop := ∀ kr ∈ h.rings, kr.1 < h.nextRing

theorem HostWF_step {h : Host} (hw : HostWF h) (op : HOp) : HostWF (h.step op).1 := by
  cases op with
  | newRing entries =>
    simp only [Host.step]
    split
    · exact hw
    · intro kr hkr
      rcases List.mem_append.mp hkr with hkr | hkr
      · exact Nat.lt_succ_of_lt (hw kr hkr)
      · simp only [List.mem_singleton] at hkr; subst hkr; exact Nat.lt_succ_self _
  | dropRing id => intro kr hkr; exact hw kr (List.mem_filter.mp hkr).1
  | ring id rop =>
    simp only [Host.step]
    split
    · exact hw
    · intro kr hkr
      obtain ⟨kr', hm, he⟩ := setRing_keys _ _ _ kr hkr
      rw [← he]; exact hw kr' hm
  | advance dt => exact hw
  | crash => intro kr hkr; simp [Host.step] at hkr
  | fwrite fd off d => exact hw
  | fread fd off len => exact hw
  | fsync fd => exact hw
  | fclose fd => simp only [Host.step]; split <;> exact hw
  | fopen p => simp only [Host.step]; split <;> exact hw

theorem HostWF_final (ops : List HOp) : ∀ {h : Host}, HostWF h → HostWF (Host.final h ops) := by
  induction ops with
  | nil => intro h hw; exact hw
  | cons op ops ih => intro h hw; exact ih (HostWF_step hw op)

theorem lookup_none_of_not_key {id : Nat} : ∀ {rings : List (Nat × RingSt)}, (∀ kr ∈ rings, kr.1 ≠ id) →
    lookupRing id rings = none
  | [], _ => rfl
  | (k, r) :: rest, h => by
    have hk : k ≠ id := h (k, r) List.mem_cons_self
    simp only [lookupRing, if_neg hk]
    exact lookup_none_of_not_key (fun kr hkr => h kr (List.mem_cons_of_mem _ hkr))

theorem lookup_some_key {id : Nat} : ∀ {rings : List (Nat × RingSt)}, (∃ kr ∈ rings, kr.1 = id) →
    ∃ r, lookupRing id rings = some r
  | [], h => by obtain ⟨kr, hkr, _⟩ := h; cases hkr
  | (k, r) :: rest, h => by
    by_cases hk : k = id
    · exact ⟨r, by simp [lookupRing, hk]⟩
    · obtain ⟨kr, hkr, he⟩ := h
      rcases List.mem_cons.mp hkr with rfl | hm
      · exact absurd he hk
      · obtain ⟨r', hr'⟩ := lookup_some_key (rings := rest) ⟨kr, hm, he⟩
        exact ⟨r', by simp [lookupRing, hk, hr']⟩

/-- id is gone and can never come back -/
def Gone (id : Nat) (h : Host) : Prop := id < h.nextRing ∧ ∀ kr ∈ h.rings, kr.1 ≠ id

theorem Gone_step {id : Nat} {h : Host} (hg : Gone id h) (op : HOp) : Gone id (h.step op).1 := by
  obtain ⟨h1, h2⟩ := hg
  cases op with
  | newRing entries =>
    simp only [Host.step]
    split
    · exact ⟨h1, h2⟩
    · refine ⟨Nat.lt_succ_of_lt h1, ?_⟩
      intro kr hkr
      rcases List.mem_append.mp hkr with hkr | hkr
      · exact h2 kr hkr
      · simp only [List.mem_singleton] at hkr; subst hkr; exact Nat.ne_of_gt h1
  | dropRing id' => exact ⟨h1, fun kr hkr => h2 kr (List.mem_filter.mp hkr).1⟩
  | ring id' rop =>
    simp only [Host.step]
    split
    · exact ⟨h1, h2⟩
    · refine ⟨h1, ?_⟩
      intro kr hkr
      obtain ⟨kr', hm, he⟩ := setRing_keys _ _ _ kr hkr
      rw [← he]; exact h2 kr' hm
  | advance dt => exact ⟨h1, h2⟩
  | crash => exact ⟨h1, by simp [Host.step]⟩
  | fwrite fd off d => exact ⟨h1, h2⟩
  | fread fd off len => exact ⟨h1, h2⟩
  | fsync fd => exact ⟨h1, h2⟩
  | fclose fd => simp only [Host.step]; split <;> exact ⟨h1, h2⟩
  | fopen p => simp only [Host.step]; split <;> exact ⟨h1, h2⟩

theorem Gone_final {id : Nat} (ops : List HOp) : ∀ {h : Host}, Gone id h → Gone id (Host.final h ops) := by
  induction ops with
  | nil => intro h hg; exact hg
  | cons op ops ih => intro h hg; exact ih (Gone_step hg op)

/-- **Ring dropped mid-flight.** On any reachable host, once a ring is dropped — with entries queued, in flight, or
    matured and unreaped — it stays unknown whatever happens next (new rings never reuse its id): no operation on it
    yields a completion or changes a file. Its pending operations are simply gone; "exactly one completion" is a
    promise about rings that live (`exactly_once`), and the buffers of the forgotten operations are never touched
    (nothing executes them). -/
theorem dropped_ring_forgotten (fs : Files) (pre ops : List HOp) (id : Nat) (r : RingSt)
    (hl : lookupRing id (Host.final (Host.init fs) pre).rings = some r) (op : ROp) :
    let h' := Host.final ((Host.final (Host.init fs) pre).step (.dropRing id)).1 ops
    lookupRing id h'.rings = none ∧ h'.step (.ring id op) = (h', goneOut op) := by
  intro h'
  have hw : HostWF (Host.final (Host.init fs) pre) := HostWF_final pre (h := Host.init fs) (by intro kr hkr; simp [Host.init] at hkr)
  have hlt : id < (Host.final (Host.init fs) pre).nextRing := hw (id, r) (lookup_mem hl)
  have hg0 : Gone id ((Host.final (Host.init fs) pre).step (.dropRing id)).1 := by
    refine ⟨hlt, ?_⟩
    intro kr hkr
    have := (List.mem_filter.mp hkr).2
    simpa using this
  have hg := Gone_final ops hg0
  have hn : lookupRing id h'.rings = none := lookup_none_of_not_key hg.2
  exact ⟨hn, gone_ring_inert h' id hn op⟩

/-! ## the durable image: what a crash leaves, and what changes it -/

def durables (fs : Files) : List (List Nat) := fs.inodes.map (·.durable)

theorem durables_syncWrite (fs : Files) (fd off : Nat) (d : List Nat) : durables (syncWrite fs fd off d).1 = durables fs := by
  simp only [syncWrite]
  split
  · rename_i p i hr
    simp only [durables, List.map_set]
    have hi : fs.inodes[p]? = some i := by
      simp only [Files.resolve] at hr
      split at hr
      · split at hr
        · injection hr with hr; injection hr with h1 h2; subst h1; subst h2; assumption
        · cases hr
      · cases hr
    apply List.ext_getElem?
    intro n
    by_cases hn : n = p
    · subst hn
      obtain ⟨hlt, hget⟩ := List.getElem?_eq_some_iff.mp hi
      simp [hlt, hget]
    · simp [Ne.symm hn]
  · rfl

/-- **Durable image.** Only an executed `fsync` changes what a crash would leave: every other host step — pushes,
    submits (so an fsync merely *in flight*, even matured but unreaped, changes nothing), cancels, time, reads and
    writes through a ring or the shim, ring creation and drop, close / open — leaves every inode's durable bytes as
    they were; and `crash` makes the live content equal to that image, forgets all rings, closes all fds. -/
theorem durable_image (h : Host) :
    (∀ op : HOp, (∀ fd, op ≠ .fsync fd) → (∀ id pick, op ≠ .ring id (.next pick)) →
        durables (h.step op).1.files = durables h.files) ∧
    (∀ id pick r, lookupRing id h.rings = some r →
        (∀ x ∈ pool (promote r h.now), ∀ fd, x.apply ≠ .fsync fd) →
        durables (h.step (.ring id (.next pick))).1.files = durables h.files) ∧
    ((h.step .crash).1.files.inodes.map (·.content) = durables h.files ∧
     durables (h.step .crash).1.files = durables h.files ∧ (h.step .crash).1.rings = [] ∧
     ∀ fd, (h.step .crash).1.files.resolve fd = none) := by
  refine ⟨?_, ?_, ?_⟩
  · intro op hnf hnn
    cases op with
    | newRing entries => simp only [Host.step]; split <;> rfl
    | dropRing id => rfl
    | ring id rop =>
      simp only [Host.step]
      split
      · rfl
      · rename_i r hl
        have := files_only_by_next h.now h.files r rop (fun pick hp => hnn id pick (by rw [hp]))
        simp only [this]
    | advance dt => rfl
    | crash => simp [Host.step, crashFiles, durables, Function.comp_def]
    | fwrite fd off d => exact durables_syncWrite _ _ _ _
    | fread fd off len => rfl
    | fsync fd => exact absurd rfl (hnf fd)
    | fclose fd => simp only [Host.step]; split <;> rfl
    | fopen p => simp only [Host.step]; split <;> rfl
  · intro id pick r hl hnof
    simp only [Host.step, hl, ringStep]
    split
    · rfl
    · rfl
    · split
      · rfl
      · rename_i x ready' hpop
        have hx : x ∈ pool (promote r h.now) :=
          List.mem_append_right _ ((popPick_perm hpop).mem_iff.mpr List.mem_cons_self)
        have hno := hnof x hx
        cases hxa : x.apply with
        | read fd off len => simp [exec]
        | write fd off d => simp only [exec]; exact durables_syncWrite _ _ _ _
        | fsync fd => exact absurd hxa (hno fd)
        | imm e => simp [exec]
  · refine ⟨by simp [Host.step, crashFiles, durables, Function.comp_def], by simp [Host.step, crashFiles, durables, Function.comp_def], rfl, ?_⟩
    intro fd
    simp only [Host.step, crashFiles, Files.resolve, List.getElem?_map]
    cases h.files.fds[fd]? with
    | none => rfl
    | some q => rfl

example : durables (Host.final (Host.init ⟨[⟨[1], [1]⟩], [(0, true)]⟩)
    [.newRing 2, .ring 0 (.push ⟨1, .write 0 0 [7], false⟩), .ring 0 (.push ⟨2, .fsync 0, false⟩), .ring 0 (.submit [0, 0]),
     .ring 0 .cqsync, .ring 0 (.next 0), .crash]).files = [[1]] := by decide

/-- What a gone ring answers: never a completion. -/
theorem goneOut_no_cqe (op : ROp) : ∀ ud res buf, goneOut op ≠ .ring (.cqe ud res buf) := by
  intro ud res buf; cases op <;> simp [goneOut]

example :
    Host.run (Host.init ⟨[⟨[1], [1]⟩], [(0, true)]⟩)
      [.newRing 2, .ring 0 (.push ⟨5, .write 0 0 [7], false⟩), .ring 0 (.submit [0]), .crash,
       .ring 0 .cqsync, .ring 0 (.next 0), .newRing 1, .ring 1 .cqsync, .ring 1 (.next 0), .fopen 0, .fread 1 0 4] =
      [.ringId 0, .ring .pushed, .ring (.submitted 1), .unit,
       .ring (.synced 0), .ring .none_, .ringId 1, .ring (.synced 0), .ring .none_, .fd 1, .io 1 [1]] := by
  decide

end TV.C18
