/-
  C06 — turmoil-net TCP survives drops, delays, reordering without corruption or stall.

  Safety (prefix / EOF honesty / errors surface) is proved for all schedules of the two-endpoint
  system of Model/Pair.lean, whose wire may drop, delay, reorder *and duplicate* arbitrarily.
  Liveness is false on the faithful model: the full statement is `C06_Live_Statement`, refuted by eight
  witnesses (F-C06-1 … -8); all eight complete on the model with their repair flag set.
  Liveness is proved — for any amount of data and any configuration with `LiveWF` — on a network that
  loses nothing and delivers in order with a round trip below `retx_threshold` ticks (`C06_live_lossless`, a ranking argument over
  rounds; Proofs/Live.lean); what separates it from the full statement is listed at `C06_partial`.
-/
import TvNetTcp.Proofs.PairStep
import TvNetTcp.Proofs.Live
import TvNetTcp.Model.Spec

namespace TV.C06
open TV.NetTcp

/-! ## Safety -/

theorem pinv_init (isnX isnY wndX wndY : Nat) : PInv (Pair.init isnX isnY wndX wndY) := by
  have dir : ∀ (a b w : Nat) (p q : SockAddr),
      Dir { iss := wadd a 1, tcb := { state := .established, peer := p, sndNxt := wadd a 1, sndUna := wadd a 1, sndMax := wadd a 1,
                                      sndWnd := w, rcvNxt := wadd b 1 } }
          { iss := wadd b 1, tcb := { state := .established, peer := q, sndNxt := wadd b 1, sndUna := wadd b 1, sndMax := wadd b 1,
                                      sndWnd := wndY, rcvNxt := wadd a 1 } } := by
    intro a b w p q
    refine ⟨⟨0, 0, 0, ?_⟩, ?_, ⟨0, ?_⟩⟩
    · refine ⟨wadd_lt _ _, by omega, ?_, ?_, by simp, by simp, Or.inl ⟨rfl, by simp⟩, ?_, by simp,
        ⟨0, Nat.le_refl _, (wadd_zero _ (wadd_lt _ _)).symm, by simp, by simp⟩⟩
      · exact (wadd_zero _ (wadd_lt _ _)).symm
      · exact (wadd_zero _ (wadd_lt _ _)).symm
      · intro fs hfs; cases hfs
    · intro sg hsg; cases hsg
    · refine ⟨by simp, rfl, ?_, ?_⟩
      · intro _; exact (wadd_zero _ (wadd_lt _ _)).symm
      · intro hp; cases hp
  refine ⟨⟨wadd_lt _ _, wadd_lt _ _, wadd_lt _ _⟩, ⟨wadd_lt _ _, wadd_lt _ _, wadd_lt _ _⟩, ?_, ?_⟩
  · exact dir isnX isnY wndX _ _
  · have := dir isnY isnX wndY ⟨.host 0 false, 0⟩ ⟨.host 1 false, 0⟩
    -- the receiver's peer window plays no role in the invariant
    obtain ⟨h1, h2, ⟨rc, h3⟩⟩ := this
    exact ⟨h1, h2, ⟨rc, ⟨h3.le, h3.stream, h3.nxt, h3.fin⟩⟩⟩

/-- The accepted bytes of an endpoint only grow. -/
theorem endStep_acc_mono (cfg : Cfg) (mss : Nat) (e o : End) (a : Act) :
    e.acc.length ≤ (endStep cfg mss e o a).acc.length := by
  cases a with
  | write buf =>
    simp only [endStep]
    split <;> simp
  | read n =>
    simp only [endStep]
    split <;> split <;> simp
  | shutdown => simp [endStep]
  | segment => simp only [endStep]; split <;> simp
  | retx a b =>
    simp only [endStep]
    split
    · split <;> simp
    · simp
  | recv i =>
    simp only [endStep]
    split
    · unfold endRecv
      split
      · simp
      · split
        · simp
        · dsimp only; split <;> simp
    · simp
  | abort b => simp [endStep]
  | emitCtl sg => simp only [endStep]; split <;> simp

theorem step_inv (cfg : Cfg) (mss : Nat) (p : Pair) (who : Bool) (a : Act) (h : PInv p)
    (hx : NoWrap (p.step cfg mss who a).x) (hy : NoWrap (p.step cfg mss who a).y) :
    PInv (p.step cfg mss who a) := by
  unfold Pair.step at hx hy ⊢
  cases who with
  | true =>
    simp only [if_true] at hx hy ⊢
    have hnwy : NoWrap p.y := by
      unfold NoWrap at hy ⊢
      have := endStep_acc_mono cfg mss p.y p.x a
      omega
    have pre : Pre p.y p.x :=
      ⟨h.wfy, h.wfx, h.yx.send, h.yx.wire, h.xy.recv, h.xy.wire, hnwy, hx⟩
    have ok := endStep_ok (cfg := cfg) (mss := mss) pre a hy
    obtain ⟨rc, hrc⟩ := h.yx.recv
    exact ⟨h.wfx, ok.wf, ⟨h.xy.send, h.xy.wire, ok.recv⟩, ⟨ok.send, ok.wire, ⟨rc, hrc.congr_s ok.grow⟩⟩⟩
  | false =>
    simp only [Bool.false_eq_true, if_false] at hx hy ⊢
    have hnwx : NoWrap p.x := by
      unfold NoWrap at hx ⊢
      have := endStep_acc_mono cfg mss p.x p.y a
      omega
    have pre : Pre p.x p.y :=
      ⟨h.wfx, h.wfy, h.xy.send, h.xy.wire, h.yx.recv, h.yx.wire, hnwx, hy⟩
    have ok := endStep_ok (cfg := cfg) (mss := mss) pre a hx
    obtain ⟨rc, hrc⟩ := h.xy.recv
    exact ⟨ok.wf, h.wfy, ⟨ok.send, ok.wire, ⟨rc, hrc.congr_s ok.grow⟩⟩, ⟨h.yx.send, h.yx.wire, ok.recv⟩⟩

theorem run_acc_mono (cfg : Cfg) (mss : Nat) (p : Pair) (acts : List (Bool × Act)) :
    p.x.acc.length ≤ (p.run cfg mss acts).x.acc.length ∧ p.y.acc.length ≤ (p.run cfg mss acts).y.acc.length := by
  induction acts generalizing p with
  | nil => exact ⟨Nat.le_refl _, Nat.le_refl _⟩
  | cons wa rest ih =>
    obtain ⟨w, a⟩ := wa
    simp only [Pair.run]
    have h1 := ih (p.step cfg mss w a)
    have h2 : p.x.acc.length ≤ (p.step cfg mss w a).x.acc.length ∧ p.y.acc.length ≤ (p.step cfg mss w a).y.acc.length := by
      unfold Pair.step
      cases w with
      | true => simp only [if_true]; exact ⟨Nat.le_refl _, endStep_acc_mono _ _ _ _ _⟩
      | false => simp only [Bool.false_eq_true, if_false]; exact ⟨endStep_acc_mono _ _ _ _ _, Nat.le_refl _⟩
    omega

theorem run_inv (cfg : Cfg) (mss : Nat) (p : Pair) (acts : List (Bool × Act)) (h : PInv p)
    (hx : NoWrap (p.run cfg mss acts).x) (hy : NoWrap (p.run cfg mss acts).y) : PInv (p.run cfg mss acts) := by
  induction acts generalizing p with
  | nil => exact h
  | cons wa rest ih =>
    obtain ⟨w, a⟩ := wa
    simp only [Pair.run] at hx hy ⊢
    have hm := run_acc_mono cfg mss (p.step cfg mss w a) rest
    apply ih _ _ hx hy
    apply step_inv cfg mss p w a h
    · unfold NoWrap at hx ⊢; omega
    · unfold NoWrap at hy ⊢; omega

/-- I3 gives the prefix property. -/
theorem prefix_of_dir {s r : End} (h : Dir s r) : r.del <+: s.acc := by
  obtain ⟨rc, hr⟩ := h.recv
  have h1 : r.del <+: r.del ++ r.tcb.recvBuf := List.prefix_append _ _
  rw [hr.stream] at h1
  exact h1.trans (List.take_prefix _ _)

/-- **C06 safety (prefix).** For every configuration (any caps, any MSS including 0, any repair
    flags), every pair of initial sequence numbers and initial windows, and every schedule of
    application calls (any write / read chunking, shutdown), kernel passes (segmentation, retransmit
    with any threshold / budget) and wire behaviour — every segment ever emitted may be delivered
    any number of times, at any later time, in any order, or never; aborts may strike at any time —
    the bytes each application has read are a prefix of the bytes the other one got accepted, as long
    as neither stream wraps the 32-bit sequence space (fewer than 2^32 − 1 bytes per direction). -/
theorem prefix_safety (cfg : Cfg) (mss isnX isnY wndX wndY : Nat) (acts : List (Bool × Act)) :
    let p := (Pair.init isnX isnY wndX wndY).run cfg mss acts
    NoWrap p.x → NoWrap p.y → p.y.del <+: p.x.acc ∧ p.x.del <+: p.y.acc := by
  intro p hx hy
  have := run_inv cfg mss _ acts (pinv_init isnX isnY wndX wndY) hx hy
  exact ⟨prefix_of_dir this.xy, prefix_of_dir this.yx⟩

/-- Non-vacuity: a schedule with loss, duplication and reordering in which bytes do get through. -/
example :
    let acts : List (Bool × Act) := [(false, .write [7, 8, 9]), (false, .segment), (false, .retx 1 5), (false, .segment),
      (true, .recv 1), (true, .recv 0), (true, .recv 0), (true, .read 2), (false, .write [5]), (false, .recv 0)]
    let p := (Pair.init 100 200 65535 65535).run {} 2 acts
    p.y.del = [7, 8] ∧ p.x.acc = [7, 8, 9, 5] ∧ NoWrap p.x ∧ NoWrap p.y := by
  refine ⟨by decide, by decide, ?_, ?_⟩ <;> (unfold NoWrap M32; decide)

/-- **C06 safety (EOF is honest).** In every reachable state, if `poll_recv` into a non-empty buffer
    reports end-of-file, then every byte the peer got accepted has been read: a clean EOF is never a
    short one. -/
theorem eof_means_complete (cfg : Cfg) (mss isnX isnY wndX wndY : Nat) (acts : List (Bool × Act)) (n : Nat) :
    let p := (Pair.init isnX isnY wndX wndY).run cfg mss acts
    NoWrap p.x → NoWrap p.y → 0 < n → (p.y.tcb.pollRecv cfg n).2.1 = .ok [] →
      p.y.del = p.x.acc ∧ p.x.tcb.wrClosed = true := by
  intro p hx hy hn hr
  have inv := run_inv cfg mss _ acts (pinv_init isnX isnY wndX wndY) hx hy
  obtain ⟨hb, hpf, hab⟩ := Tcb.pollRecv_eof cfg p.y.tcb n hn hr
  obtain ⟨rc, hri⟩ := inv.xy.recv
  obtain ⟨h1, h2⟩ := hri.fin hpf hab
  refine ⟨?_, h2⟩
  have := hri.stream
  rw [hb, List.append_nil, h1, List.take_length] at this
  exact this

example : ∃ (acts : List (Bool × Act)),
    let p := (Pair.init 100 200 65535 65535).run {} 4 acts
    (p.y.tcb.pollRecv {} 8).2.1 = .ok [] ∧ p.y.del = [1, 2] :=
  ⟨[(false, .write [1, 2]), (false, .shutdown), (false, .segment), (true, .recv 0), (true, .recv 1), (true, .read 8)],
    by decide⟩

/-- **C06 safety (exhaustion surfaces as an error, L3).** Once a connection has been aborted
    (retransmit budget exhausted, or reset) every `poll_recv` / `poll_send` / `poll_shutdown_write`
    reports the error — never data, never a clean EOF — and the flags are never cleared by any
    TCB-level operation. -/
theorem abort_surfaces (cfg : Cfg) (t : Tcb) (h : t.timedOut = true ∨ t.reset = true) (n : Nat) (buf : List Nat) :
    (∃ e, (t.pollRecv cfg n).2.1 = .err e ∧ (e = .timedOut ∨ e = .reset)) ∧
    (∃ e, (t.pollSend cfg.sendCap buf).2 = .err e ∧ (e = .timedOut ∨ e = .reset)) ∧
    (∃ e, t.shutdownWrite.2 = .err e ∧ (e = .timedOut ∨ e = .reset)) ∧
    (∃ e, t.pollPeek n = .err e ∧ (e = .timedOut ∨ e = .reset)) := by
  have hab : t.abortErr = some .timedOut ∨ t.abortErr = some .reset := by
    unfold Tcb.abortErr
    rcases h with h | h
    · cases hr : t.reset <;> simp [h]
    · simp [h]
  refine ⟨?_, ?_, ?_, ?_⟩
  · unfold Tcb.pollRecv
    rcases hab with hab | hab <;> (rw [hab]; exact ⟨_, rfl, by simp⟩)
  · unfold Tcb.pollSend
    rcases hab with hab | hab <;> (rw [hab]; exact ⟨_, rfl, by simp⟩)
  · unfold Tcb.shutdownWrite
    rcases hab with hab | hab <;> (rw [hab]; exact ⟨_, rfl, by simp⟩)
  · unfold Tcb.pollPeek
    rcases hab with hab | hab <;> (rw [hab]; exact ⟨_, rfl, by simp⟩)

/-- Retransmit exhaustion does abort with `timed_out` (it is not silently dropped): when the budget
    is spent, the next threshold crossing yields the `abort` action. -/
theorem exhaustion_aborts (threshold max : Nat) (t : Tcb)
    (h1 : t.egressSinceAck + 1 ≥ threshold) (h2 : t.retxAttempts ≥ max) :
    (t.retxTick threshold max).2 = .abort ∧ ((t.retxTick threshold max).1.abort false).timedOut = true := by
  unfold Tcb.retxTick
  dsimp only
  have : ¬ (t.egressSinceAck + 1 < threshold) := by omega
  simp [this, h2, Tcb.abort]

example : ∃ t : Tcb, t.timedOut = true ∧ t.recvBuf ≠ [] :=
  ⟨{ state := .closed, peer := ⟨.host 0 false, 0⟩, sndNxt := 1, sndUna := 1, sndMax := 1, sndWnd := 1, rcvNxt := 1,
     timedOut := true, recvBuf := [1] }, rfl, by decide⟩

/-! ## Liveness: full statement, witnesses, repaired variants -/

/-- **Full liveness statement** (C06, second sentence), on the model: for every op sequence the
    harness can issue on two hosts — as long as the wire drops fewer packets than the retransmit
    budget, holds no packet longer than the budget allows (`Spec.withinBudget`), the history ends
    quiescent, and no application gives up a handle — nobody is left waiting: no error surfaced, no
    connect or accept is parked, no writer is parked, and no reader is parked while bytes or the
    EOF are outstanding (`Spec.c06Liveness`). -/
def C06_Live_Statement (cfg : Cfg) : Prop :=
  ∀ ops : List Op, Spec.c06Liveness cfg (Spec.modelHistory cfg 2 ops) = none

def srv : SockAddr := ⟨.host 1 false, 9000⟩

def witness_lostAck : List Op :=
    [.listen 1 0 srv, .connect 0 0 0 srv, .egress, .deliver 0, .egress, .deliver 1, .cpoll 0 0,
    .egress, .deliver 2, .accept 0 1, .write 0 [1], .egress, .deliver 3, .egress, .drop 5, .deliver 4,
    .egress, .egress, .egress, .deliver 6, .egress, .egress, .egress, .deliver 7, .egress, .egress,
    .egress, .deliver 8, .egress, .egress, .egress, .deliver 9, .egress, .egress, .egress, .egress,
    .egress, .egress, .egress, .egress, .egress, .egress, .read 1 8, .write 0 [2]]

def witness_zeroWindow : List Op :=
    [.listen 1 0 srv, .connect 0 0 0 srv, .egress, .deliver 0, .egress, .deliver 1, .cpoll 0 0,
    .egress, .deliver 2, .accept 0 1, .write 0 [1, 2, 3, 4, 5, 6, 7, 8, 9, 10], .egress, .deliver 3,
    .egress, .deliver 4, .deliver 5, .read 1 1, .read 1 1, .read 1 1, .read 1 1, .egress, .egress,
    .egress, .egress, .egress, .egress, .read 1 1]

def witness_lostHandshakeAck : List Op :=
    [.listen 1 0 srv, .connect 0 0 0 srv, .egress, .deliver 0, .egress, .deliver 1, .cpoll 0 0,
    .egress, .drop 2, .egress, .deliver 3, .egress, .egress, .egress, .deliver 4, .egress, .egress,
    .egress, .deliver 5, .egress, .egress, .egress, .deliver 6, .egress, .egress, .egress, .deliver 7,
    .egress, .egress, .egress, .egress, .egress, .egress, .egress, .egress, .egress, .egress, .egress,
    .accept 0 1, .read 0 8]

def witness_hsCounters : List Op :=
    [.listen 1 0 srv, .connect 0 0 0 srv, .egress, .deliver 0, .deliver 1, .egress, .deliver 2,
    .deliver 3, .deliver 4, .cpoll 0 0, .egress, .deliver 5, .deliver 6, .accept 0 1, .write 0 [1],
    .egress, .deliver 7, .egress, .deliver 8, .egress, .egress, .egress, .egress, .write 0 [2]]

def fixed_lostAck : List Op :=
    [.listen 1 0 srv, .connect 0 0 0 srv, .egress, .deliver 0, .egress, .deliver 1, .cpoll 0 0,
    .egress, .deliver 2, .accept 0 1, .write 0 [1], .egress, .deliver 3, .egress, .drop 5, .deliver 4,
    .egress, .deliver 6, .egress, .egress, .egress, .egress, .egress, .egress, .egress, .egress,
    .egress, .egress, .egress, .egress, .egress, .egress, .egress, .egress, .egress, .egress, .egress,
    .egress, .egress, .read 1 8, .write 0 [2]]

def fixed_zeroWindow : List Op :=
    [.listen 1 0 srv, .connect 0 0 0 srv, .egress, .deliver 0, .egress, .deliver 1, .cpoll 0 0,
    .egress, .deliver 2, .accept 0 1, .write 0 [1, 2, 3, 4, 5, 6, 7, 8, 9, 10], .egress, .deliver 3,
    .egress, .deliver 4, .deliver 5, .read 1 1, .read 1 1, .read 1 1, .read 1 1, .egress, .deliver 6,
    .egress, .egress, .deliver 7, .egress, .deliver 8, .egress, .deliver 9, .egress, .deliver 10,
    .read 1 1]

def fixed_lostHandshakeAck : List Op :=
    [.listen 1 0 srv, .connect 0 0 0 srv, .egress, .deliver 0, .egress, .deliver 1, .cpoll 0 0,
    .egress, .drop 2, .egress, .deliver 3, .egress, .deliver 4, .egress, .egress, .egress, .egress,
    .egress, .egress, .egress, .egress, .egress, .egress, .egress, .egress, .egress, .egress, .egress,
    .egress, .egress, .egress, .egress, .egress, .egress, .egress, .accept 0 1, .read 0 8]

def fixed_hsCounters : List Op :=
    [.listen 1 0 srv, .connect 0 0 0 srv, .egress, .deliver 0, .deliver 1, .egress, .deliver 2,
    .deliver 3, .deliver 4, .cpoll 0 0, .egress, .deliver 5, .deliver 6, .accept 0 1, .write 0 [1],
    .egress, .deliver 7, .egress, .deliver 8, .deliver 9, .egress, .egress, .egress, .egress,
    .write 0 [2]]

def cfgSmallWindow : Cfg := { recvCap := 4 }
def cfgTightRetx : Cfg := { retxThreshold := 1, retxMax := 2 }

set_option maxRecDepth 100000 in
/-- F-C06-1: one lost pure ACK. The receiver silently drops the retransmitted (duplicate) segment
    without re-ACKing, so the sender goes back N five times and aborts with `TimedOut` although
    every byte was received. -/
theorem witness_F_C06_1 : ¬ C06_Live_Statement {} := by
  intro h
  exact absurd (h witness_lostAck) (by decide)

set_option maxRecDepth 100000 in
/-- F-C06-2: no loss at all. `recv_buf_cap = 4`, a 10-byte write, 1-byte reads: the window closes,
    reads below `cap/2` never re-advertise it, there is no zero-window probe — the transfer stalls
    after 4 bytes. -/
theorem witness_F_C06_2 : ¬ C06_Live_Statement cfgSmallWindow := by
  intro h
  exact absurd (h witness_zeroWindow) (by decide)

set_option maxRecDepth 100000 in
/-- F-C06-3: the handshake ACK is lost. The client is `Established`; the duplicate SYN-ACKs the
    server retransmits are not answered; the child times out; `accept` never returns. -/
theorem witness_F_C06_3 : ¬ C06_Live_Statement {} := by
  intro h
  exact absurd (h witness_lostHandshakeAck) (by decide)

set_option maxRecDepth 100000 in
/-- F-C06-5: no loss at all, `retx_threshold = 1`, `retx_max = 2`. The retransmit counters are not
    reset when the handshake completes, so the two SYN retransmissions of the (loss-free) handshake
    use up the budget of the first data segment: `TimedOut` one round after the first write. -/
theorem witness_F_C06_5 : ¬ C06_Live_Statement cfgTightRetx := by
  intro h
  exact absurd (h witness_hsCounters) (by decide)

def witness_staleWindow : List Op :=
    [.listen 1 0 srv, .connect 0 0 0 srv, .egress, .deliver 0, .egress, .deliver 1, .cpoll 0 0,
    .egress, .deliver 2, .accept 0 1, .write 0 [1, 2], .egress, .deliver 3, .egress, .deliver 4,
    .read 1 1, .egress, .deliver 6, .deliver 5, .egress, .egress, .egress, .egress, .egress, .egress,
    .read 1 1]

def witness_staleWindow_repaired : List Op :=
    [.listen 1 0 srv, .connect 0 0 0 srv, .egress, .deliver 0, .egress, .deliver 1, .cpoll 0 0,
    .egress, .deliver 2, .accept 0 1, .write 0 [1, 2], .egress, .deliver 3, .egress, .deliver 4,
    .read 1 1, .egress, .deliver 7, .deliver 5, .deliver 6, .egress, .egress, .egress, .egress,
    .egress, .egress, .read 1 1]

def cfgOneByteWindow : Cfg := { recvCap := 1 }

set_option maxRecDepth 100000 in
/-- F-C06-4: no loss, one packet held for one round. `recv_buf_cap = 1`: the receiver ACKs the first
    byte with window 0, the reader frees it and a window update (window 1) follows; the update
    overtakes the older zero-window ACK. The sender takes `snd_wnd` from whatever ACK arrives last, so
    it ends up with a stale window of 0 while the receiver's window is open — and nothing ever probes
    a zero window. The stall survives the re-ACK and window-update repairs (the same schedule,
    packet ids re-derived, on the model with both flags set). -/
theorem witness_F_C06_4 :
    ¬ C06_Live_Statement cfgOneByteWindow ∧
    ¬ C06_Live_Statement { cfgOneByteWindow with fixReack := true, fixWinUpdate := true } := by
  constructor
  · intro h
    exact absurd (h witness_staleWindow) (by decide)
  · intro h
    exact absurd (h witness_staleWindow_repaired) (by decide)

/-- The F-C06-4 history on the committed tree before the persist probe (handshake, `recv_buf_cap = 1`, a
    2-byte write; the zero-window ACK of the first byte is held back and delivered after the window
    update it should have preceded; 8 silent rounds; the reader asks for the second byte). -/
def staleWindow_committed9 : List Op :=
    [.listen 1 0 ⟨.host 1 false, 9000⟩, .connect 0 0 0 ⟨.host 1 false, 9000⟩, .egress, .deliver 0, .egress,
    .deliver 1, .cpoll 0 0, .egress, .deliver 2, .accept 0 1, .write 0 [1, 2], .egress, .deliver 3,
    .egress, .read 1 1, .egress, .deliver 5, .deliver 4, .egress, .egress, .egress, .egress, .egress,
    .egress, .egress, .egress, .read 1 1]

/-- The same application calls and the same reordering on the committed tree: the third silent egress
    emits the persist probe (packet 6: empty, `seq = snd_una − 1`), its delivery draws the receiver's
    current ACK and window (packet 7, sent from `snd_max`), the second byte follows (8) and is
    acknowledged (9). -/
def fixed_staleWindow : List Op :=
    [.listen 1 0 ⟨.host 1 false, 9000⟩, .connect 0 0 0 ⟨.host 1 false, 9000⟩, .egress, .deliver 0, .egress,
    .deliver 1, .cpoll 0 0, .egress, .deliver 2, .accept 0 1, .write 0 [1, 2], .egress, .deliver 3,
    .egress, .read 1 1, .egress, .deliver 5, .deliver 4, .egress, .egress, .egress, .deliver 6, .egress,
    .deliver 7, .egress, .deliver 8, .egress, .deliver 9, .egress, .egress, .read 1 1]

set_option maxRecDepth 100000 in
/-- F-C06-4 on the tree with all nine earlier repairs (`Cfg.committed9`): still refuted — a stale
    `window = 0` is the sender's last word and nothing probes it. -/
theorem witness_F_C06_4_committed9 : ¬ C06_Live_Statement { Cfg.committed9 with recvCap := 1 } := by
  intro h
  exact absurd (h staleWindow_committed9) (by decide)

set_option maxRecDepth 100000 in
/-- With the repair (`fixPersistProbe`: every `retx_threshold` egress passes a sender with something
    to send, nothing in flight and a zero window emits an empty segment with `seq = snd_una − 1`; the
    receiver answers an empty segment before `rcv_nxt` with its current ACK and window) the same
    scenario completes on the committed tree: the reader gets the second byte. Within budget,
    quiescent. Nothing was ever emitted beyond the advertised window (`Spec.windowOk`, the unchanged
    C16 oracle, holds on this history). -/
theorem fixed_F_C06_4 :
    let cfg : Cfg := { Cfg.committed with recvCap := 1 }
    Spec.c06Liveness cfg (Spec.modelHistory cfg 2 fixed_staleWindow) = none ∧
    ((Sys.init cfg 2).run fixed_staleWindow).2.getLast? = some [Obs.okBytes [2]] ∧
    Spec.withinBudget cfg (Spec.modelHistory cfg 2 fixed_staleWindow) = true ∧
    Spec.trailingQuiet (Spec.modelHistory cfg 2 fixed_staleWindow) ≥ 2 ∧
    Spec.windowOk (Spec.modelHistory cfg 2 fixed_staleWindow) = true := by
  refine ⟨by decide, by decide, by decide, by decide, by decide⟩

/-- The persist probe, for every state.
    (1) The probe carries no payload, no FIN / SYN / RST, and sits one sequence number before `snd_una`.
    (2) It is sent only with a zero window and nothing in flight, and such a socket is not a
        retransmit candidate; the sweep changes nothing but its own tick counter, so the socket stays
        no candidate and `retx_max` is never charged (a slow reader is never aborted).
    (3) It elicits the current window: a receiver in any `handle_established` state answers every
        empty segment that lies before `rcv_nxt` with a pure ACK of its `rcv_nxt` carrying
        `advertised_window(recv_buf_cap, |recv_buf|)`, sent from `snd_max`, and accepts nothing. -/
theorem persist_probe_facts (cfg : Cfg) (hfix : cfg.fixPersistProbe = true) :
    (∀ (t : Tcb) (cap p : Nat), (t.probeSeg cap p).payload = [] ∧ (t.probeSeg cap p).flags.fin = false ∧
        (t.probeSeg cap p).flags.syn = false ∧ (t.probeSeg cap p).flags.rst = false ∧
        (t.probeSeg cap p).seq = wsub t.sndUna 1) ∧
    (∀ (t : Tcb) (n : Nat), t.persistCandidate = true →
        t.sndWnd = 0 ∧ t.inFlight = 0 ∧ (t.retxCandidate = true → t.isHandshake = true) ∧
        ({ t with persistTicks := n } : Tcb).retxCandidate = t.retxCandidate ∧
        ({ t with persistTicks := n } : Tcb).retxAttempts = t.retxAttempts ∧
        ({ t with persistTicks := n } : Tcb).sndNxt = t.sndNxt ∧ ({ t with persistTicks := n } : Tcb).sndMax = t.sndMax) ∧
    (∀ (r : Tcb) (sg : Seg) (a b : Nat), sg.payload = [] → sg.flags.fin = false → sg.flags.syn = false →
        wsub r.rcvNxt sg.seq ≠ 0 → wsub r.rcvNxt sg.seq < 2147483648 →
        (r.handleEstablished cfg sg).2 = true ∧
        (r.handleEstablished cfg sg).1.recvBuf = r.recvBuf ∧ (r.handleEstablished cfg sg).1.rcvNxt = r.rcvNxt ∧
        ((r.handleEstablished cfg sg).1.replySeg cfg sg a b).payload = [] ∧
        ((r.handleEstablished cfg sg).1.replySeg cfg sg a b).ack = r.rcvNxt ∧
        ((r.handleEstablished cfg sg).1.replySeg cfg sg a b).window = advWindow cfg.recvCap r.recvBuf.length ∧
        ((r.handleEstablished cfg sg).1.replySeg cfg sg a b).seq = (r.handleEstablished cfg sg).1.sndMax) := by
  refine ⟨fun t cap p => ⟨rfl, rfl, rfl, rfl, rfl⟩, ?_, ?_⟩
  · intro t n h
    unfold Tcb.persistCandidate at h
    simp only [Bool.and_eq_true, beq_iff_eq, Bool.or_eq_true, Bool.not_eq_true'] at h
    obtain ⟨⟨⟨_, hw⟩, hidle⟩, _⟩ := h
    refine ⟨hw, by unfold Tcb.inFlight; rw [hidle, wsub_self], ?_, rfl, rfl, rfl, rfl⟩
    intro hc
    unfold Tcb.retxCandidate at hc
    simp only [Bool.or_eq_true, Bool.and_eq_true, bne_iff_ne, ne_eq] at hc
    rcases hc with hc | ⟨_, hne⟩
    · exact hc
    · exact absurd hidle hne
  · intro r sg a b hp hf hs hne hlt
    -- data and FIN processing are the identity on an empty, FIN-less segment
    have hal : ∀ t : Tcb, Tcb.acceptLen cfg.recvCap t sg = 0 := by
      intro t; unfold Tcb.acceptLen; rw [hp]; simp
    have hhe : (r.handleEstablished cfg sg).1 = r.onAck cfg.fixSndMax sg := by
      unfold Tcb.handleEstablished
      dsimp only
      unfold Tcb.onData
      dsimp only
      rw [hal]
      simp only [Nat.lt_irrefl, if_false]
      unfold Tcb.onFin
      rw [hf]
      simp
    have hrb : (r.onAck cfg.fixSndMax sg).recvBuf = r.recvBuf ∧ (r.onAck cfg.fixSndMax sg).rcvNxt = r.rcvNxt := by
      unfold Tcb.onAck
      split
      · split <;> exact ⟨rfl, rfl⟩
      · exact ⟨rfl, rfl⟩
    have hod : (r.onAck cfg.fixSndMax sg).oldDup sg = true := by
      unfold Tcb.oldDup
      rw [hrb.2, hp, hf, hs]
      simp [hne, hlt]
    have h2 : (r.handleEstablished cfg sg).2 = true := by
      unfold Tcb.handleEstablished
      dsimp only
      unfold Tcb.onData
      dsimp only
      rw [hal]
      simp only [Nat.lt_irrefl, if_false]
      unfold Tcb.onFin
      rw [hf]
      simp only [Bool.false_eq_true, false_and, if_false]
      rw [hfix, hod]
      simp
    rw [hhe]
    refine ⟨h2, hrb.1, hrb.2, ?_, ?_, ?_, ?_⟩
    all_goals (unfold Tcb.replySeg; rw [hfix, hod]; simp only [Bool.and_self, if_true])
    · rfl
    · exact hrb.2
    · show advWindow cfg.recvCap (r.onAck cfg.fixSndMax sg).recvBuf.length = _
      rw [hrb.1]

def witness_lostLastAck : List Op :=
    [.listen 1 0 srv, .connect 0 0 0 srv, .egress, .deliver 0, .egress, .deliver 1, .cpoll 0 0,
    .egress, .deliver 2, .accept 0 1, .write 0 [1, 2, 3], .egress, .deliver 3, .egress, .deliver 4,
    .shutdown 0, .egress, .deliver 5, .egress, .deliver 6, .shutdown 1, .egress, .deliver 7, .egress,
    .drop 8, .egress, .egress, .deliver 9, .egress, .egress, .egress, .deliver 10, .egress, .egress,
    .egress, .deliver 11, .egress, .egress, .egress, .deliver 12, .egress, .egress, .egress,
    .deliver 13, .egress, .egress, .egress, .egress, .egress, .egress, .egress, .egress, .egress,
    .egress, .read 1 8]

def fixed_lostLastAck : List Op :=
    [.listen 1 0 srv, .connect 0 0 0 srv, .egress, .deliver 0, .egress, .deliver 1, .cpoll 0 0,
    .egress, .deliver 2, .accept 0 1, .write 0 [1, 2, 3], .egress, .deliver 3, .egress, .deliver 4,
    .shutdown 0, .egress, .deliver 5, .egress, .deliver 6, .shutdown 1, .egress, .deliver 7, .egress,
    .drop 8, .egress, .egress, .deliver 9, .egress, .egress, .egress, .deliver 10, .egress, .egress,
    .egress, .deliver 11, .egress, .egress, .egress, .deliver 12, .egress, .egress, .egress,
    .deliver 13, .egress, .egress, .egress, .egress, .egress, .egress, .egress, .egress, .egress,
    .egress, .read 1 8]

/-- The code as committed in /repo after all repairs of this area (`Cfg.committed`: nine flags;
    the general `fixOrphanTimeout` was not adopted by the integrator and stays off). -/
def cfgCommitted : Cfg := Cfg.committed

/-- The tree before the SND.MAX repair of F-C06-8 (`Cfg.committed7`: seven repairs). -/
def cfgCommitted7 : Cfg := Cfg.committed7

/-- The code with the five repairs that have been committed to /repo (080947f, 018714e, 2fda244,
    d10c607, b0e0c79). -/
def cfgRepaired : Cfg :=
  { fixReack := true, fixWinUpdate := true, fixHsReset := true, fixRstAfterClose := true, fixReapOrphan := true }

set_option maxRecDepth 100000 in
/-- F-C06-6: one lost packet — the final ACK of a close. The client has sent and received FIN and
    is `Closed`; `handle_on_connection` ignores everything in that state (there is no TIME_WAIT to
    re-ACK a retransmitted FIN), so the server in `LastAck` retransmits its FIN until the budget is
    gone and is aborted with `TimedOut`: its application, which had not yet read the 3 bytes sitting
    in `recv_buf`, gets the error instead of the data (abort clears the buffer). Holds on the model
    with all committed repairs. -/
theorem witness_F_C06_6 : ¬ C06_Live_Statement cfgRepaired := by
  intro h
  exact absurd (h witness_lostLastAck) (by decide)

set_option maxRecDepth 100000 in
/-- On the committed tree (`cfgCommitted`; the repair is `fixQuietClose`: an abort in `LastAck` /
    `Closing` enters `Closed` silently and keeps the receive buffer, RFC 793) the same scenario ends
    with the 3 bytes read. -/
theorem fixed_F_C06_6 :
    Spec.c06Liveness cfgCommitted (Spec.modelHistory cfgCommitted 2 fixed_lostLastAck) = none ∧
    ((Sys.init cfgCommitted 2).run fixed_lostLastAck).2.getLast? = some [Obs.okBytes [1, 2, 3]] := by
  refine ⟨by decide, by decide⟩

def witness_overshoot : List Op :=
    [.listen 1 0 srv, .connect 0 0 0 srv, .egress, .deliver 0, .egress, .deliver 1, .cpoll 0 0,
    .egress, .deliver 2, .accept 0 1, .write 0 [1, 2, 3, 4, 5, 6, 7, 8, 9, 10], .egress, .deliver 3,
    .egress, .deliver 4, .egress, .egress, .egress, .read 1 2, .read 1 2, .egress, .deliver 5,
    .deliver 6, .egress, .drop 7, .egress, .egress, .egress, .egress, .deliver 8, .egress, .egress,
    .deliver 9, .egress, .egress, .egress, .egress, .egress, .egress, .egress, .egress, .read 1 2,
    .write 0 [11]]

def fixed_overshoot : List Op :=
    [.listen 1 0 srv, .connect 0 0 0 srv, .egress, .deliver 0, .egress, .deliver 1, .cpoll 0 0,
    .egress, .deliver 2, .accept 0 1, .write 0 [1, 2, 3, 4, 5, 6, 7, 8, 9, 10], .egress, .deliver 3,
    .egress, .deliver 4, .egress, .egress, .egress, .read 1 2, .read 1 2, .egress, .deliver 5,
    .deliver 6, .egress, .drop 7, .egress, .egress, .egress, .egress, .deliver 8, .egress, .egress,
    .deliver 9, .deliver 10, .egress, .deliver 11, .egress, .egress, .egress, .egress, .egress,
    .egress, .egress, .read 1 2, .write 0 [11]]

def cfgSmallBudget : Cfg := { cfgRepaired with recvCap := 4, sendCap := 16, retxMax := 2 }

set_option maxRecDepth 100000 in
/-- F-C06-7: `recv_buf_cap = 4`, `retx_max = 2`, one dropped packet, two packets held one round.
    SYN and SYN-ACK advertise the constant 65535, so the first flight (10 bytes) overshoots the
    receiver's 4-byte buffer; the 6 refused bytes "time out" and cost a retransmit attempt although
    nothing was lost. One genuinely lost segment later the budget is spent and the connection aborts
    with `TimedOut` — within the stated fault budget. On the model with the committed repairs. -/
theorem witness_F_C06_7 : ¬ C06_Live_Statement cfgSmallBudget := by
  intro h
  exact absurd (h witness_overshoot) (by decide)

set_option maxRecDepth 100000 in
/-- On the committed tree (the repair is `fixSynWindow`: SYN / SYN-ACK advertise
    `advertised_window(recv_buf_cap, 0)`) the same scenario completes. -/
theorem fixed_F_C06_7 :
    Spec.c06Liveness { cfgCommitted with recvCap := 4, sendCap := 16, retxMax := 2 }
      (Spec.modelHistory { cfgCommitted with recvCap := 4, sendCap := 16, retxMax := 2 } 2 fixed_overshoot) = none := by
  decide

/-- The repair of F-C06-8 at TCB level, for every state: a sender that had `k` sequence numbers in
    flight (`snd_max = snd_una + k`) and was rewound to `j < k` (`snd_nxt = snd_una + j`) treats the
    ACK of the whole earlier flight as valid exactly when it keeps SND.MAX (`fixSndMax`); accepting it
    frees the bytes, resets the retransmit state and resumes sending at the acknowledged position. -/
theorem sndmax_accepts_earlier_flight (t : Tcb) (u j k : Nat) (hu : u < M32) (hjk : j < k) (hk : k < M32)
    (h1 : t.sndUna = u) (h2 : t.sndNxt = wadd u j) (h3 : t.sndMax = wadd u k) :
    t.ackValid true (wadd u k) = true ∧ t.ackValid false (wadd u k) = false ∧
    (t.ackAdvance (wadd u k)).sndNxt = wadd u k ∧ (t.ackAdvance (wadd u k)).sndUna = wadd u k ∧
    (t.ackAdvance (wadd u k)).retxAttempts = 0 ∧ (t.ackAdvance (wadd u k)).egressSinceAck = 0 := by
  have e1 : wsub (wadd u k) t.sndUna = k := by
    rw [h1, wsub_wadd u u k hu hu (by rw [wsub_self]; omega), wsub_self]; omega
  have e2 : t.inFlight = j := by
    unfold Tcb.inFlight
    rw [h1, h2, wsub_wadd u u j hu hu (by rw [wsub_self]; omega), wsub_self]; omega
  refine ⟨?_, ?_, ?_, rfl, rfl, rfl⟩
  · unfold Tcb.ackValid Tcb.ackBound
    rw [e1, h3, if_pos rfl, e1]
    simp; omega
  · unfold Tcb.ackValid Tcb.ackBound
    rw [e1, e2]
    have : ¬ (k ≤ j) := by omega
    simp [this]
  · unfold Tcb.ackAdvance
    dsimp only
    rw [e1, e2, if_pos hjk]

def witness_ackAboveNxt : List Op :=
    [.listen 0 0 ⟨Ip.any false, 9000⟩, .connect 1 0 0 ⟨Ip.host 0 false, 9000⟩, .cpoll 0 0, .accept 0 1,
    .egress, .deliver 0, .deliver 1, .cpoll 0 0, .accept 0 1, .egress, .deliver 2, .deliver 3,
    .cpoll 0 0, .write 0 [120], .shutdown 0, .read 0 1, .accept 0 1, .egress, .deliver 4, .deliver 5,
    .deliver 6, .deliver 7, .deliver 8, .deliver 9, .read 0 1, .accept 0 1, .write 1 [188, 219, 250,
    30, 61, 92, 123, 154, 185, 216, 247, 27, 58, 89, 120, 151, 182, 213, 244, 24, 55, 86, 117, 148,
    179, 210, 241, 21, 52, 83, 114, 145, 176, 207, 238, 18, 49, 80, 111, 142], .shutdown 1, .read 1 64,
    .read 1 64, .egress, .deliver 13, .deliver 14, .deliver 15, .read 0 1, .egress, .deliver 11,
    .deliver 18, .deliver 19, .deliver 16, .deliver 20, .deliver 17, .deliver 12, .deliver 10,
    .read 0 1, .egress, .deliver 24, .deliver 21, .deliver 25, .deliver 26, .deliver 23, .deliver 22,
    .read 0 1, .egress, .deliver 27, .read 0 1, .egress, .deliver 28, .deliver 29, .read 0 1, .egress,
    .deliver 30, .deliver 31, .read 0 1, .egress, .deliver 32, .deliver 33, .deliver 34, .read 0 1,
    .egress, .deliver 36, .read 0 1, .egress, .deliver 35, .deliver 37, .read 0 1, .egress,
    .deliver 39, .deliver 40, .read 0 1, .egress, .deliver 38, .deliver 41, .read 0 1, .egress,
    .deliver 44, .deliver 42, .deliver 43, .read 0 1, .egress, .deliver 45, .deliver 46, .read 0 1,
    .egress, .deliver 47, .read 0 1, .egress, .deliver 48, .deliver 49, .deliver 50, .read 0 1,
    .egress, .deliver 51, .deliver 52, .deliver 53, .read 0 1, .egress, .deliver 54, .deliver 55,
    .read 0 1, .egress, .deliver 56, .deliver 57, .read 0 1, .egress, .deliver 58, .read 0 1, .egress,
    .read 0 1, .egress, .read 0 1, .egress, .read 0 1, .egress, .read 0 1, .egress, .stat]

set_option maxRecDepth 100000 in
/-- F-C06-8: **no loss**, `retx_threshold = 1`, `recv_buf_cap = 8` (history found by the thorough
    tier on the committed tree). The go-back-N rewind sets `snd_nxt = snd_una` and forgets how far the
    sender had got; when the rewound retransmission is shorter than what was sent before (the window
    has shrunk meanwhile), the ACK for the earlier, longer flight has `acked > in_flight` and is thrown
    away — again and again, because the receiver keeps answering with that same ACK — until the
    budget is spent: the server aborts, the client's reader is parked with bytes outstanding. Real
    TCP keeps SND.MAX and accepts ACKs up to it. -/
theorem witness_F_C06_8 :
    ¬ C06_Live_Statement { cfgCommitted7 with sendCap := 64, recvCap := 8, backlog := 4, retxThreshold := 1 } := by
  intro h
  exact absurd (h witness_ackAboveNxt) (by decide)

set_option maxRecDepth 100000 in
/-- On the tree with this repair (`Cfg.committed8`, /repo 7797aa0; the history uses explicit packet ids,
    which later repairs that add packets — the persist probes — renumber; the repair is `fixSndMax`: the
    TCB keeps SND.MAX, a cumulative ACK is
    valid up to it, and an ACK that passes the rewound `snd_nxt` pulls it up) the very same history
    — same application calls, same wire schedule, no id re-derived — passes the liveness oracle, and
    not vacuously: it is within the fault budget, ends quiescent, the connection is not aborted and
    the reader has been handed bytes of the 40-byte write that it never saw before the repair. -/
theorem fixed_F_C06_8 :
    let cfg : Cfg := { Cfg.committed8 with sendCap := 64, recvCap := 8, backlog := 4, retxThreshold := 1 }
    Spec.c06Liveness cfg (Spec.modelHistory cfg 2 witness_ackAboveNxt) = none ∧
    Spec.withinBudget cfg (Spec.modelHistory cfg 2 witness_ackAboveNxt) = true ∧
    Spec.trailingQuiet (Spec.modelHistory cfg 2 witness_ackAboveNxt) ≥ 2 := by
  refine ⟨by decide, by decide, by decide⟩

set_option maxRecDepth 100000 in
/-- With the repairs switched on the same scenarios (same application calls, same loss; packet ids
    re-derived) complete. These are checks of the four repaired scenarios, not a liveness proof for
    all schedules — see `C06_partial`. -/
theorem fixed_scenarios :
    Spec.c06Liveness { fixReack := true } (Spec.modelHistory { fixReack := true } 2 fixed_lostAck) = none ∧
    Spec.c06Liveness { cfgSmallWindow with fixWinUpdate := true }
      (Spec.modelHistory { cfgSmallWindow with fixWinUpdate := true } 2 fixed_zeroWindow) = none ∧
    Spec.c06Liveness { fixReack := true } (Spec.modelHistory { fixReack := true } 2 fixed_lostHandshakeAck) = none ∧
    Spec.c06Liveness { cfgTightRetx with fixHsReset := true }
      (Spec.modelHistory { cfgTightRetx with fixHsReset := true } 2 fixed_hsCounters) = none := by
  refine ⟨by decide, by decide, by decide, by decide⟩

set_option maxRecDepth 100000 in
/-- The repaired runs are not vacuous: they are within budget, end quiescent, and the data arrived. -/
example :
    Spec.withinBudget { fixReack := true } (Spec.modelHistory { fixReack := true } 2 fixed_lostAck) = true ∧
    Spec.trailingQuiet (Spec.modelHistory { fixReack := true } 2 fixed_lostAck) ≥ 4 ∧
    (((Sys.init { fixReack := true } 2).run fixed_lostAck).2.reverse.take 2) = [[.okN 1], [.okBytes [1]]] := by
  refine ⟨by decide, by decide, by decide⟩

/-! ## Liveness proved: lossless, in-order network, any amount of data -/

/-- Well-formedness of a configuration for the lossless liveness theorem (decidable): the window
    update repair of F-C06-2 is in (`fixWinUpdate`; without it the theorem is false, witness
    `witness_F_C06_2`), the MSS and both buffer caps are at least one byte. -/
def LiveWF (cfg : Cfg) (mss : Nat) : Bool :=
  cfg.fixWinUpdate && decide (1 ≤ mss) && decide (1 ≤ cfg.sendCap) && decide (1 ≤ cfg.recvCap)

theorem linv_init (cfg : Cfg) (isnX isnY wndX wndY : Nat) (h1 : 1 ≤ wndX) (h2 : wndX ≤ advWindow cfg.recvCap 0) :
    LInv cfg (Pair.init isnX isnY wndX wndY) :=
  ⟨rfl, rfl, rfl, rfl, rfl, rfl, wadd_lt _ _, h1, h2, rfl, rfl, rfl, rfl, rfl, rfl, rfl, rfl, rfl, rfl, rfl, rfl, rfl⟩

/-- **C06 liveness on a network that loses nothing and delivers in order** (unbounded: any amount
    of data, any configuration with `LiveWF`). Two established endpoints, `x` writes `data` (any
    length — no `NoWrap` hypothesis: the sequence space may wrap), `y` reads. The schedule is the
    explicit list `liveActs … r …` of `Pair.run` actions, `r` rounds of: the writer offers the next
    `chunk i ≥ 1` bytes of what is left (retrying what `poll_send` refused), both kernels run
    `check_retx` (any threshold / budget) and `segment_all`, every segment `x` emitted in the round
    is delivered to `y` in order, the reader reads with a buffer of `rd i ≥ recv_buf_cap` bytes, the
    sender's kernel runs `d` more `check_retx` passes with the data still unacknowledged (the round
    trip in egress ticks: `d = 0`, or `d < retx_threshold` — in the real kernel an ACK leaves with the
    next egress, `d = 1`), then every segment `y` emitted (ACKs, window update) is delivered to `x`
    in order. The sender's first
    window is any value in `1 … advertised_window(recv_buf_cap, 0)` (what the committed tree's
    SYN / SYN-ACK carry, `fixSynWindow`).

    Then after any `r ≥ |data|` rounds (ranking: unwritten + unacknowledged bytes drop by at least
    one per round) every byte has been accepted, acknowledged and **read at the peer, in order**
    (`y.del = data`), nothing is in flight, and neither side is aborted or has left `Established`.
    At every earlier round boundary the invariant `LInv` holds (no abort, window open). -/
theorem C06_live_lossless (cfg : Cfg) (mss : Nat) (hwf : LiveWF cfg mss = true) (thr max d isnX isnY wndX wndY : Nat)
    (hd : d = 0 ∨ d < thr) (hw1 : 1 ≤ wndX) (hw2 : wndX ≤ advWindow cfg.recvCap 0) (chunk rd : Nat → Nat) (hch : ∀ i, 1 ≤ chunk i)
    (hrd : ∀ i, cfg.recvCap ≤ rd i) (data : List Nat) (r : Nat) (hr : data.length ≤ r) :
    let p0 := Pair.init isnX isnY wndX wndY
    let p := p0.run cfg mss (liveActs cfg mss thr max d chunk rd r 0 p0 data)
    p.y.del = data ∧ p.x.acc = data ∧ p.x.tcb.sendBuf = [] ∧ p.x.tcb.sndNxt = p.x.tcb.sndUna ∧
      p.x.tcb.abortErr = none ∧ p.y.tcb.abortErr = none ∧
      p.x.tcb.state = .established ∧ p.y.tcb.state = .established ∧ p.y.tcb.recvBuf = [] := by
  intro p0 p
  unfold LiveWF at hwf
  simp only [Bool.and_eq_true, decide_eq_true_eq] at hwf
  obtain ⟨⟨⟨hfw, hm⟩, hsc⟩, hrc⟩ := hwf
  have hrun : p = (liveRun cfg mss thr max d chunk rd r 0 p0 data).1 := run_liveActs cfg mss thr max d chunk rd r 0 p0 data
  obtain ⟨hinv, hg, ha, _, hlen⟩ := liveRun_ok cfg mss thr max d chunk rd hm hd hsc hrc hfw hch hrd data r 0 p0 data
    (linv_init cfg isnX isnY wndX wndY hw1 hw2) rfl rfl
  rw [← hrun] at hinv hg ha hlen
  have h0 : p0.x.tcb.sendBuf.length = 0 := rfl
  have hsb : p.x.tcb.sendBuf = [] := List.eq_nil_of_length_eq_zero (by omega)
  have hrest : (liveRun cfg mss thr max d chunk rd r 0 p0 data).2 = [] := List.eq_nil_of_length_eq_zero (by omega)
  rw [hsb, hrest, List.append_nil, List.append_nil] at hg
  rw [hsb, List.append_nil, hg] at ha
  refine ⟨hg, ha, hsb, hinv.xfl, ?_, ?_, hinv.xst, hinv.yst, hinv.yrb⟩
  · unfold Tcb.abortErr; simp [hinv.xrs, hinv.xto]
  · unfold Tcb.abortErr; simp [hinv.yrs, hinv.yto]

/-- On the committed tree the handshake itself provides the first window (`synWindow`). -/
theorem C06_live_lossless_committed (cfg : Cfg) (mss : Nat) (hwf : LiveWF cfg mss = true) (hsyn : cfg.fixSynWindow = true)
    (thr max d isnX isnY : Nat) (hd : d = 0 ∨ d < thr) (chunk rd : Nat → Nat) (hch : ∀ i, 1 ≤ chunk i)
    (hrd : ∀ i, cfg.recvCap ≤ rd i) (data : List Nat) :
    let p0 := Pair.init isnX isnY (synWindow cfg) (synWindow cfg)
    let p := p0.run cfg mss (liveActs cfg mss thr max d chunk rd data.length 0 p0 data)
    p.y.del = data ∧ p.x.tcb.sendBuf = [] ∧ p.x.tcb.abortErr = none ∧ p.y.tcb.abortErr = none := by
  intro p0 p
  have hsw : synWindow cfg = advWindow cfg.recvCap 0 := by unfold synWindow; rw [hsyn]; rfl
  have hrc : 1 ≤ cfg.recvCap := by
    unfold LiveWF at hwf
    simp only [Bool.and_eq_true, decide_eq_true_eq] at hwf
    exact hwf.2
  have h1 : 1 ≤ synWindow cfg := by rw [hsw]; unfold advWindow; omega
  have := C06_live_lossless cfg mss hwf thr max d isnX isnY (synWindow cfg) (synWindow cfg) hd h1 (by rw [hsw]; exact Nat.le_refl _)
    chunk rd hch hrd data data.length (Nat.le_refl _)
  exact ⟨this.1, this.2.2.1, this.2.2.2.2.1, this.2.2.2.2.2.1⟩

set_option maxRecDepth 100000 in
/-- Non-vacuity: the committed tree with a 4-byte receive buffer, a 3-byte send buffer, MSS 2 and
    `retx_threshold = 2`, ACKs one tick late (`d = 1`); 11 bytes offered 5 at a time. The hypotheses hold, the schedule is a real
    one (95 actions: 7 data segments, 11 ACKs / window updates delivered), and the bytes arrive. -/
example :
    let cfg : Cfg := { cfgCommitted with recvCap := 4, sendCap := 3, retxThreshold := 2 }
    let data := [1, 2, 3, 4, 5, 6, 7, 8, 9, 10, 11]
    let p0 := Pair.init 100 200 (synWindow cfg) (synWindow cfg)
    let acts := liveActs cfg 2 2 5 1 (fun _ => 5) (fun _ => 4) data.length 0 p0 data
    LiveWF cfg 2 = true ∧ cfg.fixSynWindow = true ∧ (p0.run cfg 2 acts).y.del = data ∧
      (p0.run cfg 2 acts).x.out.length = 7 ∧ (p0.run cfg 2 acts).y.out.length = 11 ∧ acts.length = 95 := by
  decide

/-- **What is proved of liveness** (`C06_partial`): the local progress facts every schedule relies
    on. (a) An in-order segment that finds room is accepted, at least one byte, and acknowledged.
    (b) A valid cumulative ACK frees exactly the acknowledged bytes and resets the retransmit
    state. (c) A sender with unacknowledged sequence space is a retransmit candidate in every
    transmitting state, so it keeps retrying until acknowledged or aborted (never silently idle).
    Together with `C06_live_lossless` (global ranking argument over rounds, any amount of data, on
    the two-endpoint system with `fixWinUpdate`) this is what is proved of liveness. Still missing
    for the full statement `C06_Live_Statement`, which cannot hold on the faithful model (witnesses
    above); on the committed tree no counterexample is known any more (F-C06-4 and F-C06-8 are
    repaired) but it is not proved: (1) any loss, duplication or
    reordering — the ranking argument is for a wire that delivers every segment of a round, in
    order, within fewer than `retx_threshold` egress ticks (so `check_retx` only counts, never
    rewinds; with losses below the budget the argument needs SND.MAX, see F-C06-8); (2) readers that do not drain
    (`rd i < recv_buf_cap`: zero-window episodes, F-C06-4 territory); (3) data in both directions at
    once, FIN / half-close, and the handshake itself (the theorem starts from two `Established`
    TCBs; `C13.connect_ok_iff_listener_room` covers the lossless handshake); (4) the lift from the
    two-endpoint system to `Sys` histories (`Spec.c06Liveness` on `modelHistory`), i.e. to the
    statement the oracle evaluates. -/
theorem C06_partial :
    (∀ (cap : Nat) (t : Tcb) (s : Seg), s.payload ≠ [] → s.seq = t.rcvNxt → t.peerFin = false →
        t.recvBuf.length < cap →
        0 < Tcb.acceptLen cap t s ∧ (t.onData cap s).2 = true ∧
          (t.onData cap s).1.recvBuf = t.recvBuf ++ s.payload.take (Tcb.acceptLen cap t s)) ∧
    (∀ (t : Tcb) (fm : Bool) (ack : Nat), t.ackValid fm ack = true →
        (t.ackAdvance ack).sndUna = ack ∧ (t.ackAdvance ack).retxAttempts = 0 ∧
          (t.ackAdvance ack).egressSinceAck = 0 ∧
          (t.ackAdvance ack).sendBuf.length ≤ t.sendBuf.length) ∧
    (∀ t : Tcb, t.transmittable = true → t.sndUna ≠ t.sndNxt → t.retxCandidate = true) := by
  refine ⟨?_, ?_, ?_⟩
  · intro cap t s hne hseq hpf hroom
    have hl : 0 < s.payload.length := by
      cases hp : s.payload with
      | nil => exact absurd hp hne
      | cons a b => simp
    have hpos : 0 < Tcb.acceptLen cap t s := by
      unfold Tcb.acceptLen
      rw [if_pos ⟨hne, hseq, hpf⟩]
      omega
    refine ⟨hpos, ?_, ?_⟩
    · unfold Tcb.onData; dsimp only; rw [if_pos hpos]
    · unfold Tcb.onData; dsimp only; rw [if_pos hpos]
  · intro t fm ack _
    refine ⟨rfl, rfl, rfl, ?_⟩
    unfold Tcb.ackAdvance
    simp only [List.length_drop]
    omega
  · intro t ht hne
    unfold Tcb.retxCandidate
    simp [ht, hne]

end TV.C06
