/-
  C13 — turmoil-net connections open, close and are reclaimed like TCP.

  Proved for all histories: index consistency (every binding / connection entry points at a live
  socket, so the hook's `dangling` is always 0), the cleanup mechanisms (`remove`, `reap_closed`),
  the close decision table, FIFO accept, and the refuse path.  The reclamation clause is false on the
  faithful model: `C13_Reclaim_Statement`, two witnesses (F-C13-1 orphaned child, F-C13-2 lost RST).
-/
import TvNetTcp.Proofs.SysIndex
import TvNetTcp.Proofs.SysAccept
import TvNetTcp.Proofs.SysReclaim
import TvNetTcp.Proofs.SysCaps

namespace TV.C13
open TV.NetTcp

/-! ## Index consistency -/

/-- **Index consistency, all histories.** After any op sequence (any interleaving of connect /
    cancel / accept / write / shutdown / drop / listener drop on any number of hosts, any per-packet
    deliver / duplicate / drop schedule), in every kernel every fd recorded in the binding index or
    in the 4-tuple connection index is a live entry of the socket table. -/
theorem index_consistent (cfg : Cfg) (hosts : Nat) (ops : List Op) :
    ∀ k ∈ ((Sys.init cfg hosts).exec ops).kernels,
      (∀ e ∈ k.bindings, ∀ fd ∈ e.2, (k.getSock fd).isSome = true) ∧
      (∀ e ∈ k.connections, (k.getSock e.2).isSome = true) := by
  intro k hk
  have := run_idx (Sys.init cfg hosts) ops (SIdx.init cfg hosts) k hk
  exact ⟨this.bind, this.conn⟩

/-- The same on the observation the oracle checks: a `stat` taken after any history reports
    `dangling = 0` on every host. -/
theorem stat_never_dangling (cfg : Cfg) (hosts : Nat) (ops : List Op) :
    ∀ o ∈ (((Sys.init cfg hosts).exec ops).step .stat).2, Spec.danglingZero o = true :=
  stat_obs_dangling _ (run_idx (Sys.init cfg hosts) ops (SIdx.init cfg hosts))

/-- The invariant also survives arbitrary (forged) inbound packets and arbitrary fd arguments at the
    kernel boundary. -/
theorem index_kernel_ops (cfg : Cfg) (k : Kernel) (h : IdxInv k) (p : Packet) (fd : Nat) :
    IdxInv (Kernel.deliver cfg k p) ∧ IdxInv (k.close cfg.fixListenerFamily fd) ∧ IdxInv (k.egress cfg).1 :=
  ⟨h.deliver cfg p, h.close _ fd, h.egress cfg⟩

example : ∃ ops : List Op, ∃ k ∈ ((Sys.init {} 2).exec ops).kernels, k.connections.length = 1 ∧ k.bindings.length = 1 :=
  ⟨[.listen 1 0 ⟨.host 1 false, 9000⟩, .connect 0 0 0 ⟨.host 1 false, 9000⟩, .egress, .deliver 0], by decide⟩

/-! ## The cleanup mechanisms -/

/-- `SocketTable::remove` clears the socket and every index entry that mentions it. -/
theorem remove_clears (k : Kernel) (fd : Nat) :
    (k.remove fd).getSock fd = none ∧
    (∀ e ∈ (k.remove fd).bindings, fd ∉ e.2 ∧ e.2 ≠ []) ∧
    (∀ e ∈ (k.remove fd).connections, e.2 ≠ fd) := by
  refine ⟨?_, ?_, ?_⟩
  · unfold Kernel.getSock Kernel.remove
    dsimp only
    induction k.sockets with
    | nil => rfl
    | cons x xs ih =>
      obtain ⟨a, b⟩ := x
      by_cases h : a = fd
      · subst h; simpa [List.filter_cons] using ih
      · have h1 : (a != fd) = true := by simpa using h
        have h2 : (fd == a) = false := by simpa using (fun hh : fd = a => h hh.symm)
        simp only [List.filter_cons, h1, if_true, List.lookup_cons, h2]
        exact ih
  · intro e he
    simp only [Kernel.remove, List.mem_filter, List.mem_map] at he
    obtain ⟨⟨e0, _, rfl⟩, hne⟩ := he
    refine ⟨by simp, ?_⟩
    intro h
    dsimp only at h hne
    rw [h] at hne
    simp at hne
  · intro e he
    simp only [Kernel.remove, List.mem_filter] at he
    simpa using he.2

theorem foldl_remove_sockets (fds : List Nat) (k : Kernel) :
    (fds.foldl Kernel.remove k).sockets = k.sockets.filter fun e => !fds.contains e.1 := by
  induction fds generalizing k with
  | nil =>
    simp only [List.foldl_nil, List.contains_nil, Bool.not_false]
    exact (List.filter_eq_self.mpr (by simp)).symm
  | cons a as ih =>
    simp only [List.foldl_cons]
    rw [ih]
    simp only [Kernel.remove, List.filter_filter]
    congr 1
    funext e
    simp only [List.contains_cons]
    cases h1 : as.contains e.1 <;> cases h2 : (e.1 == a) <;> simp [h1, h2, bne]

/-- `reap_closed` leaves no socket that the application has dropped and whose TCP state is terminal
    (`Closed`, or reset). -/
theorem reap_closed_complete (k : Kernel) : ∀ e ∈ k.reapClosed.sockets, Kernel.reapVictim e.2 = false := by
  intro e he
  unfold Kernel.reapClosed at he
  rw [foldl_remove_sockets] at he
  rw [List.mem_filter] at he
  obtain ⟨hmem, hnc⟩ := he
  cases hv : Kernel.reapVictim e.2 with
  | false => rfl
  | true =>
    exfalso
    have : ((k.sockets.filter fun e => Kernel.reapVictim e.2).map (·.1)).contains e.1 = true := by
      simp only [List.contains_iff_mem, List.mem_map, List.mem_filter]
      exact ⟨e, ⟨hmem, hv⟩, rfl⟩
    rw [this] at hnc
    simp at hnc

/-- The decision table of `on_close` for an application-owned TCP socket (tcp.rs:559-580):
    reaped at once iff the connection is already aborted, terminal or still handshaking, or has
    unread bytes (then an RST goes out); otherwise the entry lingers with `fd_closed` set and a FIN
    queued. -/
theorem close_decision (k : Kernel) (fam : Bool) (fd : Nat) (s : Socket) (t : Tcb)
    (hs : k.getSock fd = some s) (hd : s.dgram = false) (ht : s.tcb = some t) :
    let live := !t.reset && !t.timedOut && t.state != .closed && t.state != .synSent && t.state != .synReceived
    (live = false → k.onClose fam fd = (k, true)) ∧
    (live = true → t.recvBuf ≠ [] → (k.onClose fam fd).2 = true ∧
        (k.onClose fam fd).1.outbound =
          k.outbound ++ [{ src := (Kernel.boundEndpoint s).ip, dst := t.peer.ip, seg := Kernel.rstAckSeg t (Kernel.boundEndpoint s) }]) ∧
    (live = true → t.recvBuf = [] → (k.onClose fam fd).2 = false ∧
        (k.onClose fam fd).1 = k.setSock fd { s with fdClosed := true, tcb := some t.queueFin }) := by
  intro live
  refine ⟨?_, ?_, ?_⟩
  · intro hl
    unfold Kernel.onClose
    simp only [hs, hd, ht]
    simp only [live] at hl
    simp [hl]
  · intro hl hne
    unfold Kernel.onClose
    simp only [hs, hd, ht]
    simp only [live] at hl
    have : (!t.recvBuf.isEmpty) = true := by
      cases hb : t.recvBuf with
      | nil => exact absurd hb hne
      | cons a b => rfl
    simp [hl, this, Kernel.emit]
  · intro hl he
    unfold Kernel.onClose
    simp only [hs, hd, ht]
    simp only [live] at hl
    simp [hl, he]

/-- `accept` hands out the head of the listener's ready queue and removes it from the queue. -/
theorem accept_fifo (k : Kernel) (fd child : Nat) (rest : List Nat) (s : Socket) (l : Listen) (t : Tcb)
    (hs : k.getSock fd = some s) (hl : s.listen = some l) (hr : l.ready = child :: rest)
    (hc : (k.setSock fd { s with listen := some { l with ready := rest } }).getTcb child = some t) :
    (k.pollAccept fd).2 = .ok (child, t.peer) ∧
    (k.pollAccept fd).1.acceptLog = k.acceptLog ++ [child] := by
  constructor
  · simp [Kernel.pollAccept, hs, hl, hr, hc]
  · simp [Kernel.pollAccept, hs, hl, hr, hc]
    rfl

/-- **Accept-once, all histories.** After any op sequence on any number of hosts, with any
    per-packet deliver / duplicate / drop schedule, no socket has been handed out twice by `accept`
    on any host (`acceptLog` = the fds `poll_accept` returned, in order). Reason (invariant
    `AccInv`): a fd is queued on a listener only at its SynReceived → Established transition, no TCB
    ever returns to SynReceived, fds are never reused, and — counted with multiplicity — accepted
    fds plus fds still waiting in ready queues never exceed the queued ones. -/
theorem accept_once (cfg : Cfg) (hosts : Nat) (ops : List Op) :
    ∀ k ∈ ((Sys.init cfg hosts).exec ops).kernels, k.acceptLog.Nodup ∧ k.pushLog.Nodup ∧
      ∀ x, k.acceptLog.count x ≤ k.pushLog.count x := by
  intro k hk
  have h := run_acc (Sys.init cfg hosts) ops (SAcc.init cfg hosts) k hk
  refine ⟨h.acceptLog_nodup, h.pushNodup, ?_⟩
  intro x
  have := h.count x
  omega

/-- Also for arbitrary (forged) packets and fd arguments at the kernel boundary. -/
theorem accept_once_kernel_ops (cfg : Cfg) (k : Kernel) (h : AccInv k) (p : Packet) (fd : Nat) :
    (Kernel.deliver cfg k p).acceptLog.Nodup ∧ (k.pollAccept fd).1.acceptLog.Nodup ∧ (k.close cfg.fixListenerFamily fd).acceptLog.Nodup :=
  ⟨(h.deliver cfg p).acceptLog_nodup, (h.pollAccept fd).acceptLog_nodup, (h.close _ fd).acceptLog_nodup⟩

set_option maxRecDepth 100000 in
/-- Non-vacuity: two clients, both handshakes complete, two accepts hand out two different fds. -/
example :
    let ops : List Op := [.listen 1 0 ⟨.host 1 false, 9000⟩, .connect 0 0 0 ⟨.host 1 false, 9000⟩,
      .connect 0 1 1 ⟨.host 1 false, 9000⟩, .egress, .deliver 0, .deliver 1, .egress, .deliver 2, .deliver 3,
      .egress, .deliver 5, .deliver 4, .accept 0 10, .accept 0 11, .accept 0 12]
    (((Sys.init {} 2).exec ops).kernel 1).acceptLog = [3, 2] := by
  decide

/-- Refusal: a SYN for a port nobody listens on is answered with an RST (and creates nothing);
    an RST reaching a connecting client aborts it with `reset`, and `connect` then reports
    `ConnectionRefused`. -/
theorem refuse_path (cfg : Cfg) (k : Kernel) (p : Packet)
    (hu : p.udp = none) (hsyn : p.seg.flags.syn = true) (hnoack : p.seg.flags.ack = false)
    (hnc : k.findConnection ⟨p.dst, p.seg.dstPort⟩ ⟨p.src, p.seg.srcPort⟩ = none)
    (hnl : k.findListener ⟨p.dst, p.seg.dstPort⟩ = none) :
    Kernel.deliver cfg k p = k.emitRst ⟨p.dst, p.seg.dstPort⟩ ⟨p.src, p.seg.srcPort⟩ p.seg ∧
    (Kernel.deliver cfg k p).sockets = k.sockets := by
  have hd : Kernel.deliver cfg k p = k.emitRst ⟨p.dst, p.seg.dstPort⟩ ⟨p.src, p.seg.srcPort⟩ p.seg := by
    unfold Kernel.deliver
    simp [hu, hnc, hsyn, hnoack, hnl]
  refine ⟨hd, ?_⟩
  rw [hd]
  unfold Kernel.emitRst Kernel.emit
  simp

theorem refused_after_rst (cfg : Cfg) (k : Kernel) (fd : Nat) (s : Socket) (t : Tcb) (peer : SockAddr)
    (hs : k.getSock fd = some s) (hto : t.timedOut = false) :
    ((k.setSock fd { s with tcb := some (t.abort true) }).pollConnect cfg fd peer).2 = .err .refused := by
  unfold Kernel.pollConnect
  rw [Kernel.getSock_setSock_self k fd _ (by rw [hs]; rfl)]
  simp [Tcb.abort, hto]

/-- Backlog: a SYN that reaches a listener creates a half-open child (and a SYN-ACK goes out)
    exactly when half-open children of that local address plus the accept queue are below the
    backlog; otherwise the SYN is dropped without any trace (the client retransmits). -/
theorem syn_accepted_iff_room (cfg : Cfg) (k : Kernel) (lfd : Nat) (l r : SockAddr) (s : Seg) (ls : Socket) (li : Listen)
    (hs : k.getSock lfd = some ls) (hl : ls.listen = some li) :
    (k.countChildren lfd l + li.ready.length ≥ li.backlog → k.acceptSyn cfg lfd l r s = k) ∧
    (k.countChildren lfd l + li.ready.length < li.backlog →
      (k.acceptSyn cfg lfd l r s).nextId = k.nextId + 1 ∧
      ∃ p, (k.acceptSyn cfg lfd l r s).outbound = k.outbound ++ [p] ∧ p.seg.flags.syn = true ∧ p.seg.flags.ack = true ∧
        p.seg.ack = wadd s.seq 1 ∧ p.dst = r.ip ∧ p.seg.dstPort = r.port ∧ p.src = l.ip ∧ p.seg.srcPort = l.port ∧
        p.seg.flags.rst = false ∧ p.udp = none) := by
  constructor
  · intro hfull
    unfold Kernel.acceptSyn
    simp [hs, hl, hfull]
  · intro hroom
    have : ¬ (k.countChildren lfd l + li.ready.length ≥ li.backlog) := by omega
    have e1 : ∀ (k' : Kernel) (a b : SockAddr) (fd : Nat),
        (k'.insertConnection a b fd).nextId = k'.nextId ∧ (k'.insertConnection a b fd).outbound = k'.outbound := by
      intro k' a b fd; unfold Kernel.insertConnection; split <;> exact ⟨rfl, rfl⟩
    have e2 : ∀ (k' : Kernel) (key : BindKey) (fd : Nat),
        (k'.insertBinding key fd).nextId = k'.nextId ∧ (k'.insertBinding key fd).outbound = k'.outbound := by
      intro k' key fd; unfold Kernel.insertBinding; split <;> exact ⟨rfl, rfl⟩
    unfold Kernel.acceptSyn
    simp only [hs, hl, this, if_false]
    refine ⟨?_, ?_⟩
    · show (Kernel.insertConnection _ l r _).nextId = k.nextId + 1
      rw [(e1 _ _ _ _).1]
      show (Kernel.insertBinding _ _ _).nextId = k.nextId + 1
      rw [(e2 _ _ _).1]
      rfl
    · refine ⟨{ src := l.ip, dst := r.ip,
                seg := { srcPort := l.port, dstPort := r.port,
                         seq := (((k.insertSock { dgram := ls.dgram, v6 := ls.v6 }).1.insertBinding ⟨false, l.ip, l.port⟩
                                  (k.insertSock { dgram := ls.dgram, v6 := ls.v6 }).2).initialSequence).2,
                         ack := wadd s.seq 1, flags := { syn := true, ack := true }, window := synWindow cfg,
                         payload := [] } }, ?_, ?_, ?_, ?_, ?_, ?_, ?_, ?_, ?_, ?_⟩
      · show (Kernel.insertConnection _ l r _).outbound ++ _ = k.outbound ++ _
        rw [(e1 _ _ _ _).2]
        show (Kernel.insertBinding _ _ _).outbound ++ _ = k.outbound ++ _
        rw [(e2 _ _ _).2]
        rfl
      all_goals rfl

/-- The SYN-ACK completes the client side: a `SynSent` socket becomes `Established`, acknowledges,
    and the pending `connect` then resolves `Ok`. -/
theorem synack_establishes (cfg : Cfg) (k : Kernel) (fd : Nat) (so : Socket) (t : Tcb) (l r peer : SockAddr) (s : Seg)
    (hs : k.getSock fd = some so) (ht : so.tcb = some t) (hst : t.state = .synSent)
    (hrst : s.flags.rst = false) (hsyn : s.flags.syn = true) (hack : s.flags.ack = true) :
    ((Kernel.handleOnConnection cfg k fd l r s).pollConnect cfg fd peer).2 = .ok () := by
  unfold Kernel.handleOnConnection
  simp only [hrst, Bool.false_eq_true, if_false, hs, ht, hst, hsyn, hack, Bool.and_self, if_true]
  unfold Kernel.pollConnect
  have hsome : (k.getSock fd).isSome = true := by rw [hs]; rfl
  simp only [Kernel.emit]
  have : ∀ (so' : Socket) (ob : List Packet), ({ (k.setSock fd so') with outbound := ob } : Kernel).getSock fd = some so' := by
    intro so' ob
    exact Kernel.getSock_setSock_self k fd so' hsome
  rw [this]

theorem sockAddr_eta (a : SockAddr) : ({ ip := a.ip, port := a.port } : SockAddr) = a := by cases a; rfl

/-- A listener found by `find_listener` is a socket in listening mode. -/
theorem findListener_listening (k : Kernel) (l : SockAddr) (lfd : Nat) (h : k.findListener l = some lfd) :
    ∃ ls li, k.getSock lfd = some ls ∧ ls.listen = some li := by
  have key : ∀ (xs : List Nat), xs.find? (fun fd => match k.getSock fd with
      | some s => s.listen.isSome
      | none => false) = some lfd → ∃ ls li, k.getSock lfd = some ls ∧ ls.listen = some li := by
    intro xs hx
    have := List.find?_some hx
    cases hg : k.getSock lfd with
    | none => rw [hg] at this; simp at this
    | some ls =>
      rw [hg] at this
      cases hl : ls.listen with
      | none => simp [hl] at this
      | some li => exact ⟨ls, li, rfl, hl⟩
  unfold Kernel.findListener at h
  dsimp only at h
  split at h
  · rename_i fd hfd
    cases h
    exact key _ hfd
  · exact key _ h

/-- **`connect` resolves `Ok` exactly when a listener is reachable and has backlog room** — one
    lossless handshake exchange between two kernels, as one statement. The client `kc` has a
    `SynSent` socket `fd` (what `poll_connect` creates) whose SYN `p` travels from `cl` to `sv`; the
    server `ks` has no connection for that 4-tuple yet. `ks` handles the SYN, everything it emits in
    response is delivered to the client in order, and the application polls `connect` again:

    * `Ok` ⇔ `find_listener sv` (exact address first, then the wildcard of the family) finds a
      listening socket whose half-open children plus accept queue are below its backlog;
    * no listener ⇒ `ConnectionRefused` (the SYN is answered by an RST);
    * a listener without room ⇒ still `Pending` and the server kernel is unchanged (the SYN is
      dropped without a trace; the client retransmits). -/
theorem connect_ok_iff_listener_room (cfg : Cfg) (kc ks : Kernel) (fd : Nat) (so : Socket) (t : Tcb)
    (cl sv : SockAddr) (p : Packet)
    (hs : kc.getSock fd = some so) (ht : so.tcb = some t) (hst : t.state = .synSent) (hto : t.timedOut = false)
    (hconn : kc.findConnection cl sv = some fd)
    (hu : p.udp = none) (hsrc : p.src = cl.ip) (hsp : p.seg.srcPort = cl.port) (hdst : p.dst = sv.ip)
    (hdp : p.seg.dstPort = sv.port) (hsyn : p.seg.flags.syn = true) (hnoack : p.seg.flags.ack = false)
    (hnc : ks.findConnection sv cl = none) :
    let ks' := Kernel.deliver cfg ks p
    let kc' := (ks'.outbound.drop ks.outbound.length).foldl (Kernel.deliver cfg) kc
    let room : Prop := ∃ lfd ls li, ks.findListener sv = some lfd ∧ ks.getSock lfd = some ls ∧ ls.listen = some li ∧
      ks.countChildren lfd sv + li.ready.length < li.backlog
    ((kc'.pollConnect cfg fd sv).2 = .ok () ↔ room) ∧
    (ks.findListener sv = none → (kc'.pollConnect cfg fd sv).2 = .err .refused) ∧
    (¬ room → ks.findListener sv ≠ none → (kc'.pollConnect cfg fd sv).2 = .pending ∧ ks' = ks) := by
  intro ks' kc' room
  have hl : ({ ip := p.dst, port := p.seg.dstPort } : SockAddr) = sv := by rw [hdst, hdp]
  have hr : ({ ip := p.src, port := p.seg.srcPort } : SockAddr) = cl := by rw [hsrc, hsp]
  have hsome : (kc.getSock fd).isSome = true := by rw [hs]; rfl
  -- what the client does with one reply packet addressed to its connection
  have hclient : ∀ q : Packet, q.udp = none → q.dst = cl.ip → q.seg.dstPort = cl.port → q.src = sv.ip →
      q.seg.srcPort = sv.port → Kernel.deliver cfg kc q = Kernel.handleOnConnection cfg kc fd cl sv q.seg := by
    intro q h1 h2 h3 h4 h5
    have e1 : ({ ip := q.dst, port := q.seg.dstPort } : SockAddr) = cl := by rw [h2, h3]
    have e2 : ({ ip := q.src, port := q.seg.srcPort } : SockAddr) = sv := by rw [h4, h5]
    unfold Kernel.deliver
    simp only [h1, e1, e2, hconn]
    simp
  have hpend : (kc.pollConnect cfg fd sv).2 = .pending := by
    unfold Kernel.pollConnect
    simp [hs, ht, hst]
  -- the three cases
  have hA : ks.findListener sv = none → (kc'.pollConnect cfg fd sv).2 = .err .refused := by
    intro hnl
    have hd := (refuse_path cfg ks p hu hsyn hnoack (by rw [hl, hr]; exact hnc) (by rw [hl]; exact hnl)).1
    have hout : ks'.outbound.drop ks.outbound.length =
        [{ src := sv.ip, dst := cl.ip,
           seg := { srcPort := sv.port, dstPort := cl.port, seq := 0,
                    ack := wadd p.seg.seq (p.seg.payload.length + 1 + (if p.seg.flags.fin then 1 else 0)),
                    flags := { rst := true, ack := true }, window := 0, payload := [] } }] := by
      show (Kernel.deliver cfg ks p).outbound.drop _ = _
      rw [hd, hl, hr]
      simp [Kernel.emitRst, Kernel.emit, hnoack, hsyn]
    show (((ks'.outbound.drop ks.outbound.length).foldl (Kernel.deliver cfg) kc).pollConnect cfg fd sv).2 = _
    rw [hout, List.foldl_cons, List.foldl_nil, hclient _ rfl rfl rfl rfl rfl]
    have hab : Kernel.handleOnConnection cfg kc fd cl sv
        { srcPort := sv.port, dstPort := cl.port, seq := 0,
          ack := wadd p.seg.seq (p.seg.payload.length + 1 + (if p.seg.flags.fin then 1 else 0)),
          flags := { rst := true, ack := true }, window := 0, payload := [] } =
        kc.setSock fd { so with tcb := some (t.abort true) } := by
      unfold Kernel.handleOnConnection Kernel.abortOrReap Kernel.abortWith Kernel.getTcb
      simp [hs, ht, hst]
    rw [hab]
    exact refused_after_rst cfg kc fd so t sv hs hto
  have hroomcase : ∀ lfd ls li, ks.findListener sv = some lfd → ks.getSock lfd = some ls → ls.listen = some li →
      (ks.countChildren lfd sv + li.ready.length < li.backlog → (kc'.pollConnect cfg fd sv).2 = .ok ()) ∧
      (¬ ks.countChildren lfd sv + li.ready.length < li.backlog → (kc'.pollConnect cfg fd sv).2 = .pending ∧ ks' = ks) := by
    intro lfd ls li hfl hgs hli
    have hd : ks' = ks.acceptSyn cfg lfd sv cl p.seg := by
      show Kernel.deliver cfg ks p = _
      unfold Kernel.deliver
      simp only [hu, hl, hr, hnc, hfl, hsyn, hnoack]
      simp
    obtain ⟨hfull, hroom⟩ := syn_accepted_iff_room cfg ks lfd sv cl p.seg ls li hgs hli
    constructor
    · intro hlt
      obtain ⟨_, q, hq, hqs, hqa, _, hqd, hqdp, hqsrc, hqsp, hqr, hqu⟩ := hroom hlt
      show (((ks'.outbound.drop ks.outbound.length).foldl (Kernel.deliver cfg) kc).pollConnect cfg fd sv).2 = _
      rw [hd, hq]
      simp only [List.drop_left', List.foldl_cons, List.foldl_nil]
      rw [hclient q hqu hqd hqdp hqsrc hqsp]
      exact synack_establishes cfg kc fd so t cl sv sv q.seg hs ht hst hqr hqs hqa
    · intro hnlt
      have hks : ks' = ks := by rw [hd]; exact hfull (by omega)
      refine ⟨?_, hks⟩
      show (((ks'.outbound.drop ks.outbound.length).foldl (Kernel.deliver cfg) kc).pollConnect cfg fd sv).2 = _
      rw [hks]
      simp only [List.drop_length, List.foldl_nil]
      exact hpend
  refine ⟨⟨?_, ?_⟩, hA, ?_⟩
  · intro hok
    cases hfl : ks.findListener sv with
    | none => rw [hA hfl] at hok; cases hok
    | some lfd =>
      obtain ⟨ls, li, hgs, hli⟩ := findListener_listening ks sv lfd hfl
      by_cases hlt : ks.countChildren lfd sv + li.ready.length < li.backlog
      · exact ⟨lfd, ls, li, hfl, hgs, hli, hlt⟩
      · rw [((hroomcase lfd ls li hfl hgs hli).2 hlt).1] at hok; cases hok
  · rintro ⟨lfd, ls, li, hfl, hgs, hli, hlt⟩
    exact (hroomcase lfd ls li hfl hgs hli).1 hlt
  · intro hnr hne
    cases hfl : ks.findListener sv with
    | none => exact absurd hfl hne
    | some lfd =>
      obtain ⟨ls, li, hgs, hli⟩ := findListener_listening ks sv lfd hfl
      exact (hroomcase lfd ls li hfl hgs hli).2 (fun hlt => hnr ⟨lfd, ls, li, hfl, hgs, hli, hlt⟩)

def srv : SockAddr := ⟨.host 1 false, 9000⟩

/-- The hypotheses and the conclusion of `connect_ok_iff_listener_room` evaluated on the kernels
    the model reaches by `ops` (client host 0, its socket 1, server host 1). -/
def connectProbe (cfg : Cfg) (ops : List Op) : Bool × Option Nat × Res Unit :=
  let cl : SockAddr := ⟨.host 0 false, 49152⟩
  let s := ((Sys.init cfg 2).run ops).1
  let kc := s.kernel 0
  let ks := s.kernel 1
  let p := kc.outbound[0]!
  let kc' := ((Kernel.deliver cfg ks p).outbound.drop ks.outbound.length).foldl (Kernel.deliver cfg) kc
  let hyps := ((kc.getSock 1).bind (·.tcb) |>.map (fun t => (t.state, t.timedOut))) == some (.synSent, false) &&
    kc.findConnection cl srv == some 1 && ks.findConnection srv cl == none && p.udp == none &&
    p.seg.flags.syn && !p.seg.flags.ack && p.src == cl.ip && p.seg.srcPort == cl.port && p.dst == srv.ip &&
    p.seg.dstPort == srv.port
  (hyps, ks.findListener srv, (kc'.pollConnect cfg 1 srv).2)

set_option maxRecDepth 100000 in
/-- Non-vacuity of `connect_ok_iff_listener_room`: the kernels reached by the model's own `listen` /
    `connect` ops satisfy its hypotheses (the client socket is `SynSent`, indexed under its
    4-tuple, and its SYN is the packet in `outbound`); with the listener the connect resolves `Ok`,
    without it (`connect` only) `ConnectionRefused`, and with `backlog = 0` it stays `Pending`. -/
example :
    connectProbe {} [.listen 1 0 srv, .connect 0 0 0 srv] = (true, some 1, .ok ()) ∧
    connectProbe {} [.connect 0 0 0 srv] = (true, none, .err .refused) ∧
    connectProbe { backlog := 0 } [.listen 1 0 srv, .connect 0 0 0 srv] = (true, some 1, .pending) := by
  decide

/-! ## Reclamation: full statement, witnesses, repaired variant -/

/-- **Full reclamation statement** (C13, second sentence), on the model: for every op sequence, at
    every `stat` taken when no application handle is left, nothing is on the wire, and the network
    has been silent for `reclaimBound` egress rounds — longer than a full retransmit cycle — (or six
    times that many rounds have passed since the last handle was closed), every socket-table entry, binding and connection-index entry is
    gone on every host; a later `listen` on a port no live listener holds succeeds; no accept is
    handed out more often than connections were opened (`Spec.c13Check`). -/
def C13_Reclaim_Statement (cfg : Cfg) : Prop :=
  ∀ ops : List Op, Spec.c13Check cfg (Spec.modelHistory cfg 2 ops) = none


def witness_orphan : List Op :=
    [.listen 1 0 srv, .connect 0 0 0 srv, .egress, .deliver 0, .ccancel 0, .egress, .deliver 1,
    .egress, .deliver 2, .egress, .ldrop 0, .egress, .egress, .egress, .egress, .egress, .egress,
    .egress, .egress, .egress, .egress, .egress, .egress, .egress, .egress, .egress, .egress, .egress,
    .egress, .egress, .egress, .egress, .egress, .egress, .egress, .egress, .egress, .egress, .egress,
    .egress, .egress, .egress, .egress, .egress, .egress, .stat, .listen 1 1 srv]

def fixed_orphan : List Op :=
    [.listen 1 0 srv, .connect 0 0 0 srv, .egress, .deliver 0, .ccancel 0, .egress, .deliver 1,
    .egress, .deliver 2, .egress, .ldrop 0, .egress, .egress, .egress, .egress, .egress, .egress,
    .egress, .egress, .egress, .egress, .egress, .egress, .egress, .egress, .egress, .egress, .egress,
    .egress, .egress, .egress, .egress, .egress, .egress, .egress, .egress, .egress, .egress, .egress,
    .egress, .egress, .egress, .egress, .egress, .egress, .stat, .listen 1 1 srv]

def witness_lostRst : List Op :=
    [.listen 1 0 srv, .connect 0 0 0 srv, .egress, .deliver 0, .egress, .deliver 1, .cpoll 0 0,
    .egress, .deliver 2, .accept 0 1, .write 0 [1, 2, 3], .egress, .deliver 3, .egress, .deliver 4,
    .deliver 5, .shutdown 0, .egress, .deliver 6, .egress, .deliver 7, .sdrop 0, .egress, .sdrop 1,
    .egress, .drop 8, .ldrop 0, .egress, .egress, .egress, .egress, .egress, .egress, .egress, .egress,
    .egress, .egress, .egress, .egress, .egress, .egress, .egress, .egress, .egress, .egress, .egress,
    .egress, .egress, .egress, .egress, .egress, .egress, .egress, .egress, .egress, .egress, .egress,
    .egress, .egress, .egress, .egress, .egress, .egress, .stat]

set_option maxRecDepth 100000 in
/-- F-C13-1: a connect is cancelled after its SYN reached the listener. The server's SYN-ACK draws an
    RST from the client host, the half-open child is aborted to `Closed` — and stays: it was never
    accepted, so nothing ever sets `fd_closed`, `reap_closed` skips it, and the listener's close only
    looks for `SynReceived` children. Socket, binding (the listener's own key!) and connection entry
    leak; re-binding the port fails with `AddrInUse`. -/
theorem witness_F_C13_1 : ¬ C13_Reclaim_Statement {} := by
  intro h
  exact absurd (h witness_orphan) (by decide)

set_option maxRecDepth 100000 in
/-- The leaked binding swallows a later bind of the port. -/
example : (((Sys.init {} 2).run witness_orphan).2.getLast? = some [Obs.err .addrInUse]) := by decide

set_option maxRecDepth 100000 in
/-- With the repair (`fixReapOrphan`: the orphaned child is removed when it is reset or times out)
    the same history reclaims everything and the port can be bound again. -/
theorem fixed_F_C13_1 :
    Spec.c13Check { fixReapOrphan := true } (Spec.modelHistory { fixReapOrphan := true } 2 fixed_orphan) = none ∧
    (((Sys.init { fixReapOrphan := true } 2).run fixed_orphan).2.getLast? = some [Obs.okPort 9000]) := by
  refine ⟨by decide, by decide⟩

set_option maxRecDepth 100000 in
/-- F-C13-2: the client closes first and lingers in `FIN_WAIT2`; the server application drops with
    unread bytes, which sends one RST and removes the server entry; that RST is lost. Nothing is in
    flight on the client, so no retransmit timer runs, and there is no FIN_WAIT2 / orphan timeout:
    the dropped client socket keeps its table, binding and connection entries forever. -/
theorem witness_F_C13_2 : ¬ C13_Reclaim_Statement {} := by
  intro h
  exact absurd (h witness_lostRst) (by decide)

def witness_dataAfterClose : List Op :=
    [.listen 1 0 srv, .connect 0 0 0 srv, .egress, .deliver 0, .egress, .deliver 1, .cpoll 0 0,
    .egress, .deliver 2, .accept 0 1, .sdrop 1, .egress, .deliver 3, .write 0 [1, 2, 3, 4, 5, 6, 7, 8,
    9, 10, 11, 12], .egress, .deliver 4, .deliver 5, .deliver 6, .egress, .deliver 7, .deliver 8,
    .sdrop 0, .ldrop 0, .egress, .egress, .egress, .egress, .egress, .egress, .egress, .egress,
    .egress, .egress, .egress, .egress, .egress, .egress, .egress, .egress, .egress, .egress, .egress,
    .egress, .egress, .egress, .egress, .egress, .egress, .egress, .egress, .egress, .egress, .egress,
    .egress, .egress, .egress, .egress, .egress, .egress, .stat]

def fixed_dataAfterClose : List Op :=
    [.listen 1 0 srv, .connect 0 0 0 srv, .egress, .deliver 0, .egress, .deliver 1, .cpoll 0 0,
    .egress, .deliver 2, .accept 0 1, .sdrop 1, .egress, .deliver 3, .write 0 [1, 2, 3, 4, 5, 6, 7, 8,
    9, 10, 11, 12], .egress, .deliver 4, .deliver 5, .deliver 6, .egress, .deliver 7, .deliver 8,
    .sdrop 0, .ldrop 0, .egress, .deliver 9, .egress, .egress, .egress, .egress, .egress, .egress,
    .egress, .egress, .egress, .egress, .egress, .egress, .egress, .egress, .egress, .egress, .egress,
    .egress, .egress, .egress, .egress, .egress, .egress, .egress, .egress, .egress, .egress, .egress,
    .egress, .egress, .egress, .egress, .egress, .egress, .egress, .stat]

def fixed_lostRst : List Op :=
    [.listen 1 0 srv, .connect 0 0 0 srv, .egress, .deliver 0, .egress, .deliver 1, .cpoll 0 0,
    .egress, .deliver 2, .accept 0 1, .write 0 [1, 2, 3], .egress, .deliver 3, .egress, .deliver 4,
    .deliver 5, .shutdown 0, .egress, .deliver 6, .egress, .deliver 7, .sdrop 0, .egress, .sdrop 1,
    .egress, .drop 8, .ldrop 0, .egress, .egress, .egress, .egress, .egress, .egress, .egress, .egress,
    .egress, .egress, .egress, .egress, .egress, .egress, .egress, .egress, .egress, .egress, .egress,
    .egress, .egress, .egress, .egress, .egress, .egress, .egress, .egress, .egress, .egress, .egress,
    .egress, .egress, .egress, .egress, .egress, .egress, .stat]

set_option maxRecDepth 100000 in
/-- A wider repair that was not adopted (`fixOrphanTimeout`: `check_retx` sweeps every socket the
    application has closed, so a silent one is aborted after `retx_threshold · (retx_max + 1)`
    passes and reaped) also reclaims everything in that history — but it would abort an orphaned
    sender whose data or FIN legitimately waits behind a slow reader's closed window. -/
theorem alt_F_C13_2_orphanTimeout :
    Spec.c13Check { fixOrphanTimeout := true } (Spec.modelHistory { fixOrphanTimeout := true } 2 fixed_lostRst) = none := by
  decide

/-- The F-C13-2 history on the committed trees (same ops before and after the repair: handshake, 3
    bytes, the client shuts down and its FIN is acknowledged, both applications drop — the server with
    the 3 bytes unread, so it answers with one RST and forgets the connection —, that RST is lost, the
    listener is dropped, 36 silent egress rounds, `stat`). -/
def lostRst_committed : List Op :=
    [.listen 1 0 ⟨.host 1 false, 9000⟩, .connect 0 0 0 ⟨.host 1 false, 9000⟩, .egress, .deliver 0, .egress,
    .deliver 1, .cpoll 0 0, .egress, .deliver 2, .accept 0 1, .write 0 [1, 2, 3], .egress, .deliver 3,
    .egress, .deliver 4, .shutdown 0, .egress, .deliver 5, .egress, .deliver 6, .sdrop 0, .egress,
    .sdrop 1, .egress, .drop 7, .ldrop 0, .egress, .egress, .egress, .egress, .egress, .egress, .egress,
    .egress, .egress, .egress, .egress, .egress, .egress, .egress, .egress, .egress, .egress, .egress,
    .egress, .egress, .egress, .egress, .egress, .egress, .egress, .egress, .egress, .egress, .egress,
    .egress, .egress, .egress, .egress, .egress, .egress, .egress, .stat]

set_option maxRecDepth 100000 in
/-- F-C13-2 on the tree with all eight earlier repairs (`Cfg.committed8`, /repo 7797aa0): still
    refuted — none of them gives a `FIN_WAIT2` socket a timer. -/
theorem witness_F_C13_2_committed8 : ¬ C13_Reclaim_Statement Cfg.committed8 := by
  intro h
  exact absurd (h lostRst_committed) (by decide)

set_option maxRecDepth 100000 in
/-- With the repair (`fixFinWait2Timeout`, the narrow form — Linux `tcp_fin_timeout`: `check_retx`
    also sweeps a socket the application has closed that sits in `FIN_WAIT2`; its FIN is acknowledged,
    its send buffer is empty, it owes the peer nothing and only waits for the peer's FIN; after
    `retx_threshold · (retx_max + 1)` passes it is aborted and `reap_closed` collects it) the very
    same history reclaims everything on the committed tree, and at the `stat` both hosts have empty
    tables. -/
theorem fixed_F_C13_2 :
    Spec.c13Check Cfg.committed (Spec.modelHistory Cfg.committed 2 lostRst_committed) = none ∧
    ((Sys.init Cfg.committed 2).run lostRst_committed).2.getLast? =
      some [Obs.cnt 0 0 0 0 0 0, Obs.cnt 1 0 0 0 0 0] := by
  refine ⟨by decide, by decide⟩

/-- The repair changes the timers of no other socket: with `fixFinWait2Timeout` the retransmit sweep
    visits exactly the sockets it visited before plus the application-closed sockets in `FIN_WAIT2`
    (so a sender waiting behind a slow reader's closed window — `Established` / `FIN_WAIT1` /
    `CLOSE_WAIT` / `LAST_ACK` — is never aborted by it). -/
theorem finWait2_timeout_candidates (cfg : Cfg) (k : Kernel) (fd : Nat) :
    fd ∈ Kernel.retxCands { cfg with fixFinWait2Timeout := true } k ↔
      (fd ∈ Kernel.retxCands { cfg with fixFinWait2Timeout := false } k ∨
        ∃ s t, (fd, s) ∈ k.sockets ∧ s.tcb = some t ∧ s.fdClosed = true ∧ t.state = .finWait2) := by
  unfold Kernel.retxCands
  simp only [List.mem_filterMap]
  constructor
  · rintro ⟨e, he, hv⟩
    cases ht : e.2.tcb with
    | none => rw [ht] at hv; cases hv
    | some t =>
      rw [ht] at hv
      dsimp only at hv
      by_cases hold : (t.retxCandidate || (cfg.fixOrphanTimeout && e.2.fdClosed && t.state != .closed)) = true
      · left
        refine ⟨e, he, ?_⟩
        rw [ht]
        dsimp only
        simp only [Bool.false_and, Bool.or_false, hold, if_true]
        simp only [Bool.true_and, hold, Bool.true_or, if_true] at hv
        exact hv
      · right
        simp only [Bool.true_and, Bool.not_eq_true] at hold hv
        rw [hold, Bool.false_or] at hv
        split at hv
        · rename_i hc
          cases hv
          simp only [Bool.and_eq_true, beq_iff_eq] at hc
          exact ⟨e.2, t, he, ht, hc.1, hc.2⟩
        · cases hv
  · rintro (⟨e, he, hv⟩ | ⟨s, t, he, ht, hfc, hst⟩)
    · refine ⟨e, he, ?_⟩
      revert hv
      cases e.2.tcb with
      | none => intro hv; cases hv
      | some t =>
        dsimp only
        simp only [Bool.false_and, Bool.or_false]
        intro hv
        split at hv
        · rename_i hc
          cases hv
          simp [hc]
        · cases hv
    · refine ⟨(fd, s), he, ?_⟩
      dsimp only
      rw [ht]
      simp [hfc, hst]

def cfgSmallWindow : Cfg := { recvCap := 4 }

set_option maxRecDepth 100000 in
/-- F-C13-3: no loss at all, `recv_buf_cap = 4`. The server application drops its (empty) stream;
    the client's 12 bytes arrive afterwards and are queued on the closed socket, which nobody will
    ever read: the window stays shut, the client's remaining bytes and its FIN can never leave, and
    after the client drops too both sockets sit in `CLOSING` / `FIN_WAIT2` forever (nothing in
    flight, so no retransmit timer; no orphan timeout). Real TCP answers data on a closed socket
    with an RST. -/
theorem witness_F_C13_3 : ¬ C13_Reclaim_Statement cfgSmallWindow := by
  intro h
  exact absurd (h witness_dataAfterClose) (by decide)

set_option maxRecDepth 100000 in
/-- With the repair (`fixRstAfterClose`) the same history reclaims everything. -/
theorem fixed_F_C13_3 :
    Spec.c13Check { cfgSmallWindow with fixRstAfterClose := true }
      (Spec.modelHistory { cfgSmallWindow with fixRstAfterClose := true } 2 fixed_dataAfterClose) = none := by
  decide

/-- The F-C13-4 history on the tree with the persist probe (4e44fd9): `recv_buf_cap = 2`, a 3-byte
    write fills the window, the client drops (`FIN_WAIT1`, one byte and the FIN behind a zero window),
    the server drops with unread bytes (one RST, entry removed), and from then on every packet — that
    RST and each of the client's zero-window probes — is lost, for 80 rounds. -/
def blackhole_committed10 : List Op :=
    [.listen 1 0 ⟨.host 1 false, 9000⟩, .connect 0 0 0 ⟨.host 1 false, 9000⟩, .egress, .deliver 0, .egress,
    .deliver 1, .deliver 2, .cpoll 0 0, .egress, .deliver 3, .deliver 4, .accept 0 1, .write 0 [1, 2, 3],
    .egress, .deliver 5, .deliver 6, .egress, .deliver 7, .sdrop 0, .egress, .sdrop 1, .egress, .drop 8,
    .drop 9, .ldrop 0, .egress, .egress, .drop 10, .egress, .egress, .drop 11, .egress, .egress, .drop 12,
    .egress, .egress, .drop 13, .egress, .egress, .drop 14, .egress, .egress, .drop 15, .egress, .egress,
    .drop 16, .egress, .egress, .drop 17, .egress, .egress, .drop 18, .egress, .egress, .drop 19, .egress,
    .egress, .drop 20, .egress, .egress, .drop 21, .egress, .egress, .drop 22, .egress, .egress, .drop 23,
    .egress, .egress, .drop 24, .egress, .egress, .drop 25, .egress, .egress, .drop 26, .egress, .egress,
    .drop 27, .egress, .egress, .drop 28, .egress, .egress, .drop 29, .egress, .egress, .drop 30, .egress,
    .egress, .drop 31, .egress, .egress, .drop 32, .egress, .egress, .drop 33, .egress, .egress, .drop 34,
    .egress, .egress, .drop 35, .egress, .egress, .drop 36, .egress, .egress, .drop 37, .egress, .egress,
    .drop 38, .egress, .egress, .drop 39, .egress, .egress, .drop 40, .egress, .egress, .drop 41, .egress,
    .egress, .drop 42, .egress, .egress, .drop 43, .egress, .egress, .drop 44, .egress, .egress, .drop 45,
    .egress, .egress, .drop 46, .egress, .egress, .drop 47, .egress, .egress, .drop 48, .egress, .egress,
    .drop 49, .stat]

/-- The same application calls on the committed tree, every packet lost from the same point on. -/
def fixed_blackhole : List Op :=
    [.listen 1 0 ⟨.host 1 false, 9000⟩, .connect 0 0 0 ⟨.host 1 false, 9000⟩, .egress, .deliver 0, .egress,
    .deliver 1, .deliver 2, .cpoll 0 0, .egress, .deliver 3, .deliver 4, .accept 0 1, .write 0 [1, 2, 3],
    .egress, .deliver 5, .deliver 6, .egress, .deliver 7, .sdrop 0, .egress, .sdrop 1, .egress, .drop 8,
    .drop 9, .ldrop 0, .egress, .egress, .egress, .egress, .egress, .egress, .egress, .egress, .egress,
    .egress, .egress, .egress, .egress, .egress, .egress, .egress, .egress, .egress, .egress, .egress,
    .egress, .egress, .egress, .egress, .egress, .egress, .egress, .egress, .egress, .egress, .egress,
    .egress, .egress, .egress, .egress, .egress, .egress, .egress, .egress, .egress, .egress, .egress,
    .egress, .egress, .egress, .egress, .egress, .egress, .egress, .egress, .egress, .egress, .egress,
    .egress, .egress, .egress, .egress, .egress, .egress, .egress, .egress, .egress, .egress, .egress,
    .egress, .egress, .egress, .egress, .egress, .egress, .egress, .egress, .egress, .egress, .egress,
    .egress, .egress, .egress, .egress, .egress, .stat]

def cfgBlackhole (c : Cfg) : Cfg := { c with recvCap := 2, retxThreshold := 2, retxMax := 1 }

set_option maxRecDepth 100000 in
/-- F-C13-4, found while classifying the table entries for the reclamation bound: the case "zero
    window with something pending ⇒ the probes contradict silence" only covers the `quiet` disjunct of
    the oracle. An application-closed socket that persists (unsent data or FIN behind `snd_wnd = 0`)
    and whose probes are never answered — the peer is gone and nothing it sends arrives — probes for
    ever: its table, binding and connection entries are still there `6 · reclaimBound` rounds after
    the last handle was closed. On the tree with the ten earlier repairs. -/
theorem witness_F_C13_4_committed10 : ¬ C13_Reclaim_Statement (cfgBlackhole Cfg.committed10) := by
  intro h
  exact absurd (h blackhole_committed10) (by decide)

set_option maxRecDepth 100000 in
/-- With the repair (`fixPersistBudget`: a probe that is due after `retx_max` unanswered probes
    aborts the connection with `TimedOut` instead; any segment with the ACK flag resets the count, so
    a reader that is merely slow — it answers every probe — is never aborted) the same calls reclaim
    everything on the committed tree. -/
theorem fixed_F_C13_4 :
    Spec.c13Check (cfgBlackhole Cfg.committed) (Spec.modelHistory (cfgBlackhole Cfg.committed) 2 fixed_blackhole) = none ∧
    ((Sys.init (cfgBlackhole Cfg.committed) 2).run fixed_blackhole).2.getLast? =
      some [Obs.cnt 0 0 0 0 0 0, Obs.cnt 1 0 0 0 0 0] := by
  refine ⟨by decide, by decide⟩

/-- The probe budget, for every TCB: a heard peer resets the count and touches nothing else
    `handle_established` reads; the count only grows by the probes sent; so `retx_max` is reached
    exactly by `retx_max` probes in a row without any ACK-flagged segment in between. -/
theorem persist_budget_facts (cfg : Cfg) (hb : cfg.fixPersistBudget = true) (t : Tcb) (s : Seg) :
    (s.flags.ack = true → (t.heard cfg s).persistProbes = 0) ∧
    (s.flags.ack = false → t.heard cfg s = t) ∧
    (t.heard cfg s).state = t.state ∧ (t.heard cfg s).sendBuf = t.sendBuf ∧ (t.heard cfg s).recvBuf = t.recvBuf ∧
    (t.heard cfg s).sndUna = t.sndUna ∧ (t.heard cfg s).sndNxt = t.sndNxt ∧ (t.heard cfg s).sndWnd = t.sndWnd ∧
    (t.probeSent true).persistProbes = t.persistProbes + 1 := by
  unfold Tcb.heard
  rw [hb]
  refine ⟨?_, ?_, ?_, ?_, ?_, ?_, ?_, ?_, rfl⟩
  · intro h; simp [h]
  · intro h; simp [h]
  all_goals (split <;> rfl)

/-! ## F-C13-5: a wildcard listener's close and the other address family -/

/-- `0.0.0.0:9000` and `[::]:9000` both listen on host 1; a v4 client's SYN creates a half-open child
    of the v4 listener; the **v6** listener is closed; the SYN-ACK / RST are delivered; the client polls. -/
def dualFamilyClose : List Op :=
    [.listen 1 0 ⟨.any false, 9000⟩, .listen 1 1 ⟨.any true, 9000⟩, .connect 0 0 0 ⟨.host 1 false, 9000⟩,
    .egress, .deliver 0, .ldrop 1, .egress, .deliver 1, .deliver 2, .egress, .deliver 3, .cpoll 0 0, .accept 0 1]

/-- The same calls on the committed tree (no RST is emitted, so the packet ids differ). -/
def fixed_dualFamilyClose : List Op :=
    [.listen 1 0 ⟨.any false, 9000⟩, .listen 1 1 ⟨.any true, 9000⟩, .connect 0 0 0 ⟨.host 1 false, 9000⟩,
    .egress, .deliver 0, .ldrop 1, .egress, .deliver 1, .egress, .deliver 2, .cpoll 0 0, .accept 0 1]

set_option maxRecDepth 100000 in
/-- F-C13-5, found while classifying the never-accepted children for the reclamation bound
    ("removed by the listener's close" — *which* listener's?): closing a wildcard listener resets every
    `SynReceived` child on its port, whatever its address family. With `0.0.0.0:p` and `[::]:p` both
    listening, closing the v6 listener kills the v4 listener's half-open child: the client's
    `connect` reports `ConnectionRefused` although its listener is alive with an empty backlog, and
    that listener's `accept` stays `Pending`; the refusal rule of the oracle (a connect whose covering
    listener is still live, with nothing lost and no handshake timer expired, is never refused) flags
    it. On the tree with the ten earlier repairs. -/
theorem witness_F_C13_5_committed10 :
    ((Sys.init Cfg.committed10 2).run dualFamilyClose).2.reverse.take 2 = [[Obs.pending], [Obs.err .refused]] ∧
    Spec.c13Check Cfg.committed10 (Spec.modelHistory Cfg.committed10 2 dualFamilyClose) ≠ none := by
  refine ⟨by decide, by decide⟩

set_option maxRecDepth 100000 in
/-- With the repair (`fixListenerFamily`: a closing listener only collects half-open children of its
    own address family) the same calls end with the connect `Ok` and the accept handing out the
    connection. -/
theorem fixed_F_C13_5 :
    ((Sys.init Cfg.committed 2).run fixed_dualFamilyClose).2.reverse.take 2 =
      [[Obs.okConn ⟨.host 1 false, 9000⟩ ⟨.host 0 false, 49152⟩], [Obs.okConn ⟨.host 0 false, 49152⟩ ⟨.host 1 false, 9000⟩]] ∧
    Spec.c13Check Cfg.committed (Spec.modelHistory Cfg.committed 2 fixed_dualFamilyClose) = none := by
  refine ⟨by decide, by decide⟩

/-! ## The statement itself: which histories it can be about -/

/-- Slot discipline of the harness (every generator obeys it; the model's slot maps and the oracle's
    ghost handle lists agree with the real handles only then): hosts are `0` and `1`, a listener /
    connect / stream slot number is used for at most one handle in the whole history, and there are
    no UDP sockets (the oracle's handle bookkeeping is about TCP handles; a UDP socket has no
    `drop` op and stays in the table). -/
def wfOps : List Op → List Nat → List Nat → List Nat → Bool
  | [], _, _, _ => true
  | .listen h l _ :: rest, ls, cs, ss => decide (h < 2) && !ls.contains l && wfOps rest (l :: ls) cs ss
  | .connect h c s _ :: rest, ls, cs, ss =>
    decide (h < 2) && !cs.contains c && !ss.contains s && wfOps rest ls (c :: cs) (s :: ss)
  | .accept _ s :: rest, ls, cs, ss => !ss.contains s && wfOps rest ls cs (s :: ss)
  | .udpBind _ _ _ :: _, _, _, _ => false
  | .udpSend _ _ _ :: _, _, _, _ => false
  | _ :: rest, ls, cs, ss => wfOps rest ls cs ss

/-- The reclamation statement for the histories it is meant for. **Not proved.** What is proved
    towards it: the index invariant and accept-once for all histories, the timers
    (`silent_timer_exact`, `finWait2_timeout_candidates`), `reap_closed_complete` / `remove_clears`,
    the repaired witnesses, and the kernel half: the frame theorem for `egress` over the other sockets
    of a host (`Kernel.egress_socket`) and the removal of every silent application-closed socket
    within the bound (`C13_Reclaim_kernel`); what is missing is the invariant that ties the oracle's
    ghost handle lists to `fd_closed` in the kernels (every table entry is owned by a live handle, or
    is application-closed, or is a never-accepted child of a live listener), the rounds in which a
    closed socket still hears something, and loop-back connections. -/
def C13_Reclaim_Wf (cfg : Cfg) : Prop :=
  ∀ ops : List Op, wfOps ops [] [] [] = true → Spec.c13Check cfg (Spec.modelHistory cfg 2 ops) = none

set_option maxRecDepth 100000 in
/-- The unrestricted `C13_Reclaim_Statement` is false on every variant for reasons that have nothing
    to do with the crate — it quantifies over histories no harness can produce: a UDP socket (no
    handle the oracle knows, no way to drop it) stays in the table, and a slot number used twice
    makes the model keep a listener the real harness would have dropped. Hence `C13_Reclaim_Wf`. -/
theorem reclaim_statement_needs_wf :
    ¬ C13_Reclaim_Statement Cfg.committed ∧
    Spec.c13Check Cfg.committed (Spec.modelHistory Cfg.committed 2
      ([.listen 1 0 srv, .listen 1 0 ⟨.host 1 false, 9001⟩, .ldrop 0] ++ List.replicate 32 .egress ++ [.stat])) ≠ none := by
  constructor
  · intro h
    exact absurd (h ([.udpBind 0 0 ⟨.host 0 false, 7000⟩] ++ List.replicate 32 .egress ++ [.stat])) (by decide)
  · decide

/-! ## The timer of the reclamation bound -/

/-- `n` sweeps of `check_retx` over a socket that hears nothing (no ACK progress, nothing else
    touches the TCB between the sweeps). -/
def silentTicks (thr max : Nat) : Nat → Tcb → Tcb
  | 0, t => t
  | n + 1, t => silentTicks thr max n (t.retxTick thr max).1

/-- `i` sweeps after the counters were last reset. -/
def TickInv (thr : Nat) (t : Tcb) (i : Nat) : Prop :=
  t.egressSinceAck < thr ∧ t.retxAttempts * thr + t.egressSinceAck = i ∧ t.isHandshake = false

theorem tick_step (thr max : Nat) (t : Tcb) (i : Nat) (h : TickInv thr t i) (hi : i + 1 < thr * (max + 1)) :
    (t.retxTick thr max).2 ≠ .abort ∧ TickInv thr (t.retxTick thr max).1 (i + 1) := by
  obtain ⟨he, hm, hh⟩ := h
  unfold Tcb.retxTick
  dsimp only
  by_cases h1 : t.egressSinceAck + 1 < thr
  · rw [if_pos h1]
    exact ⟨by simp, h1, by show t.retxAttempts * thr + (t.egressSinceAck + 1) = i + 1; omega, hh⟩
  · rw [if_neg h1]
    have hee : t.egressSinceAck + 1 = thr := by omega
    have hlt : t.retxAttempts < max := by
      have h2 : (t.retxAttempts + 1) * thr < (max + 1) * thr := by
        rw [Nat.succ_mul, Nat.mul_comm (max + 1) thr]; omega
      have := Nat.lt_of_mul_lt_mul_right h2
      omega
    have hna : ¬ (t.retxAttempts ≥ max) := by omega
    rw [if_neg hna]
    split
    · rename_i hc
      have : t.isHandshake = true := hc
      rw [hh] at this; cases this
    · refine ⟨by simp, by show 0 < thr; omega, ?_, hh⟩
      show (t.retxAttempts + 1) * thr + 0 = i + 1
      rw [Nat.succ_mul]; omega

theorem tick_abort (thr max : Nat) (t : Tcb) (h : TickInv thr t (thr * (max + 1) - 1)) (hthr : 1 ≤ thr) :
    (t.retxTick thr max).2 = .abort := by
  obtain ⟨he, hm, _⟩ := h
  have hexp : thr * (max + 1) = max * thr + thr := by rw [Nat.mul_succ, Nat.mul_comm]
  have ha : t.retxAttempts = max := by
    rcases Nat.lt_trichotomy t.retxAttempts max with hlt | heq | hgt
    · exfalso
      have : (t.retxAttempts + 1) * thr ≤ max * thr := Nat.mul_le_mul_right thr hlt
      rw [Nat.succ_mul] at this
      omega
    · exact heq
    · exfalso
      have : (max + 1) * thr ≤ t.retxAttempts * thr := Nat.mul_le_mul_right thr hgt
      rw [Nat.succ_mul] at this
      omega
  have hee : t.egressSinceAck + 1 = thr := by rw [ha] at hm; omega
  unfold Tcb.retxTick
  dsimp only
  have h1 : ¬ (t.egressSinceAck + 1 < thr) := by omega
  rw [if_neg h1, if_pos (by omega : t.retxAttempts ≥ max)]

/-- **The timer behind the reclamation bound, exactly.** A socket in the retransmit sweep whose
    counters were reset (`egress_since_ack = retx_attempts = 0`: at its last ACK progress — for an
    application-closed `FIN_WAIT2` socket that is the ACK of its FIN) and that then hears nothing is
    left alone for `retx_threshold · (retx_max + 1) − 1` sweeps and aborted by the next one — never
    earlier, never later; and that is within the `reclaimBound` the reclamation oracle waits. The
    abort yields `Closed` (`C13_partial`), `reap_closed` removes a `Closed` socket whose application
    handle is gone in the same egress (`reap_closed_complete`), `remove` clears all three indexes
    (`remove_clears`). -/
theorem silent_timer_exact (thr max : Nat) (hthr : 1 ≤ thr) (t : Tcb) (hh : t.isHandshake = false)
    (he : t.egressSinceAck = 0) (ha : t.retxAttempts = 0) :
    (∀ j, j < thr * (max + 1) - 1 → ((silentTicks thr max j t).retxTick thr max).2 ≠ .abort) ∧
    ((silentTicks thr max (thr * (max + 1) - 1) t).retxTick thr max).2 = .abort ∧
    (((silentTicks thr max (thr * (max + 1) - 1) t).retxTick thr max).1.abort false).state = .closed ∧
    thr * (max + 1) ≤ Spec.reclaimBound { retxThreshold := thr, retxMax := max } := by
  have key : ∀ (n : Nat) (u : Tcb) (i : Nat), TickInv thr u i → i + n ≤ thr * (max + 1) - 1 →
      TickInv thr (silentTicks thr max n u) (i + n) := by
    intro n
    induction n with
    | zero => intro u i hu _; exact hu
    | succ n ihn =>
      intro u i hu hle
      have hs := tick_step thr max u i hu (by omega)
      have := ihn (u.retxTick thr max).1 (i + 1) hs.2 (by omega)
      simp only [silentTicks]
      have e : i + 1 + n = i + (n + 1) := by omega
      rw [e] at this
      exact this
  have h0 : TickInv thr t 0 := ⟨by omega, by rw [ha, he]; simp, hh⟩
  have hinv : ∀ j, j ≤ thr * (max + 1) - 1 → TickInv thr (silentTicks thr max j t) j := by
    intro j hj
    have := key j t 0 h0 (by omega)
    simpa using this
  refine ⟨?_, ?_, rfl, ?_⟩
  · intro j hj
    exact (tick_step thr max _ j (hinv j (by omega)) (by omega)).1
  · exact tick_abort thr max _ (hinv _ (Nat.le_refl _)) hthr
  · unfold Spec.reclaimBound
    dsimp only
    rw [Nat.mul_succ, Nat.succ_mul, Nat.mul_succ, Nat.mul_succ]
    omega

example : silentTicks 3 5 17 { state := .finWait2, peer := ⟨.host 1 false, 9⟩, sndNxt := 7, sndUna := 7, sndMax := 7,
                               sndWnd := 9, rcvNxt := 5 } =
    { state := .finWait2, peer := ⟨.host 1 false, 9⟩, sndNxt := 7, sndUna := 7, sndMax := 7, sndWnd := 9, rcvNxt := 5,
      egressSinceAck := 2, retxAttempts := 5 } := by decide

/-- **What is proved of reclamation** (`C13_partial`): every path that finishes a connection ends
    in a state `reap_closed` collects, and collection is complete. (a) An acknowledged FIN moves
    `LastAck` / `Closing` to `Closed`, and a FIN received in `FinWait2` moves to `Closed`; (b) an
    abort (RST, retransmit exhaustion) always yields `Closed`; (c) after `reap_closed` no dropped
    socket in `Closed` / reset state remains (`reap_closed_complete`), and `remove` clears all three
    indexes (`remove_clears`); accept-once is `accept_once`. Missing for the full statement: that every dropped socket *reaches*
    one of these states within the bound (the timer itself is exact: `silent_timer_exact`) — false on the faithful model (F-C13-1: never-accepted
    children are not `fd_closed`; F-C13-2 / F-C13-3: a lingering socket with nothing in flight waits
    forever, for a lost RST or behind a window that a closed peer will never reopen). -/
theorem C13_partial :
    (Tcb.stateOnFinAck .lastAck = .closed ∧ Tcb.stateOnFinAck .closing = .closed ∧
      Tcb.stateOnPeerFin .finWait2 = .closed) ∧
    (∀ (t : Tcb) (b : Bool), (t.abort b).state = .closed ∧ (t.abort b).sendBuf = [] ∧ (t.abort b).recvBuf = []) ∧
    (∀ k : Kernel, ∀ e ∈ k.reapClosed.sockets, Kernel.reapVictim e.2 = false) :=
  ⟨⟨rfl, rfl, rfl⟩, fun _ _ => ⟨rfl, rfl, rfl⟩, reap_closed_complete⟩

/-! ## Reclamation in a blackhole: every silent application-closed socket goes away

  The kernel half of the reclamation bound (`Proofs/Reclaim.lean`, `Proofs/ReclaimFrame.lean`).
  `orphanRound` is what one `Kernel.egress` does to *one* application-closed socket that hears nothing:
  the retransmit sweep, the persist sweep, `segment_one`, and `none` when the socket leaves the table
  (abort + `reap_closed`).  (1) TCB level: for every such socket -- whatever its window, whatever is in
  flight -- a measure drops every round (`orphanRound_progress`), so it is gone within the bound
  (`C13_Reclaim_socket`).  (2) Frame: `Kernel.egress` over a table with any number of other sockets
  does exactly `orphanRound` to this one (`Kernel.egress_socket`; the phases one by one:
  `checkRetx0_socket`, `persistSweep_socket`, `segmentAll_socket`, `reapClosed_socket`), on a host
  without loop-back connections (`Kernel.Remote`).  (3) Together: `C13_Reclaim_kernel`.
  `orphanRound_tracks_egress` replays (2) on the witnesses' tables (hypotheses are satisfiable). -/

/-- The bound of the socket-level theorems is inside the oracle's second bound. -/
theorem blackhole_bound_le (cfg : Cfg) :
    2 * (cfg.retxThreshold * (cfg.retxMax + 1)) + 2 ≤ 6 * Spec.reclaimBound cfg := by
  unfold Spec.reclaimBound
  have h : cfg.retxThreshold * (cfg.retxMax + 1) ≤ (cfg.retxThreshold + 1) * (cfg.retxMax + 2) :=
    Nat.mul_le_mul (Nat.le_succ _) (Nat.le_succ _)
  omega

/-- **C13 reclamation, socket level, committed tree.**  On the committed tree an application-closed
    socket that hears nothing is removed within `2 · thr · (max + 1) + 2 ≤ 6 · reclaimBound` egress
    rounds: (a) in a transmitting state with its FIN queued, for every send window and every amount in
    flight; (b) in `FIN_WAIT2`, within `thr · (max + 1)`.  (The remaining states of a closed socket are
    collected at once: `Closed` / reset by `reap_closed_complete`; handshake states by the retransmit
    budget, `silent_timer_exact`.) -/
theorem C13_Reclaim_socket (mss : Nat) (hm : 1 ≤ mss) (cfg : Cfg) (hpp : cfg.fixPersistProbe = true)
    (hpb : cfg.fixPersistBudget = true) (hfw : cfg.fixFinWait2Timeout = true) (t : Tcb)
    (hre : t.egressSinceAck < cfg.retxThreshold) (hra : t.retxAttempts ≤ cfg.retxMax) :
    (∀ f, t.transmittable = true → FinShape t f → t.persistTicks < cfg.retxThreshold →
        t.persistProbes ≤ cfg.retxMax →
        orphanRounds cfg mss (2 * (cfg.retxThreshold * (cfg.retxMax + 1)) + 2) t = none) ∧
    (t.state = .finWait2 → orphanRounds cfg mss (cfg.retxThreshold * (cfg.retxMax + 1)) t = none) :=
  ⟨fun f htr hs hpe hpa => blackhole_orphan_reclaimed cfg mss hm hpp hpb t f htr hs hre hra hpe hpa,
   fun hst => blackhole_finWait2_reclaimed cfg mss hfw t hst hre hra⟩

/-- **C13 reclamation, kernel level, committed tree.**  Host without loop-back connections
    (`Kernel.Remote`), table with unique fds (`AccInv`, holds in all histories: `SysAccept`) and any
    number of other sockets in any state; an application-closed socket whose peer is silent.  Then
    rounds of `Kernel.egress` remove it from the table: (a) in a transmitting state (`FIN_WAIT1`,
    `CLOSING`, `LAST_ACK`) with the FIN queued, within `2 · thr · (max + 1) + 2 ≤ 6 · reclaimBound` rounds,
    for every send window and every amount in flight; (b) in `FIN_WAIT2` within `thr · (max + 1)`.
    Missing for `C13_Reclaim_Wf`: the `Sys`-level invariant tying the oracle's ghost handle lists to
    `fd_closed` (every table entry is owned by a live handle, or is application-closed, or is a
    never-accepted child of a live listener), rounds in which the socket *does* hear something (each
    resets a counter; the oracle's second bound, `6 · reclaimBound` rounds since the last handle
    closed, then needs a bound on how often that can happen with an empty wire), and hosts with
    loop-back connections. -/
theorem C13_Reclaim_kernel (k : Kernel) (hk : AccInv k) (hrem : Kernel.Remote k.addresses k) (fd : Nat)
    (s : Socket) (t : Tcb) (hs : k.getSock fd = some s) (ht : s.tcb = some t) (hcl : s.fdClosed = true)
    (hm : 1 ≤ mssFor Cfg.committed (Kernel.boundEndpoint s).ip) (hrs : t.reset = false)
    (hre : t.egressSinceAck < Cfg.committed.retxThreshold) (hra : t.retxAttempts ≤ Cfg.committed.retxMax) :
    (∀ f, t.transmittable = true → FinShape t f → t.persistTicks < Cfg.committed.retxThreshold →
        t.persistProbes ≤ Cfg.committed.retxMax →
        ∃ m, m ≤ 2 * (Cfg.committed.retxThreshold * (Cfg.committed.retxMax + 1)) + 2 ∧
          (Kernel.egressN Cfg.committed m k).getSock fd = none) ∧
    (t.state = .finWait2 →
        ∃ m, m ≤ Cfg.committed.retxThreshold * (Cfg.committed.retxMax + 1) ∧
          (Kernel.egressN Cfg.committed m k).getSock fd = none) :=
  ⟨fun f htr hsh hpe hpa =>
    Kernel.kernel_orphan_reclaimed Cfg.committed rfl rfl rfl k hk hrem fd s t hs ht hcl hm f htr hsh hrs hre hra hpe hpa,
   fun hst => Kernel.kernel_finWait2_reclaimed Cfg.committed rfl rfl k hk hrem fd s t hs ht hcl hm hst hrs hre hra⟩

/-- **C13 reclamation along blackhole histories.**  Any reachable state of the committed tree (`n` hosts,
    any history `pre`); host `h` has no loop-back connection; one of its sockets is application-closed
    and its peer silent from now on: the rest of the history is rounds, losses and observations
    (`egress` / `drop` / `stat`).  Then at every point of that rest with `2 · thr · (max + 1) + 2` rounds
    behind it (`thr · (max + 1)` for `FIN_WAIT2`) the socket is out of host `h`'s table -- and stays out. -/
theorem C13_Reclaim_blackhole (n : Nat) (pre ops : List Op) (S : Sys)
    (hS : S = ((Sys.init Cfg.committed n).run pre).1) (h : Nat) (hh : h < S.kernels.length)
    (hb : ∀ o ∈ ops, o.isBlackhole = true)
    (hrem : Kernel.Remote (S.kernel h).addresses (S.kernel h)) (fd : Nat)
    (s : Socket) (t : Tcb) (hs : (S.kernel h).getSock fd = some s) (ht : s.tcb = some t) (hcl : s.fdClosed = true)
    (hm : 1 ≤ mssFor Cfg.committed (Kernel.boundEndpoint s).ip) (hrs : t.reset = false)
    (hre : t.egressSinceAck < Cfg.committed.retxThreshold) (hra : t.retxAttempts ≤ Cfg.committed.retxMax) :
    (∀ f, t.transmittable = true → FinShape t f → t.persistTicks < Cfg.committed.retxThreshold →
        t.persistProbes ≤ Cfg.committed.retxMax →
        2 * (Cfg.committed.retxThreshold * (Cfg.committed.retxMax + 1)) + 2 ≤ egressCount ops →
        ((S.run ops).1.kernel h).getSock fd = none) ∧
    (t.state = .finWait2 → Cfg.committed.retxThreshold * (Cfg.committed.retxMax + 1) ≤ egressCount ops →
        ((S.run ops).1.kernel h).getSock fd = none) := by
  have hacc : AccInv (S.kernel h) := by
    rw [hS]; exact (TV.NetTcp.run_acc _ pre (SAcc.init _ n)).kernel h
  have hcfg : S.cfg = Cfg.committed := by
    rw [hS]; exact (TV.NetTcp.run_inv _ pre (SInv.init _ n)).2.1
  have hrun := Sys.run_blackhole h ops S hb hh
  rw [hcfg] at hrun
  obtain ⟨ha, hb'⟩ := C13_Reclaim_kernel (S.kernel h) hacc hrem fd s t hs ht hcl hm hrs hre hra
  constructor
  · intro f htr hsh hpe hpa hn
    rw [hrun]
    exact Kernel.gone_after Cfg.committed _ fd _ hrem _ (ha f htr hsh hpe hpa) _ hn
  · intro hst hn
    rw [hrun]
    exact Kernel.gone_after Cfg.committed _ fd _ hrem _ (hb' hst) _ hn

def tcbOf (k : Kernel) (fd : Nat) : Option Tcb := (k.getSock fd).bind (·.tcb)

/-- `n` rounds of `Kernel.egress` against `orphanRound` on socket `fd`: `(agreed every round, rounds
    until the socket left the table)`. -/
def egressAgrees (cfg : Cfg) (mss fd : Nat) : Nat → Kernel → Bool × Nat
  | 0, _ => (true, 0)
  | n + 1, k =>
    match tcbOf k fd with
    | none => (true, 0)
    | some t =>
      let k' := (Kernel.egress cfg k).1
      let ok := match orphanRound cfg mss t, tcbOf k' fd with
        | none, none => true
        | some a, some b => decide (a = b)
        | _, _ => false
      let r := egressAgrees cfg mss fd n k'
      (ok && r.1, r.2 + 1)

/-- Every application-closed socket of every host after the first `p` ops: does `Kernel.egress`,
    repeated, do to it what `orphanRound` says, and for how many rounds does it stay? -/
def agreeAt (cfg : Cfg) (ops : List Op) (p : Nat) : List (Nat × Nat × Bool × Nat) :=
  let st := ((Sys.init cfg 2).run (ops.take p)).1
  (List.range st.kernels.length).flatMap fun h =>
    st.kernels[h]!.sockets.filterMap fun e =>
      if e.2.fdClosed && e.2.tcb.isSome then
        let r := egressAgrees cfg (mssFor cfg (.host h false)) e.1 200 st.kernels[h]!
        some (h, e.1, r.1, r.2)
      else none

set_option maxRecDepth 100000 in
/-- `Kernel.egress_socket` replayed on the tables of the witnesses (its hypotheses are satisfiable
    and the statement is the one meant): from the state right
    after the close (and from later ones), `Kernel.egress` does to the closed socket exactly what
    `orphanRound` says, round after round, until the socket is gone -- zero window with the FIN behind
    it (F-C13-4), `FIN_WAIT2` after a lost RST (F-C13-2), `LAST_ACK` with the FIN in flight. -/
theorem orphanRound_tracks_egress :
    agreeAt (cfgBlackhole Cfg.committed) fixed_blackhole 19 = [(0, 1, true, 4)] ∧
    agreeAt (cfgBlackhole Cfg.committed) fixed_blackhole 22 = [(0, 1, true, 2)] ∧
    agreeAt Cfg.committed lostRst_committed 21 = [(0, 1, true, 18)] ∧
    agreeAt Cfg.committed fixed_lostRst 22 = [(0, 1, true, 17)] ∧
    agreeAt Cfg.committed fixed_dataAfterClose 11 = [(1, 2, true, 19)] ∧
    agreeAt Cfg.committed fixed_dataAfterClose 22 = [(0, 1, true, 17)] := by
  refine ⟨by decide, by decide, by decide, by decide, by decide, by decide⟩

/-- `FinShape`, executable. -/
def finShapeB (t : Tcb) (f : Nat) : Bool :=
  decide (t.sndUna < M32) && decide (t.sendBuf.length + 1 < M32) && t.sndNxt == wadd t.sndUna f &&
    decide (f ≤ t.sendBuf.length + 1) && t.finSeq == some (wadd t.sndUna t.sendBuf.length)

theorem finShape_of_B {t : Tcb} {f : Nat} (h : finShapeB t f = true) : FinShape t f := by
  unfold finShapeB at h
  simp only [Bool.and_eq_true, decide_eq_true_eq, beq_iff_eq] at h
  obtain ⟨⟨⟨⟨h1, h2⟩, h3⟩, h4⟩, h5⟩ := h
  exact ⟨h1, h2, h3, h4, h5⟩

/-- `Kernel.Remote`, executable. -/
def remoteB (k : Kernel) : Bool :=
  k.outbound.all (fun p => !Kernel.loc k.addresses p.dst) &&
    k.sockets.all (fun e => match e.2.tcb with
      | some t => !Kernel.loc k.addresses t.peer.ip
      | none => true)

theorem remote_of_B {k : Kernel} (h : remoteB k = true) : Kernel.Remote k.addresses k := by
  unfold remoteB at h
  rw [Bool.and_eq_true, List.all_eq_true, List.all_eq_true] at h
  refine ⟨rfl, fun p hp => by simpa using h.1 p hp, fun e he t ht => ?_⟩
  have := h.2 e he
  rw [ht] at this
  simpa using this

/-- The TCB hypotheses of `C13_Reclaim_kernel` (a), on the socket `fd` of host `h` after `p` ops. -/
def reclaimHyps (cfg : Cfg) (ops : List Op) (p h fd : Nat) : Bool :=
  match tcbOf ((Sys.init cfg 2).run (ops.take p)).1.kernels[h]! fd with
  | some t => remoteB ((Sys.init cfg 2).run (ops.take p)).1.kernels[h]! && t.transmittable && finShapeB t t.inFlight && !t.reset && decide (t.egressSinceAck < cfg.retxThreshold) &&
      decide (t.retxAttempts ≤ cfg.retxMax) && decide (t.persistTicks < cfg.retxThreshold) &&
      decide (t.persistProbes ≤ cfg.retxMax)
  | none => false

set_option maxRecDepth 100000 in
/-- The hypotheses of `C13_Reclaim_kernel` on host (`Remote`) and TCB are what reachable closed sockets look like:
    they hold on the witnesses' sockets from the close on (zero window, FIN behind data; `LAST_ACK`;
    `FIN_WAIT1` with the FIN in flight). -/
theorem reclaim_hyps_on_witnesses :
    reclaimHyps (cfgBlackhole Cfg.committed) fixed_blackhole 19 0 1 = true ∧
    reclaimHyps (cfgBlackhole Cfg.committed) fixed_blackhole 24 0 1 = true ∧
    reclaimHyps Cfg.committed fixed_lostRst 22 0 1 = true ∧
    reclaimHyps Cfg.committed fixed_lostRst 30 0 1 = true ∧
    reclaimHyps Cfg.committed fixed_dataAfterClose 11 1 2 = true ∧
    reclaimHyps Cfg.committed fixed_dataAfterClose 22 0 1 = true := by
  refine ⟨by decide, by decide, by decide, by decide, by decide, by decide⟩

end TV.C13
