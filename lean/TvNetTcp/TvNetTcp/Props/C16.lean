/-
  C16 — turmoil-net never exceeds its buffer caps, the MSS or the peer's window.

  Statements, theorems and non-vacuity examples only; proofs of the invariants are in
  Proofs/{TcbCaps,KernelCaps,SysCaps,Wrap}.lean.
-/
import TvNetTcp.Proofs.SysCaps
import TvNetTcp.Proofs.Wrap

namespace TV.C16
open TV.NetTcp

/-- Full statement, observation side: whatever the applications and the wire do (any op sequence the
    harness can issue: connects, accepts, writes, reads, shutdowns, drops, egress rounds, and per
    packet deliver / duplicate / drop in any order), every netstat row of a TCP connection shows
    `recv_q ≤ recv_buf_cap` and `send_q ≤ send_buf_cap`, every TCP packet handed to the wire carries
    at most `mss_for(source address)` payload bytes, and every UDP datagram at most MTU − headers. -/
def C16_Statement (cfg : Cfg) : Prop :=
  ∀ (hosts : Nat) (ops : List Op), ∀ obs ∈ ((Sys.init cfg hosts).run ops).2,
    ∀ o ∈ obs, Spec.obsCapsOk cfg o = true ∧ Spec.obsSizeOk cfg o = true

/-- C16 (caps + MSS + UDP limit) holds for every configuration — including caps below one MSS,
    MTUs at or below the header size, and every repair-flag combination — and every history. -/
theorem caps_and_mss : ∀ cfg : Cfg, C16_Statement cfg := by
  intro cfg hosts ops obs hobs o ho
  exact (run_inv (Sys.init cfg hosts) ops (SInv.init cfg hosts)).2.2 obs hobs o ho

/-- State side of the same fact: in every reachable state every TCB's queues are within the caps
    and every packet still queued or on the wire respects the size limit of its source interface. -/
theorem caps_state (cfg : Cfg) (hosts : Nat) (ops : List Op) :
    let s := (Sys.init cfg hosts).exec ops
    (∀ k ∈ s.kernels, ∀ e ∈ k.sockets, ∀ t, e.2.tcb = some t →
        t.sendBuf.length ≤ cfg.sendCap ∧ t.recvBuf.length ≤ cfg.recvCap) ∧
    (∀ k ∈ s.kernels, ∀ p ∈ k.outbound, Spec.pktSizeOk cfg p = true) ∧
    (∀ e ∈ s.wire, Spec.pktSizeOk cfg e.2 = true) := by
  intro s
  have h := run_inv (Sys.init cfg hosts) ops (SInv.init cfg hosts)
  have hc : ((Sys.init cfg hosts).run ops).1.cfg = cfg := h.2.1
  refine ⟨?_, ?_, ?_⟩
  · intro k hk e he t ht
    have := (h.1.kern k hk).caps e he t ht
    rw [hc] at this; exact this
  · intro k hk p hp
    have := (h.1.kern k hk).out p hp
    rw [hc] at this; exact this
  · intro e he
    have := h.1.wire e he
    rw [hc] at this; exact this

example : ∃ cfg : Cfg, cfg.sendCap < mssFor cfg (.host 0 false) ∧ 0 < cfg.sendCap :=
  ⟨{ sendCap := 3, recvCap := 2 }, by decide⟩

/-- A concrete run that exercises the invariant non-trivially: cap 3 < MSS, a 5-byte write is cut to
    3 bytes and the segment on the wire carries them. -/
example :
    let cfg : Cfg := { sendCap := 3, recvCap := 2 }
    let ops : List Op := [.listen 1 0 ⟨.host 1 false, 9000⟩, .connect 0 0 0 ⟨.host 1 false, 9000⟩, .egress,
      .deliver 0, .egress, .deliver 1, .cpoll 0 0, .write 0 [1, 2, 3, 4, 5], .egress]
    (((Sys.init cfg 2).run ops).2.getD 7 [] = [.okN 3]) ∧
      (((Sys.init cfg 2).exec ops).wire.map (fun e => e.2.seg.payload)) = [[], [1, 2, 3]] := by
  decide

/-- Peer window: a segment is only emitted while, *after* the emission, the bytes in flight do not
    exceed the window last received from the peer (`snd_wnd`), for any MSS / caps / TCB — sequence
    arithmetic is the code's wrapping `u32` arithmetic. -/
theorem window_at_emission {t t' : Tcb} {mss cap port : Nat} {sg : Seg}
    (hs : t.segStep mss cap port = some (t', sg))
    (hn : t.sndNxt < M32) (hu : t.sndUna < M32) (hw : t.sndWnd < M32) :
    t'.inFlight ≤ t'.sndWnd ∧ t'.sndWnd = t.sndWnd ∧ sg.payload.length ≤ mss := by
  have hp := Tcb.segStep_payload hs
  unfold Tcb.segStep at hs
  dsimp only at hs
  split at hs
  · rename_i hc
    cases hs
    refine ⟨?_, rfl, hp⟩
    simp only [Tcb.inFlight] at *
    rw [wsub_wadd _ _ _ hn hu (by omega)]
    omega
  · split at hs
    · rename_i hc
      cases hs
      refine ⟨?_, rfl, hp⟩
      simp only [Tcb.inFlight] at *
      rw [wsub_wadd _ _ _ hn hu (by omega)]
      omega
    · cases hs

/-- The same over a whole `segment_one` pass: the peer window is unchanged, and unless the pass
    emitted nothing (TCB unchanged) the bytes in flight afterwards are within it. -/
theorem window_after_pass (mss cap port : Nat) (fuel : Nat) (t : Tcb) (acc : List Seg)
    (hn : t.sndNxt < M32) (hu : t.sndUna < M32) (hw : t.sndWnd < M32) :
    (Tcb.segLoop mss cap port fuel t acc).1.sndWnd = t.sndWnd ∧
      ((Tcb.segLoop mss cap port fuel t acc).1 = t ∨
        (Tcb.segLoop mss cap port fuel t acc).1.inFlight ≤ t.sndWnd) := by
  induction fuel generalizing t acc with
  | zero => simp [Tcb.segLoop]
  | succ n ih =>
    unfold Tcb.segLoop
    split
    · simp
    · rename_i t' sg hs
      have h1 := window_at_emission hs hn hu hw
      have hb := Tcb.segStep_bufs hs
      have hn' : t'.sndNxt < M32 := by
        unfold Tcb.segStep at hs
        dsimp only at hs
        split at hs
        · cases hs; exact wadd_lt _ _
        · split at hs
          · cases hs; exact wadd_lt _ _
          · cases hs
      have := ih t' (acc ++ [sg]) hn' (by rw [hb.2.2.2]; exact hu) (by rw [h1.2.1]; exact hw)
      refine ⟨by rw [this.1, h1.2.1], Or.inr ?_⟩
      rcases this.2 with heq | hle
      · rw [heq, ← h1.2.1]; exact h1.1
      · rw [← h1.2.1]; exact hle

example : ∃ (t t' : Tcb) (sg : Seg), t.segStep 4 64 1 = some (t', sg) ∧ t.sndNxt < M32 ∧ t.sndUna < M32 ∧
    t.sndWnd < M32 ∧ sg.payload = [7, 8] :=
  ⟨{ state := .established, peer := ⟨.host 1 false, 9⟩, sndNxt := 100, sndUna := 100, sndMax := 100, sndWnd := 2, rcvNxt := 5,
     sendBuf := [7, 8, 9] }, _, _, rfl, by decide, by decide, by decide, rfl⟩

/-- Writes beyond the cap block; with space, exactly `min(len, space)` bytes are accepted (for a
    connection that is open for sending). -/
theorem write_blocks (sendCap : Nat) (t : Tcb) (buf : List Nat)
    (hopen : t.abortErr = none) (hwr : t.wrClosed = false)
    (hst : t.state = .established ∨ t.state = .closeWait) :
    (t.sendBuf.length ≥ sendCap → t.pollSend sendCap buf = (t, .pending)) ∧
    (t.sendBuf.length < sendCap →
      ∃ n, n = min buf.length (sendCap - t.sendBuf.length) ∧
        t.pollSend sendCap buf = ({ t with sendBuf := t.sendBuf ++ buf.take n }, .ok n)) := by
  have hs : (t.state == .established || t.state == .closeWait) = true := by
    rcases hst with h | h <;> simp [h]
  constructor
  · intro hfull
    unfold Tcb.pollSend
    simp only [hopen, hwr, hs]
    have : sendCap - t.sendBuf.length = 0 := by omega
    simp [this]
  · intro hroom
    refine ⟨_, rfl, ?_⟩
    unfold Tcb.pollSend
    simp only [hopen, hwr, hs]
    have : ¬ (sendCap - t.sendBuf.length = 0) := by omega
    simp [this]

example : ∃ t : Tcb, t.abortErr = none ∧ t.wrClosed = false ∧ t.state = .established ∧ t.sendBuf.length ≥ 2 :=
  ⟨{ state := .established, peer := ⟨.host 1 false, 9⟩, sndNxt := 1, sndUna := 1, sndMax := 1, sndWnd := 9, rcvNxt := 5,
     sendBuf := [7, 8] }, rfl, rfl, rfl, by decide⟩

/-- The receiver accepts at most the free room below its cap, and only the segment that lands
    exactly at `rcv_nxt`. -/
theorem recv_accepts_at_most_room (recvCap : Nat) (t : Tcb) (s : Seg) :
    Tcb.acceptLen recvCap t s ≤ recvCap - t.recvBuf.length ∧
      (s.seq ≠ t.rcvNxt → Tcb.acceptLen recvCap t s = 0) := by
  refine ⟨(Tcb.acceptLen_le recvCap t s).1, ?_⟩
  intro hne
  unfold Tcb.acceptLen
  simp [hne]

/-- UDP: a payload above MTU − headers is rejected with `EMSGSIZE` and nothing is queued; otherwise
    the datagram queued has exactly that length. -/
theorem udp_emsgsize (cfg : Cfg) (k : Kernel) (fd len : Nat) (dst : SockAddr) (s : Socket)
    (hs : k.getSock fd = some s) :
    (len > udpMaxPayload cfg dst.ip → k.udpSendTo cfg fd len dst = (k, .err .msgSize)) ∧
    (len ≤ udpMaxPayload cfg dst.ip → ∀ b, s.bound = some b →
      ∃ p, (k.udpSendTo cfg fd len dst).1.outbound = k.outbound ++ [p] ∧ p.udp = some len ∧
        (k.udpSendTo cfg fd len dst).2 = .ok len) := by
  constructor
  · intro hbig
    unfold Kernel.udpSendTo
    simp [hs, hbig]
  · intro hsmall b hb
    unfold Kernel.udpSendTo
    have : ¬ (len > udpMaxPayload cfg dst.ip) := by omega
    simp only [hs, hb]
    rw [if_neg this]
    exact ⟨_, rfl, rfl, rfl⟩

example : udpMaxPayload {} (.host 1 false) = 1472 ∧ udpMaxPayload {} (.lo true) = 65488 := by decide

/-- The UDP size limit is a property of the DESTINATION's path only (loopback MTU iff the
    destination is a loopback address, IPv6 header iff the destination is IPv6): the very same
    `sendto` gets the same verdict from any two bound sockets, in any two kernels — whatever
    their bound addresses (wildcard, loopback, an external address) and whatever source address
    is selected afterwards; and the verdict is `EMSGSIZE` exactly above that limit. -/
theorem udp_limit_is_destination_path (cfg : Cfg) (k k' : Kernel) (fd fd' len : Nat) (dst : SockAddr)
    (s s' : Socket) (b b' : BindKey)
    (hs : k.getSock fd = some s) (hs' : k'.getSock fd' = some s')
    (hb : s.bound = some b) (hb' : s'.bound = some b') :
    ((k.udpSendTo cfg fd len dst).2 = .err .msgSize ↔
      len > (if dst.ip.isLoopback then cfg.loMtu else cfg.mtu)
              - (if dst.ip.isV6 then ipv6Header else ipv4Header) - udpHeader) ∧
    ((k.udpSendTo cfg fd len dst).2 = (k'.udpSendTo cfg fd' len dst).2) := by
  have key : ∀ (k : Kernel) (fd : Nat) (s : Socket) (b : BindKey), k.getSock fd = some s →
      s.bound = some b →
      (k.udpSendTo cfg fd len dst).2 =
        if len > udpMaxPayload cfg dst.ip then .err .msgSize else .ok len := by
    intro k fd s b hs hb
    unfold Kernel.udpSendTo
    simp only [hs, hb]
    by_cases h : len > udpMaxPayload cfg dst.ip
    · rw [if_pos h, if_pos h]
    · rw [if_neg h, if_neg h]
  constructor
  · rw [key k fd s b hs hb]
    unfold udpMaxPayload
    by_cases h : len > (if dst.ip.isLoopback then cfg.loMtu else cfg.mtu)
        - (if dst.ip.isV6 then ipv6Header else ipv4Header) - udpHeader
    · simp [h]
    · simp [h]
  · rw [key k fd s b hs hb, key k' fd' s' b' hs' hb']

/-- mtu ≠ loopback_mtu in both directions: what a socket's own address would allow is irrelevant. -/
example :
    udpMaxPayload { mtu := 1500, loMtu := 600 } (.lo false) = 572 ∧
    udpMaxPayload { mtu := 1500, loMtu := 600 } (.host 0 false) = 1472 ∧
    udpMaxPayload { mtu := 600, loMtu := 1500 } (.lo true) = 1452 ∧
    udpMaxPayload { mtu := 600, loMtu := 1500 } (.host 1 true) = 552 := by decide

end TV.C16
