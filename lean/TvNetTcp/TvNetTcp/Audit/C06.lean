import TvNetTcp.Props.C06
#print axioms TV.C06.prefix_safety
#print axioms TV.C06.eof_means_complete
#print axioms TV.C06.abort_surfaces
#print axioms TV.C06.exhaustion_aborts
#print axioms TV.C06.witness_F_C06_1
#print axioms TV.C06.witness_F_C06_2
#print axioms TV.C06.witness_F_C06_3
#print axioms TV.C06.witness_F_C06_4
#print axioms TV.C06.witness_F_C06_5
#print axioms TV.C06.witness_F_C06_6
#print axioms TV.C06.fixed_F_C06_6
#print axioms TV.C06.witness_F_C06_7
#print axioms TV.C06.fixed_F_C06_7
#print axioms TV.C06.witness_F_C06_8
#print axioms TV.C06.fixed_scenarios
#print axioms TV.C06.C06_partial
