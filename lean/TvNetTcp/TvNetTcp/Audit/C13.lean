import TvNetTcp.Props.C13
#print axioms TV.C13.index_consistent
#print axioms TV.C13.stat_never_dangling
#print axioms TV.C13.index_kernel_ops
#print axioms TV.C13.remove_clears
#print axioms TV.C13.reap_closed_complete
#print axioms TV.C13.close_decision
#print axioms TV.C13.accept_once
#print axioms TV.C13.accept_once_kernel_ops
#print axioms TV.C13.accept_fifo
#print axioms TV.C13.refuse_path
#print axioms TV.C13.refused_after_rst
#print axioms TV.C13.witness_F_C13_1
#print axioms TV.C13.fixed_F_C13_1
#print axioms TV.C13.witness_F_C13_2
#print axioms TV.C13.witness_F_C13_3
#print axioms TV.C13.fixed_F_C13_3
#print axioms TV.C13.C13_partial
