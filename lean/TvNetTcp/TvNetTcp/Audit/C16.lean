import TvNetTcp.Props.C16
#print axioms TV.C16.caps_and_mss
#print axioms TV.C16.caps_state
#print axioms TV.C16.window_at_emission
#print axioms TV.C16.window_after_pass
#print axioms TV.C16.write_blocks
#print axioms TV.C16.recv_accepts_at_most_room
#print axioms TV.C16.udp_emsgsize
#print axioms TV.C16.udp_limit_is_destination_path
