/-
  Arithmetic of `wadd` / `wsub` (u32 wrapping) used by the window and stream proofs.
-/
import TvNetTcp.Model.Basic

namespace TV.NetTcp

theorem wadd_lt (a b : Nat) : wadd a b < M32 := by
  unfold wadd M32; omega

theorem wsub_wadd (a b n : Nat) (ha : a < M32) (hb : b < M32) (h : wsub a b + n < M32) :
    wsub (wadd a n) b = wsub a b + n := by
  unfold wsub wadd M32 at *
  split at h <;> split <;> omega

theorem wsub_self (a : Nat) : wsub a a = 0 := by
  unfold wsub; simp

theorem wadd_wadd (a b c : Nat) : wadd (wadd a b) c = wadd a (b + c) := by
  unfold wadd M32; omega

theorem wadd_zero (a : Nat) (h : a < M32) : wadd a 0 = a := by
  unfold wadd M32 at *; omega

/-- Offsets below 2^32 are recoverable from sequence numbers. -/
theorem wadd_inj (a x y : Nat) (hx : x < M32) (hy : y < M32) (h : wadd a x = wadd a y) : x = y := by
  unfold wadd M32 at *; omega

/-- `una + (ack − una) = ack` in wrapping arithmetic. -/
theorem wadd_wsub_cancel (a b : Nat) (ha : a < M32) (hb : b < M32) : wadd b (wsub a b) = a := by
  unfold wadd wsub M32 at *
  split <;> omega

/-- The in-flight count of two sequence numbers `iss + x ≤ iss + y` with `y < 2^32`. -/
theorem wsub_wadd_wadd (a x y : Nat) (hxy : x ≤ y) (hy : y < M32) : wsub (wadd a y) (wadd a x) = y - x := by
  unfold wadd wsub M32 at *
  split <;> omega

end TV.NetTcp
