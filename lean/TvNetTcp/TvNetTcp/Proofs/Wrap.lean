/-
  Arithmetic of `wadd` / `wsub` (u32 wrapping) used by the window and stream proofs.
-/
import TvNetTcp.Model.Basic

namespace TV.NetTcp

theorem wadd_lt (a b : Nat) : wadd a b < M32 := by
  unfold wadd M32; omega

theorem wsub_wadd (a b n : Nat) (ha : a < M32) (hb : b < M32) (h : wsub a b + n < M32) :
    wsub (wadd a n) b = wsub a b + n := by
  unfold wsub wadd M32 at *
  split at h <;> split <;> omega

theorem wsub_self (a : Nat) : wsub a a = 0 := by
  unfold wsub; simp

end TV.NetTcp
