/-
  C13 at the system level: the index invariant along every run, and what it means for the `stat`
  observation (hook `verif_tcp_counts`): `dangling = 0`.
-/
import TvNetTcp.Proofs.Index
import TvNetTcp.Model.Spec

namespace TV.NetTcp

def SIdx (s : Sys) : Prop := ∀ k ∈ s.kernels, IdxInv k

namespace SIdx
open Sys

theorem init (cfg : Cfg) (n : Nat) : SIdx (Sys.init cfg n) := by
  intro k hk
  simp only [Sys.init, List.mem_map] at hk
  obtain ⟨h, _, rfl⟩ := hk
  exact IdxInv.init _

theorem kernel {s : Sys} (hs : SIdx s) (h : Nat) : IdxInv (s.kernel h) := by
  unfold Sys.kernel
  rw [List.getD_eq_getElem?_getD]
  cases hk : s.kernels[h]? with
  | none => simpa using IdxInv.init []
  | some k => simpa using hs k (List.mem_of_getElem? hk)

theorem setKernel {s : Sys} (hs : SIdx s) (h : Nat) {k : Kernel} (hk : IdxInv k) : SIdx (s.setKernel h k) := by
  intro k' hk'
  simp only [Sys.setKernel] at hk'
  rcases List.mem_or_eq_of_mem_set hk' with h1 | rfl
  · exact hs k' h1
  · exact hk

theorem congr {s s' : Sys} (hs : SIdx s) (hk : s'.kernels = s.kernels) : SIdx s' := by
  intro k hk'; rw [hk] at hk'; exact hs k hk'

end SIdx

theorem egressAll_idx (cfg : Cfg) (ks : List Kernel) (h : ∀ k ∈ ks, IdxInv k) :
    ∀ k ∈ (Sys.egressAll cfg ks).1, IdxInv k := by
  induction ks with
  | nil => simp [Sys.egressAll]
  | cons k rest ih =>
    simp only [Sys.egressAll]
    intro k' hk'
    simp only [List.mem_cons] at hk'
    rcases hk' with rfl | hk'
    · exact (h k (by simp)).egress cfg
    · exact ih (fun k'' hk'' => h k'' (by simp [hk''])) k' hk'

theorem settleConnect_idx (s : Sys) (cslot : Nat) (c : Connecting) (k : Kernel) (r : Res Unit)
    (hs : SIdx s) (hk : IdxInv k) : SIdx (s.settleConnect cslot c k r).1 := by
  unfold Sys.settleConnect
  split
  · exact (hs.setKernel _ hk).congr rfl
  · exact (hs.setKernel _ hk).congr rfl
  · exact (hs.setKernel _ (hk.close _ _)).congr rfl

theorem step_idx (s : Sys) (op : Op) (hs : SIdx s) : SIdx (s.step op).1 := by
  cases op with
  | listen h lslot addr =>
    rw [Sys.step]
    try dsimp only
    have hb := (hs.kernel h).kbind addr false
    split
    · rename_i heq; rw [heq] at hb; exact (hs.setKernel _ (hb.listen _ _)).congr rfl
    · rename_i heq; rw [heq] at hb; exact hs.setKernel _ hb
    · rename_i heq; rw [heq] at hb; exact hs.setKernel _ hb
  | ldrop lslot =>
    rw [Sys.step]
    split
    · exact hs
    · exact (hs.setKernel _ ((hs.kernel _).close _ _)).congr rfl
  | connect h cslot sslot peer =>
    rw [Sys.step]
    try dsimp only
    exact settleConnect_idx s cslot _ _ _ hs (((hs.kernel h).openSock _ _).pollConnect s.cfg _ _)
  | cpoll cslot sslot =>
    rw [Sys.step]
    split
    · exact hs
    · dsimp only
      exact settleConnect_idx s cslot _ _ _ hs ((hs.kernel _).pollConnect s.cfg _ _)
  | ccancel cslot =>
    rw [Sys.step]
    split
    · exact hs
    · exact (hs.setKernel _ ((hs.kernel _).close _ _)).congr rfl
  | accept lslot sslot =>
    rw [Sys.step]
    split
    · exact hs
    · rename_i h fd _
      have hb := (hs.kernel h).pollAccept fd
      split <;> (rename_i heq; rw [heq] at hb; first | exact (hs.setKernel _ hb).congr rfl | exact hs.setKernel _ hb)
  | write sslot bytes =>
    rw [Sys.step]
    split
    · exact hs
    · rename_i h fd _
      have hb := (hs.kernel h).pollSend s.cfg fd bytes
      split <;> (rename_i heq; rw [heq] at hb; exact hs.setKernel _ hb)
  | read sslot n =>
    rw [Sys.step]
    split
    · exact hs
    · rename_i h fd _
      have hb := (hs.kernel h).pollRecv s.cfg fd n
      split <;> (rename_i heq; rw [heq] at hb; exact hs.setKernel _ hb)
  | peek sslot n =>
    rw [Sys.step]
    split
    · exact hs
    · split <;> exact hs
  | shutdown sslot =>
    rw [Sys.step]
    split
    · exact hs
    · rename_i h fd _
      have hb := (hs.kernel h).pollShutdown fd
      split <;> (rename_i heq; rw [heq] at hb; exact hs.setKernel _ hb)
  | sdrop sslot =>
    rw [Sys.step]
    split
    · exact hs
    · exact (hs.setKernel _ ((hs.kernel _).close _ _)).congr rfl
  | udpBind h uslot addr =>
    rw [Sys.step]
    have hb := (hs.kernel h).kbind addr true
    split
    · rename_i heq; rw [heq] at hb; exact (hs.setKernel _ hb).congr rfl
    · rename_i heq; rw [heq] at hb; exact hs.setKernel _ hb
    · rename_i heq; rw [heq] at hb; exact hs.setKernel _ hb
  | udpSend uslot len dst =>
    rw [Sys.step]
    split
    · exact hs
    · rename_i h fd _
      have hb := (hs.kernel h).udpSendTo s.cfg fd len dst
      split <;> (rename_i heq; rw [heq] at hb; exact hs.setKernel _ hb)
  | egress =>
    rw [Sys.step]
    dsimp only
    exact egressAll_idx s.cfg s.kernels hs
  | deliver id =>
    rw [Sys.step]
    split
    · exact hs
    · dsimp only
      have hs1 : SIdx { s with wire := Sys.eraseKey s.wire id } := hs.congr rfl
      split
      · exact hs1
      · exact hs1.setKernel _ ((hs1.kernel _).deliver _ _)
  | dup id =>
    rw [Sys.step]
    split
    · exact hs
    · split
      · exact hs
      · exact hs.setKernel _ ((hs.kernel _).deliver _ _)
  | drop id =>
    rw [Sys.step]
    split
    · exact hs
    · exact hs.congr rfl
  | stat =>
    rw [Sys.step]
    exact hs

theorem run_idx (s : Sys) (ops : List Op) (hs : SIdx s) : SIdx (s.run ops).1 := by
  induction ops generalizing s with
  | nil => exact hs
  | cons op rest ih =>
    simp only [Sys.run]
    exact ih _ (step_idx s op hs)

theorem sum_eq_zero_of_all_zero (l : List Nat) (h : ∀ x ∈ l, x = 0) : l.sum = 0 := by
  induction l with
  | nil => rfl
  | cons a as ih =>
    simp only [List.sum_cons]
    rw [h a (by simp), ih (fun x hx => h x (by simp [hx]))]

/-- Under the index invariant the hook reports no dangling index entry. -/
theorem counts_dangling_zero (h : Nat) (k : Kernel) (hk : IdxInv k) : Spec.danglingZero (Sys.counts h k) = true := by
  unfold Sys.counts Spec.danglingZero
  dsimp only
  have h1 : ((k.bindings.map fun e => (e.2.filter fun fd => !(k.getSock fd).isSome).length).sum) = 0 := by
    apply sum_eq_zero_of_all_zero
    intro x hx
    simp only [List.mem_map] at hx
    obtain ⟨e, he, rfl⟩ := hx
    rw [List.length_eq_zero_iff, List.filter_eq_nil_iff]
    intro fd hfd
    simp [hk.bind e he fd hfd]
  have h2 : (k.connections.filter fun e => !(k.getSock e.2).isSome).length = 0 := by
    rw [List.length_eq_zero_iff, List.filter_eq_nil_iff]
    intro e he
    simp [hk.conn e he]
  rw [h1, h2]
  rfl

/-- In every state satisfying the invariant, a `stat` reports `dangling = 0` for every host. -/
theorem stat_obs_dangling (s : Sys) (hs : SIdx s) : ∀ o ∈ (s.step .stat).2, Spec.danglingZero o = true := by
  intro o ho
  rw [Sys.step] at ho
  simp only [List.mem_flatMap, List.mem_range, List.mem_cons] at ho
  obtain ⟨h, _, ho⟩ := ho
  rcases ho with rfl | ho
  · exact counts_dangling_zero h _ (hs.kernel h)
  · simp only [Sys.netstat, List.mem_filterMap] at ho
    obtain ⟨e, _, hoe⟩ := ho
    split at hoe
    · cases hoe
    · split at hoe
      · cases hoe; rfl
      · split at hoe
        · split at hoe
          · cases hoe
          · cases hoe; rfl
        · split at hoe
          · cases hoe; rfl
          · cases hoe

end TV.NetTcp
