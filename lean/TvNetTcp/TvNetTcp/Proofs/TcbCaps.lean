/-
  C16 at the TCB level: every function of Model/Tcb.lean keeps both queues within their caps.
-/
import TvNetTcp.Model.Tcb

namespace TV.NetTcp

/-- Both byte queues of a TCB are within the configured caps. -/
def TcbCaps (cfg : Cfg) (t : Tcb) : Prop :=
  t.sendBuf.length ≤ cfg.sendCap ∧ t.recvBuf.length ≤ cfg.recvCap

namespace Tcb

/-- The reply to a segment is always a pure ACK: no payload, no FIN, acknowledging `rcv_nxt` with the
    current window; only its sequence number depends on whether it answers an old duplicate. -/
theorem replySeg_facts (cfg : Cfg) (t : Tcb) (s : Seg) (a b : Nat) :
    (t.replySeg cfg s a b).payload = [] ∧ (t.replySeg cfg s a b).flags.fin = false ∧
    (t.replySeg cfg s a b).ack = t.rcvNxt ∧
    (t.replySeg cfg s a b).window = advWindow cfg.recvCap t.recvBuf.length ∧
    ((t.replySeg cfg s a b).seq = t.sndNxt ∨ (t.replySeg cfg s a b).seq = t.sndMax) := by
  unfold replySeg
  split
  · exact ⟨rfl, rfl, rfl, rfl, Or.inr rfl⟩
  · exact ⟨rfl, rfl, rfl, rfl, Or.inl rfl⟩

theorem caps_heard {cfg : Cfg} {t : Tcb} (c : Cfg) (s : Seg) (h : TcbCaps cfg t) : TcbCaps cfg (t.heard c s) := by
  unfold heard
  split
  · exact h
  · exact h

theorem heard_state (t : Tcb) (c : Cfg) (s : Seg) : (t.heard c s).state = t.state := by
  unfold heard
  split <;> rfl

theorem caps_fresh (cfg : Cfg) (st : TcpState) (p : SockAddr) (a b c : Nat) : TcbCaps cfg (fresh st p a b c) := by
  simp [TcbCaps, fresh]

theorem caps_ackAdvance {cfg : Cfg} {t : Tcb} (ack : Nat) (h : TcbCaps cfg t) : TcbCaps cfg (t.ackAdvance ack) := by
  unfold ackAdvance
  simp only [TcbCaps, List.length_drop] at *
  omega

theorem caps_onAck {cfg : Cfg} {t : Tcb} (fm : Bool) (s : Seg) (h : TcbCaps cfg t) : TcbCaps cfg (t.onAck fm s) := by
  unfold onAck
  split
  · split
    · exact caps_ackAdvance (cfg := cfg) s.ack h
    · exact h
  · exact h

theorem acceptLen_le (recvCap : Nat) (t : Tcb) (s : Seg) :
    acceptLen recvCap t s ≤ recvCap - t.recvBuf.length ∧ acceptLen recvCap t s ≤ s.payload.length := by
  unfold acceptLen
  split <;> omega

theorem caps_onData {cfg : Cfg} {t : Tcb} (s : Seg) (h : TcbCaps cfg t) : TcbCaps cfg (t.onData cfg.recvCap s).1 := by
  unfold onData
  dsimp only
  have hl := acceptLen_le cfg.recvCap t s
  split
  · simp only [TcbCaps, List.length_append, List.length_take] at *
    omega
  · exact h

theorem caps_onFin {cfg : Cfg} {t : Tcb} (s : Seg) (h : TcbCaps cfg t) : TcbCaps cfg (t.onFin s).1 := by
  unfold onFin
  split
  · simpa [TcbCaps] using h
  · exact h

theorem caps_handleEstablished {cfg : Cfg} {t : Tcb} (s : Seg) (h : TcbCaps cfg t) :
    TcbCaps cfg (t.handleEstablished cfg s).1 := by
  unfold handleEstablished
  exact caps_onFin s (caps_onData s (caps_onAck cfg.fixSndMax s h))

theorem segStep_bufs {t t' : Tcb} {mss cap port : Nat} {sg : Seg}
    (hs : t.segStep mss cap port = some (t', sg)) :
    t'.sendBuf = t.sendBuf ∧ t'.recvBuf = t.recvBuf ∧ t'.sndWnd = t.sndWnd ∧ t'.sndUna = t.sndUna := by
  unfold segStep at hs
  dsimp only at hs
  split at hs
  · cases hs; exact ⟨rfl, rfl, rfl, rfl⟩
  · split at hs
    · cases hs; exact ⟨rfl, rfl, rfl, rfl⟩
    · cases hs

theorem caps_segStep {cfg : Cfg} {t t' : Tcb} {mss cap port : Nat} {sg : Seg}
    (h : TcbCaps cfg t) (hs : t.segStep mss cap port = some (t', sg)) : TcbCaps cfg t' := by
  have key := segStep_bufs hs
  unfold TcbCaps at *
  rw [key.1, key.2.1]; exact h

theorem caps_segLoop {cfg : Cfg} (mss cap port : Nat) (fuel : Nat) (t : Tcb) (acc : List Seg)
    (h : TcbCaps cfg t) : TcbCaps cfg (segLoop mss cap port fuel t acc).1 := by
  induction fuel generalizing t acc with
  | zero => simpa [segLoop] using h
  | succ n ih =>
    unfold segLoop
    split
    · exact h
    · rename_i t' sg hs
      exact ih _ _ (caps_segStep h hs)

theorem segStep_payload {t t' : Tcb} {mss cap port : Nat} {sg : Seg}
    (hs : t.segStep mss cap port = some (t', sg)) : sg.payload.length ≤ mss := by
  unfold segStep at hs
  dsimp only at hs
  split at hs
  · cases hs
    simp only [List.length_take]
    omega
  · split at hs
    · cases hs; simp
    · cases hs

theorem segLoop_payload (mss cap port : Nat) (fuel : Nat) (t : Tcb) (acc : List Seg)
    (hacc : ∀ sg ∈ acc, sg.payload.length ≤ mss) :
    ∀ sg ∈ (segLoop mss cap port fuel t acc).2, sg.payload.length ≤ mss := by
  induction fuel generalizing t acc with
  | zero => simpa [segLoop] using hacc
  | succ n ih =>
    unfold segLoop
    split
    · exact hacc
    · rename_i t' sg hs
      apply ih
      intro sg' hsg'
      simp only [List.mem_append, List.mem_singleton] at hsg'
      rcases hsg' with h | rfl
      · exact hacc _ h
      · exact segStep_payload hs

theorem caps_pollSend {cfg : Cfg} {t : Tcb} (buf : List Nat) (h : TcbCaps cfg t) :
    TcbCaps cfg (t.pollSend cfg.sendCap buf).1 := by
  unfold pollSend
  dsimp only
  split
  · exact h
  · split
    · exact h
    · split
      · exact h
      · split
        · exact h
        · simp only [TcbCaps, List.length_append, List.length_take] at *
          omega

theorem caps_queueFin {cfg : Cfg} {t : Tcb} (h : TcbCaps cfg t) : TcbCaps cfg t.queueFin := by
  unfold queueFin
  split
  · exact h
  · simpa [TcbCaps] using h

theorem caps_shutdownWrite {cfg : Cfg} {t : Tcb} (h : TcbCaps cfg t) : TcbCaps cfg t.shutdownWrite.1 := by
  unfold shutdownWrite
  split
  · exact h
  · exact caps_queueFin h

theorem caps_pollRecv {cfg : Cfg} {t : Tcb} (n : Nat) (h : TcbCaps cfg t) : TcbCaps cfg (t.pollRecv cfg n).1 := by
  unfold pollRecv
  dsimp only
  split
  · exact h
  · split
    · split
      · exact h
      · split <;> exact h
    · simp only [TcbCaps, List.length_drop] at *
      omega

theorem caps_abort {cfg : Cfg} (t : Tcb) (b : Bool) : TcbCaps cfg (t.abort b) := by
  simp [TcbCaps, abort]

theorem caps_retxTick {cfg : Cfg} {t : Tcb} (a b : Nat) (h : TcbCaps cfg t) : TcbCaps cfg (t.retxTick a b).1 := by
  unfold retxTick
  dsimp only
  split
  · simpa [TcbCaps] using h
  · split
    · simpa [TcbCaps] using h
    · split <;> simpa [TcbCaps] using h

end Tcb
end TV.NetTcp
