/-
  C16 at the kernel level: an invariant `KInv` (every TCB within its caps, every queued packet
  within the MSS / UDP limit of the interface it leaves from) preserved by every kernel operation.
-/
import TvNetTcp.Model.Spec
import TvNetTcp.Proofs.Lists
import TvNetTcp.Proofs.TcbCaps

namespace TV.NetTcp

/-- Kernel invariant of C16. -/
structure KInv (cfg : Cfg) (k : Kernel) : Prop where
  caps : ∀ e ∈ k.sockets, ∀ t, e.2.tcb = some t → TcbCaps cfg t
  out : ∀ p ∈ k.outbound, Spec.pktSizeOk cfg p = true

namespace Kernel

theorem getSock_mem {k : Kernel} {fd : Nat} {s : Socket} (h : k.getSock fd = some s) : (fd, s) ∈ k.sockets :=
  lookup_mem h

theorem getTcb_eq {k : Kernel} {fd : Nat} {t : Tcb} (h : k.getTcb fd = some t) :
    ∃ s, k.getSock fd = some s ∧ s.tcb = some t := by
  unfold getTcb at h
  cases hs : k.getSock fd with
  | none => simp [hs] at h
  | some s => exact ⟨s, rfl, by simpa [hs] using h⟩

end Kernel

namespace KInv
open Kernel

variable {cfg : Cfg} {k : Kernel}

theorem init (cfg : Cfg) (addrs : List Ip) : KInv cfg { addresses := addrs } :=
  ⟨fun e he => by simp at he, fun p hp => by simp at hp⟩

theorem tcb (h : KInv cfg k) {fd : Nat} {s : Socket} {t : Tcb}
    (hs : k.getSock fd = some s) (ht : s.tcb = some t) : TcbCaps cfg t :=
  h.caps _ (getSock_mem hs) t ht

theorem tcb' (h : KInv cfg k) {fd : Nat} {t : Tcb} (ht : k.getTcb fd = some t) : TcbCaps cfg t := by
  obtain ⟨s, hs, hst⟩ := getTcb_eq ht
  exact h.tcb hs hst

/-- Changing anything but `sockets` / `outbound` keeps the invariant. -/
theorem congr {k' : Kernel} (h : KInv cfg k) (hs : k'.sockets = k.sockets) (ho : k'.outbound = k.outbound) :
    KInv cfg k' :=
  ⟨by rw [hs]; exact h.caps, by rw [ho]; exact h.out⟩

theorem setSock (h : KInv cfg k) (fd : Nat) {s : Socket} (hs : ∀ t, s.tcb = some t → TcbCaps cfg t) :
    KInv cfg (k.setSock fd s) := by
  refine ⟨?_, h.out⟩
  intro e he t ht
  simp only [Kernel.setSock, List.mem_map] at he
  obtain ⟨e0, he0, rfl⟩ := he
  split at ht
  · exact hs t ht
  · exact h.caps e0 he0 t ht

theorem setTcb (h : KInv cfg k) (fd : Nat) {t : Tcb} (ht : TcbCaps cfg t) : KInv cfg (k.setTcb fd t) := by
  unfold Kernel.setTcb
  split
  · apply h.setSock
    intro t' ht'
    simp only [Option.some.injEq] at ht'
    subst ht'; exact ht
  · exact h

theorem insertSock (h : KInv cfg k) {s : Socket} (hs : ∀ t, s.tcb = some t → TcbCaps cfg t) :
    KInv cfg (k.insertSock s).1 := by
  refine ⟨?_, h.out⟩
  intro e he t ht
  simp only [Kernel.insertSock, List.mem_append, List.mem_singleton] at he
  rcases he with he | rfl
  · exact h.caps e he t ht
  · exact hs t ht

theorem remove (h : KInv cfg k) (fd : Nat) : KInv cfg (k.remove fd) := by
  refine ⟨?_, h.out⟩
  intro e he t ht
  simp only [Kernel.remove, List.mem_filter] at he
  exact h.caps e he.1 t ht

theorem insertBinding (h : KInv cfg k) (key : BindKey) (fd : Nat) : KInv cfg (k.insertBinding key fd) := by
  unfold Kernel.insertBinding
  split <;> exact h.congr rfl rfl

theorem insertConnection (h : KInv cfg k) (l r : SockAddr) (fd : Nat) : KInv cfg (k.insertConnection l r fd) := by
  unfold Kernel.insertConnection
  split <;> exact h.congr rfl rfl

theorem allocatePort (h : KInv cfg k) (a b : Bool) : KInv cfg (k.allocatePort a b).1 := by
  unfold Kernel.allocatePort
  exact h.congr rfl rfl

theorem initialSequence (h : KInv cfg k) : KInv cfg k.initialSequence.1 :=
  h.congr rfl rfl

/-- Queueing a TCP segment without payload. -/
theorem emit (h : KInv cfg k) (a b : SockAddr) {sg : Seg} (hp : sg.payload = []) : KInv cfg (k.emit a b sg) := by
  refine ⟨h.caps, ?_⟩
  intro p hp'
  simp only [Kernel.emit, List.mem_append, List.mem_singleton] at hp'
  rcases hp' with hp' | rfl
  · exact h.out p hp'
  · simp [Spec.pktSizeOk, hp]

/-! ### syscalls -/

theorem bind (h : KInv cfg k) (addr : SockAddr) (dg : Bool) : KInv cfg (k.bind addr dg).1 := by
  unfold Kernel.bind
  split
  · exact h
  · dsimp only
    have h1 : KInv cfg (if addr.port == 0 then k.allocatePort addr.ip.isV6 dg else (k, some addr.port)).1 := by
      split
      · exact h.allocatePort _ _
      · exact h
    generalize (if addr.port == 0 then k.allocatePort addr.ip.isV6 dg else (k, some addr.port)) = r at h1
    obtain ⟨k1, po⟩ := r
    cases po with
    | none => exact h1
    | some port =>
      dsimp only
      split
      · exact h1
      · exact (h1.insertSock (s := { dgram := dg, v6 := addr.ip.isV6, bound := some ⟨dg, addr.ip, port⟩ })
          (by intro t ht; simp at ht)).insertBinding _ _

theorem listen (h : KInv cfg k) (fd b : Nat) : KInv cfg (k.listen fd b) := by
  unfold Kernel.listen
  split
  · rename_i s hs
    exact h.setSock fd (fun t ht => h.tcb hs ht)
  · exact h

theorem openSock (h : KInv cfg k) (a b : Bool) : KInv cfg (k.openSock a b).1 :=
  h.insertSock (by intro t ht; simp at ht)

theorem pollConnect (h : KInv cfg k) (fd : Nat) (peer : SockAddr) : KInv cfg (k.pollConnect cfg fd peer).1 := by
  unfold Kernel.pollConnect
  split
  · exact h
  · split
    · split <;> exact h
    · dsimp only
      split
      · exact h
      · rename_i lip _
        have h1 := h.allocatePort (cfg := cfg) (k := k) ‹Socket›.v6 false
        generalize k.allocatePort ‹Socket›.v6 false = r at h1
        obtain ⟨k1, po⟩ := r
        cases po with
        | none => exact h1
        | some port =>
          dsimp only
          refine KInv.emit ?_ _ _ rfl
          refine KInv.insertConnection ?_ _ _ _
          refine KInv.setSock ?_ _ ?_
          · exact (h1.insertBinding _ _).initialSequence
          · intro t ht
            simp only [Option.some.injEq] at ht
            subst ht
            exact Tcb.caps_fresh _ _ _ _ _ _

theorem pollAccept (h : KInv cfg k) (fd : Nat) : KInv cfg (k.pollAccept fd).1 := by
  unfold Kernel.pollAccept
  split
  · exact h
  · rename_i s hs
    split
    · exact h
    · split
      · exact h
      · have h1 : KInv cfg (k.setSock fd { s with listen := some { ‹Listen› with ready := ‹List Nat› } }) :=
          h.setSock fd (fun t ht => h.tcb hs ht)
        dsimp only
        split
        · exact h1.congr rfl rfl
        · exact h1

theorem pollSend (h : KInv cfg k) (fd : Nat) (buf : List Nat) : KInv cfg (k.pollSend cfg fd buf).1 := by
  unfold Kernel.pollSend
  split
  · exact h
  · rename_i s hs
    split
    · exact h
    · rename_i t ht
      dsimp only
      apply h.setSock
      intro t' ht'
      simp only [Option.some.injEq] at ht'
      subst ht'
      exact Tcb.caps_pollSend buf (h.tcb hs ht)

theorem pollShutdown (h : KInv cfg k) (fd : Nat) : KInv cfg (k.pollShutdown fd).1 := by
  unfold Kernel.pollShutdown
  split
  · exact h
  · rename_i s hs
    split
    · exact h
    · rename_i t ht
      dsimp only
      apply h.setSock
      intro t' ht'
      simp only [Option.some.injEq] at ht'
      subst ht'
      exact Tcb.caps_shutdownWrite (h.tcb hs ht)

theorem pollRecv (h : KInv cfg k) (fd n : Nat) : KInv cfg (k.pollRecv cfg fd n).1 := by
  unfold Kernel.pollRecv
  split
  · exact h
  · rename_i s hs
    split
    · exact h
    · rename_i t ht
      dsimp only
      have h1 : KInv cfg (k.setSock fd { s with tcb := some (t.pollRecv cfg n).1 }) := by
        apply h.setSock
        intro t' ht'
        simp only [Option.some.injEq] at ht'
        subst ht'
        exact Tcb.caps_pollRecv n (h.tcb hs ht)
      split
      · exact h1.emit _ _ rfl
      · exact h1

theorem udpSendTo (h : KInv cfg k) (fd len : Nat) (dst : SockAddr) : KInv cfg (k.udpSendTo cfg fd len dst).1 := by
  unfold Kernel.udpSendTo
  split
  · exact h
  · split
    · exact h
    · rename_i hlen
      split
      · exact h
      · refine ⟨h.caps, ?_⟩
        intro p hp
        simp only [List.mem_append, List.mem_singleton] at hp
        rcases hp with hp | rfl
        · exact h.out p hp
        · simp only [Spec.pktSizeOk, decide_eq_true_eq]
          omega

/-! ### inbound dispatch -/

theorem emitRst (h : KInv cfg k) (l r : SockAddr) (s : Seg) : KInv cfg (k.emitRst l r s) := by
  unfold Kernel.emitRst
  dsimp only
  split <;> exact h.emit _ _ rfl

theorem abortWith (h : KInv cfg k) (fd : Nat) (b : Bool) : KInv cfg (Kernel.abortWith cfg k fd b) := by
  unfold Kernel.abortWith
  split
  · exact h
  · rename_i s hs
    split
    · exact h
    · rename_i t ht
      split
      · apply h.setSock
        intro t' ht'
        simp only [Option.some.injEq] at ht'
        subst ht'
        have hc := h.tcb hs ht
        exact ⟨by simp, hc.2⟩
      · apply h.setSock
        intro t' ht'
        simp only [Option.some.injEq] at ht'
        subst ht'
        exact Tcb.caps_abort _ _

theorem abortOrReap (h : KInv cfg k) (fd : Nat) (b : Bool) : KInv cfg (Kernel.abortOrReap cfg k fd b) := by
  unfold Kernel.abortOrReap
  dsimp only
  split <;> (split <;> first | exact h.remove _ | exact h.abortWith _ _)

theorem acceptSyn (h : KInv cfg k) (lfd : Nat) (l r : SockAddr) (s : Seg) : KInv cfg (k.acceptSyn cfg lfd l r s) := by
  unfold Kernel.acceptSyn
  split
  · exact h
  · split
    · exact h
    · split
      · exact h
      · dsimp only
        refine KInv.emit ?_ _ _ rfl
        refine KInv.insertConnection ?_ _ _ _
        refine KInv.setSock ?_ _ ?_
        · exact ((h.insertSock (by intro t ht; simp at ht)).insertBinding _ _).initialSequence
        · intro t ht
          simp only [Option.some.injEq] at ht
          subst ht
          exact Tcb.caps_fresh _ _ _ _ _ _

theorem pushToListener (h : KInv cfg k) (child : Nat) (l : SockAddr) : KInv cfg (k.pushToListener child l) := by
  unfold Kernel.pushToListener
  split
  · exact h
  · split
    · exact h
    · rename_i ls hls
      split
      · exact h
      · rename_i li _
        exact (h.setSock _ (s := { ls with listen := some { li with ready := li.ready ++ [child] } })
          (fun t ht => h.tcb hls ht)).congr rfl rfl

theorem handleOnConnection (h : KInv cfg k) (fd : Nat) (l r : SockAddr) (s : Seg) :
    KInv cfg (Kernel.handleOnConnection cfg k fd l r s) := by
  unfold Kernel.handleOnConnection
  split
  · exact h.abortOrReap _ _
  · split
    · exact h
    · rename_i so hso
      split
      · exact h
      · rename_i t ht
        have hc := h.tcb hso ht
        split
        · -- synSent
          split
          · dsimp only
            refine KInv.emit ?_ _ _ rfl
            apply h.setSock
            intro t' ht'
            simp only [Option.some.injEq] at ht'
            subst ht'
            split <;> simpa [TcbCaps] using hc
          · exact h
        · -- synReceived
          split
          · split
            · exact h
            · dsimp only
              apply KInv.pushToListener
              apply h.setSock
              intro t' ht'
              simp only [Option.some.injEq] at ht'
              subst ht'
              split <;> simpa [TcbCaps] using hc
          · exact h
        · exact h
        · -- established-like
          split
          · exact (h.emit _ _ rfl).remove _
          dsimp only
          have h1 : KInv cfg (k.setSock fd { so with tcb := some ((t.heard cfg s).handleEstablished cfg s).1 }) := by
            apply h.setSock
            intro t' ht'
            simp only [Option.some.injEq] at ht'
            subst ht'
            exact Tcb.caps_handleEstablished s (Tcb.caps_heard cfg s hc)
          split
          · exact h1.emit _ _ (Tcb.replySeg_facts cfg _ _ _ _).1
          · exact h1

theorem deliver (h : KInv cfg k) (p : Packet) : KInv cfg (Kernel.deliver cfg k p) := by
  unfold Kernel.deliver
  split
  · exact h
  · dsimp only
    split
    · exact h.handleOnConnection _ _ _ _
    · split
      · split
        · exact h.acceptSyn _ _ _ _
        · exact h.emitRst _ _ _
      · split
        · exact h.emitRst _ _ _
        · exact h

/-! ### close / reap -/

theorem closeChild (h : KInv cfg k) (child : Nat) : KInv cfg (k.closeChild child) := by
  unfold Kernel.closeChild
  split
  · exact h
  · split
    · exact h.remove _
    · exact (h.emit _ _ rfl).remove _

theorem onClose (h : KInv cfg k) (fam : Bool) (fd : Nat) : KInv cfg (k.onClose fam fd).1 := by
  unfold Kernel.onClose
  split
  · exact h
  · rename_i s hs
    split
    · exact h
    · split
      · exact foldl_inv (P := KInv cfg) _ _ _ h (fun b a hb => hb.closeChild a)
      · rename_i t _ ht
        split
        · split
          · exact h.emit _ _ rfl
          · apply h.setSock
            intro t' ht'
            simp only [Option.some.injEq] at ht'
            subst ht'
            exact Tcb.caps_queueFin (h.tcb hs ht)
        · exact h
      · exact h

theorem close (h : KInv cfg k) (fam : Bool) (fd : Nat) : KInv cfg (k.close fam fd) := by
  unfold Kernel.close
  dsimp only
  have h1 := h.onClose fam fd
  split
  · exact h1.remove _
  · exact h1

theorem reapClosed (h : KInv cfg k) : KInv cfg k.reapClosed := by
  unfold Kernel.reapClosed
  exact foldl_inv (P := KInv cfg) _ _ _ h (fun b a hb => hb.remove a)

/-! ### retransmit, segmentation, egress -/

theorem retxPass1Step (acc : Kernel × List Nat × List Nat) (fd : Nat) (h : KInv cfg acc.1) :
    KInv cfg (Kernel.retxPass1Step cfg acc fd).1 := by
  unfold Kernel.retxPass1Step
  split
  · exact h
  · rename_i t ht
    dsimp only
    have hc := Tcb.caps_retxTick (cfg := cfg) cfg.retxThreshold cfg.retxMax (h.tcb' ht)
    split <;> exact KInv.setTcb h fd hc

theorem emitHandshake (h : KInv cfg k) (fd : Nat) : KInv cfg (k.emitHandshake cfg fd) := by
  unfold Kernel.emitHandshake
  split
  · exact h
  · split
    · exact h
    · exact h.emit _ _ rfl

/-- Queueing a TCP segment whose payload fits the MSS of its source address. -/
theorem emit_sized (h : KInv cfg k) (a b : SockAddr) {sg : Seg} (hp : sg.payload.length ≤ mssFor cfg a.ip) :
    KInv cfg (k.emit a b sg) := by
  refine ⟨h.caps, ?_⟩
  intro p hp'
  simp only [Kernel.emit, List.mem_append, List.mem_singleton] at hp'
  rcases hp' with hp' | rfl
  · exact h.out p hp'
  · simp [Spec.pktSizeOk, hp]

theorem persistProbe (h : KInv cfg k) (fd : Nat) : KInv cfg (k.persistProbe cfg fd) := by
  unfold Kernel.persistProbe
  split
  · exact h
  · rename_i s hs
    split
    · exact h
    · rename_i t ht
      dsimp only
      have hc := h.tcb hs ht
      have hset : ∀ t' : Tcb, t'.sendBuf = t.sendBuf → t'.recvBuf = t.recvBuf →
          KInv cfg (k.setSock fd { s with tcb := some t' }) := by
        intro t' h1 h2
        apply h.setSock
        intro t'' ht''
        simp only [Option.some.injEq] at ht''
        subst ht''
        unfold TcbCaps at hc ⊢
        rw [h1, h2]; exact hc
      split
      · exact hset _ rfl rfl
      · split
        · refine KInv.abortWith ?_ _ _
          exact hset _ rfl rfl
        · refine KInv.emit ?_ _ _ rfl
          exact hset _ rfl rfl

theorem checkRetx0 (h : KInv cfg k) : KInv cfg (Kernel.checkRetx0 cfg k) := by
  unfold Kernel.checkRetx0
  dsimp only
  apply foldl_inv (P := KInv cfg)
  · apply foldl_inv (P := KInv cfg)
    · exact foldl_inv (P := fun acc : Kernel × List Nat × List Nat => KInv cfg acc.1) (Kernel.retxPass1Step cfg)
        (k.retxCands cfg) (k, [], []) h (fun b a hb => KInv.retxPass1Step b a hb)
    · intro b fd hb
      exact hb.emitHandshake fd
  · intro b fd hb
    exact hb.abortOrReap _ _

theorem checkRetx (h : KInv cfg k) : KInv cfg (Kernel.checkRetx cfg k) := by
  have h0 : KInv cfg (Kernel.checkRetx0 cfg k) := h.checkRetx0
  unfold Kernel.checkRetx
  dsimp only
  split
  · exact foldl_inv (P := KInv cfg) _ _ _ h0 (fun b a hb => hb.persistProbe a)
  · exact h0

theorem segmentOne (h : KInv cfg k) (fd : Nat) : KInv cfg (Kernel.segmentOne cfg k fd) := by
  unfold Kernel.segmentOne
  split
  · exact h
  · rename_i s hs
    split
    · exact h
    · rename_i t ht
      dsimp only
      have hc := h.tcb hs ht
      have hl := Tcb.caps_segLoop (cfg := cfg) (mssFor cfg (boundEndpoint s).ip) cfg.recvCap (boundEndpoint s).port
        (t.sendBuf.length + 2) t [] hc
      have hp := Tcb.segLoop_payload (mssFor cfg (boundEndpoint s).ip) cfg.recvCap (boundEndpoint s).port
        (t.sendBuf.length + 2) t [] (by intro sg hsg; cases hsg)
      have h1 : KInv cfg (k.setSock fd { s with tcb := some (Tcb.segLoop (mssFor cfg (boundEndpoint s).ip)
          cfg.recvCap (boundEndpoint s).port (t.sendBuf.length + 2) t []).1 }) := by
        apply h.setSock
        intro t'' ht''
        simp only [Option.some.injEq] at ht''
        subst ht''
        exact hl
      refine ⟨h1.caps, ?_⟩
      intro p hp'
      simp only [List.mem_append, List.mem_map] at hp'
      rcases hp' with hp' | ⟨sg, hsg, rfl⟩
      · exact h1.out p hp'
      · simp only [Spec.pktSizeOk, decide_eq_true_eq]
        exact hp sg hsg

theorem segmentAll (h : KInv cfg k) : KInv cfg (Kernel.segmentAll cfg k) := by
  unfold Kernel.segmentAll
  exact foldl_inv (P := KInv cfg) _ _ _ h (fun b a hb => hb.segmentOne a)

/-- Invariant of the drain / egress loop: kernel invariant plus every packet handed to the wire
    respects the size limit of the interface it leaves from. -/
def OutInv (cfg : Cfg) (acc : Kernel × List Packet) : Prop :=
  KInv cfg acc.1 ∧ ∀ p ∈ acc.2, Spec.pktSizeOk cfg p = true

theorem drainStep (acc : Kernel × List Packet) (p : Packet) (h : OutInv cfg acc)
    (hp : Spec.pktSizeOk cfg p = true) : OutInv cfg (Kernel.drainStep cfg acc p) := by
  unfold Kernel.drainStep
  split
  · exact ⟨h.1.deliver _, h.2⟩
  · refine ⟨h.1, ?_⟩
    intro q hq
    simp only [List.mem_append, List.mem_singleton] at hq
    rcases hq with hq | rfl
    · exact h.2 q hq
    · exact hp

theorem egressLoop (fuel : Nat) (k : Kernel) (out : List Packet) (h : OutInv cfg (k, out)) :
    OutInv cfg (Kernel.egressLoop cfg fuel k out) := by
  induction fuel generalizing k out with
  | zero => exact h
  | succ n ih =>
    unfold Kernel.egressLoop
    dsimp only
    have h1 := h.1.segmentAll
    split
    · exact ⟨h1, h.2⟩
    · have h2 : OutInv cfg ({ Kernel.segmentAll cfg k with outbound := [] }, out) :=
        ⟨⟨h1.caps, by intro p hp; simp at hp⟩, h.2⟩
      have h3 := foldl_inv_mem (P := OutInv cfg) (Kernel.drainStep cfg) (Kernel.segmentAll cfg k).outbound _ h2
        (fun b a ha hb => KInv.drainStep b a hb (h1.out a ha))
      exact ih _ _ h3

theorem egress (h : KInv cfg k) : OutInv cfg (k.egress cfg) := by
  unfold Kernel.egress
  dsimp only
  have h0 := h.checkRetx
  have := egressLoop (cfg := cfg) (Kernel.egressFuel (Kernel.checkRetx cfg k)) (Kernel.checkRetx cfg k) []
    ⟨h0, by intro p hp; cases hp⟩
  exact ⟨this.1.reapClosed, this.2⟩

end KInv
end TV.NetTcp
