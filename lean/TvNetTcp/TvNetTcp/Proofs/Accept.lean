/-
  C13 accept-once.  Ghost logs: `pushLog` (fds queued on a listener by `push_to_listener`) and
  `acceptLog` (fds handed out by `poll_accept`).  Invariant `AccInv`: socket keys are distinct and
  below `nextId`; `pushLog` has no duplicates (a fd is queued only on the SynReceived → Established
  transition, a state no TCB ever returns to, and fds are never reused); and, counted with
  multiplicity, accepted fds plus fds still waiting in ready queues never exceed the pushed ones.
-/
import TvNetTcp.Model.Sys
import TvNetTcp.Proofs.Lists
import TvNetTcp.Proofs.TcbFacts
import TvNetTcp.Proofs.Index

namespace TV.NetTcp

def readyOf (s : Socket) : List Nat :=
  match s.listen with
  | some l => l.ready
  | none => []

def readySum (l : List (Nat × Socket)) (x : Nat) : Nat := (l.map fun e => (readyOf e.2).count x).sum

def readyCount (k : Kernel) (x : Nat) : Nat := readySum k.sockets x

structure AccInv (k : Kernel) : Prop where
  keys : (k.sockets.map (·.1)).Nodup
  fresh : ∀ e ∈ k.sockets, e.1 < k.nextId
  pushNodup : k.pushLog.Nodup
  pushFresh : ∀ fd ∈ k.pushLog, fd < k.nextId
  pushState : ∀ fd ∈ k.pushLog, ∀ t, k.getTcb fd = some t → t.state ≠ .synReceived
  count : ∀ x, k.acceptLog.count x + readyCount k x ≤ k.pushLog.count x

/-! ### list facts -/

theorem lookup_of_mem_nodup (l : List (Nat × Socket)) (hn : (l.map (·.1)).Nodup) (fd : Nat) (s : Socket)
    (h : (fd, s) ∈ l) : l.lookup fd = some s := by
  induction l with
  | nil => cases h
  | cons x xs ih =>
    obtain ⟨a, b⟩ := x
    simp only [List.map_cons, List.nodup_cons] at hn
    rw [List.lookup_cons]
    simp only [List.mem_cons, Prod.mk.injEq] at h
    rcases h with ⟨rfl, rfl⟩ | h
    · simp
    · have hne : (fd == a) = false := by
        cases hh : fd == a
        · rfl
        · exfalso
          have : fd = a := beq_iff_eq.mp hh
          subst this
          exact hn.1 (List.mem_map.mpr ⟨(fd, s), h, rfl⟩)
      simp only [hne]
      exact ih hn.2 h

theorem map_keys_setSock (l : List (Nat × Socket)) (fd : Nat) (s : Socket) :
    (l.map fun e => if e.1 == fd then (fd, s) else e).map (·.1) = l.map (·.1) := by
  induction l with
  | nil => rfl
  | cons x xs ih =>
    simp only [List.map_cons, ih]
    congr 1
    split
    · rename_i h; exact (beq_iff_eq.mp h).symm
    · rfl

/-- Replacing the entry of `fd` changes the ready sum by (new − old). -/
theorem readySum_replace (l : List (Nat × Socket)) (hn : (l.map (·.1)).Nodup) (fd : Nat) (s0 s : Socket) (x : Nat)
    (h : l.lookup fd = some s0) :
    readySum (l.map fun e => if e.1 == fd then (fd, s) else e) x + (readyOf s0).count x =
      readySum l x + (readyOf s).count x := by
  induction l with
  | nil => simp at h
  | cons y ys ih =>
    obtain ⟨a, b⟩ := y
    simp only [List.map_cons, List.nodup_cons] at hn
    rw [List.lookup_cons] at h
    by_cases hk : fd == a
    · have hfa : fd = a := beq_iff_eq.mp hk
      subst hfa
      simp only [hk] at h
      cases h
      -- no other entry has key fd
      have hrest : (ys.map fun e => if e.1 == fd then (fd, s) else e) = ys := by
        have hid : ∀ e ∈ ys, (fun e : Nat × Socket => if e.1 == fd then (fd, s) else e) e = id e := by
          intro e he
          dsimp only [id]
          split
          · rename_i hh
            exfalso
            have : e.1 = fd := beq_iff_eq.mp hh
            exact hn.1 (List.mem_map.mpr ⟨e, he, this⟩)
          · rfl
        rw [List.map_congr_left hid, List.map_id]
      simp only [readySum, List.map_cons, beq_self_eq_true, if_true, List.sum_cons]
      rw [hrest]
      omega
    · have hk' : (fd == a) = false := by simpa using hk
      have hak : (a == fd) = false := by
        cases hh : a == fd
        · rfl
        · have : a = fd := beq_iff_eq.mp hh
          subst this; simp at hk
      simp only [hk'] at h
      have := ih hn.2 h
      simp only [readySum, List.map_cons, hak, Bool.false_eq_true, if_false, List.sum_cons] at this ⊢
      omega

theorem readySum_filter_le (l : List (Nat × Socket)) (p : Nat × Socket → Bool) (x : Nat) :
    readySum (l.filter p) x ≤ readySum l x := by
  induction l with
  | nil => simp [readySum]
  | cons y ys ih =>
    simp only [List.filter_cons]
    split
    · simp only [readySum, List.map_cons, List.sum_cons] at ih ⊢; omega
    · simp only [readySum, List.map_cons, List.sum_cons] at ih ⊢; omega

theorem readySum_append (l1 l2 : List (Nat × Socket)) (x : Nat) :
    readySum (l1 ++ l2) x = readySum l1 x + readySum l2 x := by
  simp [readySum, List.map_append, List.sum_append]

theorem lookup_map_other (l : List (Nat × Socket)) (fd fd' : Nat) (s : Socket) (hne : fd' ≠ fd) :
    (l.map fun e => if e.1 == fd then (fd, s) else e).lookup fd' = l.lookup fd' := by
  induction l with
  | nil => rfl
  | cons y ys ih =>
    obtain ⟨a, b⟩ := y
    rw [List.map_cons]
    by_cases hk : a == fd
    · have : a = fd := beq_iff_eq.mp hk
      subst this
      have h1 : (fd' == a) = false := by simpa using hne
      simp only [hk, if_true, List.lookup_cons, h1]
      exact ih
    · simp only [hk, Bool.false_eq_true, if_false, List.lookup_cons]
      cases fd' == a
      · exact ih
      · rfl

theorem lookup_append_other (l : List (Nat × Socket)) (n fd' : Nat) (s : Socket) (hne : fd' ≠ n) :
    (l ++ [(n, s)]).lookup fd' = l.lookup fd' := by
  induction l with
  | nil =>
    have h1 : (fd' == n) = false := by simpa using hne
    simp [List.lookup_cons, h1]
  | cons y ys ih =>
    obtain ⟨a, b⟩ := y
    simp only [List.cons_append, List.lookup_cons]
    cases fd' == a
    · exact ih
    · rfl

theorem nodup_of_count_le_one (l : List Nat) (h : ∀ x, l.count x ≤ 1) : l.Nodup := by
  induction l with
  | nil => exact List.nodup_nil
  | cons a as ih =>
    rw [List.nodup_cons]
    constructor
    · intro hmem
      have := h a
      rw [List.count_cons_self] at this
      have : 0 < as.count a := List.count_pos_iff.mpr hmem
      omega
    · apply ih
      intro x
      have := h x
      rw [List.count_cons] at this
      omega

theorem count_le_one_of_nodup (l : List Nat) (h : l.Nodup) (x : Nat) : l.count x ≤ 1 := by
  induction l with
  | nil => simp
  | cons a as ih =>
    rw [List.nodup_cons] at h
    rw [List.count_cons]
    by_cases hx : a = x
    · subst hx
      have : as.count a = 0 := List.count_eq_zero.mpr h.1
      simp [this]
    · have h1 : (a == x) = false := by simpa using hx
      simp only [h1, Bool.false_eq_true, if_false]
      have := ih h.2
      omega

end TV.NetTcp

namespace TV.NetTcp

/-! ### no TCB ever returns to `SynReceived` -/

namespace Tcb

theorem nsr_stateOnFinAck {st : TcpState} (h : st ≠ .synReceived) : stateOnFinAck st ≠ .synReceived := by
  cases st <;> simp [stateOnFinAck] at h ⊢

theorem nsr_stateOnPeerFin {st : TcpState} (h : st ≠ .synReceived) : stateOnPeerFin st ≠ .synReceived := by
  cases st <;> simp [stateOnPeerFin] at h ⊢

theorem nsr_stateOnShutdown {st : TcpState} (h : st ≠ .synReceived) : stateOnShutdown st ≠ .synReceived := by
  cases st <;> simp [stateOnShutdown] at h ⊢

theorem nsr_onAck {t : Tcb} (fm : Bool) (s : Seg) (h : t.state ≠ .synReceived) :
    (t.onAck fm s).state ≠ .synReceived := by
  unfold onAck
  split
  · split
    · unfold ackAdvance
      dsimp only
      split
      · exact nsr_stateOnFinAck h
      · exact h
    · exact h
  · exact h

theorem heard_state' (t : Tcb) (c : Cfg) (s : Seg) : (t.heard c s).state = t.state := by
  unfold heard
  split <;> rfl

theorem nsr_handleEstablished {t : Tcb} (cfg : Cfg) (s : Seg) (h : t.state ≠ .synReceived) :
    (t.handleEstablished cfg s).1.state ≠ .synReceived := by
  unfold handleEstablished
  dsimp only
  have h1 := nsr_onAck cfg.fixSndMax s h
  have h2 : ((t.onAck cfg.fixSndMax s).onData cfg.recvCap s).1.state ≠ .synReceived := by
    rw [onData_send]; exact h1
  unfold onFin
  split
  · exact nsr_stateOnPeerFin h2
  · exact h2

theorem nsr_pollSend {t : Tcb} (cap : Nat) (buf : List Nat) (h : t.state ≠ .synReceived) :
    (t.pollSend cap buf).1.state ≠ .synReceived := by
  rcases pollSend_cases cap t buf with ⟨h1, _⟩ | ⟨n, h1, _, _⟩
  · rw [h1]; exact h
  · rw [h1]; exact h

theorem nsr_queueFin {t : Tcb} (h : t.state ≠ .synReceived) : t.queueFin.state ≠ .synReceived := by
  rcases queueFin_cases t with h1 | ⟨_, h1⟩
  · rw [h1]; exact h
  · rw [h1]; exact nsr_stateOnShutdown h

theorem nsr_shutdownWrite {t : Tcb} (h : t.state ≠ .synReceived) : t.shutdownWrite.1.state ≠ .synReceived := by
  rcases shutdownWrite_cases t with h1 | ⟨_, h1⟩
  · rw [h1]; exact h
  · rw [h1]; exact nsr_queueFin h

theorem nsr_pollRecv {t : Tcb} (cfg : Cfg) (n : Nat) (h : t.state ≠ .synReceived) :
    (t.pollRecv cfg n).1.state ≠ .synReceived := by
  rcases pollRecv_cases cfg t n with ⟨h1, _⟩ | ⟨k, h1, _, _⟩
  · rw [h1]; exact h
  · rw [h1]; exact h

theorem nsr_retxTick {t : Tcb} (a b : Nat) (h : t.state ≠ .synReceived) : (t.retxTick a b).1.state ≠ .synReceived := by
  rw [retxTick_eq]; exact h

theorem nsr_segLoop {t : Tcb} (m c p f : Nat) (acc : List Seg) (h : t.state ≠ .synReceived) :
    (segLoop m c p f t acc).1.state ≠ .synReceived := by
  rw [segLoop_eq]; exact h

theorem nsr_abort (t : Tcb) (b : Bool) : (t.abort b).state ≠ .synReceived := by
  simp [abort]

end Tcb

/-! ### primitives -/

namespace AccInv
open Kernel

variable {k : Kernel}

theorem init (addrs : List Ip) : AccInv { addresses := addrs } :=
  ⟨by simp, fun e he => by simp at he, by simp, fun fd h => by simp at h, fun fd h => by simp at h,
   fun x => by simp [readyCount, readySum]⟩

theorem getSock_of_mem (h : AccInv k) {fd : Nat} {s : Socket} (hm : (fd, s) ∈ k.sockets) : k.getSock fd = some s :=
  lookup_of_mem_nodup _ h.keys fd s hm

/-- Changing nothing the invariant reads. -/
theorem congr {k' : Kernel} (h : AccInv k) (h1 : k'.sockets = k.sockets) (h2 : k'.nextId = k.nextId)
    (h3 : k'.pushLog = k.pushLog) (h4 : k'.acceptLog = k.acceptLog) : AccInv k' := by
  obtain ⟨a, b, c, d, e, f⟩ := h
  refine ⟨by rw [h1]; exact a, by rw [h1, h2]; exact b, by rw [h3]; exact c, by rw [h3, h2]; exact d, ?_, ?_⟩
  · intro fd hfd t ht
    rw [h3] at hfd
    have : k'.getTcb fd = k.getTcb fd := by unfold getTcb getSock; rw [h1]
    rw [this] at ht
    exact e fd hfd t ht
  · intro x
    have : readyCount k' x = readyCount k x := by unfold readyCount; rw [h1]
    rw [h4, this, h3]; exact f x

theorem getSock_setSock_other (k : Kernel) (fd fd' : Nat) (s : Socket) (hne : fd' ≠ fd) :
    (k.setSock fd s).getSock fd' = k.getSock fd' := by
  unfold getSock setSock
  exact lookup_map_other _ _ _ _ hne

/-- Replacing the socket of `fd`: the ready queue may only shrink to a sub-multiset (here: stay the
    same or be given explicitly), and if `fd` was ever queued its new TCB is not `SynReceived`. -/
theorem setSock_gen (h : AccInv k) {fd : Nat} {s0 s : Socket} (hs : k.getSock fd = some s0)
    (hready : ∀ x, (readyOf s).count x ≤ (readyOf s0).count x)
    (hst : fd ∈ k.pushLog → ∀ t, s.tcb = some t → t.state ≠ .synReceived) : AccInv (k.setSock fd s) := by
  obtain ⟨a, b, c, d, e, f⟩ := h
  refine ⟨?_, ?_, c, d, ?_, ?_⟩
  · have : (k.setSock fd s).sockets.map (·.1) = k.sockets.map (·.1) := map_keys_setSock _ _ _
    rw [this]; exact a
  · intro e' he'
    simp only [Kernel.setSock, List.mem_map] at he'
    obtain ⟨e0, he0, rfl⟩ := he'
    split
    · rename_i hh
      have : e0.1 = fd := beq_iff_eq.mp hh
      rw [← this]; exact b e0 he0
    · exact b e0 he0
  · intro fd' hfd' t ht
    by_cases hne : fd' = fd
    · subst hne
      unfold getTcb at ht
      have hsome : (k.getSock fd').isSome = true := by rw [hs]; rfl
      have : (k.setSock fd' s).getSock fd' = some s := Kernel.getSock_setSock_self k fd' s hsome
      rw [this] at ht
      exact hst hfd' t ht
    · unfold getTcb at ht
      rw [getSock_setSock_other k fd fd' s hne] at ht
      exact e fd' hfd' t ht
  · intro x
    have hr := readySum_replace k.sockets a fd s0 s x hs
    have hx := hready x
    have hf := f x
    unfold readyCount at hf ⊢
    show k.acceptLog.count x + readySum (k.setSock fd s).sockets x ≤ k.pushLog.count x
    have hsk : (k.setSock fd s).sockets = k.sockets.map fun e => if e.1 == fd then (fd, s) else e := rfl
    rw [hsk]
    omega

/-- The common case: only the TCB (or other non-listener fields) changes. -/
theorem setSock (h : AccInv k) {fd : Nat} {s0 s : Socket} (hs : k.getSock fd = some s0)
    (hl : s.listen = s0.listen)
    (hst : fd ∈ k.pushLog → ∀ t, s.tcb = some t → t.state ≠ .synReceived) : AccInv (k.setSock fd s) :=
  h.setSock_gen hs (by intro x; unfold readyOf; rw [hl]; exact Nat.le_refl _) hst

theorem getTcb_eq {fd : Nat} {s : Socket} (hs : k.getSock fd = some s) : k.getTcb fd = s.tcb := by
  unfold getTcb; rw [hs]; rfl

/-- State obligation discharged from the old TCB. -/
theorem old_state (h : AccInv k) {fd : Nat} {s0 : Socket} {t0 : Tcb} (hs : k.getSock fd = some s0)
    (ht : s0.tcb = some t0) (hfd : fd ∈ k.pushLog) : t0.state ≠ .synReceived :=
  h.pushState fd hfd t0 (by rw [getTcb_eq hs]; exact ht)

theorem emit (h : AccInv k) (a b : SockAddr) (sg : Seg) : AccInv (k.emit a b sg) := h.congr rfl rfl rfl rfl

theorem insertBinding (h : AccInv k) (key : BindKey) (fd : Nat) : AccInv (k.insertBinding key fd) := by
  unfold Kernel.insertBinding
  split <;> exact h.congr rfl rfl rfl rfl

theorem insertConnection (h : AccInv k) (l r : SockAddr) (fd : Nat) : AccInv (k.insertConnection l r fd) := by
  unfold Kernel.insertConnection
  split <;> exact h.congr rfl rfl rfl rfl

theorem allocatePort (h : AccInv k) (a b : Bool) : AccInv (k.allocatePort a b).1 := by
  unfold Kernel.allocatePort
  exact h.congr rfl rfl rfl rfl

theorem initialSequence (h : AccInv k) : AccInv k.initialSequence.1 := h.congr rfl rfl rfl rfl

/-- A new socket that is neither a listener nor has a TCB yet. -/
theorem insertSock (h : AccInv k) {s : Socket} (hl : s.listen = none) (ht : s.tcb = none) :
    AccInv (k.insertSock s).1 := by
  obtain ⟨a, b, c, d, e, f⟩ := h
  refine ⟨?_, ?_, c, ?_, ?_, ?_⟩
  · have : (k.insertSock s).1.sockets = k.sockets ++ [(k.nextId, s)] := rfl
    rw [this, List.map_append, List.nodup_append]
    refine ⟨a, by simp, ?_⟩
    intro x hx y hy
    simp only [List.map_cons, List.map_nil, List.mem_singleton] at hy
    subst hy
    simp only [List.mem_map] at hx
    obtain ⟨e0, he0, rfl⟩ := hx
    have := b e0 he0
    omega
  · intro e0 he0
    simp only [Kernel.insertSock, List.mem_append, List.mem_singleton] at he0
    rcases he0 with he0 | rfl
    · have := b e0 he0
      show e0.1 < k.nextId + 1
      omega
    · show k.nextId < k.nextId + 1
      omega
  · intro fd hfd
    have := d fd hfd
    show fd < k.nextId + 1
    omega
  · intro fd hfd t htt
    have hlt := d fd hfd
    have hne : fd ≠ k.nextId := by omega
    unfold getTcb getSock at htt
    simp only [Kernel.insertSock] at htt
    rw [lookup_append_other _ _ _ _ hne] at htt
    exact e fd hfd t htt
  · intro x
    have := f x
    unfold readyCount at this ⊢
    have hr : readyOf s = [] := by unfold readyOf; rw [hl]
    show k.acceptLog.count x + readySum (k.sockets ++ [(k.nextId, s)]) x ≤ k.pushLog.count x
    rw [readySum_append]
    have : readySum [(k.nextId, s)] x = 0 := by simp [readySum, hr]
    omega

theorem remove (h : AccInv k) (fd : Nat) : AccInv (k.remove fd) := by
  obtain ⟨a, b, c, d, e, f⟩ := h
  refine ⟨?_, ?_, c, d, ?_, ?_⟩
  · have : (k.remove fd).sockets = k.sockets.filter fun e => e.1 != fd := rfl
    rw [this]
    exact List.Nodup.sublist (List.Sublist.map _ List.filter_sublist) a
  · intro e0 he0
    simp only [Kernel.remove, List.mem_filter] at he0
    exact b e0 he0.1
  · intro fd' hfd' t ht
    by_cases hne : fd' = fd
    · subst hne
      exfalso
      have hnone : (k.remove fd').getSock fd' = none := by
        unfold getSock Kernel.remove
        dsimp only
        clear ht f e d c b a hfd'
        induction k.sockets with
        | nil => rfl
        | cons y ys ih =>
          obtain ⟨a', b'⟩ := y
          by_cases hh : a' = fd'
          · subst hh; simpa [List.filter_cons] using ih
          · have h1 : (a' != fd') = true := by simpa using hh
            have h2 : (fd' == a') = false := by simpa using (fun hx : fd' = a' => hh hx.symm)
            simp only [List.filter_cons, h1, if_true, List.lookup_cons, h2]
            exact ih
      unfold getTcb at ht
      rw [hnone] at ht
      cases ht
    · unfold getTcb at ht
      rw [Kernel.getSock_remove_ne k fd fd' hne] at ht
      exact e fd' hfd' t ht
  · intro x
    have := f x
    have hle := readySum_filter_le k.sockets (fun e => e.1 != fd) x
    unfold readyCount at this ⊢
    show k.acceptLog.count x + readySum (k.sockets.filter fun e => e.1 != fd) x ≤ k.pushLog.count x
    omega

end AccInv
end TV.NetTcp

namespace TV.NetTcp
namespace AccInv
open Kernel

variable {k : Kernel}

theorem mem_of_getSock {fd : Nat} {s : Socket} (hs : k.getSock fd = some s) : (fd, s) ∈ k.sockets :=
  lookup_mem hs

theorem lookup_append_self (l : List (Nat × Socket)) (n : Nat) (s : Socket) (hn : ∀ e ∈ l, e.1 ≠ n) :
    (l ++ [(n, s)]).lookup n = some s := by
  induction l with
  | nil => simp [List.lookup_cons]
  | cons y ys ih =>
    obtain ⟨a, b⟩ := y
    have h1 : (n == a) = false := by
      have := hn (a, b) (by simp)
      simpa using (fun hx : n = a => this hx.symm)
    simp only [List.cons_append, List.lookup_cons, h1]
    exact ih (fun e he => hn e (by simp [he]))

theorem getSock_insertSock_self (h : AccInv k) (s : Socket) :
    (k.insertSock s).1.getSock k.nextId = some s := by
  have : (k.insertSock s).1.sockets = k.sockets ++ [(k.nextId, s)] := rfl
  unfold getSock
  rw [this]
  exact lookup_append_self _ _ _ (fun e he => by have := h.fresh e he; omega)

/-- `poll_accept`'s effect: the head of one ready queue moves to `acceptLog`. -/
theorem accept (h : AccInv k) {fd child : Nat} {rest : List Nat} {s0 : Socket} {l : Listen}
    (hs : k.getSock fd = some s0) (hl : s0.listen = some l) (hr : l.ready = child :: rest) :
    AccInv { (k.setSock fd { s0 with listen := some { l with ready := rest } }) with
             acceptLog := k.acceptLog ++ [child] } := by
  have hst : fd ∈ k.pushLog → ∀ t, ({ s0 with listen := some { l with ready := rest } } : Socket).tcb = some t →
      t.state ≠ .synReceived := fun hfd t ht => h.old_state hs ht hfd
  have hready : ∀ x, (readyOf ({ s0 with listen := some { l with ready := rest } } : Socket)).count x ≤ (readyOf s0).count x := by
    intro x
    simp only [readyOf, hl, hr, List.count_cons]
    omega
  have h1 := h.setSock_gen hs hready hst
  obtain ⟨a, b, c, d, e, f⟩ := h1
  refine ⟨a, b, c, d, ?_, ?_⟩
  · intro fd' hfd' t ht
    exact e fd' hfd' t ht
  · intro x
    have hrep := readySum_replace k.sockets h.keys fd s0 { s0 with listen := some { l with ready := rest } } x hs
    have hf := h.count x
    simp only [readyOf, hl, hr, List.count_cons] at hrep
    unfold readyCount at hf ⊢
    show (k.acceptLog ++ [child]).count x + readySum (k.setSock fd _).sockets x ≤ k.pushLog.count x
    have hsk : (k.setSock fd { s0 with listen := some { l with ready := rest } }).sockets =
        k.sockets.map fun e => if e.1 == fd then (fd, { s0 with listen := some { l with ready := rest } }) else e := rfl
    rw [hsk, List.count_append]
    simp only [List.count_cons, List.count_nil]
    omega

/-- `push_to_listener`'s effect: `child` joins one ready queue and `pushLog`. -/
theorem push (h : AccInv k) {lfd child : Nat} {ls : Socket} {li : Listen}
    (hs : k.getSock lfd = some ls) (hl : ls.listen = some li)
    (hnew : child ∉ k.pushLog) (hlt : child < k.nextId)
    (hst : ∀ t, k.getTcb child = some t → t.state ≠ .synReceived) :
    AccInv { (k.setSock lfd { ls with listen := some { li with ready := li.ready ++ [child] } }) with
             pushLog := k.pushLog ++ [child] } := by
  obtain ⟨a, b, c, d, e, f⟩ := h
  have hkeys : (k.setSock lfd { ls with listen := some { li with ready := li.ready ++ [child] } }).sockets.map (·.1) =
      k.sockets.map (·.1) := map_keys_setSock _ _ _
  -- TCBs are untouched by this `setSock`
  have htcb : ∀ fd', (k.setSock lfd { ls with listen := some { li with ready := li.ready ++ [child] } }).getTcb fd' =
      k.getTcb fd' := by
    intro fd'
    unfold getTcb
    by_cases hne : fd' = lfd
    · subst hne
      rw [Kernel.getSock_setSock_self k fd' _ (by rw [hs]; rfl), hs]
      rfl
    · rw [getSock_setSock_other k lfd fd' _ hne]
  refine ⟨by rw [hkeys]; exact a, ?_, ?_, ?_, ?_, ?_⟩
  · intro e' he'
    simp only [Kernel.setSock, List.mem_map] at he'
    obtain ⟨e0, he0, rfl⟩ := he'
    split
    · rename_i hh
      have : e0.1 = lfd := beq_iff_eq.mp hh
      rw [← this]; exact b e0 he0
    · exact b e0 he0
  · show (k.pushLog ++ [child]).Nodup
    rw [List.nodup_append]
    refine ⟨c, by simp, ?_⟩
    intro x hx y hy
    simp only [List.mem_singleton] at hy
    subst hy
    intro hxy; subst hxy; exact hnew hx
  · intro fd hfd
    simp only [List.mem_append, List.mem_singleton] at hfd
    rcases hfd with hfd | rfl
    · exact d fd hfd
    · exact hlt
  · intro fd hfd t ht
    have ht' : (k.setSock lfd { ls with listen := some { li with ready := li.ready ++ [child] } }).getTcb fd = some t := ht
    rw [htcb] at ht'
    simp only [List.mem_append, List.mem_singleton] at hfd
    rcases hfd with hfd | rfl
    · exact e fd hfd t ht'
    · exact hst t ht'
  · intro x
    have hrep := readySum_replace k.sockets a lfd ls { ls with listen := some { li with ready := li.ready ++ [child] } } x hs
    have hf := f x
    simp only [readyOf, hl, List.count_append, List.count_cons, List.count_nil] at hrep
    unfold readyCount at hf ⊢
    show k.acceptLog.count x + readySum (k.setSock lfd _).sockets x ≤ (k.pushLog ++ [child]).count x
    have hsk : (k.setSock lfd { ls with listen := some { li with ready := li.ready ++ [child] } }).sockets =
        k.sockets.map fun e => if e.1 == lfd then (lfd, { ls with listen := some { li with ready := li.ready ++ [child] } }) else e := rfl
    rw [hsk, List.count_append]
    simp only [List.count_cons, List.count_nil]
    omega

/-! ### syscalls -/

theorem kbind (h : AccInv k) (addr : SockAddr) (dg : Bool) : AccInv (k.bind addr dg).1 := by
  unfold Kernel.bind
  split
  · exact h
  · dsimp only
    have h1 : AccInv (if addr.port == 0 then k.allocatePort addr.ip.isV6 dg else (k, some addr.port)).1 := by
      split
      · exact h.allocatePort _ _
      · exact h
    generalize (if addr.port == 0 then k.allocatePort addr.ip.isV6 dg else (k, some addr.port)) = r at h1
    obtain ⟨k1, po⟩ := r
    cases po with
    | none => exact h1
    | some port =>
      dsimp only
      split
      · exact h1
      · exact (h1.insertSock rfl rfl).insertBinding _ _

theorem listen (h : AccInv k) (fd b : Nat) : AccInv (k.listen fd b) := by
  unfold Kernel.listen
  split
  · rename_i s hs
    exact h.setSock_gen hs (by intro x; simp [readyOf]) (fun hfd t ht => h.old_state hs ht hfd)
  · exact h

theorem openSock (h : AccInv k) (a b : Bool) : AccInv (k.openSock a b).1 := h.insertSock rfl rfl

theorem pollConnect (cfg : Cfg) (h : AccInv k) (fd : Nat) (peer : SockAddr) : AccInv (k.pollConnect cfg fd peer).1 := by
  unfold Kernel.pollConnect
  split
  · exact h
  · rename_i s hs
    split
    · split <;> exact h
    · dsimp only
      split
      · exact h
      · have h1 := h.allocatePort (k := k) s.v6 false
        have hs1 : (k.allocatePort s.v6 false).1.getSock fd = some s := hs
        generalize k.allocatePort s.v6 false = r at h1 hs1
        obtain ⟨k1, po⟩ := r
        cases po with
        | none => exact h1
        | some port =>
          dsimp only at hs1 ⊢
          apply AccInv.emit
          apply AccInv.insertConnection
          have h2 := (h1.insertBinding ⟨false, ‹Ip›, port⟩ fd).initialSequence
          refine AccInv.setSock h2 (s0 := s) ?_ rfl ?_
          · show (k1.insertBinding _ fd).getSock fd = some s
            rw [Kernel.getSock_insertBinding]; exact hs1
          · intro _ t ht
            simp only [Option.some.injEq] at ht
            subst ht
            simp [Tcb.fresh]

theorem pollAccept (h : AccInv k) (fd : Nat) : AccInv (k.pollAccept fd).1 := by
  unfold Kernel.pollAccept
  split
  · exact h
  · rename_i s hs
    split
    · exact h
    · rename_i l hl
      split
      · exact h
      · rename_i child rest hr
        dsimp only
        have hacc := h.accept hs hl hr
        split
        · exact hacc
        · -- the child vanished (unreachable); only the pop happened
          exact h.setSock_gen hs (by intro x; simp only [readyOf, hl, hr, List.count_cons]; omega)
            (fun hfd t ht => h.old_state hs ht hfd)

theorem pollSend (cfg : Cfg) (h : AccInv k) (fd : Nat) (buf : List Nat) : AccInv (k.pollSend cfg fd buf).1 := by
  unfold Kernel.pollSend
  split
  · exact h
  · rename_i s hs
    split
    · exact h
    · rename_i t ht
      dsimp only
      refine h.setSock hs rfl ?_
      intro hfd t' ht'
      simp only [Option.some.injEq] at ht'
      subst ht'
      exact Tcb.nsr_pollSend _ _ (h.old_state hs ht hfd)

theorem pollShutdown (h : AccInv k) (fd : Nat) : AccInv (k.pollShutdown fd).1 := by
  unfold Kernel.pollShutdown
  split
  · exact h
  · rename_i s hs
    split
    · exact h
    · rename_i t ht
      dsimp only
      refine h.setSock hs rfl ?_
      intro hfd t' ht'
      simp only [Option.some.injEq] at ht'
      subst ht'
      exact Tcb.nsr_shutdownWrite (h.old_state hs ht hfd)

theorem pollRecv (cfg : Cfg) (h : AccInv k) (fd n : Nat) : AccInv (k.pollRecv cfg fd n).1 := by
  unfold Kernel.pollRecv
  split
  · exact h
  · rename_i s hs
    split
    · exact h
    · rename_i t ht
      dsimp only
      have h1 : AccInv (k.setSock fd { s with tcb := some (t.pollRecv cfg n).1 }) := by
        refine h.setSock hs rfl ?_
        intro hfd t' ht'
        simp only [Option.some.injEq] at ht'
        subst ht'
        exact Tcb.nsr_pollRecv _ _ (h.old_state hs ht hfd)
      split
      · exact h1.emit _ _ _
      · exact h1

theorem udpSendTo (cfg : Cfg) (h : AccInv k) (fd len : Nat) (dst : SockAddr) : AccInv (k.udpSendTo cfg fd len dst).1 := by
  unfold Kernel.udpSendTo
  split
  · exact h
  · split
    · exact h
    · split
      · exact h
      · exact h.congr rfl rfl rfl rfl

end AccInv
end TV.NetTcp

namespace TV.NetTcp
namespace AccInv
open Kernel

variable {k : Kernel}

/-! ### inbound dispatch -/

theorem emitRst (h : AccInv k) (l r : SockAddr) (s : Seg) : AccInv (k.emitRst l r s) := by
  unfold Kernel.emitRst
  dsimp only
  split <;> exact h.emit _ _ _

theorem abortWith (cfg : Cfg) (h : AccInv k) (fd : Nat) (b : Bool) : AccInv (Kernel.abortWith cfg k fd b) := by
  unfold Kernel.abortWith
  split
  · exact h
  · rename_i s hs
    split
    · exact h
    · split
      · refine h.setSock hs rfl ?_
        intro _ t' ht'
        simp only [Option.some.injEq] at ht'
        subst ht'
        simp
      · refine h.setSock hs rfl ?_
        intro _ t' ht'
        simp only [Option.some.injEq] at ht'
        subst ht'
        exact Tcb.nsr_abort _ _

theorem abortOrReap (cfg : Cfg) (h : AccInv k) (fd : Nat) (b : Bool) : AccInv (Kernel.abortOrReap cfg k fd b) := by
  unfold Kernel.abortOrReap
  dsimp only
  split <;> (split <;> first | exact h.remove _ | exact h.abortWith _ _ _)

theorem acceptSyn (cfg : Cfg) (h : AccInv k) (lfd : Nat) (l r : SockAddr) (s : Seg) : AccInv (k.acceptSyn cfg lfd l r s) := by
  unfold Kernel.acceptSyn
  split
  · exact h
  · rename_i ls _
    split
    · exact h
    · split
      · exact h
      · dsimp only
        apply AccInv.emit
        apply AccInv.insertConnection
        have h1 : AccInv (k.insertSock { dgram := ls.dgram, v6 := ls.v6 }).1 := h.insertSock rfl rfl
        have h2 := (h1.insertBinding ⟨false, l.ip, l.port⟩ (k.insertSock { dgram := ls.dgram, v6 := ls.v6 }).2).initialSequence
        refine AccInv.setSock h2 (s0 := { dgram := ls.dgram, v6 := ls.v6 }) ?_ rfl ?_
        · show ((k.insertSock _).1.insertBinding _ _).getSock _ = _
          rw [Kernel.getSock_insertBinding]
          exact h.getSock_insertSock_self _
        · intro hfd
          exfalso
          have hpl : ((k.insertSock { dgram := ls.dgram, v6 := ls.v6 }).1.insertBinding ⟨false, l.ip, l.port⟩
              (k.insertSock { dgram := ls.dgram, v6 := ls.v6 }).2).initialSequence.1.pushLog = k.pushLog := by
            show ((k.insertSock _).1.insertBinding _ _).pushLog = k.pushLog
            unfold Kernel.insertBinding
            split <;> rfl
          rw [hpl] at hfd
          have hlt := h.pushFresh k.nextId hfd
          omega

theorem pushToListener (h : AccInv k) (child : Nat) (l : SockAddr)
    (hnew : child ∉ k.pushLog) (hlt : child < k.nextId)
    (hst : ∀ t, k.getTcb child = some t → t.state ≠ .synReceived) : AccInv (k.pushToListener child l) := by
  unfold Kernel.pushToListener
  split
  · exact h
  · split
    · exact h
    · rename_i ls hls
      split
      · exact h
      · rename_i li hli
        exact h.push hls hli hnew hlt hst

/-- The SynReceived → Established promotion followed by `push_to_listener`. -/
theorem promote (h : AccInv k) {fd : Nat} {so : Socket} {t : Tcb} (hso : k.getSock fd = some so)
    (ht : so.tcb = some t) (hstate : t.state = .synReceived) (t' : Tcb) (ht' : t'.state = .established)
    (l : SockAddr) : AccInv ((k.setSock fd { so with tcb := some t' }).pushToListener fd l) := by
  have hnot : fd ∉ k.pushLog := fun hfd => h.old_state hso ht hfd hstate
  have h1 : AccInv (k.setSock fd { so with tcb := some t' }) := by
    refine h.setSock hso rfl ?_
    intro hfd; exact absurd hfd hnot
  refine h1.pushToListener fd l hnot ?_ ?_
  · exact h.fresh _ (mem_of_getSock hso)
  · intro t'' ht''
    unfold getTcb at ht''
    rw [Kernel.getSock_setSock_self k fd _ (by rw [hso]; rfl)] at ht''
    simp only [Option.bind_some, Option.some.injEq] at ht''
    subst ht''
    rw [ht']; simp

theorem handleOnConnection (cfg : Cfg) (h : AccInv k) (fd : Nat) (l r : SockAddr) (s : Seg) :
    AccInv (Kernel.handleOnConnection cfg k fd l r s) := by
  unfold Kernel.handleOnConnection
  split
  · exact h.abortOrReap _ _ _
  · split
    · exact h
    · rename_i so hso
      split
      · exact h
      · rename_i t ht
        split
        · -- synSent
          split
          · dsimp only
            apply AccInv.emit
            refine h.setSock hso rfl ?_
            intro _ t' ht'
            simp only [Option.some.injEq] at ht'
            subst ht'
            split <;> simp
          · exact h
        · -- synReceived
          rename_i hstate
          split
          · split
            · exact h
            · dsimp only
              exact h.promote hso ht hstate _ rfl l
          · exact h
        · exact h
        · -- established-like
          rename_i hns1 hns2 hns3
          split
          · exact (h.emit _ _ _).remove _
          dsimp only
          have h1 : AccInv (k.setSock fd { so with tcb := some ((t.heard cfg s).handleEstablished cfg s).1 }) := by
            refine h.setSock hso rfl ?_
            intro hfd t' ht'
            simp only [Option.some.injEq] at ht'
            subst ht'
            exact Tcb.nsr_handleEstablished cfg s (by rw [Tcb.heard_state']; exact h.old_state hso ht hfd)
          split
          · exact h1.emit _ _ _
          · exact h1

theorem deliver (cfg : Cfg) (h : AccInv k) (p : Packet) : AccInv (Kernel.deliver cfg k p) := by
  unfold Kernel.deliver
  split
  · exact h
  · dsimp only
    split
    · exact h.handleOnConnection _ _ _ _ _
    · split
      · split
        · exact h.acceptSyn cfg _ _ _ _
        · exact h.emitRst _ _ _
      · split
        · exact h.emitRst _ _ _
        · exact h

/-! ### close / reap / egress -/

theorem closeChild (h : AccInv k) (child : Nat) : AccInv (k.closeChild child) := by
  unfold Kernel.closeChild
  split
  · exact h
  · split
    · exact h.remove _
    · exact (h.emit _ _ _).remove _

theorem onClose (h : AccInv k) (fam : Bool) (fd : Nat) : AccInv (k.onClose fam fd).1 := by
  unfold Kernel.onClose
  split
  · exact h
  · rename_i s hs
    split
    · exact h
    · split
      · exact foldl_inv (P := AccInv) _ _ _ h (fun b a hb => hb.closeChild a)
      · rename_i t _ ht
        split
        · split
          · exact h.emit _ _ _
          · refine h.setSock hs rfl ?_
            intro hfd t' ht'
            simp only [Option.some.injEq] at ht'
            subst ht'
            exact Tcb.nsr_queueFin (h.old_state hs ht hfd)
        · exact h
      · exact h

theorem close (h : AccInv k) (fam : Bool) (fd : Nat) : AccInv (k.close fam fd) := by
  unfold Kernel.close
  dsimp only
  have h1 := h.onClose fam fd
  split
  · exact h1.remove _
  · exact h1

theorem reapClosed (h : AccInv k) : AccInv k.reapClosed := by
  unfold Kernel.reapClosed
  exact foldl_inv (P := AccInv) _ _ _ h (fun b a hb => hb.remove a)

theorem getTcb_some {fd : Nat} {t : Tcb} (h : k.getTcb fd = some t) : ∃ s, k.getSock fd = some s ∧ s.tcb = some t := by
  unfold getTcb at h
  cases hs : k.getSock fd with
  | none => simp [hs] at h
  | some s => exact ⟨s, rfl, by simpa [hs] using h⟩

theorem setTcb_of (h : AccInv k) {fd : Nat} {t0 : Tcb} (t : Tcb) (ht0 : k.getTcb fd = some t0)
    (hst : t0.state ≠ .synReceived → t.state ≠ .synReceived) : AccInv (k.setTcb fd t) := by
  obtain ⟨s, hs, hst0⟩ := getTcb_some ht0
  unfold Kernel.setTcb
  rw [hs]
  refine h.setSock hs rfl ?_
  intro hfd t' ht'
  simp only [Option.some.injEq] at ht'
  subst ht'
  exact hst (h.old_state hs hst0 hfd)

theorem retxPass1Step (cfg : Cfg) (acc : Kernel × List Nat × List Nat) (fd : Nat) (h : AccInv acc.1) :
    AccInv (Kernel.retxPass1Step cfg acc fd).1 := by
  unfold Kernel.retxPass1Step
  split
  · exact h
  · rename_i t ht
    dsimp only
    have h1 := h.setTcb_of (t.retxTick cfg.retxThreshold cfg.retxMax).1 ht (fun hs => Tcb.nsr_retxTick _ _ hs)
    split <;> exact h1

theorem emitHandshake (cfg : Cfg) (h : AccInv k) (fd : Nat) : AccInv (k.emitHandshake cfg fd) := by
  unfold Kernel.emitHandshake
  split
  · exact h
  · split
    · exact h
    · exact h.emit _ _ _

theorem persistProbe (cfg : Cfg) (h : AccInv k) (fd : Nat) : AccInv (k.persistProbe cfg fd) := by
  unfold Kernel.persistProbe
  split
  · exact h
  · rename_i s hs
    split
    · exact h
    · rename_i t ht
      dsimp only
      have hset : ∀ t' : Tcb, t'.state = t.state → AccInv (k.setSock fd { s with tcb := some t' }) := by
        intro t' hst
        refine h.setSock hs rfl ?_
        intro hfd t'' ht''
        simp only [Option.some.injEq] at ht''
        subst ht''
        rw [hst]
        exact h.old_state (t0 := t) hs ht hfd
      split
      · exact hset _ rfl
      · split
        · refine AccInv.abortWith _ ?_ _ _
          exact hset _ rfl
        · refine AccInv.emit ?_ _ _ _
          exact hset _ rfl

theorem checkRetx0 (cfg : Cfg) (h : AccInv k) : AccInv (Kernel.checkRetx0 cfg k) := by
  unfold Kernel.checkRetx0
  dsimp only
  apply foldl_inv (P := AccInv)
  · apply foldl_inv (P := AccInv)
    · exact foldl_inv (P := fun acc : Kernel × List Nat × List Nat => AccInv acc.1) (Kernel.retxPass1Step cfg)
        (k.retxCands cfg) (k, [], []) h (fun b a hb => AccInv.retxPass1Step cfg b a hb)
    · intro b fd hb
      exact hb.emitHandshake cfg fd
  · intro b fd hb
    exact hb.abortOrReap _ _ _

theorem checkRetx (cfg : Cfg) (h : AccInv k) : AccInv (Kernel.checkRetx cfg k) := by
  have h0 : AccInv (Kernel.checkRetx0 cfg k) := h.checkRetx0 cfg
  unfold Kernel.checkRetx
  dsimp only
  split
  · exact foldl_inv (P := AccInv) _ _ _ h0 (fun b a hb => hb.persistProbe cfg a)
  · exact h0

theorem segmentOne (cfg : Cfg) (h : AccInv k) (fd : Nat) : AccInv (Kernel.segmentOne cfg k fd) := by
  unfold Kernel.segmentOne
  split
  · exact h
  · rename_i s hs
    split
    · exact h
    · rename_i t ht
      dsimp only
      refine AccInv.congr (k := k.setSock fd { s with tcb := some (Tcb.segLoop (mssFor cfg (boundEndpoint s).ip)
        cfg.recvCap (boundEndpoint s).port (t.sendBuf.length + 2) t []).1 }) ?_ rfl rfl rfl rfl
      refine h.setSock hs rfl ?_
      intro hfd t' ht'
      simp only [Option.some.injEq] at ht'
      subst ht'
      exact Tcb.nsr_segLoop _ _ _ _ _ (h.old_state hs ht hfd)

theorem segmentAll (cfg : Cfg) (h : AccInv k) : AccInv (Kernel.segmentAll cfg k) := by
  unfold Kernel.segmentAll
  exact foldl_inv (P := AccInv) _ _ _ h (fun b a hb => hb.segmentOne cfg a)

theorem drainStep (cfg : Cfg) (acc : Kernel × List Packet) (p : Packet) (h : AccInv acc.1) :
    AccInv (Kernel.drainStep cfg acc p).1 := by
  unfold Kernel.drainStep
  split
  · exact h.deliver _ _
  · exact h

theorem egressLoop (cfg : Cfg) (fuel : Nat) (k : Kernel) (out : List Packet) (h : AccInv k) :
    AccInv (Kernel.egressLoop cfg fuel k out).1 := by
  induction fuel generalizing k out with
  | zero => exact h
  | succ n ih =>
    unfold Kernel.egressLoop
    dsimp only
    have h1 := h.segmentAll cfg
    split
    · exact h1
    · apply ih
      exact foldl_inv (P := fun acc : Kernel × List Packet => AccInv acc.1) (Kernel.drainStep cfg) _ _
        (h1.congr rfl rfl rfl rfl) (fun b a hb => AccInv.drainStep cfg b a hb)

theorem egress (cfg : Cfg) (h : AccInv k) : AccInv (k.egress cfg).1 := by
  unfold Kernel.egress
  dsimp only
  exact ((h.checkRetx cfg).egressLoop cfg _ _ _).reapClosed

/-- **Accept-once** at the kernel level: no fd is ever handed out twice by `poll_accept`. -/
theorem acceptLog_nodup (h : AccInv k) : k.acceptLog.Nodup := by
  apply nodup_of_count_le_one
  intro x
  have h1 := h.count x
  have h2 := count_le_one_of_nodup _ h.pushNodup x
  omega

end AccInv
end TV.NetTcp
