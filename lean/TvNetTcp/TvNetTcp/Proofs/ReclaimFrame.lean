/-
  Frame lemmas for the phases of `Kernel.egress`: what `check_retx`, `segment_all` and `reap_closed`
  do to ONE socket of a table with arbitrarily many others.  Every phase is a fold of a per-socket
  action over a candidate list computed from the table; with unique fds (`AccInv.keys`) the effect on
  socket `fd` is the per-socket action applied once, iff `fd` is a candidate, and nothing else.
-/
import TvNetTcp.Proofs.Reclaim
import TvNetTcp.Proofs.Accept

namespace TV.NetTcp
namespace Kernel

/-! ## Table lookups -/

theorem lookup_map_ne (l : List (Nat × Socket)) (a : Nat) (s : Socket) (fd : Nat) (hne : a ≠ fd) :
    (l.map fun e => if e.1 == a then (a, s) else e).lookup fd = l.lookup fd := by
  induction l with
  | nil => rfl
  | cons x xs ih =>
    obtain ⟨b, sb⟩ := x
    rw [List.map_cons]
    by_cases hb : b = a
    · subst hb
      have hfd : (fd == b) = false := by
        cases h : fd == b
        · rfl
        · exact absurd (beq_iff_eq.mp h).symm hne
      simp only [beq_self_eq_true, if_true, List.lookup_cons, hfd]
      exact ih
    · have hba : (b == a) = false := by
        cases h : b == a
        · rfl
        · exact absurd (beq_iff_eq.mp h) hb
      simp only [hba, Bool.false_eq_true, if_false, List.lookup_cons]
      cases fd == b
      · exact ih
      · rfl

theorem getSock_setSock_ne (k : Kernel) (a : Nat) (s : Socket) (fd : Nat) (hne : a ≠ fd) :
    (k.setSock a s).getSock fd = k.getSock fd := by
  unfold getSock setSock
  exact lookup_map_ne _ _ _ _ hne

theorem getSock_setTcb_ne (k : Kernel) (a : Nat) (t : Tcb) (fd : Nat) (hne : a ≠ fd) :
    (k.setTcb a t).getSock fd = k.getSock fd := by
  unfold setTcb
  split
  · exact getSock_setSock_ne _ _ _ _ hne
  · rfl

theorem getSock_emit (k : Kernel) (a b : SockAddr) (sg : Seg) (fd : Nat) : (k.emit a b sg).getSock fd = k.getSock fd := rfl

theorem lookup_filter_self (l : List (Nat × Socket)) (fd : Nat) : (l.filter fun e => e.1 != fd).lookup fd = none := by
  induction l with
  | nil => rfl
  | cons x xs ih =>
    obtain ⟨b, sb⟩ := x
    rw [List.filter_cons]
    by_cases hb : b = fd
    · subst hb
      simp only [bne_self_eq_false, Bool.false_eq_true, if_false]
      exact ih
    · have h1 : (b != fd) = true := by simpa using hb
      have h2 : (fd == b) = false := by
        cases h : fd == b
        · rfl
        · exact absurd (beq_iff_eq.mp h).symm hb
      simp only [h1, if_true, List.lookup_cons, h2]
      exact ih

theorem getSock_remove_self (k : Kernel) (fd : Nat) : (k.remove fd).getSock fd = none := by
  unfold getSock remove
  exact lookup_filter_self _ _

theorem mem_of_lookup (l : List (Nat × Socket)) (fd : Nat) (s : Socket) (h : l.lookup fd = some s) : (fd, s) ∈ l := by
  induction l with
  | nil => cases h
  | cons x xs ih =>
    obtain ⟨b, sb⟩ := x
    rw [List.lookup_cons] at h
    cases hb : fd == b
    · rw [hb] at h
      exact List.mem_cons_of_mem _ (ih h)
    · rw [hb] at h
      have : fd = b := beq_iff_eq.mp hb
      subst this
      cases h
      exact List.mem_cons_self

/-! ## Folds of per-socket actions -/

/-- `g k a` leaves every socket but `a` alone. -/
def LocalAct (g : Kernel → Nat → Kernel) : Prop := ∀ k a fd, a ≠ fd → (g k a).getSock fd = k.getSock fd

theorem foldl_local_notMem {g : Kernel → Nat → Kernel} (hg : LocalAct g) (fd : Nat) :
    ∀ (l : List Nat) (k : Kernel), fd ∉ l → (l.foldl g k).getSock fd = k.getSock fd := by
  intro l
  induction l with
  | nil => intro k _; rfl
  | cons a l ih =>
    intro k hn
    rw [List.foldl_cons]
    rw [ih (g k a) (fun h => hn (List.mem_cons_of_mem _ h))]
    exact hg k a fd (fun h => hn (h ▸ List.mem_cons_self))

/-- With unique candidates, the fold does to `fd` what one application of the action does. -/
theorem foldl_local_mem {g : Kernel → Nat → Kernel} (hg : LocalAct g) (fd : Nat) (φ : Option Socket → Option Socket)
    (hφ : ∀ k, (g k fd).getSock fd = φ (k.getSock fd)) :
    ∀ (l : List Nat) (k : Kernel), l.Nodup → fd ∈ l → (l.foldl g k).getSock fd = φ (k.getSock fd) := by
  intro l
  induction l with
  | nil => intro k _ h; cases h
  | cons a l ih =>
    intro k hn hm
    rw [List.foldl_cons]
    rw [List.nodup_cons] at hn
    by_cases ha : a = fd
    · subst ha
      rw [foldl_local_notMem hg a l _ hn.1]
      exact hφ k
    · have hm' : fd ∈ l := by
        rcases List.mem_cons.mp hm with h | h
        · exact absurd h.symm ha
        · exact h
      rw [ih (g k a) hn.2 hm', hg k a fd ha]

/-- Candidate lists computed from the table by a predicate on the entry. -/
theorem cands_nodup (k : Kernel) (hk : (k.sockets.map (·.1)).Nodup) (p : Nat × Socket → Bool) :
    (k.sockets.filterMap fun e => if p e then some e.1 else none).Nodup := by
  have : (k.sockets.filterMap fun e => if p e then some e.1 else none) = (k.sockets.filter p).map (·.1) := by
    generalize k.sockets = l
    induction l with
    | nil => rfl
    | cons x xs ih =>
      rw [List.filterMap_cons, List.filter_cons]
      cases hp : p x
      · simp only [Bool.false_eq_true, if_false]; exact ih
      · simp only [if_true, List.map_cons, ih]
  rw [this]
  exact List.Nodup.sublist (List.Sublist.map _ List.filter_sublist) hk

theorem mem_cands (k : Kernel) (hk : (k.sockets.map (·.1)).Nodup) (p : Nat × Socket → Bool) (fd : Nat) (s : Socket)
    (hs : k.getSock fd = some s) :
    fd ∈ (k.sockets.filterMap fun e => if p e then some e.1 else none) ↔ p (fd, s) = true := by
  rw [List.mem_filterMap]
  constructor
  · rintro ⟨⟨a, sa⟩, hm, he⟩
    by_cases hp : p (a, sa) = true
    · rw [if_pos hp] at he
      have : a = fd := by simpa using he
      subst this
      have := TV.NetTcp.lookup_of_mem_nodup _ hk a sa hm
      unfold getSock at hs
      rw [hs] at this
      cases this
      exact hp
    · rw [if_neg hp] at he; cases he
  · intro hp
    exact ⟨(fd, s), mem_of_lookup _ _ _ hs, by rw [if_pos hp]⟩

/-! ## The retransmit sweep (`checkRetx0`) on one socket -/

theorem retxTick_state (thr max : Nat) (t : Tcb) : (t.retxTick thr max).1.state = t.state := by
  unfold Tcb.retxTick
  dsimp only
  split
  · rfl
  · split
    · rfl
    · split <;> rfl

theorem getTcb_of_sock {k : Kernel} {fd : Nat} {s : Socket} (h : k.getSock fd = some s) : k.getTcb fd = s.tcb := by
  unfold getTcb; rw [h]; rfl

theorem retxPass1Step_ne (cfg : Cfg) (acc : Kernel × List Nat × List Nat) (a fd : Nat) (hne : a ≠ fd) :
    (retxPass1Step cfg acc a).1.getSock fd = acc.1.getSock fd ∧
      (fd ∈ (retxPass1Step cfg acc a).2.2 ↔ fd ∈ acc.2.2) := by
  unfold retxPass1Step
  split
  · exact ⟨rfl, Iff.rfl⟩
  · dsimp only
    split
    · exact ⟨getSock_setTcb_ne _ _ _ _ hne, Iff.rfl⟩
    · exact ⟨getSock_setTcb_ne _ _ _ _ hne, Iff.rfl⟩
    · refine ⟨getSock_setTcb_ne _ _ _ _ hne, ?_⟩
      dsimp only
      rw [List.mem_append]
      constructor
      · rintro (h | h)
        · exact h
        · exact absurd (List.mem_singleton.mp h).symm hne
      · exact Or.inl

theorem pass1_notMem (cfg : Cfg) (fd : Nat) :
    ∀ (l : List Nat) (acc : Kernel × List Nat × List Nat), fd ∉ l →
      (l.foldl (retxPass1Step cfg) acc).1.getSock fd = acc.1.getSock fd ∧
        (fd ∈ (l.foldl (retxPass1Step cfg) acc).2.2 ↔ fd ∈ acc.2.2) := by
  intro l
  induction l with
  | nil => intro acc _; exact ⟨rfl, Iff.rfl⟩
  | cons a l ih =>
    intro acc hn
    rw [List.foldl_cons]
    have h1 := ih (retxPass1Step cfg acc a) (fun h => hn (List.mem_cons_of_mem _ h))
    have h2 := retxPass1Step_ne cfg acc a fd (fun h => hn (h ▸ List.mem_cons_self))
    exact ⟨h1.1.trans h2.1, h1.2.trans h2.2⟩

theorem retxPass1Step_self (cfg : Cfg) (acc : Kernel × List Nat × List Nat) (fd : Nat) (s : Socket) (t : Tcb)
    (hs : acc.1.getSock fd = some s) (ht : s.tcb = some t) :
    (retxPass1Step cfg acc fd).1.getSock fd =
        some { s with tcb := some (t.retxTick cfg.retxThreshold cfg.retxMax).1 } ∧
      (fd ∈ (retxPass1Step cfg acc fd).2.2 ↔
        fd ∈ acc.2.2 ∨ (t.retxTick cfg.retxThreshold cfg.retxMax).2 = .abort) := by
  have hset : (acc.1.setTcb fd (t.retxTick cfg.retxThreshold cfg.retxMax).1).getSock fd =
      some { s with tcb := some (t.retxTick cfg.retxThreshold cfg.retxMax).1 } := by
    unfold setTcb
    rw [hs]
    exact getSock_setSock_self _ _ _ (by rw [hs]; rfl)
  unfold retxPass1Step
  rw [getTcb_of_sock hs, ht]
  dsimp only
  cases hact : (t.retxTick cfg.retxThreshold cfg.retxMax).2
  · exact ⟨hset, by simp⟩
  · exact ⟨hset, by simp⟩
  · refine ⟨hset, ?_⟩
    dsimp only
    rw [List.mem_append]
    simp

theorem pass1_mem (cfg : Cfg) (fd : Nat) (s : Socket) (t : Tcb) (ht : s.tcb = some t) :
    ∀ (l : List Nat) (acc : Kernel × List Nat × List Nat), l.Nodup → fd ∈ l → acc.1.getSock fd = some s →
      (l.foldl (retxPass1Step cfg) acc).1.getSock fd =
          some { s with tcb := some (t.retxTick cfg.retxThreshold cfg.retxMax).1 } ∧
        (fd ∈ (l.foldl (retxPass1Step cfg) acc).2.2 ↔
          fd ∈ acc.2.2 ∨ (t.retxTick cfg.retxThreshold cfg.retxMax).2 = .abort) := by
  intro l
  induction l with
  | nil => intro acc _ h; cases h
  | cons a l ih =>
    intro acc hn hm hs
    rw [List.foldl_cons]
    rw [List.nodup_cons] at hn
    by_cases ha : a = fd
    · subst ha
      have h1 := pass1_notMem cfg a l (retxPass1Step cfg acc a) hn.1
      have h2 := retxPass1Step_self cfg acc a s t hs ht
      exact ⟨h1.1.trans h2.1, h1.2.trans h2.2⟩
    · have hm' : fd ∈ l := by
        rcases List.mem_cons.mp hm with h | h
        · exact absurd h.symm ha
        · exact h
      have h2 := retxPass1Step_ne cfg acc a fd ha
      have h1 := ih (retxPass1Step cfg acc a) hn.2 hm' (h2.1.trans hs)
      exact ⟨h1.1, h1.2.trans (by rw [h2.2])⟩

theorem pass1_aborts_sublist (cfg : Cfg) :
    ∀ (l : List Nat) (acc : Kernel × List Nat × List Nat),
      (l.foldl (retxPass1Step cfg) acc).2.2.Sublist (acc.2.2 ++ l) := by
  intro l
  induction l with
  | nil => intro acc; simp
  | cons a l ih =>
    intro acc
    rw [List.foldl_cons]
    refine (ih _).trans ?_
    have hmono : (acc.2.2 ++ l).Sublist (acc.2.2 ++ a :: l) :=
      List.Sublist.append_left (List.sublist_cons_self a l) _
    unfold retxPass1Step
    split
    · exact hmono
    · dsimp only
      split
      · exact hmono
      · exact hmono
      · dsimp only
        rw [List.append_assoc]
        exact List.Sublist.refl _

theorem emitHandshake_getSock (cfg : Cfg) (k : Kernel) (a fd : Nat) : (k.emitHandshake cfg a).getSock fd = k.getSock fd := by
  unfold emitHandshake
  split
  · rfl
  · split <;> rfl

theorem foldl_emitHandshake_getSock (cfg : Cfg) (fd : Nat) :
    ∀ (l : List Nat) (k : Kernel), (l.foldl (emitHandshake cfg) k).getSock fd = k.getSock fd := by
  intro l
  induction l with
  | nil => intro k; rfl
  | cons a l ih => intro k; rw [List.foldl_cons, ih, emitHandshake_getSock]

theorem abortWith_local (cfg : Cfg) (b : Bool) : LocalAct fun k a => abortWith cfg k a b := by
  intro k a fd hne
  show (abortWith cfg k a b).getSock fd = _
  unfold abortWith
  split
  · rfl
  · split
    · rfl
    · split <;> exact getSock_setSock_ne _ _ _ _ hne

theorem abortOrReap_local (cfg : Cfg) (b : Bool) : LocalAct fun k a => abortOrReap cfg k a b := by
  intro k a fd hne
  show (abortOrReap cfg k a b).getSock fd = _
  have key : ∀ c : Bool, (if c = true then k.remove a else abortWith cfg k a b).getSock fd = k.getSock fd := by
    intro c
    cases c
    · exact abortWith_local cfg b k a fd hne
    · exact getSock_remove_ne _ _ _ (Ne.symm hne)
  unfold abortOrReap
  exact key _

/-- The TCB `abort_with` leaves behind (`Closed` either way). -/
def abortedTcb (cfg : Cfg) (t : Tcb) (b : Bool) : Tcb :=
  if cfg.fixQuietClose && (t.state == .lastAck || t.state == .closing) then { t with state := .closed, sendBuf := [] }
  else t.abort b

theorem abortedTcb_closed (cfg : Cfg) (t : Tcb) (b : Bool) : (abortedTcb cfg t b).state = .closed := by
  unfold abortedTcb; split <;> rfl

def abortedSock (cfg : Cfg) (b : Bool) (o : Option Socket) : Option Socket :=
  match o with
  | none => none
  | some s =>
    match s.tcb with
    | none => some s
    | some t => some { s with tcb := some (abortedTcb cfg t b) }

theorem abortWith_self (cfg : Cfg) (b : Bool) (k : Kernel) (fd : Nat) :
    (abortWith cfg k fd b).getSock fd = abortedSock cfg b (k.getSock fd) := by
  unfold abortWith abortedSock
  cases hs : k.getSock fd with
  | none => simp only [hs]
  | some s =>
    dsimp only
    cases ht : s.tcb with
    | none => simp only [hs]
    | some t =>
      dsimp only
      unfold abortedTcb
      split
      · exact getSock_setSock_self _ _ _ (by rw [hs]; rfl)
      · exact getSock_setSock_self _ _ _ (by rw [hs]; rfl)

def abortOrReapSock (cfg : Cfg) (b : Bool) (o : Option Socket) : Option Socket :=
  if cfg.fixReapOrphan && (match o.bind (·.tcb) with
      | some t => t.state == .synReceived
      | none => false) then none
  else abortedSock cfg b o

theorem abortOrReap_self (cfg : Cfg) (b : Bool) (k : Kernel) (fd : Nat) :
    (abortOrReap cfg k fd b).getSock fd = abortOrReapSock cfg b (k.getSock fd) := by
  have key : ∀ c : Bool, (if c = true then k.remove fd else abortWith cfg k fd b).getSock fd =
      if c = true then none else abortedSock cfg b (k.getSock fd) := by
    intro c
    cases c
    · exact abortWith_self cfg b k fd
    · exact getSock_remove_self _ _
  unfold abortOrReap abortOrReapSock getTcb
  exact key _

theorem sock_eta {s : Socket} {t : Tcb} (ht : s.tcb = some t) : { s with tcb := some t } = s := by
  cases s; simp only at ht; subst ht; rfl

/-- `check_retx`'s candidate filter on a table entry. -/
def retxCandSock (cfg : Cfg) (s : Socket) (t : Tcb) : Bool :=
  t.retxCandidate || (cfg.fixOrphanTimeout && s.fdClosed && t.state != .closed) ||
    (cfg.fixFinWait2Timeout && s.fdClosed && t.state == .finWait2)

def pRetx (cfg : Cfg) (e : Nat × Socket) : Bool :=
  match e.2.tcb with
  | some t => retxCandSock cfg e.2 t
  | none => false

theorem retxCands_eq (cfg : Cfg) (k : Kernel) :
    k.retxCands cfg = k.sockets.filterMap fun e => if pRetx cfg e then some e.1 else none := by
  unfold retxCands
  congr 1
  funext e
  unfold pRetx retxCandSock
  cases e.2.tcb with
  | none => simp
  | some t => rfl

/-- The retransmit sweep on one established-or-later socket of a table with unique fds: it is visited
    iff it is a candidate, gets the tick, and is aborted iff the tick says so; nothing else touches it. -/
theorem checkRetx0_socket (cfg : Cfg) (k : Kernel) (hk : (k.sockets.map (·.1)).Nodup) (fd : Nat) (s : Socket) (t : Tcb)
    (hs : k.getSock fd = some s) (ht : s.tcb = some t) (hh : t.isHandshake = false) :
    (checkRetx0 cfg k).getSock fd =
      some { s with tcb := some (if retxCandSock cfg s t then
        (if (t.retxTick cfg.retxThreshold cfg.retxMax).2 = .abort then
          abortedTcb cfg (t.retxTick cfg.retxThreshold cfg.retxMax).1 false
         else (t.retxTick cfg.retxThreshold cfg.retxMax).1) else t) } := by
  have hnd : (k.retxCands cfg).Nodup := by rw [retxCands_eq]; exact cands_nodup k hk _
  have hmem : fd ∈ k.retxCands cfg ↔ retxCandSock cfg s t = true := by
    rw [retxCands_eq, mem_cands k hk _ fd s hs]
    unfold pRetx
    simp only [ht]
  have hsub := pass1_aborts_sublist cfg (k.retxCands cfg) (k, [], [])
  have hand : ((k.retxCands cfg).foldl (retxPass1Step cfg) (k, [], [])).2.2.Nodup :=
    List.Nodup.sublist hsub (by simpa using hnd)
  unfold checkRetx0
  dsimp only
  by_cases hc : retxCandSock cfg s t = true
  · rw [if_pos hc]
    obtain ⟨h1, h2⟩ := pass1_mem cfg fd s t ht (k.retxCands cfg) (k, [], []) hnd (hmem.mpr hc) hs
    by_cases hab : (t.retxTick cfg.retxThreshold cfg.retxMax).2 = .abort
    · rw [if_pos hab]
      rw [foldl_local_mem (abortOrReap_local cfg false) fd (abortOrReapSock cfg false)
        (fun k => abortOrReap_self cfg false k fd) _ _ hand (h2.mpr (Or.inr hab))]
      rw [foldl_emitHandshake_getSock, h1]
      unfold abortOrReapSock
      have hst : ((t.retxTick cfg.retxThreshold cfg.retxMax).1.state == TcpState.synReceived) = false := by
        rw [retxTick_state]
        unfold Tcb.isHandshake at hh
        cases h : t.state <;> rw [h] at hh <;> simp at hh ⊢
      simp only [Option.bind, hst, Bool.and_false, Bool.false_eq_true, if_false]
      rfl
    · rw [if_neg hab]
      rw [foldl_local_notMem (abortOrReap_local cfg false) fd _ _
        (fun h => (h2.mp h).elim (fun h => by cases h) hab)]
      rw [foldl_emitHandshake_getSock, h1]
  · rw [if_neg hc]
    obtain ⟨h1, h2⟩ := pass1_notMem cfg fd (k.retxCands cfg) (k, [], []) (fun h => hc (hmem.mp h))
    rw [foldl_local_notMem (abortOrReap_local cfg false) fd _ _ (fun h => by cases h2.mp h)]
    rw [foldl_emitHandshake_getSock, h1, hs, sock_eta ht]

/-! ## The persist sweep on one socket -/

theorem persistProbe_local (cfg : Cfg) : LocalAct (persistProbe cfg) := by
  intro k a fd hne
  unfold persistProbe
  split
  · rfl
  · split
    · rfl
    · dsimp only
      split
      · exact getSock_setSock_ne _ _ _ _ hne
      · split
        · rw [abortWith_local cfg false _ a fd hne]
          exact getSock_setSock_ne _ _ _ _ hne
        · rw [getSock_emit]
          exact getSock_setSock_ne _ _ _ _ hne

def persistSock (cfg : Cfg) (o : Option Socket) : Option Socket :=
  match o with
  | none => none
  | some s =>
    match s.tcb with
    | none => some s
    | some t =>
      if t.persistTicks + 1 < cfg.retxThreshold then
        some { s with tcb := some { t with persistTicks := t.persistTicks + 1 } }
      else if cfg.fixPersistBudget && decide (t.persistProbes ≥ cfg.retxMax) then
        some { s with tcb := some (abortedTcb cfg { t with persistTicks := 0 } false) }
      else some { s with tcb := some (t.probeSent cfg.fixPersistBudget) }

theorem persistProbe_self (cfg : Cfg) (k : Kernel) (fd : Nat) :
    (persistProbe cfg k fd).getSock fd = persistSock cfg (k.getSock fd) := by
  unfold persistProbe persistSock
  cases hs : k.getSock fd with
  | none => simp only [hs]
  | some s =>
    dsimp only
    cases ht : s.tcb with
    | none => simp only [hs]
    | some t =>
      dsimp only
      have hsome : (k.getSock fd).isSome = true := by rw [hs]; rfl
      split
      · exact getSock_setSock_self _ _ _ hsome
      · split
        · rw [abortWith_self, getSock_setSock_self _ _ _ hsome]
          rfl
        · rw [getSock_emit]
          exact getSock_setSock_self _ _ _ hsome

def pPersist (e : Nat × Socket) : Bool :=
  match e.2.tcb with
  | some t => t.persistCandidate
  | none => false

theorem persistCands_eq (k : Kernel) :
    k.persistCands = k.sockets.filterMap fun e => if pPersist e then some e.1 else none := by
  unfold persistCands
  congr 1
  funext e
  unfold pPersist
  cases e.2.tcb with
  | none => simp
  | some t => rfl

theorem persistSweep_socket (cfg : Cfg) (k : Kernel) (hk : (k.sockets.map (·.1)).Nodup) (fd : Nat) (s : Socket) (t : Tcb)
    (hs : k.getSock fd = some s) (ht : s.tcb = some t) :
    (k.persistCands.foldl (persistProbe cfg) k).getSock fd =
      if t.persistCandidate then persistSock cfg (some s) else some s := by
  have hnd : k.persistCands.Nodup := by rw [persistCands_eq]; exact cands_nodup k hk _
  have hmem : fd ∈ k.persistCands ↔ t.persistCandidate = true := by
    rw [persistCands_eq, mem_cands k hk _ fd s hs]
    unfold pPersist
    simp only [ht]
  by_cases hc : t.persistCandidate = true
  · rw [if_pos hc, foldl_local_mem (persistProbe_local cfg) fd (persistSock cfg) (fun k => persistProbe_self cfg k fd)
      _ _ hnd (hmem.mpr hc), hs]
  · rw [if_neg hc, foldl_local_notMem (persistProbe_local cfg) fd _ _ (fun h => hc (hmem.mp h)), hs]

/-! ## `segment_all` on one socket -/

theorem segmentOne_local (cfg : Cfg) : LocalAct (segmentOne cfg) := by
  intro k a fd hne
  unfold segmentOne
  split
  · rfl
  · split
    · rfl
    · exact getSock_setSock_ne _ _ _ _ hne

def segSock (cfg : Cfg) (o : Option Socket) : Option Socket :=
  match o with
  | none => none
  | some s =>
    match s.tcb with
    | none => some s
    | some t =>
      some { s with tcb := some (Tcb.segLoop (mssFor cfg (boundEndpoint s).ip) cfg.recvCap (boundEndpoint s).port
        (t.sendBuf.length + 2) t []).1 }

theorem segmentOne_self (cfg : Cfg) (k : Kernel) (fd : Nat) :
    (segmentOne cfg k fd).getSock fd = segSock cfg (k.getSock fd) := by
  unfold segmentOne segSock
  cases hs : k.getSock fd with
  | none => simp only [hs]
  | some s =>
    dsimp only
    cases ht : s.tcb with
    | none => simp only [hs]
    | some t =>
      dsimp only
      exact getSock_setSock_self _ _ _ (by rw [hs]; rfl)

def pSeg (e : Nat × Socket) : Bool :=
  match e.2.tcb with
  | some t => t.segCandidate
  | none => false

theorem segmentAll_eq (cfg : Cfg) (k : Kernel) :
    segmentAll cfg k = (k.sockets.filterMap fun e => if pSeg e then some e.1 else none).foldl (segmentOne cfg) k := by
  unfold segmentAll
  dsimp only
  congr 1
  congr 1
  funext e
  unfold pSeg
  cases e.2.tcb with
  | none => simp
  | some t => rfl

theorem segmentAll_socket (cfg : Cfg) (k : Kernel) (hk : (k.sockets.map (·.1)).Nodup) (fd : Nat) (s : Socket) (t : Tcb)
    (hs : k.getSock fd = some s) (ht : s.tcb = some t) :
    (segmentAll cfg k).getSock fd = if t.segCandidate then segSock cfg (some s) else some s := by
  rw [segmentAll_eq]
  have hnd := cands_nodup k hk pSeg
  have hmem : fd ∈ (k.sockets.filterMap fun e => if pSeg e then some e.1 else none) ↔ t.segCandidate = true := by
    rw [mem_cands k hk _ fd s hs]
    unfold pSeg
    simp only [ht]
  by_cases hc : t.segCandidate = true
  · rw [if_pos hc, foldl_local_mem (segmentOne_local cfg) fd (segSock cfg) (fun k => segmentOne_self cfg k fd)
      _ _ hnd (hmem.mpr hc), hs]
  · rw [if_neg hc, foldl_local_notMem (segmentOne_local cfg) fd _ _ (fun h => hc (hmem.mp h)), hs]

/-! ## `reap_closed` on one socket -/

theorem remove_local : LocalAct remove := fun k a fd hne => getSock_remove_ne k a fd (Ne.symm hne)

theorem reapClosed_socket (k : Kernel) (hk : (k.sockets.map (·.1)).Nodup) (fd : Nat) (s : Socket)
    (hs : k.getSock fd = some s) :
    k.reapClosed.getSock fd = if reapVictim s then none else some s := by
  unfold reapClosed
  have heq : ((k.sockets.filter fun e => reapVictim e.2).map (·.1)) =
      k.sockets.filterMap fun e => if reapVictim e.2 then some e.1 else none := by
    generalize k.sockets = l
    induction l with
    | nil => rfl
    | cons x xs ih =>
      rw [List.filterMap_cons, List.filter_cons]
      cases hp : reapVictim x.2
      · simp only [Bool.false_eq_true, if_false]; exact ih
      · simp only [if_true, List.map_cons, ih]
  rw [heq]
  have hnd := cands_nodup k hk (fun e => reapVictim e.2)
  have hmem := mem_cands k hk (fun e => reapVictim e.2) fd s hs
  by_cases hc : reapVictim s = true
  · rw [if_pos hc, foldl_local_mem remove_local fd (fun _ => none) (fun k => getSock_remove_self k fd)
      _ _ hnd (hmem.mpr hc)]
  · rw [if_neg hc, foldl_local_notMem remove_local fd _ _ (fun h => hc (hmem.mp h)), hs]

end Kernel

/-! ## One pass at TCB level, as the kernel phases compose it -/

namespace Tcb

def dead (t : Tcb) : Bool := t.state == .closed || t.reset

theorem dead_retxTick (a b : Nat) (t : Tcb) : (t.retxTick a b).1.dead = t.dead := by
  unfold retxTick
  dsimp only
  split
  · rfl
  · split
    · rfl
    · split <;> rfl

theorem dead_segLoop (m c p f : Nat) (t : Tcb) (acc : List Seg) : (segLoop m c p f t acc).1.dead = t.dead := by
  rw [segLoop_eq]; rfl

theorem closed_not_cand {t : Tcb} (h : t.state = .closed) :
    t.retxCandidate = false ∧ t.persistCandidate = false ∧ t.segCandidate = false ∧
      (t.state == TcpState.finWait2) = false := by
  unfold retxCandidate persistCandidate segCandidate isHandshake transmittable
  rw [h]
  simp

theorem segStep_port (m c p q : Nat) (t : Tcb) :
    (t.segStep m c p).map (·.1) = (t.segStep m c q).map (·.1) := by
  unfold segStep
  dsimp only
  split
  · rfl
  · split <;> rfl

theorem segLoop_port (m c p q : Nat) :
    ∀ (f : Nat) (t : Tcb) (acc acc' : List Seg), (segLoop m c p f t acc).1 = (segLoop m c q f t acc').1 := by
  intro f
  induction f with
  | zero => intro t acc acc'; rfl
  | succ f ih =>
    intro t acc acc'
    have hp := segStep_port m c p q t
    unfold segLoop
    cases h1 : t.segStep m c p with
    | none =>
      cases h2 : t.segStep m c q with
      | none => rfl
      | some x => rw [h1, h2] at hp; cases hp
    | some x =>
      cases h2 : t.segStep m c q with
      | none => rw [h1, h2] at hp; cases hp
      | some y =>
        rw [h1, h2] at hp
        obtain ⟨t1, g1⟩ := x
        obtain ⟨t2, g2⟩ := y
        simp only [Option.map_some, Option.some.injEq] at hp
        subst hp
        exact ih _ _ _

end Tcb

namespace Kernel

def kSweep (cfg : Cfg) (t : Tcb) : Tcb :=
  if t.retxCandidate || (cfg.fixFinWait2Timeout && t.state == .finWait2) then
    (if (t.retxTick cfg.retxThreshold cfg.retxMax).2 = .abort then
      abortedTcb cfg (t.retxTick cfg.retxThreshold cfg.retxMax).1 false
     else (t.retxTick cfg.retxThreshold cfg.retxMax).1)
  else t

def kPersist (cfg : Cfg) (t1 : Tcb) : Tcb :=
  if cfg.fixPersistProbe && t1.persistCandidate then
    (if t1.persistTicks + 1 < cfg.retxThreshold then { t1 with persistTicks := t1.persistTicks + 1 }
     else if cfg.fixPersistBudget && decide (t1.persistProbes ≥ cfg.retxMax) then
       abortedTcb cfg { t1 with persistTicks := 0 } false
     else t1.probeSent cfg.fixPersistBudget)
  else t1

def kSeg (cfg : Cfg) (mss port : Nat) (t2 : Tcb) : Tcb :=
  if t2.segCandidate then (Tcb.segLoop mss cfg.recvCap port (t2.sendBuf.length + 2) t2 []).1 else t2

/-- The three phases, composed as `Kernel.egress` runs them. -/
def kRound (cfg : Cfg) (mss port : Nat) (t : Tcb) : Tcb := kSeg cfg mss port (kPersist cfg (kSweep cfg t))

theorem kPersist_closed (cfg : Cfg) {t : Tcb} (h : t.state = .closed) : kPersist cfg t = t := by
  unfold kPersist
  rw [(Tcb.closed_not_cand h).2.1]
  simp

theorem kSeg_closed (cfg : Cfg) (mss port : Nat) {t : Tcb} (h : t.state = .closed) : kSeg cfg mss port t = t := by
  unfold kSeg
  rw [(Tcb.closed_not_cand h).2.2.1]
  simp

theorem dead_of_closed {t : Tcb} (h : t.state = .closed) : t.dead = true := by
  unfold Tcb.dead; rw [h]; rfl

/-- The tail of the pass (persist sweep, `segment_one`) on a TCB that is not dead. -/
theorem tail_eq (cfg : Cfg) (mss port : Nat) (t1 : Tcb) (hnd : t1.dead = false) :
    orphanTail cfg mss t1 =
      if (kSeg cfg mss port (kPersist cfg t1)).dead then none else some (kSeg cfg mss port (kPersist cfg t1)) := by
  have segdead : ∀ t2 : Tcb, (kSeg cfg mss port t2).dead = t2.dead := by
    intro t2
    unfold kSeg
    split
    · exact Tcb.dead_segLoop _ _ _ _ _ _
    · rfl
  have segport : ∀ t2 : Tcb,
      (if t2.segCandidate then (Tcb.segLoop mss cfg.recvCap 0 (t2.sendBuf.length + 2) t2 []).1 else t2) =
        kSeg cfg mss port t2 := by
    intro t2
    unfold kSeg
    split
    · exact Tcb.segLoop_port _ _ _ _ _ _ _ _
    · rfl
  have alive : ∀ t2 : Tcb, t2.dead = false →
      some (if t2.segCandidate then (Tcb.segLoop mss cfg.recvCap 0 (t2.sendBuf.length + 2) t2 []).1 else t2) =
        if (kSeg cfg mss port t2).dead then none else some (kSeg cfg mss port t2) := by
    intro t2 h2
    rw [segdead, h2, segport]
    rfl
  unfold orphanTail kPersist
  by_cases hp : (cfg.fixPersistProbe && t1.persistCandidate) = true
  · rw [if_pos hp, if_pos hp]
    by_cases h1 : t1.persistTicks + 1 < cfg.retxThreshold
    · rw [if_pos h1, if_pos h1]
      exact alive _ hnd
    · rw [if_neg h1, if_neg h1]
      by_cases h2 : (cfg.fixPersistBudget && decide (t1.persistProbes ≥ cfg.retxMax)) = true
      · rw [if_pos h2, if_pos h2]
        have hcl := abortedTcb_closed cfg { t1 with persistTicks := 0 } false
        rw [kSeg_closed cfg mss port hcl, dead_of_closed hcl]
        rfl
      · rw [if_neg h2, if_neg h2]
        exact alive _ hnd
  · rw [if_neg hp, if_neg hp]
    exact alive _ hnd

/-- `orphanRound` is the kernel's pass: `none` exactly when the pass leaves a TCB `reap_closed` takes. -/
theorem orphanRound_eq_kRound (cfg : Cfg) (mss port : Nat) (t : Tcb) (hdead : t.reset = true → t.state = .closed) :
    orphanRound cfg mss t =
      if (kRound cfg mss port t).dead then none else some (kRound cfg mss port t) := by
  unfold orphanRound kRound
  by_cases hd : (t.state == .closed || t.reset) = true
  · -- dead from the start: no phase touches it
    have hcl : t.state = .closed := by
      rcases Bool.or_eq_true _ _ |>.mp hd with h | h
      · exact beq_iff_eq.mp h
      · exact hdead h
    rw [if_pos hd]
    have h1 : kSweep cfg t = t := by
      unfold kSweep
      rw [(Tcb.closed_not_cand hcl).1, (Tcb.closed_not_cand hcl).2.2.2]
      simp
    rw [h1, kPersist_closed cfg hcl, kSeg_closed cfg mss port hcl, dead_of_closed hcl]
    rfl
  · rw [if_neg hd]
    have hnd : t.dead = false := by unfold Tcb.dead; simpa using hd
    dsimp only
    unfold kSweep
    by_cases hc : (t.retxCandidate || (cfg.fixFinWait2Timeout && t.state == .finWait2)) = true
    · rw [if_pos hc, if_pos hc]
      by_cases hab : (t.retxTick cfg.retxThreshold cfg.retxMax).2 = .abort
      · have hab' : ((t.retxTick cfg.retxThreshold cfg.retxMax).2 == Tcb.RetxAction.abort) = true := by rw [hab]; rfl
        rw [if_pos hab', if_pos hab]
        have hcl := abortedTcb_closed cfg (t.retxTick cfg.retxThreshold cfg.retxMax).1 false
        rw [kPersist_closed cfg hcl, kSeg_closed cfg mss port hcl, dead_of_closed hcl]
        rfl
      · have hab' : ((t.retxTick cfg.retxThreshold cfg.retxMax).2 == Tcb.RetxAction.abort) = false := by
          cases h : (t.retxTick cfg.retxThreshold cfg.retxMax).2 <;> first | rfl | exact absurd h hab
        rw [if_neg (by rw [hab']; decide), if_neg hab]
        exact tail_eq cfg mss port _ (by rw [Tcb.dead_retxTick]; exact hnd)
    · rw [if_neg hc, if_neg hc]
      exact tail_eq cfg mss port _ hnd

/-! ## Re-segmenting is idempotent (the later iterations of `egress`'s loop) -/

theorem segLoop_done (mss cap port : Nat) (hm : 1 ≤ mss) :
    ∀ (fuel : Nat) (t : Tcb) (f : Nat) (acc : List Seg), FinShape t f → t.sendBuf.length + 1 - f < fuel →
      (Tcb.segLoop mss cap port fuel t acc).1.segStep mss cap port = none := by
  intro fuel
  induction fuel with
  | zero => intro t f acc _ h; omega
  | succ fuel ih =>
    intro t f acc h hf
    have hs := segStep_shape mss cap port hm h
    unfold Tcb.segLoop
    cases hst : t.segStep mss cap port with
    | none => exact hst
    | some r =>
      obtain ⟨t', sg⟩ := r
      rw [hst] at hs
      dsimp only at hs ⊢
      obtain ⟨_, hb, n, hn, hsh⟩ := hs
      have e : t'.sendBuf = t.sendBuf := by rw [Tcb.segStep_eq hst]
      exact ih t' (f + n) (acc ++ [sg]) hsh (by rw [e]; omega)

theorem segLoop_stop (mss cap port : Nat) (t : Tcb) (h : t.segStep mss cap port = none) :
    ∀ (fuel : Nat) (acc : List Seg), Tcb.segLoop mss cap port fuel t acc = (t, acc) := by
  intro fuel acc
  cases fuel with
  | zero => rfl
  | succ n => unfold Tcb.segLoop; rw [h]

/-- What the idempotence needs of a TCB: it does not transmit at all, or its FIN is queued. -/
def Seggable (t : Tcb) : Prop := t.transmittable = false ∨ ∃ f, FinShape t f

theorem kSeg_idem (cfg : Cfg) (mss port : Nat) (hm : 1 ≤ mss) (t2 : Tcb) (h : Seggable t2) :
    kSeg cfg mss port (kSeg cfg mss port t2) = kSeg cfg mss port t2 := by
  by_cases hc : t2.segCandidate = true
  · rcases h with h | ⟨f, h⟩
    · unfold Tcb.segCandidate at hc
      rw [h] at hc
      simp at hc
    · have hdone := segLoop_done mss cfg.recvCap port hm (t2.sendBuf.length + 2) t2 f [] h (by omega)
      have e1 : kSeg cfg mss port t2 = (Tcb.segLoop mss cfg.recvCap port (t2.sendBuf.length + 2) t2 []).1 := by
        unfold kSeg; rw [if_pos hc]
      rw [e1]
      generalize (Tcb.segLoop mss cfg.recvCap port (t2.sendBuf.length + 2) t2 []).1 = r at hdone
      unfold kSeg
      split
      · rw [segLoop_stop mss cfg.recvCap port r hdone]
      · rfl
  · have e1 : kSeg cfg mss port t2 = t2 := by unfold kSeg; rw [if_neg hc]
    rw [e1, e1]

theorem seggable_of_closed {t : Tcb} (h : t.state = .closed) : Seggable t := by
  left; unfold Tcb.transmittable; rw [h]

theorem seggable_kSweep (cfg : Cfg) (t : Tcb) (h : Seggable t) : Seggable (kSweep cfg t) := by
  unfold kSweep
  split
  · split
    · exact seggable_of_closed (abortedTcb_closed _ _ _)
    · rename_i hab
      rcases h with h | ⟨f, h⟩
      · left
        unfold Tcb.transmittable at h ⊢
        rw [retxTick_state]
        exact h
      · by_cases htr : t.transmittable = true
        · obtain ⟨_, hhs, _⟩ := transmittable_facts htr
          obtain ⟨c1, c2, c3⟩ := retxTick_cases cfg.retxThreshold cfg.retxMax t hhs
          by_cases h1 : t.egressSinceAck + 1 < cfg.retxThreshold
          · rw [c1 h1]
            exact Or.inr ⟨f, h.congr rfl rfl rfl rfl⟩
          · by_cases h2 : t.retxAttempts < cfg.retxMax
            · rw [c3 h1 h2]
              refine Or.inr ⟨0, ⟨h.una, h.len, ?_, Nat.zero_le _, h.fin⟩⟩
              show t.sndUna = wadd t.sndUna 0
              rw [wadd_zero _ h.una]
            · exact absurd (c2 h1 (by omega)) hab
        · left
          unfold Tcb.transmittable at htr ⊢
          rw [retxTick_state]
          simpa using htr
  · exact h

theorem seggable_kPersist (cfg : Cfg) (t : Tcb) (h : Seggable t) : Seggable (kPersist cfg t) := by
  unfold kPersist
  split
  · split
    · rcases h with h | ⟨f, h⟩
      · exact Or.inl h
      · exact Or.inr ⟨f, h.congr rfl rfl rfl rfl⟩
    · split
      · exact seggable_of_closed (abortedTcb_closed _ _ _)
      · rcases h with h | ⟨f, h⟩
        · exact Or.inl h
        · exact Or.inr ⟨f, h.congr rfl rfl rfl rfl⟩
  · exact h

theorem kRound_idem (cfg : Cfg) (mss port : Nat) (hm : 1 ≤ mss) (t : Tcb) (h : Seggable t) :
    kSeg cfg mss port (kRound cfg mss port t) = kRound cfg mss port t :=
  kSeg_idem cfg mss port hm _ (seggable_kPersist cfg _ (seggable_kSweep cfg t h))

/-! ## No loop-back traffic: every peer of the host's sockets is on another host -/

def loc (A : List Ip) (ip : Ip) : Bool := ip.isLoopback || A.contains ip

/-- Nothing queued and nothing any socket of this host can emit is addressed to the host itself. -/
structure Remote (A : List Ip) (k : Kernel) : Prop where
  addr : k.addresses = A
  out : ∀ p ∈ k.outbound, loc A p.dst = false
  peers : ∀ e ∈ k.sockets, ∀ t, e.2.tcb = some t → loc A t.peer.ip = false

namespace Remote

variable {A : List Ip} {k : Kernel}

theorem peer_of (h : Remote A k) {a : Nat} {s : Socket} {t : Tcb} (hs : k.getSock a = some s) (ht : s.tcb = some t) :
    loc A t.peer.ip = false :=
  h.peers (a, s) (mem_of_lookup _ _ _ hs) t ht

theorem setSock (h : Remote A k) (a : Nat) (s' : Socket) (hp : ∀ t', s'.tcb = some t' → loc A t'.peer.ip = false) :
    Remote A (k.setSock a s') := by
  refine ⟨h.addr, h.out, ?_⟩
  intro e he t ht
  unfold Kernel.setSock at he
  dsimp only at he
  obtain ⟨e0, he0, rfl⟩ := List.mem_map.mp he
  split at ht
  · exact hp t ht
  · exact h.peers e0 he0 t ht

theorem emit (h : Remote A k) (l r : SockAddr) (sg : Seg) (hr : loc A r.ip = false) : Remote A (k.emit l r sg) := by
  refine ⟨h.addr, ?_, h.peers⟩
  intro p hp
  unfold Kernel.emit at hp
  dsimp only at hp
  rcases List.mem_append.mp hp with hp | hp
  · exact h.out p hp
  · rw [List.mem_singleton.mp hp]; exact hr

theorem remove (h : Remote A k) (a : Nat) : Remote A (k.remove a) := by
  refine ⟨h.addr, h.out, ?_⟩
  intro e he t ht
  unfold Kernel.remove at he
  dsimp only at he
  exact h.peers e (List.mem_filter.mp he).1 t ht

theorem abortWith (cfg : Cfg) (h : Remote A k) (a : Nat) (b : Bool) : Remote A (Kernel.abortWith cfg k a b) := by
  unfold Kernel.abortWith
  split
  · exact h
  · rename_i s hs
    split
    · exact h
    · rename_i t ht
      have hp := h.peer_of hs ht
      split
      · exact h.setSock _ _ (fun t' e => by cases e; exact hp)
      · exact h.setSock _ _ (fun t' e => by cases e; exact hp)

theorem abortOrReap (cfg : Cfg) (h : Remote A k) (a : Nat) (b : Bool) : Remote A (Kernel.abortOrReap cfg k a b) := by
  have key : ∀ c : Bool, Remote A (if c = true then k.remove a else Kernel.abortWith cfg k a b) := by
    intro c
    cases c
    · exact h.abortWith cfg a b
    · exact h.remove a
  unfold Kernel.abortOrReap
  exact key _

theorem retxTick_peer (x y : Nat) (t : Tcb) : (t.retxTick x y).1.peer = t.peer := by
  unfold Tcb.retxTick
  dsimp only
  split
  · rfl
  · split
    · rfl
    · split <;> rfl

theorem retxPass1Step (cfg : Cfg) (acc : Kernel × List Nat × List Nat) (a : Nat) (h : Remote A acc.1) :
    Remote A (Kernel.retxPass1Step cfg acc a).1 := by
  have hset : ∀ t, acc.1.getTcb a = some t → Remote A (acc.1.setTcb a (t.retxTick cfg.retxThreshold cfg.retxMax).1) := by
    intro t ht
    unfold Kernel.getTcb at ht
    unfold Kernel.setTcb
    cases hs : acc.1.getSock a with
    | none => exact h
    | some s =>
      rw [hs] at ht
      dsimp only
      refine h.setSock _ _ (fun t' e => ?_)
      cases e
      rw [retxTick_peer]
      exact h.peer_of hs ht
  unfold Kernel.retxPass1Step
  split
  · exact h
  · rename_i t ht
    dsimp only
    split <;> exact hset t ht

theorem emitHandshake (cfg : Cfg) (h : Remote A k) (a : Nat) : Remote A (k.emitHandshake cfg a) := by
  unfold Kernel.emitHandshake
  split
  · exact h
  · rename_i s hs
    split
    · exact h
    · rename_i t ht
      exact h.emit _ _ _ (h.peer_of hs ht)

theorem persistProbe (cfg : Cfg) (h : Remote A k) (a : Nat) : Remote A (k.persistProbe cfg a) := by
  unfold Kernel.persistProbe
  split
  · exact h
  · rename_i s hs
    split
    · exact h
    · rename_i t ht
      have hp := h.peer_of hs ht
      dsimp only
      split
      · exact h.setSock _ _ (fun t' e => by cases e; exact hp)
      · split
        · exact (h.setSock _ _ (fun t' e => by cases e; exact hp)).abortWith cfg a false
        · exact (h.setSock _ _ (fun t' e => by cases e; exact hp)).emit _ _ _ hp

theorem checkRetx0 (cfg : Cfg) (h : Remote A k) : Remote A (Kernel.checkRetx0 cfg k) := by
  unfold Kernel.checkRetx0
  dsimp only
  apply foldl_inv (P := Remote A)
  · apply foldl_inv (P := Remote A)
    · exact foldl_inv (P := fun acc : Kernel × List Nat × List Nat => Remote A acc.1) _ _ _ h
        (fun b a hb => retxPass1Step cfg b a hb)
    · exact fun b a hb => hb.emitHandshake cfg a
  · exact fun b a hb => hb.abortOrReap cfg a false

theorem checkRetx (cfg : Cfg) (h : Remote A k) : Remote A (Kernel.checkRetx cfg k) := by
  unfold Kernel.checkRetx
  dsimp only
  split
  · exact foldl_inv (P := Remote A) _ _ _ (h.checkRetx0 cfg) (fun b a hb => hb.persistProbe cfg a)
  · exact h.checkRetx0 cfg

theorem segmentOne (cfg : Cfg) (h : Remote A k) (a : Nat) : Remote A (Kernel.segmentOne cfg k a) := by
  unfold Kernel.segmentOne
  split
  · exact h
  · rename_i s hs
    split
    · exact h
    · rename_i t ht
      have hp := h.peer_of hs ht
      dsimp only
      have h1 := h.setSock a { s with tcb := some (Tcb.segLoop (mssFor cfg (boundEndpoint s).ip) cfg.recvCap
        (boundEndpoint s).port (t.sendBuf.length + 2) t []).1 } (fun t' e => by
          cases e
          rw [Tcb.segLoop_eq]
          exact hp)
      refine ⟨h1.addr, ?_, h1.peers⟩
      intro p hpm
      rcases List.mem_append.mp hpm with hpm | hpm
      · exact h1.out p hpm
      · obtain ⟨sg, _, rfl⟩ := List.mem_map.mp hpm
        exact hp

theorem segmentAll (cfg : Cfg) (h : Remote A k) : Remote A (Kernel.segmentAll cfg k) := by
  unfold Kernel.segmentAll
  dsimp only
  exact foldl_inv (P := Remote A) _ _ _ h (fun b a hb => hb.segmentOne cfg a)

end Remote

/-- With nothing addressed to the host itself the drain hands every packet to the wire. -/
theorem drain_remote (cfg : Cfg) :
    ∀ (l : List Packet) (acc : Kernel × List Packet), (∀ p ∈ l, acc.1.isLocal p.dst = false) →
      l.foldl (drainStep cfg) acc = (acc.1, acc.2 ++ l) := by
  intro l
  induction l with
  | nil => intro acc _; simp
  | cons p l ih =>
    intro acc h
    rw [List.foldl_cons]
    have hp : drainStep cfg acc p = (acc.1, acc.2 ++ [p]) := by
      unfold drainStep
      rw [h p List.mem_cons_self]
      rfl
    rw [hp, ih (acc.1, acc.2 ++ [p]) (fun q hq => h q (List.mem_cons_of_mem _ hq))]
    simp

/-! ## The pass on one socket of a full table -/

/-- `check_retx` then `segment_all` on one application-closed socket past its handshake, any table. -/
theorem segmented_socket (cfg : Cfg) (hot : cfg.fixOrphanTimeout = false) (k : Kernel) (hk : AccInv k) (fd : Nat)
    (s : Socket) (t : Tcb) (hs : k.getSock fd = some s) (ht : s.tcb = some t) (hcl : s.fdClosed = true)
    (hh : t.isHandshake = false) :
    (segmentAll cfg (checkRetx cfg k)).getSock fd =
      some { s with tcb := some (kRound cfg (mssFor cfg (boundEndpoint s).ip) (boundEndpoint s).port t) } := by
  have hk1 := AccInv.checkRetx0 cfg hk
  have h1 : (checkRetx0 cfg k).getSock fd = some { s with tcb := some (kSweep cfg t) } := by
    rw [checkRetx0_socket cfg k hk.keys fd s t hs ht hh]
    have : retxCandSock cfg s t = (t.retxCandidate || (cfg.fixFinWait2Timeout && t.state == .finWait2)) := by
      unfold retxCandSock
      rw [hot, hcl]
      simp
    rw [this]
    rfl
  have hk2 := AccInv.checkRetx cfg hk
  have h2 : (checkRetx cfg k).getSock fd = some { s with tcb := some (kPersist cfg (kSweep cfg t)) } := by
    unfold checkRetx kPersist
    dsimp only
    cases hpp : cfg.fixPersistProbe
    · simp only [Bool.false_eq_true, if_false, Bool.false_and]
      exact h1
    · simp only [if_true, Bool.true_and]
      rw [persistSweep_socket cfg _ hk1.keys fd _ (kSweep cfg t) h1 rfl]
      by_cases hc : (kSweep cfg t).persistCandidate = true
      · rw [if_pos hc, if_pos hc]
        unfold persistSock
        dsimp only
        split
        · rfl
        · split <;> rfl
      · rw [if_neg hc, if_neg hc]
  rw [segmentAll_socket cfg _ hk2.keys fd _ (kPersist cfg (kSweep cfg t)) h2 rfl]
  unfold kRound kSeg
  split
  · rfl
  · rfl

/-- `reap_closed` on top of a kernel in which the socket carries the pass's TCB. -/
theorem reap_finish (cfg : Cfg) (kf : Kernel) (hkf : AccInv kf) (fd : Nat) (s : Socket) (t : Tcb)
    (hcl : s.fdClosed = true) (hdead : t.reset = true → t.state = .closed)
    (h3 : kf.getSock fd =
      some { s with tcb := some (kRound cfg (mssFor cfg (boundEndpoint s).ip) (boundEndpoint s).port t) }) :
    kf.reapClosed.getSock fd =
      (orphanRound cfg (mssFor cfg (boundEndpoint s).ip) t).map fun t' => { s with tcb := some t' } := by
  rw [orphanRound_eq_kRound cfg (mssFor cfg (boundEndpoint s).ip) (boundEndpoint s).port t hdead]
  rw [reapClosed_socket _ hkf.keys fd _ h3]
  have hv : reapVictim { s with tcb := some (kRound cfg (mssFor cfg (boundEndpoint s).ip) (boundEndpoint s).port t) } =
      (kRound cfg (mssFor cfg (boundEndpoint s).ip) (boundEndpoint s).port t).dead := by
    unfold reapVictim Tcb.dead
    simp only [hcl, Bool.true_and]
  rw [hv]
  split <;> rfl

/-- **Frame theorem, one pass.**  `check_retx`, `segment_all` and `reap_closed`, run over a table with
    any number of other sockets (unique fds: `AccInv`, an invariant of all histories), do to an
    application-closed socket past its handshake exactly what `orphanRound` says and leave the rest of
    its entry alone: the socket is gone iff `orphanRound` is `none`, otherwise it carries
    `orphanRound`'s TCB. -/
theorem pass_socket (cfg : Cfg) (hot : cfg.fixOrphanTimeout = false) (k : Kernel) (hk : AccInv k) (fd : Nat)
    (s : Socket) (t : Tcb) (hs : k.getSock fd = some s) (ht : s.tcb = some t) (hcl : s.fdClosed = true)
    (hh : t.isHandshake = false) (hdead : t.reset = true → t.state = .closed) :
    (reapClosed (segmentAll cfg (checkRetx cfg k))).getSock fd =
      (orphanRound cfg (mssFor cfg (boundEndpoint s).ip) t).map fun t' => { s with tcb := some t' } :=
  reap_finish cfg _ (AccInv.segmentAll cfg (AccInv.checkRetx cfg hk)) fd s t hcl hdead
    (segmented_socket cfg hot k hk fd s t hs ht hcl hh)

/-- The later iterations of `egress`'s loop leave a socket alone whose re-segmentation is the identity,
    as long as nothing is looped back into the host. -/
theorem egressLoop_socket (cfg : Cfg) (A : List Ip) (fd : Nat) (s3 : Socket) (t3 : Tcb) (ht3 : s3.tcb = some t3)
    (hid : t3.segCandidate = true → segSock cfg (some s3) = some s3) :
    ∀ (fuel : Nat) (k : Kernel) (out : List Packet), AccInv k → Remote A k → k.getSock fd = some s3 →
      (egressLoop cfg fuel k out).1.getSock fd = some s3 := by
  intro fuel
  induction fuel with
  | zero => intro k out _ _ h; exact h
  | succ n ih =>
    intro k out hk hr hs
    have hk1 := AccInv.segmentAll cfg hk
    have hr1 := hr.segmentAll cfg
    have g1 : (segmentAll cfg k).getSock fd = some s3 := by
      rw [segmentAll_socket cfg k hk.keys fd s3 t3 hs ht3]
      by_cases hc : t3.segCandidate = true
      · rw [if_pos hc]; exact hid hc
      · rw [if_neg hc]
    unfold egressLoop
    dsimp only
    split
    · exact g1
    · rw [drain_remote cfg _ _ (fun p hp => by
        show loc (segmentAll cfg k).addresses p.dst = false
        rw [hr1.addr]; exact hr1.out p hp)]
      exact ih _ _ (hk1.congr rfl rfl rfl rfl) ⟨hr1.addr, (fun p hp => by cases hp), hr1.peers⟩ g1

/-- **Frame theorem, `Kernel.egress`.**  On a host none of whose sockets talks to the host itself
    (`Remote`: no loop-back connections), one `Kernel.egress` over a table with any number of other
    sockets does to an application-closed socket past its handshake (FIN queued: `Seggable`) exactly
    what `orphanRound` says: gone iff `none`, otherwise `orphanRound`'s TCB in an otherwise unchanged
    entry.  What the socket needs of the rest of the table: nothing. -/
theorem egress_socket (cfg : Cfg) (hot : cfg.fixOrphanTimeout = false) (k : Kernel) (hk : AccInv k)
    (hrem : Remote k.addresses k) (fd : Nat) (s : Socket) (t : Tcb) (hs : k.getSock fd = some s)
    (ht : s.tcb = some t) (hcl : s.fdClosed = true) (hh : t.isHandshake = false)
    (hdead : t.reset = true → t.state = .closed) (hm : 1 ≤ mssFor cfg (boundEndpoint s).ip) (hsg : Seggable t) :
    (k.egress cfg).1.getSock fd =
      (orphanRound cfg (mssFor cfg (boundEndpoint s).ip) t).map fun t' => { s with tcb := some t' } := by
  have hk0 := AccInv.checkRetx cfg hk
  have hr0 := hrem.checkRetx cfg
  have hk1 := AccInv.segmentAll cfg hk0
  have hr1 := hr0.segmentAll cfg
  have g1 := segmented_socket cfg hot k hk fd s t hs ht hcl hh
  have hidem := kRound_idem cfg (mssFor cfg (boundEndpoint s).ip) (boundEndpoint s).port hm t hsg
  unfold egress
  dsimp only
  refine reap_finish cfg _ (AccInv.egressLoop cfg _ _ _ hk0) fd s t hcl hdead ?_
  obtain ⟨n, hn⟩ : ∃ n, egressFuel (checkRetx cfg k) = n + 1 := ⟨egressFuel (checkRetx cfg k) - 1, by unfold egressFuel; omega⟩
  rw [hn]
  unfold egressLoop
  dsimp only
  split
  · exact g1
  · rw [drain_remote cfg _ _ (fun p hp => by
      show loc (segmentAll cfg (checkRetx cfg k)).addresses p.dst = false
      rw [hr1.addr]; exact hr1.out p hp)]
    refine egressLoop_socket cfg k.addresses fd _ _ rfl ?_ n _ _ (hk1.congr rfl rfl rfl rfl)
      ⟨hr1.addr, (fun p hp => by cases hp), hr1.peers⟩ g1
    intro hc
    unfold segSock
    dsimp only
    unfold kSeg at hidem
    rw [if_pos hc] at hidem
    show some { s with tcb := some (Tcb.segLoop (mssFor cfg (boundEndpoint s).ip) cfg.recvCap (boundEndpoint s).port
      ((kRound cfg (mssFor cfg (boundEndpoint s).ip) (boundEndpoint s).port t).sendBuf.length + 2)
      (kRound cfg (mssFor cfg (boundEndpoint s).ip) (boundEndpoint s).port t) []).1 } = _
    rw [hidem]

/-! ## Rounds of `Kernel.egress` -/

theorem Remote.egressLoop (cfg : Cfg) {A : List Ip} :
    ∀ (fuel : Nat) (k : Kernel) (out : List Packet), Remote A k → Remote A (Kernel.egressLoop cfg fuel k out).1 := by
  intro fuel
  induction fuel with
  | zero => intro k out h; exact h
  | succ n ih =>
    intro k out h
    have h1 := h.segmentAll cfg
    unfold Kernel.egressLoop
    dsimp only
    split
    · exact h1
    · rw [drain_remote cfg _ _ (fun p hp => by
        show loc (Kernel.segmentAll cfg k).addresses p.dst = false
        rw [h1.addr]; exact h1.out p hp)]
      exact ih _ _ ⟨h1.addr, (fun p hp => by cases hp), h1.peers⟩

theorem Remote.egress (cfg : Cfg) {A : List Ip} {k : Kernel} (h : Remote A k) : Remote A (k.egress cfg).1 := by
  unfold Kernel.egress Kernel.reapClosed
  dsimp only
  exact foldl_inv (P := Remote A) _ _ _ (Remote.egressLoop cfg _ _ _ (h.checkRetx cfg)) (fun b a hb => hb.remove a)

/-- `n` rounds of `Kernel.egress`, the packets handed to the wire and lost. -/
def egressN (cfg : Cfg) : Nat → Kernel → Kernel
  | 0, k => k
  | n + 1, k => egressN cfg n (k.egress cfg).1

/-- What a round needs of the TCB, and keeps. -/
structure Good (t : Tcb) : Prop where
  hs : t.isHandshake = false
  rs : t.reset = true → t.state = .closed
  sg : Seggable t

theorem kSeg_eq (cfg : Cfg) (mss port : Nat) (t : Tcb) :
    kSeg cfg mss port t = { t with sndNxt := (kSeg cfg mss port t).sndNxt, sndMax := (kSeg cfg mss port t).sndMax } := by
  unfold kSeg
  split
  · exact Tcb.segLoop_eq _ _ _ _ _ _
  · rfl

theorem seggable_kSeg (cfg : Cfg) (mss port : Nat) (hm : 1 ≤ mss) (t : Tcb) (h : Seggable t) :
    Seggable (kSeg cfg mss port t) := by
  rcases h with h | ⟨f, h⟩
  · left
    rw [kSeg_eq]
    exact h
  · unfold kSeg
    split
    · obtain ⟨f3, _, h3, _, _⟩ := segLoop_shape mss cfg.recvCap port hm (t.sendBuf.length + 2) t f [] h
      exact Or.inr ⟨f3, h3⟩
    · exact Or.inr ⟨f, h⟩

theorem state_kSweep (cfg : Cfg) (t : Tcb) : (kSweep cfg t).state = t.state ∨ (kSweep cfg t).state = .closed := by
  unfold kSweep
  split
  · split
    · exact Or.inr (abortedTcb_closed _ _ _)
    · exact Or.inl (retxTick_state _ _ _)
  · exact Or.inl rfl

theorem state_kPersist (cfg : Cfg) (t : Tcb) : (kPersist cfg t).state = t.state ∨ (kPersist cfg t).state = .closed := by
  unfold kPersist
  split
  · split
    · exact Or.inl rfl
    · split
      · exact Or.inr (abortedTcb_closed _ _ _)
      · exact Or.inl rfl
  · exact Or.inl rfl

theorem state_kRound (cfg : Cfg) (mss port : Nat) (t : Tcb) :
    (kRound cfg mss port t).state = t.state ∨ (kRound cfg mss port t).state = .closed := by
  unfold kRound
  have e : (kSeg cfg mss port (kPersist cfg (kSweep cfg t))).state = (kPersist cfg (kSweep cfg t)).state := by
    rw [kSeg_eq]
  rw [e]
  rcases state_kPersist cfg (kSweep cfg t) with h | h
  · rw [h]; exact state_kSweep cfg t
  · exact Or.inr h

theorem good_round (cfg : Cfg) (mss : Nat) (hm : 1 ≤ mss) {t t' : Tcb} (h : Good t)
    (hr : orphanRound cfg mss t = some t') : Good t' := by
  rw [orphanRound_eq_kRound cfg mss 0 t h.rs] at hr
  split at hr
  · cases hr
  · rename_i hd
    cases hr
    have hnd : (kRound cfg mss 0 t).dead = false := by simpa using hd
    unfold Tcb.dead at hnd
    have hst : ((kRound cfg mss 0 t).state == TcpState.closed) = false := by
      cases h1 : (kRound cfg mss 0 t).state == TcpState.closed
      · rfl
      · rw [h1] at hnd; simp at hnd
    have hrs : (kRound cfg mss 0 t).reset = false := by
      cases h1 : (kRound cfg mss 0 t).reset
      · rfl
      · rw [h1] at hnd; simp at hnd
    refine ⟨?_, (fun hx => by rw [hrs] at hx; cases hx), ?_⟩
    · rcases state_kRound cfg mss 0 t with e | e
      · have := h.hs
        unfold Tcb.isHandshake at this ⊢
        rw [e]; exact this
      · rw [e] at hst; simp at hst
    · exact seggable_kSeg cfg mss 0 hm _ (seggable_kPersist cfg _ (seggable_kSweep cfg t h.sg))

/-- **Rounds.**  On a host without loop-back connections, whatever else its table holds: if `orphanRounds`
    removes the TCB within `n` rounds, `n` rounds of `Kernel.egress` remove the application-closed socket. -/
theorem egressN_tracks (cfg : Cfg) (hot : cfg.fixOrphanTimeout = false) (A : List Ip) (fd : Nat) (mss : Nat)
    (hm : 1 ≤ mss) :
    ∀ (n : Nat) (k : Kernel) (s : Socket) (t : Tcb), AccInv k → Remote A k → k.addresses = A →
      k.getSock fd = some s → s.tcb = some t → s.fdClosed = true → mssFor cfg (boundEndpoint s).ip = mss →
      Good t → orphanRounds cfg mss n t = none →
      ∃ m, m ≤ n ∧ (egressN cfg m k).getSock fd = none := by
  intro n
  induction n with
  | zero => intro k s t _ _ _ _ _ _ _ _ h; cases h
  | succ n ih =>
    intro k s t hk hr ha hs ht hcl hmss hg hnone
    have hstep := egress_socket cfg hot k hk (ha ▸ hr) fd s t hs ht hcl hg.hs hg.rs (by rw [hmss]; exact hm) hg.sg
    rw [hmss] at hstep
    rw [orphanRounds_succ] at hnone
    cases hor : orphanRound cfg mss t with
    | none =>
      rw [hor] at hstep
      exact ⟨1, by omega, hstep⟩
    | some t' =>
      rw [hor] at hstep hnone
      dsimp only at hnone
      have hk' := AccInv.egress cfg hk
      have hr' := hr.egress cfg
      obtain ⟨m, hmn, hm'⟩ := ih (k.egress cfg).1 { s with tcb := some t' } t' hk' hr' hr'.addr hstep rfl hcl hmss
        (good_round cfg mss hm hg hor) hnone
      exact ⟨m + 1, by omega, hm'⟩

/-- **C13 reclamation, kernel level, transmitting states.**  A host without loop-back connections, any
    table; an application-closed socket in a transmitting state with its FIN queued and its counters in
    range; the peer silent.  Within `2 · thr · (max + 1) + 2` rounds of `Kernel.egress` the socket is out of
    the table -- whatever its send window, whatever is in flight, whatever the other sockets do. -/
theorem kernel_orphan_reclaimed (cfg : Cfg) (hot : cfg.fixOrphanTimeout = false) (hpp : cfg.fixPersistProbe = true)
    (hpb : cfg.fixPersistBudget = true) (k : Kernel) (hk : AccInv k) (hrem : Remote k.addresses k) (fd : Nat)
    (s : Socket) (t : Tcb) (hs : k.getSock fd = some s) (ht : s.tcb = some t) (hcl : s.fdClosed = true)
    (hm : 1 ≤ mssFor cfg (boundEndpoint s).ip) (f : Nat) (htr : t.transmittable = true) (hsh : FinShape t f)
    (hrs : t.reset = false)
    (hre : t.egressSinceAck < cfg.retxThreshold) (hra : t.retxAttempts ≤ cfg.retxMax)
    (hpe : t.persistTicks < cfg.retxThreshold) (hpa : t.persistProbes ≤ cfg.retxMax) :
    ∃ m, m ≤ 2 * (cfg.retxThreshold * (cfg.retxMax + 1)) + 2 ∧ (egressN cfg m k).getSock fd = none :=
  egressN_tracks cfg hot k.addresses fd _ hm _ k s t hk hrem rfl hs ht hcl rfl
    ⟨(transmittable_facts htr).2.1, (fun h => by rw [hrs] at h; cases h), Or.inr ⟨f, hsh⟩⟩
    (blackhole_orphan_reclaimed cfg _ hm hpp hpb t f htr hsh hre hra hpe hpa)

/-- **C13 reclamation, kernel level, `FIN_WAIT2`.** -/
theorem kernel_finWait2_reclaimed (cfg : Cfg) (hot : cfg.fixOrphanTimeout = false) (hfw : cfg.fixFinWait2Timeout = true)
    (k : Kernel) (hk : AccInv k) (hrem : Remote k.addresses k) (fd : Nat)
    (s : Socket) (t : Tcb) (hs : k.getSock fd = some s) (ht : s.tcb = some t) (hcl : s.fdClosed = true)
    (hm : 1 ≤ mssFor cfg (boundEndpoint s).ip) (hst : t.state = .finWait2) (hrs : t.reset = false)
    (hre : t.egressSinceAck < cfg.retxThreshold) (hra : t.retxAttempts ≤ cfg.retxMax) :
    ∃ m, m ≤ cfg.retxThreshold * (cfg.retxMax + 1) ∧ (egressN cfg m k).getSock fd = none :=
  egressN_tracks cfg hot k.addresses fd _ hm _ k s t hk hrem rfl hs ht hcl rfl
    ⟨(by unfold Tcb.isHandshake; rw [hst]; rfl), (fun h => by rw [hrs] at h; cases h),
      Or.inl (by unfold Tcb.transmittable; rw [hst])⟩
    (blackhole_finWait2_reclaimed cfg _ hfw t hst hre hra)

/-! ## Gone stays gone -/

theorem foldl_none {g : Kernel → Nat → Kernel} (hg : LocalAct g) (fd : Nat)
    (hself : ∀ k, k.getSock fd = none → (g k fd).getSock fd = none) :
    ∀ (l : List Nat) (k : Kernel), k.getSock fd = none → (l.foldl g k).getSock fd = none := by
  intro l
  induction l with
  | nil => intro k h; exact h
  | cons a l ih =>
    intro k h
    rw [List.foldl_cons]
    apply ih
    by_cases ha : a = fd
    · subst ha; exact hself k h
    · rw [hg k a fd ha]; exact h

theorem retxPass1Step_none (cfg : Cfg) (fd : Nat) (acc : Kernel × List Nat × List Nat) (a : Nat)
    (h : acc.1.getSock fd = none) : (retxPass1Step cfg acc a).1.getSock fd = none := by
  by_cases ha : a = fd
  · subst ha
    unfold retxPass1Step getTcb
    rw [h]
    exact h
  · rw [(retxPass1Step_ne cfg acc a fd ha).1]; exact h

theorem checkRetx_none (cfg : Cfg) (k : Kernel) (fd : Nat) (h : k.getSock fd = none) :
    (checkRetx cfg k).getSock fd = none := by
  have h0 : (checkRetx0 cfg k).getSock fd = none := by
    unfold checkRetx0
    dsimp only
    apply foldl_none (abortOrReap_local cfg false) fd
      (fun k hk => by rw [abortOrReap_self, hk]; unfold abortOrReapSock abortedSock; simp)
    rw [foldl_emitHandshake_getSock]
    exact foldl_inv (P := fun acc : Kernel × List Nat × List Nat => acc.1.getSock fd = none) _ _ _ h
      (fun b a hb => retxPass1Step_none cfg fd b a hb)
  unfold checkRetx
  dsimp only
  split
  · exact foldl_none (persistProbe_local cfg) fd
      (fun k hk => by rw [persistProbe_self, hk]; rfl) _ _ h0
  · exact h0

theorem segmentAll_none (cfg : Cfg) (k : Kernel) (fd : Nat) (h : k.getSock fd = none) :
    (segmentAll cfg k).getSock fd = none := by
  rw [segmentAll_eq]
  exact foldl_none (segmentOne_local cfg) fd (fun k hk => by rw [segmentOne_self, hk]; rfl) _ _ h

theorem egressLoop_none (cfg : Cfg) (A : List Ip) (fd : Nat) :
    ∀ (fuel : Nat) (k : Kernel) (out : List Packet), Remote A k → k.getSock fd = none →
      (egressLoop cfg fuel k out).1.getSock fd = none := by
  intro fuel
  induction fuel with
  | zero => intro k out _ h; exact h
  | succ n ih =>
    intro k out hr h
    have hr1 := hr.segmentAll cfg
    have g1 := segmentAll_none cfg k fd h
    unfold egressLoop
    dsimp only
    split
    · exact g1
    · rw [drain_remote cfg _ _ (fun p hp => by
        show loc (segmentAll cfg k).addresses p.dst = false
        rw [hr1.addr]; exact hr1.out p hp)]
      exact ih _ _ ⟨hr1.addr, (fun p hp => by cases hp), hr1.peers⟩ g1

/-- On a host without loop-back connections `egress` creates no socket: an fd that is out of the table
    stays out. -/
theorem egress_none (cfg : Cfg) (A : List Ip) (k : Kernel) (hr : Remote A k) (fd : Nat) (h : k.getSock fd = none) :
    (k.egress cfg).1.getSock fd = none := by
  unfold egress reapClosed
  dsimp only
  exact foldl_none remove_local fd (fun k _ => getSock_remove_self k fd) _ _
    (egressLoop_none cfg A fd _ _ _ (hr.checkRetx cfg) (checkRetx_none cfg k fd h))

theorem egressN_none (cfg : Cfg) (A : List Ip) (fd : Nat) :
    ∀ (n : Nat) (k : Kernel), Remote A k → k.getSock fd = none → (egressN cfg n k).getSock fd = none := by
  intro n
  induction n with
  | zero => intro k _ h; exact h
  | succ n ih => intro k hr h; exact ih _ (hr.egress cfg) (egress_none cfg A k hr fd h)

theorem egressN_add (cfg : Cfg) : ∀ (m n : Nat) (k : Kernel), egressN cfg (m + n) k = egressN cfg n (egressN cfg m k) := by
  intro m
  induction m with
  | zero => intro n k; rw [Nat.zero_add]; rfl
  | succ m ih =>
    intro n k
    rw [Nat.add_right_comm]
    exact ih n _

theorem Remote.egressN (cfg : Cfg) {A : List Ip} : ∀ (n : Nat) (k : Kernel), Remote A k → Remote A (Kernel.egressN cfg n k) := by
  intro n
  induction n with
  | zero => intro k h; exact h
  | succ n ih => intro k h; exact ih _ (h.egress cfg)

/-- Removed within `m ≤ n` rounds and never back: out of the table after any `n' ≥ n` rounds. -/
theorem gone_after (cfg : Cfg) (A : List Ip) (fd : Nat) (k : Kernel) (hr : Remote A k) (n : Nat)
    (h : ∃ m, m ≤ n ∧ (egressN cfg m k).getSock fd = none) (n' : Nat) (hn : n ≤ n') :
    (egressN cfg n' k).getSock fd = none := by
  obtain ⟨m, hm, hg⟩ := h
  have : n' = m + (n' - m) := by omega
  rw [this, egressN_add]
  exact egressN_none cfg A fd _ _ (Remote.egressN cfg m k hr) hg

end Kernel
end TV.NetTcp
