/-
  C16 at the system level: for every op sequence the harness can issue, the state invariant holds and
  every observation the model produces passes the C16 observation checks of Spec.lean.
-/
import TvNetTcp.Proofs.KernelCaps

namespace TV.NetTcp

/-- System invariant of C16. -/
structure SInv (s : Sys) : Prop where
  kern : ∀ k ∈ s.kernels, KInv s.cfg k
  wire : ∀ e ∈ s.wire, Spec.pktSizeOk s.cfg e.2 = true

/-- Every observation passes the per-observation checks of C16. -/
def ObsOk (cfg : Cfg) (obs : List Obs) : Prop :=
  ∀ o ∈ obs, Spec.obsCapsOk cfg o = true ∧ Spec.obsSizeOk cfg o = true

namespace SInv
open Sys

theorem init (cfg : Cfg) (n : Nat) : SInv (Sys.init cfg n) := by
  refine ⟨?_, by intro e he; simp [Sys.init] at he⟩
  intro k hk
  simp only [Sys.init, List.mem_map] at hk
  obtain ⟨h, _, rfl⟩ := hk
  exact KInv.init _ _

theorem kernel {s : Sys} (hs : SInv s) (h : Nat) : KInv s.cfg (s.kernel h) := by
  unfold Sys.kernel
  rw [List.getD_eq_getElem?_getD]
  cases hk : s.kernels[h]? with
  | none => simpa using KInv.init s.cfg []
  | some k => simpa using hs.kern k (List.mem_of_getElem? hk)

theorem setKernel {s : Sys} (hs : SInv s) (h : Nat) {k : Kernel} (hk : KInv s.cfg k) : SInv (s.setKernel h k) := by
  refine ⟨?_, hs.wire⟩
  intro k' hk'
  simp only [Sys.setKernel] at hk'
  rcases List.mem_or_eq_of_mem_set hk' with h1 | rfl
  · exact hs.kern k' h1
  · exact hk

/-- Changing only the handle tables keeps the invariant. -/
theorem congr {s s' : Sys} (hs : SInv s) (hc : s'.cfg = s.cfg) (hk : s'.kernels = s.kernels) (hw : s'.wire = s.wire) :
    SInv s' :=
  ⟨by rw [hk, hc]; exact hs.kern, by rw [hw, hc]; exact hs.wire⟩

theorem cfg_setKernel (s : Sys) (h : Nat) (k : Kernel) : (s.setKernel h k).cfg = s.cfg := rfl

end SInv

theorem obsOk_single {cfg : Cfg} {o : Obs} (h : Spec.obsCapsOk cfg o = true ∧ Spec.obsSizeOk cfg o = true) :
    ObsOk cfg [o] := by
  intro o' ho'
  simp only [List.mem_singleton] at ho'
  subst ho'; exact h

theorem netstat_ok {cfg : Cfg} {k : Kernel} (hk : KInv cfg k) (h : Nat) : ObsOk cfg (Sys.netstat h k) := by
  intro o ho
  simp only [Sys.netstat, List.mem_filterMap] at ho
  obtain ⟨e, he, hoe⟩ := ho
  split at hoe
  · simp at hoe
  · split at hoe
    · simp only [Option.some.injEq] at hoe
      subst hoe; simp [Spec.obsCapsOk, Spec.obsSizeOk]
    · split at hoe
      · rename_i t ht
        split at hoe
        · simp at hoe
        · simp only [Option.some.injEq] at hoe
          subst hoe
          have hc := hk.caps e he t ht
          simp [Spec.obsCapsOk, Spec.obsSizeOk, hc.1, hc.2]
      · split at hoe
        · simp only [Option.some.injEq] at hoe
          subst hoe; simp [Spec.obsCapsOk, Spec.obsSizeOk]
        · simp at hoe

theorem egressAll_inv {cfg : Cfg} (ks : List Kernel) (h : ∀ k ∈ ks, KInv cfg k) :
    (∀ k ∈ (Sys.egressAll cfg ks).1, KInv cfg k) ∧
      ∀ p ∈ (Sys.egressAll cfg ks).2, Spec.pktSizeOk cfg p = true := by
  induction ks with
  | nil => simp [Sys.egressAll]
  | cons k rest ih =>
    have hk := (h k (by simp)).egress
    have hr := ih (fun k' hk' => h k' (by simp [hk']))
    simp only [Sys.egressAll]
    constructor
    · intro k' hk'
      simp only [List.mem_cons] at hk'
      rcases hk' with rfl | hk'
      · exact hk.1
      · exact hr.1 k' hk'
    · intro p hp
      simp only [List.mem_append] at hp
      rcases hp with hp | hp
      · exact hk.2 p hp
      · exact hr.2 p hp

/-- Invariant of numbering the egressed packets. -/
def WireAcc (cfg : Cfg) (acc : List (Nat × Packet) × List Obs × Nat) : Prop :=
  (∀ e ∈ acc.1, Spec.pktSizeOk cfg e.2 = true) ∧ ObsOk cfg acc.2.1

theorem wireStep_inv {cfg : Cfg} (acc : List (Nat × Packet) × List Obs × Nat) (p : Packet)
    (h : WireAcc cfg acc) (hp : Spec.pktSizeOk cfg p = true) : WireAcc cfg (Sys.wireStep acc p) := by
  unfold Sys.wireStep
  have hobs : ObsOk cfg (acc.2.1 ++ [Obs.pkt acc.2.2 p]) := by
    intro o ho
    simp only [List.mem_append, List.mem_singleton] at ho
    rcases ho with ho | rfl
    · exact h.2 o ho
    · simp [Spec.obsCapsOk, Spec.obsSizeOk, hp]
  split
  · exact ⟨h.1, hobs⟩
  · refine ⟨?_, hobs⟩
    intro e he
    simp only [List.mem_append, List.mem_singleton] at he
    rcases he with he | rfl
    · exact h.1 e he
    · exact hp

end TV.NetTcp

namespace TV.NetTcp
open Sys

/-- Observations that are neither netstat rows nor packets pass trivially. -/
macro "obs_trivial" : tactic =>
  `(tactic| (intro o ho; simp only [List.mem_singleton, List.mem_cons, List.not_mem_nil, or_false] at ho;
             subst ho; simp [Spec.obsCapsOk, Spec.obsSizeOk]))

theorem settleConnect_inv (s : Sys) (cslot : Nat) (c : Connecting) (k : Kernel) (r : Res Unit)
    (hs : SInv s) (hk : KInv s.cfg k) :
    SInv (s.settleConnect cslot c k r).1 ∧ (s.settleConnect cslot c k r).1.cfg = s.cfg ∧
      ObsOk s.cfg (s.settleConnect cslot c k r).2 := by
  unfold Sys.settleConnect
  split
  · exact ⟨(hs.setKernel _ hk).congr rfl rfl rfl, rfl, by obs_trivial⟩
  · exact ⟨(hs.setKernel _ hk).congr rfl rfl rfl, rfl, by obs_trivial⟩
  · exact ⟨(hs.setKernel _ (hk.close _ _)).congr rfl rfl rfl, rfl, by obs_trivial⟩

theorem step_inv (s : Sys) (op : Op) (hs : SInv s) :
    SInv (s.step op).1 ∧ (s.step op).1.cfg = s.cfg ∧ ObsOk s.cfg (s.step op).2 := by
  cases op with
  | listen h lslot addr =>
    rw [Sys.step]
    try dsimp only
    have hb := (hs.kernel h).bind addr false
    split
    · rename_i k1 fd heq
      rw [heq] at hb
      exact ⟨(hs.setKernel _ (hb.listen _ _)).congr rfl rfl rfl, rfl, by obs_trivial⟩
    · rename_i k1 e heq
      rw [heq] at hb
      exact ⟨hs.setKernel _ hb, rfl, by obs_trivial⟩
    · rename_i k1 heq
      rw [heq] at hb
      exact ⟨hs.setKernel _ hb, rfl, by obs_trivial⟩
  | ldrop lslot =>
    rw [Sys.step]
    split
    · exact ⟨hs, rfl, by obs_trivial⟩
    · exact ⟨(hs.setKernel _ ((hs.kernel _).close _ _)).congr rfl rfl rfl, rfl, by obs_trivial⟩
  | connect h cslot sslot peer =>
    rw [Sys.step]
    try dsimp only
    exact settleConnect_inv s cslot _ _ _ hs (((hs.kernel h).openSock _ _).pollConnect _ _)
  | cpoll cslot sslot =>
    rw [Sys.step]
    split
    · exact ⟨hs, rfl, by obs_trivial⟩
    · dsimp only
      exact settleConnect_inv s cslot _ _ _ hs ((hs.kernel _).pollConnect _ _)
  | ccancel cslot =>
    rw [Sys.step]
    split
    · exact ⟨hs, rfl, by obs_trivial⟩
    · exact ⟨(hs.setKernel _ ((hs.kernel _).close _ _)).congr rfl rfl rfl, rfl, by obs_trivial⟩
  | accept lslot sslot =>
    rw [Sys.step]
    split
    · exact ⟨hs, rfl, by obs_trivial⟩
    · rename_i h fd _
      have hb := (hs.kernel h).pollAccept fd
      split
      · rename_i k1 child peer heq
        rw [heq] at hb
        exact ⟨(hs.setKernel _ hb).congr rfl rfl rfl, rfl, by obs_trivial⟩
      · rename_i k1 heq
        rw [heq] at hb
        exact ⟨hs.setKernel _ hb, rfl, by obs_trivial⟩
      · rename_i k1 e heq
        rw [heq] at hb
        exact ⟨hs.setKernel _ hb, rfl, by obs_trivial⟩
  | write sslot bytes =>
    rw [Sys.step]
    split
    · exact ⟨hs, rfl, by obs_trivial⟩
    · rename_i h fd _
      have hb := (hs.kernel h).pollSend fd bytes
      split <;> (rename_i heq; rw [heq] at hb; exact ⟨hs.setKernel _ hb, rfl, by obs_trivial⟩)
  | read sslot n =>
    rw [Sys.step]
    split
    · exact ⟨hs, rfl, by obs_trivial⟩
    · rename_i h fd _
      have hb := (hs.kernel h).pollRecv fd n
      split <;> (rename_i heq; rw [heq] at hb; exact ⟨hs.setKernel _ hb, rfl, by obs_trivial⟩)
  | peek sslot n =>
    rw [Sys.step]
    split
    · exact ⟨hs, rfl, by obs_trivial⟩
    · split <;> exact ⟨hs, rfl, by obs_trivial⟩
  | shutdown sslot =>
    rw [Sys.step]
    split
    · exact ⟨hs, rfl, by obs_trivial⟩
    · rename_i h fd _
      have hb := (hs.kernel h).pollShutdown fd
      split <;> (rename_i heq; rw [heq] at hb; exact ⟨hs.setKernel _ hb, rfl, by obs_trivial⟩)
  | sdrop sslot =>
    rw [Sys.step]
    split
    · exact ⟨hs, rfl, by obs_trivial⟩
    · exact ⟨(hs.setKernel _ ((hs.kernel _).close _ _)).congr rfl rfl rfl, rfl, by obs_trivial⟩
  | udpBind h uslot addr =>
    rw [Sys.step]
    have hb := (hs.kernel h).bind addr true
    split
    · rename_i k1 fd heq
      rw [heq] at hb
      exact ⟨(hs.setKernel _ hb).congr rfl rfl rfl, rfl, by obs_trivial⟩
    · rename_i k1 e heq
      rw [heq] at hb
      exact ⟨hs.setKernel _ hb, rfl, by obs_trivial⟩
    · rename_i k1 heq
      rw [heq] at hb
      exact ⟨hs.setKernel _ hb, rfl, by obs_trivial⟩
  | udpSend uslot len dst =>
    rw [Sys.step]
    split
    · exact ⟨hs, rfl, by obs_trivial⟩
    · rename_i h fd _
      have hb := (hs.kernel h).udpSendTo fd len dst
      split <;> (rename_i heq; rw [heq] at hb; exact ⟨hs.setKernel _ hb, rfl, by obs_trivial⟩)
  | egress =>
    rw [Sys.step]
    try dsimp only
    have he := egressAll_inv (cfg := s.cfg) s.kernels hs.kern
    have hw := foldl_inv_mem (P := WireAcc s.cfg) Sys.wireStep (Sys.egressAll s.cfg s.kernels).2
      (s.wire, [], s.nextPkt) ⟨hs.wire, by intro o ho; cases ho⟩
      (fun b a ha hb => wireStep_inv b a hb (he.2 a ha))
    refine ⟨⟨he.1, hw.1⟩, rfl, ?_⟩
    split
    · obs_trivial
    · exact hw.2
  | deliver id =>
    rw [Sys.step]
    split
    · exact ⟨hs, rfl, by obs_trivial⟩
    · rename_i p hp
      have hs1 : SInv { s with wire := Sys.eraseKey s.wire id } :=
        ⟨hs.kern, by intro e he; simp only [Sys.eraseKey, List.mem_filter] at he; exact hs.wire e he.1⟩
      dsimp only
      split
      · exact ⟨hs1, rfl, by obs_trivial⟩
      · exact ⟨hs1.setKernel _ ((hs1.kernel _).deliver _), rfl, by obs_trivial⟩
  | dup id =>
    rw [Sys.step]
    split
    · exact ⟨hs, rfl, by obs_trivial⟩
    · split
      · exact ⟨hs, rfl, by obs_trivial⟩
      · exact ⟨hs.setKernel _ ((hs.kernel _).deliver _), rfl, by obs_trivial⟩
  | drop id =>
    rw [Sys.step]
    split
    · exact ⟨hs, rfl, by obs_trivial⟩
    · refine ⟨⟨hs.kern, ?_⟩, rfl, by obs_trivial⟩
      intro e he
      simp only [Sys.eraseKey, List.mem_filter] at he
      exact hs.wire e he.1
  | stat =>
    rw [Sys.step]
    refine ⟨hs, rfl, ?_⟩
    intro o ho
    simp only [List.mem_flatMap, List.mem_range, List.mem_cons] at ho
    obtain ⟨h, _, ho⟩ := ho
    rcases ho with rfl | ho
    · simp [Sys.counts, Spec.obsCapsOk, Spec.obsSizeOk]
    · exact netstat_ok (hs.kernel h) h o ho

/-- The invariant along a whole run, with every observation produced on the way checked. -/
theorem run_inv (s : Sys) (ops : List Op) (hs : SInv s) :
    SInv (s.run ops).1 ∧ (s.run ops).1.cfg = s.cfg ∧ ∀ obs ∈ (s.run ops).2, ObsOk s.cfg obs := by
  induction ops generalizing s with
  | nil => exact ⟨hs, rfl, by intro o ho; cases ho⟩
  | cons op rest ih =>
    have h1 := step_inv s op hs
    have h2 := ih (s.step op).1 h1.1
    simp only [Sys.run]
    refine ⟨h2.1, by rw [h2.2.1, h1.2.1], ?_⟩
    intro obs hobs
    simp only [List.mem_cons] at hobs
    rcases hobs with rfl | hobs
    · exact h1.2.2
    · rw [← h1.2.1]; exact h2.2.2 obs hobs

end TV.NetTcp
