/-
  C13 accept-once at the system level: the `AccInv` invariant along every run.
-/
import TvNetTcp.Proofs.Accept

namespace TV.NetTcp

def SAcc (s : Sys) : Prop := ∀ k ∈ s.kernels, AccInv k

namespace SAcc
open Sys

theorem init (cfg : Cfg) (n : Nat) : SAcc (Sys.init cfg n) := by
  intro k hk
  simp only [Sys.init, List.mem_map] at hk
  obtain ⟨h, _, rfl⟩ := hk
  exact AccInv.init _

theorem kernel {s : Sys} (hs : SAcc s) (h : Nat) : AccInv (s.kernel h) := by
  unfold Sys.kernel
  rw [List.getD_eq_getElem?_getD]
  cases hk : s.kernels[h]? with
  | none => simpa using AccInv.init []
  | some k => simpa using hs k (List.mem_of_getElem? hk)

theorem setKernel {s : Sys} (hs : SAcc s) (h : Nat) {k : Kernel} (hk : AccInv k) : SAcc (s.setKernel h k) := by
  intro k' hk'
  simp only [Sys.setKernel] at hk'
  rcases List.mem_or_eq_of_mem_set hk' with h1 | rfl
  · exact hs k' h1
  · exact hk

theorem congr {s s' : Sys} (hs : SAcc s) (hk : s'.kernels = s.kernels) : SAcc s' := by
  intro k hk'; rw [hk] at hk'; exact hs k hk'

end SAcc

theorem egressAll_acc (cfg : Cfg) (ks : List Kernel) (h : ∀ k ∈ ks, AccInv k) :
    ∀ k ∈ (Sys.egressAll cfg ks).1, AccInv k := by
  induction ks with
  | nil => simp [Sys.egressAll]
  | cons k rest ih =>
    simp only [Sys.egressAll]
    intro k' hk'
    simp only [List.mem_cons] at hk'
    rcases hk' with rfl | hk'
    · exact (h k (by simp)).egress cfg
    · exact ih (fun k'' hk'' => h k'' (by simp [hk''])) k' hk'

theorem settleConnect_acc (s : Sys) (cslot : Nat) (c : Connecting) (k : Kernel) (r : Res Unit)
    (hs : SAcc s) (hk : AccInv k) : SAcc (s.settleConnect cslot c k r).1 := by
  unfold Sys.settleConnect
  split
  · exact (hs.setKernel _ hk).congr rfl
  · exact (hs.setKernel _ hk).congr rfl
  · exact (hs.setKernel _ (hk.close _ _)).congr rfl

theorem step_acc (s : Sys) (op : Op) (hs : SAcc s) : SAcc (s.step op).1 := by
  cases op with
  | listen h lslot addr =>
    rw [Sys.step]
    try dsimp only
    have hb := (hs.kernel h).kbind addr false
    split
    · rename_i heq; rw [heq] at hb; exact (hs.setKernel _ (hb.listen _ _)).congr rfl
    · rename_i heq; rw [heq] at hb; exact hs.setKernel _ hb
    · rename_i heq; rw [heq] at hb; exact hs.setKernel _ hb
  | ldrop lslot =>
    rw [Sys.step]
    split
    · exact hs
    · exact (hs.setKernel _ ((hs.kernel _).close _ _)).congr rfl
  | connect h cslot sslot peer =>
    rw [Sys.step]
    try dsimp only
    exact settleConnect_acc s cslot _ _ _ hs (((hs.kernel h).openSock _ _).pollConnect s.cfg _ _)
  | cpoll cslot sslot =>
    rw [Sys.step]
    split
    · exact hs
    · dsimp only
      exact settleConnect_acc s cslot _ _ _ hs ((hs.kernel _).pollConnect s.cfg _ _)
  | ccancel cslot =>
    rw [Sys.step]
    split
    · exact hs
    · exact (hs.setKernel _ ((hs.kernel _).close _ _)).congr rfl
  | accept lslot sslot =>
    rw [Sys.step]
    split
    · exact hs
    · rename_i h fd _
      have hb := (hs.kernel h).pollAccept fd
      split <;> (rename_i heq; rw [heq] at hb; first | exact (hs.setKernel _ hb).congr rfl | exact hs.setKernel _ hb)
  | write sslot bytes =>
    rw [Sys.step]
    split
    · exact hs
    · rename_i h fd _
      have hb := (hs.kernel h).pollSend s.cfg fd bytes
      split <;> (rename_i heq; rw [heq] at hb; exact hs.setKernel _ hb)
  | read sslot n =>
    rw [Sys.step]
    split
    · exact hs
    · rename_i h fd _
      have hb := (hs.kernel h).pollRecv s.cfg fd n
      split <;> (rename_i heq; rw [heq] at hb; exact hs.setKernel _ hb)
  | peek sslot n =>
    rw [Sys.step]
    split
    · exact hs
    · split <;> exact hs
  | shutdown sslot =>
    rw [Sys.step]
    split
    · exact hs
    · rename_i h fd _
      have hb := (hs.kernel h).pollShutdown fd
      split <;> (rename_i heq; rw [heq] at hb; exact hs.setKernel _ hb)
  | sdrop sslot =>
    rw [Sys.step]
    split
    · exact hs
    · exact (hs.setKernel _ ((hs.kernel _).close _ _)).congr rfl
  | udpBind h uslot addr =>
    rw [Sys.step]
    have hb := (hs.kernel h).kbind addr true
    split
    · rename_i heq; rw [heq] at hb; exact (hs.setKernel _ hb).congr rfl
    · rename_i heq; rw [heq] at hb; exact hs.setKernel _ hb
    · rename_i heq; rw [heq] at hb; exact hs.setKernel _ hb
  | udpSend uslot len dst =>
    rw [Sys.step]
    split
    · exact hs
    · rename_i h fd _
      have hb := (hs.kernel h).udpSendTo s.cfg fd len dst
      split <;> (rename_i heq; rw [heq] at hb; exact hs.setKernel _ hb)
  | egress =>
    rw [Sys.step]
    dsimp only
    exact egressAll_acc s.cfg s.kernels hs
  | deliver id =>
    rw [Sys.step]
    split
    · exact hs
    · dsimp only
      have hs1 : SAcc { s with wire := Sys.eraseKey s.wire id } := hs.congr rfl
      split
      · exact hs1
      · exact hs1.setKernel _ ((hs1.kernel _).deliver _ _)
  | dup id =>
    rw [Sys.step]
    split
    · exact hs
    · split
      · exact hs
      · exact hs.setKernel _ ((hs.kernel _).deliver _ _)
  | drop id =>
    rw [Sys.step]
    split
    · exact hs
    · exact hs.congr rfl
  | stat =>
    rw [Sys.step]
    exact hs

theorem run_acc (s : Sys) (ops : List Op) (hs : SAcc s) : SAcc (s.run ops).1 := by
  induction ops generalizing s with
  | nil => exact hs
  | cons op rest ih =>
    simp only [Sys.run]
    exact ih _ (step_acc s op hs)


end TV.NetTcp
