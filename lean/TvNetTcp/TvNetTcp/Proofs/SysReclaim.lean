/-
  The kernel-level reclamation theorems along `Sys` histories in which nothing is delivered any more
  (every op is `egress`, `drop` or `stat`: the peer is gone, what the hosts send is lost).
-/
import TvNetTcp.Proofs.ReclaimFrame
import TvNetTcp.Proofs.SysAccept

namespace TV.NetTcp
open Kernel

/-- Ops of a blackhole history: rounds, losses, observations. -/
def Op.isBlackhole : Op → Bool
  | .egress => true
  | .drop _ => true
  | .stat => true
  | _ => false

def egressCount : List Op → Nat
  | [] => 0
  | .egress :: r => egressCount r + 1
  | _ :: r => egressCount r

namespace Sys

theorem egressAll_getD (cfg : Cfg) :
    ∀ (ks : List Kernel) (h : Nat), h < ks.length →
      (egressAll cfg ks).1.getD h {} = ((ks.getD h {}).egress cfg).1 := by
  intro ks
  induction ks with
  | nil => intro h hh; cases hh
  | cons k ks ih =>
    intro h hh
    simp only [egressAll]
    cases h with
    | zero => simp
    | succ n =>
      simp only [List.getD_cons_succ]
      exact ih n (by simpa using hh)

theorem egressAll_length (cfg : Cfg) : ∀ ks : List Kernel, (egressAll cfg ks).1.length = ks.length := by
  intro ks
  induction ks with
  | nil => rfl
  | cons k ks ih => simp only [egressAll, List.length_cons, ih]

/-- A blackhole op on host `h`'s kernel: `egress` runs `Kernel.egress`, the others nothing. -/
theorem step_blackhole (s : Sys) (op : Op) (hb : op.isBlackhole = true) (h : Nat) (hh : h < s.kernels.length) :
    (s.step op).1.cfg = s.cfg ∧ (s.step op).1.kernels.length = s.kernels.length ∧
      (s.step op).1.kernel h = egressN s.cfg (egressCount [op]) (s.kernel h) := by
  cases op <;> simp only [Op.isBlackhole] at hb <;> try cases hb
  case egress =>
    rw [Sys.step]
    refine ⟨rfl, egressAll_length _ _, ?_⟩
    show (egressAll s.cfg s.kernels).1.getD h {} = _
    rw [egressAll_getD s.cfg s.kernels h hh]
    rfl
  case drop id =>
    rw [Sys.step]
    split
    · exact ⟨rfl, rfl, rfl⟩
    · exact ⟨rfl, rfl, rfl⟩
  case stat =>
    rw [Sys.step]
    exact ⟨rfl, rfl, rfl⟩

theorem egressCount_cons (op : Op) (rest : List Op) : egressCount (op :: rest) = egressCount [op] + egressCount rest := by
  cases op <;> simp [egressCount] <;> omega

/-- Along a blackhole history host `h`'s kernel just runs `Kernel.egress`, once per `egress` op. -/
theorem run_blackhole (h : Nat) :
    ∀ (ops : List Op) (s : Sys), (∀ o ∈ ops, o.isBlackhole = true) → h < s.kernels.length →
      (s.run ops).1.kernel h = egressN s.cfg (egressCount ops) (s.kernel h) := by
  intro ops
  induction ops with
  | nil => intro s _ _; rfl
  | cons op rest ih =>
    intro s hb hh
    obtain ⟨h1, h2, h3⟩ := step_blackhole s op (hb op List.mem_cons_self) h hh
    simp only [Sys.run]
    rw [ih (s.step op).1 (fun o ho => hb o (List.mem_cons_of_mem _ ho)) (by rw [h2]; exact hh), h1, h3,
      egressCount_cons op rest, egressN_add]

end Sys
end TV.NetTcp
