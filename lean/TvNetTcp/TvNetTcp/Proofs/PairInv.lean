/-
  Invariants of the two-endpoint system (Model/Pair.lean) for one direction `s → r`:
  I1 (sender: `send_buf` is the un-acknowledged suffix of the accepted bytes, sequence numbers are
  `iss + offset`), I2 (every data segment ever emitted is a slice of the accepted bytes at its
  sequence offset; a FIN sits right after the last accepted byte), I3 (delivered ++ recv_buf is the
  prefix of the accepted bytes up to `rcv_nxt`).
-/
import TvNetTcp.Model.Pair
import TvNetTcp.Proofs.Wrap
import TvNetTcp.Proofs.TcbCaps
import TvNetTcp.Proofs.TcbFacts

namespace TV.NetTcp

/-- Header fields stay 32-bit. -/
structure WF (e : End) : Prop where
  rcv : e.tcb.rcvNxt < M32
  nxt : e.tcb.sndNxt < M32
  una : e.tcb.sndUna < M32

/-- No sequence-number wrap on the stream `s` sends: fewer than 2^32 − 1 bytes accepted. -/
def NoWrap (s : End) : Prop := s.acc.length + 1 < M32

/-- SND.MAX: `km ≥ k` sequence numbers were in flight at most (before a go-back-N rewind), all of
    them within the accepted stream (+ FIN). -/
def MaxInv (s : End) (base fa k : Nat) : Prop :=
  ∃ km, k ≤ km ∧ s.tcb.sndMax = wadd s.iss (base + fa + km) ∧ base + fa + km ≤ s.acc.length + 1 ∧
    (base + fa + km = s.acc.length + 1 → s.tcb.finSeq.isSome = true)

/-- I1: sender side. `base` bytes are acknowledged, `fa = 1` iff the FIN is acknowledged, `k`
    sequence numbers are in flight. -/
structure SendInv (s : End) (base fa k : Nat) : Prop where
  issLt : s.iss < M32
  fa_le : fa ≤ 1
  una : s.tcb.sndUna = wadd s.iss (base + fa)
  nxt : s.tcb.sndNxt = wadd s.iss (base + fa + k)
  bound : base + fa + k ≤ s.acc.length + 1
  finQueued : base + fa + k = s.acc.length + 1 → s.tcb.finSeq.isSome = true
  buf : (s.tcb.sendBuf = s.acc.drop base ∧ base ≤ s.acc.length) ∨ (s.tcb.abortErr ≠ none ∧ s.tcb.sendBuf = [])
  fin : ∀ fs, s.tcb.finSeq = some fs → fs = wadd s.iss s.acc.length ∧ s.tcb.wrClosed = true
  finAcked : fa = 1 → base = s.acc.length ∧ s.tcb.finSeq.isSome = true
  mx : MaxInv s base fa k

/-- I2: what is on the wire from `s`. -/
def SegOk (s : End) (sg : Seg) : Prop :=
  sg.seq < M32 ∧ sg.ack < M32 ∧
  (sg.payload ≠ [] → ∃ off, sg.seq = wadd s.iss off ∧ off + sg.payload.length ≤ s.acc.length ∧
      sg.payload = (s.acc.drop off).take sg.payload.length) ∧
  (sg.flags.fin = true → sg.payload = [] ∧ s.tcb.wrClosed = true ∧ sg.seq = wadd s.iss s.acc.length)

def WireInv (s : End) : Prop := ∀ sg ∈ s.out, SegOk s sg

/-- I3: receiver side; `rcvd` bytes of `s`'s stream have been accepted by `r`. -/
structure RecvInv (s r : End) (rcvd : Nat) : Prop where
  le : rcvd ≤ s.acc.length
  stream : r.del ++ r.tcb.recvBuf = s.acc.take rcvd
  nxt : r.tcb.state ≠ .closed → r.tcb.rcvNxt = wadd s.iss (rcvd + (if r.tcb.peerFin then 1 else 0))
  fin : r.tcb.peerFin = true → r.tcb.abortErr = none → rcvd = s.acc.length ∧ s.tcb.wrClosed = true

/-- Everything about direction `s → r`. -/
structure Dir (s r : End) : Prop where
  send : ∃ base fa k, SendInv s base fa k
  wire : WireInv s
  recv : ∃ rcvd, RecvInv s r rcvd

structure PInv (p : Pair) : Prop where
  wfx : WF p.x
  wfy : WF p.y
  xy : Dir p.x p.y
  yx : Dir p.y p.x

/-! ### the receiver role -/

theorem take_of_append_eq_take {l a b : List Nat} {n : Nat} (h : a ++ b = l.take n) : a = l.take a.length := by
  have h1 : (a ++ b).take a.length = (l.take n).take a.length := by rw [h]
  rw [List.take_left' rfl, List.take_take] at h1
  have hlen : a.length ≤ n := by
    have := congrArg List.length h
    simp only [List.length_append, List.length_take] at this
    omega
  rw [Nat.min_eq_left hlen] at h1
  exact h1

/-- Receiving any segment that satisfies I2 keeps I3. This is the heart of C06 safety: a segment
    is accepted only at `rcv_nxt`, and without wrap a sequence number determines its stream offset. -/
theorem recv_handleEstablished {cfg : Cfg} {s r : End} {rcvd : Nat} {sg : Seg}
    (hr : RecvInv s r rcvd) (hsg : SegOk s sg) (hnw : NoWrap s) (hopen : r.tcb.state ≠ .closed) :
    ∃ rcvd', RecvInv s { r with tcb := (r.tcb.handleEstablished cfg sg).1 } rcvd' := by
  obtain ⟨hseq, hack, hdata, hfin⟩ := hsg
  unfold NoWrap at hnw
  have hle := hr.le
  -- step 1: onAck touches none of the receiver fields except possibly `state`
  have h1 : (r.tcb.onAck cfg.fixSndMax sg).rcvNxt = r.tcb.rcvNxt ∧ (r.tcb.onAck cfg.fixSndMax sg).recvBuf = r.tcb.recvBuf ∧
      (r.tcb.onAck cfg.fixSndMax sg).peerFin = r.tcb.peerFin ∧
      (r.tcb.onAck cfg.fixSndMax sg).abortErr = r.tcb.abortErr := by
    unfold Tcb.onAck
    split
    · split <;> exact ⟨rfl, rfl, rfl, rfl⟩
    · exact ⟨rfl, rfl, rfl, rfl⟩
  generalize hta : r.tcb.onAck cfg.fixSndMax sg = ta at h1
  obtain ⟨ha1, ha2, ha3, ha4⟩ := h1
  -- the invariant for `ta` in place of `r.tcb`, except that `ta` may have become `closed`
  have hnxt_a : r.tcb.rcvNxt = wadd s.iss (rcvd + (if r.tcb.peerFin then 1 else 0)) := hr.nxt hopen
  -- step 2: data
  unfold Tcb.handleEstablished
  dsimp only
  rw [hta]
  -- analyse onData
  have hd : ∃ rcvd1, rcvd1 ≤ s.acc.length ∧
      r.del ++ (ta.onData cfg.recvCap sg).1.recvBuf = s.acc.take rcvd1 ∧
      (ta.onData cfg.recvCap sg).1.rcvNxt = wadd s.iss (rcvd1 + (if r.tcb.peerFin then 1 else 0)) ∧
      (ta.onData cfg.recvCap sg).1.peerFin = r.tcb.peerFin ∧
      (ta.onData cfg.recvCap sg).1.abortErr = r.tcb.abortErr ∧
      (r.tcb.peerFin = true → rcvd1 = rcvd) := by
    unfold Tcb.onData
    dsimp only
    split
    · rename_i hpos
      unfold Tcb.acceptLen at hpos ⊢
      split at hpos
      · rename_i hc
        obtain ⟨hne, hseqeq, hpf⟩ := hc
        rw [ha3] at hpf
        obtain ⟨off, hoff, hofflen, hpay⟩ := hdata hne
        -- offset = rcvd
        have hif : (if r.tcb.peerFin = true then 1 else 0) = 0 := by simp [hpf]
        rw [hif] at hnxt_a
        have hoffeq : off = rcvd := by
          rw [ha1, hnxt_a, hoff] at hseqeq
          exact wadd_inj _ _ _ (by omega) (by omega) hseqeq
        subst hoffeq
        dsimp only
        rw [if_pos ⟨hne, hseqeq, by rw [ha3]; exact hpf⟩]
        refine ⟨off + min sg.payload.length (cfg.recvCap - ta.recvBuf.length), by omega, ?_, ?_, ?_, ?_, ?_⟩
        · rw [ha2, ← List.append_assoc, hr.stream, List.take_add]
          congr 1
          rw [hpay, List.take_take]
          congr 1
          simp only [List.length_take, List.length_drop]
          omega
        · rw [ha1, hnxt_a, hif, wadd_wadd]
          congr 1
        · exact ha3
        · simpa [Tcb.abortErr] using ha4
        · intro h; rw [hpf] at h; cases h
      · omega
    · refine ⟨rcvd, hr.le, ?_, ?_, ha3, ha4, fun _ => rfl⟩
      · rw [ha2]; exact hr.stream
      · rw [ha1]; exact hnxt_a
  generalize htd : (ta.onData cfg.recvCap sg).1 = td at hd
  obtain ⟨rcvd1, hle1, hstream1, hnxt1, hpf1, hab1, hsame1⟩ := hd
  -- step 3: FIN
  unfold Tcb.onFin
  split
  · rename_i hc
    obtain ⟨hf, hpf, hseqeq⟩ := hc
    obtain ⟨hpe, hwr, hfseq⟩ := hfin hf
    rw [hpf1] at hpf
    have hif : (if r.tcb.peerFin = true then 1 else 0) = 0 := by simp [hpf]
    rw [hif] at hnxt1
    have hr1 : rcvd1 = s.acc.length := by
      rw [hpe, hnxt1, hfseq] at hseqeq
      simp only [List.length_nil] at hseqeq
      rw [wadd_wadd] at hseqeq
      have := wadd_inj _ _ _ (by omega) (by omega) hseqeq
      omega
    refine ⟨rcvd1, hle1, hstream1, ?_, ?_⟩
    · intro _
      simp only [hnxt1, wadd_wadd]
      simp
    · intro _ _
      exact ⟨hr1, hwr⟩
  · refine ⟨rcvd1, hle1, hstream1, ?_, ?_⟩
    · intro _
      rw [hnxt1, hpf1]
    · intro hp hab
      rw [hpf1] at hp
      rw [hab1] at hab
      have := hr.fin hp hab
      rw [hsame1 hp]; exact this

end TV.NetTcp

namespace TV.NetTcp

/-! ### the sender role -/

/-- The fields I1/I2 read are untouched. -/
structure SameSend (t t' : Tcb) : Prop where
  una : t'.sndUna = t.sndUna
  nxt : t'.sndNxt = t.sndNxt
  mx : t'.sndMax = t.sndMax
  buf : t'.sendBuf = t.sendBuf
  fin : t'.finSeq = t.finSeq
  wr : t'.wrClosed = t.wrClosed
  ab : t'.abortErr = t.abortErr

/-- The fields I3 reads are untouched (`closed` is absorbing). -/
structure SameRecv (t t' : Tcb) : Prop where
  nxt : t'.rcvNxt = t.rcvNxt
  buf : t'.recvBuf = t.recvBuf
  pf : t'.peerFin = t.peerFin
  ab : t'.abortErr = t.abortErr
  st : t.state = .closed → t'.state = .closed

theorem SendInv.congr {s s' : End} {base fa k : Nat} (h : SendInv s base fa k)
    (ht : SameSend s.tcb s'.tcb) (hacc : s'.acc = s.acc) (hiss : s'.iss = s.iss) : SendInv s' base fa k := by
  obtain ⟨h1, h2, h3, h4, h5, h6, h7, h8, h9, ⟨km, m1, m2, m3, m4⟩⟩ := h
  exact ⟨by rw [hiss]; exact h1, h2, by rw [ht.una, hiss]; exact h3, by rw [ht.nxt, hiss]; exact h4,
    by rw [hacc]; exact h5, by rw [hacc, ht.fin]; exact h6, by rw [ht.buf, hacc, ht.ab]; exact h7,
    by rw [ht.fin, hiss, hacc, ht.wr]; exact h8, by rw [hacc, ht.fin]; exact h9,
    ⟨km, m1, by rw [ht.mx, hiss]; exact m2, by rw [hacc]; exact m3, by rw [hacc, ht.fin]; exact m4⟩⟩

theorem RecvInv.congr_r {s r r' : End} {rcvd : Nat} (h : RecvInv s r rcvd)
    (ht : SameRecv r.tcb r'.tcb) (hdel : r'.del = r.del) : RecvInv s r' rcvd := by
  refine ⟨h.le, by rw [hdel, ht.buf]; exact h.stream, ?_, ?_⟩
  · intro hst
    rw [ht.nxt, ht.pf]
    exact h.nxt (fun hc => hst (ht.st hc))
  · intro hp hab
    rw [ht.pf] at hp; rw [ht.ab] at hab
    exact h.fin hp hab

/-- What a sender step may do to the ghost stream as far as the receiver's invariant is concerned:
    the accepted bytes only grow, never after the write side was closed. -/
structure SendGrow (s s' : End) : Prop where
  iss : s'.iss = s.iss
  acc : ∃ x, s'.acc = s.acc ++ x ∧ (s.tcb.wrClosed = true → x = [])
  wr : s.tcb.wrClosed = true → s'.tcb.wrClosed = true

theorem SendGrow.refl_of {s s' : End} (hiss : s'.iss = s.iss) (hacc : s'.acc = s.acc)
    (hwr : s.tcb.wrClosed = true → s'.tcb.wrClosed = true) : SendGrow s s' :=
  ⟨hiss, ⟨[], by simp [hacc], fun _ => rfl⟩, hwr⟩

theorem RecvInv.congr_s {s s' r : End} {rcvd : Nat} (h : RecvInv s r rcvd) (hg : SendGrow s s') :
    RecvInv s' r rcvd := by
  obtain ⟨x, hx, hxw⟩ := hg.acc
  refine ⟨by rw [hx]; simp; have := h.le; omega, ?_, ?_, ?_⟩
  · rw [hx, List.take_append_of_le_length h.le]; exact h.stream
  · intro hst; rw [hg.iss]; exact h.nxt hst
  · intro hp hab
    obtain ⟨h1, h2⟩ := h.fin hp hab
    have := hxw h2
    subst this
    simp only [List.append_nil] at hx
    exact ⟨by rw [hx]; exact h1, hg.wr h2⟩

theorem SegOk.congr_s {s s' : End} {sg : Seg} (h : SegOk s sg) (hg : SendGrow s s') : SegOk s' sg := by
  obtain ⟨x, hx, hxw⟩ := hg.acc
  obtain ⟨h1, h2, h3, h4⟩ := h
  refine ⟨h1, h2, ?_, ?_⟩
  · intro hne
    obtain ⟨off, ho1, ho2, ho3⟩ := h3 hne
    refine ⟨off, by rw [hg.iss]; exact ho1, by rw [hx]; simp; omega, ?_⟩
    rw [hx, List.drop_append_of_le_length (by omega), List.take_append_of_le_length (by simp; omega)]
    exact ho3
  · intro hf
    obtain ⟨hp, hw, hs⟩ := h4 hf
    have := hxw hw
    subst this
    simp only [List.append_nil] at hx
    exact ⟨hp, hg.wr hw, by rw [hg.iss, hx]; exact hs⟩

theorem WireInv.congr_s {s s' : End} (h : WireInv s) (hg : SendGrow s s') (hout : s'.out = s.out) : WireInv s' := by
  intro sg hsg
  rw [hout] at hsg
  exact (h sg hsg).congr_s hg

/-- A segment that occupies no sequence space is always fine on the wire. -/
theorem SegOk.ctl (s : End) {sg : Seg} (hseq : sg.seq < M32) (hack : sg.ack < M32)
    (hp : sg.payload = []) (hf : sg.flags.fin = false) : SegOk s sg :=
  ⟨hseq, hack, by intro h; exact absurd hp h, by intro h; rw [hf] at h; cases h⟩

theorem SegOk.ackSeg (s : End) (t : Tcb) (cap a b : Nat) (h1 : t.sndNxt < M32) (h2 : t.rcvNxt < M32) :
    SegOk s (t.ackSeg cap a b) :=
  SegOk.ctl s h1 h2 rfl rfl

/-- ACK processing keeps I1 (tcp.rs:297-332): a valid cumulative ACK frees exactly the acknowledged
    prefix of `send_buf`. -/
theorem send_ackAdvance {s : End} {base fa k : Nat} (fm : Bool) (ack : Nat) (h : SendInv s base fa k) (hnw : NoWrap s)
    (hack : ack < M32) (hv : s.tcb.ackValid fm ack = true) :
    ∃ base' fa' k', SendInv { s with tcb := s.tcb.ackAdvance ack } base' fa' k' := by
  unfold NoWrap at hnw
  obtain ⟨hiss, hfa, huna, hnxt, hbound, hfq, hbuf, hfin, hfack, ⟨km, hm1, hm2, hm3, hm4⟩⟩ := h
  have hinfl : s.tcb.inFlight = k := by
    unfold Tcb.inFlight
    rw [hnxt, huna]
    rw [wsub_wadd_wadd _ _ _ (by omega) (by omega)]
    omega
  have hbnd : s.tcb.ackBound fm ≤ km := by
    unfold Tcb.ackBound
    split
    · rw [hm2, huna, wsub_wadd_wadd _ _ _ (by omega) (by omega)]; omega
    · rw [hinfl]; exact hm1
  unfold Tcb.ackValid at hv
  simp only [Bool.and_eq_true, decide_eq_true_eq] at hv
  obtain ⟨hpos, hle0⟩ := hv
  have hle : wsub ack s.tcb.sndUna ≤ km := Nat.le_trans hle0 hbnd
  clear hle0 hbnd
  unfold Tcb.ackAdvance
  rw [hinfl]
  dsimp only
  generalize hacked : wsub ack s.tcb.sndUna = acked at hpos hle
  have hunalt : s.tcb.sndUna < M32 := by rw [huna]; exact wadd_lt _ _
  have hackeq : ack = wadd s.iss (base + fa + acked) := by
    have := wadd_wsub_cancel ack s.tcb.sndUna hack hunalt
    rw [hacked, huna, wadd_wadd] at this
    exact this.symm
  -- fa = 0, since something is in flight
  have hfa0 : fa = 0 := by
    rcases Nat.lt_or_ge fa 1 with h | h
    · omega
    · have : fa = 1 := by omega
      have := (hfack this).1
      omega
  subst hfa0
  simp only [Nat.add_zero] at *
  cases hfa' : s.tcb.finAckedBy ack with
  | true =>
    -- the FIN is acknowledged
    have hsome : s.tcb.finSeq.isSome = true := by
      unfold Tcb.finAckedBy at hfa'
      split at hfa'
      · rename_i fs hfs; simp [hfs]
      · cases hfa'
    have htot : base + acked = s.acc.length + 1 := by
      unfold Tcb.finAckedBy at hfa'
      split at hfa'
      · rename_i fs hfs
        obtain ⟨hfs1, _⟩ := hfin fs hfs
        simp only [beq_iff_eq] at hfa'
        rw [hackeq, hfs1, wadd_wadd] at hfa'
        exact wadd_inj _ _ _ (by omega) (by omega) hfa'
      · cases hfa'
    refine ⟨s.acc.length, 1, k - acked, hiss, by omega, ?_, ?_, ?_, ?_, ?_, ?_, ?_, ?_⟩
    rotate_right
    · exact ⟨km - acked, by omega, by show s.tcb.sndMax = _; rw [hm2]; exact congrArg (wadd s.iss) (by omega),
        by show _ ≤ s.acc.length + 1; omega, fun _ => hsome⟩
    · show ack = _
      rw [hackeq]; congr 1
    · show (if acked > k then ack else s.tcb.sndNxt) = _
      split
      · rw [hackeq]; exact congrArg (wadd s.iss) (by omega)
      · rw [hnxt]; exact congrArg (wadd s.iss) (by omega)
    · show _ ≤ s.acc.length + 1
      omega
    · intro _; exact hsome
    · simp only [if_true]
      rcases hbuf with ⟨hb1, hb2⟩ | ⟨hb1, hb2⟩
      · left
        refine ⟨?_, by omega⟩
        show List.drop (acked - 1) s.tcb.sendBuf = _
        rw [hb1, List.drop_drop]
        have : base + (acked - 1) = s.acc.length := by omega
        rw [this]
      · right
        refine ⟨by simpa [Tcb.abortErr] using hb1, ?_⟩
        show List.drop (acked - 1) s.tcb.sendBuf = []
        rw [hb2]; simp
    · intro fs hfs
      exact hfin fs hfs
    · intro _
      exact ⟨rfl, hsome⟩
  | false =>
    -- only data is acknowledged
    have hlt : base + acked ≤ s.acc.length := by
      rcases Nat.lt_or_ge s.acc.length (base + acked) with hgt | hge
      · exfalso
        have htot : base + acked = s.acc.length + 1 := by omega
        have hk : base + 0 + km = s.acc.length + 1 := by omega
        have hq := hm4 hk
        cases hfs : s.tcb.finSeq with
        | none => simp [hfs] at hq
        | some fs =>
          obtain ⟨hfs1, _⟩ := hfin fs hfs
          have : s.tcb.finAckedBy ack = true := by
            unfold Tcb.finAckedBy
            simp only [hfs, beq_iff_eq]
            rw [hackeq, hfs1, wadd_wadd, htot]
          rw [hfa'] at this; cases this
      · exact hge
    refine ⟨base + acked, 0, k - acked, hiss, by omega, ?_, ?_, ?_, ?_, ?_, ?_, ?_, ?_⟩
    rotate_right
    · refine ⟨km - acked, by omega, by show s.tcb.sndMax = _; rw [hm2]; exact congrArg (wadd s.iss) (by omega),
        by show _ ≤ s.acc.length + 1; omega, ?_⟩
      intro hq
      apply hm4
      have hq' : base + acked + 0 + (km - acked) = s.acc.length + 1 := hq
      omega
    · show ack = _
      rw [hackeq]; simp
    · show (if acked > k then ack else s.tcb.sndNxt) = _
      split
      · rw [hackeq]; exact congrArg (wadd s.iss) (by omega)
      · rw [hnxt]; exact congrArg (wadd s.iss) (by omega)
    · show _ ≤ s.acc.length + 1
      omega
    · intro hq
      apply hm4
      simp only [Nat.add_zero] at hq
      omega
    · simp only [Bool.false_eq_true, if_false]
      rcases hbuf with ⟨hb1, hb2⟩ | ⟨hb1, hb2⟩
      · left
        refine ⟨?_, hlt⟩
        show List.drop acked s.tcb.sendBuf = _
        rw [hb1, List.drop_drop]
      · right
        refine ⟨by simpa [Tcb.abortErr] using hb1, ?_⟩
        show List.drop acked s.tcb.sendBuf = []
        rw [hb2]; simp
    · intro fs hfs
      exact hfin fs hfs
    · intro h0; cases h0

theorem send_onAck {s : End} {base fa k : Nat} (fm : Bool) (sg : Seg) (h : SendInv s base fa k) (hnw : NoWrap s)
    (hack : sg.ack < M32) :
    ∃ base' fa' k', SendInv { s with tcb := s.tcb.onAck fm sg } base' fa' k' := by
  unfold Tcb.onAck
  split
  · split
    · rename_i hv
      obtain ⟨b', f', k', h'⟩ := send_ackAdvance fm sg.ack h hnw hack hv
      exact ⟨b', f', k', h'.congr ⟨rfl, rfl, rfl, rfl, rfl, rfl, by simp [Tcb.abortErr]⟩ rfl rfl⟩
    · exact ⟨base, fa, k, h.congr ⟨rfl, rfl, rfl, rfl, rfl, rfl, by simp [Tcb.abortErr]⟩ rfl rfl⟩
  · exact ⟨base, fa, k, h⟩

end TV.NetTcp

namespace TV.NetTcp

/-- Accepting bytes keeps I1: they are appended to both `send_buf` and the ghost stream. -/
theorem send_accept {s : End} {base fa k : Nat} (x : List Nat) (h : SendInv s base fa k)
    (hab : s.tcb.abortErr = none) (hwr : s.tcb.wrClosed = false) :
    SendInv { s with tcb := { s.tcb with sendBuf := s.tcb.sendBuf ++ x }, acc := s.acc ++ x } base fa k := by
  obtain ⟨hiss, hfa, huna, hnxt, hbound, hfq, hbuf, hfin, hfack, ⟨km, hm1, hm2, hm3, hm4⟩⟩ := h
  have hnofin : s.tcb.finSeq = none := by
    cases hfs : s.tcb.finSeq with
    | none => rfl
    | some fs => have := (hfin fs hfs).2; rw [hwr] at this; cases this
  have hfa0 : fa = 0 := by
    rcases Nat.lt_or_ge fa 1 with h | h
    · omega
    · have : fa = 1 := by omega
      have := (hfack this).2
      simp [hnofin] at this
  subst hfa0
  refine ⟨hiss, hfa, huna, hnxt, ?_, ?_, ?_, ?_, ?_, ?_⟩
  rotate_right
  · refine ⟨km, hm1, hm2, by simp only [List.length_append]; omega, ?_⟩
    intro hq
    simp only [List.length_append] at hq
    apply hm4; omega
  · simp only [List.length_append]; omega
  · intro hq
    simp only [List.length_append] at hq
    have : x.length = 0 := by omega
    apply hfq; omega
  · left
    rcases hbuf with ⟨hb1, hb2⟩ | ⟨hb1, _⟩
    · refine ⟨?_, by simp only [List.length_append]; omega⟩
      show s.tcb.sendBuf ++ x = List.drop base (s.acc ++ x)
      rw [List.drop_append_of_le_length hb2, hb1]
    · exact absurd hab hb1
  · intro fs hfs
    have : s.tcb.finSeq = some fs := hfs
    rw [hnofin] at this; cases this
  · intro h0; cases h0

/-- Queueing the FIN keeps I1: `fin_seq = snd_una + send_buf.len` is the sequence number right
    after the last accepted byte. -/
theorem send_queueFin {s : End} {base fa k : Nat} (h : SendInv s base fa k)
    (hab : s.tcb.abortErr = none) :
    SendInv { s with tcb := s.tcb.queueFin } base fa k := by
  rcases Tcb.queueFin_cases s.tcb with heq | ⟨hwr, heq⟩
  · rw [heq]; exact h
  · rw [heq]
    obtain ⟨hiss, hfa, huna, hnxt, hbound, hfq, hbuf, hfin, hfack, ⟨km, hm1, hm2, hm3, hm4⟩⟩ := h
    have hnofin : s.tcb.finSeq = none := by
      cases hfs : s.tcb.finSeq with
      | none => rfl
      | some fs => have := (hfin fs hfs).2; rw [hwr] at this; cases this
    have hfa0 : fa = 0 := by
      rcases Nat.lt_or_ge fa 1 with h | h
      · omega
      · have : fa = 1 := by omega
        have := (hfack this).2
        simp [hnofin] at this
    subst hfa0
    rcases hbuf with ⟨hb1, hb2⟩ | ⟨hb1, _⟩
    · refine ⟨hiss, hfa, huna, hnxt, hbound, fun _ => rfl, Or.inl ⟨hb1, hb2⟩, ?_, ?_, ⟨km, hm1, hm2, hm3, fun _ => rfl⟩⟩
      · intro fs hfs
        simp only [Option.some.injEq] at hfs
        subst hfs
        refine ⟨?_, rfl⟩
        rw [huna, hb1, wadd_wadd]
        simp only [List.length_drop, Nat.add_zero]
        congr 1; omega
      · intro h0; cases h0
    · exact absurd hab hb1

/-- Rewinding for go-back-N keeps I1. -/
theorem send_rewind {s : End} {base fa k : Nat} {t' : Tcb} (h : SendInv s base fa k)
    (hu : t'.sndUna = s.tcb.sndUna) (hn : t'.sndNxt = s.tcb.sndUna) (hmx : t'.sndMax = s.tcb.sndMax)
    (hb : t'.sendBuf = s.tcb.sendBuf)
    (hf : t'.finSeq = s.tcb.finSeq) (hw : t'.wrClosed = s.tcb.wrClosed) (ha : t'.abortErr = s.tcb.abortErr) :
    SendInv { s with tcb := t' } base fa 0 := by
  obtain ⟨hiss, hfa, huna, hnxt, hbound, hfq, hbuf, hfin, hfack, ⟨km, hm1, hm2, hm3, hm4⟩⟩ := h
  refine ⟨hiss, hfa, by rw [hu]; exact huna, by rw [hn]; simpa using huna, by dsimp only; omega, ?_, ?_, ?_, ?_,
    ⟨km, Nat.zero_le _, by rw [hmx]; exact hm2, hm3, by rw [hf]; exact hm4⟩⟩
  · intro hq
    dsimp only at hq
    rw [hf]
    rcases Nat.lt_or_ge fa 1 with h | h
    · apply hfq; omega
    · have : fa = 1 := by omega
      exact (hfack this).2
  · rw [hb, ha]; exact hbuf
  · rw [hf, hw]; exact hfin
  · rw [hf]; exact hfack

theorem send_retxTick {s : End} {base fa k : Nat} (a b : Nat) (h : SendInv s base fa k) :
    ∃ k', SendInv { s with tcb := (s.tcb.retxTick a b).1 } base fa k' := by
  unfold Tcb.retxTick
  dsimp only
  split
  · exact ⟨k, h.congr ⟨rfl, rfl, rfl, rfl, rfl, rfl, rfl⟩ rfl rfl⟩
  · split
    · exact ⟨k, h.congr ⟨rfl, rfl, rfl, rfl, rfl, rfl, rfl⟩ rfl rfl⟩
    · split
      · exact ⟨k, h.congr ⟨rfl, rfl, rfl, rfl, rfl, rfl, rfl⟩ rfl rfl⟩
      · exact ⟨0, send_rewind h rfl rfl rfl rfl rfl rfl rfl⟩

theorem send_abort {s : End} {base fa k : Nat} (b : Bool) (h : SendInv s base fa k) :
    SendInv { s with tcb := s.tcb.abort b } base fa k := by
  obtain ⟨hiss, hfa, huna, hnxt, hbound, hfq, hbuf, hfin, hfack, ⟨km, hm1, hm2, hm3, hm4⟩⟩ := h
  exact ⟨hiss, hfa, huna, hnxt, hbound, hfq, Or.inr ⟨Tcb.abortErr_abort _ _, rfl⟩, hfin, hfack, ⟨km, hm1, hm2, hm3, hm4⟩⟩

/-- One iteration of `segment_one` keeps I1, and the segment it emits satisfies I2. -/
theorem send_segStep {s : End} {base fa k : Nat} {mss cap port : Nat} {t' : Tcb} {sg : Seg}
    (h : SendInv s base fa k) (hnw : NoWrap s) (hrcv : s.tcb.rcvNxt < M32)
    (hs : s.tcb.segStep mss cap port = some (t', sg)) :
    (∃ k', SendInv { s with tcb := t' } base fa k') ∧ SegOk s sg ∧ t'.rcvNxt = s.tcb.rcvNxt ∧
      t'.wrClosed = s.tcb.wrClosed := by
  unfold NoWrap at hnw
  obtain ⟨hiss, hfa, huna, hnxt, hbound, hfq, hbuf, hfin, hfack, ⟨km, hm1, hm2, hm3, hm4⟩⟩ := h
  have hinfl : s.tcb.inFlight = k := by
    unfold Tcb.inFlight
    rw [hnxt, huna]
    rw [wsub_wadd_wadd _ _ _ (by omega) (by omega)]
    omega
  have hnxtlt : s.tcb.sndNxt < M32 := by rw [hnxt]; exact wadd_lt _ _
  have hadv : ∀ d, base + fa + k + d ≤ s.acc.length + 1 →
      s.tcb.advMax (wadd s.tcb.sndNxt d) = wadd s.iss (base + fa + max km (k + d)) := by
    intro d hd
    unfold Tcb.advMax
    have e1 : wsub (wadd s.tcb.sndNxt d) s.tcb.sndUna = k + d := by
      rw [hnxt, huna, wadd_wadd, wsub_wadd_wadd _ _ _ (by omega) (by omega)]; omega
    have e2 : wsub s.tcb.sndMax s.tcb.sndUna = km := by
      rw [hm2, huna, wsub_wadd_wadd _ _ _ (by omega) (by omega)]; omega
    rw [e1, e2]
    split
    · rw [hnxt, wadd_wadd]; exact congrArg (wadd s.iss) (by omega)
    · rw [hm2]; exact congrArg (wadd s.iss) (by omega)
  unfold Tcb.segStep at hs
  rw [hinfl] at hs
  dsimp only at hs
  split at hs
  · -- data segment
    rename_i hc
    obtain ⟨hunsent, hwnd⟩ := hc
    cases hs
    -- there is unsent data, so `send_buf` is the live suffix and the FIN is not acknowledged
    rcases hbuf with ⟨hb1, hb2⟩ | ⟨_, hb2⟩
    rotate_left
    · rw [hb2] at hunsent; simp at hunsent
    have hlen : s.tcb.sendBuf.length = s.acc.length - base := by rw [hb1]; simp
    have hfa0 : fa = 0 := by
      rcases Nat.lt_or_ge fa 1 with h | h
      · omega
      · have : fa = 1 := by omega
        have := (hfack this).1
        omega
    subst hfa0
    generalize hn : min (min (s.tcb.sendBuf.length - k) mss) (s.tcb.sndWnd - k) = n
    have hnle : n ≤ s.tcb.sendBuf.length - k := by omega
    have hpaylen : (List.take n (List.drop k s.tcb.sendBuf)).length = n := by
      simp only [List.length_take, List.length_drop]; omega
    refine ⟨⟨k + n, hiss, hfa, huna, ?_, ?_, ?_, Or.inl ⟨hb1, hb2⟩, hfin, hfack,
      ⟨max km (k + n), by omega, hadv n (by omega), by show _ ≤ s.acc.length + 1; omega, ?_⟩⟩, ?_, rfl, rfl⟩
    · show wadd s.tcb.sndNxt n = _
      rw [hnxt, wadd_wadd]; congr 1; omega
    · dsimp only; omega
    · intro hq; dsimp only at hq; omega
    · intro hq
      have hq' : base + 0 + max km (k + n) = s.acc.length + 1 := hq
      apply hm4; omega
    · refine ⟨hnxtlt, hrcv, ?_, ?_⟩
      · intro _
        refine ⟨base + k, by simpa using hnxt, ?_, ?_⟩
        · show base + k + (List.take n (List.drop k s.tcb.sendBuf)).length ≤ _
          rw [hpaylen]; omega
        · show List.take n (List.drop k s.tcb.sendBuf) = _
          rw [hpaylen, hb1, List.drop_drop]
      · intro hf; cases hf
  · split at hs
    · -- FIN
      rename_i hc
      obtain ⟨hfp, hwnd⟩ := hc
      cases hs
      unfold Tcb.finPending at hfp
      split at hfp
      rotate_left
      · cases hfp
      rename_i fs hfs
      obtain ⟨hfs1, hwr⟩ := hfin fs hfs
      simp only [beq_iff_eq] at hfp
      have htot : base + fa + k = s.acc.length := by
        rw [hnxt, hfs1] at hfp
        exact wadd_inj _ _ _ (by omega) (by omega) hfp
      refine ⟨⟨k + 1, hiss, hfa, huna, ?_, by dsimp only; omega, ?_, hbuf, hfin, hfack,
        ⟨max km (k + 1), by omega, hadv 1 (by omega), by show _ ≤ s.acc.length + 1; omega, fun _ => by simp [hfs]⟩⟩, ?_, rfl, rfl⟩
      · show wadd s.tcb.sndNxt 1 = _
        rw [hnxt, wadd_wadd]; congr 1
      · intro _; simp [hfs]
      · refine ⟨hnxtlt, hrcv, ?_, ?_⟩
        · intro hne; exact absurd rfl hne
        · intro _
          exact ⟨rfl, hwr, by rw [hnxt, htot]⟩
    · cases hs

theorem send_segLoop {s : End} (mss cap port : Nat) (fuel : Nat) (t : Tcb) (acc : List Seg)
    (hnw : NoWrap s) (hrcv : t.rcvNxt < M32) (hwr : t.wrClosed = s.tcb.wrClosed)
    (h : ∃ base fa k, SendInv { s with tcb := t } base fa k)
    (hacc : ∀ sg ∈ acc, SegOk s sg) :
    (∃ base fa k, SendInv { s with tcb := (Tcb.segLoop mss cap port fuel t acc).1 } base fa k) ∧
      (∀ sg ∈ (Tcb.segLoop mss cap port fuel t acc).2, SegOk s sg) ∧
      (Tcb.segLoop mss cap port fuel t acc).1.rcvNxt = t.rcvNxt ∧
      (Tcb.segLoop mss cap port fuel t acc).1.wrClosed = t.wrClosed := by
  induction fuel generalizing t acc with
  | zero => exact ⟨h, hacc, rfl, rfl⟩
  | succ n ih =>
    unfold Tcb.segLoop
    split
    · exact ⟨h, hacc, rfl, rfl⟩
    · rename_i t' sg hs
      obtain ⟨base, fa, k, hinv⟩ := h
      have hstep := send_segStep (s := { s with tcb := t }) hinv hnw hrcv hs
      obtain ⟨⟨k', hinv'⟩, hok, hr', hw'⟩ := hstep
      have hok' : SegOk s sg := by
        obtain ⟨a1, a2, a3, a4⟩ := hok
        refine ⟨a1, a2, a3, ?_⟩
        intro hf
        obtain ⟨b1, b2, b3⟩ := a4 hf
        exact ⟨b1, by rw [← hwr]; exact b2, b3⟩
      have := ih t' (acc ++ [sg]) (by rw [hr']; exact hrcv) (by rw [hw']; exact hwr) ⟨base, fa, k', hinv'⟩
        (by
          intro sg' hsg'
          simp only [List.mem_append, List.mem_singleton] at hsg'
          rcases hsg' with h1 | rfl
          · exact hacc _ h1
          · exact hok')
      exact ⟨this.1, this.2.1, by rw [this.2.2.1, hr'], by rw [this.2.2.2, hw']⟩

/-! ### reading -/

/-- `poll_recv` keeps I3: what it returns is the head of `recv_buf`, appended to `delivered`. -/
theorem recv_read {s r : End} {rcvd : Nat} (k : Nat) (h : RecvInv s r rcvd) :
    RecvInv s { r with tcb := { r.tcb with recvBuf := r.tcb.recvBuf.drop k }, del := r.del ++ r.tcb.recvBuf.take k } rcvd := by
  refine ⟨h.le, ?_, h.nxt, h.fin⟩
  show (r.del ++ r.tcb.recvBuf.take k) ++ r.tcb.recvBuf.drop k = _
  rw [List.append_assoc, List.take_append_drop]
  exact h.stream

theorem recv_abort {s r : End} {rcvd : Nat} (b : Bool) (h : RecvInv s r rcvd) :
    ∃ rcvd', RecvInv s { r with tcb := r.tcb.abort b } rcvd' := by
  refine ⟨r.del.length, ?_, ?_, ?_, ?_⟩
  · have := congrArg List.length h.stream
    simp only [List.length_append, List.length_take] at this
    omega
  · show r.del ++ [] = _
    rw [List.append_nil]
    exact take_of_append_eq_take h.stream
  · intro hst; exact absurd rfl hst
  · intro _ hab
    exact absurd hab (Tcb.abortErr_abort _ _)

end TV.NetTcp
