/-
  Liveness on a lossless, in-order network (C06): the three folds of one round trip.

  * `segLoop_chain`   — one `segment_one` pass from a clean sender (nothing in flight) emits a chain
                        of data segments covering exactly `min |send_buf| snd_wnd` bytes;
  * `recv_chain`      — a receiver with room takes the whole chain, in order, and answers every
                        segment with an ACK;
  * `ack_chain`       — the sender, fed those ACKs in order, frees exactly the bytes sent.
-/
import TvNetTcp.Model.Pair
import TvNetTcp.Proofs.Wrap

namespace TV.NetTcp

/-- Data segments covering bytes `j … k` of the buffer `B` whose first byte has sequence number `u`. -/
inductive DataChain (B : List Nat) (u : Nat) : Nat → Nat → List Seg → Prop
  | nil (j : Nat) : DataChain B u j j []
  | cons (j n k : Nat) (sg : Seg) (rest : List Seg) :
      0 < n → j + n ≤ k → k ≤ B.length →
      sg.seq = wadd u j → sg.payload = (B.drop j).take n →
      sg.flags.ack = true → sg.flags.fin = false → sg.flags.rst = false → sg.flags.syn = false →
      DataChain B u (j + n) k rest → DataChain B u j k (sg :: rest)

/-- Pure ACKs for bytes `j … k` sent by a receiver whose buffer held `r` bytes before. -/
inductive AckChain (u cap sq : Nat) : Nat → Nat → Nat → List Seg → Prop
  | nil (j r : Nat) : AckChain u cap sq j j r []
  | cons (j n k r : Nat) (sg : Seg) (rest : List Seg) :
      0 < n → j + n ≤ k →
      sg.payload = [] → sg.flags.ack = true → sg.flags.fin = false → sg.flags.rst = false →
      sg.flags.syn = false → sg.seq = sq → sg.ack = wadd u (j + n) → sg.window = advWindow cap (r + n) →
      AckChain u cap sq (j + n) k (r + n) rest → AckChain u cap sq j k r (sg :: rest)

theorem DataChain.le {B : List Nat} {u j k : Nat} {L : List Seg} (h : DataChain B u j k L) : j ≤ k := by
  induction h with
  | nil j => exact Nat.le_refl _
  | cons j n k sg rest hn hjk _ _ _ _ _ _ _ _ ih => omega

theorem inFlight_off (t : Tcb) (u j : Nat) (hu : u < M32) (hj : j < M32) (h1 : t.sndUna = u)
    (h2 : t.sndNxt = wadd u j) : t.inFlight = j := by
  unfold Tcb.inFlight
  rw [h1, h2, wsub_wadd u u j hu hu (by rw [wsub_self]; omega), wsub_self]
  omega

/-- `segment_one`'s loop body when both unsent bytes and window remain. -/
theorem segStep_data (mss cap : Nat) (t : Tcb) (j : Nat) (hfl : t.inFlight = j)
    (hc : 0 < t.sendBuf.length - j ∧ 0 < t.sndWnd - j) :
    ∃ sg : Seg, t.segStep mss cap 0 =
        some ({ t with sndNxt := wadd t.sndNxt (min (min (t.sendBuf.length - j) mss) (t.sndWnd - j)),
                       sndMax := t.advMax (wadd t.sndNxt (min (min (t.sendBuf.length - j) mss) (t.sndWnd - j))) }, sg) ∧
      sg.seq = t.sndNxt ∧ sg.payload = (t.sendBuf.drop j).take (min (min (t.sendBuf.length - j) mss) (t.sndWnd - j)) ∧
      sg.flags.ack = true ∧ sg.flags.fin = false ∧ sg.flags.rst = false ∧ sg.flags.syn = false := by
  unfold Tcb.segStep
  simp only [hfl]
  rw [if_pos hc]
  exact ⟨_, rfl, rfl, rfl, rfl, rfl, rfl, rfl⟩

/-- One `segment_one` pass of a sender with `j` bytes in flight, no FIN queued. -/
theorem segLoop_chain (mss cap : Nat) (hm : 1 ≤ mss) (u : Nat) (hu : u < M32) :
    ∀ (fuel : Nat) (t : Tcb) (j : Nat) (acc : List Seg),
      t.sndUna = u → t.sndNxt = wadd u j → t.sndMax = wadd u j → t.finSeq = none → t.sndWnd < M32 →
      j ≤ min t.sendBuf.length t.sndWnd → min t.sendBuf.length t.sndWnd - j < fuel →
      ∃ L, Tcb.segLoop mss cap 0 fuel t acc =
          ({ t with sndNxt := wadd u (min t.sendBuf.length t.sndWnd), sndMax := wadd u (min t.sendBuf.length t.sndWnd) },
            acc ++ L) ∧
        DataChain t.sendBuf u j (min t.sendBuf.length t.sndWnd) L := by
  intro fuel
  induction fuel with
  | zero => intro t j acc _ _ _ _ _ _ hf; omega
  | succ fuel ih =>
    intro t j acc h1 h2 h2m h3 hw hj hf
    have hjlt : j < M32 := by omega
    have hfl := inFlight_off t u j hu hjlt h1 h2
    by_cases hlt : j < min t.sendBuf.length t.sndWnd
    · have hc : 0 < t.sendBuf.length - j ∧ 0 < t.sndWnd - j := by omega
      obtain ⟨sg, hst, hseq, hpay, hfa, hff, hfr, hfs⟩ := segStep_data mss cap t j hfl hc
      have hn : 0 < min (min (t.sendBuf.length - j) mss) (t.sndWnd - j) := by omega
      have hle : j + min (min (t.sendBuf.length - j) mss) (t.sndWnd - j) ≤ min t.sendBuf.length t.sndWnd := by omega
      have hadv : t.advMax (wadd t.sndNxt (min (min (t.sendBuf.length - j) mss) (t.sndWnd - j))) =
          wadd u (j + min (min (t.sendBuf.length - j) mss) (t.sndWnd - j)) := by
        unfold Tcb.advMax
        rw [h2, h2m, h1, wadd_wadd, wsub_wadd u u _ hu hu (by rw [wsub_self]; omega),
          wsub_wadd u u _ hu hu (by rw [wsub_self]; omega), wsub_self]
        rw [if_pos (by omega)]
      rw [hadv] at hst
      obtain ⟨L, hL, hch⟩ := ih { t with sndNxt := wadd t.sndNxt (min (min (t.sendBuf.length - j) mss) (t.sndWnd - j)),
                                         sndMax := wadd u (j + min (min (t.sendBuf.length - j) mss) (t.sndWnd - j)) }
        (j + min (min (t.sendBuf.length - j) mss) (t.sndWnd - j)) (acc ++ [sg]) h1
        (by dsimp only; rw [h2, wadd_wadd]) rfl h3 hw hle (by dsimp only; omega)
      refine ⟨sg :: L, ?_, ?_⟩
      · unfold Tcb.segLoop
        rw [hst]
        dsimp only
        rw [hL]
        simp
      · exact DataChain.cons j _ _ sg L hn hle (by omega) (hseq.trans h2) hpay hfa hff hfr hfs hch
    · have hjk : j = min t.sendBuf.length t.sndWnd := by omega
      have hc : ¬ (0 < t.sendBuf.length - j ∧ 0 < t.sndWnd - j) := by omega
      have hfp : t.finPending = false := by unfold Tcb.finPending; rw [h3]
      have hst : t.segStep mss cap 0 = none := by
        unfold Tcb.segStep
        simp only [hfl]
        rw [if_neg hc]
        simp [hfp]
      refine ⟨[], ?_, ?_⟩
      · unfold Tcb.segLoop
        rw [hst, ← hjk]
        cases t
        simp only at h2 h2m
        subst h2 h2m
        simp
      · rw [← hjk]; exact DataChain.nil j

/-- The TCB of a receiver after it accepted the whole payload of an in-order segment. -/
def Tcb.took (t : Tcb) (sg : Seg) : Tcb :=
  { t with sndWnd := sg.window, recvBuf := t.recvBuf ++ sg.payload, rcvNxt := wadd t.rcvNxt sg.payload.length }

/-- An in-order data segment that fits is taken whole and acknowledged; a receiver with nothing of
    its own in flight changes nothing else. -/
theorem recv_data (cfg : Cfg) (e : End) (sg : Seg) (hst : e.tcb.state = .established)
    (hpf : e.tcb.peerFin = false) (hfl : e.tcb.sndNxt = e.tcb.sndUna) (hmx : e.tcb.sndMax = e.tcb.sndUna)
    (hseq : sg.seq = e.tcb.rcvNxt) (hne : sg.payload ≠ []) (hroom : e.tcb.recvBuf.length + sg.payload.length ≤ cfg.recvCap)
    (hfa : sg.flags.ack = true) (hff : sg.flags.fin = false) (hfr : sg.flags.rst = false) :
    endRecv cfg e sg =
      { e with tcb := e.tcb.took sg, out := e.out ++ [(e.tcb.took sg).ackSeg cfg.recvCap 0 0] } := by
  have hif : e.tcb.inFlight = 0 := by unfold Tcb.inFlight; rw [hfl, wsub_self]
  have hbd : e.tcb.ackBound cfg.fixSndMax = 0 := by
    unfold Tcb.ackBound
    split
    · rw [hmx, wsub_self]
    · exact hif
  have hav : e.tcb.ackValid cfg.fixSndMax sg.ack = false := by
    unfold Tcb.ackValid
    rw [hbd]
    by_cases h : 0 < wsub sg.ack e.tcb.sndUna
    · have : ¬ (wsub sg.ack e.tcb.sndUna ≤ 0) := by omega
      simp [this]
    · simp [h]
  have hlen : 0 < sg.payload.length := by
    cases hp : sg.payload with
    | nil => exact absurd hp hne
    | cons a b => simp
  have hacc : Tcb.acceptLen cfg.recvCap (e.tcb.onAck cfg.fixSndMax sg) sg = sg.payload.length := by
    unfold Tcb.acceptLen Tcb.onAck
    rw [hfa, hav]
    simp only [if_true, Bool.false_eq_true, if_false]
    rw [if_pos ⟨hne, hseq, hpf⟩]
    omega
  unfold endRecv
  rw [hfr, hst]
  simp only [Bool.false_eq_true, if_false]
  have hne' : ¬ ((TcpState.established == TcpState.closed) = true) := by decide
  rw [if_neg hne']
  have hhe : e.tcb.handleEstablished cfg sg = (e.tcb.took sg, true) := by
    unfold Tcb.handleEstablished
    dsimp only
    unfold Tcb.onData
    dsimp only
    rw [hacc, if_pos hlen]
    dsimp only
    unfold Tcb.onFin
    rw [hff]
    simp only [Bool.false_eq_true, false_and, if_false]
    unfold Tcb.took Tcb.onAck
    rw [hfa, hav]
    simp
  rw [hhe]
  have hrep : Tcb.replySeg cfg (e.tcb.took sg) sg 0 0 = Tcb.ackSeg cfg.recvCap (e.tcb.took sg) 0 0 := by
    unfold Tcb.replySeg Tcb.oldDup
    have : sg.payload.isEmpty = false := by
      cases hp : sg.payload with
      | nil => exact absurd hp hne
      | cons a b => rfl
    simp [this]
  simp [hrep]

theorem take_split (l : List Nat) (n m : Nat) (h : n ≤ m) : l.take m = l.take n ++ (l.drop n).take (m - n) := by
  have : m = n + (m - n) := by omega
  rw [this, List.take_add]
  simp

/-- A receiver with room for bytes `j … k` takes the whole chain in order and answers every segment. -/
theorem recv_chain (cfg : Cfg) (B : List Nat) (u : Nat) {j k : Nat} {L : List Seg} (h : DataChain B u j k L) :
    ∀ e : End, e.tcb.state = .established → e.tcb.peerFin = false → e.tcb.sndNxt = e.tcb.sndUna →
      e.tcb.sndMax = e.tcb.sndUna → e.tcb.rcvNxt = wadd u j → e.tcb.recvBuf.length + (k - j) ≤ cfg.recvCap →
      ∃ (w : Nat) (A : List Seg),
        L.foldl (endRecv cfg) e =
          { e with tcb := { e.tcb with sndWnd := w, recvBuf := e.tcb.recvBuf ++ (B.drop j).take (k - j),
                                       rcvNxt := wadd u k },
                   out := e.out ++ A } ∧
        AckChain u cfg.recvCap e.tcb.sndNxt j k e.tcb.recvBuf.length A ∧ (j = k → w = e.tcb.sndWnd) := by
  induction h with
  | nil j =>
    intro e _ _ _ _ hrn _
    refine ⟨e.tcb.sndWnd, [], ?_, AckChain.nil j _, fun _ => rfl⟩
    simp [← hrn]
  | cons j n k sg rest hn hjk hkB hseq hpay hfa hff hfr hfs hch ih =>
    intro e hst hpf hfl hmx hrn hroom
    have hplen : sg.payload.length = n := by
      rw [hpay, List.length_take, List.length_drop]; omega
    have hne : sg.payload ≠ [] := by
      intro h0; rw [h0] at hplen; simp at hplen; omega
    have h1 := recv_data cfg e sg hst hpf hfl hmx (hseq.trans hrn.symm) hne (by omega) hfa hff hfr
    have hle := hch.le
    obtain ⟨w, A, hA, hAc, _⟩ := ih { e with tcb := e.tcb.took sg, out := e.out ++ [(e.tcb.took sg).ackSeg cfg.recvCap 0 0] }
      hst hpf hfl hmx (by simp only [Tcb.took]; rw [hrn, hplen, wadd_wadd])
      (by simp only [Tcb.took, List.length_append]; omega)
    refine ⟨w, (e.tcb.took sg).ackSeg cfg.recvCap 0 0 :: A, ?_, ?_, fun hjk' => by omega⟩
    · rw [List.foldl_cons, h1, hA]
      have hsplit := take_split (B.drop j) n (k - j) (by omega)
      rw [List.drop_drop] at hsplit
      have hkk : k - j - n = k - (j + n) := by omega
      simp only [Tcb.took, List.append_assoc, List.cons_append, List.nil_append]
      rw [hsplit, hpay, hkk]
    · refine AckChain.cons j n k _ _ A hn hjk rfl rfl rfl rfl rfl rfl ?_ ?_ ?_
      · simp only [Tcb.ackSeg, Tcb.took]; rw [hrn, hplen, wadd_wadd]
      · simp only [Tcb.ackSeg, Tcb.took, List.length_append]; rw [hplen]
      · have : e.tcb.recvBuf.length + n = (e.tcb.took sg).recvBuf.length := by
          simp only [Tcb.took, List.length_append]; rw [hplen]
        rw [this]; exact hAc

/-- A pure ACK (no payload, no FIN / SYN / RST) at an established endpoint with no FIN queued: a
    valid one frees the acknowledged bytes and resets the retransmit state; any one sets the window. -/
theorem recv_pure_ack (cfg : Cfg) (e : End) (sg : Seg) (hst : e.tcb.state = .established)
    (hfin : e.tcb.finSeq = none) (hmn : e.tcb.sndMax = e.tcb.sndNxt) (hsq : sg.seq = e.tcb.rcvNxt)
    (hp : sg.payload = []) (hfa : sg.flags.ack = true)
    (hff : sg.flags.fin = false) (hfr : sg.flags.rst = false) (hfs : sg.flags.syn = false) :
    endRecv cfg e sg =
      { e with tcb :=
          if 0 < wsub sg.ack e.tcb.sndUna ∧ wsub sg.ack e.tcb.sndUna ≤ e.tcb.inFlight then
            { e.tcb with sendBuf := e.tcb.sendBuf.drop (wsub sg.ack e.tcb.sndUna), sndUna := sg.ack,
                         egressSinceAck := 0, retxAttempts := 0, sndWnd := sg.window }
          else { e.tcb with sndWnd := sg.window } } := by
  have hbd : e.tcb.ackBound cfg.fixSndMax = e.tcb.inFlight := by
    unfold Tcb.ackBound Tcb.inFlight
    split
    · rw [hmn]
    · rfl
  have hon : e.tcb.onAck cfg.fixSndMax sg =
      if 0 < wsub sg.ack e.tcb.sndUna ∧ wsub sg.ack e.tcb.sndUna ≤ e.tcb.inFlight then
        { e.tcb with sendBuf := e.tcb.sendBuf.drop (wsub sg.ack e.tcb.sndUna), sndUna := sg.ack,
                     egressSinceAck := 0, retxAttempts := 0, sndWnd := sg.window }
      else { e.tcb with sndWnd := sg.window } := by
    unfold Tcb.onAck
    rw [hfa]
    simp only [if_true]
    by_cases hv : 0 < wsub sg.ack e.tcb.sndUna ∧ wsub sg.ack e.tcb.sndUna ≤ e.tcb.inFlight
    · have : e.tcb.ackValid cfg.fixSndMax sg.ack = true := by unfold Tcb.ackValid; rw [hbd]; simp [hv.1, hv.2]
      rw [this, if_pos hv]
      unfold Tcb.ackAdvance Tcb.finAckedBy
      rw [hfin]
      have hng : ¬ (wsub sg.ack e.tcb.sndUna > e.tcb.inFlight) := Nat.not_lt.mpr hv.2
      simp [hng]
    · have : e.tcb.ackValid cfg.fixSndMax sg.ack = false := by
        unfold Tcb.ackValid
        rw [hbd]
        by_cases h1 : 0 < wsub sg.ack e.tcb.sndUna
        · have : ¬ (wsub sg.ack e.tcb.sndUna ≤ e.tcb.inFlight) := fun h2 => hv ⟨h1, h2⟩
          simp [this]
        · simp [h1]
      rw [this, if_neg hv]
      simp
  have hhe : e.tcb.handleEstablished cfg sg = (e.tcb.onAck cfg.fixSndMax sg, false) := by
    unfold Tcb.handleEstablished
    dsimp only
    have hal : ∀ t : Tcb, Tcb.acceptLen cfg.recvCap t sg = 0 := by
      intro t; unfold Tcb.acceptLen; rw [hp]; simp
    unfold Tcb.onData
    dsimp only
    rw [hal]
    simp only [Nat.lt_irrefl, if_false]
    unfold Tcb.onFin
    rw [hff, hfs, hp]
    have hrn : (e.tcb.onAck cfg.fixSndMax sg).rcvNxt = e.tcb.rcvNxt := by
      rw [hon]
      split <;> rfl
    have hod : (e.tcb.onAck cfg.fixSndMax sg).oldDup sg = false := by
      unfold Tcb.oldDup
      rw [hrn, hsq, wsub_self]
      simp
    simp [hod]
  have hst' : (e.tcb.state == TcpState.closed) = false := by rw [hst]; decide
  unfold endRecv
  rw [hfr, hst', hhe, hon]
  simp

/-- The sender, fed the receiver's ACKs in order, frees exactly bytes `j … k`; its window is the last
    one advertised and its retransmit state is reset. -/
theorem ack_chain (cfg : Cfg) (u cap sq : Nat) {j k r : Nat} {A : List Seg}
    (h : AckChain u cap sq j k r A) (hk : k < M32) :
    ∀ e : End, e.tcb.state = .established → e.tcb.finSeq = none → e.tcb.sndMax = e.tcb.sndNxt →
      e.tcb.rcvNxt = sq → e.tcb.sndUna = wadd u j → e.tcb.sndNxt = wadd u k →
      A.foldl (endRecv cfg) e =
        { e with tcb :=
            { e.tcb with sendBuf := e.tcb.sendBuf.drop (k - j), sndUna := wadd u k,
                         sndWnd := if j = k then e.tcb.sndWnd else advWindow cap (r + (k - j)),
                         egressSinceAck := if j = k then e.tcb.egressSinceAck else 0,
                         retxAttempts := if j = k then e.tcb.retxAttempts else 0 } } := by
  induction h with
  | nil j r =>
    intro e _ _ _ _ hun _
    simp [← hun]
  | cons j n k r sg rest hn hjk hp hfa hff hfr hfs hsq hack hwin hch ih =>
    intro e hst hfin hmn hrn hun hnx
    have hle : j + n ≤ k := hjk
    have hacked : wsub sg.ack e.tcb.sndUna = n := by
      rw [hack, hun, wsub_wadd_wadd u j (j + n) (by omega) (by omega)]; omega
    have hinfl : e.tcb.inFlight = k - j := by
      unfold Tcb.inFlight
      rw [hnx, hun, wsub_wadd_wadd u j k (by omega) hk]
    have h1 := recv_pure_ack cfg e sg hst hfin hmn (hsq.trans hrn.symm) hp hfa hff hfr hfs
    rw [hacked, hinfl, if_pos (by omega : 0 < n ∧ n ≤ k - j)] at h1
    have hle2 := hjk
    have ih' := ih hk (endRecv cfg e sg) (by rw [h1]; exact hst) (by rw [h1]; exact hfin) (by rw [h1]; exact hmn)
      (by rw [h1]; exact hrn) (by rw [h1]; exact hack) (by rw [h1]; exact hnx)
    rw [List.foldl_cons, ih', h1]
    have hne : j ≠ k := by omega
    simp only [if_neg hne, List.drop_drop, hwin]
    have e1 : n + (k - (j + n)) = k - j := by omega
    by_cases hjn : j + n = k
    · have e3 : k - j = n := by omega
      simp [hjn, e3]
    · have e2 : r + n + (k - (j + n)) = r + (k - j) := by omega
      simp [hjn, e1, e2]

/-! ## The steps of one round at a clean, established endpoint -/

/-- `poll_send` at an open, established endpoint: a prefix of the buffer is appended (possibly empty:
    `Pending` when the send buffer is full); at least one byte when the send buffer is empty. -/
theorem write_step (cfg : Cfg) (mss : Nat) (e o : End) (buf : List Nat) (hst : e.tcb.state = .established)
    (hrs : e.tcb.reset = false) (hto : e.tcb.timedOut = false) (hwr : e.tcb.wrClosed = false) :
    ∃ n, n ≤ buf.length ∧
      endStep cfg mss e o (.write buf) =
        { e with tcb := { e.tcb with sendBuf := e.tcb.sendBuf ++ buf.take n }, acc := e.acc ++ buf.take n } ∧
      (e.tcb.sendBuf = [] → 1 ≤ cfg.sendCap → buf ≠ [] → 0 < n) := by
  have hab : e.tcb.abortErr = none := by unfold Tcb.abortErr; simp [hrs, hto]
  by_cases hsp : cfg.sendCap - e.tcb.sendBuf.length = 0
  · refine ⟨0, Nat.zero_le _, ?_, ?_⟩
    · have hps : e.tcb.pollSend cfg.sendCap buf = (e.tcb, .pending) := by
        unfold Tcb.pollSend
        rw [hab]
        simp [hwr, hst, hsp]
      simp only [endStep, hps]
      obtain ⟨t, acc, del, iss, out⟩ := e
      simp
    · intro hsb hc _
      rw [hsb] at hsp
      simp at hsp
      omega
  · refine ⟨min buf.length (cfg.sendCap - e.tcb.sendBuf.length), Nat.min_le_left _ _, ?_, ?_⟩
    · have hps : e.tcb.pollSend cfg.sendCap buf =
          ({ e.tcb with sendBuf := e.tcb.sendBuf ++ buf.take (min buf.length (cfg.sendCap - e.tcb.sendBuf.length)) },
            .ok (min buf.length (cfg.sendCap - e.tcb.sendBuf.length))) := by
        unfold Tcb.pollSend
        rw [hab]
        simp [hwr, hst, hsp]
      simp only [endStep, hps]
    · intro _ _ hne
      have : 0 < buf.length := by
        cases buf with
        | nil => exact absurd rfl hne
        | cons a b => simp
      omega

/-- `check_retx` leaves an established socket with nothing in flight alone. -/
theorem retx_noop (cfg : Cfg) (mss a b : Nat) (e o : End) (hst : e.tcb.state = .established)
    (hfl : e.tcb.sndNxt = e.tcb.sndUna) : endStep cfg mss e o (.retx a b) = e := by
  have : e.tcb.retxCandidate = false := by
    unfold Tcb.retxCandidate Tcb.isHandshake
    rw [hst, hfl]
    simp
  simp [endStep, this]

/-- `segment_all` skips a socket with an empty send buffer and no FIN queued. -/
theorem segment_noop (cfg : Cfg) (mss : Nat) (e o : End) (hsb : e.tcb.sendBuf = [])
    (hfl : e.tcb.sndNxt = e.tcb.sndUna) (hfin : e.tcb.finSeq = none) : endStep cfg mss e o .segment = e := by
  have : e.tcb.segCandidate = false := by
    unfold Tcb.segCandidate Tcb.finPending Tcb.inFlight
    rw [hsb, hfin, hfl, wsub_self]
    simp
  simp [endStep, this]

/-- `segment_one` at a clean sender: a chain covering `min |send_buf| snd_wnd` bytes. -/
theorem segment_step (cfg : Cfg) (mss : Nat) (hm : 1 ≤ mss) (e o : End) (hst : e.tcb.state = .established)
    (hlt : e.tcb.sndUna < M32) (hfl : e.tcb.sndNxt = e.tcb.sndUna) (hmx : e.tcb.sndMax = e.tcb.sndUna)
    (hfin : e.tcb.finSeq = none) (hw : e.tcb.sndWnd < M32) :
    ∃ L, endStep cfg mss e o .segment =
        { e with tcb := { e.tcb with sndNxt := wadd e.tcb.sndUna (min e.tcb.sendBuf.length e.tcb.sndWnd),
                                     sndMax := wadd e.tcb.sndUna (min e.tcb.sendBuf.length e.tcb.sndWnd) },
                 out := e.out ++ L } ∧
      DataChain e.tcb.sendBuf e.tcb.sndUna 0 (min e.tcb.sendBuf.length e.tcb.sndWnd) L := by
  have hnx0 : e.tcb.sndNxt = wadd e.tcb.sndUna 0 := by rw [wadd_zero _ hlt]; exact hfl
  have hmx0 : e.tcb.sndMax = wadd e.tcb.sndUna 0 := by rw [wadd_zero _ hlt]; exact hmx
  by_cases hc : e.tcb.segCandidate = true
  · obtain ⟨L, hL, hch⟩ := segLoop_chain mss cfg.recvCap hm e.tcb.sndUna hlt (e.tcb.sendBuf.length + 2) e.tcb 0 []
      rfl hnx0 hmx0 hfin hw (Nat.zero_le _) (by omega)
    refine ⟨L, ?_, hch⟩
    simp only [endStep, hc, if_true]
    rw [hL]
    simp
  · have hlen : e.tcb.sendBuf.length = 0 := by
      unfold Tcb.segCandidate Tcb.finPending Tcb.inFlight Tcb.transmittable at hc
      rw [hfin, hfl, wsub_self, hst] at hc
      simp at hc
      rw [hc]; rfl
    refine ⟨[], ?_, ?_⟩
    · have hcf : e.tcb.segCandidate = false := by simpa using hc
      simp only [endStep, hcf]
      rw [hlen]
      obtain ⟨t, a, b, c, o'⟩ := e
      cases t
      simp only at hnx0 hmx0
      subst hnx0 hmx0
      simp
    · rw [hlen]; simp; exact DataChain.nil 0

/-- `poll_recv` with a buffer at least as large as what is queued drains the receive buffer; a
    window update follows when the read was at least half the cap, or (repair `fixWinUpdate`) when
    it reopened a closed window. -/
theorem read_step (cfg : Cfg) (mss n : Nat) (e o : End) (hst : e.tcb.state = .established)
    (hrs : e.tcb.reset = false) (hto : e.tcb.timedOut = false) (hpf : e.tcb.peerFin = false)
    (hn : e.tcb.recvBuf.length ≤ n) :
    endStep cfg mss e o (.read n) =
      { e with tcb := { e.tcb with recvBuf := [] }, del := e.del ++ e.tcb.recvBuf,
               out := e.out ++
                 (if e.tcb.recvBuf ≠ [] ∧
                     (decide (e.tcb.recvBuf.length ≥ cfg.recvCap / 2) ||
                      (cfg.fixWinUpdate && (advWindow cfg.recvCap e.tcb.recvBuf.length == 0) &&
                        decide (0 < e.tcb.recvBuf.length))) = true
                  then [({ e.tcb with recvBuf := [] } : Tcb).ackSeg cfg.recvCap 0 0] else []) } := by
  have hab : e.tcb.abortErr = none := by unfold Tcb.abortErr; simp [hrs, hto]
  by_cases hemp : e.tcb.recvBuf = []
  · have hr : e.tcb.readableState = true := by unfold Tcb.readableState; rw [hst]
    have hpr : e.tcb.pollRecv cfg n = (e.tcb, .pending, false) := by
      unfold Tcb.pollRecv
      rw [hab]
      simp [hemp, hpf, hr]
    simp only [endStep, hpr]
    obtain ⟨t, acc, del, iss, out⟩ := e
    cases t
    simp only at hemp
    simp [hemp]
  · have hk : min e.tcb.recvBuf.length n = e.tcb.recvBuf.length := by omega
    have hie : e.tcb.recvBuf.isEmpty = false := by
      cases h : e.tcb.recvBuf with
      | nil => exact absurd h hemp
      | cons a b => rfl
    simp only [endStep, Tcb.pollRecv, hab, hie, hk]
    by_cases hu : (decide (e.tcb.recvBuf.length ≥ cfg.recvCap / 2) ||
                      (cfg.fixWinUpdate && (advWindow cfg.recvCap e.tcb.recvBuf.length == 0) &&
                        decide (0 < e.tcb.recvBuf.length))) = true
    · simp [hu, hemp]
    · simp [hu, hemp]

/-! ## One lossless round -/

/-- Round-boundary invariant of the direction `x → y`: both ends established and open, nothing in
    flight either way, the receiver's buffer drained, the sender's view of the window positive and
    not above the receiver's real room. -/
structure LInv (cfg : Cfg) (p : Pair) : Prop where
  xst : p.x.tcb.state = .established
  xwr : p.x.tcb.wrClosed = false
  xfin : p.x.tcb.finSeq = none
  xrs : p.x.tcb.reset = false
  xto : p.x.tcb.timedOut = false
  xfl : p.x.tcb.sndNxt = p.x.tcb.sndUna
  xlt : p.x.tcb.sndUna < M32
  xw1 : 1 ≤ p.x.tcb.sndWnd
  xw2 : p.x.tcb.sndWnd ≤ advWindow cfg.recvCap 0
  xes : p.x.tcb.egressSinceAck = 0
  xmx : p.x.tcb.sndMax = p.x.tcb.sndUna
  yst : p.y.tcb.state = .established
  yfl : p.y.tcb.sndNxt = p.y.tcb.sndUna
  ysb : p.y.tcb.sendBuf = []
  yrb : p.y.tcb.recvBuf = []
  ypf : p.y.tcb.peerFin = false
  yfin : p.y.tcb.finSeq = none
  yrs : p.y.tcb.reset = false
  yto : p.y.tcb.timedOut = false
  yrn : p.y.tcb.rcvNxt = p.x.tcb.sndUna
  xrn : p.x.tcb.rcvNxt = p.y.tcb.sndNxt
  ymx : p.y.tcb.sndMax = p.y.tcb.sndUna

/-- An endpoint after `poll_send` accepted `w`. -/
def End.wrote (e : End) (w : List Nat) : End :=
  { e with tcb := { e.tcb with sendBuf := e.tcb.sendBuf ++ w }, acc := e.acc ++ w }

/-- A clean sender after a `segment_one` pass that put `k` bytes in flight as the segments `L`. -/
def End.sent (e : End) (k : Nat) (L : List Seg) : End :=
  { e with tcb := { e.tcb with sndNxt := wadd e.tcb.sndUna k, sndMax := wadd e.tcb.sndUna k }, out := e.out ++ L }

/-- A receiver after it took a chain: window `wy` seen, buffer `R`, next expected `rn`, ACKs `A` sent. -/
def End.got (e : End) (wy rn : Nat) (R : List Nat) (A : List Seg) : End :=
  { e with tcb := { e.tcb with sndWnd := wy, recvBuf := R, rcvNxt := rn }, out := e.out ++ A }

/-- A reader after it drained its receive buffer, with the window updates `U` sent. -/
def End.drained (e : End) (U : List Seg) : End :=
  { e with tcb := { e.tcb with recvBuf := [] }, del := e.del ++ e.tcb.recvBuf, out := e.out ++ U }

/-- A sender after `k` bytes were acknowledged. -/
def End.acked (e : End) (k ua wnd ea ra : Nat) : End :=
  { e with tcb := { e.tcb with sendBuf := e.tcb.sendBuf.drop k, sndUna := ua, sndWnd := wnd,
                               egressSinceAck := ea, retxAttempts := ra } }

/-- A sender whose `egress_since_ack` counter stands at `n`. -/
def End.ticked (e : End) (n : Nat) : End :=
  { e with tcb := { e.tcb with egressSinceAck := n } }

/-- `d` further `check_retx` passes at an endpoint (the other endpoint is not looked at). -/
def retxN (cfg : Cfg) (mss thr max : Nat) (o : End) : Nat → End → End
  | 0, e => e
  | d + 1, e => retxN cfg mss thr max o d (endStep cfg mss e o (.retx thr max))

/-- `d` retransmit ticks below the threshold only count: nothing is rewound, nothing aborts; with
    nothing in flight they do not even count. -/
theorem retxN_ticks (cfg : Cfg) (mss thr max : Nat) (o : End) : ∀ (d : Nat) (e : End),
    e.tcb.state = .established → (d = 0 ∨ e.tcb.sndUna = e.tcb.sndNxt ∨ e.tcb.egressSinceAck + d < thr) →
    retxN cfg mss thr max o d e =
      if e.tcb.sndUna = e.tcb.sndNxt then e else e.ticked (e.tcb.egressSinceAck + d) := by
  intro d
  induction d with
  | zero =>
    intro e _ _
    simp only [retxN, Nat.add_zero]
    split
    · rfl
    · obtain ⟨t, a, b, c, o'⟩ := e; cases t; rfl
  | succ d ih =>
    intro e hst hc
    by_cases hfl : e.tcb.sndUna = e.tcb.sndNxt
    · have hnoop : endStep cfg mss e o (.retx thr max) = e := retx_noop cfg mss thr max e o hst hfl.symm
      simp only [retxN, hnoop]
      rw [ih e hst (Or.inr (Or.inl hfl)), if_pos hfl, if_pos hfl]
    · have hlt : e.tcb.egressSinceAck + (d + 1) < thr := by
        rcases hc with hc | hc | hc
        · omega
        · exact absurd hc hfl
        · exact hc
      have hcand : e.tcb.retxCandidate = true := by
        unfold Tcb.retxCandidate Tcb.isHandshake Tcb.transmittable
        rw [hst]
        simp [hfl]
      have hnh : e.tcb.isHandshake = false := by unfold Tcb.isHandshake; rw [hst]; decide
      have hstep : endStep cfg mss e o (.retx thr max) = e.ticked (e.tcb.egressSinceAck + 1) := by
        simp only [endStep, hcand, hnh, Tcb.retxTick]
        have : e.tcb.egressSinceAck + 1 < thr := by omega
        simp [this, End.ticked]
      simp only [retxN, hstep]
      rw [ih (e.ticked (e.tcb.egressSinceAck + 1)) hst (Or.inr (Or.inr (by show e.tcb.egressSinceAck + 1 + d < thr; omega)))]
      have h1 : ¬ ((e.ticked (e.tcb.egressSinceAck + 1)).tcb.sndUna = (e.ticked (e.tcb.egressSinceAck + 1)).tcb.sndNxt) := hfl
      rw [if_neg h1, if_neg hfl]
      simp only [End.ticked]
      have : e.tcb.egressSinceAck + 1 + d = e.tcb.egressSinceAck + (d + 1) := by omega
      rw [this]

/-- One round on a network that loses nothing and delivers in order: the writer offers `w`, both
    kernels run `check_retx` and `segment_all`, everything `x` emitted reaches `y` in order, the
    reader reads with an `n`-byte buffer, the sender's kernel runs `d` more `check_retx` passes (the
    round-trip time in egress ticks), then everything `y` emitted reaches `x` in order. -/
def liveRound (cfg : Cfg) (mss thr max d n : Nat) (w : List Nat) (p : Pair) : Pair :=
  let x1 := endStep cfg mss p.x p.y (.write w)
  let x2 := endStep cfg mss x1 p.y (.retx thr max)
  let y1 := endStep cfg mss p.y x2 (.retx thr max)
  let x3 := endStep cfg mss x2 y1 .segment
  let y2 := endStep cfg mss y1 x3 .segment
  let y3 := ((x3.out.drop p.x.out.length).take (x3.out.length - p.x.out.length)).foldl (endRecv cfg) y2
  let y4 := endStep cfg mss y3 x3 (.read n)
  let x3t := retxN cfg mss thr max y4 d x3
  let x4 := ((y4.out.drop p.y.out.length).take (y4.out.length - p.y.out.length)).foldl (endRecv cfg) x3t
  { x := x4, y := y4 }

theorem advWindow_le (cap k : Nat) : advWindow cap k ≤ advWindow cap 0 := by
  unfold advWindow; omega

theorem drop_take_append (a l : List Seg) : ((a ++ l).drop a.length).take ((a ++ l).length - a.length) = l := by
  simp

/-- The round keeps the invariant, moves `k = min |send_buf| snd_wnd` bytes from the sender's buffer
    to the reader, and `k ≥ 1` whenever there is anything to move. -/
theorem liveRound_ok (cfg : Cfg) (mss thr max d n : Nat) (w : List Nat) (p : Pair) (hm : 1 ≤ mss)
    (hd : d = 0 ∨ d < thr) (hsc : 1 ≤ cfg.sendCap) (hrc : 1 ≤ cfg.recvCap) (hfw : cfg.fixWinUpdate = true) (hn : cfg.recvCap ≤ n)
    (h : LInv cfg p) :
    LInv cfg (liveRound cfg mss thr max d n w p) ∧
    ∃ m k, m ≤ w.length ∧
      (liveRound cfg mss thr max d n w p).x.acc = p.x.acc ++ w.take m ∧
      (liveRound cfg mss thr max d n w p).y.del = p.y.del ++ (p.x.tcb.sendBuf ++ w.take m).take k ∧
      (liveRound cfg mss thr max d n w p).x.tcb.sendBuf = (p.x.tcb.sendBuf ++ w.take m).drop k ∧
      (liveRound cfg mss thr max d n w p).y.acc = p.y.acc ∧
      k ≤ (p.x.tcb.sendBuf ++ w.take m).length ∧
      (p.x.tcb.sendBuf ≠ [] ∨ w ≠ [] → 0 < k) ∧ (p.x.tcb.sendBuf = [] → w ≠ [] → 0 < m) := by
  obtain ⟨m, hmle, hx1, hmpos⟩ := write_step cfg mss p.x p.y w h.xst h.xrs h.xto h.xwr
  have hx1' : endStep cfg mss p.x p.y (.write w) = p.x.wrote (w.take m) := hx1
  have hx2 : endStep cfg mss (p.x.wrote (w.take m)) p.y (.retx thr max) = p.x.wrote (w.take m) :=
    retx_noop cfg mss thr max _ p.y h.xst h.xfl
  have hy1 : endStep cfg mss p.y (p.x.wrote (w.take m)) (.retx thr max) = p.y :=
    retx_noop cfg mss thr max p.y _ h.yst h.yfl
  have hwlt : p.x.tcb.sndWnd < M32 := by
    have := h.xw2; unfold advWindow at this; unfold M32; omega
  obtain ⟨L, hx3, hch⟩ := segment_step cfg mss hm (p.x.wrote (w.take m)) p.y h.xst h.xlt h.xfl h.xmx h.xfin hwlt
  have hx3' : endStep cfg mss (p.x.wrote (w.take m)) p.y .segment =
      (p.x.wrote (w.take m)).sent (min (p.x.tcb.sendBuf ++ w.take m).length p.x.tcb.sndWnd) L := hx3
  have hy2 : ∀ o, endStep cfg mss p.y o .segment = p.y := fun o => segment_noop cfg mss p.y o h.ysb h.yfl h.yfin
  -- names
  generalize hB : p.x.tcb.sendBuf ++ w.take m = B at *
  generalize hk : min B.length p.x.tcb.sndWnd = k at *
  have hkw : k ≤ p.x.tcb.sndWnd := by omega
  have hkB : k ≤ B.length := by omega
  have hkcap : k ≤ cfg.recvCap := by
    have := h.xw2; unfold advWindow at this; omega
  have hk32 : k < M32 := by omega
  -- y takes the chain
  have hch' : DataChain B p.x.tcb.sndUna 0 k L := by
    have := hch
    simp only [End.wrote, hB] at this
    rw [← hk]; simpa [List.length_append] using this
  obtain ⟨wy, A, hY3, hAc, _⟩ := recv_chain cfg B p.x.tcb.sndUna hch' p.y h.yst h.ypf h.yfl h.ymx
    (by rw [h.yrn, wadd_zero _ h.xlt]) (by rw [h.yrb]; simp; omega)
  rw [h.yrb] at hY3 hAc
  simp only [List.nil_append, List.drop_zero, Nat.sub_zero, List.length_nil] at hY3 hAc
  clear hx1 hx3 hch
  have hY3' : L.foldl (endRecv cfg) p.y = p.y.got wy (wadd p.x.tcb.sndUna k) (B.take k) A := hY3
  -- the reader drains
  have hlenR : (B.take k).length = k := by rw [List.length_take]; omega
  have hY4 := read_step cfg mss n (p.y.got wy (wadd p.x.tcb.sndUna k) (B.take k) A)
    ((p.x.wrote (w.take m)).sent k L) h.yst h.yrs h.yto h.ypf (by show (B.take k).length ≤ n; omega)
  generalize hU : (if (p.y.got wy (wadd p.x.tcb.sndUna k) (B.take k) A).tcb.recvBuf ≠ [] ∧
      (decide ((p.y.got wy (wadd p.x.tcb.sndUna k) (B.take k) A).tcb.recvBuf.length ≥ cfg.recvCap / 2) ||
        (cfg.fixWinUpdate && (advWindow cfg.recvCap (p.y.got wy (wadd p.x.tcb.sndUna k) (B.take k) A).tcb.recvBuf.length == 0) &&
          decide (0 < (p.y.got wy (wadd p.x.tcb.sndUna k) (B.take k) A).tcb.recvBuf.length))) = true
      then [({ (p.y.got wy (wadd p.x.tcb.sndUna k) (B.take k) A).tcb with recvBuf := [] } : Tcb).ackSeg cfg.recvCap 0 0]
      else []) = U at hY4
  have hY4' : endStep cfg mss (p.y.got wy (wadd p.x.tcb.sndUna k) (B.take k) A) ((p.x.wrote (w.take m)).sent k L) (.read n) =
      (p.y.got wy (wadd p.x.tcb.sndUna k) (B.take k) A).drained U := hY4
  -- the sender's retransmit ticks while the ACKs travel
  have hT : ∃ tk, (k = 0 → tk = 0) ∧
      retxN cfg mss thr max ((p.y.got wy (wadd p.x.tcb.sndUna k) (B.take k) A).drained U) d
        ((p.x.wrote (w.take m)).sent k L) = ((p.x.wrote (w.take m)).sent k L).ticked tk := by
    have hes : ((p.x.wrote (w.take m)).sent k L).tcb.egressSinceAck = 0 := h.xes
    have hcond : d = 0 ∨ ((p.x.wrote (w.take m)).sent k L).tcb.sndUna = ((p.x.wrote (w.take m)).sent k L).tcb.sndNxt ∨
        ((p.x.wrote (w.take m)).sent k L).tcb.egressSinceAck + d < thr := by
      rcases hd with hd | hd
      · exact Or.inl hd
      · right; right; rw [hes]; omega
    rw [retxN_ticks cfg mss thr max _ d ((p.x.wrote (w.take m)).sent k L) h.xst hcond]
    by_cases hk0 : k = 0
    · refine ⟨0, fun _ => rfl, ?_⟩
      have : ((p.x.wrote (w.take m)).sent k L).tcb.sndUna = ((p.x.wrote (w.take m)).sent k L).tcb.sndNxt := by
        show p.x.tcb.sndUna = wadd p.x.tcb.sndUna k; rw [hk0, wadd_zero _ h.xlt]
      rw [if_pos this]
      have h0 := h.xes
      obtain ⟨⟨t, a, b, c, o'⟩, y⟩ := p
      cases t
      simp only at h0
      simp [End.ticked, End.sent, End.wrote, h0]
    · refine ⟨0 + d, fun h0 => absurd h0 hk0, ?_⟩
      have : ¬ (((p.x.wrote (w.take m)).sent k L).tcb.sndUna = ((p.x.wrote (w.take m)).sent k L).tcb.sndNxt) := by
        show ¬ (p.x.tcb.sndUna = wadd p.x.tcb.sndUna k)
        intro he
        have h1 : wadd p.x.tcb.sndUna 0 = wadd p.x.tcb.sndUna k := by rw [wadd_zero _ h.xlt]; exact he
        have := wadd_inj _ 0 k (by unfold M32; omega) hk32 h1
        omega
      rw [if_neg this, hes]
  obtain ⟨tk, htk0, hT⟩ := hT
  -- the sender takes the ACKs
  have hX4a := ack_chain cfg p.x.tcb.sndUna cfg.recvCap p.y.tcb.sndNxt hAc hk32 (((p.x.wrote (w.take m)).sent k L).ticked tk) h.xst h.xfin rfl
    h.xrn
    (by show p.x.tcb.sndUna = _; rw [wadd_zero _ h.xlt]) rfl
  have hround : liveRound cfg mss thr max d n w p =
      { x := U.foldl (endRecv cfg) (A.foldl (endRecv cfg) (((p.x.wrote (w.take m)).sent k L).ticked tk)),
        y := (p.y.got wy (wadd p.x.tcb.sndUna k) (B.take k) A).drained U } := by
    simp only [liveRound]
    rw [hx1', hx2, hy1, hx3', hy2]
    have ho3 : ((p.x.wrote (w.take m)).sent k L).out = p.x.out ++ L := rfl
    rw [ho3, drop_take_append, hY3', hY4']
    have ho4 : ((p.y.got wy (wadd p.x.tcb.sndUna k) (B.take k) A).drained U).out = p.y.out ++ (A ++ U) := by
      simp [End.drained, End.got]
    rw [ho4, drop_take_append, List.foldl_append, hT]
  have hUc : (U = [] ∧ (0 < k → advWindow cfg.recvCap k ≠ 0)) ∨
      (∃ sg : Seg, U = [sg] ∧ sg.payload = [] ∧ sg.flags.ack = true ∧ sg.flags.fin = false ∧ sg.flags.rst = false ∧
        sg.flags.syn = false ∧ sg.seq = p.y.tcb.sndNxt ∧ sg.ack = wadd p.x.tcb.sndUna k ∧
        sg.window = advWindow cfg.recvCap 0) := by
    rw [← hU]
    simp only [End.got, hlenR, hfw]
    split
    · right; exact ⟨_, rfl, rfl, rfl, rfl, rfl, rfl, rfl, rfl, rfl⟩
    · left
      rename_i hc
      refine ⟨rfl, ?_⟩
      intro hk0 h0
      apply hc
      constructor
      · intro hnil
        have := congrArg List.length hnil
        rw [hlenR] at this
        simp at this
        omega
      · simp [h0, hk0]
  -- the sender's window after the round
  have hXA : A.foldl (endRecv cfg) (((p.x.wrote (w.take m)).sent k L).ticked tk) =
      (((p.x.wrote (w.take m)).sent k L).ticked tk).acked k (wadd p.x.tcb.sndUna k)
        (if 0 = k then p.x.tcb.sndWnd else advWindow cfg.recvCap (0 + (k - 0)))
        (if 0 = k then tk else 0) (if 0 = k then p.x.tcb.retxAttempts else 0) := hX4a
  have hea : (if 0 = k then tk else 0) = 0 := by
    by_cases h0 : 0 = k
    · rw [if_pos h0]; exact htk0 h0.symm
    · rw [if_neg h0]
  rw [hea] at hXA
  have hX4 : ∃ wnd ra, 1 ≤ wnd ∧ wnd ≤ advWindow cfg.recvCap 0 ∧
      U.foldl (endRecv cfg) (A.foldl (endRecv cfg) (((p.x.wrote (w.take m)).sent k L).ticked tk)) =
        (((p.x.wrote (w.take m)).sent k L).ticked tk).acked k (wadd p.x.tcb.sndUna k) wnd 0 ra := by
    have hadv0 : 1 ≤ advWindow cfg.recvCap 0 := by unfold advWindow; omega
    rw [hXA]
    rcases hUc with ⟨hUe, hnz⟩ | ⟨sg, hUe, hp, hfa, hff, hfr, hfs, hsq, hack, hwin⟩
    · rw [hUe]
      refine ⟨_, _, ?_, ?_, rfl⟩
      · by_cases h0 : 0 = k
        · rw [if_pos h0]; exact h.xw1
        · rw [if_neg h0]
          have := hnz (by omega)
          simp only [Nat.zero_add, Nat.sub_zero]
          omega
      · by_cases h0 : 0 = k
        · rw [if_pos h0]; exact h.xw2
        · rw [if_neg h0]; exact advWindow_le _ _
    · rw [hUe]
      refine ⟨advWindow cfg.recvCap 0, (if 0 = k then p.x.tcb.retxAttempts else 0), hadv0, Nat.le_refl _, ?_⟩
      rw [List.foldl_cons, List.foldl_nil]
      rw [recv_pure_ack cfg ((((p.x.wrote (w.take m)).sent k L).ticked tk).acked k (wadd p.x.tcb.sndUna k)
        (if 0 = k then p.x.tcb.sndWnd else advWindow cfg.recvCap (0 + (k - 0)))
        0 (if 0 = k then p.x.tcb.retxAttempts else 0))
        sg h.xst h.xfin rfl (hsq.trans h.xrn.symm) hp hfa hff hfr hfs]
      have hz : wsub sg.ack (wadd p.x.tcb.sndUna k) = 0 := by rw [hack, wsub_self]
      rw [if_neg (by
        show ¬ (0 < wsub sg.ack (wadd p.x.tcb.sndUna k) ∧ _)
        rw [hz]; omega)]
      simp only [End.acked, End.sent, End.wrote, End.ticked]
      rw [hwin]
  obtain ⟨wnd, ra, hw1, hw2, hX4e⟩ := hX4
  rw [hX4e] at hround
  refine ⟨?_, m, k, hmle, ?_⟩
  · rw [hround]
    constructor
    all_goals first
      | exact h.xst | exact h.xwr | exact h.xfin | exact h.xrs | exact h.xto | exact hw1 | exact hw2
      | exact h.yst | exact h.yfl | exact h.ysb | exact h.ypf | exact h.yfin | exact h.yrs | exact h.yto
      | exact wadd_lt _ _ | exact h.ymx | exact h.xrn | rfl
  · rw [hround]
    have hBlen : B.length = p.x.tcb.sendBuf.length + m := by
      rw [← hB, List.length_append, List.length_take]; omega
    refine ⟨rfl, ?_, ?_, rfl, ?_, ?_, ?_⟩
    · rw [hB]; rfl
    · rfl
    · rw [hB]; exact hkB
    · intro hne
      have h1 := h.xw1
      have : 0 < B.length := by
        rcases hne with hne | hne
        · have : 0 < p.x.tcb.sendBuf.length := by
            cases hs : p.x.tcb.sendBuf with
            | nil => exact absurd hs hne
            | cons a b => simp
          omega
        · by_cases hs : p.x.tcb.sendBuf = []
          · have := hmpos hs hsc hne; omega
          · have : 0 < p.x.tcb.sendBuf.length := by
              cases hs' : p.x.tcb.sendBuf with
              | nil => exact absurd hs' hs
              | cons a b => simp
            omega
      omega
    · intro hs hne; exact hmpos hs hsc hne

/-! ## Any number of rounds -/

/-- `r` lossless rounds starting with round number `i`: in round `i` the writer offers the next
    `chunk i` bytes of what it still has to write (`rest`) and retries what `poll_send` did not take;
    the reader reads with a buffer of `rd i` bytes. Returns the pair and what is still unwritten. -/
def liveRun (cfg : Cfg) (mss thr max d : Nat) (chunk rd : Nat → Nat) : Nat → Nat → Pair → List Nat → Pair × List Nat
  | 0, _, p, rest => (p, rest)
  | r + 1, i, p, rest =>
    let q := liveRound cfg mss thr max d (rd i) (rest.take (chunk i)) p
    liveRun cfg mss thr max d chunk rd r (i + 1) q (rest.drop (q.x.acc.length - p.x.acc.length))

/-- Ranking argument: unwritten + unacknowledged bytes drop by at least one per round until zero,
    while `read ++ unacknowledged ++ unwritten` stays the data. -/
theorem liveRun_ok (cfg : Cfg) (mss thr max d : Nat) (chunk rd : Nat → Nat) (hm : 1 ≤ mss) (hd : d = 0 ∨ d < thr)
    (hsc : 1 ≤ cfg.sendCap)
    (hrc : 1 ≤ cfg.recvCap) (hfw : cfg.fixWinUpdate = true) (hch : ∀ i, 1 ≤ chunk i) (hrd : ∀ i, cfg.recvCap ≤ rd i)
    (data : List Nat) :
    ∀ (r i : Nat) (p : Pair) (rest : List Nat), LInv cfg p →
      p.y.del ++ p.x.tcb.sendBuf ++ rest = data → p.x.acc = p.y.del ++ p.x.tcb.sendBuf →
      LInv cfg (liveRun cfg mss thr max d chunk rd r i p rest).1 ∧
      (liveRun cfg mss thr max d chunk rd r i p rest).1.y.del ++ (liveRun cfg mss thr max d chunk rd r i p rest).1.x.tcb.sendBuf ++
        (liveRun cfg mss thr max d chunk rd r i p rest).2 = data ∧
      (liveRun cfg mss thr max d chunk rd r i p rest).1.x.acc =
        (liveRun cfg mss thr max d chunk rd r i p rest).1.y.del ++ (liveRun cfg mss thr max d chunk rd r i p rest).1.x.tcb.sendBuf ∧
      (liveRun cfg mss thr max d chunk rd r i p rest).1.y.acc = p.y.acc ∧
      (liveRun cfg mss thr max d chunk rd r i p rest).1.x.tcb.sendBuf.length + (liveRun cfg mss thr max d chunk rd r i p rest).2.length
        ≤ p.x.tcb.sendBuf.length + rest.length - r := by
  intro r
  induction r with
  | zero => intro i p rest h hg ha; exact ⟨h, hg, ha, rfl, by simp [liveRun]⟩
  | succ r ih =>
    intro i p rest h hg ha
    obtain ⟨hq, m, k, hmle, hacc, hdel, hsb, hyacc, hkle, hkpos, _⟩ :=
      liveRound_ok cfg mss thr max d (rd i) (rest.take (chunk i)) p hm hd hsc hrc hfw (hrd i) h
    have hc := hch i
    have hwlen : (rest.take (chunk i)).length = min (chunk i) rest.length := List.length_take
    have htt : (rest.take (chunk i)).take m = rest.take m := by
      rw [List.take_take]; congr 1; omega
    rw [htt] at hacc hdel hsb hkle
    have hm' : (liveRound cfg mss thr max d (rd i) (rest.take (chunk i)) p).x.acc.length - p.x.acc.length = m := by
      rw [hacc, List.length_append, List.length_take]; omega
    simp only [liveRun]
    rw [hm']
    have hg' : (liveRound cfg mss thr max d (rd i) (rest.take (chunk i)) p).y.del ++
        (liveRound cfg mss thr max d (rd i) (rest.take (chunk i)) p).x.tcb.sendBuf ++ rest.drop m = data := by
      rw [hdel, hsb, List.append_assoc, List.append_assoc, ← List.append_assoc (List.take k _),
        List.take_append_drop, List.append_assoc, List.take_append_drop, ← List.append_assoc]
      exact hg
    have ha' : (liveRound cfg mss thr max d (rd i) (rest.take (chunk i)) p).x.acc =
        (liveRound cfg mss thr max d (rd i) (rest.take (chunk i)) p).y.del ++
        (liveRound cfg mss thr max d (rd i) (rest.take (chunk i)) p).x.tcb.sendBuf := by
      rw [hacc, hdel, hsb, List.append_assoc, List.take_append_drop, ha, List.append_assoc]
    obtain ⟨i1, i2, i3, i4, i5⟩ := ih (i + 1) _ _ hq hg' ha'
    refine ⟨i1, i2, i3, i4.trans hyacc, ?_⟩
    have hlen : (liveRound cfg mss thr max d (rd i) (rest.take (chunk i)) p).x.tcb.sendBuf.length + (rest.drop m).length
        = p.x.tcb.sendBuf.length + rest.length - k := by
      rw [hsb, List.length_drop, List.length_drop, List.length_append, List.length_take]
      rw [List.length_append, List.length_take] at hkle
      omega
    have hk1 : 0 < p.x.tcb.sendBuf.length + rest.length → 0 < k := by
      intro hpos
      apply hkpos
      by_cases hs : p.x.tcb.sendBuf = []
      · right
        intro hnil
        have h1 := congrArg List.length hnil
        rw [hwlen] at h1
        have h2 : p.x.tcb.sendBuf.length = 0 := by rw [hs]; rfl
        have h3 : ([] : List Nat).length = 0 := rfl
        omega
      · exact Or.inl hs
    omega

/-! ## The rounds as schedules of `Pair.run` -/

theorem Pair.run_append (cfg : Cfg) (mss : Nat) (a b : List (Bool × Act)) :
    ∀ p : Pair, p.run cfg mss (a ++ b) = (p.run cfg mss a).run cfg mss b := by
  induction a with
  | nil => intro p; rfl
  | cons h t ih => intro p; obtain ⟨w, c⟩ := h; simp only [List.cons_append, Pair.run]; exact ih _

/-- The wire delivers segments number `a … a + n − 1` of the other endpoint, in order. -/
def recvActs (who : Bool) (a n : Nat) : List (Bool × Act) := (List.range' a n).map (fun i => (who, Act.recv i))

theorem drop_cases (l : List Seg) (a : Nat) :
    (∃ sg, l[a]? = some sg ∧ l.drop a = sg :: l.drop (a + 1)) ∨ (l[a]? = none ∧ l.drop a = [] ∧ l.drop (a + 1) = []) := by
  by_cases h : a < l.length
  · left
    exact ⟨l[a], List.getElem?_eq_getElem h, List.drop_eq_getElem_cons h⟩
  · right
    exact ⟨List.getElem?_eq_none (by omega), List.drop_eq_nil_of_le (by omega), List.drop_eq_nil_of_le (by omega)⟩

theorem run_recvs_y (cfg : Cfg) (mss : Nat) : ∀ (n a : Nat) (p : Pair),
    p.run cfg mss (recvActs true a n) = { p with y := ((p.x.out.drop a).take n).foldl (endRecv cfg) p.y } := by
  intro n
  induction n with
  | zero => intro a p; simp [recvActs, Pair.run]
  | succ n ih =>
    intro a p
    have hr : recvActs true a (n + 1) = (true, Act.recv a) :: recvActs true (a + 1) n := by
      simp [recvActs, List.range'_succ]
    rw [hr]
    simp only [Pair.run, Pair.step, if_true, endStep]
    rcases drop_cases p.x.out a with ⟨sg, h1, h2⟩ | ⟨h1, h2, h3⟩
    · rw [h1, ih, h2]
      simp
    · rw [h1, ih, h2, h3]
      simp

theorem run_recvs_x (cfg : Cfg) (mss : Nat) : ∀ (n a : Nat) (p : Pair),
    p.run cfg mss (recvActs false a n) = { p with x := ((p.y.out.drop a).take n).foldl (endRecv cfg) p.x } := by
  intro n
  induction n with
  | zero => intro a p; simp [recvActs, Pair.run]
  | succ n ih =>
    intro a p
    have hr : recvActs false a (n + 1) = (false, Act.recv a) :: recvActs false (a + 1) n := by
      simp [recvActs, List.range'_succ]
    rw [hr]
    simp only [Pair.run, Pair.step, Bool.false_eq_true, if_false, endStep]
    rcases drop_cases p.y.out a with ⟨sg, h1, h2⟩ | ⟨h1, h2, h3⟩
    · rw [h1, ih, h2]
      simp
    · rw [h1, ih, h2, h3]
      simp

/-- The schedule of one lossless round from state `p` (the `recv` indices are those of the segments
    emitted during the round). -/
def roundActs (cfg : Cfg) (mss thr max d n : Nat) (w : List Nat) (p : Pair) : List (Bool × Act) :=
  let a1 : List (Bool × Act) :=
    [(false, .write w), (false, .retx thr max), (true, .retx thr max), (false, .segment), (true, .segment)]
  let p1 := p.run cfg mss a1
  let a2 := recvActs true p.x.out.length (p1.x.out.length - p.x.out.length)
  let p2 := p1.run cfg mss a2
  let p3 := p2.run cfg mss [(true, .read n)]
  let a4 := recvActs false p.y.out.length (p3.y.out.length - p.y.out.length)
  a1 ++ (a2 ++ ((true, .read n) :: (List.replicate d (false, .retx thr max) ++ a4)))

theorem run_retxN (cfg : Cfg) (mss thr max : Nat) : ∀ (d : Nat) (p : Pair),
    p.run cfg mss (List.replicate d (false, Act.retx thr max)) = { p with x := retxN cfg mss thr max p.y d p.x } := by
  intro d
  induction d with
  | zero => intro p; rfl
  | succ d ih =>
    intro p
    simp only [List.replicate_succ, Pair.run, Pair.step, Bool.false_eq_true, if_false, retxN]
    rw [ih]

theorem run_roundActs (cfg : Cfg) (mss thr max d n : Nat) (w : List Nat) (p : Pair) :
    p.run cfg mss (roundActs cfg mss thr max d n w p) = liveRound cfg mss thr max d n w p := by
  simp only [roundActs, Pair.run_append, run_recvs_y]
  simp only [Pair.run, Pair.step, Pair.run_append, run_retxN, run_recvs_x, Bool.false_eq_true, if_false, if_true, liveRound]

/-- The schedule of `r` lossless rounds. -/
def liveActs (cfg : Cfg) (mss thr max d : Nat) (chunk rd : Nat → Nat) : Nat → Nat → Pair → List Nat → List (Bool × Act)
  | 0, _, _, _ => []
  | r + 1, i, p, rest =>
    let a := roundActs cfg mss thr max d (rd i) (rest.take (chunk i)) p
    let q := p.run cfg mss a
    a ++ liveActs cfg mss thr max d chunk rd r (i + 1) q (rest.drop (q.x.acc.length - p.x.acc.length))

theorem run_liveActs (cfg : Cfg) (mss thr max d : Nat) (chunk rd : Nat → Nat) : ∀ (r i : Nat) (p : Pair) (rest : List Nat),
    p.run cfg mss (liveActs cfg mss thr max d chunk rd r i p rest) = (liveRun cfg mss thr max d chunk rd r i p rest).1 := by
  intro r
  induction r with
  | zero => intro i p rest; rfl
  | succ r ih =>
    intro i p rest
    simp only [liveActs, liveRun, Pair.run_append, run_roundActs]
    exact ih _ _ _

end TV.NetTcp
