/-
  Characterisations of the TCB-level functions used by the stream proofs.
-/
import TvNetTcp.Model.Tcb

namespace TV.NetTcp
namespace Tcb

/-- `poll_send` either changes nothing (error / pending), or appends the accepted prefix of `buf`,
    and the latter only on a connection that is neither aborted nor write-closed. -/
theorem pollSend_cases (cap : Nat) (t : Tcb) (buf : List Nat) :
    ((t.pollSend cap buf).1 = t ∧ ∀ n, (t.pollSend cap buf).2 ≠ .ok n) ∨
    (∃ n, t.pollSend cap buf = ({ t with sendBuf := t.sendBuf ++ buf.take n }, .ok n) ∧
      t.abortErr = none ∧ t.wrClosed = false) := by
  unfold pollSend
  split
  · left; exact ⟨rfl, by intro n h; cases h⟩
  · rename_i hab
    split
    · left; exact ⟨rfl, by intro n h; cases h⟩
    · rename_i hwr
      split
      · left; exact ⟨rfl, by intro n h; cases h⟩
      · dsimp only
        split
        · left; exact ⟨rfl, by intro n h; cases h⟩
        · right
          exact ⟨_, rfl, hab, by simpa using hwr⟩

/-- `poll_recv` either changes nothing and returns no byte, or pops a prefix of `recv_buf`. -/
theorem pollRecv_cases (cfg : Cfg) (t : Tcb) (n : Nat) :
    ((t.pollRecv cfg n).1 = t ∧ (∀ bs, (t.pollRecv cfg n).2.1 = .ok bs → bs = [])) ∨
    (∃ k, (t.pollRecv cfg n).1 = { t with recvBuf := t.recvBuf.drop k } ∧
      (t.pollRecv cfg n).2.1 = .ok (t.recvBuf.take k) ∧ t.abortErr = none) := by
  unfold pollRecv
  split
  · left; exact ⟨rfl, by intro bs h; cases h⟩
  · rename_i hab
    split
    · split
      · left; exact ⟨rfl, by intro bs h; cases h; rfl⟩
      · split
        · left; exact ⟨rfl, by intro bs h; cases h⟩
        · left; exact ⟨rfl, by intro bs h; cases h⟩
    · right
      exact ⟨_, rfl, rfl, hab⟩

/-- `poll_recv` reports EOF (`Ok(0)` into a non-empty buffer) only when nothing is buffered, the
    peer's FIN was accepted and the connection was not aborted. -/
theorem pollRecv_eof (cfg : Cfg) (t : Tcb) (n : Nat) (hn : 0 < n) (h : (t.pollRecv cfg n).2.1 = .ok []) :
    t.recvBuf = [] ∧ t.peerFin = true ∧ t.abortErr = none := by
  unfold pollRecv at h
  split at h
  · cases h
  · rename_i hab
    split at h
    · rename_i he
      split at h
      · rename_i hpf
        exact ⟨by simpa using he, hpf, hab⟩
      · split at h <;> cases h
    · rename_i he
      exfalso
      dsimp only at h
      simp only [Res.ok.injEq, List.take_eq_nil_iff] at h
      rcases h with h | h
      · have : t.recvBuf.length = 0 := by omega
        exact he (by simpa using this)
      · exact he (by simp [h])

theorem queueFin_cases (t : Tcb) :
    t.queueFin = t ∨ (t.wrClosed = false ∧
      t.queueFin = { t with finSeq := some (wadd t.sndUna t.sendBuf.length), wrClosed := true,
                            state := stateOnShutdown t.state }) := by
  unfold queueFin
  split
  · left; rfl
  · rename_i h; right; exact ⟨by simpa using h, rfl⟩

theorem shutdownWrite_cases (t : Tcb) :
    t.shutdownWrite.1 = t ∨ (t.abortErr = none ∧ t.shutdownWrite.1 = t.queueFin) := by
  unfold shutdownWrite
  split
  · left; rfl
  · rename_i h; right; exact ⟨h, rfl⟩

theorem stateOnShutdown_closed (st : TcpState) : st = .closed → stateOnShutdown st = .closed := by
  intro h; subst h; rfl

theorem stateOnFinAck_closed (st : TcpState) : st = .closed → stateOnFinAck st = .closed := by
  intro h; subst h; rfl

theorem abortErr_abort (t : Tcb) (b : Bool) : (t.abort b).abortErr ≠ none := by
  unfold abort abortErr
  cases b <;> cases t.reset <;> cases t.timedOut <;> simp

end Tcb
end TV.NetTcp

namespace TV.NetTcp
namespace Tcb

/-- `segment_one` only advances `snd_nxt` (and `snd_max` with it). -/
theorem segStep_eq {t t' : Tcb} {mss cap port : Nat} {sg : Seg}
    (hs : t.segStep mss cap port = some (t', sg)) : t' = { t with sndNxt := t'.sndNxt, sndMax := t'.sndMax } := by
  unfold segStep at hs
  dsimp only at hs
  split at hs
  · cases hs; rfl
  · split at hs
    · cases hs; rfl
    · cases hs

theorem segLoop_eq (mss cap port : Nat) (fuel : Nat) (t : Tcb) (acc : List Seg) :
    (segLoop mss cap port fuel t acc).1 =
      { t with sndNxt := (segLoop mss cap port fuel t acc).1.sndNxt, sndMax := (segLoop mss cap port fuel t acc).1.sndMax } := by
  induction fuel generalizing t acc with
  | zero => rfl
  | succ n ih =>
    unfold segLoop
    split
    · rfl
    · rename_i t' sg hs
      have h1 := segStep_eq hs
      have h2 := ih t' (acc ++ [sg])
      rw [h2, h1]

/-- `check_retx` only touches the counters and (rewind) `snd_nxt`. -/
theorem retxTick_eq (a b : Nat) (t : Tcb) :
    (t.retxTick a b).1 = { t with sndNxt := (t.retxTick a b).1.sndNxt,
                                  egressSinceAck := (t.retxTick a b).1.egressSinceAck,
                                  retxAttempts := (t.retxTick a b).1.retxAttempts } := by
  unfold retxTick
  dsimp only
  split
  · rfl
  · split
    · rfl
    · split <;> rfl

/-- Data and FIN receipt leave the sender half of the TCB alone. -/
theorem onData_send (cap : Nat) (t : Tcb) (s : Seg) :
    (t.onData cap s).1 = { t with recvBuf := (t.onData cap s).1.recvBuf, rcvNxt := (t.onData cap s).1.rcvNxt } := by
  unfold onData
  dsimp only
  split <;> rfl

theorem onFin_send (t : Tcb) (s : Seg) :
    (t.onFin s).1 = { t with peerFin := (t.onFin s).1.peerFin, rcvNxt := (t.onFin s).1.rcvNxt,
                             state := (t.onFin s).1.state } := by
  unfold onFin
  split <;> rfl

theorem onData_rcvNxt_lt (cap : Nat) (t : Tcb) (s : Seg) (h : t.rcvNxt < M32) : (t.onData cap s).1.rcvNxt < M32 := by
  unfold onData
  dsimp only
  split
  · unfold wadd M32; dsimp only; omega
  · exact h

theorem onFin_rcvNxt_lt (t : Tcb) (s : Seg) (h : t.rcvNxt < M32) : (t.onFin s).1.rcvNxt < M32 := by
  unfold onFin
  split
  · unfold wadd M32; dsimp only; omega
  · exact h

end Tcb
end TV.NetTcp
