/-
  Generic list lemmas used by the invariant proofs.
-/
namespace TV.NetTcp

theorem lookup_mem {α β : Type} [BEq α] [LawfulBEq α] {l : List (α × β)} {a : α} {b : β}
    (h : l.lookup a = some b) : (a, b) ∈ l := by
  induction l with
  | nil => simp at h
  | cons x xs ih =>
    obtain ⟨k, v⟩ := x
    simp only [List.lookup_cons] at h
    by_cases hk : a == k
    · simp [hk] at h
      have : a = k := by simpa using hk
      subst this; subst h; simp
    · simp [hk] at h
      exact List.mem_cons_of_mem _ (ih h)

/-- Invariant over `foldl`. -/
theorem foldl_inv {α β : Type} {P : β → Prop} (f : β → α → β) (l : List α) (b : β)
    (h0 : P b) (hstep : ∀ b a, P b → P (f b a)) : P (l.foldl f b) := by
  induction l generalizing b with
  | nil => simpa using h0
  | cons x xs ih => simp only [List.foldl_cons]; exact ih _ (hstep _ _ h0)

/-- Invariant over `foldl` where the step may use membership of the element. -/
theorem foldl_inv_mem {α β : Type} {P : β → Prop} (f : β → α → β) (l : List α) (b : β)
    (h0 : P b) (hstep : ∀ b a, a ∈ l → P b → P (f b a)) : P (l.foldl f b) := by
  induction l generalizing b with
  | nil => simpa using h0
  | cons x xs ih =>
    simp only [List.foldl_cons]
    exact ih _ (hstep _ _ (by simp) h0) (fun b a ha hb => hstep b a (by simp [ha]) hb)

end TV.NetTcp
