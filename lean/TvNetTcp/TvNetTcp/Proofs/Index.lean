/-
  C13: index consistency of the socket table.  `IdxInv`: every fd mentioned by the binding index or
  the 4-tuple connection index is a live entry of the socket table.  Preserved by every kernel
  operation, for arbitrary (even forged) inbound packets and arbitrary fd arguments.
-/
import TvNetTcp.Model.Sys
import TvNetTcp.Proofs.Lists

namespace TV.NetTcp

structure IdxInv (k : Kernel) : Prop where
  bind : ∀ e ∈ k.bindings, ∀ fd ∈ e.2, (k.getSock fd).isSome = true
  conn : ∀ e ∈ k.connections, (k.getSock e.2).isSome = true

namespace Kernel

theorem lookup_map_keys (l : List (Nat × Socket)) (fd : Nat) (s : Socket) (fd' : Nat) :
    ((l.map fun e => if e.1 == fd then (fd, s) else e).lookup fd').isSome = (l.lookup fd').isSome := by
  induction l with
  | nil => rfl
  | cons x xs ih =>
    obtain ⟨a, b⟩ := x
    rw [List.map_cons]
    have hkey : (if (a, b).1 == fd then (fd, s) else (a, b)).1 = a := by
      dsimp only
      split
      · rename_i h; exact (beq_iff_eq.mp h).symm
      · rfl
    generalize (if (a, b).1 == fd then (fd, s) else (a, b)) = x' at hkey
    obtain ⟨a', b'⟩ := x'
    dsimp only at hkey
    subst hkey
    rw [List.lookup_cons, List.lookup_cons]
    cases fd' == a'
    · exact ih
    · rfl

theorem getSock_setSock_isSome (k : Kernel) (fd : Nat) (s : Socket) (fd' : Nat) :
    ((k.setSock fd s).getSock fd').isSome = (k.getSock fd').isSome := by
  unfold getSock setSock
  exact lookup_map_keys _ _ _ _

theorem lookup_map_self (l : List (Nat × Socket)) (fd : Nat) (s : Socket) (h : (l.lookup fd).isSome = true) :
    (l.map fun e => if e.1 == fd then (fd, s) else e).lookup fd = some s := by
  induction l with
  | nil => simp at h
  | cons x xs ih =>
    obtain ⟨a, b⟩ := x
    rw [List.map_cons]
    rw [List.lookup_cons] at h
    by_cases hk : fd == a
    · have hka : (a == fd) = true := by
        have : fd = a := beq_iff_eq.mp hk
        subst this; exact beq_self_eq_true _
      simp only [hka, if_true]
      rw [List.lookup_cons]
      simp
    · have hk' : (fd == a) = false := by simpa using hk
      have hka : (a == fd) = false := by
        cases hh : a == fd
        · rfl
        · have : a = fd := beq_iff_eq.mp hh
          subst this; simp at hk
      simp only [hka, Bool.false_eq_true, if_false]
      rw [List.lookup_cons]
      simp only [hk'] at h ⊢
      exact ih h

theorem getSock_setSock_self (k : Kernel) (fd : Nat) (s : Socket) (h : (k.getSock fd).isSome = true) :
    (k.setSock fd s).getSock fd = some s := by
  unfold getSock setSock at *
  exact lookup_map_self _ _ _ h

theorem lookup_append_isSome (l : List (Nat × Socket)) (x : Nat × Socket) (fd' : Nat)
    (h : (l.lookup fd').isSome = true) : ((l ++ [x]).lookup fd').isSome = true := by
  induction l with
  | nil => simp at h
  | cons y ys ih =>
    obtain ⟨a, b⟩ := y
    simp only [List.cons_append, List.lookup_cons] at h ⊢
    by_cases h2 : fd' == a
    · simp [h2]
    · simp only [h2] at h ⊢
      exact ih h

theorem lookup_append_new (l : List (Nat × Socket)) (n : Nat) (s : Socket) :
    ((l ++ [(n, s)]).lookup n).isSome = true := by
  induction l with
  | nil => simp [List.lookup_cons]
  | cons y ys ih =>
    obtain ⟨a, b⟩ := y
    simp only [List.cons_append, List.lookup_cons]
    by_cases h2 : n == a
    · simp [h2]
    · simp only [h2]; exact ih

theorem getSock_insertSock_old (k : Kernel) (s : Socket) (fd' : Nat) (h : (k.getSock fd').isSome = true) :
    ((k.insertSock s).1.getSock fd').isSome = true := by
  unfold getSock insertSock at *
  exact lookup_append_isSome _ _ _ h

theorem getSock_insertSock_new (k : Kernel) (s : Socket) :
    ((k.insertSock s).1.getSock (k.insertSock s).2).isSome = true := by
  unfold getSock insertSock
  exact lookup_append_new _ _ _

theorem lookup_filter_ne (l : List (Nat × Socket)) (fd fd' : Nat) (hne : fd' ≠ fd) :
    ((l.filter fun e => e.1 != fd).lookup fd') = l.lookup fd' := by
  induction l with
  | nil => rfl
  | cons y ys ih =>
    obtain ⟨a, b⟩ := y
    by_cases h : a = fd
    · subst h
      have h1 : (fd' == a) = false := by simpa using hne
      simp [List.filter_cons, List.lookup_cons, h1, ih]
    · have h1 : (a != fd) = true := by simpa using h
      simp only [List.filter_cons, h1, if_true, List.lookup_cons]
      by_cases h2 : fd' == a
      · simp [h2]
      · simp [h2, ih]

theorem getSock_insertBinding (k : Kernel) (key : BindKey) (fd fd' : Nat) :
    (k.insertBinding key fd).getSock fd' = k.getSock fd' := by
  unfold insertBinding
  split <;> rfl

theorem getSock_remove_ne (k : Kernel) (fd fd' : Nat) (hne : fd' ≠ fd) :
    (k.remove fd).getSock fd' = k.getSock fd' := by
  unfold getSock remove
  exact lookup_filter_ne _ _ _ hne

end Kernel

namespace IdxInv
open Kernel

variable {k : Kernel}

theorem init (addrs : List Ip) : IdxInv { addresses := addrs } :=
  ⟨fun e he => by simp at he, fun e he => by simp at he⟩

/-- Same indexes, and no socket disappeared. -/
theorem congr {k' : Kernel} (h : IdxInv k) (hb : k'.bindings = k.bindings) (hc : k'.connections = k.connections)
    (hs : ∀ fd, (k.getSock fd).isSome = true → (k'.getSock fd).isSome = true) : IdxInv k' :=
  ⟨by rw [hb]; intro e he fd hfd; exact hs fd (h.bind e he fd hfd),
   by rw [hc]; intro e he; exact hs _ (h.conn e he)⟩

theorem setSock (h : IdxInv k) (fd : Nat) (s : Socket) : IdxInv (k.setSock fd s) :=
  h.congr rfl rfl (fun fd' hfd' => by rw [getSock_setSock_isSome]; exact hfd')

theorem setTcb (h : IdxInv k) (fd : Nat) (t : Tcb) : IdxInv (k.setTcb fd t) := by
  unfold Kernel.setTcb
  split
  · exact h.setSock _ _
  · exact h

theorem insertSock (h : IdxInv k) (s : Socket) : IdxInv (k.insertSock s).1 :=
  h.congr rfl rfl (fun fd' hfd' => getSock_insertSock_old k s fd' hfd')

theorem emit (h : IdxInv k) (a b : SockAddr) (sg : Seg) : IdxInv (k.emit a b sg) :=
  h.congr rfl rfl (fun _ hfd => hfd)

theorem allocatePort (h : IdxInv k) (a b : Bool) : IdxInv (k.allocatePort a b).1 := by
  unfold Kernel.allocatePort
  exact h.congr rfl rfl (fun _ hfd => hfd)

theorem initialSequence (h : IdxInv k) : IdxInv k.initialSequence.1 :=
  h.congr rfl rfl (fun _ hfd => hfd)

theorem remove (h : IdxInv k) (fd : Nat) : IdxInv (k.remove fd) := by
  constructor
  · intro e he fd' hfd'
    simp only [Kernel.remove, List.mem_filter, List.mem_map] at he
    obtain ⟨⟨e0, he0, rfl⟩, _⟩ := he
    simp only [List.mem_filter] at hfd'
    have hne : fd' ≠ fd := by simpa using hfd'.2
    rw [getSock_remove_ne k fd fd' hne]
    exact h.bind e0 he0 fd' hfd'.1
  · intro e he
    simp only [Kernel.remove, List.mem_filter] at he
    have hne : e.2 ≠ fd := by simpa using he.2
    rw [getSock_remove_ne k fd e.2 hne]
    exact h.conn e he.1

theorem insertBinding (h : IdxInv k) (key : BindKey) (fd : Nat) (hfd : (k.getSock fd).isSome = true) :
    IdxInv (k.insertBinding key fd) := by
  unfold Kernel.insertBinding
  split
  · refine ⟨?_, h.conn⟩
    intro e he fd' hfd'
    simp only [List.mem_map] at he
    obtain ⟨e0, he0, rfl⟩ := he
    split at hfd'
    · simp only [List.mem_append, List.mem_singleton] at hfd'
      rcases hfd' with h1 | rfl
      · exact h.bind e0 he0 fd' h1
      · exact hfd
    · exact h.bind e0 he0 fd' hfd'
  · refine ⟨?_, h.conn⟩
    intro e he fd' hfd'
    simp only [List.mem_append, List.mem_singleton] at he
    rcases he with he | rfl
    · exact h.bind e he fd' hfd'
    · simp only [List.mem_singleton] at hfd'
      subst hfd'; exact hfd

theorem insertConnection (h : IdxInv k) (l r : SockAddr) (fd : Nat) (hfd : (k.getSock fd).isSome = true) :
    IdxInv (k.insertConnection l r fd) := by
  unfold Kernel.insertConnection
  split
  · refine ⟨h.bind, ?_⟩
    intro e he
    simp only [List.mem_map] at he
    obtain ⟨e0, he0, rfl⟩ := he
    split
    · exact hfd
    · exact h.conn e0 he0
  · refine ⟨h.bind, ?_⟩
    intro e he
    simp only [List.mem_append, List.mem_singleton] at he
    rcases he with he | rfl
    · exact h.conn e he
    · exact hfd

/-! ### syscalls -/

theorem kbind (h : IdxInv k) (addr : SockAddr) (dg : Bool) : IdxInv (k.bind addr dg).1 := by
  unfold Kernel.bind
  split
  · exact h
  · dsimp only
    have h1 : IdxInv (if addr.port == 0 then k.allocatePort addr.ip.isV6 dg else (k, some addr.port)).1 := by
      split
      · exact h.allocatePort _ _
      · exact h
    generalize (if addr.port == 0 then k.allocatePort addr.ip.isV6 dg else (k, some addr.port)) = r at h1
    obtain ⟨k1, po⟩ := r
    cases po with
    | none => exact h1
    | some port =>
      dsimp only
      split
      · exact h1
      · exact (h1.insertSock _).insertBinding _ _ (getSock_insertSock_new _ _)

theorem listen (h : IdxInv k) (fd b : Nat) : IdxInv (k.listen fd b) := by
  unfold Kernel.listen
  split
  · exact h.setSock _ _
  · exact h

theorem openSock (h : IdxInv k) (a b : Bool) : IdxInv (k.openSock a b).1 := h.insertSock _

theorem pollConnect (cfg : Cfg) (h : IdxInv k) (fd : Nat) (peer : SockAddr) : IdxInv (k.pollConnect cfg fd peer).1 := by
  unfold Kernel.pollConnect
  split
  · exact h
  · rename_i s hs
    split
    · split <;> exact h
    · dsimp only
      split
      · exact h
      · have hfd : (k.getSock fd).isSome = true := by rw [hs]; rfl
        have h1 := h.allocatePort (k := k) s.v6 false
        have hfd1 : ((k.allocatePort s.v6 false).1.getSock fd).isSome = true := hfd
        generalize k.allocatePort s.v6 false = r at h1 hfd1
        obtain ⟨k1, po⟩ := r
        cases po with
        | none => exact h1
        | some port =>
          dsimp only at hfd1 ⊢
          apply IdxInv.emit
          apply IdxInv.insertConnection
          · apply IdxInv.setSock
            apply IdxInv.initialSequence
            exact h1.insertBinding _ _ hfd1
          · rw [getSock_setSock_isSome]
            show ((k1.insertBinding _ fd).getSock fd).isSome = true
            rw [getSock_insertBinding]
            exact hfd1

theorem pollAccept (h : IdxInv k) (fd : Nat) : IdxInv (k.pollAccept fd).1 := by
  unfold Kernel.pollAccept
  split
  · exact h
  · split
    · exact h
    · split
      · exact h
      · dsimp only
        split
        · exact (h.setSock _ _).congr rfl rfl (fun _ hfd => hfd)
        · exact h.setSock _ _

theorem pollSend (cfg : Cfg) (h : IdxInv k) (fd : Nat) (buf : List Nat) : IdxInv (k.pollSend cfg fd buf).1 := by
  unfold Kernel.pollSend
  split
  · exact h
  · split
    · exact h
    · exact h.setSock _ _

theorem pollShutdown (h : IdxInv k) (fd : Nat) : IdxInv (k.pollShutdown fd).1 := by
  unfold Kernel.pollShutdown
  split
  · exact h
  · split
    · exact h
    · exact h.setSock _ _

theorem pollRecv (cfg : Cfg) (h : IdxInv k) (fd n : Nat) : IdxInv (k.pollRecv cfg fd n).1 := by
  unfold Kernel.pollRecv
  split
  · exact h
  · split
    · exact h
    · dsimp only
      split
      · exact (h.setSock _ _).emit _ _ _
      · exact h.setSock _ _

theorem udpSendTo (cfg : Cfg) (h : IdxInv k) (fd len : Nat) (dst : SockAddr) : IdxInv (k.udpSendTo cfg fd len dst).1 := by
  unfold Kernel.udpSendTo
  split
  · exact h
  · split
    · exact h
    · split
      · exact h
      · exact h.congr rfl rfl (fun _ hfd => hfd)

/-! ### inbound dispatch -/

theorem emitRst (h : IdxInv k) (l r : SockAddr) (s : Seg) : IdxInv (k.emitRst l r s) := by
  unfold Kernel.emitRst
  dsimp only
  split <;> exact h.emit _ _ _

theorem abortWith (cfg : Cfg) (h : IdxInv k) (fd : Nat) (b : Bool) : IdxInv (Kernel.abortWith cfg k fd b) := by
  unfold Kernel.abortWith
  split
  · exact h
  · split
    · exact h
    · split <;> exact h.setSock _ _

theorem abortOrReap (cfg : Cfg) (h : IdxInv k) (fd : Nat) (b : Bool) : IdxInv (Kernel.abortOrReap cfg k fd b) := by
  unfold Kernel.abortOrReap
  dsimp only
  split <;> (split <;> first | exact h.remove _ | exact h.abortWith _ _ _)

theorem acceptSyn (cfg : Cfg) (h : IdxInv k) (lfd : Nat) (l r : SockAddr) (s : Seg) : IdxInv (k.acceptSyn cfg lfd l r s) := by
  unfold Kernel.acceptSyn
  split
  · exact h
  · split
    · exact h
    · split
      · exact h
      · dsimp only
        apply IdxInv.emit
        apply IdxInv.insertConnection
        · apply IdxInv.setSock
          apply IdxInv.initialSequence
          exact (h.insertSock _).insertBinding _ _ (getSock_insertSock_new _ _)
        · rw [getSock_setSock_isSome]
          show (((k.insertSock _).1.insertBinding _ _).getSock _).isSome = true
          rw [getSock_insertBinding]
          exact getSock_insertSock_new _ _

theorem pushToListener (h : IdxInv k) (child : Nat) (l : SockAddr) : IdxInv (k.pushToListener child l) := by
  unfold Kernel.pushToListener
  split
  · exact h
  · split
    · exact h
    · split
      · exact h
      · exact (h.setSock _ _).congr rfl rfl (fun _ hfd => hfd)

theorem handleOnConnection (cfg : Cfg) (h : IdxInv k) (fd : Nat) (l r : SockAddr) (s : Seg) :
    IdxInv (Kernel.handleOnConnection cfg k fd l r s) := by
  unfold Kernel.handleOnConnection
  split
  · exact h.abortOrReap _ _ _
  · split
    · exact h
    · split
      · exact h
      · split
        · split
          · exact (h.setSock _ _).emit _ _ _
          · exact h
        · split
          · split
            · exact h
            · exact (h.setSock _ _).pushToListener _ _
          · exact h
        · exact h
        · split
          · exact (h.emit _ _ _).remove _
          dsimp only
          split
          · exact (h.setSock _ _).emit _ _ _
          · exact h.setSock _ _

theorem deliver (cfg : Cfg) (h : IdxInv k) (p : Packet) : IdxInv (Kernel.deliver cfg k p) := by
  unfold Kernel.deliver
  split
  · exact h
  · dsimp only
    split
    · exact h.handleOnConnection _ _ _ _ _
    · split
      · split
        · exact h.acceptSyn cfg _ _ _ _
        · exact h.emitRst _ _ _
      · split
        · exact h.emitRst _ _ _
        · exact h

/-! ### close / reap / egress -/

theorem closeChild (h : IdxInv k) (child : Nat) : IdxInv (k.closeChild child) := by
  unfold Kernel.closeChild
  split
  · exact h
  · split
    · exact h.remove _
    · exact (h.emit _ _ _).remove _

theorem onClose (h : IdxInv k) (fam : Bool) (fd : Nat) : IdxInv (k.onClose fam fd).1 := by
  unfold Kernel.onClose
  split
  · exact h
  · split
    · exact h
    · split
      · exact foldl_inv (P := IdxInv) _ _ _ h (fun b a hb => hb.closeChild a)
      · split
        · split
          · exact h.emit _ _ _
          · exact h.setSock _ _
        · exact h
      · exact h

theorem close (h : IdxInv k) (fam : Bool) (fd : Nat) : IdxInv (k.close fam fd) := by
  unfold Kernel.close
  dsimp only
  have h1 := h.onClose fam fd
  split
  · exact h1.remove _
  · exact h1

theorem reapClosed (h : IdxInv k) : IdxInv k.reapClosed := by
  unfold Kernel.reapClosed
  exact foldl_inv (P := IdxInv) _ _ _ h (fun b a hb => hb.remove a)

theorem retxPass1Step (cfg : Cfg) (acc : Kernel × List Nat × List Nat) (fd : Nat) (h : IdxInv acc.1) :
    IdxInv (Kernel.retxPass1Step cfg acc fd).1 := by
  unfold Kernel.retxPass1Step
  split
  · exact h
  · dsimp only
    split <;> exact h.setTcb _ _

theorem emitHandshake (cfg : Cfg) (h : IdxInv k) (fd : Nat) : IdxInv (k.emitHandshake cfg fd) := by
  unfold Kernel.emitHandshake
  split
  · exact h
  · split
    · exact h
    · exact h.emit _ _ _

theorem persistProbe (cfg : Cfg) (h : IdxInv k) (fd : Nat) : IdxInv (k.persistProbe cfg fd) := by
  unfold Kernel.persistProbe
  split
  · exact h
  · split
    · exact h
    · dsimp only
      split
      · exact h.setSock _ _
      · split
        · exact (h.setSock _ _).abortWith _ _ _
        · exact (h.setSock _ _).emit _ _ _

theorem checkRetx0 (cfg : Cfg) (h : IdxInv k) : IdxInv (Kernel.checkRetx0 cfg k) := by
  unfold Kernel.checkRetx0
  dsimp only
  apply foldl_inv (P := IdxInv)
  · apply foldl_inv (P := IdxInv)
    · exact foldl_inv (P := fun acc : Kernel × List Nat × List Nat => IdxInv acc.1) (Kernel.retxPass1Step cfg)
        (k.retxCands cfg) (k, [], []) h (fun b a hb => IdxInv.retxPass1Step cfg b a hb)
    · intro b fd hb
      exact hb.emitHandshake cfg fd
  · intro b fd hb
    exact hb.abortOrReap _ _ _

theorem checkRetx (cfg : Cfg) (h : IdxInv k) : IdxInv (Kernel.checkRetx cfg k) := by
  have h0 : IdxInv (Kernel.checkRetx0 cfg k) := h.checkRetx0 cfg
  unfold Kernel.checkRetx
  dsimp only
  split
  · exact foldl_inv (P := IdxInv) _ _ _ h0 (fun b a hb => hb.persistProbe cfg a)
  · exact h0

theorem segmentOne (cfg : Cfg) (h : IdxInv k) (fd : Nat) : IdxInv (Kernel.segmentOne cfg k fd) := by
  unfold Kernel.segmentOne
  split
  · exact h
  · split
    · exact h
    · dsimp only
      exact (h.setSock _ _).congr rfl rfl (fun _ hfd => hfd)

theorem segmentAll (cfg : Cfg) (h : IdxInv k) : IdxInv (Kernel.segmentAll cfg k) := by
  unfold Kernel.segmentAll
  exact foldl_inv (P := IdxInv) _ _ _ h (fun b a hb => hb.segmentOne cfg a)

theorem drainStep (cfg : Cfg) (acc : Kernel × List Packet) (p : Packet) (h : IdxInv acc.1) :
    IdxInv (Kernel.drainStep cfg acc p).1 := by
  unfold Kernel.drainStep
  split
  · exact h.deliver _ _
  · exact h

theorem egressLoop (cfg : Cfg) (fuel : Nat) (k : Kernel) (out : List Packet) (h : IdxInv k) :
    IdxInv (Kernel.egressLoop cfg fuel k out).1 := by
  induction fuel generalizing k out with
  | zero => exact h
  | succ n ih =>
    unfold Kernel.egressLoop
    dsimp only
    have h1 := h.segmentAll cfg
    split
    · exact h1
    · apply ih
      exact foldl_inv (P := fun acc : Kernel × List Packet => IdxInv acc.1) (Kernel.drainStep cfg) _ _
        (h1.congr rfl rfl (fun _ hfd => hfd)) (fun b a hb => IdxInv.drainStep cfg b a hb)

theorem egress (cfg : Cfg) (h : IdxInv k) : IdxInv (k.egress cfg).1 := by
  unfold Kernel.egress
  dsimp only
  exact ((h.checkRetx cfg).egressLoop cfg _ _ _).reapClosed

end IdxInv
end TV.NetTcp
