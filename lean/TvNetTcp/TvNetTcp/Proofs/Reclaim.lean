/-
  Reclamation of an application-closed connection that hears nothing any more (C13): the per-socket
  round of `Kernel::egress` — retransmit sweep, persist sweep, segmentation — on a TCB whose FIN is
  queued, with no inbound segment ever. Every such socket is aborted (and then reaped) within
  `2 · retx_threshold · (retx_max + 1) + 1` rounds.
-/
import TvNetTcp.Model.Kernel
import TvNetTcp.Proofs.Wrap
import TvNetTcp.Proofs.TcbFacts

namespace TV.NetTcp

/-- Send-side shape of a TCB whose FIN is queued: `f` sequence numbers in flight (data, then the
    FIN), the FIN right after the buffered bytes, no wrap inside the buffer. -/
structure FinShape (t : Tcb) (f : Nat) : Prop where
  una : t.sndUna < M32
  len : t.sendBuf.length + 1 < M32
  nxt : t.sndNxt = wadd t.sndUna f
  le : f ≤ t.sendBuf.length + 1
  fin : t.finSeq = some (wadd t.sndUna t.sendBuf.length)

namespace FinShape

theorem inFlight {t : Tcb} {f : Nat} (h : FinShape t f) : t.inFlight = f := by
  unfold Tcb.inFlight
  have hf : f < M32 := by have := h.le; have := h.len; omega
  rw [h.nxt, wsub_wadd t.sndUna t.sndUna f h.una h.una (by rw [wsub_self]; omega), wsub_self]
  omega

theorem idle_iff {t : Tcb} {f : Nat} (h : FinShape t f) : t.sndUna = t.sndNxt ↔ f = 0 := by
  have hf : f < M32 := by have := h.le; have := h.len; omega
  constructor
  · intro he
    have h1 : wadd t.sndUna 0 = wadd t.sndUna f := by rw [wadd_zero _ h.una, ← h.nxt]; exact he
    exact (wadd_inj _ 0 f (by unfold M32; omega) hf h1).symm
  · intro h0
    rw [h.nxt, h0, wadd_zero _ h.una]

theorem finPending_iff {t : Tcb} {f : Nat} (h : FinShape t f) : t.finPending = true ↔ f = t.sendBuf.length := by
  have hf : f < M32 := by have := h.le; have := h.len; omega
  unfold Tcb.finPending
  rw [h.fin]
  simp only [beq_iff_eq]
  rw [h.nxt]
  constructor
  · intro he
    exact wadd_inj _ _ _ hf (by have := h.len; omega) he
  · intro he; rw [he]

theorem congr {t t' : Tcb} {f : Nat} (h : FinShape t f) (h1 : t'.sndUna = t.sndUna) (h2 : t'.sendBuf = t.sendBuf)
    (h3 : t'.sndNxt = t.sndNxt) (h4 : t'.finSeq = t.finSeq) : FinShape t' f :=
  ⟨by rw [h1]; exact h.una, by rw [h2]; exact h.len, by rw [h3, h1]; exact h.nxt, by rw [h2]; exact h.le,
    by rw [h4, h1, h2]; exact h.fin⟩

end FinShape

/-- One iteration of `segment_one`'s loop on a TCB with its FIN queued: it stops exactly when the
    window is used up or everything (data and FIN) is in flight; otherwise strictly more is in flight. -/
theorem segStep_shape (mss cap port : Nat) (hm : 1 ≤ mss) {t : Tcb} {f : Nat} (h : FinShape t f) :
    match t.segStep mss cap port with
    | none => t.sndWnd ≤ f ∨ f = t.sendBuf.length + 1
    | some (t', _) => f < t.sndWnd ∧ f < t.sendBuf.length + 1 ∧ ∃ n, 0 < n ∧ FinShape t' (f + n) := by
  have hfl := h.inFlight
  have hf : f < M32 := by have := h.le; have := h.len; omega
  unfold Tcb.segStep
  simp only [hfl]
  by_cases hc : 0 < t.sendBuf.length - f ∧ 0 < t.sndWnd - f
  · rw [if_pos hc]
    dsimp only
    refine ⟨by omega, by omega, min (min (t.sendBuf.length - f) mss) (t.sndWnd - f), by omega, ?_⟩
    exact ⟨h.una, h.len, by show wadd t.sndNxt _ = _; rw [h.nxt, wadd_wadd], by show _ ≤ t.sendBuf.length + 1; omega, h.fin⟩
  · rw [if_neg hc]
    by_cases hp : t.finPending = true ∧ 0 < t.sndWnd - f
    · rw [if_pos hp]
      dsimp only
      have hfe := h.finPending_iff.mp hp.1
      refine ⟨by omega, by omega, 1, by omega, ?_⟩
      exact ⟨h.una, h.len, by show wadd t.sndNxt 1 = _; rw [h.nxt, wadd_wadd], by show _ ≤ t.sendBuf.length + 1; omega, h.fin⟩
    · rw [if_neg hp]
      dsimp only
      by_cases hw : t.sndWnd ≤ f
      · exact Or.inl hw
      · right
        have h1 : ¬ (0 < t.sendBuf.length - f) := fun hh => hc ⟨hh, by omega⟩
        have h2 : ¬ (t.finPending = true) := fun hh => hp ⟨hh, by omega⟩
        have h3 : f ≠ t.sendBuf.length := fun hh => h2 (h.finPending_iff.mpr hh)
        have := h.le
        omega

/-- A whole `segment_one` pass on a TCB with its FIN queued: in flight only grows; it grows strictly
    when the window and the backlog allow anything; nothing changes when the window is used up. -/
theorem segLoop_shape (mss cap port : Nat) (hm : 1 ≤ mss) :
    ∀ (fuel : Nat) (t : Tcb) (f : Nat) (acc : List Seg), FinShape t f →
      ∃ f3, f ≤ f3 ∧ FinShape (Tcb.segLoop mss cap port fuel t acc).1 f3 ∧
        (0 < fuel → f < t.sndWnd → f < t.sendBuf.length + 1 → f < f3) ∧
        (t.sndWnd ≤ f → (Tcb.segLoop mss cap port fuel t acc).1 = t) := by
  intro fuel
  induction fuel with
  | zero =>
    intro t f acc h
    exact ⟨f, Nat.le_refl _, h, fun h0 => by omega, fun _ => rfl⟩
  | succ fuel ih =>
    intro t f acc h
    have hs := segStep_shape mss cap port hm h
    unfold Tcb.segLoop
    cases hst : t.segStep mss cap port with
    | none =>
      rw [hst] at hs
      dsimp only at hs ⊢
      refine ⟨f, Nat.le_refl _, h, ?_, fun _ => rfl⟩
      intro _ h1 h2
      omega
    | some r =>
      obtain ⟨t', sg⟩ := r
      rw [hst] at hs
      dsimp only at hs ⊢
      obtain ⟨hw, hb, n, hn, hsh⟩ := hs
      obtain ⟨f3, hle, hf3, _, _⟩ := ih t' (f + n) (acc ++ [sg]) hsh
      refine ⟨f3, by omega, hf3, fun _ _ _ => by omega, fun hh => by omega⟩

/-! ## The counters -/

/-- A `(attempts, ticks)` counter pair `i` steps after its reset, `i` below the horizon `thr · (max + 1)`. -/
structure Ctr (thr max a e i : Nat) : Prop where
  e_lt : e < thr
  sum : a * thr + e = i
  lt : i < thr * (max + 1)

theorem Ctr.a_le {thr max a e i : Nat} (h : Ctr thr max a e i) : a ≤ max := by
  rcases Nat.lt_or_ge max a with hgt | hle
  · exfalso
    have h1 : (max + 1) * thr ≤ a * thr := Nat.mul_le_mul_right thr hgt
    have h2 := h.sum
    have h3 := h.lt
    rw [Nat.mul_comm thr (max + 1)] at h3
    omega
  · exact hle

/-- One more step: either the tick counter grows, or it wraps and one more attempt is charged; at the
    horizon the budget is exhausted. -/
theorem Ctr.step {thr max a e i : Nat} (h : Ctr thr max a e i) :
    (e + 1 < thr ∧ (i + 1 < thr * (max + 1) → Ctr thr max a (e + 1) (i + 1)) ∧ i + 1 < thr * (max + 1)) ∨
    (e + 1 = thr ∧ a < max ∧ Ctr thr max (a + 1) 0 (i + 1)) ∨
    (e + 1 = thr ∧ a = max ∧ i + 1 = thr * (max + 1)) := by
  have hale := h.a_le
  have hs := h.sum
  have hl := h.lt
  have he := h.e_lt
  have hexp : thr * (max + 1) = max * thr + thr := by rw [Nat.mul_succ, Nat.mul_comm]
  by_cases h1 : e + 1 < thr
  · left
    have hlt : i + 1 < thr * (max + 1) := by
      have : a * thr ≤ max * thr := Nat.mul_le_mul_right thr hale
      omega
    exact ⟨h1, fun _ => ⟨h1, by omega, hlt⟩, hlt⟩
  · right
    have hee : e + 1 = thr := by omega
    rcases Nat.lt_or_ge a max with hlt | hge
    · left
      have : (a + 1) * thr ≤ max * thr := Nat.mul_le_mul_right thr hlt
      refine ⟨hee, hlt, by omega, ?_, ?_⟩
      · rw [Nat.succ_mul]; omega
      · rw [Nat.succ_mul] at this; omega
    · right
      have : a = max := by omega
      subst this
      exact ⟨hee, rfl, by omega⟩

theorem retxTick_cases (thr max : Nat) (t : Tcb) (hh : t.isHandshake = false) :
    (t.egressSinceAck + 1 < thr → t.retxTick thr max = ({ t with egressSinceAck := t.egressSinceAck + 1 }, .none)) ∧
    (¬ t.egressSinceAck + 1 < thr → t.retxAttempts ≥ max → (t.retxTick thr max).2 = .abort) ∧
    (¬ t.egressSinceAck + 1 < thr → t.retxAttempts < max →
      t.retxTick thr max =
        ({ t with sndNxt := t.sndUna, egressSinceAck := 0, retxAttempts := t.retxAttempts + 1 }, .none)) := by
  refine ⟨?_, ?_, ?_⟩
  · intro h1
    unfold Tcb.retxTick
    dsimp only
    rw [if_pos h1]
  · intro h1 h2
    unfold Tcb.retxTick
    dsimp only
    rw [if_neg h1, if_pos h2]
  · intro h1 h2
    unfold Tcb.retxTick
    dsimp only
    rw [if_neg h1, if_neg (by omega)]
    split
    · rename_i hc
      have h3 : t.isHandshake = true := hc
      rw [hh] at h3; cases h3
    · rfl

/-! ## One egress round of an application-closed socket that hears nothing -/

/-- What one `Kernel::egress` does to an application-closed TCP socket when nothing is delivered to it:
    `none` = the entry is gone at the end of the pass (it was `Closed` / reset and `reap_closed` took
    it, or a sweep aborted it, which makes it `Closed`). Otherwise the retransmit sweep, the persist
    sweep and `segment_one`, in that order, exactly as `check_retx` / `segment_all` apply them. -/
def orphanTail (cfg : Cfg) (mss : Nat) (t1 : Tcb) : Option Tcb :=
  let probed : Option Tcb :=
    if cfg.fixPersistProbe && t1.persistCandidate then
      (if t1.persistTicks + 1 < cfg.retxThreshold then some { t1 with persistTicks := t1.persistTicks + 1 }
       else if cfg.fixPersistBudget && decide (t1.persistProbes ≥ cfg.retxMax) then none
       else some (t1.probeSent cfg.fixPersistBudget))
    else some t1
  match probed with
  | none => none
  | some t2 =>
    some (if t2.segCandidate then (Tcb.segLoop mss cfg.recvCap 0 (t2.sendBuf.length + 2) t2 []).1 else t2)

def orphanRound (cfg : Cfg) (mss : Nat) (t : Tcb) : Option Tcb :=
  if t.state == .closed || t.reset then none
  else
    let swept : Option Tcb :=
      if t.retxCandidate || (cfg.fixFinWait2Timeout && t.state == .finWait2) then
        (if (t.retxTick cfg.retxThreshold cfg.retxMax).2 == .abort then none
         else some (t.retxTick cfg.retxThreshold cfg.retxMax).1)
      else some t
    match swept with
    | none => none
    | some t1 => orphanTail cfg mss t1

def orphanRounds (cfg : Cfg) (mss : Nat) : Nat → Tcb → Option Tcb
  | 0, t => some t
  | n + 1, t =>
    match orphanRound cfg mss t with
    | none => none
    | some t' => orphanRounds cfg mss n t'

theorem orphanRounds_succ (cfg : Cfg) (mss n : Nat) (t : Tcb) :
    orphanRounds cfg mss (n + 1) t =
      (match orphanRound cfg mss t with
       | none => none
       | some t' => orphanRounds cfg mss n t') := rfl

/-- Invariant of an application-closed socket in a transmitting state (`FIN_WAIT1`, `CLOSING`,
    `LAST_ACK`) that hears nothing: `f` sequence numbers in flight, the retransmit counters `i` steps
    and the persist counters `j` steps after their reset. -/
structure OInv (cfg : Cfg) (t : Tcb) (f i j : Nat) : Prop where
  tr : t.transmittable = true
  shape : FinShape t f
  rc : Ctr cfg.retxThreshold cfg.retxMax t.retxAttempts t.egressSinceAck i
  pc : Ctr cfg.retxThreshold cfg.retxMax t.persistProbes t.persistTicks j

theorem transmittable_facts {t : Tcb} (h : t.transmittable = true) :
    (t.state == TcpState.closed) = false ∧ t.isHandshake = false ∧ (t.state == TcpState.finWait2) = false := by
  unfold Tcb.transmittable at h
  unfold Tcb.isHandshake
  cases hst : t.state <;> rw [hst] at h <;> simp at h ⊢

/-- Phase 1, the retransmit sweep on a socket with something in flight. -/
theorem sweep_phase (cfg : Cfg) {t : Tcb} {f i j : Nat} (h : OInv cfg t f i j) :
    (t.retxTick cfg.retxThreshold cfg.retxMax).2 = .abort ∨
    ((t.retxTick cfg.retxThreshold cfg.retxMax).2 ≠ .abort ∧
      ∃ f1, (f1 = f ∨ f1 = 0) ∧ OInv cfg (t.retxTick cfg.retxThreshold cfg.retxMax).1 f1 (i + 1) j ∧
        (t.retxTick cfg.retxThreshold cfg.retxMax).1.sndWnd = t.sndWnd) := by
  obtain ⟨_, hhs, _⟩ := transmittable_facts h.tr
  obtain ⟨c1, c2, c3⟩ := retxTick_cases cfg.retxThreshold cfg.retxMax t hhs
  rcases h.rc.step with ⟨h1, hctr, hlt⟩ | ⟨h1, h2, hctr⟩ | ⟨h1, h2, _⟩
  · right
    rw [c1 h1]
    refine ⟨by simp, f, Or.inl rfl, ⟨h.tr, h.shape.congr rfl rfl rfl rfl, hctr hlt, h.pc⟩, rfl⟩
  · right
    have hn : ¬ t.egressSinceAck + 1 < cfg.retxThreshold := by omega
    rw [c3 hn h2]
    refine ⟨by simp, 0, Or.inr rfl, ⟨h.tr, ?_, hctr, h.pc⟩, rfl⟩
    exact ⟨h.shape.una, h.shape.len, by show t.sndUna = _; rw [wadd_zero _ h.shape.una], Nat.zero_le _, h.shape.fin⟩
  · left
    have hn : ¬ t.egressSinceAck + 1 < cfg.retxThreshold := by omega
    exact c2 hn (by omega)

/-- With nothing in flight, something is always pending: the persist filter only asks for a zero window. -/
theorem persistCandidate_iff {cfg : Cfg} {t : Tcb} {f i j : Nat} (h : OInv cfg t f i j) :
    t.persistCandidate = true ↔ (t.sndWnd = 0 ∧ f = 0) := by
  unfold Tcb.persistCandidate
  simp only [Bool.and_eq_true, beq_iff_eq, Bool.or_eq_true, Bool.not_eq_true', h.tr, true_and]
  rw [h.shape.idle_iff]
  constructor
  · rintro ⟨⟨hw, h0⟩, _⟩; exact ⟨hw, h0⟩
  · rintro ⟨hw, h0⟩
    refine ⟨⟨hw, h0⟩, ?_⟩
    cases hb : t.sendBuf with
    | nil =>
      right
      rw [h.shape.finPending_iff, hb, h0]; rfl
    | cons a b => left; rfl

/-- Phase 3, `segment_one`. -/
theorem seg_phase (cfg : Cfg) (mss : Nat) (hm : 1 ≤ mss) {t : Tcb} {f i j : Nat} (h : OInv cfg t f i j) :
    ∃ f3, f ≤ f3 ∧
      OInv cfg (if t.segCandidate then (Tcb.segLoop mss cfg.recvCap 0 (t.sendBuf.length + 2) t []).1 else t) f3 i j ∧
      (if t.segCandidate then (Tcb.segLoop mss cfg.recvCap 0 (t.sendBuf.length + 2) t []).1 else t).sndWnd = t.sndWnd ∧
      (f = 0 → 0 < t.sndWnd → 0 < f3) ∧ (t.sndWnd = 0 → f3 = f) := by
  by_cases hc : t.segCandidate = true
  · simp only [hc, if_true]
    obtain ⟨f3, hle, hsh, hgrow, hsame⟩ := segLoop_shape mss cfg.recvCap 0 hm (t.sendBuf.length + 2) t f [] h.shape
    have heq := Tcb.segLoop_eq mss cfg.recvCap 0 (t.sendBuf.length + 2) t []
    refine ⟨f3, hle, ⟨by rw [heq]; exact h.tr, hsh, by rw [heq]; exact h.rc, by rw [heq]; exact h.pc⟩, by rw [heq], ?_, ?_⟩
    · intro h0 hw
      have := hgrow (by omega) (by omega) (by omega)
      omega
    · intro hw
      have := hsame (by omega)
      rw [this] at hsh
      -- the same TCB has one in-flight count
      have e1 := hsh.inFlight
      have e2 := h.shape.inFlight
      omega
  · have hcf : t.segCandidate = false := by simpa using hc
    simp only [hcf, Bool.false_eq_true, if_false]
    refine ⟨f, Nat.le_refl _, h, trivial, ?_, fun _ => rfl⟩
    intro h0 _
    exfalso
    -- with nothing in flight the socket is a segmentation candidate
    apply hc
    unfold Tcb.segCandidate
    rw [h.tr, h.shape.inFlight, h0]
    cases hb : t.sendBuf with
    | nil =>
      have : t.finPending = true := by rw [h.shape.finPending_iff, hb, h0]; rfl
      simp [this]
    | cons a b => simp

/-- Phases 2 and 3 (persist sweep, `segment_one`) from a state `t1` left by the retransmit sweep. -/
theorem orphanTail_progress (cfg : Cfg) (mss : Nat) (hm : 1 ≤ mss) (hpp : cfg.fixPersistProbe = true)
    (hpb : cfg.fixPersistBudget = true) {t1 : Tcb} {f1 i1 j : Nat} (h1 : OInv cfg t1 f1 i1 j) :
    orphanTail cfg mss t1 = none ∨
    ∃ t' f' j', orphanTail cfg mss t1 = some t' ∧ OInv cfg t' f' i1 j' ∧ t'.sndWnd = t1.sndWnd ∧
      ((j' = j + 1 ∧ f1 = 0 ∧ t1.sndWnd = 0) ∨
       (j' = j ∧ ¬ (f1 = 0 ∧ t1.sndWnd = 0) ∧ f1 ≤ f' ∧ (f1 = 0 → 0 < f'))) := by
  unfold orphanTail
  rw [hpp, hpb]
  simp only [Bool.true_and]
  by_cases hpc : t1.persistCandidate = true
  · obtain ⟨hw0, hf0⟩ := (persistCandidate_iff h1).mp hpc
    rw [if_pos hpc]
    rcases h1.pc.step with ⟨p1, pctr, plt⟩ | ⟨p1, p2, pctr⟩ | ⟨p1, p2, _⟩
    · rw [if_pos p1]
      dsimp only
      have h2 : OInv cfg { t1 with persistTicks := t1.persistTicks + 1 } f1 i1 (j + 1) :=
        ⟨h1.tr, h1.shape.congr rfl rfl rfl rfl, h1.rc, pctr plt⟩
      obtain ⟨f3, _, h3, hw3, _, _⟩ := seg_phase cfg mss hm h2
      right
      exact ⟨_, f3, j + 1, rfl, h3, hw3, Or.inl ⟨rfl, hf0, hw0⟩⟩
    · have hn : ¬ t1.persistTicks + 1 < cfg.retxThreshold := by omega
      rw [if_neg hn, if_neg (by simp; omega)]
      dsimp only
      have h2 : OInv cfg (t1.probeSent true) f1 i1 (j + 1) :=
        ⟨h1.tr, h1.shape.congr rfl rfl rfl rfl, h1.rc, pctr⟩
      obtain ⟨f3, _, h3, hw3, _, _⟩ := seg_phase cfg mss hm h2
      right
      exact ⟨_, f3, j + 1, rfl, h3, hw3, Or.inl ⟨rfl, hf0, hw0⟩⟩
    · have hn : ¬ t1.persistTicks + 1 < cfg.retxThreshold := by omega
      rw [if_neg hn, if_pos (by simp; omega)]
      left; rfl
  · have hpcf : t1.persistCandidate = false := by simpa using hpc
    rw [hpcf]
    simp only [Bool.false_eq_true, if_false]
    obtain ⟨f3, hle, h3, hw3, hgrow, _⟩ := seg_phase cfg mss hm h1
    right
    refine ⟨_, f3, j, rfl, h3, hw3, Or.inr ⟨rfl, ?_, hle, ?_⟩⟩
    · intro hc
      exact hpc ((persistCandidate_iff h1).mpr ⟨hc.2, hc.1⟩)
    · intro h0
      have hwp : 0 < t1.sndWnd := by
        rcases Nat.eq_zero_or_pos t1.sndWnd with hz | hp
        · exact absurd ((persistCandidate_iff h1).mpr ⟨hz, h0⟩) hpc
        · exact hp
      exact hgrow h0 hwp

/-- The measure: steps left on both counters, plus one for the single round in which an idle socket
    with an open window only sends. -/
def orphanMeasure (cfg : Cfg) (t : Tcb) (f i j : Nat) : Nat :=
  (cfg.retxThreshold * (cfg.retxMax + 1) - i) + (cfg.retxThreshold * (cfg.retxMax + 1) - j) +
    (if f = 0 ∧ 0 < t.sndWnd then 1 else 0)

/-- **One round.** With the persist probe and its budget, a round of a socket in a transmitting state
    either removes it or strictly decreases the measure. -/
theorem orphanRound_progress (cfg : Cfg) (mss : Nat) (hm : 1 ≤ mss) (hpp : cfg.fixPersistProbe = true)
    (hpb : cfg.fixPersistBudget = true) {t : Tcb} {f i j : Nat} (h : OInv cfg t f i j) :
    orphanRound cfg mss t = none ∨
    ∃ t' f' i' j', orphanRound cfg mss t = some t' ∧ OInv cfg t' f' i' j' ∧
      orphanMeasure cfg t' f' i' j' < orphanMeasure cfg t f i j := by
  obtain ⟨hnc, hhs, hnf⟩ := transmittable_facts h.tr
  unfold orphanRound
  rw [hnc]
  by_cases hr : t.reset = true
  · left; simp [hr]
  have hrf : t.reset = false := by simpa using hr
  simp only [hrf, Bool.or_false, Bool.false_eq_true, if_false, hnf, Bool.and_false]
  have hil := h.rc.lt
  have hjl := h.pc.lt
  by_cases h0 : f = 0
  · -- nothing in flight: no retransmit candidate
    have hcand : t.retxCandidate = false := by
      unfold Tcb.retxCandidate
      rw [hhs, h.tr]
      have := h.shape.idle_iff.mpr h0
      simp [this]
    rw [hcand]
    simp only [Bool.false_eq_true, if_false]
    rcases orphanTail_progress cfg mss hm hpp hpb h with hn | ⟨t', f', j', he, hinv, hw, hcase⟩
    · exact Or.inl hn
    · right
      refine ⟨t', f', i, j', he, hinv, ?_⟩
      unfold orphanMeasure
      rw [hw]
      have hjl' := hinv.pc.lt
      rcases hcase with ⟨hj, _, hwz⟩ | ⟨hj, hnot, _, hpos⟩
      · have e1 : ¬ (f' = 0 ∧ 0 < t.sndWnd) := by omega
        have e2 : ¬ (f = 0 ∧ 0 < t.sndWnd) := by omega
        rw [if_neg e1, if_neg e2]; omega
      · have hfp := hpos h0
        have hwp : 0 < t.sndWnd := by
          rcases Nat.eq_zero_or_pos t.sndWnd with hz | hp
          · exact absurd ⟨h0, hz⟩ hnot
          · exact hp
        have e1 : ¬ (f' = 0 ∧ 0 < t.sndWnd) := by omega
        rw [if_neg e1, if_pos ⟨h0, hwp⟩]; omega
  · -- something in flight: the retransmit sweep ticks
    have hcand : t.retxCandidate = true := by
      unfold Tcb.retxCandidate
      rw [hhs, h.tr]
      have : t.sndUna ≠ t.sndNxt := fun he => h0 (h.shape.idle_iff.mp he)
      simp [this]
    rw [hcand]
    simp only [if_true]
    rcases sweep_phase cfg h with hab | ⟨hnab, f1, hf1, h1, hw1⟩
    · left; simp [hab]
    · have hne : ((t.retxTick cfg.retxThreshold cfg.retxMax).2 == Tcb.RetxAction.abort) = false := by
        simpa using hnab
      rw [hne]
      simp only [Bool.false_eq_true, if_false]
      rcases orphanTail_progress cfg mss hm hpp hpb h1 with hn | ⟨t', f', j', he, hinv, hw, hcase⟩
      · exact Or.inl hn
      · right
        refine ⟨t', f', i + 1, j', he, hinv, ?_⟩
        unfold orphanMeasure
        rw [hw, hw1]
        have e2 : ¬ (f = 0 ∧ 0 < t.sndWnd) := by omega
        rw [if_neg e2]
        rcases hcase with ⟨hj, _, hwz⟩ | ⟨hj, hnot, hle, hpos⟩
        · rw [hw1] at hwz
          have e1 : ¬ (f' = 0 ∧ 0 < t.sndWnd) := by omega
          rw [if_neg e1]; omega
        · have e1 : ¬ (f' = 0 ∧ 0 < t.sndWnd) := by
            rintro ⟨hf', _⟩
            rcases hf1 with hf1 | hf1
            · omega
            · have := hpos hf1; omega
          rw [if_neg e1]; omega

theorem orphanRounds_of_measure (cfg : Cfg) (mss : Nat) (hm : 1 ≤ mss) (hpp : cfg.fixPersistProbe = true)
    (hpb : cfg.fixPersistBudget = true) :
    ∀ (n : Nat) (t : Tcb) (f i j : Nat), OInv cfg t f i j → orphanMeasure cfg t f i j ≤ n →
      orphanRounds cfg mss (n + 1) t = none := by
  intro n
  induction n with
  | zero =>
    intro t f i j h hmu
    simp only [orphanRounds]
    rcases orphanRound_progress cfg mss hm hpp hpb h with hn | ⟨t', f', i', j', _, _, hlt⟩
    · rw [hn]
    · omega
  | succ n ih =>
    intro t f i j h hmu
    simp only [orphanRounds]
    rcases orphanRound_progress cfg mss hm hpp hpb h with hn | ⟨t', f', i', j', he, hinv, hlt⟩
    · rw [hn]
    · rw [he]
      exact ih t' f' i' j' hinv (by omega)

/-- `FIN_WAIT2` of an application-closed socket: only the timeout sweep touches it. -/
theorem finWait2_rounds (cfg : Cfg) (mss : Nat) (hfw : cfg.fixFinWait2Timeout = true) :
    ∀ (n : Nat) (t : Tcb) (i : Nat), t.state = .finWait2 →
      Ctr cfg.retxThreshold cfg.retxMax t.retxAttempts t.egressSinceAck i →
      cfg.retxThreshold * (cfg.retxMax + 1) - i ≤ n + 1 → orphanRounds cfg mss (n + 1) t = none := by
  intro n
  induction n with
  | zero =>
    intro t i hst hc hmu
    rw [orphanRounds_succ]
    have hhs : t.isHandshake = false := by unfold Tcb.isHandshake; rw [hst]; decide
    obtain ⟨c1, c2, c3⟩ := retxTick_cases cfg.retxThreshold cfg.retxMax t hhs
    have hlt := hc.lt
    rcases hc.step with ⟨_, _, h3⟩ | ⟨_, _, h3⟩ | ⟨h1, h2, _⟩
    · omega
    · have := h3.lt; omega
    · have hab := c2 (by omega) (by omega)
      unfold orphanRound
      rw [hst, hfw]
      by_cases hr : t.reset = true
      · simp [hr]
      · have hrf : t.reset = false := by simpa using hr
        simp [hrf, hab]
  | succ n ih =>
    intro t i hst hc hmu
    rw [orphanRounds_succ]
    have hhs : t.isHandshake = false := by unfold Tcb.isHandshake; rw [hst]; decide
    obtain ⟨c1, c2, c3⟩ := retxTick_cases cfg.retxThreshold cfg.retxMax t hhs
    have htr : ∀ t' : Tcb, t'.state = .finWait2 → t'.persistCandidate = false ∧ t'.segCandidate = false := by
      intro t' h'
      unfold Tcb.persistCandidate Tcb.segCandidate Tcb.transmittable
      rw [h']; simp
    unfold orphanRound
    rw [hst, hfw]
    by_cases hr : t.reset = true
    · simp [hr]
    have hrf : t.reset = false := by simpa using hr
    simp only [hrf, Bool.or_false, Bool.true_and]
    have hnc : (TcpState.finWait2 == TcpState.closed) = false := by decide
    rw [hnc]
    simp only [Bool.false_eq_true, if_false, beq_self_eq_true, Bool.or_true, if_true]
    have tail : ∀ t1 : Tcb, t1.state = .finWait2 → orphanTail cfg mss t1 = some t1 := by
      intro t1 h1
      obtain ⟨p1, p2⟩ := htr t1 h1
      unfold orphanTail
      simp [p1, p2]
    rcases hc.step with ⟨h1, hctr, hl⟩ | ⟨h1, h2, hctr⟩ | ⟨h1, h2, _⟩
    · rw [c1 h1]
      simp only [show (Tcb.RetxAction.none == Tcb.RetxAction.abort) = false from by decide, Bool.false_eq_true, if_false]
      rw [tail _ (by exact hst)]
      refine ih _ (i + 1) ?_ ?_ (by omega)
      · exact hst
      · exact hctr hl
    · have hn : ¬ t.egressSinceAck + 1 < cfg.retxThreshold := by omega
      rw [c3 hn h2]
      simp only [show (Tcb.RetxAction.none == Tcb.RetxAction.abort) = false from by decide, Bool.false_eq_true, if_false]
      rw [tail _ (by exact hst)]
      refine ih _ (i + 1) ?_ ?_ (by omega)
      · exact hst
      · exact hctr
    · have hab := c2 (by omega) (by omega)
      simp [hab]

theorem Ctr.ofBounds {thr max a e : Nat} (he : e < thr) (ha : a ≤ max) : Ctr thr max a e (a * thr + e) := by
  refine ⟨he, rfl, ?_⟩
  have h1 : a * thr ≤ max * thr := Nat.mul_le_mul_right thr ha
  have hexp : thr * (max + 1) = max * thr + thr := by rw [Nat.mul_succ, Nat.mul_comm]
  omega

/-- **Blackhole reclamation, transmitting states.**  A socket the application has closed, in a state that
    still transmits (`FIN_WAIT1`, `CLOSING`, `LAST_ACK`), whose FIN is queued behind `sendBuf`, and which
    hears nothing from its peer, is removed from the table within `2 · thr · (max + 1) + 2` egress rounds --
    whatever its send window, whatever is in flight.  Needs the persist probe (4e44fd9) and its budget
    (69f2c06): without the budget the zero-window case never ends (`witness_F_C13_4_committed10`). -/
theorem blackhole_orphan_reclaimed (cfg : Cfg) (mss : Nat) (hm : 1 ≤ mss) (hpp : cfg.fixPersistProbe = true)
    (hpb : cfg.fixPersistBudget = true) (t : Tcb) (f : Nat) (htr : t.transmittable = true) (hs : FinShape t f)
    (hre : t.egressSinceAck < cfg.retxThreshold) (hra : t.retxAttempts ≤ cfg.retxMax)
    (hpe : t.persistTicks < cfg.retxThreshold) (hpa : t.persistProbes ≤ cfg.retxMax) :
    orphanRounds cfg mss (2 * (cfg.retxThreshold * (cfg.retxMax + 1)) + 2) t = none := by
  have hinv : OInv cfg t f _ _ := ⟨htr, hs, Ctr.ofBounds hre hra, Ctr.ofBounds hpe hpa⟩
  refine orphanRounds_of_measure cfg mss hm hpp hpb _ t f _ _ hinv ?_
  unfold orphanMeasure
  generalize cfg.retxThreshold * (cfg.retxMax + 1) = T
  split <;> omega

/-- **Blackhole reclamation, `FIN_WAIT2`.**  With the narrow timeout (0ad6f5a) an application-closed
    `FIN_WAIT2` socket that hears nothing is removed within `thr · (max + 1)` egress rounds. -/
theorem blackhole_finWait2_reclaimed (cfg : Cfg) (mss : Nat) (hfw : cfg.fixFinWait2Timeout = true) (t : Tcb)
    (hst : t.state = .finWait2) (hre : t.egressSinceAck < cfg.retxThreshold) (hra : t.retxAttempts ≤ cfg.retxMax) :
    orphanRounds cfg mss (cfg.retxThreshold * (cfg.retxMax + 1)) t = none := by
  have hc := Ctr.ofBounds (max := cfg.retxMax) hre hra
  have hpos := hc.lt
  obtain ⟨n, hn⟩ : ∃ n, cfg.retxThreshold * (cfg.retxMax + 1) = n + 1 := ⟨_, (Nat.succ_pred_eq_of_pos (by omega)).symm⟩
  rw [hn]
  exact finWait2_rounds cfg mss hfw n t _ hst hc (by omega)

end TV.NetTcp
