/-
  Every action of the two-endpoint system preserves the invariants of both directions.
-/
import TvNetTcp.Proofs.PairInv

namespace TV.NetTcp

/-- What one action of endpoint `e` (peer `o`, result `e'`) has to establish. -/
structure StepOk (e o e' : End) : Prop where
  grow : SendGrow e e'
  send : ∃ base fa k, SendInv e' base fa k
  wire : WireInv e'
  recv : ∃ rcvd, RecvInv o e' rcvd
  wf : WF e'

section
variable {cfg : Cfg} {mss : Nat} {e o : End}

/-- Hypotheses available before a step of `e`. -/
structure Pre (e o : End) : Prop where
  wfe : WF e
  wfo : WF o
  send : ∃ base fa k, SendInv e base fa k
  wire : WireInv e
  recv : ∃ rcvd, RecvInv o e rcvd
  owire : WireInv o
  nwe : NoWrap e
  nwo : NoWrap o

theorem stepOk_refl (h : Pre e o) : StepOk e o e :=
  ⟨SendGrow.refl_of rfl rfl id, h.send, h.wire, h.recv, h.wfe⟩

/-- A step that replaces the TCB by one with the same sender / receiver fields and may append
    control segments to `out`. -/
theorem stepOk_same (h : Pre e o) {t' : Tcb} (extra : List Seg)
    (hs : SameSend e.tcb t') (hr : SameRecv e.tcb t') (hrcv : t'.rcvNxt < M32)
    (hx : ∀ sg ∈ extra, sg.payload = [] ∧ sg.flags.fin = false ∧ sg.seq < M32 ∧ sg.ack < M32) :
    StepOk e o { e with tcb := t', out := e.out ++ extra } := by
  have hg : SendGrow e { e with tcb := t', out := e.out ++ extra } :=
    SendGrow.refl_of rfl rfl (by intro hw; show t'.wrClosed = true; rw [hs.wr]; exact hw)
  obtain ⟨b, f, k, hsi⟩ := h.send
  obtain ⟨rc, hri⟩ := h.recv
  refine ⟨hg, ⟨b, f, k, hsi.congr hs rfl rfl⟩, ?_, ⟨rc, hri.congr_r hr rfl⟩, ⟨hrcv, by rw [hs.nxt]; exact h.wfe.nxt, by rw [hs.una]; exact h.wfe.una⟩⟩
  intro sg hsg
  simp only [List.mem_append] at hsg
  rcases hsg with hsg | hsg
  · exact (h.wire sg hsg).congr_s hg
  · obtain ⟨h1, h2, h3, h4⟩ := hx sg hsg
    exact SegOk.ctl _ h3 h4 h1 h2

theorem step_write (h : Pre e o) (buf : List Nat) (hnw' : NoWrap (endStep cfg mss e o (.write buf))) :
    StepOk e o (endStep cfg mss e o (.write buf)) := by
  rcases Tcb.pollSend_cases cfg.sendCap e.tcb buf with ⟨h1, h2⟩ | ⟨n, h1, hab, hwr⟩
  · have : endStep cfg mss e o (.write buf) = e := by
      simp only [endStep]
      cases hres : (e.tcb.pollSend cfg.sendCap buf).2 with
      | ok n => exact absurd hres (h2 n)
      | pending => rw [h1]
      | err er => rw [h1]
    rw [this]; exact stepOk_refl h
  · have heq : endStep cfg mss e o (.write buf) =
        { e with tcb := { e.tcb with sendBuf := e.tcb.sendBuf ++ buf.take n }, acc := e.acc ++ buf.take n } := by
      simp only [endStep]
      rw [h1]
    rw [heq] at hnw' ⊢
    have hg : SendGrow e { e with tcb := { e.tcb with sendBuf := e.tcb.sendBuf ++ buf.take n }, acc := e.acc ++ buf.take n } :=
      ⟨rfl, ⟨buf.take n, rfl, by intro hw; rw [hwr] at hw; cases hw⟩, by intro hw; exact hw⟩
    obtain ⟨b, f, k, hsi⟩ := h.send
    obtain ⟨rc, hri⟩ := h.recv
    exact ⟨hg, ⟨b, f, k, send_accept _ hsi hab hwr⟩, h.wire.congr_s hg rfl,
      ⟨rc, hri.congr_r ⟨rfl, rfl, rfl, rfl, id⟩ rfl⟩, ⟨h.wfe.rcv, h.wfe.nxt, h.wfe.una⟩⟩

theorem step_read (h : Pre e o) (n : Nat) : StepOk e o (endStep cfg mss e o (.read n)) := by
  have hg0 : ∀ (t' : Tcb) (d : List Nat) (ex : List Seg), t'.wrClosed = e.tcb.wrClosed →
      SendGrow e { e with tcb := t', del := d, out := e.out ++ ex } :=
    fun t' d ex hw => SendGrow.refl_of rfl rfl (by intro hh; show t'.wrClosed = true; rw [hw]; exact hh)
  obtain ⟨b, f, k, hsi⟩ := h.send
  obtain ⟨rc, hri⟩ := h.recv
  -- the shape of the result
  have key : ∃ (t' : Tcb) (d : List Nat) (ex : List Seg),
      endStep cfg mss e o (.read n) = { e with tcb := t', del := d, out := e.out ++ ex } ∧
      SameSend e.tcb t' ∧ t'.rcvNxt = e.tcb.rcvNxt ∧
      (∃ rcvd, RecvInv o { e with tcb := t', del := d, out := e.out ++ ex } rcvd) ∧
      (∀ sg ∈ ex, sg = t'.ackSeg cfg.recvCap 0 0) := by
    rcases Tcb.pollRecv_cases cfg e.tcb n with ⟨h1, h2⟩ | ⟨kk, h1, h2, _⟩
    · -- nothing popped
      have hd : ∀ bs, (e.tcb.pollRecv cfg n).2.1 = .ok bs → e.del ++ bs = e.del := by
        intro bs hb; rw [h2 bs hb]; simp
      refine ⟨e.tcb, e.del, if (e.tcb.pollRecv cfg n).2.2 then [e.tcb.ackSeg cfg.recvCap 0 0] else [], ?_,
        ⟨rfl, rfl, rfl, rfl, rfl, rfl, rfl⟩, rfl, ⟨rc, hri.congr_r ⟨rfl, rfl, rfl, rfl, id⟩ rfl⟩, ?_⟩
      · simp only [endStep]
        rw [h1]
        cases hres : (e.tcb.pollRecv cfg n).2.1 with
        | ok bs =>
          dsimp only
          rw [hd bs hres]
          split <;> simp
        | pending => dsimp only; split <;> simp
        | err er => dsimp only; split <;> simp
      · intro sg hsg
        split at hsg
        · simpa using hsg
        · cases hsg
    · refine ⟨{ e.tcb with recvBuf := e.tcb.recvBuf.drop kk }, e.del ++ e.tcb.recvBuf.take kk,
        if (e.tcb.pollRecv cfg n).2.2 then [({ e.tcb with recvBuf := e.tcb.recvBuf.drop kk } : Tcb).ackSeg cfg.recvCap 0 0] else [], ?_,
        ⟨rfl, rfl, rfl, rfl, rfl, rfl, rfl⟩, rfl, ⟨rc, ?_⟩, ?_⟩
      · simp only [endStep]
        rw [h1, h2]
        dsimp only
        split <;> simp
      · have := recv_read kk hri
        exact ⟨this.le, this.stream, this.nxt, this.fin⟩
      · intro sg hsg
        split at hsg
        · simpa using hsg
        · cases hsg
  obtain ⟨t', d, ex, heq, hss, hrn, ⟨rc', hri'⟩, hex⟩ := key
  rw [heq]
  have hg := hg0 t' d ex hss.wr
  refine ⟨hg, ⟨b, f, k, hsi.congr hss rfl rfl⟩, ?_, ⟨rc', hri'⟩,
    ⟨by rw [hrn]; exact h.wfe.rcv, by rw [hss.nxt]; exact h.wfe.nxt, by rw [hss.una]; exact h.wfe.una⟩⟩
  intro sg hsg
  simp only [List.mem_append] at hsg
  rcases hsg with hsg | hsg
  · exact (h.wire sg hsg).congr_s hg
  · rw [hex sg hsg]
    exact SegOk.ackSeg _ _ _ _ _ (by rw [hss.nxt]; exact h.wfe.nxt) (by rw [hrn]; exact h.wfe.rcv)

theorem step_shutdown (h : Pre e o) : StepOk e o (endStep cfg mss e o .shutdown) := by
  simp only [endStep]
  rcases Tcb.shutdownWrite_cases e.tcb with h1 | ⟨hab, h1⟩
  · rw [h1]; exact stepOk_refl h
  · rw [h1]
    obtain ⟨b, f, k, hsi⟩ := h.send
    obtain ⟨rc, hri⟩ := h.recv
    have hsend := send_queueFin hsi hab
    rcases Tcb.queueFin_cases e.tcb with h2 | ⟨hwr, h2⟩
    · rw [h2]; exact stepOk_refl h
    · have hg : SendGrow e { e with tcb := e.tcb.queueFin } :=
        SendGrow.refl_of rfl rfl (by intro _; rw [h2])
      refine ⟨hg, ⟨b, f, k, hsend⟩, h.wire.congr_s hg rfl, ⟨rc, hri.congr_r ?_ rfl⟩, ?_⟩
      · rw [h2]
        exact ⟨rfl, rfl, rfl, rfl, fun hc => Tcb.stateOnShutdown_closed _ hc⟩
      · rw [h2]; exact ⟨h.wfe.rcv, h.wfe.nxt, h.wfe.una⟩

theorem step_segment (h : Pre e o) : StepOk e o (endStep cfg mss e o .segment) := by
  simp only [endStep]
  split
  rotate_left
  · exact stepOk_refl h
  have hl := send_segLoop (s := e) mss cfg.recvCap 0 (e.tcb.sendBuf.length + 2) e.tcb [] h.nwe h.wfe.rcv rfl h.send
    (by intro sg hsg; cases hsg)
  have heq := Tcb.segLoop_eq mss cfg.recvCap 0 (e.tcb.sendBuf.length + 2) e.tcb []
  generalize Tcb.segLoop mss cfg.recvCap 0 (e.tcb.sendBuf.length + 2) e.tcb [] = r at hl heq
  obtain ⟨t', segs⟩ := r
  dsimp only at hl heq ⊢
  obtain ⟨hsend, hsegs, hrcv, hwr⟩ := hl
  have hg : SendGrow e { e with tcb := t', out := e.out ++ segs } :=
    SendGrow.refl_of rfl rfl (by intro hw; show t'.wrClosed = true; rw [hwr]; exact hw)
  obtain ⟨rc, hri⟩ := h.recv
  obtain ⟨b, f, k, hsi⟩ := hsend
  refine ⟨hg, ⟨b, f, k, hsi.congr ⟨rfl, rfl, rfl, rfl, rfl, rfl, rfl⟩ rfl rfl⟩, ?_, ⟨rc, hri.congr_r ?_ rfl⟩, ?_⟩
  · intro sg hsg
    simp only [List.mem_append] at hsg
    rcases hsg with hsg | hsg
    · exact (h.wire sg hsg).congr_s hg
    · exact (hsegs sg hsg).congr_s hg
  · rw [heq]; exact ⟨rfl, rfl, rfl, rfl, id⟩
  · refine ⟨by rw [hrcv]; exact h.wfe.rcv, by rw [hsi.nxt]; exact wadd_lt _ _, ?_⟩
    rw [heq]; exact h.wfe.una

theorem step_abort (h : Pre e o) (b : Bool) : StepOk e o { e with tcb := e.tcb.abort b } := by
  have hg : SendGrow e { e with tcb := e.tcb.abort b } := SendGrow.refl_of rfl rfl id
  obtain ⟨bs, f, k, hsi⟩ := h.send
  obtain ⟨rc, hri⟩ := h.recv
  exact ⟨hg, ⟨bs, f, k, send_abort b hsi⟩, h.wire.congr_s hg rfl, recv_abort b hri, ⟨h.wfe.rcv, h.wfe.nxt, h.wfe.una⟩⟩

theorem step_retx (h : Pre e o) (a b : Nat) : StepOk e o (endStep cfg mss e o (.retx a b)) := by
  simp only [endStep]
  split
  rotate_left
  · exact stepOk_refl h
  obtain ⟨bs, f, k, hsi⟩ := h.send
  obtain ⟨k', hsi'⟩ := send_retxTick a b hsi
  have heq := Tcb.retxTick_eq a b e.tcb
  obtain ⟨rc, hri⟩ := h.recv
  -- the state after the tick
  have hmid : StepOk e o { e with tcb := (e.tcb.retxTick a b).1 } := by
    have hg : SendGrow e { e with tcb := (e.tcb.retxTick a b).1 } :=
      SendGrow.refl_of rfl rfl (by intro hw; rw [heq]; exact hw)
    refine ⟨hg, ⟨bs, f, k', hsi'⟩, h.wire.congr_s hg rfl, ⟨rc, hri.congr_r ?_ rfl⟩, ?_⟩
    · rw [heq]; exact ⟨rfl, rfl, rfl, rfl, id⟩
    · refine ⟨by rw [heq]; exact h.wfe.rcv, by rw [hsi'.nxt]; exact wadd_lt _ _, by rw [heq]; exact h.wfe.una⟩
  split
  · -- abort after the tick
    have hpre : Pre { e with tcb := (e.tcb.retxTick a b).1 } o :=
      ⟨hmid.wf, h.wfo, hmid.send, hmid.wire, hmid.recv, h.owire, h.nwe, h.nwo⟩
    have := step_abort hpre false
    exact ⟨SendGrow.refl_of rfl rfl (fun hw => hmid.grow.wr hw), this.send, this.wire, this.recv, this.wf⟩
  · exact hmid

theorem step_emitCtl (h : Pre e o) (sg : Seg) : StepOk e o (endStep cfg mss e o (.emitCtl sg)) := by
  simp only [endStep]
  split
  rotate_left
  · exact stepOk_refl h
  rename_i hc
  simp only [ctlOk, Bool.and_eq_true, List.isEmpty_iff, Bool.not_eq_eq_eq_not, Bool.not_true, decide_eq_true_eq] at hc
  have := stepOk_same (e := e) (o := o) h [sg] ⟨rfl, rfl, rfl, rfl, rfl, rfl, rfl⟩ ⟨rfl, rfl, rfl, rfl, id⟩ h.wfe.rcv
    (by intro sg' hsg'; simp only [List.mem_singleton] at hsg'; subst hsg'; exact ⟨hc.1.1.1, hc.1.1.2, hc.1.2, hc.2⟩)
  exact this

theorem step_recv (h : Pre e o) (i : Nat) : StepOk e o (endStep cfg mss e o (.recv i)) := by
  simp only [endStep]
  split
  rotate_left
  · exact stepOk_refl h
  rename_i sg hsg
  have hok : SegOk o sg := h.owire sg (List.mem_of_getElem? hsg)
  unfold endRecv
  split
  · exact step_abort h true
  · split
    · exact stepOk_refl h
    · rename_i hopen
      have hopen' : e.tcb.state ≠ .closed := by simpa using hopen
      obtain ⟨bs, f, k, hsi⟩ := h.send
      obtain ⟨rc, hri⟩ := h.recv
      obtain ⟨b', f', k', hs1⟩ := send_onAck cfg.fixSndMax sg hsi h.nwe hok.2.1
      obtain ⟨rc', hr1⟩ := recv_handleEstablished (cfg := cfg) hri hok h.nwo hopen'
      -- the sender half after data / FIN processing is that after ACK processing
      have hss : SameSend (e.tcb.onAck cfg.fixSndMax sg) (e.tcb.handleEstablished cfg sg).1 := by
        unfold Tcb.handleEstablished
        dsimp only
        rw [Tcb.onFin_send, Tcb.onData_send]
        exact ⟨rfl, rfl, rfl, rfl, rfl, rfl, rfl⟩
      have hsend : SendInv { e with tcb := (e.tcb.handleEstablished cfg sg).1 } b' f' k' :=
        hs1.congr hss rfl rfl
      have hwr : (e.tcb.handleEstablished cfg sg).1.wrClosed = e.tcb.wrClosed := by
        rw [hss.wr]
        unfold Tcb.onAck
        split
        · split <;> rfl
        · rfl
      have hrcvlt : (e.tcb.handleEstablished cfg sg).1.rcvNxt < M32 := by
        unfold Tcb.handleEstablished
        dsimp only
        apply Tcb.onFin_rcvNxt_lt
        apply Tcb.onData_rcvNxt_lt
        unfold Tcb.onAck
        split
        · split
          · exact h.wfe.rcv
          · exact h.wfe.rcv
        · exact h.wfe.rcv
      have hnxtlt : (e.tcb.handleEstablished cfg sg).1.sndNxt < M32 := by rw [hsend.nxt]; exact wadd_lt _ _
      have hunalt : (e.tcb.handleEstablished cfg sg).1.sndUna < M32 := by rw [hsend.una]; exact wadd_lt _ _
      have hmaxlt : (e.tcb.handleEstablished cfg sg).1.sndMax < M32 := by
        obtain ⟨km, _, hm2, _, _⟩ := hsend.mx
        rw [hm2]; exact wadd_lt _ _
      have hfin : ∀ (ex : List Seg), (∀ s' ∈ ex, s' = (e.tcb.handleEstablished cfg sg).1.replySeg cfg sg 0 0) →
          StepOk e o { e with tcb := (e.tcb.handleEstablished cfg sg).1, out := e.out ++ ex } := by
        intro ex hex
        have hg : SendGrow e { e with tcb := (e.tcb.handleEstablished cfg sg).1, out := e.out ++ ex } :=
          SendGrow.refl_of rfl rfl (by intro hw; show (e.tcb.handleEstablished cfg sg).1.wrClosed = true; rw [hwr]; exact hw)
        refine ⟨hg, ⟨b', f', k', hsend.congr ⟨rfl, rfl, rfl, rfl, rfl, rfl, rfl⟩ rfl rfl⟩, ?_,
          ⟨rc', ⟨hr1.le, hr1.stream, hr1.nxt, hr1.fin⟩⟩, ⟨hrcvlt, hnxtlt, hunalt⟩⟩
        intro s' hs'
        simp only [List.mem_append] at hs'
        rcases hs' with hs' | hs'
        · exact (h.wire s' hs').congr_s hg
        · rw [hex s' hs']
          obtain ⟨f1, f2, f3, _, f5⟩ := Tcb.replySeg_facts cfg (e.tcb.handleEstablished cfg sg).1 sg 0 0
          refine SegOk.ctl _ ?_ (by rw [f3]; exact hrcvlt) f1 f2
          rcases f5 with f5 | f5 <;> rw [f5]
          · exact hnxtlt
          · exact hmaxlt
      dsimp only
      split
      · exact hfin [_] (by intro s' hs'; simpa using hs')
      · have := hfin [] (by intro s' hs'; cases hs')
        simpa using this

/-- Every action preserves everything. -/
theorem endStep_ok (h : Pre e o) (a : Act) (hnw' : NoWrap (endStep cfg mss e o a)) :
    StepOk e o (endStep cfg mss e o a) := by
  cases a with
  | write buf => exact step_write h buf hnw'
  | read n => exact step_read h n
  | shutdown => exact step_shutdown h
  | segment => exact step_segment h
  | retx a b => exact step_retx h a b
  | recv i => exact step_recv h i
  | abort b => simpa [endStep] using step_abort h b
  | emitCtl sg => exact step_emitCtl h sg

end
end TV.NetTcp
