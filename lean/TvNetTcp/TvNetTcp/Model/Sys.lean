/-
  The system the harness drives: hosts (one kernel each), the wire (the harness *is* the wire: it
  takes packets from `egress_all` and decides deliver / hold / drop / duplicate per packet), and the
  shim-level handles (`TcpListener`, `TcpStream`, pending `connect` futures with their `FdGuard`,
  `UdpSocket`).  `Sys.step` is the executable semantics of one OP line of the trace grammar.
-/
import TvNetTcp.Model.Kernel

namespace TV.NetTcp

/-- A pending `TcpStream::connect` future: host, fd (owned by the armed `FdGuard`), the stream slot it
    becomes on success, and the peer. -/
structure Connecting where
  host : Nat
  fd : Nat
  sslot : Nat
  peer : SockAddr
  deriving DecidableEq, Repr, Inhabited

inductive Op where
  | listen (h lslot : Nat) (addr : SockAddr)
  | ldrop (lslot : Nat)
  | connect (h cslot sslot : Nat) (peer : SockAddr)
  | cpoll (cslot sslot : Nat)
  | ccancel (cslot : Nat)
  | accept (lslot sslot : Nat)
  | write (sslot : Nat) (bytes : List Nat)
  | read (sslot n : Nat)
  | peek (sslot n : Nat)
  | shutdown (sslot : Nat)
  | sdrop (sslot : Nat)
  | udpBind (h uslot : Nat) (addr : SockAddr)
  | udpSend (uslot len : Nat) (dst : SockAddr)
  | egress
  | deliver (id : Nat)
  | drop (id : Nat)
  | dup (id : Nat)
  | stat
  deriving DecidableEq, Repr, Inhabited

inductive NsState where
  | listen
  | tcp (s : TcpState)
  | none
  deriving DecidableEq, Repr, Inhabited

inductive Obs where
  | ok
  | nothing
  | pending
  | err (e : Err)
  | okPort (p : Nat)
  | okConn (loc peer : SockAddr)
  | okN (n : Nat)
  | okBytes (bs : List Nat)
  | pkt (id : Nat) (p : Packet)
  | cnt (h socks bkeys bfds conns dangling : Nat)
  | ns (h : Nat) (udp : Bool) (recvq sendq : Nat) (loc : SockAddr) (peer : Option SockAddr) (st : NsState)
  | badop
  deriving DecidableEq, Repr, Inhabited

structure Sys where
  cfg : Cfg
  kernels : List Kernel
  wire : List (Nat × Packet) := []
  nextPkt : Nat := 0
  listeners : List (Nat × Nat × Nat) := []     -- lslot ↦ (host, fd)
  streams : List (Nat × Nat × Nat) := []       -- sslot ↦ (host, fd)
  connecting : List (Nat × Connecting) := []   -- cslot ↦ pending connect
  udps : List (Nat × Nat × Nat) := []          -- uslot ↦ (host, fd)
  deriving Repr, Inhabited

namespace Sys

/-- `n` hosts; host `h` owns `Ip.host h false` and `Ip.host h true`. -/
def init (cfg : Cfg) (n : Nat) : Sys :=
  { cfg := cfg, kernels := (List.range n).map fun h => { addresses := [Ip.host h false, Ip.host h true] } }

def kernel (s : Sys) (h : Nat) : Kernel := s.kernels.getD h {}

def setKernel (s : Sys) (h : Nat) (k : Kernel) : Sys := { s with kernels := s.kernels.set h k }

def hostOfIp : Ip → Option Nat
  | .host h _ => some h
  | _ => none

def eraseKey {β : Type} (l : List (Nat × β)) (k : Nat) : List (Nat × β) := l.filter fun e => e.1 != k

/-- `netstat::snapshot` (netstat.rs:78). -/
def netstat (h : Nat) (k : Kernel) : List Obs :=
  k.sockets.filterMap fun e =>
    match e.2.bound with
    | none => none
    | some b =>
      let loc : SockAddr := { ip := b.ip, port := b.port }
      if e.2.dgram then some (.ns h true 0 0 loc none .none)
      else
        match e.2.tcb with
        | some t =>
          if t.state == .closed then none
          else some (.ns h false t.recvBuf.length t.sendBuf.length loc (some t.peer) (.tcp t.state))
        | none =>
          match e.2.listen with
          | some li => some (.ns h false li.ready.length li.backlog loc none .listen)
          | none => none

/-- Hook `verif_tcp_counts`. -/
def counts (h : Nat) (k : Kernel) : Obs :=
  let bfds := (k.bindings.map fun e => e.2.length).sum
  let live := fun fd => (k.getSock fd).isSome
  let dangling := ((k.bindings.map fun e => (e.2.filter fun fd => !live fd).length).sum) +
    (k.connections.filter fun e => !live e.2).length
  .cnt h k.sockets.length k.bindings.length bfds k.connections.length dangling

def localAddr (k : Kernel) (fd : Nat) : SockAddr :=
  match k.getSock fd with
  | some s => Kernel.boundEndpoint s
  | none => { ip := .any false, port := 0 }

/-- Resolve a finished `connect` poll: Ok ⇒ the fd becomes a stream (guard disarmed); Err ⇒ the guard
    closes the fd; Pending ⇒ the future stays. -/
def settleConnect (s : Sys) (cslot : Nat) (c : Connecting) (k : Kernel) (r : Res Unit) : Sys × List Obs :=
  match r with
  | .pending =>
    ({ (s.setKernel c.host k) with connecting := (eraseKey s.connecting cslot) ++ [(cslot, c)] }, [.pending])
  | .ok _ =>
    let loc := localAddr k c.fd
    let peer := match k.getSock c.fd with
      | some so => so.peer.getD c.peer
      | none => c.peer
    ({ (s.setKernel c.host k) with
        connecting := eraseKey s.connecting cslot
        streams := (eraseKey s.streams c.sslot) ++ [(c.sslot, c.host, c.fd)] }, [.okConn loc peer])
  | .err e =>
    ({ (s.setKernel c.host (k.close s.cfg.fixListenerFamily c.fd)) with connecting := eraseKey s.connecting cslot }, [.err e])

/-- `Fabric::egress_all`: every host in insertion order. -/
def egressAll (cfg : Cfg) : List Kernel → List Kernel × List Packet
  | [] => ([], [])
  | k :: ks =>
    let r := k.egress cfg
    let rest := egressAll cfg ks
    (r.1 :: rest.1, r.2 ++ rest.2)

/-- The harness numbers every egressed packet; TCP packets go onto the wire, UDP datagrams are only
    reported. -/
def wireStep (acc : List (Nat × Packet) × List Obs × Nat) (p : Packet) : List (Nat × Packet) × List Obs × Nat :=
  if p.udp.isSome then (acc.1, acc.2.1 ++ [.pkt acc.2.2 p], acc.2.2 + 1)
  else (acc.1 ++ [(acc.2.2, p)], acc.2.1 ++ [.pkt acc.2.2 p], acc.2.2 + 1)

def step (s : Sys) : Op → Sys × List Obs
  | .listen h lslot addr =>
    let k := s.kernel h
    match k.bind addr false with
    | (k1, .ok fd) =>
      let k2 := k1.listen fd s.cfg.backlog
      ({ (s.setKernel h k2) with listeners := (eraseKey s.listeners lslot) ++ [(lslot, h, fd)] },
        [.okPort (localAddr k2 fd).port])
    | (k1, .err e) => (s.setKernel h k1, [.err e])
    | (k1, .pending) => (s.setKernel h k1, [.pending])
  | .ldrop lslot =>
    match s.listeners.lookup lslot with
    | none => (s, [.badop])
    | some (h, fd) =>
      ({ (s.setKernel h ((s.kernel h).close s.cfg.fixListenerFamily fd)) with listeners := eraseKey s.listeners lslot }, [.ok])
  | .connect h cslot sslot peer =>
    let (k1, fd) := (s.kernel h).openSock peer.ip.isV6 false
    let (k2, r) := k1.pollConnect s.cfg fd peer
    settleConnect s cslot { host := h, fd := fd, sslot := sslot, peer := peer } k2 r
  | .cpoll cslot _ =>
    match s.connecting.lookup cslot with
    | none => (s, [.badop])
    | some c =>
      let (k1, r) := (s.kernel c.host).pollConnect s.cfg c.fd c.peer
      settleConnect s cslot c k1 r
  | .ccancel cslot =>
    match s.connecting.lookup cslot with
    | none => (s, [.badop])
    | some c =>
      ({ (s.setKernel c.host ((s.kernel c.host).close s.cfg.fixListenerFamily c.fd)) with connecting := eraseKey s.connecting cslot }, [.ok])
  | .accept lslot sslot =>
    match s.listeners.lookup lslot with
    | none => (s, [.badop])
    | some (h, fd) =>
      match (s.kernel h).pollAccept fd with
      | (k1, .ok (child, peer)) =>
        ({ (s.setKernel h k1) with streams := (eraseKey s.streams sslot) ++ [(sslot, h, child)] },
          [.okConn (localAddr k1 child) peer])
      | (k1, .pending) => (s.setKernel h k1, [.pending])
      | (k1, .err e) => (s.setKernel h k1, [.err e])
  | .write sslot bytes =>
    match s.streams.lookup sslot with
    | none => (s, [.badop])
    | some (h, fd) =>
      match (s.kernel h).pollSend s.cfg fd bytes with
      | (k1, .ok n) => (s.setKernel h k1, [.okN n])
      | (k1, .pending) => (s.setKernel h k1, [.pending])
      | (k1, .err e) => (s.setKernel h k1, [.err e])
  | .read sslot n =>
    match s.streams.lookup sslot with
    | none => (s, [.badop])
    | some (h, fd) =>
      match (s.kernel h).pollRecv s.cfg fd n with
      | (k1, .ok bs) => (s.setKernel h k1, [.okBytes bs])
      | (k1, .pending) => (s.setKernel h k1, [.pending])
      | (k1, .err e) => (s.setKernel h k1, [.err e])
  | .peek sslot n =>
    match s.streams.lookup sslot with
    | none => (s, [.badop])
    | some (h, fd) =>
      match (s.kernel h).pollPeek fd n with
      | .ok bs => (s, [.okBytes bs])
      | .pending => (s, [.pending])
      | .err e => (s, [.err e])
  | .shutdown sslot =>
    match s.streams.lookup sslot with
    | none => (s, [.badop])
    | some (h, fd) =>
      match (s.kernel h).pollShutdown fd with
      | (k1, .ok _) => (s.setKernel h k1, [.ok])
      | (k1, .pending) => (s.setKernel h k1, [.pending])
      | (k1, .err e) => (s.setKernel h k1, [.err e])
  | .sdrop sslot =>
    match s.streams.lookup sslot with
    | none => (s, [.badop])
    | some (h, fd) =>
      ({ (s.setKernel h ((s.kernel h).close s.cfg.fixListenerFamily fd)) with streams := eraseKey s.streams sslot }, [.ok])
  | .udpBind h uslot addr =>
    match (s.kernel h).bind addr true with
    | (k1, .ok fd) =>
      ({ (s.setKernel h k1) with udps := (eraseKey s.udps uslot) ++ [(uslot, h, fd)] },
        [.okPort (localAddr k1 fd).port])
    | (k1, .err e) => (s.setKernel h k1, [.err e])
    | (k1, .pending) => (s.setKernel h k1, [.pending])
  | .udpSend uslot len dst =>
    match s.udps.lookup uslot with
    | none => (s, [.badop])
    | some (h, fd) =>
      match (s.kernel h).udpSendTo s.cfg fd len dst with
      | (k1, .ok n) => (s.setKernel h k1, [.okN n])
      | (k1, .pending) => (s.setKernel h k1, [.pending])
      | (k1, .err e) => (s.setKernel h k1, [.err e])
  | .egress =>
    let r := egressAll s.cfg s.kernels
    let w := r.2.foldl wireStep (s.wire, [], s.nextPkt)
    ({ s with kernels := r.1, wire := w.1, nextPkt := w.2.2 }, if w.2.1.isEmpty then [.nothing] else w.2.1)
  | .deliver id =>
    match s.wire.lookup id with
    | none => (s, [.badop])
    | some p =>
      let s1 := { s with wire := eraseKey s.wire id }
      match hostOfIp p.dst with
      | none => (s1, [.ok])
      | some h => (s1.setKernel h (Kernel.deliver s.cfg (s1.kernel h) p), [.ok])
  | .dup id =>
    match s.wire.lookup id with
    | none => (s, [.badop])
    | some p =>
      match hostOfIp p.dst with
      | none => (s, [.ok])
      | some h => (s.setKernel h (Kernel.deliver s.cfg (s.kernel h) p), [.ok])
  | .drop id =>
    match s.wire.lookup id with
    | none => (s, [.badop])
    | some _ => ({ s with wire := eraseKey s.wire id }, [.ok])
  | .stat =>
    (s, (List.range s.kernels.length).flatMap fun h => counts h (s.kernel h) :: netstat h (s.kernel h))

/-- Run a list of ops, collecting the observations per op. -/
def run (s : Sys) : List Op → Sys × List (List Obs)
  | [] => (s, [])
  | op :: rest =>
    let (s1, o) := s.step op
    let (s2, os) := run s1 rest
    (s2, o :: os)

def exec (s : Sys) (ops : List Op) : Sys := (s.run ops).1

end Sys
end TV.NetTcp
