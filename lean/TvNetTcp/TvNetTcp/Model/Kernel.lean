/-
  Per-host kernel: socket table with its three indexes (socket.rs), syscalls (kernel/mod.rs),
  inbound dispatch, close/reap, retransmit sweep, segmentation and `egress` (kernel/tcp.rs).
-/
import TvNetTcp.Model.Tcb

namespace TV.NetTcp

/-- `BindKey` (socket.rs:390). The domain is determined by the address family of `ip`. -/
structure BindKey where
  dgram : Bool
  ip : Ip
  port : Nat
  deriving DecidableEq, Repr, Inhabited

/-- `ListenState` (socket.rs:258) without the wakers. -/
structure Listen where
  backlog : Nat
  ready : List Nat := []
  deriving DecidableEq, Repr, Inhabited

/-- `Socket` (socket.rs:283): the fields TCP behaviour depends on. Wakers are not modelled (the
    harness polls with a no-op waker). -/
structure Socket where
  dgram : Bool := false
  v6 : Bool := false
  bound : Option BindKey := none
  peer : Option SockAddr := none
  tcb : Option Tcb := none
  listen : Option Listen := none
  fdClosed : Bool := false
  deriving DecidableEq, Repr, Inhabited

/-- `Kernel` + `SocketTable`. `sockets`, `bindings`, `connections` are `IndexMap`s: association
    lists in insertion order; `remove` is `shift_remove` / `retain` (order preserving). -/
structure Kernel where
  nextId : Nat := 1
  sockets : List (Nat × Socket) := []
  bindings : List (BindKey × List Nat) := []
  connections : List ((SockAddr × SockAddr) × Nat) := []
  portCursor : Nat := ephLo
  addresses : List Ip := []
  outbound : List Packet := []
  tcpIsn : Nat := isnStart
  /-- ghost: fds handed out by `poll_accept`, oldest first (C13 accept-once). -/
  acceptLog : List Nat := []
  /-- ghost: fds `push_to_listener` queued on a listener, oldest first (C13 accept-once). -/
  pushLog : List Nat := []
  deriving Repr, Inhabited

namespace Kernel

def getSock (k : Kernel) (fd : Nat) : Option Socket := k.sockets.lookup fd

/-- Replace the entry of `fd` (no-op when absent). -/
def setSock (k : Kernel) (fd : Nat) (s : Socket) : Kernel :=
  { k with sockets := k.sockets.map fun e => if e.1 == fd then (fd, s) else e }

def getTcb (k : Kernel) (fd : Nat) : Option Tcb := (k.getSock fd).bind (·.tcb)

def setTcb (k : Kernel) (fd : Nat) (t : Tcb) : Kernel :=
  match k.getSock fd with
  | some s => k.setSock fd { s with tcb := some t }
  | none => k

/-- `SocketTable::insert`. -/
def insertSock (k : Kernel) (s : Socket) : Kernel × Nat :=
  ({ k with nextId := k.nextId + 1, sockets := k.sockets ++ [(k.nextId, s)] }, k.nextId)

/-- `SocketTable::remove` (socket.rs:447). -/
def remove (k : Kernel) (fd : Nat) : Kernel :=
  { k with
    bindings := (k.bindings.map fun e => (e.1, e.2.filter (· != fd))).filter fun e => !e.2.isEmpty
    connections := k.connections.filter fun e => e.2 != fd
    sockets := k.sockets.filter fun e => e.1 != fd }

def findByBind (k : Kernel) (key : BindKey) : List Nat := (k.bindings.lookup key).getD []

/-- `insert_binding`: `entry(key).or_default().push(fd)`. -/
def insertBinding (k : Kernel) (key : BindKey) (fd : Nat) : Kernel :=
  if (k.bindings.lookup key).isSome then
    { k with bindings := k.bindings.map fun e => if e.1 == key then (e.1, e.2 ++ [fd]) else e }
  else { k with bindings := k.bindings ++ [(key, [fd])] }

/-- `insert_connection`: `IndexMap::insert` (an existing key keeps its position). -/
def insertConnection (k : Kernel) (l r : SockAddr) (fd : Nat) : Kernel :=
  if (k.connections.lookup (l, r)).isSome then
    { k with connections := k.connections.map fun e => if e.1 == (l, r) then (e.1, fd) else e }
  else { k with connections := k.connections ++ [((l, r), fd)] }

def findConnection (k : Kernel) (l r : SockAddr) : Option Nat := k.connections.lookup (l, r)

def portInUse (k : Kernel) (v6 dgram : Bool) (p : Nat) : Bool :=
  k.bindings.any fun e => e.1.ip.isV6 == v6 && e.1.dgram == dgram && e.1.port == p

def nextPort (p : Nat) : Nat := if p == ephHi then ephLo else p + 1

/-- `PortAllocator::allocate` (socket.rs:543): scan from the cursor, at most once round. -/
def allocLoop (k : Kernel) (v6 dgram : Bool) (start : Nat) : Nat → Nat → Option Nat × Nat
  | 0, cur => (none, cur)
  | fuel + 1, cur =>
    let nxt := nextPort cur
    if !k.portInUse v6 dgram cur then (some cur, nxt)
    else if nxt == start then (none, nxt)
    else allocLoop k v6 dgram start fuel nxt

def allocatePort (k : Kernel) (v6 dgram : Bool) : Kernel × Option Nat :=
  let (r, cur) := allocLoop k v6 dgram k.portCursor (ephHi - ephLo + 1) k.portCursor
  ({ k with portCursor := cur }, r)

def isLocal (k : Kernel) (ip : Ip) : Bool := ip.isLoopback || k.addresses.contains ip

def emit (k : Kernel) (src dst : SockAddr) (sg : Seg) : Kernel :=
  { k with outbound := k.outbound ++ [{ src := src.ip, dst := dst.ip, seg := sg }] }

def initialSequence (k : Kernel) : Kernel × Nat :=
  ({ k with tcpIsn := wadd isnStep k.tcpIsn }, k.tcpIsn)

def boundEndpoint (s : Socket) : SockAddr :=
  match s.bound with
  | some b => { ip := b.ip, port := b.port }
  | none => { ip := .any false, port := 0 }

/-- First configured address of the family (`auto_bind`, tcp.rs:864 / udp.rs:171). -/
def firstAddr (k : Kernel) (v6 : Bool) : Option Ip := k.addresses.find? fun a => a.isV6 == v6

/-! ### Syscalls of kernel/mod.rs -/

/-- `Kernel::bind` (mod.rs:244). -/
def bind (k : Kernel) (addr : SockAddr) (dgram : Bool) : Kernel × Res Nat :=
  if !addr.ip.isUnspecified && !k.isLocal addr.ip then (k, .err .addrNotAvailable)
  else
    let (k1, port?) :=
      if addr.port == 0 then k.allocatePort addr.ip.isV6 dgram else (k, some addr.port)
    match port? with
    | none => (k1, .err .addrInUse)
    | some port =>
      let conflict := k1.bindings.any fun e =>
        e.1.ip.isV6 == addr.ip.isV6 && e.1.dgram == dgram && e.1.port == port &&
          (e.1.ip == addr.ip || e.1.ip.isUnspecified || addr.ip.isUnspecified)
      if conflict then (k1, .err .addrInUse)
      else
        let key : BindKey := { dgram := dgram, ip := addr.ip, port := port }
        let (k2, fd) := k1.insertSock { dgram := dgram, v6 := addr.ip.isV6, bound := some key }
        (k2.insertBinding key fd, .ok fd)

/-- `Kernel::listen`. -/
def listen (k : Kernel) (fd backlog : Nat) : Kernel :=
  match k.getSock fd with
  | some s => k.setSock fd { s with listen := some { backlog := backlog } }
  | none => k

/-- `Kernel::open`. -/
def openSock (k : Kernel) (v6 dgram : Bool) : Kernel × Nat :=
  k.insertSock { dgram := dgram, v6 := v6 }

/-- `tcp::poll_connect` (tcp.rs:47). -/
def pollConnect (cfg : Cfg) (k : Kernel) (fd : Nat) (peer : SockAddr) : Kernel × Res Unit :=
  match k.getSock fd with
  | none => (k, .err .notFound)
  | some s =>
    match s.tcb with
    | some t =>
      match t.state with
      | .established => (k, .ok ())
      | .synSent | .synReceived => (k, .pending)
      | _ => (k, .err (if t.timedOut then .timedOut else .refused))
    | none =>
      -- auto_bind
      let localIp? := if peer.ip.isLoopback then some (Ip.lo peer.ip.isV6) else k.firstAddr peer.ip.isV6
      match localIp? with
      | none => (k, .err .addrNotAvailable)
      | some lip =>
        let (k1, port?) := k.allocatePort s.v6 false
        match port? with
        | none => (k1, .err .addrInUse)
        | some port =>
          let key : BindKey := { dgram := false, ip := lip, port := port }
          let k2 := k1.insertBinding key fd
          let src : SockAddr := { ip := lip, port := port }
          let (k3, isn) := k2.initialSequence
          let t := Tcb.fresh .synSent peer isn defaultWindow 0
          let k4 := k3.setSock fd { s with bound := some key, tcb := some t, peer := some peer }
          let k5 := k4.insertConnection src peer fd
          let k6 := k5.emit src peer
            { srcPort := port, dstPort := peer.port, seq := isn, ack := 0,
              flags := { syn := true }, window := synWindow cfg, payload := [] }
          (k6, .pending)

/-- `Kernel::poll_accept` (mod.rs:440). -/
def pollAccept (k : Kernel) (fd : Nat) : Kernel × Res (Nat × SockAddr) :=
  match k.getSock fd with
  | none => (k, .err .notFound)
  | some s =>
    match s.listen with
    | none => (k, .err .invalidInput)
    | some l =>
      match l.ready with
      | [] => (k, .pending)
      | child :: rest =>
        let k1 := k.setSock fd { s with listen := some { l with ready := rest } }
        match k1.getTcb child with
        | some t => ({ k1 with acceptLog := k1.acceptLog ++ [child] }, .ok (child, t.peer))
        | none => (k1, .err .notFound)   -- Rust: `expect` panics; proved unreachable (C13)

/-- `tcp::poll_send`. -/
def pollSend (cfg : Cfg) (k : Kernel) (fd : Nat) (buf : List Nat) : Kernel × Res Nat :=
  match k.getSock fd with
  | none => (k, .err .notFound)
  | some s =>
    match s.tcb with
    | none => (k, .err .notConnected)
    | some t =>
      let (t', r) := t.pollSend cfg.sendCap buf
      (k.setSock fd { s with tcb := some t' }, r)

/-- `tcp::poll_shutdown_write`. -/
def pollShutdown (k : Kernel) (fd : Nat) : Kernel × Res Unit :=
  match k.getSock fd with
  | none => (k, .err .notFound)
  | some s =>
    match s.tcb with
    | none => (k, .err .notConnected)
    | some t =>
      let (t', r) := t.shutdownWrite
      (k.setSock fd { s with tcb := some t' }, r)

/-- `tcp::poll_recv`. -/
def pollRecv (cfg : Cfg) (k : Kernel) (fd n : Nat) : Kernel × Res (List Nat) :=
  match k.getSock fd with
  | none => (k, .err .notFound)
  | some s =>
    match s.tcb with
    | none => (k, .err .notConnected)
    | some t =>
      let (t', r, upd) := t.pollRecv cfg n
      let k1 := k.setSock fd { s with tcb := some t' }
      if upd then
        let l := boundEndpoint s
        (k1.emit l t.peer (t'.ackSeg cfg.recvCap l.port t.peer.port), r)
      else (k1, r)

/-- `tcp::poll_peek`. -/
def pollPeek (k : Kernel) (fd n : Nat) : Res (List Nat) :=
  match k.getSock fd with
  | none => .err .notFound
  | some s =>
    match s.tcb with
    | none => .err .notConnected
    | some t => t.pollPeek n

/-- `udp::send_to` for a bound UDP socket: size check and emission only (C16). -/
def udpSendTo (cfg : Cfg) (k : Kernel) (fd : Nat) (len : Nat) (dst : SockAddr) : Kernel × Res Nat :=
  match k.getSock fd with
  | none => (k, .err .notFound)
  | some s =>
    if len > udpMaxPayload cfg dst.ip then (k, .err .msgSize)
    else
      match s.bound with
      | none => (k, .err .invalidInput)   -- the harness always binds first
      | some b =>
        let srcIp :=
          if b.ip.isUnspecified then
            if dst.ip.isLoopback then Ip.lo dst.ip.isV6
            else (k.firstAddr dst.ip.isV6).getD b.ip
          else b.ip
        ({ k with outbound := k.outbound ++
            [{ src := srcIp, dst := dst.ip, udp := some len,
               seg := { srcPort := b.port, dstPort := dst.port, seq := 0, ack := 0, flags := {},
                        window := 0, payload := [] } }] }, .ok len)

/-! ### Inbound dispatch (tcp.rs:131-510) -/

/-- `find_listener` (tcp.rs:774): exact key first, then the wildcard of the family. -/
def findListener (k : Kernel) (l : SockAddr) : Option Nat :=
  let isL := fun fd => match k.getSock fd with
    | some s => s.listen.isSome
    | none => false
  let exact := k.findByBind { dgram := false, ip := l.ip, port := l.port }
  let wild := k.findByBind { dgram := false, ip := .any l.ip.isV6, port := l.port }
  match exact.find? isL with
  | some fd => some fd
  | none => wild.find? isL

/-- `emit_rst` (tcp.rs:165). -/
def emitRst (k : Kernel) (l r : SockAddr) (s : Seg) : Kernel :=
  let (seq, ack, af) :=
    if s.flags.ack then (s.ack, 0, false)
    else
      let len := s.payload.length + (if s.flags.syn then 1 else 0) + (if s.flags.fin then 1 else 0)
      (0, wadd s.seq len, true)
  k.emit l r { srcPort := l.port, dstPort := r.port, seq := seq, ack := ack,
               flags := { rst := true, ack := af }, window := 0, payload := [] }

/-- `abort_with` (tcp.rs:755). -/
def abortWith (cfg : Cfg) (k : Kernel) (fd : Nat) (byReset : Bool) : Kernel :=
  match k.getSock fd with
  | none => k
  | some s =>
    match s.tcb with
    | none => k
    | some t =>
      if cfg.fixQuietClose && (t.state == .lastAck || t.state == .closing) then
        k.setSock fd { s with tcb := some { t with state := .closed, sendBuf := [] } }
      else k.setSock fd { s with tcb := some (t.abort byReset) }

/-- The two call sites of `abort_with` (RST branch of `handle_on_connection`, abort loop of
    `check_retx`). With `fixReapOrphan` (the F-C13-1 / F-C17-1 repair) a child that is still
    `SynReceived` — never handed to the application, so nobody would ever close it — is removed from
    the table on the spot instead of being left behind as a `Closed` TCB. -/
def abortOrReap (cfg : Cfg) (k : Kernel) (fd : Nat) (byReset : Bool) : Kernel :=
  let orphan := match k.getTcb fd with
    | some t => t.state == .synReceived
    | none => false
  if cfg.fixReapOrphan && orphan then k.remove fd else abortWith cfg k fd byReset

/-- `count_children` (tcp.rs:808). -/
def countChildren (k : Kernel) (listenerFd : Nat) (l : SockAddr) : Nat :=
  (k.connections.filter fun e =>
    e.1.1 == l && e.2 != listenerFd &&
      (match k.getTcb e.2 with
       | some t => t.state == .synReceived
       | none => false)).length

/-- `accept_syn` (tcp.rs:407). -/
def acceptSyn (cfg : Cfg) (k : Kernel) (lfd : Nat) (l r : SockAddr) (s : Seg) : Kernel :=
  match k.getSock lfd with
  | none => k
  | some ls =>
    match ls.listen with
    | none => k
    | some li =>
      if k.countChildren lfd l + li.ready.length ≥ li.backlog then k
      else
        let key : BindKey := { dgram := false, ip := l.ip, port := l.port }
        let (k1, child) := k.insertSock { dgram := ls.dgram, v6 := ls.v6 }
        let k2 := k1.insertBinding key child
        let (k3, isn) := k2.initialSequence
        let t := Tcb.fresh .synReceived r isn s.window (wadd s.seq 1)
        let k4 := k3.setSock child { dgram := ls.dgram, v6 := ls.v6, bound := some key,
                                     peer := some r, tcb := some t }
        let k5 := k4.insertConnection l r child
        k5.emit l r { srcPort := l.port, dstPort := r.port, seq := isn, ack := wadd s.seq 1,
                      flags := { syn := true, ack := true }, window := synWindow cfg, payload := [] }

/-- `push_to_listener` (tcp.rs:492). -/
def pushToListener (k : Kernel) (child : Nat) (l : SockAddr) : Kernel :=
  match k.findListener l with
  | none => k
  | some lfd =>
    match k.getSock lfd with
    | none => k
    | some ls =>
      match ls.listen with
      | none => k
      | some li =>
        { (k.setSock lfd { ls with listen := some { li with ready := li.ready ++ [child] } }) with
          pushLog := k.pushLog ++ [child] }

def rstAckSeg (t : Tcb) (l : SockAddr) : Seg :=
  { srcPort := l.port, dstPort := t.peer.port, seq := t.sndNxt, ack := t.rcvNxt,
    flags := { rst := true, ack := true }, window := 0, payload := [] }

/-- `handle_on_connection` (tcp.rs:194). -/
def handleOnConnection (cfg : Cfg) (k : Kernel) (fd : Nat) (l r : SockAddr) (s : Seg) : Kernel :=
  if s.flags.rst then abortOrReap cfg k fd true
  else
    match k.getSock fd with
    | none => k
    | some so =>
      match so.tcb with
      | none => k
      | some t =>
        match t.state with
        | .synSent =>
          if s.flags.syn && s.flags.ack then
            let t0 := if cfg.fixHsReset then { t with egressSinceAck := 0, retxAttempts := 0 } else t
            let t' := { t0 with state := .established, rcvNxt := wadd s.seq 1, sndWnd := s.window }
            let k1 := k.setSock fd { so with tcb := some t' }
            k1.emit l r { srcPort := l.port, dstPort := r.port, seq := t'.sndNxt, ack := t'.rcvNxt,
                          flags := { ack := true }, window := advWindow cfg.recvCap 0, payload := [] }
          else k
        | .synReceived =>
          if s.flags.ack && !s.flags.syn then
            if s.ack != t.sndNxt then k
            else
              let t0 := if cfg.fixHsReset then { t with egressSinceAck := 0, retxAttempts := 0 } else t
              let k1 := k.setSock fd { so with tcb := some { t0 with state := .established, sndWnd := s.window } }
              k1.pushToListener fd l
          else k
        | .closed => k
        | _ =>
          if cfg.fixRstAfterClose && so.fdClosed && !s.payload.isEmpty then
            (k.emit l r (rstAckSeg t l)).remove fd
          else
            -- the peer is alive: its zero-window probes are being answered (`persist_probes = 0`)
            let (t', sendAck) := (t.heard cfg s).handleEstablished cfg s
            let k1 := k.setSock fd { so with tcb := some t' }
            if sendAck then k1.emit l r (t'.replySeg cfg s l.port r.port) else k1

/-- `tcp::deliver` (tcp.rs:131). UDP datagrams are dropped (no UDP receiver is modelled). -/
def deliver (cfg : Cfg) (k : Kernel) (p : Packet) : Kernel :=
  if p.udp.isSome then k
  else
    let l : SockAddr := { ip := p.dst, port := p.seg.dstPort }
    let r : SockAddr := { ip := p.src, port := p.seg.srcPort }
    match k.findConnection l r with
    | some fd => handleOnConnection cfg k fd l r p.seg
    | none =>
      if p.seg.flags.syn && !p.seg.flags.ack then
        match k.findListener l with
        | some lfd => k.acceptSyn cfg lfd l r p.seg
        | none => k.emitRst l r p.seg
      else if !p.seg.flags.rst then k.emitRst l r p.seg
      else k

/-! ### Close and reap (tcp.rs:533-718) -/

/-- The children a closing listener resets (tcp.rs:639-664): its ready queue, then every
    `SynReceived` socket bound to its port (and address, unless the listener is a wildcard). -/
def listenerChildren (k : Kernel) (fam : Bool) (fd : Nat) (ls : Socket) : List Nat :=
  let l := boundEndpoint ls
  let ready := match ls.listen with
    | some li => li.ready
    | none => []
  let extra := k.sockets.filterMap fun e =>
    if e.1 == fd || ready.contains e.1 then none
    else match e.2.tcb, e.2.bound with
      | some t, some b =>
        if t.state == .synReceived && b.port == l.port && (l.ip.isUnspecified || b.ip == l.ip) &&
            (!fam || b.ip.isV6 == l.ip.isV6)
        then some e.1 else none
      | _, _ => none
  ready ++ extra

def closeChild (k : Kernel) (child : Nat) : Kernel :=
  match k.getSock child with
  | none => k
  | some cs =>
    match cs.tcb with
    | none => k.remove child
    | some t =>
      let cl := boundEndpoint cs
      (k.emit cl t.peer (rstAckSeg t cl)).remove child

/-- `on_close` (tcp.rs:533): returns `true` when the caller reaps the entry at once. -/
def onClose (k : Kernel) (fam : Bool) (fd : Nat) : Kernel × Bool :=
  match k.getSock fd with
  | none => (k, true)
  | some s =>
    if s.dgram then (k, true)
    else
      match s.tcb, s.listen with
      | none, some _ => ((k.listenerChildren fam fd s).foldl closeChild k, true)
      | some t, _ =>
        if !t.reset && !t.timedOut && t.state != .closed && t.state != .synSent && t.state != .synReceived then
          if !t.recvBuf.isEmpty then
            let l := boundEndpoint s
            (k.emit l t.peer (rstAckSeg t l), true)
          else
            (k.setSock fd { s with fdClosed := true, tcb := some t.queueFin }, false)
        else (k, true)
      | none, none => (k, true)

/-- `Kernel::close` (mod.rs:199). -/
def close (k : Kernel) (fam : Bool) (fd : Nat) : Kernel :=
  let r := k.onClose fam fd
  if r.2 then r.1.remove fd else r.1

def reapVictim (s : Socket) : Bool :=
  s.fdClosed && (match s.tcb with
    | some t => t.state == .closed || t.reset
    | none => true)

/-- `reap_closed` (tcp.rs:702). -/
def reapClosed (k : Kernel) : Kernel :=
  ((k.sockets.filter fun e => reapVictim e.2).map (·.1)).foldl remove k

/-! ### Retransmit, segmentation, egress (tcp.rs:1118-1308, mod.rs:608) -/

def retxCands (cfg : Cfg) (k : Kernel) : List Nat :=
  k.sockets.filterMap fun e =>
    match e.2.tcb with
    | some t =>
      if t.retxCandidate || (cfg.fixOrphanTimeout && e.2.fdClosed && t.state != .closed) ||
          (cfg.fixFinWait2Timeout && e.2.fdClosed && t.state == .finWait2) then some e.1 else none
    | none => none

/-- First loop of `check_retx`: counters / rewind per candidate, collecting the fds whose handshake
    segment is to be re-emitted and the fds to abort. -/
def retxPass1Step (cfg : Cfg) (acc : Kernel × List Nat × List Nat) (fd : Nat) : Kernel × List Nat × List Nat :=
  match acc.1.getTcb fd with
  | none => acc
  | some t =>
    let r := t.retxTick cfg.retxThreshold cfg.retxMax
    let k' := acc.1.setTcb fd r.1
    match r.2 with
    | .none => (k', acc.2.1, acc.2.2)
    | .resendHandshake => (k', acc.2.1 ++ [fd], acc.2.2)
    | .abort => (k', acc.2.1, acc.2.2 ++ [fd])

/-- `emit_handshake` (tcp.rs:1183). -/
def emitHandshake (cfg : Cfg) (k : Kernel) (fd : Nat) : Kernel :=
  match k.getSock fd with
  | none => k
  | some s =>
    match s.tcb with
    | none => k
    | some t =>
      let l := boundEndpoint s
      k.emit l t.peer (t.handshakeSeg l.port (synWindow cfg))

/-- `persist_probe`: one persist tick; every `retx_threshold` ticks the probe goes out. -/
def persistProbe (cfg : Cfg) (k : Kernel) (fd : Nat) : Kernel :=
  match k.getSock fd with
  | none => k
  | some s =>
    match s.tcb with
    | none => k
    | some t =>
      let l := boundEndpoint s
      if t.persistTicks + 1 < cfg.retxThreshold then
        k.setSock fd { s with tcb := some { t with persistTicks := t.persistTicks + 1 } }
      else if cfg.fixPersistBudget && decide (t.persistProbes ≥ cfg.retxMax) then
        (k.setSock fd { s with tcb := some { t with persistTicks := 0 } }).abortWith cfg fd false
      else
        (k.setSock fd { s with tcb := some (t.probeSent cfg.fixPersistBudget) }).emit l t.peer (t.probeSeg cfg.recvCap l.port)

def persistCands (k : Kernel) : List Nat :=
  k.sockets.filterMap fun e =>
    match e.2.tcb with
    | some t => if t.persistCandidate then some e.1 else none
    | none => none

/-- The retransmit part of `check_retx` (tcp.rs:1118): counters / rewind, handshake re-emission, aborts. -/
def checkRetx0 (cfg : Cfg) (k : Kernel) : Kernel :=
  let r := (k.retxCands cfg).foldl (retxPass1Step cfg) (k, [], [])
  let k2 := r.2.1.foldl (emitHandshake cfg) r.1
  r.2.2.foldl (fun k fd => abortOrReap cfg k fd false) k2

/-- `check_retx`: the retransmit sweep, then (repair `fixPersistProbe`) the persist sweep. -/
def checkRetx (cfg : Cfg) (k : Kernel) : Kernel :=
  let k3 := checkRetx0 cfg k
  if cfg.fixPersistProbe then k3.persistCands.foldl (persistProbe cfg) k3 else k3

/-- `segment_one` (tcp.rs:1249). -/
def segmentOne (cfg : Cfg) (k : Kernel) (fd : Nat) : Kernel :=
  match k.getSock fd with
  | none => k
  | some s =>
    match s.tcb with
    | none => k
    | some t =>
      let l := boundEndpoint s
      let r := Tcb.segLoop (mssFor cfg l.ip) cfg.recvCap l.port (t.sendBuf.length + 2) t []
      let k1 := k.setSock fd { s with tcb := some r.1 }
      { k1 with outbound := k1.outbound ++ r.2.map fun sg => { src := l.ip, dst := t.peer.ip, seg := sg } }

/-- `segment_all` (tcp.rs:1219). -/
def segmentAll (cfg : Cfg) (k : Kernel) : Kernel :=
  let cands := k.sockets.filterMap fun e =>
    match e.2.tcb with
    | some t => if t.segCandidate then some e.1 else none
    | none => none
  cands.foldl (segmentOne cfg) k

/-- One packet of the drain in `Kernel::egress`: local destinations fold back through `deliver`,
    the rest leave the host. -/
def drainStep (cfg : Cfg) (acc : Kernel × List Packet) (p : Packet) : Kernel × List Packet :=
  if acc.1.isLocal p.dst then (deliver cfg acc.1 p, acc.2) else (acc.1, acc.2 ++ [p])

/-- The `loop` of `Kernel::egress` (mod.rs:613-626) with fuel; returns the packets leaving the host. -/
def egressLoop (cfg : Cfg) : Nat → Kernel → List Packet → Kernel × List Packet
  | 0, k, out => (k, out)
  | fuel + 1, k, out =>
    let k1 := segmentAll cfg k
    if k1.outbound.isEmpty then (k1, out)
    else
      let r := k1.outbound.foldl (drainStep cfg) ({ k1 with outbound := [] }, out)
      egressLoop cfg fuel r.1 r.2

/-- Fuel for `egressLoop`: every iteration but the last moves at least one queued packet or buffered
    byte (for `mss ≥ 1`). -/
def egressFuel (k : Kernel) : Nat :=
  64 + 4 * (k.outbound.length + (k.sockets.map fun e =>
    match e.2.tcb with
    | some t => t.sendBuf.length + 4
    | none => 1).sum)

/-- `Kernel::egress` (mod.rs:608). -/
def egress (cfg : Cfg) (k : Kernel) : Kernel × List Packet :=
  let k0 := checkRetx cfg k
  let r := egressLoop cfg (egressFuel k0) k0 []
  (reapClosed r.1, r.2)

end Kernel
end TV.NetTcp
