/-
  Specifications of C06 / C13 / C16 as decidable predicates over *histories* (op + observations),
  i.e. over what the implementation (or the model) let the outside world see.  The driver evaluates
  them on the implementation's trace (O); the theorems in Props/ talk about the same definitions.
-/
import TvNetTcp.Model.Sys

namespace TV.NetTcp
namespace Spec

abbrev Event := Op × List Obs
abbrev History := List Event

/-! ## C16 — caps, MSS, peer window -/

/-- A netstat row of a TCP connection never shows more than the configured caps. -/
def obsCapsOk (cfg : Cfg) : Obs → Bool
  | .ns _ false rq sq _ (some _) (.tcp _) => decide (rq ≤ cfg.recvCap) && decide (sq ≤ cfg.sendCap)
  | _ => true

/-- A packet seen on the wire never carries more than the MSS of the interface it left from; a UDP
    datagram never more than MTU − headers. -/
def pktSizeOk (cfg : Cfg) (p : Packet) : Bool :=
  match p.udp with
  | none => decide (p.seg.payload.length ≤ mssFor cfg p.src)
  | some len => decide (len ≤ udpMaxPayload cfg p.dst)

def obsSizeOk (cfg : Cfg) : Obs → Bool
  | .pkt _ p => pktSizeOk cfg p
  | _ => true

/-- Per directed flow `a → b`: what `a` may assume about `b` from the packets delivered to `a`. -/
structure Flow where
  a : SockAddr
  b : SockAddr
  /-- last window `b` advertised to `a` (delivered) -/
  wnd : Option Nat := none
  /-- highest cumulative ack delivered to `a` -/
  una : Option Nat := none
  /-- highest sequence number (exclusive) `a` has emitted -/
  maxSent : Nat := 0
  deriving Repr, Inhabited

def Flow.key (f : Flow) (a b : SockAddr) : Bool := f.a == a && f.b == b

def updFlow (fs : List Flow) (a b : SockAddr) (g : Flow → Flow) : List Flow :=
  if fs.any (·.key a b) then fs.map fun f => if f.key a b then g f else f
  else fs ++ [g { a := a, b := b }]

def segLen (s : Seg) : Nat := s.payload.length + (if s.flags.syn then 1 else 0) + (if s.flags.fin then 1 else 0)

/-- Emission of `p` by its source: record `maxSent`; for data / FIN check the window. -/
def flowEmit (fs : List Flow) (p : Packet) : List Flow × Bool :=
  let a : SockAddr := { ip := p.src, port := p.seg.srcPort }
  let b : SockAddr := { ip := p.dst, port := p.seg.dstPort }
  let f := (fs.find? (·.key a b)).getD { a := a, b := b }
  let occupies := p.seg.payload.length + (if p.seg.flags.fin then 1 else 0)
  let ok :=
    if occupies = 0 || p.seg.flags.rst then true
    else match f.wnd, f.una with
      | some w, some u => decide (p.seg.seq + occupies ≤ u + w)
      | _, _ => true
  let una0 := if p.seg.flags.syn then some (p.seg.seq + 1) else f.una
  (updFlow fs a b fun f => { f with maxSent := max f.maxSent (p.seg.seq + segLen p.seg),
                                    una := if f.una.isNone then una0 else f.una }, ok)

/-- Delivery of `p` to its destination `a := dst` from `b := src`: update `a`'s view of `b`. -/
def flowDeliver (fs : List Flow) (p : Packet) : List Flow :=
  let a : SockAddr := { ip := p.dst, port := p.seg.dstPort }
  let b : SockAddr := { ip := p.src, port := p.seg.srcPort }
  if p.seg.flags.rst then fs
  else updFlow fs a b fun f =>
    let wnd := if p.seg.flags.ack then some p.seg.window
               else if p.seg.flags.syn && f.wnd.isNone then some p.seg.window else f.wnd
    let una := if p.seg.flags.ack && decide (p.seg.ack ≤ f.maxSent) then
                 match f.una with
                 | some u => some (max u p.seg.ack)
                 | none => some p.seg.ack
               else f.una
    { f with wnd := wnd, una := una }

structure WinSt where
  flows : List Flow := []
  wire : List (Nat × Packet) := []
  ok : Bool := true
  deriving Repr, Inhabited

/-- "Never more in flight than the window the peer last advertised", checked at emission. -/
def winStep (st : WinSt) (e : Event) : WinSt :=
  match e.1 with
  | .egress =>
    e.2.foldl (fun st o =>
      match o with
      | .pkt id p =>
        if p.udp.isSome then st
        else
          let (fs, ok) := flowEmit st.flows p
          { flows := fs, wire := st.wire ++ [(id, p)], ok := st.ok && ok }
      | _ => st) st
  | .deliver id =>
    match st.wire.lookup id with
    | some p => { st with flows := flowDeliver st.flows p, wire := st.wire.filter (·.1 != id) }
    | none => st
  | .dup id =>
    match st.wire.lookup id with
    | some p => { st with flows := flowDeliver st.flows p }
    | none => st
  | .drop id => { st with wire := st.wire.filter (·.1 != id) }
  | _ => st

def windowOk (h : History) : Bool := (h.foldl winStep {}).ok

/-- Write results against the queue depth shown by the `stat` immediately before: no space ⇒ pending,
    space ⇒ exactly `min(len, space)` accepted. `conn` resolves a stream slot to its 4-tuple. -/
def writeOk (cfg : Cfg) (sendq : Nat) (len : Nat) : Obs → Bool
  | .okN n => decide (sendq < cfg.sendCap) && decide (n = min len (cfg.sendCap - sendq))
  | .pending => decide (sendq ≥ cfg.sendCap)
  | _ => true

/-- UDP: a payload above the limit is refused with `msgsize`, and never appears on the wire. -/
def udpSendOk (cfg : Cfg) (len : Nat) (dst : Ip) : Obs → Bool
  | .okN n => decide (len ≤ udpMaxPayload cfg dst) && decide (n = len)
  | .err .msgSize => decide (len > udpMaxPayload cfg dst)
  | _ => true

/-! ## Stream bookkeeping shared by C06 and C13 -/

/-- What the applications did with one stream handle. -/
structure StreamRec where
  slot : Nat
  loc : SockAddr
  peer : SockAddr
  written : List Nat := []
  readBytes : List Nat := []
  shut : Bool := false          -- shutdown returned ok
  dropped : Bool := false
  lastWritePending : Bool := false
  lastRead : Option Obs := none
  sawEof : Bool := false
  errs : List Err := []
  /-- index of the record this one is paired with (mirrored 4-tuple) -/
  mate : Option Nat := none
  deriving Repr, Inhabited

structure AppSt where
  recs : List StreamRec := []         -- newest last; a slot's current record is the last with that slot
  connectErrs : List Err := []
  /-- first violation found -/
  bad : Option String := none
  deriving Repr, Inhabited

def AppSt.flag (a : AppSt) (msg : String) : AppSt :=
  if a.bad.isSome then a else { a with bad := some msg }

def curIdx (recs : List StreamRec) (slot : Nat) : Option Nat :=
  (recs.zipIdx.reverse.find? fun e => e.1.slot == slot && !e.1.dropped).map (·.2)

def modRec (a : AppSt) (i : Nat) (g : StreamRec → StreamRec) : AppSt :=
  { a with recs := a.recs.zipIdx.map fun e => if e.2 == i then g e.1 else e.1 }

def isPrefixB : List Nat → List Nat → Bool
  | [], _ => true
  | _ :: _, [] => false
  | x :: xs, y :: ys => x == y && isPrefixB xs ys

/-- New stream handle: pair it with the newest unpaired record with the mirrored 4-tuple. -/
def addStream (a : AppSt) (slot : Nat) (loc peer : SockAddr) : AppSt :=
  let mate := (a.recs.zipIdx.reverse.find? fun e =>
    e.1.mate.isNone && e.1.loc == peer && e.1.peer == loc).map (·.2)
  let me := a.recs.length
  let a1 := { a with recs := a.recs ++ [{ slot := slot, loc := loc, peer := peer, mate := mate }] }
  match mate with
  | some m => modRec a1 m fun r => { r with mate := some me }
  | none => a1

/-- C06 safety on one event: bytes read are a prefix of bytes the mate accepted; EOF only after the
    mate closed its write side and everything it wrote was read. -/
def appStep (a : AppSt) (e : Event) : AppSt :=
  match e.1, e.2 with
  | .connect _ _ sslot _, [.okConn l p] => addStream a sslot l p
  | .connect _ _ _ _, [.err er] => { a with connectErrs := a.connectErrs ++ [er] }
  | .cpoll _ sslot, [.okConn l p] => addStream a sslot l p
  | .cpoll _ _, [.err er] => { a with connectErrs := a.connectErrs ++ [er] }
  | .accept _ sslot, [.okConn l p] => addStream a sslot l p
  | .write sslot bytes, [o] =>
    match curIdx a.recs sslot with
    | none => a
    | some i =>
      match o with
      | .okN n =>
        let a1 := modRec a i fun r => { r with written := r.written ++ bytes.take n, lastWritePending := false }
        if n > bytes.length then a1.flag "write accepted more than offered" else a1
      | .pending => modRec a i fun r => { r with lastWritePending := true }
      | .err er => modRec a i fun r => { r with errs := r.errs ++ [er], lastWritePending := false }
      | _ => a
  | .read sslot n, [o] =>
    match curIdx a.recs sslot with
    | none => a
    | some i =>
      let r := a.recs.getD i default
      match o with
      | .okBytes bs =>
        let rb := r.readBytes ++ bs
        let a1 := modRec a i fun r => { r with readBytes := rb, lastRead := some o,
                                               sawEof := r.sawEof || (bs.isEmpty && n > 0) }
        let a2 := if bs.length > n then a1.flag "read returned more than requested" else a1
        match r.mate with
        | none => a2
        | some m =>
          let mr := a.recs.getD m default
          let a3 := if isPrefixB rb mr.written then a2 else a2.flag "bytes read are not a prefix of bytes written"
          if bs.isEmpty && n > 0 then
            if !(mr.shut || mr.dropped) then a3.flag "EOF although the peer never closed its write side"
            else if rb.length != mr.written.length then a3.flag "EOF before all written bytes were delivered (silent loss)"
            else a3
          else a3
      | .pending => modRec a i fun r => { r with lastRead := some o }
      | .err er => modRec a i fun r => { r with errs := r.errs ++ [er], lastRead := some o }
      | _ => a
  | .shutdown sslot, [.ok] =>
    match curIdx a.recs sslot with
    | none => a
    | some i => modRec a i fun r => { r with shut := true }
  | .shutdown sslot, [.err er] =>
    match curIdx a.recs sslot with
    | none => a
    | some i => modRec a i fun r => { r with errs := r.errs ++ [er] }
  | .sdrop sslot, _ =>
    match curIdx a.recs sslot with
    | none => a
    | some i => modRec a i fun r => { r with dropped := true }
  | _, _ => a

def appRun (h : History) : AppSt := h.foldl appStep {}

/-- C06 safety oracle: `none` = fine. -/
def c06Safety (h : History) : Option String := (appRun h).bad

/-- Number of packets the wire dropped. -/
def dropCount (h : History) : Nat := (h.filter fun e => match e.1 with | .drop _ => true | _ => false).length

/-- Trailing egress rounds that emitted nothing (with nothing delivered in between). -/
def trailingQuiet (h : History) : Nat :=
  let rec go : List Event → Nat → Nat
    | [], n => n
    | e :: rest, n =>
      match e.1, e.2 with
      | .egress, [.nothing] => go rest (n + 1)
      | .egress, _ => n
      | .deliver _, _ => n
      | .dup _, _ => n
      | _, _ => go rest n
  go h.reverse 0

/-- Longest time (in egress rounds) a delivered packet spent on the wire. -/
def maxHold (h : History) : Nat :=
  (h.foldl (fun (acc : Nat × List (Nat × Nat) × Nat) e =>
    let (round, born, mx) := acc
    match e.1 with
    | .egress =>
      let ids := e.2.filterMap fun o => match o with | .pkt id _ => some (id, round + 1) | _ => none
      (round + 1, born ++ ids, mx)
    | .deliver id | .dup id =>
      match born.lookup id with
      | some b => (round, born, max mx (round - b))
      | none => acc
    | _ => acc) (0, [], 0)).2.2

/-- Segments an in-order receiver had to discard because they overtook an older segment of the same
    flow: a packet that occupies sequence space (payload, SYN, FIN) delivered while an older such
    packet of its flow is still on the wire. The receiver does no reassembly (documented design), so
    each of these costs the sender a retransmission exactly like a drop. -/
def overtakes (h : History) : Nat :=
  (h.foldl (fun (acc : List (Nat × Packet) × Nat) e =>
    let (wire, n) := acc
    match e.1 with
    | .egress =>
      (wire ++ e.2.filterMap fun o => match o with
        | .pkt id p => if p.udp.isSome then none else some (id, p)
        | _ => none, n)
    | .deliver id =>
      match wire.lookup id with
      | some p =>
        let occ := fun (q : Packet) => !q.seg.payload.isEmpty || q.seg.flags.syn || q.seg.flags.fin
        let older := wire.any fun q => q.1 < id && occ q.2 && q.2.src == p.src && q.2.dst == p.dst &&
          q.2.seg.srcPort == p.seg.srcPort && q.2.seg.dstPort == p.seg.dstPort
        (wire.filter (·.1 != id), if occ p && older then n + 1 else n)
      | none => acc
    | .drop id => (wire.filter (·.1 != id), n)
    | _ => acc) ([], 0)).2

/-- Effective losses: packets the wire dropped plus segments discarded because of reordering. -/
def lossCount (h : History) : Nat := dropCount h + overtakes h

/-- The fault budget under which retransmit exhaustion cannot legitimately occur (`d` effective
    losses, every packet delivered within `hold` rounds). A segment goes out at passes 0, thr, …,
    max·thr of its connection's counter and the connection aborts at pass (max+1)·thr. The answer to
    a segment emitted at pass p and held `h` rounds, whose answer is held `h` rounds too, is processed
    before pass p + 2h + 2; a SYN is already one pass old when it first leaves (the counter is bumped
    before the first drain), and before the F-C06-5 repair up to thr − 1 handshake passes carry over;
    every loss costs thr passes. Hence: `2·hold + max 2 thr < (max + 1 − d)·thr`. -/
def withinBudget (cfg : Cfg) (h : History) : Bool :=
  decide (lossCount h < cfg.retxMax) &&
    decide (2 * maxHold h + max 2 cfg.retxThreshold < (cfg.retxMax + 1 - lossCount h) * cfg.retxThreshold)

/-- Did an application give up a handle (drop a stream / listener, cancel a connect)? The liveness
    oracle only speaks about histories in which both applications keep their handles. -/
def appClosed (h : History) : Bool :=
  h.any fun e => match e.1 with
    | .sdrop _ | .ldrop _ | .ccancel _ => true
    | _ => false

/-- C06 liveness oracle for a history that ended quiescent (silent egress rounds, nothing left on the
    wire) within the fault budget and in which no application gave up a handle: nobody saw an error; no connect is still pending; no writer is
    parked (its last `write` returned pending); no reader is parked (its last `read` returned
    pending) while the peer has written bytes it has not received, or has closed its write side
    without EOF having been seen. -/
def c06LivenessCore (h : History) : Option String :=
  let a := appRun h
  let pendingConnect := (h.foldl (fun (acc : List Nat) e =>
    match e.1, e.2 with
    | .connect _ c _ _, [.pending] => acc ++ [c]
    | .cpoll c _, [.pending] => if acc.contains c then acc else acc ++ [c]
    | .cpoll c _, _ => acc.filter (· != c)
    | _, _ => acc) []).isEmpty
  if !a.connectErrs.isEmpty then some "connect failed although loss stayed within the retransmit budget"
  else if !pendingConnect then some "connect parked forever"
  else
    (a.recs.findSome? fun r =>
      if !r.errs.isEmpty then some "an operation failed although loss stayed within the retransmit budget"
      else if r.lastWritePending then some "writer parked forever"
      else match r.mate with
        | none => some "connected stream whose peer was never handed out by accept"
        | some m =>
          let mr := a.recs.getD m default
          if r.lastRead == some .pending then
            if r.readBytes.length != mr.written.length then some "reader parked although written bytes are outstanding"
            else if mr.shut && !r.sawEof then some "reader parked although the peer closed: EOF never delivered"
            else none
          else none)

/-- Packets emitted but neither delivered nor dropped by the end of the history. -/
def undelivered (h : History) : Nat :=
  (h.foldl (fun (acc : List Nat) e =>
    match e.1 with
    | .egress => acc ++ e.2.filterMap fun o => match o with
        | .pkt id p => if p.udp.isSome then none else some id
        | _ => none
    | .deliver id | .drop id => acc.filter (· != id)
    | _ => acc) []).length

def c06Liveness (cfg : Cfg) (h : History) : Option String :=
  if !withinBudget cfg h then none
  else if trailingQuiet h < cfg.retxThreshold + 1 then none
  else if undelivered h > 0 then none
  else if appClosed h then none
  else c06LivenessCore h

/-- The same for an end-to-end fixture run, where the wire is not in the trace: the harness reports
    how many packets its rule dropped and the longest delay it imposed (in scheduler ticks = egress
    rounds), and every blocking call was given far more patience than a retransmit cycle. -/
def c06LivenessE2E (cfg : Cfg) (drops hold : Nat) (h : History) : Option String :=
  if decide (drops < cfg.retxMax) &&
      decide (2 * hold + max 2 cfg.retxThreshold < (cfg.retxMax + 1 - drops) * cfg.retxThreshold) then
    c06LivenessCore h
  else none

/-- The history the *model* produces for an op list (used to state liveness about the model). -/
def modelHistory (cfg : Cfg) (hosts : Nat) (ops : List Op) : History :=
  ops.zip ((Sys.init cfg hosts).run ops).2

/-! ## C13 — accept-once, index consistency, reclamation, no stale entries -/

structure C13St where
  wire : List (Nat × Packet) := []
  /-- delivered SYNs: (client addr, server addr, isn) -/
  syns : List (SockAddr × SockAddr × Nat) := []
  /-- accepted tuples: (server local, client) -/
  accepts : List (SockAddr × SockAddr) := []
  /-- emitted SYN-ACKs: (server local, client, seq) -/
  synAcks : List (SockAddr × SockAddr × Nat) := []
  /-- connections whose handshake completed at the server and that were not accepted yet, in
      completion order: (server local, client) -/
  completed : List (SockAddr × SockAddr) := []
  /-- SYNs that reached a host while a live listener covered their destination: (server local, client) -/
  halfOpen : List (SockAddr × SockAddr) := []
  liveListeners : List (Nat × Nat × SockAddr) := []   -- slot, host, addr
  liveStreams : List Nat := []
  liveConnecting : List Nat := []
  /-- pending connects: slot ↦ (the listener slots `find_listener` would pick for the destination at
      connect time — exact address first, else the wildcard of the family —, drop events and egress
      rounds so far) -/
  connects : List (Nat × List Nat × Nat × Nat) := []
  drops : Nat := 0
  egresses : Nat := 0
  /-- egress rounds since the last op that created or dropped a handle or wrote data -/
  roundsIdle : Nat := 0
  quiet : Nat := 0
  bad : Option String := none
  deriving Repr, Inhabited

def C13St.flag (s : C13St) (msg : String) : C13St := if s.bad.isSome then s else { s with bad := some msg }

def listenConflict (a b : SockAddr) : Bool :=
  a.port == b.port && a.ip.isV6 == b.ip.isV6 && (a.ip == b.ip || a.ip.isUnspecified || b.ip.isUnspecified)

def countsZero : Obs → Bool
  | .cnt _ s bk bf c d => s == 0 && bk == 0 && bf == 0 && c == 0 && d == 0
  | _ => true

def danglingZero : Obs → Bool
  | .cnt _ _ _ _ _ d => d == 0
  | _ => true

/-- Bound on egress rounds after which every entry of a fully closed connection must be gone: longer
    than a full retransmit cycle `retx_threshold · (retx_max + 1)`, so also longer than any timer
    built on the same counters can stay silent. -/
def reclaimBound (cfg : Cfg) : Nat := (cfg.retxThreshold + 1) * (cfg.retxMax + 2) + 4

def hostOfIpS : Ip → Option Nat
  | .host h _ => some h
  | _ => none

/-- A non-SYN, non-RST segment with the ACK flag whose ack number answers the most recent SYN-ACK
    of that 4-tuple completes the server side of the handshake (first time only). -/
def c13Completion (s : C13St) (p : Packet) : C13St :=
  let c : SockAddr := { ip := p.src, port := p.seg.srcPort }
  let l : SockAddr := { ip := p.dst, port := p.seg.dstPort }
  if p.seg.flags.ack && !p.seg.flags.syn && !p.seg.flags.rst then
    match (s.synAcks.reverse.find? fun x => x.1 == l && x.2.1 == c) with
    | some x =>
      if p.seg.ack == x.2.2 + 1 && s.halfOpen.contains (l, c) && !s.completed.contains (l, c) &&
          !s.accepts.contains (l, c) then
        { s with completed := s.completed ++ [(l, c)] }
      else s
    | none => s
  else s

/-- Delivery of a SYN: remember it, and whether a live listener covers its destination. -/
def c13Syn (s : C13St) (p : Packet) : C13St :=
  let c : SockAddr := { ip := p.src, port := p.seg.srcPort }
  let l : SockAddr := { ip := p.dst, port := p.seg.dstPort }
  let covered := s.liveListeners.any fun x =>
    hostOfIpS p.dst == some x.2.1 && x.2.2.port == l.port &&
      (x.2.2.ip == l.ip || (x.2.2.ip.isUnspecified && x.2.2.ip.isV6 == l.ip.isV6))
  { s with syns := s.syns ++ [(c, l, p.seg.seq)],
           halfOpen := if covered && !s.halfOpen.contains (l, c) then s.halfOpen ++ [(l, c)] else s.halfOpen }

/-- Backlog: per LISTEN row, accept-queue depth plus half-open children on that port never exceed
    the configured backlog. -/
def backlogOk (rows : List Obs) : Bool :=
  rows.all fun r => match r with
    | .ns h false rq bl loc none .listen =>
      let half := (rows.filter fun x => match x with
        | .ns h' false _ _ l' (some _) (.tcp .synReceived) =>
          h' == h && l'.port == loc.port && (loc.ip.isUnspecified || l'.ip == loc.ip)
        | _ => false).length
      decide (rq + half ≤ bl)
    | _ => true

def c13Step (cfg : Cfg) (s : C13St) (e : Event) : C13St :=
  let touch := fun (s : C13St) => { s with roundsIdle := 0, quiet := 0 }
  match e.1, e.2 with
  | .listen h lslot addr, [.okPort p] =>
    touch { s with liveListeners := s.liveListeners ++ [(lslot, h, { addr with port := p })] }
  | .listen h _ addr, [.err .addrInUse] =>
    -- legitimate only if a live listener on that host conflicts (or the port range is exhausted)
    if addr.port == 0 || s.liveListeners.any fun l => l.2.1 == h && listenConflict l.2.2 addr then s
    else s.flag "bind refused with AddrInUse although no live listener holds the port (stale binding)"
  | .ldrop lslot, _ =>
    let gone := s.liveListeners.filter (·.1 == lslot)
    let covers := fun (loc : SockAddr) => gone.any fun l =>
      l.2.2.port == loc.port && (l.2.2.ip == loc.ip || (l.2.2.ip.isUnspecified && l.2.2.ip.isV6 == loc.ip.isV6))
    touch { s with liveListeners := s.liveListeners.filter (·.1 != lslot),
                   completed := s.completed.filter fun c => !covers c.1,
                   halfOpen := s.halfOpen.filter fun c => !covers c.1 }
  | .connect _ cslot sslot peer, [.pending] =>
    let onHost := s.liveListeners.filter fun l => hostOfIpS peer.ip == some l.2.1 && l.2.2.port == peer.port
    let exact := onHost.filter fun l => l.2.2.ip == peer.ip
    let wild := onHost.filter fun l => l.2.2.ip.isUnspecified && l.2.2.ip.isV6 == peer.ip.isV6
    let picked := (if exact.isEmpty then wild else exact).map (·.1)
    touch { s with liveConnecting := s.liveConnecting ++ [cslot], liveStreams := s.liveStreams.filter (· != sslot),
                   connects := (s.connects.filter (·.1 != cslot)) ++ [(cslot, picked, s.drops, s.egresses)] }
  | .connect _ _ sslot _, [.okConn _ _] => touch { s with liveStreams := s.liveStreams ++ [sslot] }
  | .connect _ _ _ _, _ => touch s
  | .cpoll cslot sslot, [.okConn _ _] =>
    touch { s with liveConnecting := s.liveConnecting.filter (· != cslot), liveStreams := s.liveStreams ++ [sslot] }
  | .cpoll cslot _, .err e :: _ =>
    -- Refusal rule: a connect whose destination was covered by a listener that is still live, with no
    -- packet lost since and no timer of the handshake expired, must not be refused (only an RST refuses,
    -- and a listener with room answers SYN-ACK, one without room answers nothing).
    let s0 := match s.connects.lookup cslot with
      | some (picked, d0, e0) =>
        if e == Err.refused && picked.any (fun l => s.liveListeners.any (·.1 == l)) && s.drops == d0 &&
            decide (s.egresses - e0 < cfg.retxThreshold * (cfg.retxMax + 1)) then
          s.flag "connect refused although the listener that covered its destination since before the connect is still live and nothing was lost"
        else s
      | none => s
    touch { s0 with liveConnecting := s0.liveConnecting.filter (· != cslot), connects := s0.connects.filter (·.1 != cslot) }
  | .ccancel cslot, _ => touch { s with liveConnecting := s.liveConnecting.filter (· != cslot) }
  | .accept _ sslot, [.okConn l p] =>
    let s1 := touch { s with liveStreams := s.liveStreams ++ [sslot], accepts := s.accepts ++ [(l, p)] }
    let nSyn := ((s.syns.filter fun x => x.1 == p && x.2.1 == l).map (·.2.2)).eraseDups.length
    let nAcc := (s1.accepts.filter fun x => x == (l, p)).length
    let s2 := if nAcc > nSyn then s1.flag "accept handed out a connection more often than it was opened" else s1
    -- FIFO: the accepted connection is the oldest completed, not yet accepted one at that local address
    let s3 := match s.completed.find? fun c => c.1 == l with
      | some c => if c == (l, p) then s2 else s2.flag "accept did not hand out the oldest established connection"
      | none => s2.flag "accept handed out a connection whose handshake never completed"
    { s3 with completed := s3.completed.erase (l, p), halfOpen := s3.halfOpen.erase (l, p) }
  | .write _ _, _ => touch s
  | .shutdown _, _ => touch s
  | .sdrop sslot, _ => touch { s with liveStreams := s.liveStreams.filter (· != sslot) }
  | .egress, obs =>
    let s1 := obs.foldl (fun s o => match o with
      | .pkt id p =>
        if p.udp.isSome then s
        else
          let s := { s with wire := s.wire ++ [(id, p)] }
          if p.seg.flags.syn && p.seg.flags.ack then
            { s with synAcks := s.synAcks ++ [({ ip := p.src, port := p.seg.srcPort }, { ip := p.dst, port := p.seg.dstPort }, p.seg.seq)] }
          else s
      | _ => s) s
    let silent := obs == [.nothing]
    { s1 with roundsIdle := s1.roundsIdle + 1, quiet := if silent && s1.wire.isEmpty then s1.quiet + 1 else 0,
              egresses := s1.egresses + 1 }
  | .deliver id, _ =>
    match s.wire.lookup id with
    | none => s
    | some p =>
      let s1 := { s with wire := s.wire.filter (·.1 != id), quiet := 0 }
      if p.seg.flags.syn && !p.seg.flags.ack then c13Syn s1 p
      else c13Completion s1 p
  | .dup id, _ =>
    match s.wire.lookup id with
    | none => s
    | some p =>
      if p.seg.flags.syn && !p.seg.flags.ack then c13Syn { s with quiet := 0 } p
      else c13Completion { s with quiet := 0 } p
  | .drop id, _ => { s with wire := s.wire.filter (·.1 != id), drops := s.drops + 1 }
  | .stat, obs =>
    let s0 := if backlogOk obs then s else s.flag "more unaccepted connections than the listener's backlog"
    let s1 := if obs.all danglingZero then s0 else s0.flag "index entry points at a socket that no longer exists"
    let handleFree := s.liveListeners.isEmpty && s.liveConnecting.isEmpty && s.liveStreams.isEmpty && s.wire.isEmpty
    if handleFree && (s.quiet ≥ reclaimBound cfg || s.roundsIdle ≥ 6 * reclaimBound cfg) then
      if obs.all countsZero then s1
      else s1.flag "socket-table entries remain after every handle was closed and the network drained"
    else s1
  | _, _ => s

/-- C13 oracle: `none` = fine. -/
def c13Check (cfg : Cfg) (h : History) : Option String := (h.foldl (c13Step cfg) {}).bad

end Spec
end TV.NetTcp
