/-
  Basic types of the turmoil-net TCP model (area nettcp: C06, C13, C16).

  Source of truth: /repo/crates/turmoil-net/src/kernel/{packet,socket,tcp,mod}.rs.
  Everything here is a total computable function over Nat/Bool/List/Option/structures.
-/
namespace TV.NetTcp

/-- 2^32: sequence numbers are `u32` in the code and use `wrapping_add` / `wrapping_sub`. -/
def M32 : Nat := 4294967296

/-- `u32::wrapping_add`. -/
def wadd (a b : Nat) : Nat := (a + b) % M32
/-- `u32::wrapping_sub` for `a, b < 2^32`. (Written without `a + 2^32`: adding a large literal to
    an open term makes definitional unfolding peel the literal one successor at a time.) -/
def wsub (a b : Nat) : Nat := if b ≤ a then a - b else M32 - (b - a)

/-- `DEFAULT_WINDOW` (tcp.rs). -/
def defaultWindow : Nat := 65535
/-- packet.rs header constants. -/
def ipv4Header : Nat := 20
def ipv6Header : Nat := 40
def tcpHeader : Nat := 20
def udpHeader : Nat := 8
/-- socket.rs `DEFAULT_EPHEMERAL_PORTS`. -/
def ephLo : Nat := 49152
def ephHi : Nat := 65535
/-- kernel/mod.rs: `tcp_isn: 0x0100_0000`, bumped by `0x1_0000` per connection. -/
def isnStart : Nat := 16777216
def isnStep : Nat := 65536

/-- IP addresses as the harness uses them: one v4 and one v6 address per host,
    the loopback and the unspecified address of each family. -/
inductive Ip where
  | host (h : Nat) (v6 : Bool)
  | lo (v6 : Bool)
  | any (v6 : Bool)
  deriving DecidableEq, Repr, Inhabited

namespace Ip
def isV6 : Ip → Bool
  | host _ v => v
  | lo v => v
  | any v => v
def isLoopback : Ip → Bool
  | lo _ => true
  | _ => false
def isUnspecified : Ip → Bool
  | any _ => true
  | _ => false
end Ip

structure SockAddr where
  ip : Ip
  port : Nat
  deriving DecidableEq, Repr, Inhabited

structure Flags where
  syn : Bool := false
  ack : Bool := false
  fin : Bool := false
  rst : Bool := false
  psh : Bool := false
  deriving DecidableEq, Repr, Inhabited

/-- `TcpSegment` (packet.rs). Payload bytes are `Nat`s. -/
structure Seg where
  srcPort : Nat
  dstPort : Nat
  seq : Nat
  ack : Nat
  flags : Flags
  window : Nat
  payload : List Nat
  deriving DecidableEq, Repr, Inhabited

/-- `Packet` (packet.rs); ttl is the constant 64 and not modelled. `udp = some len` marks a UDP
    datagram of that payload length (only its size matters for C16). -/
structure Packet where
  src : Ip
  dst : Ip
  seg : Seg
  udp : Option Nat := none
  deriving DecidableEq, Repr, Inhabited

inductive TcpState where
  | synSent | synReceived | established | finWait1 | finWait2 | closeWait | lastAck | closing | closed
  deriving DecidableEq, Repr, Inhabited

/-- Kernel configuration (`KernelConfig`) plus the repair flags of the findings (DESIGN 1.3).
    All `fix*` flags `false` = the code as it is. -/
structure Cfg where
  mtu : Nat := 1500
  loMtu : Nat := 65536
  sendCap : Nat := 65536
  recvCap : Nat := 65536
  backlog : Nat := 1024
  retxThreshold : Nat := 3
  retxMax : Nat := 5
  /-- F-C06-1 / F-C06-3 repair: a segment that occupies sequence space (payload, FIN) or carries SYN
      and is not accepted is answered with an ACK of the current `rcv_nxt`. -/
  fixReack : Bool := false
  /-- F-C06-2 repair: a read that reopens a closed (zero) window advertises it. -/
  fixWinUpdate : Bool := false
  /-- F-C13-1 (= F-C17-1) repair: a never-accepted child that is reset or times out while still
      `SynReceived` is removed from the socket table at once. -/
  fixReapOrphan : Bool := false
  /-- F-C06-5 repair: the retransmit counters are reset when the handshake completes. -/
  fixHsReset : Bool := false
  /-- F-C13-3 repair: payload arriving on a socket the application has already closed is answered
      with an RST and the socket is removed (Linux: "data received after close"). -/
  fixRstAfterClose : Bool := false
  /-- F-C13-2 repair: a socket the application has closed and that has nothing in flight (e.g.
      `FIN_WAIT2`) is also swept by `check_retx`, so it is aborted — and then reaped — after
      `retx_threshold · (retx_max + 1)` silent egress passes (orphan timeout). -/
  fixOrphanTimeout : Bool := false
  /-- F-C06-6 repair: an abort (retransmit exhaustion or RST) in `LastAck` / `Closing` — both FINs
      exchanged, only the ACK of ours missing — enters `Closed` silently (RFC 793): no error flag,
      the receive buffer stays readable. -/
  fixQuietClose : Bool := false
  /-- F-C06-7 repair: SYN and SYN-ACK advertise the real receive window
      (`advertised_window(recv_buf_cap, 0)`) instead of the constant 65535. -/
  fixSynWindow : Bool := false
  /-- F-C06-8 repair: the TCB keeps SND.MAX (`snd_max`, the highest `snd_nxt` ever reached); a
      cumulative ACK is valid up to `snd_max` (not only up to the possibly rewound `snd_nxt`), and an
      ACK that passes `snd_nxt` pulls it up. -/
  fixSndMax : Bool := false
  /-- F-C13-2 repair, narrow form (Linux `tcp_fin_timeout`): `check_retx` also sweeps a socket the
      application has closed that sits in `FIN_WAIT2` (our FIN acknowledged, nothing owed, waiting only for
      the peer's FIN); after `retx_threshold · (retx_max + 1)` passes it is aborted and reaped. -/
  fixFinWait2Timeout : Bool := false
  /-- F-C06-4 repair: zero-window persist probe. A sender with unsent data (or an unsent FIN), nothing in
      flight and a zero peer window sends, every `retx_threshold` egress passes, an empty segment with
      `seq = snd_una − 1`; the receiver answers an empty segment that lies before `rcv_nxt` (an old
      duplicate, RFC 793 p.69) with its current ACK and window, sent from `snd_max`. Nothing is emitted
      beyond the window, `snd_nxt` / `snd_max` and the retransmit counters are untouched. -/
  fixPersistProbe : Bool := false
  /-- F-C13-4 repair: the zero-window probes have a budget. `persist_probes` counts the probes sent since
      the peer was last heard from (any segment with the ACK flag resets it); when a probe is due and
      `retx_max` probes went unanswered the connection is aborted with `TimedOut`. -/
  fixPersistBudget : Bool := false
  /-- F-C13-5 repair: a closing wildcard listener resets only the half-open children of its own address
      family (`0.0.0.0:p` and `[::]:p` can both listen). -/
  fixListenerFamily : Bool := false
  deriving DecidableEq, Repr, Inhabited

/-- The tree before the SND.MAX repair of F-C06-8 (seven repairs: 080947f, 018714e, 2fda244, d10c607,
    b0e0c79, 91a643a, a7d7737). -/
def Cfg.committed7 : Cfg :=
  { fixReack := true, fixWinUpdate := true, fixHsReset := true, fixRstAfterClose := true, fixReapOrphan := true,
    fixQuietClose := true, fixSynWindow := true }

/-- The tree with the SND.MAX repair (7797aa0), before the FIN_WAIT2 timeout of F-C13-2. -/
def Cfg.committed8 : Cfg := { Cfg.committed7 with fixSndMax := true }

/-- The tree with the FIN_WAIT2 timeout of F-C13-2, before the persist probe of F-C06-4. -/
def Cfg.committed9 : Cfg := { Cfg.committed8 with fixFinWait2Timeout := true }

/-- The tree with the persist probe of F-C06-4 (4e44fd9), before its probe budget (ten flags; the general
    `fixOrphanTimeout` was not adopted and stays off). -/
def Cfg.committed10 : Cfg := { Cfg.committed9 with fixPersistProbe := true }

/-- The code as committed in /repo after all repairs of this area (twelve flags). -/
def Cfg.committed : Cfg := { Cfg.committed10 with fixPersistBudget := true, fixListenerFamily := true }

/-- `advertised_window` (tcp.rs:1335). -/
def advWindow (recvCap len : Nat) : Nat := min (recvCap - len) 65535

/-- Window carried by SYN / SYN-ACK: `DEFAULT_WINDOW` in the code as found. -/
def synWindow (cfg : Cfg) : Nat := if cfg.fixSynWindow then advWindow cfg.recvCap 0 else defaultWindow

/-- `mss_for` (tcp.rs:1313). -/
def mssFor (cfg : Cfg) (src : Ip) : Nat :=
  ((if src.isLoopback then cfg.loMtu else cfg.mtu) - (if src.isV6 then ipv6Header else ipv4Header)) - tcpHeader

/-- `max_payload` (udp.rs:205). -/
def udpMaxPayload (cfg : Cfg) (dst : Ip) : Nat :=
  ((if dst.isLoopback then cfg.loMtu else cfg.mtu) - (if dst.isV6 then ipv6Header else ipv4Header)) - udpHeader

/-- Canonical error kinds (CONVENTIONS §2). -/
inductive Err where
  | notFound | notConnected | brokenPipe | reset | timedOut | refused
  | addrInUse | addrNotAvailable | msgSize | invalidInput
  deriving DecidableEq, Repr, Inhabited

/-- Result of a poll-once syscall. -/
inductive Res (α : Type) where
  | ok (a : α)
  | pending
  | err (e : Err)
  deriving DecidableEq, Repr

end TV.NetTcp
