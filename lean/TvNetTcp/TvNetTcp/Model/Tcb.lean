/-
  TCP control block and the per-connection logic of kernel/tcp.rs as pure functions on `Tcb`.
  The kernel model (Kernel.lean) only does table lookup / dispatch around these functions, and the
  two-endpoint system of C06 (Pair.lean) is built from the same functions.
-/
import TvNetTcp.Model.Basic

namespace TV.NetTcp

/-- `Tcb` (socket.rs:207) — all fields of the Rust struct. -/
structure Tcb where
  state : TcpState
  peer : SockAddr
  sndNxt : Nat
  sndUna : Nat
  /-- `snd_max` (SND.MAX): highest `snd_nxt` ever reached. Maintained in every variant; only read
      when `fixSndMax` is set (before the repair the Rust struct has no such field). -/
  sndMax : Nat
  sndWnd : Nat
  rcvNxt : Nat
  sendBuf : List Nat := []
  recvBuf : List Nat := []
  wrClosed : Bool := false
  peerFin : Bool := false
  finSeq : Option Nat := none
  reset : Bool := false
  timedOut : Bool := false
  egressSinceAck : Nat := 0
  retxAttempts : Nat := 0
  /-- `persist_ticks` (only touched with `fixPersistProbe`). -/
  persistTicks : Nat := 0
  /-- `persist_probes` (only touched with `fixPersistBudget`). -/
  persistProbes : Nat := 0
  deriving DecidableEq, Repr, Inhabited

namespace Tcb

/-- Fresh TCB as built by `poll_connect` (SynSent) and `accept_syn` (SynReceived). -/
def fresh (st : TcpState) (peer : SockAddr) (isn sndWnd rcvNxt : Nat) : Tcb :=
  { state := st, peer := peer, sndNxt := wadd isn 1, sndUna := wadd isn 1, sndMax := wadd isn 1, sndWnd := sndWnd,
    rcvNxt := rcvNxt }

/-- `abort_error` (tcp.rs:745). -/
def abortErr (t : Tcb) : Option Err :=
  if t.reset then some Err.reset else if t.timedOut then some Err.timedOut else none

def inFlight (t : Tcb) : Nat := wsub t.sndNxt t.sndUna

/-- Is the FIN acknowledged by ack number `a`? (tcp.rs:307) -/
def finAckedBy (t : Tcb) (a : Nat) : Bool :=
  match t.finSeq with
  | some fs => a == wadd fs 1
  | none => false

/-- State after our FIN is acknowledged (tcp.rs:322). -/
def stateOnFinAck : TcpState → TcpState
  | .finWait1 => .finWait2
  | .closing => .closed
  | .lastAck => .closed
  | o => o

/-- State after the peer's FIN is accepted (tcp.rs:361). -/
def stateOnPeerFin : TcpState → TcpState
  | .established => .closeWait
  | .finWait1 => .closing
  | .finWait2 => .closed
  | o => o

/-- State after the application closes the write side (tcp.rs:971, 623). -/
def stateOnShutdown : TcpState → TcpState
  | .established => .finWait1
  | .closeWait => .lastAck
  | o => o

/-- The bound of ACK validation: `snd_nxt − snd_una` in the code as found, `snd_max − snd_una` with
    the SND.MAX repair. -/
def ackBound (t : Tcb) (fixMax : Bool) : Nat :=
  if fixMax then wsub t.sndMax t.sndUna else t.inFlight

/-- Is `ack` a cumulative ACK of something in flight (`acked > 0 && acked <= in_flight`, tcp.rs:303)? -/
def ackValid (t : Tcb) (fixMax : Bool) (ack : Nat) : Bool :=
  decide (0 < wsub ack t.sndUna) && decide (wsub ack t.sndUna ≤ t.ackBound fixMax)

/-- Freeing the acknowledged bytes (tcp.rs:304-328). -/
def ackAdvance (t : Tcb) (ack : Nat) : Tcb :=
  let acked := wsub ack t.sndUna
  let fa := t.finAckedBy ack
  { t with
    sendBuf := t.sendBuf.drop (if fa then acked - 1 else acked)
    sndUna := ack
    -- an ACK beyond the (rewound) `snd_nxt` pulls it up; cannot happen without `fixSndMax`
    sndNxt := if acked > t.inFlight then ack else t.sndNxt
    egressSinceAck := 0
    retxAttempts := 0
    state := if fa then stateOnFinAck t.state else t.state }

/-- ACK processing of `handle_established` (tcp.rs:297-332). -/
def onAck (t : Tcb) (fixMax : Bool) (s : Seg) : Tcb :=
  if s.flags.ack then
    { (if t.ackValid fixMax s.ack then t.ackAdvance s.ack else t) with sndWnd := s.window }
  else t

/-- Number of payload bytes `handle_established` accepts (tcp.rs:337-346). -/
def acceptLen (recvCap : Nat) (t : Tcb) (s : Seg) : Nat :=
  if s.payload ≠ [] ∧ s.seq = t.rcvNxt ∧ t.peerFin = false then
    min s.payload.length (recvCap - t.recvBuf.length)
  else 0

/-- In-order data receipt (tcp.rs:334-346). Returns the new TCB and whether an ACK is due. -/
def onData (recvCap : Nat) (t : Tcb) (s : Seg) : Tcb × Bool :=
  let n := acceptLen recvCap t s
  if 0 < n then
    ({ t with recvBuf := t.recvBuf ++ s.payload.take n, rcvNxt := wadd t.rcvNxt n }, true)
  else (t, false)

/-- FIN receipt (tcp.rs:348-368). -/
def onFin (t : Tcb) (s : Seg) : Tcb × Bool :=
  if s.flags.fin ∧ t.peerFin = false ∧ wadd s.seq s.payload.length = t.rcvNxt then
    ({ t with peerFin := true, rcvNxt := wadd t.rcvNxt 1, state := stateOnPeerFin t.state }, true)
  else (t, false)

/-- An empty segment (no payload, FIN or SYN) that lies before `rcv_nxt`: an old duplicate — what a
    zero-window / keepalive probe looks like (`behind != 0 && behind < 2^31`). -/
def oldDup (t : Tcb) (s : Seg) : Bool :=
  s.payload.isEmpty && !s.flags.fin && !s.flags.syn && decide (wsub t.rcvNxt s.seq ≠ 0) &&
    decide (wsub t.rcvNxt s.seq < 2147483648)

/-- Any segment with the ACK flag shows that the peer is alive: the count of unanswered zero-window
    probes restarts (repair `fixPersistBudget`). -/
def heard (t : Tcb) (cfg : Cfg) (s : Seg) : Tcb :=
  if cfg.fixPersistBudget && s.flags.ack then { t with persistProbes := 0 } else t

/-- `handle_established` on the TCB: ACK, data, FIN. Second component: emit an ACK afterwards. -/
def handleEstablished (cfg : Cfg) (t : Tcb) (s : Seg) : Tcb × Bool :=
  let t1 := t.onAck cfg.fixSndMax s
  let (t2, a1) := t1.onData cfg.recvCap s
  let (t3, a2) := t2.onFin s
  let occupies := s.payload ≠ [] || s.flags.fin || s.flags.syn
  (t3, a1 || a2 || (cfg.fixReack && occupies) || (cfg.fixPersistProbe && t3.oldDup s))

/-- The pure ACK the kernel emits from a TCB (tcp.rs:378-403, 1040-1065, 227-243). -/
def ackSeg (recvCap : Nat) (t : Tcb) (srcPort dstPort : Nat) : Seg :=
  { srcPort := srcPort, dstPort := dstPort, seq := t.sndNxt, ack := t.rcvNxt,
    flags := { ack := true }, window := advWindow recvCap t.recvBuf.length, payload := [] }

/-- The ACK `handle_established` answers `s` with: the plain ACK, except that the answer to an old
    duplicate (repair `fixPersistProbe`) goes out from `snd_max`, so that it can never look like an old
    duplicate itself. -/
def replySeg (cfg : Cfg) (t : Tcb) (s : Seg) (srcPort dstPort : Nat) : Seg :=
  if cfg.fixPersistProbe && t.oldDup s then { t.ackSeg cfg.recvCap srcPort dstPort with seq := t.sndMax }
  else t.ackSeg cfg.recvCap srcPort dstPort

/-- States in which `segment_all` / `check_retx` treat the socket as transmitting. -/
def transmittable (t : Tcb) : Bool :=
  match t.state with
  | .established | .closeWait | .finWait1 | .closing | .lastAck => true
  | _ => false

def finPending (t : Tcb) : Bool :=
  match t.finSeq with
  | some fs => t.sndNxt == fs
  | none => false

/-- The persist filter at the end of `check_retx`: something to send, nothing in flight, zero window. -/
def persistCandidate (t : Tcb) : Bool :=
  t.transmittable && t.sndWnd == 0 && t.sndUna == t.sndNxt && (!t.sendBuf.isEmpty || t.finPending)

/-- The window probe of the persist sweep: empty, one sequence number before `snd_una`. -/
def probeSeg (recvCap srcPort : Nat) (t : Tcb) : Seg :=
  { srcPort := srcPort, dstPort := t.peer.port, seq := wsub t.sndUna 1, ack := t.rcvNxt,
    flags := { ack := true }, window := advWindow recvCap t.recvBuf.length, payload := [] }

/-- The TCB after a probe went out: the tick counter restarts; with the probe budget the probe is counted. -/
def probeSent (t : Tcb) (budget : Bool) : Tcb :=
  { t with persistTicks := 0, persistProbes := if budget then t.persistProbes + 1 else t.persistProbes }

/-- `segment_all`'s candidate filter (tcp.rs:1223-1240). -/
def segCandidate (t : Tcb) : Bool :=
  t.transmittable && (decide (t.sendBuf.length > t.inFlight) || t.finPending)

/-- `advance_snd_max`: `snd_max` follows `snd_nxt` when it moves past it (compared relative to
    `snd_una`, wrap-safe). -/
def advMax (t : Tcb) (nxt : Nat) : Nat :=
  if wsub nxt t.sndUna > wsub t.sndMax t.sndUna then nxt else t.sndMax

/-- One iteration of the loop in `segment_one` (tcp.rs:1257-1307): `none` = return. -/
def segStep (mss recvCap : Nat) (t : Tcb) (srcPort : Nat) : Option (Tcb × Seg) :=
  let inFl := t.inFlight
  let unsent := t.sendBuf.length - inFl
  let wndRem := t.sndWnd - inFl
  if 0 < unsent ∧ 0 < wndRem then
    let n := min (min unsent mss) wndRem
    let payload := (t.sendBuf.drop inFl).take n
    let t' := { t with sndNxt := wadd t.sndNxt n, sndMax := t.advMax (wadd t.sndNxt n) }
    some (t', { srcPort := srcPort, dstPort := t.peer.port, seq := t.sndNxt, ack := t.rcvNxt,
                flags := { ack := true, psh := !payload.isEmpty },
                window := advWindow recvCap t.recvBuf.length, payload := payload })
  else if t.finPending ∧ 0 < wndRem then
    let t' := { t with sndNxt := wadd t.sndNxt 1, sndMax := t.advMax (wadd t.sndNxt 1) }
    some (t', { srcPort := srcPort, dstPort := t.peer.port, seq := t.sndNxt, ack := t.rcvNxt,
                flags := { ack := true, fin := true },
                window := advWindow recvCap t.recvBuf.length, payload := [] })
  else none

/-- `segment_one`'s loop with fuel (terminates by itself when `mss ≥ 1`; see `segLoop_fuel` note in
    NOTES.md: with `mss = 0` the Rust loop never returns — outside the stated domain). -/
def segLoop (mss recvCap srcPort : Nat) : Nat → Tcb → List Seg → Tcb × List Seg
  | 0, t, acc => (t, acc)
  | fuel + 1, t, acc =>
    match t.segStep mss recvCap srcPort with
    | none => (t, acc)
    | some (t', sg) => segLoop mss recvCap srcPort fuel t' (acc ++ [sg])

/-- `poll_send` on the TCB (tcp.rs:916-942). -/
def pollSend (sendCap : Nat) (t : Tcb) (buf : List Nat) : Tcb × Res Nat :=
  match t.abortErr with
  | some e => (t, .err e)
  | none =>
    if t.wrClosed then (t, .err .brokenPipe)
    else if !(t.state == .established || t.state == .closeWait) then (t, .err .notConnected)
    else
      let space := sendCap - t.sendBuf.length
      if space = 0 then (t, .pending)
      else
        let n := min buf.length space
        ({ t with sendBuf := t.sendBuf ++ buf.take n }, .ok n)

/-- Queue a FIN: shared by `poll_shutdown_write` (tcp.rs:968-975) and the Linger arm of `on_close`. -/
def queueFin (t : Tcb) : Tcb :=
  if t.wrClosed then t
  else { t with finSeq := some (wadd t.sndUna t.sendBuf.length), wrClosed := true,
                state := stateOnShutdown t.state }

/-- `poll_shutdown_write` on the TCB. -/
def shutdownWrite (t : Tcb) : Tcb × Res Unit :=
  match t.abortErr with
  | some e => (t, .err e)
  | none => (t.queueFin, .ok ())

def readableState (t : Tcb) : Bool :=
  match t.state with
  | .established | .finWait1 | .finWait2 | .closeWait => true
  | _ => false

/-- `poll_recv` on the TCB (tcp.rs:996-1038): new TCB, result bytes, and whether a window update
    is emitted. `n` is the caller's buffer length. -/
def pollRecv (cfg : Cfg) (t : Tcb) (n : Nat) : Tcb × Res (List Nat) × Bool :=
  match t.abortErr with
  | some e => (t, .err e, false)
  | none =>
    if t.recvBuf.isEmpty then
      if t.peerFin then (t, .ok [], false)
      else if !t.readableState then (t, .err .notConnected, false)
      else (t, .pending, false)
    else
      let k := min t.recvBuf.length n
      let wasClosed := advWindow cfg.recvCap t.recvBuf.length == 0
      let t' := { t with recvBuf := t.recvBuf.drop k }
      let upd := decide (k ≥ cfg.recvCap / 2) || (cfg.fixWinUpdate && wasClosed && decide (0 < k))
      (t', .ok (t.recvBuf.take k), upd)

/-- `poll_peek` on the TCB (tcp.rs:1083-1104). -/
def pollPeek (t : Tcb) (n : Nat) : Res (List Nat) :=
  match t.abortErr with
  | some e => .err e
  | none =>
    if t.recvBuf.isEmpty then
      if t.peerFin then .ok []
      else if !t.readableState then .err .notConnected
      else .pending
    else .ok (t.recvBuf.take (min t.recvBuf.length n))

/-- `abort_with` on the TCB (tcp.rs:757-765). `byReset = false` ⇒ retransmit exhaustion. -/
def abort (t : Tcb) (byReset : Bool) : Tcb :=
  { t with state := .closed, reset := t.reset || byReset, timedOut := t.timedOut || !byReset,
           sendBuf := [], recvBuf := [] }

def isHandshake (t : Tcb) : Bool :=
  t.state == .synSent || t.state == .synReceived

/-- `check_retx`'s candidate filter (tcp.rs:1124-1142). -/
def retxCandidate (t : Tcb) : Bool :=
  t.isHandshake || (t.transmittable && t.sndUna != t.sndNxt)

inductive RetxAction where
  | none | resendHandshake | abort
  deriving DecidableEq, Repr

/-- The per-candidate body of `check_retx` (tcp.rs:1148-1169). -/
def retxTick (threshold max : Nat) (t : Tcb) : Tcb × RetxAction :=
  let t1 := { t with egressSinceAck := t.egressSinceAck + 1 }
  if t1.egressSinceAck < threshold then (t1, .none)
  else if t1.retxAttempts ≥ max then (t1, .abort)
  else
    let t2 := { t1 with retxAttempts := t1.retxAttempts + 1, egressSinceAck := 0 }
    if t2.isHandshake then (t2, .resendHandshake)
    else ({ t2 with sndNxt := t2.sndUna }, .none)

/-- The SYN / SYN-ACK re-emitted by `emit_handshake` (tcp.rs:1183-1212). -/
def handshakeSeg (t : Tcb) (srcPort win : Nat) : Seg :=
  let synAck := t.state == .synReceived
  { srcPort := srcPort, dstPort := t.peer.port, seq := wsub t.sndUna 1,
    ack := if synAck then t.rcvNxt else 0,
    flags := { syn := true, ack := synAck }, window := win, payload := [] }

end Tcb
end TV.NetTcp
