/-
  The two-endpoint system of C06: two established TCBs, built from the *same* TCB-level functions
  the kernel model dispatches to (Model/Tcb.lean), and an adversarial wire that never forgets a
  segment: any segment ever emitted may be delivered at any later time, any number of times, in any
  order, or never (drop / delay / reorder / duplicate).  Ghost state per endpoint: the bytes its
  application got accepted by `poll_send` (`acc`), the bytes `poll_recv` handed back (`del`), and
  the sequence number of its first data byte (`iss`).
-/
import TvNetTcp.Model.Tcb

namespace TV.NetTcp

structure End where
  tcb : Tcb
  /-- ghost: bytes accepted by `poll_send`, oldest first -/
  acc : List Nat := []
  /-- ghost: bytes returned by `poll_recv`, oldest first -/
  del : List Nat := []
  /-- ghost: sequence number of the first data byte (`isn + 1`) -/
  iss : Nat
  /-- every segment this endpoint ever emitted -/
  out : List Seg := []
  deriving Repr, Inhabited

/-- What an endpoint (application, kernel timer, or the wire towards it) can do. -/
inductive Act where
  /-- `poll_send` -/
  | write (buf : List Nat)
  /-- `poll_recv` with a buffer of `n` bytes (may emit a window update) -/
  | read (n : Nat)
  /-- `poll_shutdown_write`, and the FIN-queueing arm of `close` -/
  | shutdown
  /-- one `segment_one` pass of `egress` -/
  | segment
  /-- the `check_retx` body for this socket -/
  | retx (threshold max : Nat)
  /-- the wire delivers the `i`-th segment the *other* endpoint ever emitted -/
  | recv (i : Nat)
  /-- local abort (also what an RST does); `byReset = false` is retransmit exhaustion -/
  | abort (byReset : Bool)
  /-- emission of any segment that occupies no sequence space (pure ACK, RST, stale handshake
      segment, window probe …) with arbitrary header fields -/
  | emitCtl (sg : Seg)
  deriving Repr, Inhabited

/-- Segments the model lets `emitCtl` put on the wire: no payload, no FIN, 32-bit header fields. -/
def ctlOk (sg : Seg) : Bool :=
  sg.payload.isEmpty && !sg.flags.fin && decide (sg.seq < M32) && decide (sg.ack < M32)

/-- `handle_on_connection` for an established-or-later TCB (tcp.rs:194-276): RST aborts, `Closed`
    ignores, everything else goes through `handle_established`. -/
def endRecv (cfg : Cfg) (e : End) (sg : Seg) : End :=
  if sg.flags.rst then { e with tcb := e.tcb.abort true }
  else if e.tcb.state == .closed then e
  else
    let r := e.tcb.handleEstablished cfg sg
    if r.2 then { e with tcb := r.1, out := e.out ++ [r.1.replySeg cfg sg 0 0] }
    else { e with tcb := r.1 }

/-- One action of endpoint `e`; `o` is the other endpoint (only its `out` is read). -/
def endStep (cfg : Cfg) (mss : Nat) (e o : End) : Act → End
  | .write buf =>
    let r := e.tcb.pollSend cfg.sendCap buf
    match r.2 with
    | .ok n => { e with tcb := r.1, acc := e.acc ++ buf.take n }
    | _ => { e with tcb := r.1 }
  | .read n =>
    let r := e.tcb.pollRecv cfg n
    let e1 : End := match r.2.1 with
      | .ok bs => { e with tcb := r.1, del := e.del ++ bs }
      | _ => { e with tcb := r.1 }
    if r.2.2 then { e1 with out := e1.out ++ [r.1.ackSeg cfg.recvCap 0 0] } else e1
  | .shutdown => { e with tcb := e.tcb.shutdownWrite.1 }
  | .segment =>
    if e.tcb.segCandidate then
      let r := Tcb.segLoop mss cfg.recvCap 0 (e.tcb.sendBuf.length + 2) e.tcb []
      { e with tcb := r.1, out := e.out ++ r.2 }
    else e
  | .retx threshold max =>
    if e.tcb.retxCandidate && !e.tcb.isHandshake then
      let r := e.tcb.retxTick threshold max
      match r.2 with
      | .abort => { e with tcb := r.1.abort false }
      | _ => { e with tcb := r.1 }
    else e
  | .recv i =>
    match o.out[i]? with
    | some sg => endRecv cfg e sg
    | none => e
  | .abort byReset => { e with tcb := e.tcb.abort byReset }
  | .emitCtl sg => if ctlOk sg then { e with out := e.out ++ [sg] } else e

structure Pair where
  x : End
  y : End
  deriving Repr, Inhabited

/-- `who = false`: endpoint `x` acts; `true`: endpoint `y`. -/
def Pair.step (cfg : Cfg) (mss : Nat) (p : Pair) (who : Bool) (a : Act) : Pair :=
  if who then { p with y := endStep cfg mss p.y p.x a } else { p with x := endStep cfg mss p.x p.y a }

def Pair.run (cfg : Cfg) (mss : Nat) (p : Pair) : List (Bool × Act) → Pair
  | [] => p
  | (w, a) :: rest => Pair.run cfg mss (p.step cfg mss w a) rest

/-- Both ends `Established` right after a handshake with initial sequence numbers `isnX`, `isnY`
    and arbitrary peer windows. -/
def Pair.init (isnX isnY wndX wndY : Nat) : Pair :=
  { x := { iss := wadd isnX 1,
           tcb := { state := .established, peer := ⟨.host 1 false, 0⟩, sndNxt := wadd isnX 1, sndUna := wadd isnX 1, sndMax := wadd isnX 1,
                    sndWnd := wndX, rcvNxt := wadd isnY 1 } },
    y := { iss := wadd isnY 1,
           tcb := { state := .established, peer := ⟨.host 0 false, 0⟩, sndNxt := wadd isnY 1, sndUna := wadd isnY 1, sndMax := wadd isnY 1,
                    sndWnd := wndY, rcvNxt := wadd isnX 1 } } }

end TV.NetTcp
