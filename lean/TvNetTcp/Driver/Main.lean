/-
  tvnettcpdriver <PROP> <trace-file>

  Replays every case of a tv-nettcp trace on the Lean model (K: correspondence, observation by
  observation) and evaluates the property's specification (TvNetTcp/Model/Spec.lean — the same
  definitions the theorems mention) on the implementation's own observations (O: oracle).
  One `CASE …` line per case and a `SUMMARY` line (CONVENTIONS §3).
-/
import TvNetTcp

open TV.NetTcp

namespace Drv

/-- `String.drop` as a `String` (it returns a slice in this toolchain). -/
def sdrop (s : String) (n : Nat) : String := (s.drop n).copy

/-! ### tokens -/

def ipTok : Ip → String
  | .host h v6 => s!"h{h}v{if v6 then 6 else 4}"
  | .lo v6 => if v6 then "lo6" else "lo4"
  | .any v6 => if v6 then "any6" else "any4"

def parseIp (t : String) : Option Ip :=
  if t == "lo4" then some (.lo false) else if t == "lo6" then some (.lo true)
  else if t == "any4" then some (.any false) else if t == "any6" then some (.any true)
  else if t.startsWith "h" then
    match (sdrop t 1).splitOn "v" with
    | [n, f] => match n.toNat? with
      | some h => if f == "4" then some (.host h false) else if f == "6" then some (.host h true) else none
      | none => none
    | _ => none
  else none

def saTok (a : SockAddr) : String := s!"{ipTok a.ip}:{a.port}"

def parseSa (t : String) : Option SockAddr :=
  match t.splitOn ":" with
  | [i, p] => do
    let ip ← parseIp i
    let port ← p.toNat?
    pure { ip := ip, port := port }
  | _ => none

def hexDigit (n : Nat) : Char := if n < 10 then Char.ofNat (48 + n) else Char.ofNat (87 + n)

def hex (bs : List Nat) : String :=
  if bs.isEmpty then "-" else
  String.ofList (bs.foldr (fun b acc => hexDigit (b / 16) :: hexDigit (b % 16) :: acc) [])

def hexVal (c : Char) : Option Nat :=
  if '0' ≤ c && c ≤ '9' then some (c.toNat - 48)
  else if 'a' ≤ c && c ≤ 'f' then some (c.toNat - 87)
  else none

def unhex (s : String) : Option (List Nat) :=
  if s == "-" then some [] else
  let rec go : List Char → List Nat → Option (List Nat)
    | [], acc => some acc.reverse
    | [_], _ => none
    | a :: b :: rest, acc =>
      match hexVal a, hexVal b with
      | some x, some y => go rest ((16 * x + y) :: acc)
      | _, _ => none
  go s.toList []

def slotNum (t : String) (pfx : Char) : Option Nat :=
  if t.front == pfx then (sdrop t 1).toNat? else none

def kv (t : String) (key : String) : Option String :=
  if t.startsWith (key ++ "=") then some (sdrop t (key.length + 1)) else none

/-! ### ops -/

def parseOp (toks : List String) : Option Op :=
  match toks with
  | actor :: name :: args =>
    let host : Option Nat := if actor.startsWith "h" then (sdrop actor 1).toNat? else none
    match name, args with
    | "egress", [] => some .egress
    | "deliver", [i] => i.toNat?.map .deliver
    | "dup", [i] => i.toNat?.map .dup
    | "stat", [] => some .stat
    | "drop", [x] =>
      if actor == "wire" then x.toNat?.map .drop else (slotNum x 's').map .sdrop
    | "listen", [l, ip, p] => do
      let h ← host; let l ← slotNum l 'l'; let ip ← parseIp ip; let p ← p.toNat?
      pure (.listen h l { ip := ip, port := p })
    | "ldrop", [l] => (slotNum l 'l').map .ldrop
    | "connect", [c, s, ip, p] => do
      let h ← host; let c ← slotNum c 'c'; let s ← slotNum s 's'; let ip ← parseIp ip; let p ← p.toNat?
      pure (.connect h c s { ip := ip, port := p })
    | "cpoll", [c, s] => do
      let c ← slotNum c 'c'; let s ← slotNum s 's'
      pure (.cpoll c s)
    | "ccancel", [c] => (slotNum c 'c').map .ccancel
    | "accept", [l, s] => do
      let l ← slotNum l 'l'; let s ← slotNum s 's'
      pure (.accept l s)
    | "write", [s, d] => do
      let s ← slotNum s 's'; let d ← unhex d
      pure (.write s d)
    | "read", [s, n] => do
      let s ← slotNum s 's'; let n ← n.toNat?
      pure (.read s n)
    | "peek", [s, n] => do
      let s ← slotNum s 's'; let n ← n.toNat?
      pure (.peek s n)
    | "shutdown", [s] => (slotNum s 's').map .shutdown
    | "udpbind", [u, ip, p] => do
      let h ← host; let u ← slotNum u 'u'; let ip ← parseIp ip; let p ← p.toNat?
      pure (.udpBind h u { ip := ip, port := p })
    | "udpsend", [u, len, ip, p] => do
      let u ← slotNum u 'u'; let len ← len.toNat?; let ip ← parseIp ip; let p ← p.toNat?
      pure (.udpSend u len { ip := ip, port := p })
    | _, _ => none
  | _ => none

/-! ### observations -/

def errTok : Err → String
  | .notFound => "notfound" | .notConnected => "notconnected" | .brokenPipe => "brokenpipe"
  | .reset => "reset" | .timedOut => "timedout" | .refused => "refused" | .addrInUse => "addrinuse"
  | .addrNotAvailable => "addrnotavailable" | .msgSize => "msgsize" | .invalidInput => "invalidinput"

def parseErr (t : String) : Option Err :=
  [Err.notFound, .notConnected, .brokenPipe, .reset, .timedOut, .refused, .addrInUse,
   .addrNotAvailable, .msgSize, .invalidInput].find? fun e => errTok e == t

def flagsTok (f : Flags) : String :=
  let s := (if f.syn then "S" else "") ++ (if f.ack then "A" else "") ++ (if f.fin then "F" else "") ++
    (if f.rst then "R" else "") ++ (if f.psh then "P" else "")
  if s.isEmpty then "-" else s

def parseFlags (t : String) : Flags :=
  { syn := t.contains 'S', ack := t.contains 'A', fin := t.contains 'F', rst := t.contains 'R', psh := t.contains 'P' }

def stateTok : TcpState → String
  | .synSent => "SYN_SENT" | .synReceived => "SYN_RCVD" | .established => "ESTABLISHED"
  | .finWait1 => "FIN_WAIT1" | .finWait2 => "FIN_WAIT2" | .closeWait => "CLOSE_WAIT"
  | .lastAck => "LAST_ACK" | .closing => "CLOSING" | .closed => "CLOSED"

def parseState (t : String) : Option TcpState :=
  [TcpState.synSent, .synReceived, .established, .finWait1, .finWait2, .closeWait, .lastAck, .closing, .closed].find?
    fun s => stateTok s == t

def fmtObs : Obs → String
  | .ok => "ok"
  | .nothing => "none"
  | .pending => "pending"
  | .err e => s!"err {errTok e}"
  | .okPort p => s!"ok port={p}"
  | .okConn l p => s!"ok local={saTok l} peer={saTok p}"
  | .okN n => s!"ok n={n}"
  | .okBytes bs => s!"ok data={hex bs}"
  | .pkt id p =>
    match p.udp with
    | some len => s!"udp {id} {ipTok p.src}:{p.seg.srcPort}>{ipTok p.dst}:{p.seg.dstPort} len={len}"
    | none =>
      s!"pkt {id} {ipTok p.src}:{p.seg.srcPort}>{ipTok p.dst}:{p.seg.dstPort} seq={p.seg.seq} ack={p.seg.ack} fl={flagsTok p.seg.flags} win={p.seg.window} len={p.seg.payload.length} data={hex p.seg.payload}"
  | .cnt h a b c d e => s!"cnt h{h} socks={a} bkeys={b} bfds={c} conns={d} dangling={e}"
  | .ns h udp rq sq l p st =>
    let ps := match p with | some a => saTok a | none => "*"
    let ss := match st with | .listen => "LISTEN" | .tcp s => stateTok s | .none => "-"
    s!"ns h{h} {if udp then "udp" else "tcp"} {rq} {sq} {saTok l} {ps} {ss}"
  | .badop => "badop"

def parseFlow (t : String) : Option (SockAddr × SockAddr) :=
  match t.splitOn ">" with
  | [a, b] => do
    let a ← parseSa a; let b ← parseSa b
    pure (a, b)
  | _ => none

def parseObs (line : String) : Obs :=
  match line.splitOn " " with
  | ["ok"] => .ok
  | ["none"] => .nothing
  | ["pending"] => .pending
  | ["err", e] => match parseErr e with | some e => .err e | none => .badop
  | ["ok", x] =>
    match kv x "port", kv x "n", kv x "data" with
    | some p, _, _ => match p.toNat? with | some p => .okPort p | none => .badop
    | _, some n, _ => match n.toNat? with | some n => .okN n | none => .badop
    | _, _, some d => match unhex d with | some d => .okBytes d | none => .badop
    | _, _, _ => .badop
  | ["ok", l, p] =>
    match (kv l "local").bind parseSa, (kv p "peer").bind parseSa with
    | some l, some p => .okConn l p
    | _, _ => .badop
  | ["pkt", id, flow, seq, ack, fl, win, _len, data] =>
    match id.toNat?, parseFlow flow, (kv seq "seq").bind String.toNat?, (kv ack "ack").bind String.toNat?,
          kv fl "fl", (kv win "win").bind String.toNat?, (kv data "data").bind unhex with
    | some id, some (a, b), some seq, some ack, some fl, some win, some data =>
      .pkt id { src := a.ip, dst := b.ip,
                seg := { srcPort := a.port, dstPort := b.port, seq := seq, ack := ack,
                         flags := parseFlags fl, window := win, payload := data } }
    | _, _, _, _, _, _, _ => .badop
  | ["udp", id, flow, len] =>
    match id.toNat?, parseFlow flow, (kv len "len").bind String.toNat? with
    | some id, some (a, b), some len =>
      .pkt id { src := a.ip, dst := b.ip, udp := some len,
                seg := { srcPort := a.port, dstPort := b.port, seq := 0, ack := 0, flags := {}, window := 0, payload := [] } }
    | _, _, _ => .badop
  | ["cnt", h, a, b, c, d, e] =>
    match (sdrop h 1).toNat?, (kv a "socks").bind String.toNat?, (kv b "bkeys").bind String.toNat?,
          (kv c "bfds").bind String.toNat?, (kv d "conns").bind String.toNat?, (kv e "dangling").bind String.toNat? with
    | some h, some a, some b, some c, some d, some e => .cnt h a b c d e
    | _, _, _, _, _, _ => .badop
  | ["ns", h, proto, rq, sq, l, p, st] =>
    match (sdrop h 1).toNat?, rq.toNat?, sq.toNat?, parseSa l with
    | some h, some rq, some sq, some l =>
      let peer := if p == "*" then none else parseSa p
      let nst := if st == "LISTEN" then NsState.listen else match parseState st with
        | some s => .tcp s
        | none => .none
      .ns h (proto == "udp") rq sq l peer nst
    | _, _, _, _ => .badop
  | _ => .badop

/-! ### cases -/

structure OpRec where
  line : Nat
  text : String
  op : Option Op
  obs : Array String
  deriving Inhabited

structure Case where
  n : Nat := 0
  family : String := ""
  cfg : Cfg := {}
  hosts : Nat := 2
  live : Bool := false
  reclaim : Bool := false
  nok : Bool := false
  fixture : Bool := false
  e2eDrops : Nat := 0
  e2eHold : Nat := 0
  ops : Array OpRec := #[]
  panic : Option String := none
  deriving Inhabited

def parseCfg (c : Case) (toks : List String) : Case :=
  toks.foldl (fun c t =>
    match t.splitOn "=" with
    | [k, v] =>
      let n := v.toNat?.getD 0
      match k with
      | "hosts" => { c with hosts := n }
      | "mtu" => { c with cfg := { c.cfg with mtu := n } }
      | "lomtu" => { c with cfg := { c.cfg with loMtu := n } }
      | "sendcap" => { c with cfg := { c.cfg with sendCap := n } }
      | "recvcap" => { c with cfg := { c.cfg with recvCap := n } }
      | "backlog" => { c with cfg := { c.cfg with backlog := n } }
      | "retxthr" => { c with cfg := { c.cfg with retxThreshold := n } }
      | "retxmax" => { c with cfg := { c.cfg with retxMax := n } }
      | "live" => { c with live := n == 1 }
      | "reclaim" => { c with reclaim := n == 1 }
      | "nok" => { c with nok := n == 1 }
      | "fixture" => { c with fixture := n == 1 }
      | "drops" => { c with e2eDrops := n }
      | "hold" => { c with e2eHold := n }
      | _ => c
    | _ => c) c

/-! ### K: replay on the model -/

structure KRes where
  ok : Bool
  /-- model-side event: some receive buffer was full (advertised window closed) -/
  closedWin : Bool := false
  /-- model-side event: a handshake completed on a TCB that had already retransmitted its SYN / SYN-ACK -/
  hsRetx : Bool := false
  /-- model-side event: an ACK that acknowledges bytes still held in `send_buf` was discarded because
      it lies above `snd_nxt` (which a go-back-N rewind had pulled back) -/
  ackIgnored : Bool := false
  /-- model-side: classes of the sockets left in the tables at the end of the case -/
  leftover : List String := []
  line : Nat := 0
  want : String := ""
  got : String := ""
  deriving Inhabited

def replay (cfg : Cfg) (c : Case) : KRes := Id.run do
  let mut s := Sys.init cfg c.hosts
  let mut closedWin := false
  let mut hsRetx := false
  let mut ackIgnored := false
  for r in c.ops do
    match r.op with
    | none => return { ok := false, line := r.line, want := "<unparsable op>", got := r.text }
    | some op =>
      if !ackIgnored then
        let pid := match op with | .deliver id => some id | .dup id => some id | _ => none
        match pid.bind fun id => s.wire.lookup id with
        | some p =>
          if p.udp.isNone && p.seg.flags.ack && !p.seg.flags.rst then
            match Sys.hostOfIp p.dst with
            | some hh =>
              let k := s.kernel hh
              match (k.findConnection ⟨p.dst, p.seg.dstPort⟩ ⟨p.src, p.seg.srcPort⟩).bind k.getTcb with
              | some t =>
                let acked := wsub p.seg.ack t.sndUna
                let lim := t.sendBuf.length + (if t.finSeq.isSome then 1 else 0)
                if t.state != .closed && !t.isHandshake && 0 < acked && acked > t.inFlight && acked ≤ lim &&
                    !(cfg.fixSndMax && acked ≤ wsub t.sndMax t.sndUna) then
                  ackIgnored := true
              | none => pure ()
            | none => pure ()
        | none => pure ()
      let (s', obs) := s.step op
      if !hsRetx then
        hsRetx := (s.kernels.zip s'.kernels).any fun (k, k') => k.sockets.any fun e => match e.2.tcb with
          | some t => t.isHandshake && t.retxAttempts > 0 && (match k'.getTcb e.1 with
              | some t' => !t'.isHandshake && t'.state != .closed
              | none => false)
          | none => false
      s := s'
      if !closedWin then
        closedWin := s.kernels.any fun k => k.sockets.any fun e => match e.2.tcb with
          | some t => t.state != .closed && decide (t.recvBuf.length ≥ cfg.recvCap)
          | none => false
      let mine := (obs.map fmtObs).toArray
      if mine != r.obs then
        let idx := (List.range (max mine.size r.obs.size)).find? fun i => mine[i]? != r.obs[i]?
        let i := idx.getD 0
        return { ok := false, line := r.line + 1 + i, want := (mine[i]?).getD "<nothing>", got := (r.obs[i]?).getD "<nothing>" }
  if c.panic.isSome then
    return { ok := false, line := (c.ops.back?.map (·.line)).getD 0, want := "<no panic>", got := s!"panic {c.panic.getD ""}" }
  let leftover := s.kernels.flatMap fun k => k.sockets.filterMap fun e =>
    match e.2.tcb with
    | none => none
    | some t =>
      if !e.2.fdClosed && !k.acceptLog.contains e.1 && t.state == .closed then some "orphan"
      else if e.2.fdClosed && !t.recvBuf.isEmpty then some "blocked"
      else if e.2.fdClosed && t.persistCandidate then some "persisting"
      else if e.2.fdClosed && t.sndWnd == 0 && !t.sendBuf.isEmpty then some "blocked"
      else if e.2.fdClosed then some "stranded"
      else none
  return { ok := true, closedWin := closedWin, hsRetx := hsRetx, ackIgnored := ackIgnored, leftover := leftover }

/-- Every non-empty combination of the repair flags (the implementation may carry any subset of
    the repairs; DESIGN 1.3). -/
def fixedVariants (cfg : Cfg) : List Cfg :=
  (List.range 8192).tail.map fun m =>
    { cfg with fixReapOrphan := m % 2 == 1, fixReack := (m / 2) % 2 == 1,
               fixWinUpdate := (m / 4) % 2 == 1, fixHsReset := (m / 8) % 2 == 1,
               fixRstAfterClose := (m / 16) % 2 == 1, fixOrphanTimeout := (m / 32) % 2 == 1,
               fixQuietClose := (m / 64) % 2 == 1, fixSynWindow := (m / 128) % 2 == 1,
               fixSndMax := (m / 256) % 2 == 1, fixFinWait2Timeout := (m / 512) % 2 == 1,
               fixPersistProbe := (m / 1024) % 2 == 1, fixPersistBudget := (m / 2048) % 2 == 1,
               fixListenerFamily := (m / 4096) % 2 == 1 }

/-! ### O: oracles on the implementation's observations -/

def history (c : Case) : Spec.History :=
  c.ops.toList.filterMap fun r => r.op.map fun op => (op, r.obs.toList.map parseObs)

/-- C16 on a history: caps on every netstat row, sizes on every packet, peer window at emission,
    write results against the preceding `stat`, UDP size rule. -/
def c16Oracle (cfg : Cfg) (h : Spec.History) : Option String := Id.run do
  -- per-observation checks
  for e in h do
    for o in e.2 do
      if !Spec.obsCapsOk cfg o then return some s!"queue above its cap: {fmtObs o}"
      if !Spec.obsSizeOk cfg o then return some s!"payload above MSS / MTU limit: {fmtObs o}"
    match e.1, e.2 with
    | .udpSend _ len dst, [o] =>
      if !Spec.udpSendOk cfg len dst.ip o then return some s!"udp send of {len} bytes: {fmtObs o}"
    | _, _ => pure ()
  if !Spec.windowOk h then return some "more bytes in flight than the window the peer last advertised"
  -- writes against the stat right before
  let mut app : Spec.AppSt := {}
  let mut prev : Option Spec.Event := none
  for e in h do
    match e.1, e.2, prev with
    | .write sslot bytes, [o], some (.stat, rows) =>
      match Spec.curIdx app.recs sslot with
      | some i =>
        let r := app.recs.getD i default
        let row := rows.find? fun x => match x with
          | .ns _ false _ _ l (some p) _ => l == r.loc && p == r.peer
          | _ => false
        match row with
        | some (.ns _ _ _ sq _ _ _) =>
          if !Spec.writeOk cfg sq bytes.length o then
            return some s!"write of {bytes.length} bytes with send_q={sq}: {fmtObs o}"
        | _ => pure ()
      | none => pure ()
    | _, _, _ => pure ()
    app := Spec.appStep app e
    prev := some e
  return none

def isPureAck (p : Packet) : Bool :=
  p.udp.isNone && p.seg.flags.ack && !p.seg.flags.syn && !p.seg.flags.fin && !p.seg.flags.rst && p.seg.payload.isEmpty

def emitted (h : Spec.History) : List (Nat × Packet) :=
  h.flatMap fun e => e.2.filterMap fun o => match o with | .pkt id p => some (id, p) | _ => none

def droppedPkts (h : Spec.History) : List Packet :=
  let em := emitted h
  h.filterMap fun e => match e.1 with | .drop id => em.lookup id | _ => none

/-- F-C06-3: the lost packet is the client's handshake ACK (first non-SYN packet of its flow). -/
def patLostHandshakeAck (h : Spec.History) : Bool :=
  let em := emitted h
  (h.any fun e => match e.1 with
    | .drop id =>
      match em.lookup id with
      | some p =>
        let sameFlow := fun (q : Nat × Packet) => q.1 < id && q.2.src == p.src && q.2.seg.srcPort == p.seg.srcPort &&
              q.2.dst == p.dst && q.2.seg.dstPort == p.seg.dstPort
        isPureAck p &&
          (em.any fun q => sameFlow q && q.2.seg.flags.syn && !q.2.seg.flags.ack) &&
          !(em.any fun q => sameFlow q && !q.2.seg.flags.syn)
      | none => false
    | _ => false)

/-- F-C06-4: a segment advertising window 0 (pure ACK, data or FIN — every segment carries the
    window) was delivered after a younger packet of the same flow, so a stale "window closed" can be
    the last word the sender hears. -/
def patStaleZeroWindow (h : Spec.History) : Bool :=
  let em := emitted h
  (h.foldl (fun (acc : List (Nat × Packet) × Bool) e =>
    match e.1 with
    | .deliver id | .dup id =>
      match em.lookup id with
      | some p =>
        let younger := acc.1.any fun q => q.1 > id && q.2.src == p.src && q.2.seg.srcPort == p.seg.srcPort &&
          q.2.dst == p.dst && q.2.seg.dstPort == p.seg.dstPort
        (acc.1 ++ [(id, p)], acc.2 || (p.udp.isNone && p.seg.flags.ack && !p.seg.flags.rst && p.seg.window == 0 && younger))
      | none => acc
    | _ => acc) ([], false)).2

/-- F-C06-4, second form: a dropped pure ACK advertised an open window (a window update is never
    repeated, and nothing probes a closed window). -/
def patLostWindowUpdate (h : Spec.History) : Bool :=
  (droppedPkts h).any fun p => isPureAck p && p.seg.window > 0

/-- F-C06-7: some endpoint had more bytes in flight than its peer's whole receive buffer (only
    possible on the first flight, while `snd_wnd` is still the 65535 of the SYN / SYN-ACK). -/
def patOvershoot (cfg : Cfg) (h : Spec.History) : Bool :=
  (h.foldl (fun (acc : Spec.WinSt × Bool) e =>
    let st := acc.1
    let over := match e.1 with
      | .egress => e.2.any fun o => match o with
          | .pkt _ p =>
            p.udp.isNone && !p.seg.payload.isEmpty &&
              (match (st.flows.find? fun f => f.key ⟨p.src, p.seg.srcPort⟩ ⟨p.dst, p.seg.dstPort⟩) with
               | some f => match f.una with
                 | some u => decide (p.seg.seq + p.seg.payload.length > u + cfg.recvCap)
                 | none => false
               | none => false)
          | _ => false
      | _ => false
    (Spec.winStep st e, acc.2 || over)) ({}, false)).2

/-- F-C06-6: a dropped pure ACK acknowledges a FIN of the reverse flow (the last ACK of a close). -/
def patLostAckOfFin (h : Spec.History) : Bool :=
  let em := emitted h
  (droppedPkts h).any fun p => isPureAck p &&
    em.any fun q => q.2.udp.isNone && q.2.seg.flags.fin && q.2.src == p.dst && q.2.dst == p.src &&
      q.2.seg.srcPort == p.seg.dstPort && q.2.seg.dstPort == p.seg.srcPort && q.2.seg.seq + 1 == p.seg.ack

def patLostPureAck (h : Spec.History) : Bool := (droppedPkts h).any isPureAck
def patZeroWindow (h : Spec.History) : Bool := (emitted h).any fun e => e.2.udp.isNone && e.2.seg.flags.ack && !e.2.seg.flags.rst && e.2.seg.window == 0
def patLostRst (h : Spec.History) : Bool := (droppedPkts h).any fun p => p.seg.flags.rst

/-- F-C13-1: a SYN reached a listener (a child was created) but that connection was never accepted. -/
def patOrphanChild (h : Spec.History) : Bool :=
  let em := emitted h
  let accepted := h.filterMap fun e => match e.1, e.2 with
    | .accept _ _, [.okConn l p] => some (l, p)
    | _, _ => none
  h.any fun e => match e.1 with
    | .deliver id | .dup id =>
      match em.lookup id with
      | some p => p.seg.flags.syn && !p.seg.flags.ack &&
          !(accepted.contains ({ ip := p.dst, port := p.seg.dstPort }, { ip := p.src, port := p.seg.srcPort }))
      | none => false
    | _ => false

structure ORes where
  fail : Option String := none
  pattern : String := "none"

def oracle (prop : String) (c : Case) (h : Spec.History) (closedWin hsRetx ackIgnored : Bool) (leftover : List String) : ORes :=
  if let some p := c.panic then { fail := some s!"implementation panicked: {p}" } else
  match prop with
  | "C06" =>
    match Spec.c06Safety h with
    | some m => { fail := some m }
    | none =>
      if c.live then
        match (if c.fixture then Spec.c06LivenessE2E c.cfg c.e2eDrops c.e2eHold h else Spec.c06Liveness c.cfg h) with
        | some m =>
          let pat := if closedWin && (patStaleZeroWindow h || patLostWindowUpdate h) then "F-C06-4"
                     else if closedWin && patOvershoot c.cfg h then "F-C06-7"
                     else if ackIgnored then "F-C06-8"
                     else if closedWin then "F-C06-2"
                     else if patLostHandshakeAck h then "F-C06-3"
                     else if patLostAckOfFin h then "F-C06-6"
                     else if patLostPureAck h then "F-C06-1" else if hsRetx then "F-C06-5" else "none"
          { fail := some m, pattern := pat }
        | none => {}
      else {}
  | "C13" =>
    match Spec.c06Safety h with
    | some m => { fail := some m }
    | none =>
      match Spec.c13Check c.cfg h with
      | some m =>
        let pat := if m.startsWith "connect refused although the listener" then "F-C13-5"
                   else if leftover.contains "orphan" && patOrphanChild h then "F-C13-1"
                   else if leftover.contains "blocked" && closedWin then "F-C13-3"
                   else if leftover.contains "persisting" then "F-C13-4"
                   else if leftover.contains "stranded" && patLostRst h then "F-C13-2"
                   else "none"
        { fail := some m, pattern := pat }
      | none => {}
  | "C16" =>
    match c16Oracle c.cfg h with
    | some m => { fail := some m }
    | none => {}
  | _ => { fail := some "unknown property" }

/-! ### coverage tags (from the model-side view of the history) -/

def covTags (c : Case) (h : Spec.History) : List String := Id.run do
  let em := emitted h
  let mut tags : List String := []
  let add := fun (ts : List String) (t : String) => if ts.contains t then ts else ts ++ [t]
  let mut lastDelivered : Nat := 0
  let mut maxSeq : List ((Ip × Nat × Ip × Nat) × Nat) := []
  for e in h do
    match e.1 with
    | .drop _ => tags := add tags "loss"
    | .dup _ => tags := add tags "dup"
    | .deliver id =>
      if id < lastDelivered then tags := add tags "reorder"
      lastDelivered := max lastDelivered id
    | .ccancel _ => tags := add tags "cancel"
    | .ldrop _ => tags := add tags "ldrop"
    | .peek _ _ => tags := add tags "peek"
    | .udpSend _ _ _ => tags := add tags "udp"
    | _ => pure ()
    for o in e.2 do
      match o with
      | .pkt _ p =>
        if p.udp.isNone then
          if p.seg.flags.rst then tags := add tags "rst"
          if p.seg.flags.fin then tags := add tags "fin"
          if p.seg.flags.ack && !p.seg.flags.rst && p.seg.window == 0 then tags := add tags "zerowin"
          if p.src.isV6 then tags := add tags "v6"
          let key := (p.src, p.seg.srcPort, p.dst, p.seg.dstPort)
          let len := Spec.segLen p.seg
          if len > 0 then
            match maxSeq.lookup key with
            | some m =>
              if p.seg.seq < m then tags := add tags "retx"
              maxSeq := maxSeq.map fun x => if x.1 == key then (x.1, max m (p.seg.seq + len)) else x
            | none => maxSeq := maxSeq ++ [(key, p.seg.seq + len)]
          if p.seg.payload.length > 0 && p.seg.payload.length == mssFor c.cfg p.src then tags := add tags "fullmss"
      | .err .timedOut => tags := add tags "timedout"
      | .err .reset => tags := add tags "reset"
      | .err .refused => tags := add tags "refused"
      | .err .brokenPipe => tags := add tags "brokenpipe"
      | .err .msgSize => tags := add tags "msgsize"
      | .err .addrInUse => tags := add tags "addrinuse"
      | .okBytes [] => tags := add tags "eof"
      | .ns _ false _ _ _ (some _) (.tcp st) =>
        match st with
        | .finWait1 | .finWait2 | .closing | .lastAck | .closeWait => tags := add tags "closestates"
        | .synReceived => tags := add tags "synrcvd"
        | _ => pure ()
      | .ns _ false rq _ _ none .listen => if rq > 0 then tags := add tags "acceptq"
      | _ => pure ()
    match e.1, e.2 with
    | .write _ bs, [.okN n] => if n < bs.length then tags := add tags "partialwrite"
    | .write _ _, [.pending] => tags := add tags "writeblocked"
    | .accept _ _, [.okConn l _] => if l.ip.isLoopback then tags := add tags "loopback"
    | _, _ => pure ()
  if em.isEmpty && tags.contains "loopback" then tags := add tags "loonly"
  if c.cfg.sendCap < mssFor c.cfg (.host 0 false) || c.cfg.recvCap < mssFor c.cfg (.host 0 false) then
    tags := add tags "capbelowmss"
  return tags

/-! ### main loop -/

/-- Copy the repair flags of `src` onto `cfg`. -/
def withFlags (cfg src : Cfg) : Cfg :=
  { cfg with fixReapOrphan := src.fixReapOrphan, fixReack := src.fixReack, fixWinUpdate := src.fixWinUpdate,
             fixHsReset := src.fixHsReset, fixRstAfterClose := src.fixRstAfterClose,
             fixOrphanTimeout := src.fixOrphanTimeout, fixQuietClose := src.fixQuietClose,
             fixSynWindow := src.fixSynWindow, fixSndMax := src.fixSndMax,
             fixFinWait2Timeout := src.fixFinWait2Timeout, fixPersistProbe := src.fixPersistProbe,
             fixPersistBudget := src.fixPersistBudget, fixListenerFamily := src.fixListenerFamily }

def processCase (prop : String) (c : Case) (memo : IO.Ref (Option Cfg)) : IO (Bool × Bool) := do
  let k0 : KRes := if c.nok then { ok := true } else replay c.cfg c
  -- on a mismatch with the code-as-found model try the repaired variants, the one that matched the
  -- previous case first
  let last ← memo.get
  let committed : Cfg := { c.cfg with fixReapOrphan := true, fixReack := true, fixWinUpdate := true, fixHsReset := true,
                                      fixRstAfterClose := true, fixQuietClose := true, fixSynWindow := true,
                                      fixSndMax := true, fixFinWait2Timeout := true, fixPersistProbe := true,
                                      fixPersistBudget := true, fixListenerFamily := true }
  -- the trees before the FIN_WAIT2 timeout (F-C13-2) and before the SND.MAX repair (F-C06-8), kept so
  -- that older trees still match quickly
  let committedOldB : Cfg := { committed with fixPersistBudget := false, fixListenerFamily := false }
  let committedOld0 : Cfg := { committedOldB with fixPersistProbe := false }
  let committedOld : Cfg := { committedOld0 with fixFinWait2Timeout := false }
  let committedOld2 : Cfg := { committedOld with fixSndMax := false }
  let cands : List Cfg := [committed, committedOldB, committedOld0, committedOld, committedOld2] ++ (match last with | some f => [withFlags c.cfg f] | none => []) ++ fixedVariants c.cfg
  let found := if c.nok || k0.ok then none
    else cands.findSome? fun cfg => let r := replay cfg c; if r.ok then some (cfg, r) else none
  if let some (cfg, _) := found then memo.set (some cfg)
  let (kOk, variant, kr, kgood) :=
    if c.nok then (true, "-", k0, k0)
    else if k0.ok then (true, "faithful", k0, k0)
    else
      match found with
      | some (_, r) => (true, "fixed", k0, r)
      | none => (false, "-", k0, k0)
  let h := history c
  let o := oracle prop c h (kOk && kgood.closedWin) (kOk && kgood.hsRetx) (kOk && kgood.ackIgnored) (if kOk then kgood.leftover else [])
  let cov := covTags c h
  let detail :=
    (if kOk then "" else s!"K line {kr.line}: model={kr.want} | impl={kr.got} ") ++
    (match o.fail with | some m => s!"O: {m}" | none => "")
  let covs := if cov.isEmpty then "-" else ",".intercalate cov
  IO.println s!"CASE {c.n} K={if kOk then "ok" else "mismatch"} O={if o.fail.isNone then "ok" else "fail"} variant={variant} pattern={o.pattern} line={if kOk then 0 else kr.line} cov={covs} detail={if detail.isEmpty then "-" else detail}"
  return (kOk, o.fail.isNone)

partial def loop (prop : String) (memo : IO.Ref (Option Cfg)) (h : IO.FS.Stream) (lineNo : Nat) (cur : Option Case)
    (cases kmis ofail : Nat) : IO (Nat × Nat × Nat) := do
  let line ← h.getLine
  if line.isEmpty then
    return (cases, kmis, ofail)
  let l := line.trimAsciiEnd.copy
  let toks := l.splitOn " "
  match toks with
  | "CASE" :: n :: rest =>
    let fam := (rest.findSome? fun t => kv t "family").getD ""
    loop prop memo h (lineNo + 1) (some { n := n.toNat?.getD 0, family := fam }) cases kmis ofail
  | "CFG" :: rest =>
    loop prop memo h (lineNo + 1) (cur.map fun c => parseCfg c rest) cases kmis ofail
  | "OP" :: rest =>
    let rec' : OpRec := { line := lineNo, text := l, op := parseOp rest, obs := #[] }
    loop prop memo h (lineNo + 1) (cur.map fun c => { c with ops := c.ops.push rec' }) cases kmis ofail
  | "OBS" :: "panic" :: rest =>
    loop prop memo h (lineNo + 1) (cur.map fun c => { c with panic := some (" ".intercalate rest) }) cases kmis ofail
  | "OBS" :: _ =>
    let txt := sdrop l 4
    let cur' := cur.map fun c =>
      if c.ops.isEmpty then c
      else { c with ops := c.ops.modify (c.ops.size - 1) fun r => { r with obs := r.obs.push txt } }
    loop prop memo h (lineNo + 1) cur' cases kmis ofail
  | ["END"] =>
    match cur with
    | some c =>
      let (k, o) ← processCase prop c memo
      loop prop memo h (lineNo + 1) none (cases + 1) (if k then kmis else kmis + 1) (if o then ofail else ofail + 1)
    | none => loop prop memo h (lineNo + 1) none cases kmis ofail
  | _ => loop prop memo h (lineNo + 1) cur cases kmis ofail

end Drv

def main (args : List String) : IO UInt32 := do
  match args with
  | [prop, file] =>
    let hd ← IO.FS.Handle.mk file IO.FS.Mode.read
    let memo ← IO.mkRef (none : Option Cfg)
    let (cases, kmis, ofail) ← Drv.loop prop memo (IO.FS.Stream.ofHandle hd) 1 none 0 0 0
    IO.println s!"SUMMARY cases={cases} kmismatch={kmis} ofail={ofail}"
    return 0
  | _ =>
    IO.eprintln "usage: tvnettcpdriver <C06|C13|C16> <trace-file>"
    return 2
