-- Root of the `TvNetTcp` library (area nettcp: C06, C13, C16).
import TvNetTcp.Model.Basic
import TvNetTcp.Model.Tcb
import TvNetTcp.Model.Kernel
import TvNetTcp.Model.Sys
import TvNetTcp.Model.Spec
import TvNetTcp.Model.Pair
