import TvFs.Model.Fs
import TvFs.Model.Spec
import TvFs.Model.Patterns
