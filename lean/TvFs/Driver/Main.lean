/-
  tvfsdriver <C07|C10> <trace-file>      correspondence (K) + oracle (O) per case, CONVENTIONS §3
  tvfsdriver enum <C07|C10> <len> [full] pure-Lean enumeration impl-model vs spec (pattern derivation)
-/
import TvFs.Model.Fs
import TvFs.Model.Spec
import TvFs.Model.Patterns
import TvFs.Model.Fragment
import TvFs.Model.Fixed

open TV.Fs

namespace Drv

/-! ### rendering -/

def hexDigit (n : Nat) : Char := if n < 10 then Char.ofNat (48 + n) else Char.ofNat (87 + n)

def hexOf (b : Bytes) : String :=
  if b.isEmpty then "-" else String.ofList (b.flatMap fun x => [hexDigit (x / 16 % 16), hexDigit (x % 16)])

def hexVal (c : Char) : Nat :=
  let n := c.toNat
  if 48 ≤ n ∧ n ≤ 57 then n - 48 else if 97 ≤ n ∧ n ≤ 102 then n - 87 else if 65 ≤ n ∧ n ≤ 70 then n - 55 else 0

def unhex (s : String) : Bytes :=
  if s = "-" then [] else
  let rec go : List Char → Bytes
    | a :: b :: r => (hexVal a * 16 + hexVal b) :: go r
    | _ => []
  go s.toList

/-- component name ↦ Nat (base 256, injective on non-empty names without NUL) -/
def encName (s : String) : Nat := s.toList.foldl (fun acc c => acc * 256 + c.toNat) 0

def decName (n : Nat) : String :=
  let rec go (fuel n : Nat) (acc : List Char) : List Char :=
    match fuel with
    | 0 => acc
    | f + 1 => if n = 0 then acc else go f (n / 256) (Char.ofNat (n % 256) :: acc)
  String.ofList (go 16 n [])

def parsePath (s : String) : Path :=
  (s.splitOn "/").filter (· ≠ "") |>.map encName

def renderPath (p : Path) : String :=
  if p.isEmpty then "/" else String.join (p.map fun n => "/" ++ decName n)

def renderNames (l : List Nat) : String :=
  let names := (l.map decName).toArray.qsort (· < ·)
  "[" ++ ";".intercalate names.toList ++ "]"

def renderErr : Err → String
  | .notfound => "notfound" | .alreadyexists => "alreadyexists" | .permissiondenied => "permissiondenied"
  | .invalidinput => "invalidinput" | .notempty => "notempty" | .isdir => "isdir" | .notdir => "notdir"

def renderView : View → String
  | .none => "n"
  | .file len b => s!"f:{len}:{hexOf b}"
  | .dir names => s!"d:{renderNames names}"

def renderObs : Obs → String
  | .ok => "ok"
  | .okN n => s!"ok {n}"
  | .data b => s!"data {hexOf b}"
  | .err e => s!"err {renderErr e}"
  | .file len => s!"file {len}"
  | .dir => "dir"
  | .entries l => s!"entries {renderNames l}"
  | .bool b => if b then "true" else "false"
  | .noslot => "noslot"
  | .dump l => "dump " ++ " ".intercalate (l.map fun pv => renderPath pv.1 ++ "=" ++ renderView pv.2)

/-! ### parsing -/

def parseFlags (s : String) : Flags :=
  { r := s.contains 'r', w := s.contains 'w', a := s.contains 'a', t := s.contains 't',
    c := s.contains 'c', n := s.contains 'n' }

def natOf (s : String) : Nat := s.toNat?.getD 0
def intOf (s : String) : Int := s.toInt?.getD 0

def parseOp (pool : List Path) (t : List String) : Option Op :=
  match t with
  | ["open", s, p, fl] => some (.open (natOf s % 4) (parsePath p) (parseFlags fl))
  | ["close", s] => some (.close (natOf s % 4))
  | ["write_at", s, off, d] => some (.writeAt (natOf s % 4) (natOf off) (unhex d))
  | ["read_at", s, off, n] => some (.readAt (natOf s % 4) (natOf off) (natOf n))
  | ["write", s, d] => some (.write (natOf s % 4) (unhex d))
  | ["read", s, n] => some (.read (natOf s % 4) (natOf n))
  | ["seek", s, wh, off] =>
    let w := if wh = "start" then 0 else if wh = "cur" then 1 else 2
    let o := intOf off
    some (.seek (natOf s % 4) w (if w = 0 ∧ o < 0 then 0 else o))
  | ["set_len", s, n] => some (.setLen (natOf s % 4) (natOf n))
  | ["sync_all", s] => some (.syncAll (natOf s % 4))
  | ["sync_data", s] => some (.syncData (natOf s % 4))
  | ["hmeta", s] => some (.hmeta (natOf s % 4))
  | ["mkdir", p] => some (.mkdir (parsePath p))
  | ["mkdir_all", p] => some (.mkdirAll (parsePath p))
  | ["rmdir", p] => some (.rmdir (parsePath p))
  | ["rmdir_all", p] => some (.rmdirAll (parsePath p))
  | ["unlink", p] => some (.unlink (parsePath p))
  | ["rename", p, q] => some (.rename (parsePath p) (parsePath q))
  | ["sync_dir", p] => some (.syncDir (parsePath p))
  | ["read_dir", p] => some (.readDir (parsePath p))
  | ["stat", p] => some (.stat (parsePath p))
  | ["exists", p] => some (.exists (parsePath p))
  | ["readfile", p] => some (.readFile (parsePath p))
  | ["writefile", p, d] => some (.writeFile (parsePath p) (unhex d))
  | ["dump"] => some (.dump pool)
  | "crash" :: _ => some .crash   -- `crash`, `crash re`, `crash twice`: one Fs::crash (crash ∘ crash = crash)
  | _ => none

/-- harness ops that are not model `Op`s: they are replayed as compositions of model steps
    (`copy` = `read` then `write`, as in the shim) or directly on the handle table (`try_clone`) -/
inductive Ext where
  | copy (p q : Path)
  | clone (s s2 : Nat)

def parseExt (t : List String) : Option Ext :=
  match t with
  | ["copy", p, q] => some (.copy (parsePath p) (parsePath q))
  | ["clone", s, s2] => some (.clone (natOf s % 4) (natOf s2 % 4))
  | _ => none

structure Rec where
  line : Nat
  host : Nat
  op : Option Op
  ext : Option Ext := none
  ora : Ora := {}
  obs : String := ""

structure CaseIn where
  n : String := "0"
  block : Option Nat := none
  pool : List Path := []
  recs : Array Rec := #[]

/-! ### coverage tags (computed from the model state before the op) -/

def covOf (st : St) (op : Op) (ora : Ora) : List String :=
  let fs := st.fs
  let pendRename := fs.pending.any fun o => match o with | .rename _ _ => true | _ => false
  let tags : List String := match op with
    | .rename p q =>
      (if fileExists fs q || dirExists fs q then ["renameover"] else [])
      ++ (if dirExists fs p then ["renamedir"] else [])
      ++ (if parent p != parent q then ["renameacross"] else [])
    | .writeAt s off d =>
      match getSlot st s with
      | some h =>
        let len := fileLen fs h.path
        (if off > len then ["hole"] else []) ++ (if off < len ∧ !d.isEmpty then ["overlap"] else [])
        ++ (if pendRename then ["dataafterrename"] else [])
      | none => []
    | .setLen s n =>
      match getSlot st s with
      | some h => if n < fileLen fs h.path then ["shrink"] else if n > fileLen fs h.path then ["extend"] else []
      | none => []
    | .open _ p fl =>
      (if fl.t && fl.w && fileExists fs p then ["opentrunc"] else [])
      ++ (if fl.a then ["openappend"] else [])
      ++ (if (fl.c || fl.n) && !(fileExists fs p) && (fs.pending.any fun o => o == .removeFile p) then ["recreate"] else [])
    | .syncDir _ => if fs.pending.isEmpty then [] else ["syncdirflush"]
    | .syncAll _ => if fs.pending.isEmpty then [] else ["fsyncflush"]
    | .crash =>
      ["crash"] ++ (if fs.pending.isEmpty then [] else ["crashpending"])
      ++ (if fs.files.any (fun kv => !(fs.synced.contains kv.1)) then ["orphan"] else [])
      ++ (if !ora.torn.isEmpty then ["torn"] else [])
    | .rmdirAll _ => ["rmdirall"]
    | .unlink p => if [0, 1, 2, 3].any (fun i => match getSlot st i with | some h => h.path == p | none => false) then ["unlinkopen"] else []
    | _ => []
  tags ++ (if ora.coin then ["randsync"] else [])

/-! ### oracle comparison -/

/-- C07: only dumps taken after a crash are compared, and only at paths whose proper ancestors are
    all directories in the durable image -/
def splitDump (s : String) : List (String × String) :=
  ((s.splitOn " ").drop 1).filterMap fun kv =>
    match kv.splitOn "=" with
    | [k, v] => some (k, v)
    | _ => none

def ancestorsDurable (sp : Spec) (p : Path) : Bool := ancestorsAreDirs sp.l p

/-- paths at which two dumps disagree (`durableOnly`: the C07 ancestor rule) -/
def dumpDiff (durableOnly : Bool) (sp : Spec) (specObs implObs : String) : List Path :=
  let a := splitDump specObs
  let b := splitDump implObs
  if a.length != b.length then [[]] else
  (a.zip b).filterMap fun (x, y) =>
    if x.1 != y.1 then some []
    else if x.2 == y.2 then none
    else if durableOnly && !(ancestorsDurable sp (parsePath x.1)) then none
    else some (parsePath x.1)

/-- tree shape of an observed dump: every visible entry's proper ancestors (as far as the dump lists
    them) are visible directories.  Returns the offending entries with the ancestor that is missing or
    not a directory. -/
def treeViolations (implObs : String) : List Path :=
  let kv := splitDump implObs
  kv.flatMap fun (k, v) =>
    if v == "n" then [] else
    let p := parsePath k
    ((List.range p.length).drop 1).flatMap fun j =>
      let a := p.take j
      match kv.find? (fun x => x.1 == renderPath a) with
      | some x => if x.2.startsWith "d:" then [] else [p, a]
      | none => []

def dumpAgrees (sp : Spec) (specObs implObs : String) : Bool := (dumpDiff true sp specObs implObs).isEmpty

structure Verdict where
  kOk : Bool := true
  kLine : Nat := 0
  kDetail : String := ""
  oOk : Bool := true
  oLine : Nat := 0
  oDetail : String := ""
  cov : List String := []
  pattern : String := "none"

def addCov (cov : List String) (tags : List String) : List String :=
  tags.foldl (fun acc t => if acc.contains t then acc else acc ++ [t]) cov

/-- findings whose pattern explains nothing once the corresponding repair is in (finding 5 is only
    narrowed by its repair, so its pattern stays) -/
def repairedIds (fx : Fixes) : List Nat :=
  (if fx.readOrder then [1] else []) ++ (if fx.childRenamedIn then [7] else [])
  ++ (if fx.createOverDir then [9] else []) ++ (if fx.fsyncResolve then [10] else [])
  ++ (if fx.syncRenameBoth then [11] else []) ++ (if fx.crashTree then [13] else [])

def fxName (fx : Fixes) : String :=
  "+".intercalate ((if fx.readOrder then ["1"] else []) ++ (if fx.dataKeyResolve then ["3"] else [])
    ++ (if fx.renameKind then ["5"] else [])
    ++ (if fx.childRenamedIn then ["7"] else []) ++ (if fx.createOverDir then ["9"] else [])
    ++ (if fx.fsyncResolve then ["10"] else []) ++ (if fx.syncRenameBoth then ["11"] else [])
    ++ (if fx.crashTree then ["12a"] else []))

/-- all repair-flag combinations, fewest flags first -/
def allFixes : List Fixes :=
  let bools := [false, true]
  let all : List Fixes := bools.flatMap fun a => bools.flatMap fun b => bools.flatMap fun c =>
    bools.flatMap fun d => bools.flatMap fun e => bools.flatMap fun f => bools.flatMap fun g => bools.map fun h =>
      { readOrder := a, renameKind := b, childRenamedIn := c, createOverDir := d, syncRenameBoth := e,
        fsyncResolve := f, dataKeyResolve := g, crashTree := h }
  let cnt (f : Fixes) : Nat := ((fxName f).splitOn "+").length
  (all.filter (· != {})).toArray.qsort (fun x y => cnt x < cnt y) |>.toList

structure Acc where
  sts : Array St := #[St.init, St.init]
  sps : Array Spec := #[Spec.init, Spec.init]
  crashed : Array Bool := #[false, false]
  taints : Array (List Taint) := #[[], []]
  -- is the history of each fs instance inside the proved fragments (up to its first crash)?
  -- `inFrag` / `inFlat`: the fragments of `C10_partial` / `C07_partial` (`fragOkC`, `flatRunC`; the flat
  -- one also needs the atomic-write configuration); `…0`: the fragments before the widening
  inFrag : Array Bool := #[true, true]
  inFlat : Array Bool := #[true, true]
  inFrag0 : Array Bool := #[true, true]
  inFlat0 : Array Bool := #[true, true]
  used : Array Bool := #[false, false]
  v : Verdict := {}

/-- one model step + one spec step (`opS` differs from `op` only in the second half of a `copy`, where
    each side writes the bytes it has read itself); `okLen`: render `ok` as `ok <n>` (`copy`) -/
def evalOne (prop : String) (cfg : Cfg) (fx : Fixes) (a : Acc) (line h : Nat) (op opS : Op) (ora : Ora)
    (implObs : String) (okLen : Option Nat := none) : Acc := Id.run do
  let mut a := a
  let mut v := a.v
  let st := a.sts[h]!
  let sp := a.sps[h]!
  let render (o : Obs) : String := match o, okLen with
    | .ok, some n => s!"ok {n}"
    | o, _ => renderObs o
  v := { v with cov := addCov v.cov (covOf st op ora) }
  let (st1, mo) := if fx == {} then step cfg st op ora else stepFx fx cfg st op ora
  let (sp1, so) := if fx == {} then sStep cfg sp opS ora else sStepFx fx cfg sp opS ora
  a := { a with sts := a.sts.set! h st1, sps := a.sps.set! h sp1 }
  let ts0 := (monStepOk a.taints[h]! st sp op (mo == .ok)).filter fun t => !(repairedIds fx).contains t.1
  -- C07 does not compare the results of single ops.  When model and durable spec disagree on whether
  -- the op succeeded, the two trees differ from here on at every path the op addresses: what explains
  -- a divergence at a related path (e.g. the op runs inside a directory that finding 5 renamed)
  -- explains the divergence at those paths too.  (In C10 such an op is an O failure on the spot.)
  -- finding 4 through the random background sync (the oracle says whether it happened)
  let ts0 := if ora.coin && patCoinSyncReorders st op && !(repairedIds fx).contains 4
             then ts0 ++ (opPaths st op).map fun p => (4, p) else ts0
  let isErr (o : Obs) : Bool := match o with | .err _ => true | _ => false
  let ts := if prop == "C07" && (isErr mo != isErr so) then
      let ps := opPaths st op
      ts0 ++ (ts0.filter fun t => ps.any fun p => related t.2 p).flatMap fun t => ps.map fun p => (t.1, p)
    else ts0
  a := { a with taints := a.taints.set! h ts, used := a.used.set! h true }
  if !a.crashed[h]! && op != .crash then
    a := { a with inFrag := a.inFrag.set! h (a.inFrag[h]! && fragOkC op && !ora.coin),
                  inFlat := a.inFlat.set! h (a.inFlat[h]! && fragOkC op && opFlat op && !ora.coin && cfg.block.isNone),
                  inFrag0 := a.inFrag0.set! h (a.inFrag0[h]! && fragOk sp.l op && !ora.coin),
                  inFlat0 := a.inFlat0.set! h (a.inFlat0[h]! && fragOk sp.l op && opFlat op && !ora.coin
                    && cfg.block.isNone) }
  for t in patternsAt st sp op do
    v := { v with cov := addCov v.cov [s!"hit{t.1}"] }
  -- C07 compares the view *right after* a crash: any later mutation ends that window
  let observer := match op with
    | .dump _ => true | .stat _ => true | .exists _ => true | .readDir _ => true | .readFile _ => true
    | _ => false
  if op == .crash then a := { a with crashed := a.crashed.set! h true }
  else if !observer then a := { a with crashed := a.crashed.set! h false }
  let ms := render mo
  if v.kOk && ms != implObs then
    v := { v with kOk := false, kLine := line, kDetail := s!"model={ms} impl={implObs}" }
  if v.oOk then
    let ss := render so
    let bad : List Path :=
      if prop == "C10" then
        if ss == implObs then [] else
        match op with
        | .dump _ => dumpDiff false sp1 ss implObs
        | _ => let ps := opPaths st op; if ps.isEmpty then [[]] else ps
      else
        match op with
        | .dump _ => if a.crashed[h]! then dumpDiff true sp1 ss implObs else []
        | _ => []
    -- what is observable is a well-formed tree, whatever the spec says about the single paths (in C07 a
    -- path below a non-durable ancestor is not compared, so an entry hanging in the air would go unseen)
    let shape : List Path := match op with
      | .dump _ => if bad.isEmpty then treeViolations implObs else []
      | _ => []
    let shapeOnly := bad.isEmpty && !shape.isEmpty
    let bad := if shapeOnly then shape else bad
    if !bad.isEmpty then
      -- C07: growing past a pending SetLen (finding 1) is a live-view defect only; it never
      -- reaches the durable image, so it explains nothing there
      -- (the same holds for finding 6: two pending renames are flushed in order by sync_dir)
      -- finding 11 is a durability defect only (the live view is right)
      -- finding 12 (directories keyed by path) is a durability defect only; it is the explanation of
      -- last resort (its second trigger fires on every re-created directory name)
      let ts := if prop == "C07" then
                  let ts := ts.filter (fun t => t.1 != 1 && t.1 != 6)
                  ts.filter (fun t => t.1 != 12 && t.1 != 13) ++ ts.filter (fun t => t.1 == 12 || t.1 == 13)
                else ts.filter (fun t => t.1 != 11 && t.1 != 12 && t.1 != 13)
      let pat := match explain ts bad with
        | some n => findingId prop n
        | none => "none"
      let lbl := if shapeOnly then "not-a-tree:expected" else if prop == "C10" then "posix" else "durable"
      v := { v with oOk := false, oLine := line, pattern := pat,
                    oDetail := s!"at={" ".intercalate (bad.map renderPath)} {lbl}={ss} impl={implObs}" }
  return { a with v := v }

/-- `std::fs::copy(p, q)` = `read(p)` then `write(q, bytes)`.  The read half is compared against the
    model's own result (under K the implementation's), so a live-view divergence at `p` is an O failure
    there; the write half carries the recorded observation (`ok <len>` or the write's error). -/
def evalCopy (prop : String) (cfg : Cfg) (fx : Fixes) (a : Acc) (line h : Nat) (p q : Path) (ora : Ora)
    (implObs : String) : Acc :=
  let st := a.sts[h]!
  let sp := a.sps[h]!
  let mo := (if fx == {} then step cfg st (.readFile p) {} else stepFx fx cfg st (.readFile p) {}).2
  let so := (if fx == {} then sStep cfg sp (.readFile p) {} else sStepFx fx cfg sp (.readFile p) {}).2
  match mo with
  | .data bm =>
    let bs := match so with | .data b => b | _ => bm
    let a1 := evalOne prop cfg fx a line h (.readFile p) (.readFile p) {} (renderObs mo)
    let tp := a1.taints[h]!.filter fun t => t.2 == p
    let a2 := evalOne prop cfg fx a1 line h (.writeFile q bm) (.writeFile q bs) ora implObs (some bm.length)
    -- what was wrong at `p` is now wrong at `q` too
    { a2 with taints := a2.taints.set! h (a2.taints[h]! ++ tp.map fun t => (t.1, q)) }
  | _ => evalOne prop cfg fx a line h (.readFile p) (.readFile p) {} implObs

/-- `File::try_clone`: a second handle on the same file with its own cursor at 0 (as documented by the
    shim; `dup(2)` would share the cursor) -/
def evalClone (prop : String) (a : Acc) (line h s s2 : Nat) (implObs : String) : Acc := Id.run do
  let st := a.sts[h]!
  let sp := a.sps[h]!
  let (st1, mo) : St × Obs := match getSlot st s with
    | some hd => (setSlot st s2 { hd with cursor := 0 }, .ok)
    | none => (st, .noslot)
  let (sp1, so) : Spec × Obs := match sGetSlot sp.l s with
    | some hd => ({ sp with l := sSetSlot sp.l s2 { hd with cursor := 0 } }, .ok)
    | none => (sp, .noslot)
  let mut v := a.v
  v := { v with cov := addCov v.cov ["clone"] }
  if v.kOk && renderObs mo != implObs then
    v := { v with kOk := false, kLine := line, kDetail := s!"model={renderObs mo} impl={implObs}" }
  if v.oOk && prop == "C10" && renderObs so != implObs then
    v := { v with oOk := false, oLine := line, oDetail := s!"at=/ posix={renderObs so} impl={implObs}" }
  return { a with sts := a.sts.set! h st1, sps := a.sps.set! h sp1, used := a.used.set! h true,
                  inFrag := a.inFrag.set! h false, inFlat := a.inFlat.set! h false,
                  inFrag0 := a.inFrag0.set! h false, inFlat0 := a.inFlat0.set! h false, v := v }

def evalCase (prop : String) (c : CaseIn) (fx : Fixes := {}) : Verdict := Id.run do
  let cfg : Cfg := { block := c.block }
  let mut a : Acc := {}
  for r in c.recs do
    let h := r.host % 2
    match r.ext, r.op with
    | some (.copy p q), _ => a := evalCopy prop cfg fx a r.line h p q r.ora r.obs
    | some (.clone s s2), _ => a := evalClone prop a r.line h s s2 r.obs
    | none, none =>
      if a.v.kOk then a := { a with v := { a.v with kOk := false, kLine := r.line, kDetail := "unparsed op" } }
    | none, some op => a := evalOne prop cfg fx a r.line h op op r.ora r.obs
  let allOf (x : Array Bool) : Bool := (List.range 2).all fun i => !a.used[i]! || x[i]!
  return { a.v with cov := addCov a.v.cov ((if allOf a.inFrag then ["infrag"] else [])
    ++ (if allOf a.inFlat then ["inflat"] else []) ++ (if allOf a.inFrag0 then ["infrag0"] else [])
    ++ (if allOf a.inFlat0 then ["inflat0"] else [])) }

/-! ### trace reader -/

def parseCfg (c : CaseIn) (toks : List String) : CaseIn := Id.run do
  let mut c := c
  for kv in toks do
    match kv.splitOn "=" with
    | ["block", v] => c := { c with block := if natOf v = 0 then none else some (natOf v) }
    | ["pool", v] => c := { c with pool := (v.splitOn ",").filter (· ≠ "") |>.map parsePath }
    | _ => pure ()
  return c

def parseFx (s : String) : Fixes :=
  let toks := s.splitOn "+"
  let ids := toks.map natOf
  { readOrder := ids.contains 1, renameKind := ids.contains 5, childRenamedIn := ids.contains 7,
    createOverDir := ids.contains 9, syncRenameBoth := ids.contains 11, fsyncResolve := ids.contains 10,
    dataKeyResolve := ids.contains 3, crashTree := toks.contains "12a" }

def noFx : Fixes := {}

/-- the variant tried first (`--fx 1+9`; default: the repairs committed in /repo) -/
initialize baseFx : IO.Ref Fixes ← IO.mkRef Fixes.committed

def fxLabel (fx : Fixes) : String := if fx == noFx then "before-repairs" else fxName fx

def finishCase (prop : String) (memo : IO.Ref (Option Fixes)) (c : CaseIn) : IO (Bool × Bool) := do
  let base ← baseFx.get
  let v0 := evalCase prop c base
  -- On a mismatch with the model of the committed code try the other variants (the one that matched
  -- the previous case first).  A variant with *more* repairs than the base is a newer tree: K ok,
  -- `fixed:<ids>`.  If only a variant that lacks a committed repair replays, the implementation has
  -- fallen back behind a repair: K stays a mismatch, the variant is reported as `regressed:<ids>`.
  let last ← memo.get
  -- candidates: the variant that matched last, then all others, nearest to the base first
  let flags (f : Fixes) : List Bool := [f.readOrder, f.renameKind, f.childRenamedIn, f.createOverDir,
    f.syncRenameBoth, f.fsyncResolve, f.dataKeyResolve, f.crashTree]
  let dist (f : Fixes) : Nat := ((flags f).zip (flags base)).foldl (fun n ab => if ab.1 != ab.2 then n + 1 else n) 0
  let cands : List Fixes := (match last with | some f => [f] | none => [])
    ++ ((allFixes ++ [noFx]).toArray.qsort (fun x y => dist x < dist y)).toList
  let found : Option (Fixes × Verdict) :=
    if v0.kOk then none
    else cands.findSome? fun fx =>
      if fx == base then none else
      let v := evalCase prop c fx; if v.kOk then some (fx, v) else none
  if let some (fx, _) := found then memo.set (some fx)
  let (v, variantOk) : Verdict × String := match found with
    | some (fx, v) =>
      if fx.includes base then (v, s!"fixed:{fxLabel fx}")
      else ({ v0 with kDetail := v0.kDetail ++ s!" [replays on variant {fxLabel fx}]" }, s!"regressed:{fxLabel fx}")
    | none => (v0, "faithful")
  let pattern := v.pattern
  let line := if !v.kOk then v.kLine else if !v.oOk then v.oLine else 0
  let detail := if !v.kOk then "K: " ++ v.kDetail else if !v.oOk then "O: " ++ v.oDetail else "-"
  let variant := if v.kOk then variantOk else if variantOk.startsWith "regressed" then variantOk else "-"
  let cov := if v.cov.isEmpty then "-" else ",".intercalate v.cov
  IO.println s!"CASE {c.n} K={if v.kOk then "ok" else "mismatch"} O={if v.oOk then "ok" else "fail"} variant={variant} pattern={pattern} line={line} cov={cov} detail={detail}"
  return (v.kOk, v.oOk)

partial def readLoop (prop : String) (memo : IO.Ref (Option Fixes)) (h : IO.FS.Handle) (lineNo : Nat) (cur : Option CaseIn)
    (cases kmis ofail : Nat) : IO (Nat × Nat × Nat) := do
  let raw ← h.getLine
  if raw.isEmpty then
    match cur with
    | some c =>
      let (k, o) ← finishCase prop memo c
      return (cases + 1, kmis + (if k then 0 else 1), ofail + (if o then 0 else 1))
    | none => return (cases, kmis, ofail)
  else
    let l := (raw.trimAsciiEnd).toString
    let lineNo := lineNo + 1
    let toks := (l.splitOn " ").filter (· ≠ "")
    match toks with
    | "CASE" :: n :: _ => readLoop prop memo h lineNo (some { n := n }) cases kmis ofail
    | "CFG" :: rest =>
      readLoop prop memo h lineNo (cur.map fun c => parseCfg c rest) cases kmis ofail
    | "OP" :: actor :: rest =>
      let c := cur.getD {}
      let host := natOf (actor.drop 1).toString
      let r : Rec := { line := lineNo, host := host, op := parseOp c.pool rest, ext := parseExt rest }
      readLoop prop memo h lineNo (some { c with recs := c.recs.push r }) cases kmis ofail
    | "ORA" :: kind :: val :: _ =>
      let c := cur.getD {}
      let recs := if c.recs.isEmpty then c.recs else
        c.recs.modify (c.recs.size - 1) fun r =>
          if kind = "coin" then { r with ora := { r.ora with coin := natOf val != 0 } }
          else if kind = "torn" then { r with ora := { r.ora with torn := r.ora.torn ++ [natOf val] } }
          else r
      readLoop prop memo h lineNo (some { c with recs := recs }) cases kmis ofail
    | "OBS" :: _ =>
      let c := cur.getD {}
      let obs := (l.drop 4).toString
      let recs := if c.recs.isEmpty then c.recs.push { line := lineNo, host := 0, op := none, obs := obs } else
        c.recs.modify (c.recs.size - 1) fun r => { r with obs := obs }
      readLoop prop memo h lineNo (some { c with recs := recs }) cases kmis ofail
    | ["END"] =>
      match cur with
      | some c =>
        let (k, o) ← finishCase prop memo c
        readLoop prop memo h lineNo none (cases + 1) (kmis + (if k then 0 else 1)) (ofail + (if o then 0 else 1))
      | none => readLoop prop memo h lineNo none cases kmis ofail
    | _ => readLoop prop memo h lineNo cur cases kmis ofail

/-! ### pure-Lean enumeration: impl model vs spec (no Rust involved) -/

def A : Nat := encName "a"
def B : Nat := encName "b"
def D : Nat := encName "d"
def E : Nat := encName "e"

def enumPool : List Path := [[A], [B], [D], [E], [D, A], [E, A]]

def renderOp : Op → String
  | .open s p fl => s!"open {s} {renderPath p} {if fl.r then "r" else ""}{if fl.w then "w" else ""}{if fl.a then "a" else ""}{if fl.c then "c" else ""}{if fl.t then "t" else ""}{if fl.n then "n" else ""}"
  | .close s => s!"close {s}"
  | .writeAt s off d => s!"write_at {s} {off} {hexOf d}"
  | .readAt s off n => s!"read_at {s} {off} {n}"
  | .write s d => s!"write {s} {hexOf d}"
  | .read s n => s!"read {s} {n}"
  | .seek s w off => s!"seek {s} {if w = 0 then "start" else if w = 1 then "cur" else "end"} {off}"
  | .setLen s n => s!"set_len {s} {n}"
  | .syncAll s => s!"sync_all {s}"
  | .syncData s => s!"sync_data {s}"
  | .hmeta s => s!"hmeta {s}"
  | .mkdir p => s!"mkdir {renderPath p}"
  | .mkdirAll p => s!"mkdir_all {renderPath p}"
  | .rmdir p => s!"rmdir {renderPath p}"
  | .rmdirAll p => s!"rmdir_all {renderPath p}"
  | .unlink p => s!"unlink {renderPath p}"
  | .rename p q => s!"rename {renderPath p} {renderPath q}"
  | .syncDir p => s!"sync_dir {renderPath p}"
  | .readDir p => s!"read_dir {renderPath p}"
  | .stat p => s!"stat {renderPath p}"
  | .exists p => s!"exists {renderPath p}"
  | .readFile p => s!"readfile {renderPath p}"
  | .writeFile p d => s!"writefile {renderPath p} {hexOf d}"
  | .dump _ => "dump"
  | .crash => "crash"

def renderMacro (m : List Op) : String := " ; ".intercalate (m.map renderOp)

/-- all lists of length `n` over `alpha` -/
def allLists {α : Type} (alpha : List α) : Nat → List (List α)
  | 0 => [[]]
  | n + 1 => (allLists alpha n).flatMap fun l => alpha.map fun a => a :: l

def enumRun (prop : String) (len : Nat) (full : Bool) : IO Unit := do
  let alpha := macroAlphabet A B D E full
  let mut total := 0
  let mut bad := 0
  let mut unexplained := 0
  let mut byPat : List (String × Nat) := []
  for h in allLists alpha len do
    total := total + 1
    -- C10: dump after every macro op; C07: crash + dump at the end
    let ops : List Op :=
      if prop == "C10" then h.flatMap fun m => m ++ [.dump enumPool]
      else h.flatMap id ++ [.crash, .dump enumPool]
    let mut st := St.init
    let mut sp := Spec.init
    let mut ts : List Taint := []
    let mut ok := true
    let mut idx := 0
    let mut detail := ""
    let mut pat := "none"
    for op in ops do
      let (st1, mo) := stepFx Fixes.committed {} st op {}
      let (sp1, so) := sStepFx Fixes.committed {} sp op {}
      ts := (monStepOk ts st sp op (mo == .ok)).filter fun t => !(repairedIds Fixes.committed).contains t.1
      if ok then
        let badp : List Path :=
          if prop == "C10" then
            if renderObs mo == renderObs so then [] else
            match op with
            | .dump _ => dumpDiff false sp1 (renderObs so) (renderObs mo)
            | _ => let ps := opPaths st op; if ps.isEmpty then [[]] else ps
          else match op with
            | .dump _ => dumpDiff true sp1 (renderObs so) (renderObs mo)
            | _ => []
        if !badp.isEmpty then
          ok := false
          let tse := if prop == "C07" then ts.filter (fun t => t.1 != 12 && t.1 != 13) ++ ts.filter (fun t => t.1 == 12 || t.1 == 13)
                     else ts.filter (fun t => t.1 != 11 && t.1 != 12 && t.1 != 13)
          pat := match explain tse badp with | some n => findingId prop n | none => "none"
          detail := s!"at op {idx} ({renderOp op}): impl={renderObs mo} spec={renderObs so}"
      st := st1
      sp := sp1
      idx := idx + 1
    if !ok then
      bad := bad + 1
      byPat := match byPat.find? (·.1 == pat) with
        | some _ => byPat.map fun kv => if kv.1 == pat then (kv.1, kv.2 + 1) else kv
        | none => byPat ++ [(pat, 1)]
      if pat == "none" then
        unexplained := unexplained + 1
        if unexplained ≤ 40 then
          IO.println s!"DIVERGE [{" | ".intercalate (h.map renderMacro)}] {detail}"
    else
      -- soundness direction of the classification is not required, but report over-matching
      pure ()
  IO.println s!"ENUM prop={prop} len={len} total={total} diverging={bad} unexplained={unexplained} byPattern={byPat}"

end Drv

def main (args : List String) : IO UInt32 := do
  match args with
  | ["enum", prop, len] => Drv.enumRun prop len.toNat! false; return 0
  | ["enum", prop, len, "full"] => Drv.enumRun prop len.toNat! true; return 0
  | [prop, file, "--fx", fx] =>
    Drv.baseFx.set (Drv.parseFx fx)
    let h ← IO.FS.Handle.mk file .read
    let memo ← IO.mkRef (none : Option TV.Fs.Fixes)
    let (cases, kmis, ofail) ← Drv.readLoop prop memo h 0 none 0 0 0
    IO.println s!"SUMMARY cases={cases} kmismatch={kmis} ofail={ofail}"
    return 0
  | [prop, file] =>
    let h ← IO.FS.Handle.mk file .read
    let memo ← IO.mkRef (none : Option Fixes)
    let (cases, kmis, ofail) ← Drv.readLoop prop memo h 0 none 0 0 0
    IO.println s!"SUMMARY cases={cases} kmismatch={kmis} ofail={ofail}"
    return 0
  | _ =>
    IO.eprintln "usage: tvfsdriver <C07|C10> <trace> | tvfsdriver enum <C07|C10> <len> [full]"
    return 2
