/-
  The fragment of histories for which `C10_partial` is proved: every op except rename, remove_file,
  remove_dir, remove_dir_all (no namespace removal), with no *shrinking* `set_len` / truncating open
  of a non-empty file, and no file creation over a directory; `create_dir_all` is not covered by the
  proof (it is covered by K/O).  The conditions are decidable and are judged against the POSIX tree
  the op meets.
-/
import TvFs.Model.Spec

namespace TV.Fs

def isFileAt (l : Live) (p : Path) : Bool :=
  match entAt l p with
  | some (.file _) => true
  | _ => false

def emptyOrAbsent (l : Live) (p : Path) : Bool :=
  match entAt l p with
  | some (.file id) => (liveContent l id).isEmpty
  | _ => true

def fragOk (l : Live) : Op → Bool
  | .open _ p fl => !((fl.c || fl.n) && isDirAt l p) && (!(fl.t && fl.w) || emptyOrAbsent l p)
  | .close _ => true
  | .writeAt _ _ _ => true
  | .readAt _ _ _ => true
  | .write _ _ => true
  | .read _ _ => true
  | .seek _ _ _ => true
  | .setLen s n =>
    match sGetSlot l s with
    | some h => !h.writable || decide ((liveContent l h.fid).length ≤ n)
    | none => true
  | .syncAll _ => true
  | .syncData _ => true
  | .hmeta _ => true
  | .mkdir _ => true
  | .syncDir _ => true
  | .stat _ => true
  | .exists _ => true
  | .readFile _ => true
  | .readDir _ => true
  | .dump _ => true
  | .writeFile p _ => !(isDirAt l p) && emptyOrAbsent l p
  | _ => false

/-- The fragment of `C10_partial` on the committed code.  With F-C10-1 and F-C10-9 repaired nothing
    depends on the state any more: every call except namespace removal / rename (`remove_file`,
    `remove_dir`, `remove_dir_all`, `rename` — open findings F-C10-2,3,4,5,6,8) and `create_dir_all`
    (not covered by the proof). -/
def fragOkC : Op → Bool
  | .mkdirAll _ => false
  | .rmdir _ => false
  | .rmdirAll _ => false
  | .unlink _ => false
  | .rename _ _ => false
  | .crash => false
  | _ => true

def fragRunC (h : List Op) : Bool := h.all fragOkC

/-- the whole history stays inside the fragment -/
def fragRun : Live → List Op → Bool
  | _, [] => true
  | l, op :: r => fragOk l op && fragRun (lStep l op).1 r

/-! ### the flat fragment of `C07_partial`: fragment ops on files directly under the root -/

def opFlat : Op → Bool
  | .open _ p _ => p.length == 1
  | .writeFile p _ => p.length == 1
  | .mkdir _ => false
  | .syncDir p => p == []
  | _ => true

/-- the flat fragment of `C07_partial` on the committed code (state independent, see `fragOkC`) -/
def flatRunC (h : List Op) : Bool := h.all fun op => fragOkC op && opFlat op

def flatRun : Live → List Op → Bool
  | _, [] => true
  | l, op :: r => fragOk l op && opFlat op && flatRun (lStep l op).1 r

end TV.Fs
