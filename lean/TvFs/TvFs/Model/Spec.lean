/-
  Specification side of C10 / C07.

  (a) live view (`Live`, `lStep`): a plain POSIX tree.  The namespace is a flat map `path ↦ file id | dir id`
      (the root is implicit, dir id 0); file contents live in a map keyed by file id, so an open
      handle, a rename or an unlink never confuse two files that happened to share a name.
  (b) durable image (inode level): per directory id the set of *durable* children
      (`dents`, replaced by the live children on `sync_dir`), per file id the content at its last
      data sync (`dur`).  A crash rebuilds the namespace from `dents` starting at the root and
      resets every content to `dur`; everything else is rolled back.

  Error classes follow POSIX, with a documented leniency where the implementation reports a
  plain `notfound` for "exists but has the wrong kind" (see NOTES.md).
-/
import TvFs.Model.Fs

namespace TV.Fs

inductive Ent where
  | file (id : Nat)
  | dir (id : Nat)
  deriving DecidableEq, Repr, Inhabited

structure SHandle where
  fid : Nat
  readable : Bool
  writable : Bool
  append : Bool
  cursor : Nat
  deriving DecidableEq, Repr, Inhabited

/-- (a) the live POSIX tree -/
structure Live where
  ents : List (Path × Ent) := []                   -- namespace (root implicit)
  live : Nat → Bytes := fun _ => []                -- content per file id
  next : Nat := 1
  handles : Nat → Option SHandle := fun _ => none  -- the harness' handle slots
  deriving Inhabited

/-- (a) + (b): the live tree and the inode-level durable image -/
structure Spec where
  l : Live := {}
  dur : List (Nat × Bytes) := []            -- content at the last data sync per file id
  dents : List ((Nat × Nat) × Ent) := []    -- durable children: (dir id, name) ↦ entry
  wlog : List (Nat × Nat × Bytes) := []     -- unsynced writes (file id, offset, data), in order
  touched : List (Ent × Nat × (Nat × Nat)) := []   -- ghost, used by the F-11 variant only (Model/Fixed.lean):
                                            -- (entry, dir id, dest) = an unsynced rename of the entry
                                            -- involves that directory and put the entry at `dest`
                                            -- (dir id, name)
  deriving Inhabited

def Live.init : Live := {}
def Spec.init : Spec := {}

def nlookup {α : Type} (k : Nat) : List (Nat × α) → Option α
  | [] => none
  | (k', v) :: r => if k' = k then some v else nlookup k r

def ninsert {α : Type} (k : Nat) (v : α) (l : List (Nat × α)) : List (Nat × α) :=
  (l.filter fun kv => kv.1 != k) ++ [(k, v)]

def elookup (k : Path) : List (Path × Ent) → Option Ent
  | [] => none
  | (k', v) :: r => if k' = k then some v else elookup k r

def entAt (sp : Live) (p : Path) : Option Ent :=
  if p = [] then some (.dir 0) else elookup p sp.ents

def isDirAt (sp : Live) (p : Path) : Bool :=
  match entAt sp p with
  | some (.dir _) => true
  | _ => false

def sParentIsDir (sp : Live) (p : Path) : Bool :=
  match parent p with
  | none => true
  | some d => isDirAt sp d

def liveContent (sp : Live) (id : Nat) : Bytes := sp.live id

def setLive (sp : Live) (id : Nat) (c : Bytes) : Live :=
  { sp with live := fun j => if j = id then c else sp.live j }

def sChildren (sp : Live) (p : Path) : List (Path × Ent) := sp.ents.filter fun kv => isChildOf kv.1 p

def sChildNames (sp : Live) (p : Path) : List Nat := sortDedup ((sChildren sp p).map fun kv => kv.1.getLastD 0)

def setEnt (sp : Live) (p : Path) (e : Ent) : Live :=
  { sp with ents := (sp.ents.filter fun kv => kv.1 != p) ++ [(p, e)] }

def delEnt (sp : Live) (p : Path) : Live := { sp with ents := sp.ents.filter fun kv => kv.1 != p }

/-- `q` is `p` or lies below `p` -/
def hasPrefix (p q : Path) : Bool := p.isPrefixOf q

def sView (sp : Live) (p : Path) : View :=
  match entAt sp p with
  | some (.file id) => .file (liveContent sp id).length (liveContent sp id)
  | some (.dir _) => .dir (sChildNames sp p)
  | none => .none

def sGetSlot (sp : Live) (i : Nat) : Option SHandle := sp.handles i
def sDropSlot (sp : Live) (i : Nat) : Live :=
  { sp with handles := fun j => if j = i then none else sp.handles j }
def sSetSlot (sp : Live) (i : Nat) (h : SHandle) : Live :=
  { sp with handles := fun j => if j = i then some h else sp.handles j }

def sWrite (sp : Live) (id off : Nat) (d : Bytes) : Live :=
  if d.isEmpty then sp else setLive sp id (writeAt (liveContent sp id) off d)

def sSetLen (sp : Live) (id n : Nat) : Live :=
  setLive sp id (resize (liveContent sp id) n)

/-- open(2) on the namespace; returns the file id -/
def sOpen (sp : Live) (p : Path) (fl : Flags) : Except Err (Live × Nat) :=
  match entAt sp p with
  | some (.file id) =>
    if fl.n then .error .alreadyexists
    else if fl.t && fl.w then .ok (setLive sp id [], id)
    else .ok (sp, id)
  | some (.dir _) =>
    if fl.n then .error .alreadyexists
    else if fl.c then .error .isdir
    else .error .notfound            -- leniency: the shim reports "file not found"
  | none =>
    if fl.c || fl.n then
      if !(sParentIsDir sp p) then .error .notfound
      else
        let id := sp.next
        .ok ({ (setLive (setEnt sp p (.file id)) id []) with next := id + 1 }, id)
    else .error .notfound

def sMkdir (sp : Live) (p : Path) : Except Err Live :=
  if !(sParentIsDir sp p) then .error .notfound
  else if (entAt sp p).isSome then .error .alreadyexists
  else .ok { (setEnt sp p (.dir sp.next)) with next := sp.next + 1 }

def sRmdir (sp : Live) (p : Path) : Except Err Live :=
  if !(isDirAt sp p) then .error .notfound
  else if !(sChildren sp p).isEmpty then .error .notempty
  else .ok (delEnt sp p)

def sUnlink (sp : Live) (p : Path) : Except Err Live :=
  match entAt sp p with
  | some (.file _) => .ok (delEnt sp p)
  | _ => .error .notfound

def rebase (p q x : Path) : Path := q ++ x.drop p.length

def sRename (sp : Live) (p q : Path) : Except Err Live :=
  if !(sParentIsDir sp q) then .error .notfound
  else match entAt sp p with
    | some (.file id) =>
      if isDirAt sp q then .error .isdir
      else .ok (setEnt (delEnt sp p) q (.file id))
    | some (.dir _) =>
      match entAt sp q with
      | some (.file _) => .error .notdir
      | some (.dir _) =>
        if !(sChildren sp q).isEmpty then .error .notempty
        else
          let sp1 := delEnt sp q
          .ok { sp1 with ents := sp1.ents.map fun kv => if hasPrefix p kv.1 then (rebase p q kv.1, kv.2) else kv }
      | none =>
        .ok { sp with ents := sp.ents.map fun kv => if hasPrefix p kv.1 then (rebase p q kv.1, kv.2) else kv }
    | none => .error .notfound

def sRmdirAll (sp : Live) (p : Path) : Except Err Live :=
  if !(isDirAt sp p) then .error .notfound
  else .ok { sp with ents := sp.ents.filter fun kv => !(hasPrefix p kv.1) }

def sMkdirAllRun (sp : Live) : List Path → Except Err Live
  | [] => .ok sp
  | d :: r =>
    if (entAt sp d).isSome then sMkdirAllRun sp r
    else match sMkdir sp d with
      | .ok sp1 => sMkdirAllRun sp1 r
      | .error e => .error e

def prefixes (p : Path) : List Path := (List.range (p.length + 1)).map fun n => p.take n

def dirIdAt (sp : Live) (p : Path) : Option Nat :=
  match entAt sp p with
  | some (.dir id) => some id
  | _ => none

def lOfExcept (sp : Live) (r : Except Err Live) : Live × Obs :=
  match r with
  | .ok s => (s, .ok)
  | .error e => (sp, .err e)

/-- one call on the plain POSIX tree.  Syncs change nothing; `crash` is not a live operation
    (it is handled by `sStep`) and is a no-op here. -/
def lStep (sp : Live) (op : Op) : Live × Obs :=
  match op with
  | .open slot p fl =>
    let sp0 := sDropSlot sp slot
    match sOpen sp0 p fl with
    | .error e => (sp0, .err e)
    | .ok (sp1, id) =>
      (sSetSlot sp1 slot { fid := id, readable := fl.r, writable := fl.w || fl.a, append := fl.a, cursor := 0 }, .ok)
  | .close slot =>
    match sGetSlot sp slot with
    | none => (sp, .noslot)
    | some _ => (sDropSlot sp slot, .ok)
  | .writeAt slot off d =>
    match sGetSlot sp slot with
    | none => (sp, .noslot)
    | some h =>
      if !h.writable then (sp, .err .permissiondenied)
      else (sWrite sp h.fid off d, .okN d.length)
  | .readAt slot off len =>
    match sGetSlot sp slot with
    | none => (sp, .noslot)
    | some h =>
      if !h.readable then (sp, .err .permissiondenied)
      else (sp, .data (((liveContent sp h.fid).drop off).take len))
  | .write slot d =>
    match sGetSlot sp slot with
    | none => (sp, .noslot)
    | some h =>
      if !h.writable then (sp, .err .permissiondenied)
      else
        let off := if h.append then (liveContent sp h.fid).length else h.cursor
        (sSetSlot (sWrite sp h.fid off d) slot { h with cursor := off + d.length }, .okN d.length)
  | .read slot len =>
    match sGetSlot sp slot with
    | none => (sp, .noslot)
    | some h =>
      if !h.readable then (sp, .err .permissiondenied)
      else
        let b := ((liveContent sp h.fid).drop h.cursor).take len
        (sSetSlot sp slot { h with cursor := h.cursor + b.length }, .data b)
  | .seek slot whence off =>
    match sGetSlot sp slot with
    | none => (sp, .noslot)
    | some h =>
      let base : Int := if whence = 0 then 0 else if whence = 1 then (h.cursor : Int) else ((liveContent sp h.fid).length : Int)
      let np := base + off
      if np < 0 then (sp, .err .invalidinput)
      else (sSetSlot sp slot { h with cursor := np.toNat }, .okN np.toNat)
  | .setLen slot n =>
    match sGetSlot sp slot with
    | none => (sp, .noslot)
    | some h =>
      if !h.writable then (sp, .err .permissiondenied)
      else (sSetLen sp h.fid n, .ok)
  | .syncAll slot =>
    match sGetSlot sp slot with
    | none => (sp, .noslot)
    | some _ => (sp, .ok)
  | .syncData slot =>
    match sGetSlot sp slot with
    | none => (sp, .noslot)
    | some _ => (sp, .ok)
  | .hmeta slot =>
    match sGetSlot sp slot with
    | none => (sp, .noslot)
    | some h => (sp, .file (liveContent sp h.fid).length)
  | .mkdir p => lOfExcept sp (sMkdir sp p)
  | .mkdirAll p => lOfExcept sp (sMkdirAllRun sp (prefixes p).tail)
  | .rmdir p => lOfExcept sp (sRmdir sp p)
  | .rmdirAll p => lOfExcept sp (sRmdirAll sp p)
  | .unlink p => lOfExcept sp (sUnlink sp p)
  | .rename p q => lOfExcept sp (sRename sp p q)
  | .syncDir p => if isDirAt sp p then (sp, .ok) else (sp, .err .notfound)
  | .readDir p =>
    if isDirAt sp p then (sp, .entries (sChildNames sp p)) else (sp, .err .notfound)
  | .stat p =>
    match entAt sp p with
    | some (.file id) => (sp, .file (liveContent sp id).length)
    | some (.dir _) => (sp, .dir)
    | none => (sp, .err .notfound)
  | .exists p => (sp, .bool (entAt sp p).isSome)
  | .readFile p =>
    match entAt sp p with
    | some (.file id) => (sp, .data (liveContent sp id))
    | _ => (sp, .err .notfound)
  | .writeFile p d =>
    match sOpen sp p { w := true, c := true, t := true } with
    | .error e => (sp, .err e)
    | .ok (sp1, id) => (sWrite sp1 id 0 d, .ok)
  | .dump pool => (sp, .dump (([] :: pool).map fun p => (p, sView sp p)))
  | .crash => (sp, .ok)

def lRun : Live → List Op → List Obs
  | _, [] => []
  | sp, op :: r => (lStep sp op).2 :: lRun (lStep sp op).1 r

/-! ### (b) the durable image -/

/-- fsync of one file id: the durable content becomes the live content -/
def sFsync (l : Live) (sp : Spec) (id : Nat) : Spec :=
  { sp with dur := ninsert id (liveContent l id) sp.dur, wlog := sp.wlog.filter fun w => w.1 != id }

/-- fsync of a directory: its durable children become its live children.  Following the crate's
    model an entry that was renamed *into* the directory loses its old durable name at the same time
    (the rename is flushed as one op); an entry renamed *out* of it is simply no longer durable here
    (it becomes durable at its new place only when that parent is synced).  The directory's *own*
    entry becomes durable if the parent has no durable entry of that name. -/
def sSyncDir (l : Live) (sp : Spec) (p : Path) : Spec :=
  match dirIdAt l p with
  | none => sp
  | some id =>
    let kids : List ((Nat × Nat) × Ent) := (sChildren l p).map fun kv => ((id, kv.1.getLastD 0), kv.2)
    let others := sp.dents.filter fun kv => kv.1.1 != id && !(kids.any fun k => k.2 == kv.2)
    let d1 := others ++ kids
    let d2 := match parent p with
      | none => d1
      | some par =>
        match dirIdAt l par with
        | none => d1
        | some pid =>
          let key := (pid, p.getLastD 0)
          if d1.any (fun kv => kv.1 == key) then d1 else d1 ++ [(key, .dir id)]
    { sp with dents := d2 }

/-- the durable-side bookkeeping of one (non-crash) op; `l` is the live tree before the op,
    `l'` after it, `o` its result -/
def dStep (sp : Spec) (l l' : Live) (op : Op) (o : Obs) (ora : Ora) : Spec :=
  let logWrite (id off : Nat) (d : Bytes) : Spec :=
    let sp1 := if d.isEmpty then sp else { sp with wlog := sp.wlog ++ [(id, off, d)] }
    if ora.coin then sFsync l' sp1 id else sp1
  match op with
  | .writeAt slot off d =>
    match sGetSlot l slot, o with
    | some h, .okN _ => logWrite h.fid off d
    | _, _ => sp
  | .write slot d =>
    match sGetSlot l slot, o with
    | some h, .okN _ => logWrite h.fid (if h.append then (liveContent l h.fid).length else h.cursor) d
    | _, _ => sp
  | .setLen slot _ =>
    match sGetSlot l slot, o with
    | some h, .ok => if ora.coin then sFsync l' sp h.fid else sp
    | _, _ => sp
  | .writeFile p d =>
    match entAt l' p, o with
    | some (.file id), .ok => logWrite id 0 d
    | _, _ => sp
  | .syncAll slot =>
    match sGetSlot l slot with
    | some h => sFsync l sp h.fid
    | none => sp
  | .syncData slot =>
    match sGetSlot l slot with
    | some h => sFsync l sp h.fid
    | none => sp
  | .syncDir p => sSyncDir l sp p
  | _ => sp

/-- rebuild the namespace from the durable children maps, breadth first from the root -/
def rebuild (dents : List ((Nat × Nat) × Ent)) : Nat → List (Path × Nat) → List (Path × Ent)
  | 0, _ => []
  | fuel + 1, frontier =>
    let found : List (Path × Ent) := frontier.flatMap fun (pd : Path × Nat) =>
      (dents.filter fun kv => kv.1.1 == pd.2).map fun kv => (pd.1 ++ [kv.1.2], kv.2)
    if found.isEmpty then [] else
    let nextFrontier : List (Path × Nat) := found.filterMap fun pe =>
      match pe.2 with
      | .dir id => some (pe.1, id)
      | .file _ => none
    found ++ rebuild dents fuel nextFrontier

/-- torn writes on the durable contents: one oracle value per unsynced write of a file whose id is
    reachable in the durable namespace -/
def sTorn (reach : List Nat) (block : Nat) : List (Nat × Nat × Bytes) → List Nat → List (Nat × Bytes) → List (Nat × Bytes)
  | [], _, dur => dur
  | (id, off, d) :: r, ora, dur =>
    if !(reach.contains id) then sTorn reach block r ora dur
    else
      let surv := ora.headD 0
      let rest := ora.drop 1
      if surv = 0 then sTorn reach block r rest dur
      else
        let c := (nlookup id dur).getD []
        sTorn reach block r rest (ninsert id (writeAt c off (d.take (min (surv * block) d.length))) dur)

def sCrash (sp : Spec) (block : Option Nat) (torn : List Nat) : Spec :=
  let ents := rebuild sp.dents 8 [([], 0)]
  let reach := ents.filterMap fun pe => match pe.2 with | .file id => some id | .dir _ => none
  let dur1 := match block with
    | some b => sTorn reach b sp.wlog torn sp.dur
    | none => sp.dur
  { l := { ents := ents, live := fun id => (nlookup id dur1).getD [], next := sp.l.next, handles := fun _ => none },
    dur := dur1, dents := sp.dents, wlog := [] }

/-- one call on the specification: the live tree steps by `lStep`, the durable image by `dStep` -/
def sStep (cfg : Cfg) (sp : Spec) (op : Op) (ora : Ora) : Spec × Obs :=
  match op with
  | .crash => (sCrash sp cfg.block ora.torn, .ok)
  | _ =>
    let r := lStep sp.l op
    ({ (dStep sp sp.l r.1 op r.2 ora) with l := r.1 }, r.2)

def sRun (cfg : Cfg) : Spec → List (Op × Ora) → List Obs
  | _, [] => []
  | sp, (op, ora) :: r =>
    let (sp1, o) := sStep cfg sp op ora
    o :: sRun cfg sp1 r

def sRunSt (cfg : Cfg) : Spec → List (Op × Ora) → Spec
  | sp, [] => sp
  | sp, (op, ora) :: r => sRunSt cfg (sStep cfg sp op ora).1 r

/-- every proper ancestor of `p` is a directory of the (post-crash) tree -/
def ancestorsAreDirs (sp : Live) (p : Path) : Bool :=
  (List.range p.length).all fun n => isDirAt sp (p.take n)

end TV.Fs
